(* PipelineFilesFacts.v -- lemmas about the whole-program models with file arguments (coq/PipelineFiles.v);
   statements in Prop_C17_files.v. *)
From Coq Require Import ZArith List Bool Ascii String Lia ZifyBool.
From Cnfgen Require Import Sem Comb Linear IR Text Dimacs OpbText OpbTextFacts Cli GraphSpec GText GraphIO Subst FamTab FamFast
     Fam_php Fam_count Fam_cliquecol Fam_subsetcard C02Common Fam_tseitin Fam_coloring Fam_domset Fam_subgraph
     C03_Util Fam_ordering Fam_ramsey Fam_cpls Fam_pebbling PipelineGraph.
From Cnfgen Require PipelinePbFacts.
From Cnfgen Require Import TextFacts PipelineOptFacts SemFacts GraphSpecFacts IRFacts IRRange SubstFacts DimacsFacts EndToEnd CliFacts FamFastFacts
     FamRange_Util FamRange_C01 FamRange_C02 FamRange_C03 C03_UtilFacts GraphIOFacts GraphIOSound PipelineGraphFacts Pipeline
     PipelineFacts PipelineFiles.
Import ListNotations.
Open Scope Z_scope.
Ltac Zify.zify_post_hook ::= Z.to_euclidean_division_equations.

(* ------------------------------------------------------------------ *)
(* the repeated parsers are the parsers of Pipeline.v                  *)
(* ------------------------------------------------------------------ *)
Theorem plf_parse_formula_old name toks : plf_parse_formula plg_graph_arg name toks = pl_parse_formula name toks.
Proof. reflexivity. Qed.

(* ------------------------------------------------------------------ *)
(* reading a graph file: a well-formed graph of the kind, or an error   *)
(* ------------------------------------------------------------------ *)
Definition plf_inhouse (f : gio_fmt) : Prop := f <> FGml /\ f <> FDot.

(* property C14 inside the pipeline: no exception other than ValueError leaves a reader *)
Theorem plf_read_text_total g f text : plf_inhouse f ->
  forall e, gio_read_graph true (plf_gtype_of g) f text = GRaise e -> e = EValueError.
Proof. intros [H1 H2] e. now apply read_graph_exn. Qed.

Lemma plf_read_graph_wf t f text G : gio_read_graph true t f text = GOk G -> gio_wf G.
Proof.
  unfold gio_read_graph, gio_read_graph_gen.
  destruct (negb (existsb (gio_fmt_eqb f) (gio_supported true t))) eqn:S; [discriminate|].
  assert (Hin : forall r : gio_res iograph, (forall G0, r = GOk G0 -> gio_wf G0) ->
                gio_bind r (fun G1 => match t with TDag => if gio_is_dag G1 then GOk G1 else GRaise EValueError | _ => GOk G1 end) = GOk G ->
                gio_wf G).
  { intros [G0|e0] Hr; cbn [gio_bind]; [|discriminate].
    destruct t; try (intros H; inversion H; subst; now apply Hr).
    destruct (gio_is_dag G0); [|discriminate]. intros H; inversion H; subst; now apply Hr. }
  apply Hin. intros G0. destruct f; try discriminate.
  - destruct t.
    + intros H. apply (kth_sound GioSimple) in H; [|discriminate]. destruct H as (? & ? & ? & ? & _ & _ & _ & _ & _ & _ & W & _). exact W.
    + intros H. apply (kth_sound GioDirected) in H; [|discriminate]. destruct H as (? & ? & ? & ? & _ & _ & _ & _ & _ & _ & W & _). exact W.
    + intros H. apply (kth_sound GioDirected) in H; [|discriminate]. destruct H as (? & ? & ? & ? & _ & _ & _ & _ & _ & _ & W & _). exact W.
    + intros H. apply kthb_sound in H. destruct H as (? & ? & ? & ? & _ & _ & _ & _ & _ & W & _). exact W.
  - intros H. assert (K : gio_kind_of t <> GioBipartite).
    { destruct t; cbn; try discriminate. }
    apply (dimacs_sound _ _ _ K) in H. destruct H as (? & ? & _ & _ & _ & _ & _ & W & _). exact W.
  - intros H. apply matrix_sound in H. apply H.
Qed.

Lemma plf_read_text_wf g f text G : plf_read_text g f text = PlOk G -> gio_wf G /\ io_kind G = plg_kind_of g.
Proof.
  unfold plf_read_text.
  assert (X : (if negb (pl_is_ascii text) then PlOutside
               else match gio_read_graph true (plf_gtype_of g) f text with
                    | GOk G0 => if plg_kind_eqb (io_kind G0) (plg_kind_of g) then PlOk G0 else PlOutside
                    | GRaise EValueError => PlErr
                    | GRaise _ => PlOutside
                    end) = PlOk G -> gio_wf G /\ io_kind G = plg_kind_of g).
  { destruct (negb (pl_is_ascii text)); [discriminate|].
    destruct (gio_read_graph true (plf_gtype_of g) f text) as [G0|e] eqn:E; [|destruct e; discriminate].
    destruct (plg_kind_eqb (io_kind G0) (plg_kind_of g)) eqn:K; [|discriminate].
    intros H. inversion H; subst G0. split; [now apply (plf_read_graph_wf _ _ _ _ E)|now apply plg_kind_eqb_eq]. }
  destruct f; try discriminate; exact X.
Qed.

Lemma plf_read_wf env g file fmt G : plf_read env g file fmt = PlOk G -> gio_wf G /\ io_kind G = plg_kind_of g.
Proof.
  unfold plf_read. destruct (plf_open env file); [|discriminate]. destruct (plf_fmt_of fmt); [|discriminate].
  apply plf_read_text_wf.
Qed.

(* what the sub-command parsers need from a graph argument *)
Definition plf_ga_wf (ga : plf_graph_fun) : Prop :=
  forall g vs G, ga g vs = PlOk G -> gio_wf G /\ io_kind G = plg_kind_of g.

Theorem plf_graph_arg_wf env : plf_ga_wf (plf_graph_arg env).
Proof.
  intros g vs G. unfold plf_graph_arg.
  destruct (gs_parse g vs) as [p|e|]; try apply plg_graph_arg_wf.
  destruct (p_construction p); [apply plg_graph_arg_wf|].
  destruct (p_opts p); [|discriminate].
  destruct (gs_validate (0, 0) p) as [plan|t|k]; try discriminate.
  destruct plan as [|[c| | | | |] [|? ?]]; try discriminate; try (destruct c; discriminate).
  destruct c; try discriminate. apply plf_read_wf.
Qed.

Lemma plf_simple_arg_wf ga vs G : plf_ga_wf ga -> ga GSSimple vs = PlOk G -> graph_wf (io_n G) (io_edges G) = true.
Proof. intros Hga H. apply Hga in H as [W K]. now apply plg_simple_graph_wf. Qed.

(* ------------------------------------------------------------------ *)
(* the parsers return well-formed commands (as in PipelineFacts.v)     *)
(* ------------------------------------------------------------------ *)
Lemma plf_parse_int_graph_inv ga flags longs ty g mk toks c : plf_parse_int_graph ga flags longs ty g mk toks = PlOk c ->
  exists cls x vs G, ga g vs = PlOk G /\ c = mk cls x G.
Proof.
  unfold plf_parse_int_graph. set (cls := map _ toks).
  destruct (existsb pl_is_out cls); [discriminate|]. destruct (existsb pl_is_unknown cls); [discriminate|].
  destruct (pl_one_plus cls) as [[tx vs]|]; [|discriminate]. destruct (gs_int tx) as [x|]; [|discriminate].
  destruct (argty_ok ty x); [|discriminate]. intros H. apply pl_map_parsed_inv in H as (G & E & ->).
  now exists cls, x, vs, G.
Qed.

Lemma plf_parse_graph_only_inv ga g mk toks c : plf_parse_graph_only ga g mk toks = PlOk c ->
  exists vs G, ga g vs = PlOk G /\ c = mk G.
Proof.
  unfold plf_parse_graph_only. set (cls := map _ toks).
  destruct (existsb pl_is_out cls); [discriminate|]. destruct (existsb pl_is_unknown cls); [discriminate|].
  destruct (pl_plus cls) as [vs|]; [|discriminate]. intros H. apply pl_map_parsed_inv in H as (G & E & ->).
  now exists vs, G.
Qed.

Lemma plf_parse_php_wf ga toks c : plf_parse_php ga toks = PlOk c -> pl_cmd_wf c.
Proof.
  unfold plf_parse_php.
  repeat match goal with
         | |- (if ?b then _ else _) = PlOk _ -> _ => destruct b
         | |- match ?x with _ => _ end = PlOk _ -> _ => destruct x
         end; try discriminate; intros H; inversion H; exact I.
Qed.

Lemma plf_parse_op_wf ga toks c : plf_ga_wf ga -> plf_parse_op ga toks = PlOk c -> pl_cmd_wf c.
Proof.
  intros Hga. unfold plf_parse_op. set (cls := map _ toks). destruct (existsb pl_is_out cls); [discriminate|].
  destruct (pl_star cls) as [[|v0 vs]|]; try discriminate.
  destruct (negb (gs_float_ok v0)).
  - destruct (ga GSSimple (v0 :: vs)) as [G| |] eqn:E; try discriminate.
    destruct (_ || _); [discriminate|]. intros H. inversion H; subst. cbn [pl_cmd_wf].
    pose proof (plf_simple_arg_wf ga _ _ Hga E) as W. destruct (graph_wf_parts _ _ W). now apply plg_nbrs_ok.
  - repeat match goal with
           | |- (if ?b then _ else _) = PlOk _ -> _ => destruct b
           | |- match ?x with _ => _ end = PlOk _ -> _ => destruct x
           end; try discriminate; intros H; inversion H; exact I.
Qed.

Lemma plf_parse_tseitin_wf ga toks c : plf_parse_tseitin ga toks = PlOk c -> pl_cmd_wf c.
Proof.
  unfold plf_parse_tseitin.
  repeat match goal with
         | |- (if ?b then _ else _) = PlOk _ -> _ => destruct b
         | |- match ?x with _ => _ end = PlOk _ -> _ => destruct x
         end; try discriminate; intros H; inversion H; exact I.
Qed.

Lemma plf_parse_subsetcard_wf ga toks c : plf_parse_subsetcard ga toks = PlOk c -> pl_cmd_wf c.
Proof.
  unfold plf_parse_subsetcard.
  repeat match goal with
         | |- (if ?b then _ else _) = PlOk _ -> _ => destruct b
         | |- match ?x with _ => _ end = PlOk _ -> _ => destruct x
         end; try discriminate; intros H; apply pl_map_parsed_inv in H as (G & _ & ->); exact I.
Qed.

Theorem plf_parse_formula_wf ga name toks c : plf_ga_wf ga -> plf_parse_formula ga name toks = PlOk c -> pl_cmd_wf c.
Proof.
  intros Hga. unfold plf_parse_formula.
  repeat match goal with |- (if pl_is name ?s then _ else _) = PlOk c -> _ => destruct (pl_is name s) end.
  all: try (apply pl_with_ints_wf; pl_ints_case).
  - apply plf_parse_php_wf.
  - now apply plf_parse_op_wf.
  - (* kcolor *) intros H. apply plf_parse_int_graph_inv in H as (cls & x & vs & G & E & ->). cbn [pl_cmd_wf]. now apply (plf_simple_arg_wf ga vs).
  - (* kcliquebin *) intros H. apply plf_parse_int_graph_inv in H as (cls & x & vs & G & E & ->). exact I.
  - (* kclique *) intros H. apply plf_parse_int_graph_inv in H as (cls & x & vs & G & E & ->). cbn [pl_cmd_wf].
    pose proof (plf_simple_arg_wf ga vs G Hga E) as W. now destruct (graph_wf_parts _ _ W).
  - (* domset *) intros H. apply plf_parse_int_graph_inv in H as (cls & x & vs & G & E & ->). cbn [pl_cmd_wf]. now apply (plf_simple_arg_wf ga vs).
  - (* stone *) intros H. apply plf_parse_int_graph_inv in H as (cls & x & vs & G & E & ->). exact I.
  - (* ec *) intros H. apply plf_parse_graph_only_inv in H as (vs & G & E & ->). exact I.
  - (* tiling *) intros H. apply plf_parse_graph_only_inv in H as (vs & G & E & ->). cbn [pl_cmd_wf]. now apply (plf_simple_arg_wf ga vs).
  - (* matching *) intros H. apply plf_parse_graph_only_inv in H as (vs & G & E & ->). exact I.
  - (* peb *) intros H. apply plf_parse_graph_only_inv in H as (vs & G & E & ->). exact I.
  - apply plf_parse_tseitin_wf.
  - apply plf_parse_subsetcard_wf.
  - now apply pl_no_args_wf.
  - now apply pl_no_args_wf.
  - destruct (gs_mem name pl_other_formulas); discriminate.
Qed.

(* what the first chunk may ask for *)
Definition plf_gen_wf (g : plf_gen) : Prop := match g with GenCmd c => pl_cmd_wf c | GenDimacs _ => True end.

Lemma plf_parse_main_wf env : forall toks q v b o g, plf_parse_main env q v b toks = PlOk (o, Some g) -> plf_gen_wf g.
Proof.
  intros toks. remember (List.length toks) as k eqn:Hk. revert toks Hk.
  induction k as [k IHk] using lt_wf_ind. intros toks Hk q v b o g.
  destruct toks as [|t r]; cbn [plf_parse_main]; [discriminate|]. cbn [List.length] in Hk.
  destruct (_ || _).
  - destruct v; [discriminate|]. apply (IHk (List.length r)); [lia|reflexivity].
  - destruct (_ || _).
    + destruct q; [discriminate|]. apply (IHk (List.length r)); [lia|reflexivity].
    + destruct (_ || _).
      * destruct r as [|f r']; [discriminate|]. cbn [List.length] in Hk.
        destruct (pl_starts_dash f); [discriminate|].
        destruct (gs_teqb f (lit "dimacs")); [apply (IHk (List.length r')); [lia|reflexivity]|].
        destruct (gs_teqb f (lit "opb")); [apply (IHk (List.length r')); [lia|reflexivity]|].
        destruct (gs_teqb f (lit "latex")); discriminate.
      * destruct (pl_starts_dash t); [discriminate|].
        destruct (pl_is t "dimacs").
        -- destruct (plf_parse_dimacs env r) as [c| |] eqn:E; try discriminate.
           intros H. inversion H; subst. unfold plf_parse_dimacs in E.
           destruct (existsb pl_is_out _); [discriminate|]. destruct (existsb pl_is_unknown _); [discriminate|].
           destruct r as [|f [|? ?]]; try discriminate.
           ++ inversion E. exact I.
           ++ destruct (plf_open env f); inversion E. exact I.
        -- destruct (plf_parse_formula (plf_graph_arg env) t r) as [c| |] eqn:E; try discriminate.
           intros H. inversion H; subst. cbn [plf_gen_wf]. apply (plf_parse_formula_wf (plf_graph_arg env) t r); [apply plf_graph_arg_wf|exact E].
Qed.

Theorem plf_parse_chunks_wf env chunks c g : plf_parse_chunks env chunks = PlOk c -> plf_g c = Some g -> plf_gen_wf g.
Proof.
  destruct chunks as [|c0 rest]; cbn [plf_parse_chunks]; [discriminate|].
  destruct (plf_parse_chunk0 env c0) as [[o g0]| |] eqn:E0; try discriminate.
  destruct (pl_parse_tchunks rest); try discriminate. intros H. inversion H; subst. cbn [plf_g]. intros ->.
  unfold plf_parse_chunk0 in E0. destruct (negb _); [discriminate|]. now apply (plf_parse_main_wf env c0 false false false o).
Qed.

(* ------------------------------------------------------------------ *)
(* what reaches the writer                                             *)
(* ------------------------------------------------------------------ *)
Lemma plf_valid_in_range n F : valid n F -> lits_in_range n F = true.
Proof.
  intros [_ H]. unfold lits_in_range. apply forallb_forall. intros c Hc. apply forallb_forall. intros l Hl.
  rewrite Forall_forall in H. specialize (H c Hc). rewrite Forall_forall in H. specialize (H l Hl). unfold lit_in in H.
  apply andb_true_iff. split; [apply nonzero_spec; lia|lia].
Qed.

(* a formula with its literals in range, a clean error, or outside the grammar -- never the crash value *)
Definition plf_good (r : pl_fres) : Prop := match r with FrOutside => True | _ => pl_good r end.

Lemma plf_chain_outside : forall ts, pl_chain FrOutside ts = FrOutside.
Proof. unfold pl_chain. induction ts as [|t ts IH]; [reflexivity|exact IH]. Qed.

Lemma plf_chain_good ts start : plf_good start -> plf_good (pl_chain start ts).
Proof.
  intros H. destruct start as [n F| | |].
  - pose proof (pl_chain_good ts (FrOk n F) H) as G. destruct (pl_chain (FrOk n F) ts); try exact G. exact I.
  - pose proof (pl_chain_good ts FrErr H) as G. destruct (pl_chain FrErr ts); try exact G. exact I.
  - contradiction.
  - rewrite plf_chain_outside. exact I.
Qed.

Lemma plf_start_good g : plf_gen_wf g -> plf_good (plf_start_with pl_build g).
Proof.
  destruct g as [c|bytes]; cbn [plf_gen_wf plf_start_with].
  - intros W. pose proof (pl_build_good c W) as G. destruct (pl_build c); try exact G. exact I.
  - intros _. destruct (negb (pl_is_ascii bytes)); [exact I|].
    destruct (parse_dimacs false bytes) as [n F|e k] eqn:E; [|exact I].
    destruct (parse_sound_proved false bytes n F E) as (sl & m & _ & _ & _ & Hn & _ & HF).
    cbn [plf_good pl_good]. split; [exact Hn|]. apply plf_valid_in_range. split; assumption.
Qed.

Theorem plf_run_good c : (forall g, plf_g c = Some g -> plf_gen_wf g) -> plf_good (plf_run_with pl_build c).
Proof.
  intros W. unfold plf_run_with. destruct (plf_g c) as [g|]; [|exact I]. destruct (pl_all_some (plf_ts c)); [|exact I].
  apply plf_chain_good, plf_start_good. now apply W.
Qed.

Theorem plf_formula_good argv env : plf_good (plf_formula argv env).
Proof.
  unfold plf_formula, plf_formula_with.
  destruct (plf_parse_chunks env (pl_chunks_of argv)) as [c| |] eqn:Ec; try exact I.
  apply plf_run_good. intros g. now apply (plf_parse_chunks_wf env _ c g Ec).
Qed.

Theorem plf_formula_in_range argv env n F : plf_formula argv env = FrOk n F -> 0 <= n /\ lits_in_range n F = true.
Proof. intros E. pose proof (plf_formula_good argv env) as G. rewrite E in G. exact G. Qed.

Theorem plf_formula_no_crash argv env : plf_formula argv env <> FrCrash.
Proof. intros E. pose proof (plf_formula_good argv env) as G. rewrite E in G. exact G. Qed.

Theorem cnfgen_files_main_total argv env :
  (exists text, cnfgen_files_main argv env = POut text) \/ cnfgen_files_main argv env = PCliError \/
  cnfgen_files_main argv env = POutside.
Proof.
  unfold cnfgen_files_main. pose proof (plf_formula_no_crash argv env) as H.
  destruct (plf_formula argv env) as [n F| | |]; cbn [pl_render].
  - destruct (pl_quiet (plf_opts_of argv env)); [left; eexists; reflexivity|right; right; reflexivity].
  - right; left; reflexivity.
  - contradiction.
  - right; right; reflexivity.
Qed.

Theorem cnfgen_files_main_roundtrip argv env text : cnfgen_files_main argv env = POut text ->
  exists n F, plf_formula argv env = FrOk n F /\ text = pl_write (pl_opb (plf_opts_of argv env)) None n F /\
              0 <= n /\ lits_in_range n F = true /\
              (printable n -> printable (len F) -> pl_reads_back (pl_opb (plf_opts_of argv env)) text n F).
Proof.
  unfold cnfgen_files_main. destruct (plf_formula argv env) as [n F| | |] eqn:E; cbn [pl_render]; try discriminate.
  destruct (pl_quiet (plf_opts_of argv env)); [|discriminate]. intros H. inversion H; subst.
  destruct (plf_formula_in_range argv env n F E) as [Hn HR].
  exists n, F. refine (conj eq_refl (conj eq_refl (conj Hn (conj HR _)))).
  intros P1 P2. now apply pl_write_reads_back.
Qed.

(* the fast rendering is the reference rendering *)
Lemma plf_start_fast_eq g : plf_start_with pl_build_fast g = plf_start_with pl_build g.
Proof. destruct g; cbn [plf_start_with]; [apply pl_build_fast_eq|reflexivity]. Qed.

Theorem plf_formula_fast_eq argv env : plf_formula_fast argv env = plf_formula argv env.
Proof.
  unfold plf_formula_fast, plf_formula, plf_formula_with.
  destruct (plf_parse_chunks env (pl_chunks_of argv)) as [c| |]; try reflexivity.
  unfold plf_run_with. destruct (plf_g c); [|reflexivity]. destruct (pl_all_some (plf_ts c)); [|reflexivity].
  now rewrite plf_start_fast_eq.
Qed.

Theorem cnfgen_files_main_fast_eq argv env : cnfgen_files_main_fast argv env = cnfgen_files_main argv env.
Proof. unfold cnfgen_files_main_fast, cnfgen_files_main. now rewrite plf_formula_fast_eq. Qed.

(* ------------------------------------------------------------------ *)
(* one more -T chunk (as PipelineFacts.pl_formula_step)                *)
(* ------------------------------------------------------------------ *)
Definition plf_wellformed (argv : list String.string) (env : plf_env) : Prop :=
  exists c g l, plf_parse_chunks env (pl_chunks_of argv) = PlOk c /\ plf_g c = Some g /\ pl_all_some (plf_ts c) = Some l.

Lemma plf_formula_ok_wellformed argv env n F : plf_formula argv env = FrOk n F -> plf_wellformed argv env.
Proof.
  unfold plf_formula, plf_formula_with, plf_wellformed.
  destruct (plf_parse_chunks env (pl_chunks_of argv)) as [c| |] eqn:E; try discriminate.
  unfold plf_run_with. destruct (plf_g c) as [g|] eqn:G; [|discriminate].
  destruct (pl_all_some (plf_ts c)) as [l|] eqn:L; [|discriminate]. intros _. now exists c, g, l.
Qed.

Lemma plf_parse_chunks_app env chunks t : chunks <> [] ->
  plf_parse_chunks env (chunks ++ [t]) =
  match plf_parse_chunks env chunks with
  | PlOk c => match pl_parse_tchunk t with
              | PlOk x => PlOk (mk_plf_cmdline (plf_o c) (plf_g c) (plf_ts c ++ [x]))
              | PlErr => PlErr
              | PlOutside => PlOutside
              end
  | PlErr => PlErr
  | PlOutside => PlOutside
  end.
Proof.
  intros Hne. destruct chunks as [|c0 rest]; [contradiction|]. cbn [app plf_parse_chunks].
  destruct (plf_parse_chunk0 env c0) as [[o g]| |]; [|reflexivity|reflexivity].
  rewrite pl_parse_tchunks_app. destruct (pl_parse_tchunks rest); [|reflexivity|reflexivity].
  destruct (pl_parse_tchunk t); reflexivity.
Qed.

Theorem plf_formula_step a t tc env : noT t -> plf_wellformed a env ->
  pl_parse_tchunk (map lit t) = PlOk (Some tc) ->
  plf_wellformed (a ++ "-T"%string :: t) env /\
  plf_formula (a ++ "-T"%string :: t) env = pl_step (plf_formula a env) tc.
Proof.
  intros Ht (c & g & l & Ec & Eg & El) Etc.
  unfold plf_wellformed, plf_formula, plf_formula_with.
  rewrite (pl_chunks_of_app a t Ht), (plf_parse_chunks_app env _ _ (pl_chunks_of_nonempty a)), Ec, Etc.
  split.
  - eexists; exists g, (l ++ [tc]). split; [reflexivity|]. cbn [plf_g plf_ts]. split; [assumption|].
    rewrite pl_all_some_app, El. reflexivity.
  - unfold plf_run_with. cbn [plf_g plf_ts]. rewrite Eg, pl_all_some_app, El. cbn [option_map].
    now rewrite pl_chain_app.
Qed.

Theorem plf_formula_chain env : forall ts tcs a, plf_wellformed a env -> Forall noT ts ->
  Forall2 (fun t tc => pl_parse_tchunk (map lit t) = PlOk (Some tc)) ts tcs ->
  plf_formula (a ++ flat_map (fun t => "-T"%string :: t) ts) env = fold_left pl_step tcs (plf_formula a env).
Proof.
  induction ts as [|t ts IH]; intros tcs a Wa Hn H2.
  - inversion H2; subst. cbn. now rewrite app_nil_r.
  - inversion H2 as [|? tc ? tcs' Et H2']; subst. inversion Hn; subst.
    cbn [flat_map fold_left].
    replace (a ++ ("-T"%string :: t) ++ flat_map (fun t0 => "-T"%string :: t0) ts)
      with ((a ++ "-T"%string :: t) ++ flat_map (fun t0 => "-T"%string :: t0) ts)
      by (rewrite <- app_assoc; reflexivity).
    destruct (plf_formula_step a t tc env) as [W E]; try assumption.
    rewrite (IH tcs' _ W); [|assumption|assumption]. now rewrite E.
Qed.

(* ------------------------------------------------------------------ *)
(* kthlist2pebbling: totality and round trip                           *)
(* ------------------------------------------------------------------ *)
Lemma plf_step_good r t : plf_good r -> plf_good (pl_step r t).
Proof.
  destruct r as [n F| | |]; cbn [pl_step plf_good]; intros H; try exact H.
  pose proof (pl_step_good (FrOk n F) t H) as G. cbn [pl_step] in G. destruct (pl_transform t n F); try exact G. exact I.
Qed.

Lemma k2p_start_good bytes : plf_good (k2p_start_with pl_build bytes).
Proof.
  unfold k2p_start_with. destruct (negb (pl_is_ascii bytes)); [exact I|].
  destruct (gio_read_graph true TDag FKthlist bytes) as [G|e] eqn:E.
  - pose proof (pl_build_good (FcPeb (plg_preds (io_n G) (io_edges G))) I) as H.
    destruct (pl_build _); try exact H. exact I.
  - assert (e = EValueError) as -> by (apply (read_graph_exn true TDag FKthlist bytes e); [discriminate|discriminate|exact E]).
    exact I.
Qed.

Theorem k2p_formula_good argv env : plf_good (k2p_formula argv env).
Proof.
  unfold k2p_formula, k2p_formula_with. destruct (k2p_parse argv env) as [c| |]; try exact I.
  unfold k2p_run_with. destruct (k2p_trans c); [apply plf_step_good|]; apply k2p_start_good.
Qed.

Theorem k2p_formula_no_crash argv env : k2p_formula argv env <> FrCrash.
Proof. intros E. pose proof (k2p_formula_good argv env) as G. rewrite E in G. exact G. Qed.

Theorem k2p_main_total argv env :
  (exists text, k2p_main argv env = POut text) \/ k2p_main argv env = PCliError \/ k2p_main argv env = POutside.
Proof.
  unfold k2p_main. pose proof (k2p_formula_no_crash argv env) as H.
  destruct (k2p_formula argv env) as [n F| | |]; cbn [pl_render].
  - destruct (k2p_quiet_of argv env); [left; eexists; reflexivity|right; right; reflexivity].
  - right; left; reflexivity.
  - contradiction.
  - right; right; reflexivity.
Qed.

Theorem k2p_main_roundtrip argv env text : k2p_main argv env = POut text ->
  exists n F, k2p_formula argv env = FrOk n F /\ text = print_dimacs None None n F /\
              0 <= n /\ lits_in_range n F = true /\
              (printable n -> printable (len F) -> forall u, parse_dimacs u text = DOk n F).
Proof.
  unfold k2p_main. destruct (k2p_formula argv env) as [n F| | |] eqn:E; cbn [pl_render]; try discriminate.
  destruct (k2p_quiet_of argv env); [|discriminate]. intros H. inversion H; subst.
  pose proof (k2p_formula_good argv env) as G. rewrite E in G. destruct G as [Hn HR].
  exists n, F. refine (conj eq_refl (conj eq_refl (conj Hn (conj HR _)))).
  intros P1 P2. exact (pl_write_reads_back false None n F Hn HR P1 P2).
Qed.

Theorem k2p_main_fast_eq argv env : k2p_main_fast argv env = k2p_main argv env.
Proof.
  unfold k2p_main_fast, k2p_main, k2p_formula, k2p_formula_with. destruct (k2p_parse argv env) as [c| |]; try reflexivity.
  unfold k2p_run_with, k2p_start_with. destruct (negb (pl_is_ascii (k2p_input c))); [reflexivity|].
  destruct (gio_read_graph true TDag FKthlist (k2p_input c)) as [G|e]; [|reflexivity].
  now rewrite pl_build_fast_eq.
Qed.

(* ------------------------------------------------------------------ *)
(* kthlist2pebbling is `cnfgen peb kthlist <file>`                     *)
(* ------------------------------------------------------------------ *)
Lemma plf_classify_nodash fl lo t : pl_starts_dash t = false -> pl_classify_gen fl lo t = PlPos t.
Proof. destruct t as [|c r]; [reflexivity|]. cbn [pl_starts_dash pl_classify_gen]. intros ->. reflexivity. Qed.

(* an explicit format token followed by a name and nothing else: the file is read in that format *)
Lemma plf_graph_arg_explicit env g fmt f :
  gs_mem fmt (gs_constructions g) = false -> gs_mem fmt (gs_formats g) = true -> gs_teqb fmt gs_autodetect = false ->
  plf_graph_arg env g [fmt; f] = plf_read env g f fmt.
Proof.
  intros H1 H2 H3. unfold plf_graph_arg, gs_parse. rewrite H1, H2. cbn [gs_options_loop List.length p_construction p_opts].
  unfold gs_validate, gs_obtain_graph. cbn [p_gtype p_construction p_filename p_fileformat p_opts gs_lookup gs_opt_step].
  unfold gs_read_input. rewrite H3, H2. cbn [gs_bind].
  destruct g; cbn [gs_bind gs_opt_step gs_lookup app]; reflexivity.
Qed.

(* the first chunk  -q peb kthlist <f> *)
Definition plf_peb_of (G : iograph) : pl_fcmd := FcPeb (plg_preds (io_n G) (io_edges G)).

Lemma plf_peb_chunk0 env f : pl_is_ascii (lit f) = true -> pl_starts_dash (lit f) = false ->
  plf_parse_chunk0 env (map lit ["-q"; "peb"; "kthlist"; f]%string) =
  match plf_read env GSDag (lit f) (lit "kthlist") with
  | PlOk G => PlOk (mk_pl_opts true false, Some (GenCmd (plf_peb_of G)))
  | PlErr => PlErr
  | PlOutside => PlOutside
  end.
Proof.
  intros HA HD. unfold plf_parse_chunk0. cbn [map forallb]. rewrite HA.
  change (pl_is_ascii (lit "-q")) with true. change (pl_is_ascii (lit "peb")) with true. change (pl_is_ascii (lit "kthlist")) with true.
  cbn [andb negb]. cbn [plf_parse_main].
  change (gs_teqb (lit "-q") (lit "-q")) with true. cbn [orb]. cbv iota.
  change (gs_teqb (lit "peb") (lit "-q") || gs_teqb (lit "peb") (lit "--quiet")) with false.
  change (gs_teqb (lit "peb") (lit "-v") || gs_teqb (lit "peb") (lit "--verbose")) with false.
  change (gs_teqb (lit "peb") (lit "-of") || gs_teqb (lit "peb") (lit "--output-format")) with false.
  change (pl_starts_dash (lit "peb")) with false. change (pl_is (lit "peb") "dimacs") with false. cbv iota.
  assert (E : plf_parse_formula (plf_graph_arg env) (lit "peb") [lit "kthlist"; lit f] =
              pl_map_parsed plf_peb_of (plf_read env GSDag (lit f) (lit "kthlist"))).
  { unfold plf_parse_formula.
    repeat match goal with |- context [pl_is (lit "peb") ?s] =>
             let b := eval vm_compute in (pl_is (lit "peb") s) in change (pl_is (lit "peb") s) with b; cbv iota end.
    unfold plf_parse_graph_only. cbn [map]. unfold pl_classify.
    rewrite (plf_classify_nodash [] [] (lit f) HD). change (pl_classify_gen [] [] (lit "kthlist")) with (PlPos (lit "kthlist")).
    cbn [existsb pl_is_out pl_is_unknown orb]. unfold pl_plus, pl_runs. cbn [pl_runs_aux rev app].
    rewrite (plf_graph_arg_explicit env GSDag (lit "kthlist") (lit f)); reflexivity. }
  rewrite E. destruct (plf_read env GSDag (lit f) (lit "kthlist")); reflexivity.
Qed.

(* reading the graph: the two programs see the same outcomes *)
Lemma plf_read_dag_kind text G : gio_read_graph true TDag FKthlist text = GOk G -> io_kind G = GioDirected.
Proof.
  unfold gio_read_graph, gio_read_graph_gen. cbn [gio_supported existsb gio_fmt_eqb orb negb app gio_kind_of].
  destruct (gio_read_kth_gen false GioDirected text) as [G0|e] eqn:E; cbn [gio_bind]; [|discriminate].
  destruct (gio_is_dag G0); [|discriminate]. intros H. inversion H; subst G0.
  apply (kth_sound GioDirected) in E; [|discriminate]. destruct E as (? & ? & ? & ? & _ & _ & _ & K & _). exact K.
Qed.

Lemma plf_read_text_k2p text :
  match plf_read_text GSDag FKthlist text with
  | PlOk G => k2p_start_with pl_build text = pl_build (plf_peb_of G)
  | PlErr => k2p_start_with pl_build text = FrErr
  | PlOutside => k2p_start_with pl_build text = FrOutside
  end.
Proof.
  unfold plf_read_text, k2p_start_with. destruct (negb (pl_is_ascii text)); [reflexivity|].
  cbn [plf_gtype_of plg_kind_of].
  destruct (gio_read_graph true TDag FKthlist text) as [G|e] eqn:E.
  - rewrite (plf_read_dag_kind text G E). reflexivity.
  - assert (e = EValueError) as -> by (apply (read_graph_exn true TDag FKthlist text e); [discriminate|discriminate|exact E]).
    reflexivity.
Qed.

Lemma plf_read_kthlist env f : plf_read env GSDag f (lit "kthlist") =
  match plf_open env f with Some text => plf_read_text GSDag FKthlist text | None => PlErr end.
Proof. unfold plf_read. destruct (plf_open env f); reflexivity. Qed.

(* the options of kthlist2pebbling in front of the transformation *)
Lemma k2p_parse_quiet env q input sq rest : In sq ["-q"; "--quiet"]%string ->
  k2p_parse_main env q input (lit sq :: rest) = k2p_parse_main env true input rest.
Proof. intros [<-|[<-|[]]]; reflexivity. Qed.

Lemma k2p_parse_input env q input si f rest : In si ["-i"; "--input"]%string -> pl_starts_dash (lit f) = false ->
  k2p_parse_main env q input (lit si :: lit f :: rest) =
  match plf_open env (lit f) with Some text => k2p_parse_main env q text rest | None => PlErr end.
Proof.
  intros Hs HD. cbn [k2p_parse_main].
  assert (E1 : gs_teqb (lit si) (lit "-q") || gs_teqb (lit si) (lit "--quiet") = false) by (destruct Hs as [<-|[<-|[]]]; reflexivity).
  assert (E2 : gs_teqb (lit si) (lit "-i") || gs_teqb (lit si) (lit "--input") = true) by (destruct Hs as [<-|[<-|[]]]; reflexivity).
  rewrite E1, E2, HD. reflexivity.
Qed.

Lemma k2p_parse_trans env q input name args : pl_starts_dash name = false ->
  k2p_parse_main env q input (name :: args) =
  match pl_parse_transformation name args with
  | PlOk c => PlOk (mk_k2p_cmdline q input (Some c))
  | PlErr => PlErr
  | PlOutside => PlOutside
  end.
Proof.
  intros HD. cbn [k2p_parse_main].
  rewrite (nodash_not_lit name "-q"%string HD eq_refl), (nodash_not_lit name "--quiet"%string HD eq_refl),
          (nodash_not_lit name "-i"%string HD eq_refl), (nodash_not_lit name "--input"%string HD eq_refl), HD. reflexivity.
Qed.

Lemma plf_sq_ascii sq : In sq ["-q"; "--quiet"]%string -> pl_is_ascii (lit sq) = true.
Proof. intros [<-|[<-|[]]]; reflexivity. Qed.
Lemma plf_si_ascii si : In si ["-i"; "--input"]%string -> pl_is_ascii (lit si) = true.
Proof. intros [<-|[<-|[]]]; reflexivity. Qed.

Lemma plf_noT_peb f : pl_starts_dash (lit f) = false -> noT ["-q"; "peb"; "kthlist"; f]%string.
Proof.
  intros HD [H|[H|[H|[H|[]]]]]; try discriminate. subst f. discriminate.
Qed.

(* no transformation *)
Theorem k2p_equals_peb_plain env f sq si : In sq ["-q"; "--quiet"]%string -> In si ["-i"; "--input"]%string ->
  pl_is_ascii (lit f) = true -> pl_starts_dash (lit f) = false ->
  k2p_main [sq; si; f] env = cnfgen_files_main ["-q"; "peb"; "kthlist"; f]%string env.
Proof.
  intros Hq Hi HA HD.
  (* right hand side *)
  unfold cnfgen_files_main, plf_opts_of, plf_formula, plf_formula_with.
  rewrite (PipelinePbFacts.pl_chunks_of_noT _ (plf_noT_peb f HD)). cbn [plf_parse_chunks pl_parse_tchunks].
  rewrite (plf_peb_chunk0 env f HA HD), plf_read_kthlist.
  (* left hand side *)
  unfold k2p_main, k2p_quiet_of, k2p_formula, k2p_formula_with, k2p_parse. cbn [map forallb].
  rewrite (plf_sq_ascii sq Hq), (plf_si_ascii si Hi), HA. cbn [andb negb].
  rewrite (k2p_parse_quiet env false _ sq _ Hq), (k2p_parse_input env true _ si f [] Hi HD).
  destruct (plf_open env (lit f)) as [text|]; [|reflexivity].
  cbn [k2p_parse_main k2p_run_with k2p_trans k2p_input k2p_quiet].
  pose proof (plf_read_text_k2p text) as R.
  destruct (plf_read_text GSDag FKthlist text) as [G| |]; rewrite R; reflexivity.
Qed.

(* one transformation: `kthlist2pebbling .. <t>` is `cnfgen peb .. -T <t>` *)
Theorem k2p_equals_peb_T env f sq si t tc : In sq ["-q"; "--quiet"]%string -> In si ["-i"; "--input"]%string ->
  pl_is_ascii (lit f) = true -> pl_starts_dash (lit f) = false ->
  noT t -> pl_parse_tchunk (map lit t) = PlOk (Some tc) ->
  k2p_main ([sq; si; f] ++ t) env = cnfgen_files_main (["-q"; "peb"; "kthlist"; f]%string ++ "-T"%string :: t) env.
Proof.
  intros Hq Hi HA HD HT Etc.
  assert (At : forallb pl_is_ascii (map lit t) = true).
  { unfold pl_parse_tchunk in Etc. destruct (forallb pl_is_ascii (map lit t)); [reflexivity|discriminate]. }
  assert (Ht : exists name args, map lit t = name :: args /\ pl_starts_dash name = false /\ pl_parse_transformation name args = PlOk tc).
  { unfold pl_parse_tchunk in Etc. rewrite At in Etc. cbn [negb] in Etc.
    destruct (map lit t) as [|name args]; [discriminate|]. destruct (pl_starts_dash name) eqn:D; [discriminate|].
    destruct (pl_parse_transformation name args) as [c| |] eqn:P; try discriminate. inversion Etc; subst. now exists name, args. }
  destruct Ht as (name & args & Emap & Dn & Ptc).
  (* right hand side *)
  unfold cnfgen_files_main, plf_opts_of, plf_formula, plf_formula_with.
  rewrite (pl_chunks_of_app _ t HT), (PipelinePbFacts.pl_chunks_of_noT _ (plf_noT_peb f HD)).
  cbn [app plf_parse_chunks pl_parse_tchunks]. rewrite Etc, (plf_peb_chunk0 env f HA HD), plf_read_kthlist.
  (* left hand side *)
  unfold k2p_main, k2p_quiet_of, k2p_formula, k2p_formula_with, k2p_parse. cbn [map forallb].
  rewrite (plf_sq_ascii sq Hq), (plf_si_ascii si Hi), HA, At. cbn [andb negb app].
  rewrite (k2p_parse_quiet env false _ sq _ Hq), (k2p_parse_input env true _ si f _ Hi HD).
  destruct (plf_open env (lit f)) as [text|]; [|reflexivity].
  rewrite Emap, (k2p_parse_trans env true text name args Dn), Ptc.
  cbn [k2p_run_with k2p_trans k2p_input k2p_quiet].
  pose proof (plf_read_text_k2p text) as R.
  destruct (plf_read_text GSDag FKthlist text) as [G| |]; rewrite R; reflexivity.
Qed.

(* standard input instead of -i <file>: the program depends on the text only *)
Theorem k2p_stdin_is_input env f sq si t : In sq ["-q"; "--quiet"]%string -> In si ["-i"; "--input"]%string ->
  pl_is_ascii (lit f) = true -> pl_starts_dash (lit f) = false ->
  plf_open env (lit f) = Some (plf_stdin env) ->
  k2p_main ([sq; si; f] ++ t) env = k2p_main (sq :: t) env.
Proof.
  intros Hq Hi HA HD HO.
  unfold k2p_main, k2p_quiet_of, k2p_formula, k2p_formula_with, k2p_parse. cbn [map forallb app].
  rewrite (plf_sq_ascii sq Hq), (plf_si_ascii si Hi), HA. cbn [andb].
  rewrite !(k2p_parse_quiet env false _ sq _ Hq), (k2p_parse_input env true _ si f _ Hi HD), HO. reflexivity.
Qed.

(* ------------------------------------------------------------------ *)
(* `cnfgen dimacs <file>`                                              *)
(* ------------------------------------------------------------------ *)
Definition plf_dimacs_outcome (text : text) : pipeline_result :=
  if negb (pl_is_ascii text) then POutside
  else match parse_dimacs false text with
       | DOk n F => POut (print_dimacs None None n F)
       | Err _ _ => PCliError
       end.

Lemma plf_noT_dimacs f : (pl_starts_dash (lit f) = false \/ f = "-"%string) -> noT ["-q"; "dimacs"; f]%string.
Proof.
  intros HD [H|[H|[H|[]]]]; try discriminate. subst f. destruct HD as [HD|HD]; discriminate.
Qed.

Lemma plf_classify_dash_pos f : (pl_starts_dash (lit f) = false \/ f = "-"%string) -> plf_classify_dash (lit f) = PlPos (lit f).
Proof.
  intros [HD| ->]; [|reflexivity]. unfold plf_classify_dash. destruct (gs_teqb (lit f) (lit "-")); [reflexivity|].
  now apply pl_classify_pos.
Qed.

Lemma plf_dimacs_chunk0 env f : pl_is_ascii (lit f) = true -> (pl_starts_dash (lit f) = false \/ f = "-"%string) ->
  plf_parse_chunk0 env (map lit ["-q"; "dimacs"; f]%string) =
  match plf_open env (lit f) with
  | Some text => PlOk (mk_pl_opts true false, Some (GenDimacs text))
  | None => PlErr
  end.
Proof.
  intros HA HD. unfold plf_parse_chunk0. cbn [map forallb]. rewrite HA.
  change (pl_is_ascii (lit "-q")) with true. change (pl_is_ascii (lit "dimacs")) with true.
  cbn [andb negb]. cbn [plf_parse_main].
  change (gs_teqb (lit "-q") (lit "-q")) with true. cbn [orb]. cbv iota.
  change (gs_teqb (lit "dimacs") (lit "-q") || gs_teqb (lit "dimacs") (lit "--quiet")) with false.
  change (gs_teqb (lit "dimacs") (lit "-v") || gs_teqb (lit "dimacs") (lit "--verbose")) with false.
  change (gs_teqb (lit "dimacs") (lit "-of") || gs_teqb (lit "dimacs") (lit "--output-format")) with false.
  change (pl_starts_dash (lit "dimacs")) with false. change (pl_is (lit "dimacs") "dimacs") with true. cbv iota.
  unfold plf_parse_dimacs. cbn [map]. rewrite (plf_classify_dash_pos f HD). cbn [existsb pl_is_out pl_is_unknown orb].
  destruct (plf_open env (lit f)); reflexivity.
Qed.

(* for ALL file contents: the re-printed formula, a clean error, or (a byte >= 128) outside *)
Theorem files_dimacs_outcome env f : pl_is_ascii (lit f) = true -> (pl_starts_dash (lit f) = false \/ f = "-"%string) ->
  cnfgen_files_main ["-q"; "dimacs"; f]%string env =
  match plf_open env (lit f) with
  | Some text => plf_dimacs_outcome text
  | None => PCliError
  end.
Proof.
  intros HA HD. unfold cnfgen_files_main, plf_opts_of, plf_formula, plf_formula_with.
  rewrite (PipelinePbFacts.pl_chunks_of_noT _ (plf_noT_dimacs f HD)). cbn [plf_parse_chunks pl_parse_tchunks].
  rewrite (plf_dimacs_chunk0 env f HA HD). destruct (plf_open env (lit f)) as [text|]; [|reflexivity].
  unfold plf_run_with. cbn [plf_g plf_ts plf_o pl_all_some pl_quiet pl_opb plf_start_with]. unfold pl_chain. cbn [fold_left].
  unfold plf_dimacs_outcome. destruct (negb (pl_is_ascii text)); [reflexivity|].
  destruct (parse_dimacs false text); reflexivity.
Qed.

Theorem files_dimacs_stdin_outcome env : cnfgen_files_main ["-q"; "dimacs"]%string env = plf_dimacs_outcome (plf_stdin env).
Proof.
  unfold cnfgen_files_main, plf_opts_of, plf_formula, plf_formula_with.
  assert (N : noT ["-q"; "dimacs"]%string) by (intros [H|[H|[]]]; discriminate).
  rewrite (PipelinePbFacts.pl_chunks_of_noT _ N). cbn [plf_parse_chunks pl_parse_tchunks].
  change (plf_parse_chunk0 env (map lit ["-q"; "dimacs"]%string)) with (PlOk (mk_pl_opts true false, Some (GenDimacs (plf_stdin env)))).
  unfold plf_run_with. cbn [plf_g plf_ts plf_o pl_all_some pl_quiet pl_opb plf_start_with]. unfold pl_chain. cbn [fold_left].
  unfold plf_dimacs_outcome. destruct (negb (pl_is_ascii (plf_stdin env))); [reflexivity|].
  destruct (parse_dimacs false (plf_stdin env)); reflexivity.
Qed.

(* what the writer prints is plain ASCII without carriage returns *)
Lemma plf_forallb_concat {A} (p : A -> bool) (ls : list (list A)) :
  (forall l, In l ls -> forallb p l = true) -> forallb p (List.concat ls) = true.
Proof.
  induction ls as [|l ls IH]; intros H; [reflexivity|]. cbn [List.concat]. rewrite forallb_app.
  rewrite (H l (or_introl eq_refl)), IH; [reflexivity|]. intros l' Hl'. apply H. now right.
Qed.

Lemma plf_print_Z_ascii z : pl_is_ascii (print_Z z) = true.
Proof.
  pose proof (print_Z_num z) as H. unfold pl_is_ascii. rewrite forallb_forall in *. intros c Hc. specialize (H c Hc).
  unfold is_num_char in H. apply orb_true_iff in H as [H|H].
  - unfold is_digit in H. cbv zeta in H. lia.
  - apply Ascii.eqb_eq in H. subst c. reflexivity.
Qed.

Lemma plf_print_dimacs_ascii n F : pl_is_ascii (print_dimacs None None n F) = true.
Proof.
  unfold print_dimacs, unlines, pl_is_ascii. apply plf_forallb_concat. intros l Hl.
  apply in_map_iff in Hl as (e & <- & He). rewrite forallb_app.
  assert (X : forallb (fun c => code c <? 128) e = true); [|rewrite X; reflexivity].
  unfold print_entries, comment_entries in He. cbn [app] in He. destruct He as [<-|He].
  - unfold spec_line. rewrite !forallb_app. fold (pl_is_ascii (print_Z n)). fold (pl_is_ascii (print_Z (len F))).
    rewrite !plf_print_Z_ascii. reflexivity.
  - apply in_map_iff in He as (c & <- & _). unfold clause_line. rewrite forallb_app.
    rewrite plf_forallb_concat; [reflexivity|]. intros l' Hl'. apply in_map_iff in Hl' as (z & <- & _).
    rewrite forallb_app. fold (pl_is_ascii (print_Z z)). rewrite plf_print_Z_ascii. reflexivity.
Qed.

Lemma plf_universal_ascii : forall s, pl_is_ascii s = true -> pl_is_ascii (universal s) = true.
Proof.
  intros s. remember (List.length s) as k eqn:Hk. revert s Hk. induction k as [k IH] using lt_wf_ind. intros s Hk H.
  destruct s as [|c r]; [reflexivity|]. cbn [universal]. cbn [pl_is_ascii forallb] in H. apply andb_true_iff in H as [Hc Hr].
  cbn [List.length] in Hk. destruct (is_cr c).
  - destruct r as [|c2 r2]; [reflexivity|]. cbn [pl_is_ascii forallb] in Hr. apply andb_true_iff in Hr as [Hc2 Hr2].
    cbn [List.length] in Hk. destruct (is_lf c2); cbn [pl_is_ascii forallb]; change (code LF <? 128) with true; cbn [andb].
    + apply (IH (List.length r2)); [lia|reflexivity|exact Hr2].
    + apply (IH (List.length (c2 :: r2))); [cbn [List.length]; lia|reflexivity|]. cbn [pl_is_ascii forallb]. now rewrite Hc2.
  - cbn [pl_is_ascii forallb]. rewrite Hc. apply (IH (List.length r)); [lia|reflexivity|exact Hr].
Qed.

(* idempotence through the tool: what `cnfgen -q dimacs` prints reads back as the formula the input reads as, and
   the tool prints it again unchanged -- from a file (text mode) and from standard input *)
Theorem files_dimacs_idempotent text n F : parse_dimacs false text = DOk n F -> printable n -> printable (len F) ->
  let t := print_dimacs None None n F in
  (forall u, parse_dimacs u t = DOk n F) /\
  plf_dimacs_outcome t = POut t /\ plf_dimacs_outcome (universal t) = POut t.
Proof.
  intros E P1 P2 t.
  destruct (parse_sound_proved false text n F E) as (sl & m & _ & _ & _ & Hn & _ & HF).
  assert (V : valid n F) by (split; assumption).
  assert (R : forall u, parse_dimacs u t = DOk n F) by (intros u; now apply dimacs_roundtrip_proved).
  split; [exact R|]. unfold plf_dimacs_outcome. split.
  - unfold t at 1. rewrite plf_print_dimacs_ascii. cbn [negb]. rewrite (R false). reflexivity.
  - rewrite plf_universal_ascii by apply plf_print_dimacs_ascii. cbn [negb].
    change (parse_dimacs false (universal t)) with (parse_dimacs true t). rewrite (R true). reflexivity.
Qed.
