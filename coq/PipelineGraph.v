(* PipelineGraph.v -- the GRAPH ARGUMENT of a formula sub-command inside the whole-program model (Pipeline.v).
   Definitions only.

   Models  cnfgen/clitools/graph_args.py: ObtainSimpleGraph / ObtainBipartiteGraph / ObtainDirectedAcyclicGraph
   .__call__ (make_graph_from_spec; ValueError and OSError become parser.error), composed of
     GraphSpec.gs_make         parse_graph_argument + the argument checks of obtain_graph   (its `fo` argument, the order
                               of a graph read from a file, is irrelevant here: files are outside)
     GraphGen.gg_*             the deterministic constructions: complete N, empty N (simple); complete L R, empty L R,
                               shift L R p1 p2 ... (bipartite); path N, tree H, pyramid H (dag)
   Everything else a graph argument can be is POutside: random constructions (gnp gnm gnd glrp glrm glrd regular),
   networkx constructions (grid, torus, complete N B), the options plantclique / plantbiclique / addedges / splitedges
   (random) and save (writes a file), graph files.
   Also the three views of a graph object that the families use: predecessor lists (DirectedGraph.predecessors),
   right-neighbour lists (BipartiteGraph.right_neighbors), neighbour lists (Graph.neighbors). *)
From Coq Require Import ZArith List Bool Ascii String.
From Cnfgen Require Import Comb Text GraphSpec GText GraphIO GraphGen FamTab.
Import ListNotations.
Open Scope Z_scope.

Inductive pl_parsed (A : Type) : Type :=
| PlOk (a : A)
| PlErr            (* CLIError raised while parsing *)
| PlOutside.       (* outside the token grammar *)
Arguments PlOk {A} a.
Arguments PlErr {A}.
Arguments PlOutside {A}.

Definition plg_of_gg (r : gg_res iograph) : pl_parsed iograph :=
  match r with
  | GGOk G => PlOk G
  | GGRaise EValueError => PlErr
  | _ => PlOutside                 (* no other outcome for the constructions below: PipelineGraphFacts.plg_call_total *)
  end.

(* the generator call a validated graph argument ends in *)
Definition plg_build_call (c : gs_call) : pl_parsed iograph :=
  match c with
  | GCCompleteS n None => plg_of_gg (gg_complete_simple n)
  | GCEmptyS n => plg_of_gg (gg_empty_simple n)
  | GCCompleteB l r => plg_of_gg (gg_complete_bipartite l r)
  | GCEmptyB l r => plg_of_gg (gg_empty_bipartite l r)
  | GCShift l r pat => match gg_shift l r pat with
                       | GGOk (G, _) => PlOk G
                       | GGRaise EValueError => PlErr
                       | _ => PlOutside
                       end
  | GCTree h => plg_of_gg (gg_dag_tree h)
  | GCPyramid h => plg_of_gg (gg_dag_pyramid h)
  | GCPath len => plg_of_gg (gg_dag_path len)
  | _ => PlOutside
  end.

Definition plg_kind_of (g : gs_gtype) : gio_kind :=
  match g with GSSimple => GioSimple | GSBipartite => GioBipartite | GSDag | GSDigraph => GioDirected end.
Definition plg_kind_eqb (a b : gio_kind) : bool :=
  match a, b with
  | GioSimple, GioSimple | GioDirected, GioDirected | GioBipartite, GioBipartite => true
  | _, _ => false
  end.

(* ObtainXGraph.__call__(values).  The table `constructions[graphtype]` lists constructions of that graph type
   only: the kind test below never fails (it spares the theorems a detour through GraphSpec.gs_dispatch) *)
Definition plg_graph_arg (g : gs_gtype) (values : list text) : pl_parsed iograph :=
  match gs_make (0, 0) g values with
  | inl (GSVOk [SGen c]) =>
    match plg_build_call c with
    | PlOk G => if plg_kind_eqb (io_kind G) (plg_kind_of g) then PlOk G else PlOutside
    | PlErr => PlErr
    | PlOutside => PlOutside
    end
  | inl (GSVOk _) => PlOutside         (* plant.. / addedges / splitedges: random; save: a file *)
  | inl (GSVErr _) => PlErr
  | inl (GSVCrash _) => PlOutside      (* never: GraphSpecFacts.gs_make_never_crashes *)
  | inr (GSPErr _) => PlErr
  | inr _ => PlOutside                 (* never: the parser returns a value or an error *)
  end.

(* DirectedGraph.predecessors(v) for v = 1..n: sources of the edges into v, increasing *)
Definition plg_preds (n : Z) (E : list (Z * Z)) : list (list Z) :=
  map (fun v => map fst (filter (fun e => snd e =? v) E)) (upto n).
(* BipartiteGraph.right_neighbors(u) for u = 1..L *)
Definition plg_adj (L : Z) (E : list (Z * Z)) : list (list Z) :=
  map (fun u => map snd (filter (fun e => fst e =? u) E)) (upto L).
(* Graph.neighbors(v) for v = 1..n: the smaller neighbours, then the larger ones *)
Definition plg_nbrs (n : Z) (E : list (Z * Z)) : list (list Z) :=
  map (fun v => map fst (filter (fun e => snd e =? v) E) ++ map snd (filter (fun e => fst e =? v) E)) (upto n).
