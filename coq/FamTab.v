(* FamTab.v — variable layouts and mapping constraints shared by the C01 families.
   Models, from cnfgen/formula/variables.py:
     * the numbering of a variable group: the k-th index (in the group's own
       enumeration order) gets identifier offset+k            [BaseVariableGroup.ids]
     * BipartiteEdgesVariables / UnaryMappingVariables on an arbitrary bipartite
       graph: indices = edges (u,v) by increasing u, then in the order of
       right_neighbors(u); f(u,None) / f(None,v) as selections of that table
     * new_mapping (complete bipartite graph): closed form offset+(i-1)*n+j
     * VariablesManager.force_complete_mapping / force_surjective_mapping /
       force_injective_mapping / force_functional_mapping for unary mappings
       (clauses  f(x,None), f(None,y)  and  cardinality_leq(...,1)).
   Abstracted: labels, the formula object, type checks.  A bipartite graph is
   given as the list of (sorted) right-neighbour lists of the left vertices
   1..L together with the number R of right vertices.
   Definitions only. *)
From Coq Require Import ZArith List Bool.
From Cnfgen Require Import Sem Comb Linear IR.
Import ListNotations.
Open Scope Z_scope.

(* range(1, m+1) *)
Definition upto (m : Z) : list Z := zrange 1 (m + 1).

(* ---------- numbering of a variable group ---------- *)
Fixpoint number {I : Type} (off : Z) (l : list I) : list (I * Z) :=
  match l with
  | [] => []
  | x :: t => (x, off + 1) :: number (off + 1) t
  end.

(* identifiers of the indices satisfying p, in table order *)
Definition ids_where {I : Type} (p : I -> bool) (t : list (I * Z)) : list Z :=
  map snd (filter (fun e => p (fst e)) t).
(* decoding: the indices whose variable is true *)
Definition sel {I : Type} (a : Z -> bool) (t : list (I * Z)) : list I :=
  map fst (filter (fun e => a (snd e)) t).
(* encoding: the assignment that makes exactly the indices in obj true *)
Definition enc {I : Type} (t : list (I * Z)) (obj : I -> bool) : Z -> bool :=
  fun v => match find (fun e => snd e =? v) t with
           | Some e => obj (fst e)
           | None => false
           end.

(* ---------- bipartite graphs as adjacency lists ---------- *)
Fixpoint bip_rows (u : Z) (adj : list (list Z)) : list (Z * Z) :=
  match adj with
  | [] => []
  | vs :: t => map (pair u) vs ++ bip_rows (u + 1) t
  end.
(* BipartiteEdgeList: edges by left vertex, then by right neighbour *)
Definition bip_index (adj : list (list Z)) : list (Z * Z) := bip_rows 1 adj.

Fixpoint strictly_increasing (l : list Z) : bool :=
  match l with
  | [] => true
  | x :: t => match t with [] => true | y :: _ => (x <? y) && strictly_increasing t end
  end.
(* what cnfgen's BipartiteGraph guarantees: neighbours sorted, distinct, in 1..R *)
Definition bip_wf (adj : list (list Z)) (R : Z) : bool :=
  forallb (fun vs => strictly_increasing vs && forallb (fun v => (1 <=? v) && (v <=? R)) vs) adj.

Definition row_ids (t : list ((Z * Z) * Z)) (u : Z) : list Z := ids_where (fun e => fst e =? u) t.
Definition col_ids (t : list ((Z * Z) * Z)) (v : Z) : list Z := ids_where (fun e => snd e =? v) t.

(* mapping constraints on a sparse (table) mapping with domain 1..L and range 1..R *)
Definition sm_complete t (L : Z) : list ir := map (fun u => IClause (row_ids t u)) (upto L).
Definition sm_surjective t (R : Z) : list ir := map (fun v => IClause (col_ids t v)) (upto R).
Definition sm_injective t (R : Z) : list ir := map (fun v => ILin (col_ids t v) CLe 1) (upto R).
Definition sm_functional t (L : Z) : list ir := map (fun u => ILin (row_ids t u) CLe 1) (upto L).

(* ---------- complete mappings: closed-form layout ---------- *)
Definition bvar (off n i j : Z) : Z := off + (i - 1) * n + j.
Definition blk_row (off n i : Z) : list Z := map (bvar off n i) (upto n).
Definition blk_col (off m n j : Z) : list Z := map (fun i => bvar off n i j) (upto m).
Definition cm_complete (off m n : Z) : list ir := map (fun i => IClause (blk_row off n i)) (upto m).
Definition cm_surjective (off m n : Z) : list ir := map (fun j => IClause (blk_col off m n j)) (upto n).
Definition cm_injective (off m n : Z) : list ir := map (fun j => ILin (blk_col off m n j) CLe 1) (upto n).
Definition cm_functional (off m n : Z) : list ir := map (fun i => ILin (blk_row off n i) CLe 1) (upto m).

(* first element of lo..hi-1 satisfying p (lo when there is none) *)
Definition first_such (p : Z -> bool) (lo hi : Z) : Z :=
  match find p (zrange lo hi) with Some x => x | None => lo end.
