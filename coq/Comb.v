(* Comb.v — itertools enumerators, in CPython's order. Definitions only. *)
From Coq Require Import ZArith List Bool.
Import ListNotations.

(* itertools.combinations(l, k) *)
Fixpoint combs {A} (l : list A) (k : nat) : list (list A) :=
  match k with
  | O => [[]]
  | S k' => match l with
            | [] => []
            | x :: t => map (cons x) (combs t k') ++ combs t (S k')
            end
  end.

(* itertools.product of the lists ls : first coordinate varies slowest *)
Fixpoint prod {A} (ls : list (list A)) : list (list A) :=
  match ls with
  | [] => [[]]
  | l :: t => flat_map (fun x => map (cons x) (prod t)) l
  end.

(* itertools.product(l, repeat=k) *)
Definition prod_rep {A} (l : list A) (k : nat) : list (list A) := prod (repeat l k).

(* itertools.permutations(l, k): k-arrangements in lexicographic order of positions *)
Fixpoint remove_nth {A} (n : nat) (l : list A) : list A :=
  match n, l with
  | _, [] => []
  | O, _ :: t => t
  | S n', x :: t => x :: remove_nth n' t
  end.
Fixpoint perms_fuel {A} (fuel : nat) (l : list A) (k : nat) : list (list A) :=
  match k with
  | O => [[]]
  | S k' =>
    match fuel with
    | O => []
    | S f =>
      flat_map (fun i => match nth_error l i with
                         | Some x => map (cons x) (perms_fuel f (remove_nth i l) k')
                         | None => []
                         end) (seq 0 (length l))
    end
  end.
Definition perms {A} (l : list A) (k : nat) : list (list A) := perms_fuel k l k.

(* all ordered pairs (x,y) with x before y : combinations(l,2) as pairs *)
Fixpoint pairs {A} (l : list A) : list (A * A) :=
  match l with [] => [] | x :: t => map (pair x) t ++ pairs t end.

(* range(a, b) over Z *)
Definition zrange (a b : Z) : list Z := map (fun i => (a + Z.of_nat i)%Z) (seq 0 (Z.to_nat (b - a))).
