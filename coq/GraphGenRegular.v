(* GraphGenRegular.v -- bipartite_random_regular (GraphGen.v gg_random_regular_gen): regular on both sides whenever it
   returns with l*d edges (always so in the repaired variant). *)
From Coq Require Import ZArith List Bool Lia ZifyBool Permutation Arith.
From Cnfgen Require Import Comb GText GraphIO GraphIOFacts GraphGen GraphGenFacts.
Import ListNotations.
Open Scope Z_scope.
Ltac Zify.zify_post_hook ::= Z.to_euclidean_division_equations.

Definition cnt (l : list Z) (z : Z) : nat := count_occ Z.eq_dec l z.
Definition ind (a b : Z) : nat := if Z.eq_dec a b then 1%nat else 0%nat.

Lemma cnt_cons a l z : cnt (a :: l) z = (ind a z + cnt l z)%nat.
Proof. unfold cnt, ind. cbn [count_occ]. destruct (Z.eq_dec a z); reflexivity. Qed.

(* ---------- list assignment ---------- *)
Lemma set_nth_length : forall l i x, length (gg_set_nth i x l) = length l.
Proof. induction l as [|y t IH]; intros [|i] x; cbn [gg_set_nth length]; auto. Qed.
Lemma nth_set_nth_eq : forall l i x, (i < length l)%nat -> nth i (gg_set_nth i x l) 0 = x.
Proof.
  induction l as [|y t IH]; intros [|i] x H; cbn [length] in H; try lia; cbn [gg_set_nth nth]; [reflexivity|].
  apply IH. lia.
Qed.
Lemma nth_set_nth_neq : forall l i j x, i <> j -> nth j (gg_set_nth i x l) 0 = nth j l 0.
Proof.
  induction l as [|y t IH]; intros [|i] [|j] x H; cbn [gg_set_nth nth]; try reflexivity; try congruence.
  apply IH. congruence.
Qed.
Lemma cnt_set_nth : forall l i x z, (i < length l)%nat ->
  (cnt (gg_set_nth i x l) z + ind (nth i l 0%Z) z = cnt l z + ind x z)%nat.
Proof.
  induction l as [|y t IH]; intros [|i] x z H; cbn [length] in H; try lia; cbn [gg_set_nth nth]; rewrite !cnt_cons.
  - lia.
  - specialize (IH i x z). lia.
Qed.

Lemma swap_length i j l : length (gg_swap i j l) = length l.
Proof. unfold gg_swap. now rewrite !set_nth_length. Qed.
Lemma nth_swap_other i j k l : k <> i -> k <> j -> nth k (gg_swap i j l) 0 = nth k l 0.
Proof. intros Hi Hj. unfold gg_swap. rewrite !nth_set_nth_neq by congruence. reflexivity. Qed.
Lemma nth_swap_i i j l : (i < length l)%nat -> (j < length l)%nat -> nth i (gg_swap i j l) 0 = nth j l 0.
Proof.
  intros Hi Hj. unfold gg_swap. destruct (Nat.eq_dec i j) as [->|Hn].
  - rewrite nth_set_nth_eq; [reflexivity|now rewrite set_nth_length].
  - rewrite nth_set_nth_neq by congruence. now apply nth_set_nth_eq.
Qed.
Lemma cnt_swap i j l z : (i < length l)%nat -> (j < length l)%nat -> cnt (gg_swap i j l) z = cnt l z.
Proof.
  intros Hi Hj. unfold gg_swap.
  pose proof (cnt_set_nth l i (nth j l 0) z Hi) as H1.
  assert (Hj' : (j < length (gg_set_nth i (nth j l 0%Z) l))%nat) by now rewrite set_nth_length.
  pose proof (cnt_set_nth _ j (nth i l 0) z Hj') as H2.
  assert (E : nth j (gg_set_nth i (nth j l 0) l) 0 = nth j l 0).
  { destruct (Nat.eq_dec i j) as [->|Hn]; [now apply nth_set_nth_eq|now apply nth_set_nth_neq]. }
  rewrite E in H2. lia.
Qed.

(* ---------- counting in A = list(L) * d ---------- *)
Lemma cnt_app l1 l2 z : cnt (l1 ++ l2) z = (cnt l1 z + cnt l2 z)%nat.
Proof. unfold cnt. apply count_occ_app. Qed.
Lemma cnt_concat_repeat l k z : cnt (concat (repeat l k)) z = (k * cnt l z)%nat.
Proof. induction k as [|k IH]; cbn [repeat concat]; [reflexivity|]. rewrite cnt_app, IH. lia. Qed.
Lemma cnt_range1 n z : cnt (gt_range1 n) z = if (1 <=? z) && (z <=? n) then 1%nat else 0%nat.
Proof.
  unfold cnt. destruct ((1 <=? z) && (z <=? n)) eqn:E.
  - apply NoDup_count_occ'; [apply range1_NoDup|apply range1_In; lia].
  - apply count_occ_not_In. intros H. apply range1_In in H. lia.
Qed.
Lemma cnt_pos_In l z : (0 < cnt l z)%nat -> In z l.
Proof. unfold cnt. intros H. now apply (count_occ_In Z.eq_dec). Qed.

(* ---------- edges listed by position ---------- *)
Definition at_pos (A B : list Z) (j : nat) : Z * Z := (nth j A 0, nth j B 0).

Lemma map_at_pos_seq : forall A B k, length A = length B ->
  map (at_pos (skipn k A) (skipn k B)) (seq 0 (length A - k)) = combine (skipn k A) (skipn k B).
Proof.
  intros A B k H. set (A' := skipn k A). set (B' := skipn k B).
  assert (HL : length A' = length B') by (unfold A', B'; rewrite !skipn_length; lia).
  replace (length A - k)%nat with (length A') by (unfold A'; now rewrite skipn_length).
  clearbody A' B'. clear H. revert B' HL. induction A' as [|a t IH]; intros [|b t'] HL; cbn [length] in HL; try lia; [reflexivity|].
  cbn [length seq map combine]. f_equal. rewrite <- seq_shift, map_map. apply IH. lia.
Qed.
Lemma map_at_pos_all A B : length A = length B -> map (at_pos A B) (seq 0 (length A)) = combine A B.
Proof. intros H. pose proof (map_at_pos_seq A B 0 H) as E. cbn [skipn] in E. now rewrite Nat.sub_0_r in E. Qed.

Lemma combine_count_fst : forall (la lb : list Z) u, length la = length lb ->
  length (filter (fun e => fst e =? u) (combine la lb)) = cnt la u.
Proof.
  induction la as [|a t IH]; intros [|b t'] u H; cbn [length] in H; try lia; [reflexivity|].
  cbn [combine filter fst]. rewrite cnt_cons. unfold ind. destruct (Z.eq_dec a u) as [->|Hn].
  - rewrite Z.eqb_refl. cbn [length]. rewrite IH by lia. lia.
  - replace (a =? u) with false by lia. rewrite IH by lia. lia.
Qed.
Lemma combine_count_snd : forall (la lb : list Z) v, length la = length lb ->
  length (filter (fun e => snd e =? v) (combine la lb)) = cnt lb v.
Proof.
  induction la as [|a t IH]; intros [|b t'] v H; cbn [length] in H; try lia; [reflexivity|].
  cbn [combine filter snd]. rewrite cnt_cons. unfold ind. destruct (Z.eq_dec b v) as [->|Hn].
  - rewrite Z.eqb_refl. cbn [length]. rewrite IH by lia. lia.
  - replace (b =? v) with false by lia. rewrite IH by lia. lia.
Qed.

(* ---------- the retry loop and the exhaustive test ---------- *)
Lemma rr_try_found : forall n s c i hi G A B ea eb t, (length s <= n)%nat ->
  gg_rr_try c i hi G A B s = GGFound ea eb t ->
  i <= ea <= hi /\ i <= eb <= hi /\ gio_has_edge G (nth (Z.to_nat ea) A 0) (nth (Z.to_nat eb) B 0) = false.
Proof.
  induction n as [|n IH]; intros s c i hi G A B ea eb t Hlen H.
  - destruct s; [|cbn in Hlen; lia]. cbn [gg_rr_try] in H. destruct (c <=? 0); discriminate.
  - destruct s as [|a s]; cbn [gg_rr_try] in H; [destruct (c <=? 0); discriminate|].
    destruct (c <=? 0); [discriminate|]. destruct s as [|b s]; [discriminate|]. cbn [length] in Hlen.
    destruct ((i <=? a) && (a <=? hi) && (i <=? b) && (b <=? hi)) eqn:E; [|discriminate].
    destruct (gio_has_edge G (nth (Z.to_nat a) A 0) (nth (Z.to_nat b) B 0)) eqn:Eh.
    + apply IH in H; [exact H|lia].
    + inversion H; subst. repeat split; try lia. exact Eh.
Qed.

Lemma find_pos_some : forall p l k j, gg_find_pos p l k = Some j ->
  (k <= j < k + length l)%nat /\ p (nth (j - k) l 0) = true.
Proof.
  induction l as [|x t IH]; intros k j H; cbn [gg_find_pos] in H; [discriminate|].
  destruct (p x) eqn:E.
  - inversion H; subst. cbn [length]. rewrite Nat.sub_diag. cbn [nth]. split; [lia|exact E].
  - apply IH in H as [Hb Hp]. cbn [length]. split; [lia|].
    replace (j - k)%nat with (S (j - S k)) by lia. exact Hp.
Qed.
Lemma rr_free_some : forall G As Bs ka kb ea eb, gg_rr_free G As Bs ka kb = Some (ea, eb) ->
  (ka <= ea < ka + length As)%nat /\ (kb <= eb < kb + length Bs)%nat /\
  gio_has_edge G (nth (ea - ka) As 0) (nth (eb - kb) Bs 0) = false.
Proof.
  induction As as [|a t IH]; intros Bs ka kb ea eb H; cbn [gg_rr_free] in H; [discriminate|].
  destruct (gg_find_pos (fun b => negb (gio_has_edge G a b)) Bs kb) as [j|] eqn:E.
  - inversion H; subst. apply find_pos_some in E as [Hb Hp]. cbn [length]. rewrite Nat.sub_diag. cbn [nth].
    split; [lia|]. split; [exact Hb|]. destruct (gio_has_edge G a (nth (eb - kb) Bs 0)); [discriminate|reflexivity].
  - apply IH in H as (Ha & Hb & Hp). cbn [length]. split; [lia|]. split; [exact Hb|].
    replace (ea - ka)%nat with (S (ea - S ka)) by lia. exact Hp.
Qed.
Lemma nth_skipn_shift : forall (l : list Z) k j, nth j (skipn k l) 0 = nth (k + j) l 0.
Proof.
  induction l as [|x t IH]; intros [|k] j; cbn [skipn nth plus]; try reflexivity.
  - destruct j; reflexivity.
  - apply IH.
Qed.

(* ---------- the invariant of the main loop ---------- *)
(* k positions treated; js: the positions for which an edge was added (all of them in the repaired variant) *)
Record rr_inv (repair : bool) (n : nat) (A0 B0 : list Z) (k : nat) (G : iograph) (A B : list Z) (js : list nat) : Prop := {
  ri_kind : io_kind G = GioBipartite;
  ri_lenA : length A = n;
  ri_lenB : length B = n;
  ri_cntA : forall z, cnt A z = cnt A0 z;
  ri_cntB : forall z, cnt B z = cnt B0 z;
  ri_nodup : NoDup js;
  ri_below : forall j, In j js -> (j < k)%nat;
  ri_edges : Permutation (io_edges G) (map (at_pos A B) js);
  ri_all : repair = true -> length js = k }.

Lemma rr_step repair n A0 B0 k G A B js ea eb G1 :
  rr_inv repair n A0 B0 k G A B js -> (k <= ea < n)%nat -> (k <= eb < n)%nat ->
  gio_has_edge G (nth ea A 0) (nth eb B 0) = false ->
  gio_add_edge G (nth ea A 0) (nth eb B 0) = GOk G1 ->
  rr_inv repair n A0 B0 (S k) G1 (gg_swap k ea A) (gg_swap k eb B) (k :: js).
Proof.
  intros [Hk HlA HlB HcA HcB Hnd Hbel Hed Hall] Ha Hb Hh Hadd.
  pose proof (add_edge_keeps _ _ _ _ Hadd) as (Hk1 & _).
  apply add_edge_inv in Hadd as [_ ->]. rewrite Hk. cbn [edge_norm].
  constructor.
  - exact Hk.
  - rewrite swap_length. exact HlA.
  - rewrite swap_length. exact HlB.
  - intros z. rewrite cnt_swap by lia. apply HcA.
  - intros z. rewrite cnt_swap by lia. apply HcB.
  - constructor; [|exact Hnd]. intros Hin. apply Hbel in Hin. lia.
  - intros j [<-|Hj]; [lia|]. apply Hbel in Hj. lia.
  - cbn [io_edges gio_with_edges map]. rewrite insert_perm.
    + unfold at_pos at 1. rewrite !nth_swap_i by lia. constructor.
      rewrite Hed. apply Permutation_refl'. apply map_ext_in. intros j Hj. apply Hbel in Hj.
      unfold at_pos. rewrite !nth_swap_other by lia. reflexivity.
    + intros Hin. assert (gio_has_edge G (nth ea A 0) (nth eb B 0) = true); [|congruence].
      apply has_edge_In. rewrite Hk. exact Hin.
  - intros Hr. cbn [length]. now rewrite Hall.
Qed.

Lemma rr_skip n A0 B0 k G A B js :
  rr_inv false n A0 B0 k G A B js -> rr_inv false n A0 B0 (S k) G A B js.
Proof.
  intros [Hk HlA HlB HcA HcB Hnd Hbel Hed Hall]. constructor; try assumption; [|discriminate].
  intros j Hj. apply Hbel in Hj. lia.
Qed.

Lemma rr_loop_inv : forall fuel repair k n d G A B s A0 B0 js r s',
  (k + fuel = n)%nat -> rr_inv repair n A0 B0 k G A B js ->
  gg_rr_loop repair fuel (Z.of_nat k) (Z.of_nat n) d G A B s = GGOk (Some r, s') ->
  exists A' B' js', rr_inv repair n A0 B0 n r A' B' js'.
Proof.
  induction fuel as [|f IH]; intros repair k n d G A B s A0 B0 js r s' Hkn Hinv H; cbn [gg_rr_loop] in H.
  - assert (Ek : k = n) by lia. subst k. inversion H; subst. eauto.
  - rewrite Nat2Z.id in H.
    destruct (gg_rr_try (3 * d * d) (Z.of_nat k) (Z.of_nat n - 1) G A B s) as [ea eb t|t|] eqn:Et; [| |discriminate].
    + apply (rr_try_found (length s)) in Et as (Ha & Hb & Hh); [|lia].
      bind_inv H G1 H1. apply gg_lift_ok in H1.
      replace (Z.of_nat k + 1) with (Z.of_nat (S k)) in H by lia.
      eapply IH in H; [exact H|lia|]. eapply rr_step; try eassumption; lia.
    + destruct (gg_rr_free G (skipn k A) (skipn k B) k k) as [[ea eb]|] eqn:Ef; [|discriminate].
      pose proof (ri_lenA _ _ _ _ _ _ _ _ _ Hinv) as HlA. pose proof (ri_lenB _ _ _ _ _ _ _ _ _ Hinv) as HlB.
      apply rr_free_some in Ef as (Ha & Hb & Hh). rewrite skipn_length in Ha, Hb. rewrite !nth_skipn_shift in Hh.
      replace (k + (ea - k))%nat with ea in Hh by lia. replace (k + (eb - k))%nat with eb in Hh by lia.
      replace (Z.of_nat k + 1) with (Z.of_nat (S k)) in H by lia.
      destruct repair.
      * bind_inv H G1 H1. apply gg_lift_ok in H1.
        eapply IH in H; [exact H|lia|]. eapply rr_step; try eassumption; lia.
      * eapply IH in H; [exact H|lia|]. apply rr_skip. exact Hinv.
Qed.

(* ---------- from the invariant to the degrees ---------- *)
Lemma full_positions js n : NoDup js -> (forall j, In j js -> (j < n)%nat) -> length js = n -> Permutation js (seq 0 n).
Proof.
  intros Hnd Hb Hl. apply NoDup_Permutation_bis; [exact Hnd|rewrite seq_length; lia|].
  intros j Hj. apply in_seq. apply Hb in Hj. lia.
Qed.

Lemma rr_inv_degrees repair n A0 B0 G A B js :
  rr_inv repair n A0 B0 n G A B js -> length js = n ->
  (forall u, ldeg G u = cnt A0 u) /\ (forall v, rdeg G v = cnt B0 v).
Proof.
  intros [Hk HlA HlB HcA HcB Hnd Hbel Hed Hall] Hl.
  assert (Hp : Permutation (io_edges G) (combine A B)).
  { rewrite Hed. rewrite (Permutation_map (at_pos A B) (full_positions js n Hnd Hbel Hl)).
    rewrite <- HlA. rewrite map_at_pos_all by congruence. reflexivity. }
  split.
  - intros u. rewrite ldeg_filter, (Permutation_length (filter_perm _ _ _ Hp)), combine_count_fst by congruence. apply HcA.
  - intros v. rewrite rdeg_filter, (Permutation_length (filter_perm _ _ _ Hp)), combine_count_snd by congruence. apply HcB.
Qed.

Lemma rr_inv_nedges repair n A0 B0 k G A B js : rr_inv repair n A0 B0 k G A B js -> gg_nedges G = Z.of_nat (length js).
Proof.
  intros Hinv. unfold gg_nedges, gg_len. rewrite (Permutation_length (ri_edges _ _ _ _ _ _ _ _ _ Hinv)), map_length. reflexivity.
Qed.

Lemma length_concat_repeat (l : list Z) k : length (concat (repeat l k)) = (k * length l)%nat.
Proof. induction k as [|k IH]; cbn [repeat concat]; [reflexivity|]. rewrite app_length, IH. lia. Qed.

Lemma rr_restarts_regular : forall restarts repair l r d s G s', 0 <= l -> 0 < r -> 0 <= d -> (l * d) mod r = 0 ->
  gg_rr_restarts repair restarts l r d s = GGOk (G, s') ->
  (repair = true \/ gg_nedges G = l * d) ->
  io_kind G = GioBipartite /\
  (forall u, 1 <= u <= l -> Z.of_nat (ldeg G u) = d) /\ (forall v, 1 <= v <= r -> Z.of_nat (rdeg G v) = l * d / r) /\
  gg_nedges G = l * d.
Proof.
  induction restarts as [|k IH]; intros repair l r d s G s' Hl Hr Hd Hm H Hc; cbn [gg_rr_restarts] in H; [discriminate|].
  bind_inv H G0 H0. apply gg_lift_ok in H0. apply new_inv in H0 as (_ & _ & ->).
  bind_inv H res Hres. destruct res as [[G1|] s1]; cbn [fst snd] in H; [|eapply IH; eassumption].
  inversion H; subst G1 s1. clear H.
  assert (Hld : 0 <= l * d) by nia.
  assert (Hq : 0 <= l * d / r) by (apply Z.div_pos; lia).
  assert (Hqr : l * d / r * r = l * d).
  { pose proof (Z.div_mod (l * d) r ltac:(lia)) as E. rewrite Hm in E. lia. }
  set (n := Z.to_nat (l * d)) in *.
  assert (Hn : l * d = Z.of_nat n) by (unfold n; lia).
  assert (HlA : length (gg_rr_A l d) = n).
  { unfold gg_rr_A. rewrite length_concat_repeat, range1_length. unfold n. nia. }
  assert (HlB : length (gg_rr_B l r d) = n).
  { unfold gg_rr_B. rewrite length_concat_repeat, range1_length. unfold n. nia. }
  rewrite Hn in Hres. change 0 with (Z.of_nat 0) in Hres.
  apply (rr_loop_inv n repair 0%nat n d _ _ _ s (gg_rr_A l d) (gg_rr_B l r d) []) in Hres; [|lia|].
  - destruct Hres as (A' & B' & js' & Hinv).
    assert (Hlen : length js' = n).
    { destruct Hc as [->|Hc]; [now apply (ri_all _ _ _ _ _ _ _ _ _ Hinv)|].
      rewrite (rr_inv_nedges _ _ _ _ _ _ _ _ _ Hinv) in Hc. lia. }
    pose proof (rr_inv_degrees _ _ _ _ _ _ _ _ Hinv Hlen) as [HdA HdB].
    split; [exact (ri_kind _ _ _ _ _ _ _ _ _ Hinv)|]. split; [|split].
    + intros u Hu. rewrite HdA. unfold gg_rr_A. rewrite cnt_concat_repeat, cnt_range1.
      replace ((1 <=? u) && (u <=? l)) with true by lia. lia.
    + intros v Hv. rewrite HdB. unfold gg_rr_B. rewrite cnt_concat_repeat, cnt_range1.
      replace ((1 <=? v) && (v <=? r)) with true by lia. lia.
    + rewrite (rr_inv_nedges _ _ _ _ _ _ _ _ _ Hinv). lia.
  - constructor; try reflexivity; try assumption.
    + constructor.
    + intros j [].
Qed.

Theorem random_regular_degrees : forall repair restarts l r d s G s',
  gg_random_regular_gen repair restarts l r d s = GGOk (G, s') -> (repair = true \/ gg_nedges G = l * d) ->
  io_kind G = GioBipartite /\
  (forall u, 1 <= u <= l -> Z.of_nat (length (gio_succs G u)) = d) /\
  (forall v, 1 <= v <= r -> Z.of_nat (length (gio_preds G v)) = l * d / r) /\
  gg_nedges G = l * d.
Proof.
  intros repair restarts l r d s G s' H Hc. unfold gg_random_regular_gen in H.
  destruct ((l <? 0) || (r <? 0) || (d <? 0)) eqn:E; [discriminate|].
  destruct (r =? 0) eqn:Er; [discriminate|].
  destruct ((l * d) mod r =? 0) eqn:Em; [|discriminate]. cbn [negb] in H.
  apply rr_restarts_regular in H; try lia; assumption.
Qed.

Lemma random_regular_spec_degrees : forall restarts l r d s G s',
  gg_random_regular restarts l r d s = GGOk (G, s') ->
  io_kind G = GioBipartite /\
  (forall u, 1 <= u <= l -> Z.of_nat (length (gio_succs G u)) = d) /\
  (forall v, 1 <= v <= r -> Z.of_nat (length (gio_preds G v)) = l * d / r) /\
  gg_nedges G = l * d.
Proof. intros restarts l r d s G s' H. exact (random_regular_degrees true restarts l r d s G s' H (or_introl eq_refl)). Qed.
Lemma random_regular_as_is_partial : forall restarts l r d s G s',
  gg_random_regular_as_found restarts l r d s = GGOk (G, s') -> gg_nedges G = l * d ->
  io_kind G = GioBipartite /\
  (forall u, 1 <= u <= l -> Z.of_nat (length (gio_succs G u)) = d) /\
  (forall v, 1 <= v <= r -> Z.of_nat (length (gio_preds G v)) = l * d / r) /\
  gg_nedges G = l * d.
Proof. intros restarts l r d s G s' H Hm. exact (random_regular_degrees false restarts l r d s G s' H (or_intror Hm)). Qed.

(* the code as it is returns a graph that is not regular: position 1 runs out of retries on the present edge (1,1)
   although (2,2) is free, nothing is added for it and the loop goes on *)
Lemma random_regular_as_is_refuted : exists restarts l r d s G s',
  gg_guard_regular [l; r; d] = true /\ gg_random_regular_as_found restarts l r d s = GGOk (G, s') /\
  exists u, 1 <= u <= l /\ Z.of_nat (length (gio_succs G u)) <> d.
Proof.
  exists 1%nat, 2, 2, 2, ([0; 0] ++ concat (repeat [2; 2] 12) ++ [2; 3; 3; 3]). eexists. eexists.
  split; [reflexivity|]. split; [vm_compute; reflexivity|]. exists 2. vm_compute. split; [split; congruence|congruence].
Qed.
