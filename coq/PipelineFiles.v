(* PipelineFiles.v -- the whole-program models with FILE arguments: the input of a run is
   (argv, a finite map from file names to file contents, the text on standard input).  Definitions only.

   Models (the tree in /repo as it is now, CPython 3.12.1 and its argparse)
     cnfgen/clitools/graph_args.py       make_graph_from_spec when the graph argument names a FILE:
                                         GraphSpec.gs_make decides file name and format (explicit format token, or
                                         the extension of the name), obtain_graph calls read_graph_from_input
     cnfgen/clitools/graph_fileinput.py  open_input (name '-' = standard input; a missing file is FileNotFoundError,
                                         an OSError, turned into parser.error by ObtainGraphAction), readGraph
     cnfgen/graphs.py                    readGraph for kthlist / dimacs / matrix: GraphIO.gio_read_graph (the readers of
                                         property C14, with their ValueError cases and the 'dag' test)
     cnfgen/clihelpers/dimacs_helpers.py `cnfgen dimacs [<file>|-]`: positional nargs='?' of type FileType('r')
                                         (opened while parsing), from_dimacs_file in build_formula: Dimacs.parse_dimacs
     cnfgen/clitools/kthlist2pebbling.py cli() and main(): options -q/--quiet, -i/--input <file> (FileType('r'),
                                         default standard input), at most ONE transformation sub-command (the helper
                                         objects of cnfgen's -T parser: Pipeline.pl_parse_transformation),
                                         readGraph(sys.stdin, 'dag', 'kthlist'), PebblingFormula, transform_cnf, to_file;
                                         ValueError / CLIError / OSError end in a message and exit status 255
   The sub-command parsers of Pipeline.v call PipelineGraph.plg_graph_arg directly; they are REPEATED here with the
   graph argument as a parameter [ga] (plf_parse_php .. plf_parse_formula are character for character those of
   Pipeline.v with plg_graph_arg replaced by ga: PipelineFilesFacts.plf_parse_formula_old proves
   plf_parse_formula plg_graph_arg = pl_parse_formula by reflexivity).  Everything after the parsers (pl_build,
   pl_transform, pl_chain, pl_render, the writers) is reused unchanged.

   FILES.  A file name is the token as it stands on the command line (no normalisation: "./g" and "g" are different
   keys; the harness gives the map with the tokens it uses).  A name that is not in the map is a missing file.
   Contents are bytes; a content with a byte >= 128 is POutside (decoding).  The text a file object delivers is
   Text.universal of the content ("\r\n" and "\r" read as "\n": open(name, 'r')); sys.stdin delivers the bytes as
   they are (POSIX: it is created with newline="\n", a lone "\r" does not end a line there).  Formats gml and dot
   (networkx / pydot) are POutside.  Directories, permissions, and files that change during the run are not modelled.
   Graph arguments other than `<file>` / `<format> <file>` are those of PipelineGraph.v; with further options after
   the file (plantclique .. random, save: writes a file) POutside.  The token "-" (standard input) is outside the
   token grammar of Pipeline.v for a GRAPH argument; it is inside for `dimacs -` and `kthlist2pebbling -i -`.
   Without -q the output of a sub-command with a graph argument, of `dimacs` and of kthlist2pebbling is POutside
   (the header contains the name of the graph / file object).

   Identifiers are prefixed plf_ / k2p_. *)
From Coq Require Import ZArith List Bool Ascii String.
From Cnfgen Require Import Sem Comb Linear IR Text Dimacs OpbText Cli GraphSpec GText GraphIO Subst FamTab FamFast
     Fam_php Fam_count Fam_cliquecol Fam_subsetcard C02Common Fam_tseitin Fam_coloring Fam_domset Fam_subgraph
     C03_Util Fam_ordering Fam_ramsey Fam_cpls Fam_pebbling PipelineGraph Pipeline.
Import ListNotations.
Open Scope Z_scope.

(* ------------------------------------------------------------------ *)
(* the environment of a run                                            *)
(* ------------------------------------------------------------------ *)
Record plf_env := mk_plf_env {
  plf_files : list (text * text);      (* file name -> content (bytes); the first entry of a name counts *)
  plf_stdin : text                     (* the bytes on standard input *)
}.

Fixpoint plf_assoc (name : text) (l : list (text * text)) : option text :=
  match l with
  | [] => None
  | (k, v) :: r => if gs_teqb name k then Some v else plf_assoc name r
  end.

(* open(name) / argparse.FileType('r')(name) / open_input(name): the text the file object delivers; None = no such file *)
Definition plf_open (env : plf_env) (name : text) : option text :=
  if gs_teqb name (lit "-") then Some (plf_stdin env)          (* sys.stdin: no newline translation *)
  else option_map universal (plf_assoc name (plf_files env)).  (* text mode: universal newlines *)

(* ------------------------------------------------------------------ *)
(* a graph argument that names a file                                  *)
(* ------------------------------------------------------------------ *)
Definition plf_fmt_of (fmt : text) : option gio_fmt :=
  if gs_teqb fmt (lit "kthlist") then Some FKthlist
  else if gs_teqb fmt (lit "dimacs") then Some FDimacs
  else if gs_teqb fmt (lit "matrix") then Some FMatrix
  else if gs_teqb fmt (lit "gml") then Some FGml
  else if gs_teqb fmt (lit "dot") then Some FDot
  else None.
Definition plf_gtype_of (g : gs_gtype) : gio_gtype :=
  match g with GSSimple => TSimple | GSBipartite => TBipartite | GSDag => TDag | GSDigraph => TDigraph end.

(* readGraph(file object, graphtype, format) on the text the file object delivers *)
Definition plf_read_text (g : gs_gtype) (f : gio_fmt) (bytes : text) : pl_parsed iograph :=
  match f with
  | FGml | FDot => PlOutside                               (* networkx / pydot *)
  | _ =>
    if negb (pl_is_ascii bytes) then PlOutside
    else match gio_read_graph true (plf_gtype_of g) f bytes with
         | GOk G => if plg_kind_eqb (io_kind G) (plg_kind_of g) then PlOk G else PlOutside
         | GRaise EValueError => PlErr                     (* parser.error(str(e)) *)
         | GRaise _ => PlOutside                           (* never: PipelineFilesFacts.plf_read_text_total (property C14) *)
         end
  end.

(* read_graph_from_input(graphtype, filename, fileformat) after the format has been decided *)
Definition plf_read (env : plf_env) (g : gs_gtype) (file fmt : text) : pl_parsed iograph :=
  match plf_open env file with
  | None => PlErr                                          (* FileNotFoundError: an OSError, parser.error *)
  | Some bytes =>
    match plf_fmt_of fmt with
    | Some f => plf_read_text g f bytes
    | None => PlOutside                                    (* never: the format comes from the table gs_formats *)
    end
  end.

Definition plf_graph_fun := gs_gtype -> list text -> pl_parsed iograph.

(* ObtainXGraph.__call__(values) with files *)
Definition plf_graph_arg (env : plf_env) : plf_graph_fun := fun g values =>
  match gs_parse g values with
  | GSPOk p =>
    match p_construction p, p_opts p with
    | None, [] =>                                          (* a file and nothing after it *)
      match gs_validate (0, 0) p with                      (* without options the orders (0, 0) are not looked at *)
      | GSVOk [SGen (GCRead file fmt)] => plf_read env g file fmt
      | GSVOk _ => PlOutside
      | GSVErr _ => PlErr                                  (* no extension / extension that is no format of the type *)
      | GSVCrash _ => PlOutside                            (* never: GraphSpecFacts.gs_make_never_crashes *)
      end
    | None, _ :: _ => PlOutside                            (* plantclique .. (random, and checked against the graph read), save *)
    | Some _, _ => plg_graph_arg g values
    end
  | _ => plg_graph_arg g values                            (* the error of parse_graph_argument *)
  end.

(* ------------------------------------------------------------------ *)
(* the sub-command parsers of Pipeline.v, over the graph argument [ga] *)
(* ------------------------------------------------------------------ *)

(* php_helpers.py: PHPArgs + PHPCmdHelper.build_formula *)
Definition plf_parse_php (ga : plf_graph_fun) (toks : list text) : pl_parsed pl_fcmd :=
  let cls := map (pl_classify pl_php_flags) toks in
  if existsb pl_is_out cls then PlOutside
  else
    let f := pl_has_flag "--functional" cls in
    let o := pl_has_flag "--onto" cls in
    match pl_star cls with
    | None => PlErr                                        (* unrecognized arguments *)
    | Some [] => PlErr                                     (* php formula needs <pigeons> <holes> specification *)
    | Some (v0 :: vs) =>
      if negb (gs_float_ok v0) then                        (* a bipartite graph specification: innerparser, B nargs='+' *)
        match ga GSBipartite (v0 :: vs) with
        | PlOk G => if existsb pl_is_unknown cls then PlErr
                    else PlOk (FcGphp (plg_adj (io_n G) (io_edges G)) (io_r G) f o)
        | PlErr => PlErr
        | PlOutside => PlOutside
        end
      else if (3 <? len (v0 :: vs)) then PlErr             (* too many arguments *)
      else match pl_ints (v0 :: vs) with
           | None => PlErr
           | Some zs =>
             if existsb (fun z => z <? 0) zs then PlErr
             else if existsb pl_is_unknown cls then PlErr
             else match zs with
                  | [n] => PlOk (FcPhp (n + 1) n f o)
                  | [m; n] => PlOk (FcPhp m n f o)
                  | [m; n; d] => if n <? d then PlErr
                                 else if n =? d then PlOk (FcPhp m n f o)
                                 else PlOutside            (* bipartite_random_left_regular *)
                  | _ => PlErr
                  end
           end
    end.

(* ordering_helpers.py: mutually exclusive group {total, smart, knuth2, knuth3}; compose_two_parsers *)
Definition plf_parse_op (ga : plf_graph_fun) (toks : list text) : pl_parsed pl_fcmd :=
  let cls := map (pl_classify pl_op_flags) toks in
  if existsb pl_is_out cls then PlOutside
  else
    let total := pl_has_flag "--total" cls || pl_has_flag "-t" cls in
    let smart := pl_has_flag "--smart" cls || pl_has_flag "-s" cls in
    let k2 := pl_has_flag "--knuth2" cls in
    let k3 := pl_has_flag "--knuth3" cls in
    let plant := pl_has_flag "--plant" cls || pl_has_flag "-p" cls in
    let chosen := (if total then 1 else 0) + (if smart then 1 else 0) + (if k2 then 1 else 0) + (if k3 then 1 else 0) in
    match pl_star cls with
    | None => PlErr
    | Some [] => PlErr                                     (* requires some arguments *)
    | Some (v0 :: vs) =>
      if negb (gs_float_ok v0) then                        (* a graph specification: gopparser, G nargs='+' *)
        match ga GSSimple (v0 :: vs) with
        | PlOk G => if (1 <? chosen) || existsb pl_is_unknown cls then PlErr
                    else PlOk (FcGop (plg_nbrs (io_n G) (io_edges G)) total smart plant (if k2 then 2 else if k3 then 3 else 0))
        | PlErr => PlErr
        | PlOutside => PlOutside
        end
      else match v0 :: vs with
           | [tn] =>
             match gs_int tn with
             | None => PlErr
             | Some n => if (1 <? chosen) || existsb pl_is_unknown cls then PlErr
                         else PlOk (FcOp n total smart plant (if k2 then 2 else if k3 then 3 else 0))
             end
           | [tn; td] =>
             match gs_int tn, gs_int td with
             | Some n, Some d => if (1 <? chosen) || existsb pl_is_unknown cls then PlErr
                                 else if (n * d) mod 2 =? 1 then PlErr
                                 else PlOutside            (* gnd N d: a random regular graph *)
             | _, _ => PlErr
             end
           | _ => PlErr
           end
    end.

(* ---- sub-commands with a graph argument ---- *)
(* positionals [G]: ec tiling matching (simple), peb (dag) *)
Definition plf_parse_graph_only (ga : plf_graph_fun) (g : gs_gtype) (mk : iograph -> pl_fcmd) (toks : list text) : pl_parsed pl_fcmd :=
  let cls := map (pl_classify []) toks in
  if existsb pl_is_out cls then PlOutside
  else if existsb pl_is_unknown cls then PlErr
  else match pl_plus cls with
       | None => PlErr
       | Some vs => pl_map_parsed mk (ga g vs)
       end.

(* positionals [x (type function); G], options that take no argument [flags], other options [longs] *)
Definition plf_parse_int_graph (ga : plf_graph_fun) (flags longs : list text) (ty : argty) (g : gs_gtype)
           (mk : list pl_class -> Z -> iograph -> pl_fcmd) (toks : list text) : pl_parsed pl_fcmd :=
  let cls := map (pl_classify_gen flags longs) toks in
  if existsb pl_is_out cls then PlOutside
  else if existsb pl_is_unknown cls then PlErr
  else match pl_one_plus cls with
       | None => PlErr
       | Some (tx, vs) =>
         match gs_int tx with
         | None => PlErr
         | Some x => if argty_ok ty x then pl_map_parsed (mk cls x) (ga g vs) else PlErr
         end
       end.

Definition plf_parse_tseitin (ga : plf_graph_fun) (toks : list text) : pl_parsed pl_fcmd :=
  let cls := map (pl_classify []) toks in
  if existsb pl_is_out cls then PlOutside
  else if existsb pl_is_unknown cls then PlErr
  else match pl_star cls with
       | None => PlErr
       | Some [] => PlErr                                  (* requires some arguments *)
       | Some (v0 :: vs) =>
         if gs_float_ok v0 then PlOutside                  (* tseitin N [d]: random regular graph, random charge *)
         else if negb (gs_mem v0 pl_charge_names) then PlErr   (* invalid choice *)
         else match vs with
              | [] => PlErr                                (* the following arguments are required: <graph> *)
              | _ =>
                match ga GSSimple vs with
                | PlOk G => match pl_charge v0 (io_n G) with
                            | Some ch => PlOk (FcTseitin ch (io_n G) (io_edges G))
                            | None => PlOutside            (* random charges *)
                            end
                | PlErr => PlErr
                | PlOutside => PlOutside
                end
              end
       end.

(* counting_helpers.py: SCCmdHelper: compose_two_parsers(N [d] -> random regular graph, <bipartite>) *)
Definition plf_parse_subsetcard (ga : plf_graph_fun) (toks : list text) : pl_parsed pl_fcmd :=
  let cls := map (pl_classify pl_sc_flags) toks in
  if existsb pl_is_out cls then PlOutside
  else if existsb pl_is_unknown cls then PlErr
  else
    let eq := pl_has_flag "--equal" cls || pl_has_flag "-e" cls in
    match pl_star cls with
    | None => PlErr
    | Some [] => PlErr
    | Some (v0 :: vs) =>
      if gs_float_ok v0 then PlOutside
      else pl_map_parsed (fun G => FcSubsetcard (plg_adj (io_n G) (io_edges G)) (io_r G) eq)
                         (ga GSBipartite (v0 :: vs))
    end.

Definition plf_parse_formula (ga : plf_graph_fun) (name : text) (toks : list text) : pl_parsed pl_fcmd :=
  if pl_is name "php" then plf_parse_php ga toks
  else if pl_is name "op" then plf_parse_op ga toks
  else if pl_is name "bphp" then
    pl_with_ints [TPos; TPos] None (fun zs => match zs with [m; n] => Some (FcBphp m n) | _ => None end) toks
  else if pl_is name "rphp" then
    pl_with_ints [TNonNeg; TNonNeg; TNonNeg] None (fun zs => match zs with [p; r; h] => Some (FcRphp p r h) | _ => None end) toks
  else if pl_is name "count" then
    pl_with_ints [TNonNeg; TPos] None (fun zs => match zs with [M; p] => Some (FcCount M p) | _ => None end) toks
  else if pl_is name "parity" then
    pl_with_ints [TNonNeg] None (fun zs => match zs with [N] => Some (FcCount N 2) | _ => None end) toks
  else if pl_is name "cliquecoloring" then
    pl_with_ints [TNonNeg; TPos; TPos] None (fun zs => match zs with [n; k; c] => Some (FcCliqueCol n k c) | _ => None end) toks
  else if pl_is name "ram" then
    pl_with_ints [TPos; TPos; TNonNeg] None (fun zs => match zs with [s; k; N] => Some (FcRam s k N) | _ => None end) toks
  else if pl_is name "vdw" then
    pl_with_ints [TNonNeg; TPos; TPos] (Some TPos) (fun zs => match zs with N :: ks => Some (FcVdw N ks) | _ => None end) toks
  else if pl_is name "ptn" then
    pl_with_ints [TNonNeg] None (fun zs => match zs with [N] => Some (FcPtn N) | _ => None end) toks
  else if pl_is name "cpls" then
    pl_with_ints [TPos; TPos; TPos] None (fun zs => match zs with [a; b; c] => Some (FcCpls a b c) | _ => None end) toks
  else if pl_is name "and" then
    pl_with_ints [TNonNeg; TNonNeg] None (fun zs => match zs with [p; n] => Some (FcAnd p n) | _ => None end) toks
  else if pl_is name "or" then
    pl_with_ints [TNonNeg; TNonNeg] None (fun zs => match zs with [p; n] => Some (FcOr p n) | _ => None end) toks
  else if pl_is name "kcolor" then
    plf_parse_int_graph ga [] [] TPos GSSimple (fun _ k G => FcKcolor k (io_n G) (io_edges G)) toks
  else if pl_is name "kcliquebin" then
    plf_parse_int_graph ga [] [] TNonNeg GSSimple (fun _ k G => FcKcliquebin k (io_n G) (io_edges G)) toks
  else if pl_is name "kclique" then
    plf_parse_int_graph ga [lit "--no-symmetry-breaking"] [] TNonNeg GSSimple
      (fun cls k G => FcKclique k (negb (pl_has_flag "--no-symmetry-breaking" cls)) (io_n G) (io_edges G)) toks
  else if pl_is name "domset" then
    plf_parse_int_graph ga [lit "--alternative"; lit "-a"] [] TPos GSSimple
      (fun cls d G => FcDomset d (pl_has_flag "--alternative" cls || pl_has_flag "-a" cls) (io_n G) (io_edges G)) toks
  else if pl_is name "stone" then
    plf_parse_int_graph ga [] [lit "--sparse"] TPos GSDag (fun _ s G => FcStone s (plg_preds (io_n G) (io_edges G))) toks
  else if pl_is name "ec" then plf_parse_graph_only ga GSSimple (fun G => FcEc (io_n G) (io_edges G)) toks
  else if pl_is name "tiling" then plf_parse_graph_only ga GSSimple (fun G => FcTiling (io_n G) (io_edges G)) toks
  else if pl_is name "matching" then plf_parse_graph_only ga GSSimple (fun G => FcMatching (io_n G) (io_edges G)) toks
  else if pl_is name "peb" then plf_parse_graph_only ga GSDag (fun G => FcPeb (plg_preds (io_n G) (io_edges G))) toks
  else if pl_is name "tseitin" then plf_parse_tseitin ga toks
  else if pl_is name "subsetcard" then plf_parse_subsetcard ga toks
  else if pl_is name "true" then pl_no_args FcTrue toks
  else if pl_is name "false" then pl_no_args FcFalse toks
  else if gs_mem name pl_other_formulas then PlOutside
  else PlErr.                                              (* invalid choice *)

(* ------------------------------------------------------------------ *)
(* `cnfgen dimacs [<file>]`                                            *)
(* ------------------------------------------------------------------ *)
(* what the first chunk asks for: a family command, or the content of a DIMACS file (opened while parsing, read by
   build_formula, i.e. after every -T chunk has been parsed) *)
Inductive plf_gen :=
| GenCmd (c : pl_fcmd)
| GenDimacs (bytes : text).

(* the token "-" is an argument (argparse: a lone prefix character) *)
Definition plf_classify_dash (t : text) : pl_class :=
  if gs_teqb t (lit "-") then PlPos t else pl_classify [] t.

(* dimacs_helpers.py: positional `input`, nargs='?', type FileType('r'), default '-' *)
Definition plf_parse_dimacs (env : plf_env) (toks : list text) : pl_parsed plf_gen :=
  let cls := map plf_classify_dash toks in
  if existsb pl_is_out cls then PlOutside
  else if existsb pl_is_unknown cls then PlErr             (* the sub-command has no option but -h *)
  else match toks with
       | [] => PlOk (GenDimacs (plf_stdin env))
       | [f] => match plf_open env f with
                | Some bytes => PlOk (GenDimacs bytes)
                | None => PlErr                            (* can't open *)
                end
       | _ => PlErr                                        (* unrecognized arguments *)
       end.

(* ------------------------------------------------------------------ *)
(* the top-level parser of cnfgen with files                           *)
(* ------------------------------------------------------------------ *)
(* Pipeline.pl_parse_main with the environment *)
Fixpoint plf_parse_main (env : plf_env) (seen_q seen_v opb : bool) (toks : list text) : pl_parsed (pl_opts * option plf_gen) :=
  match toks with
  | [] => PlOk (mk_pl_opts seen_q opb, None)
  | t :: r =>
    if gs_teqb t (lit "-q") || gs_teqb t (lit "--quiet") then
      if seen_v then PlErr else plf_parse_main env true seen_v opb r
    else if gs_teqb t (lit "-v") || gs_teqb t (lit "--verbose") then
      if seen_q then PlErr else plf_parse_main env seen_q true opb r
    else if gs_teqb t (lit "-of") || gs_teqb t (lit "--output-format") then
      match r with
      | [] => PlErr
      | f :: r' =>
        if pl_starts_dash f then PlOutside
        else if gs_teqb f (lit "dimacs") then plf_parse_main env seen_q seen_v false r'
        else if gs_teqb f (lit "opb") then plf_parse_main env seen_q seen_v true r'
        else if gs_teqb f (lit "latex") then PlOutside
        else PlErr
      end
    else if pl_starts_dash t then PlOutside
    else if pl_is t "dimacs" then
      match plf_parse_dimacs env r with
      | PlOk c => PlOk (mk_pl_opts seen_q opb, Some c)
      | PlErr => PlErr
      | PlOutside => PlOutside
      end
    else match plf_parse_formula (plf_graph_arg env) t r with
         | PlOk c => PlOk (mk_pl_opts seen_q opb, Some (GenCmd c))
         | PlErr => PlErr
         | PlOutside => PlOutside
         end
  end.

Definition plf_parse_chunk0 (env : plf_env) (toks : list text) : pl_parsed (pl_opts * option plf_gen) :=
  if negb (forallb pl_is_ascii toks) then PlOutside else plf_parse_main env false false false toks.

Record plf_cmdline := mk_plf_cmdline {
  plf_o : pl_opts;
  plf_g : option plf_gen;
  plf_ts : list (option pl_tcmd)
}.

Definition plf_parse_chunks (env : plf_env) (chunks : list (list text)) : pl_parsed plf_cmdline :=
  match chunks with
  | [] => PlOutside
  | c0 :: rest =>
    match plf_parse_chunk0 env c0 with
    | PlOk (o, g) =>
      match pl_parse_tchunks rest with
      | PlOk ts => PlOk (mk_plf_cmdline o g ts)
      | PlErr => PlErr
      | PlOutside => PlOutside
      end
    | PlErr => PlErr
    | PlOutside => PlOutside
    end
  end.

(* build_formula *)
Definition plf_start_with (build : pl_fcmd -> pl_fres) (g : plf_gen) : pl_fres :=
  match g with
  | GenCmd c => build c
  | GenDimacs bytes =>
    if negb (pl_is_ascii bytes) then FrOutside
    else match parse_dimacs false bytes with
         | DOk n F => FrOk n F
         | Err _ _ => FrErr                                (* ValueError: subparser.error *)
         end
  end.

Definition plf_run_with (build : pl_fcmd -> pl_fres) (c : plf_cmdline) : pl_fres :=
  match plf_g c with
  | None => FrErr
  | Some g =>
    match pl_all_some (plf_ts c) with
    | None => FrErr
    | Some ts => pl_chain (plf_start_with build g) ts
    end
  end.

(* a run: the arguments, the files, standard input *)
Definition plf_formula_with (build : pl_fcmd -> pl_fres) (argv : list String.string) (env : plf_env) : pl_fres :=
  match plf_parse_chunks env (pl_chunks_of argv) with
  | PlOk c => plf_run_with build c
  | PlErr => FrErr
  | PlOutside => FrOutside
  end.
Definition plf_formula := plf_formula_with pl_build.
Definition plf_formula_fast := plf_formula_with pl_build_fast.

Definition plf_opts_of (argv : list String.string) (env : plf_env) : pl_opts :=
  match plf_parse_chunks env (pl_chunks_of argv) with
  | PlOk c => plf_o c
  | _ => mk_pl_opts false false
  end.

(* the program `cnfgen` under -q *)
Definition cnfgen_files_main (argv : list String.string) (env : plf_env) : pipeline_result :=
  pl_render (pl_quiet (plf_opts_of argv env)) (pl_opb (plf_opts_of argv env)) (plf_formula argv env).
Definition cnfgen_files_main_fast (argv : list String.string) (env : plf_env) : pipeline_result :=
  pl_render (pl_quiet (plf_opts_of argv env)) (pl_opb (plf_opts_of argv env)) (plf_formula_fast argv env).

(* ------------------------------------------------------------------ *)
(* kthlist2pebbling                                                    *)
(* ------------------------------------------------------------------ *)
Record k2p_cmdline := mk_k2p_cmdline {
  k2p_quiet : bool;
  k2p_input : text;                    (* the text args.input delivers *)
  k2p_trans : option pl_tcmd
}.

(* options in front of the transformation name: -q/--quiet, -i/--input <file> (the last one counts; every one is
   opened).  -o/--output, -h, abbreviations and joined forms are outside *)
Fixpoint k2p_parse_main (env : plf_env) (quiet : bool) (input : text) (toks : list text) : pl_parsed k2p_cmdline :=
  match toks with
  | [] => PlOk (mk_k2p_cmdline quiet input None)
  | t :: r =>
    if gs_teqb t (lit "-q") || gs_teqb t (lit "--quiet") then k2p_parse_main env true input r
    else if gs_teqb t (lit "-i") || gs_teqb t (lit "--input") then
      match r with
      | [] => PlErr                                        (* expected one argument *)
      | f :: r' =>
        if pl_starts_dash f && negb (gs_teqb f (lit "-")) then PlOutside
        else match plf_open env f with
             | Some bytes => k2p_parse_main env quiet bytes r'
             | None => PlErr                               (* can't open *)
             end
      end
    else if pl_starts_dash t then PlOutside
    else match pl_parse_transformation t r with
         | PlOk c => PlOk (mk_k2p_cmdline quiet input (Some c))
         | PlErr => PlErr
         | PlOutside => PlOutside
         end
  end.

Definition k2p_parse (argv : list String.string) (env : plf_env) : pl_parsed k2p_cmdline :=
  let toks := map lit argv in
  if negb (forallb pl_is_ascii toks) then PlOutside else k2p_parse_main env false (plf_stdin env) toks.

(* readGraph(sys.stdin, "dag", file_format="kthlist"); PebblingFormula(G).  An exception other than ValueError is
   not caught by main() *)
Definition k2p_start_with (build : pl_fcmd -> pl_fres) (bytes : text) : pl_fres :=
  if negb (pl_is_ascii bytes) then FrOutside
  else match gio_read_graph true TDag FKthlist bytes with
       | GOk G => build (FcPeb (plg_preds (io_n G) (io_edges G)))
       | GRaise EValueError => FrErr                       (* GRAPH ERROR *)
       | GRaise _ => FrCrash
       end.

Definition k2p_run_with (build : pl_fcmd -> pl_fres) (c : k2p_cmdline) : pl_fres :=
  match k2p_trans c with
  | None => k2p_start_with build (k2p_input c)
  | Some t => pl_step (k2p_start_with build (k2p_input c)) t
  end.

Definition k2p_formula_with (build : pl_fcmd -> pl_fres) (argv : list String.string) (env : plf_env) : pl_fres :=
  match k2p_parse argv env with
  | PlOk c => k2p_run_with build c
  | PlErr => FrErr
  | PlOutside => FrOutside
  end.
Definition k2p_formula := k2p_formula_with pl_build.

Definition k2p_quiet_of (argv : list String.string) (env : plf_env) : bool :=
  match k2p_parse argv env with
  | PlOk c => k2p_quiet c
  | _ => false
  end.

(* the program under -q: DIMACS only *)
Definition k2p_main (argv : list String.string) (env : plf_env) : pipeline_result :=
  pl_render (k2p_quiet_of argv env) false (k2p_formula argv env).
Definition k2p_main_fast (argv : list String.string) (env : plf_env) : pipeline_result :=
  pl_render (k2p_quiet_of argv env) false (k2p_formula_with pl_build_fast argv env).
