(* Fam_pitfall_Facts.v — the Tseitin template with odd total charge is unsatisfiable
   (double counting over the edge list); the Pitfall formula with the REPAIRED copy of
   the template is unsatisfiable for every graph, ny >= 2, nz >= 2, k >= 1; the formula
   as cnfgen builds it (shift_edgelit, D31) is satisfiable. *)
From Coq Require Import ZArith List Bool Lia ZifyBool.
From Cnfgen Require Import Sem Comb Linear IR SemFacts LinearFacts IRFacts C03_Util C03_UtilFacts Fam_pitfall.
Import ListNotations.
Open Scope Z_scope.

(* ====================================================================== *)
(* Tseitin: double counting                                                *)
(* ====================================================================== *)
Fixpoint sumZ (f : Z -> Z) (l : list Z) : Z := match l with [] => 0 | w :: t => f w + sumZ f t end.

Lemma sumZ_ext f g l : (forall w, In w l -> f w = g w) -> sumZ f l = sumZ g l.
Proof. induction l as [|w t IH]; intros H; [reflexivity|]. cbn [sumZ]. rewrite H by now left. rewrite IH; [reflexivity|]. intros; apply H; now right. Qed.
Lemma sumZ_add f g l : sumZ (fun w => f w + g w) l = sumZ f l + sumZ g l.
Proof. induction l as [|w t IH]; [reflexivity|]. cbn [sumZ]. lia. Qed.
Lemma sumZ_zero l : sumZ (fun _ => 0) l = 0.
Proof. induction l; cbn [sumZ]; lia. Qed.
Lemma sumZ_indicator v c l : NoDup l -> In v l -> sumZ (fun w => if v =? w then c else 0) l = c.
Proof.
  induction l as [|x t IH]; intros ND Hin; [contradiction|]. inversion ND as [|? ? Hx NDt]; subst. cbn [sumZ].
  destruct Hin as [->|Hin].
  - rewrite Z.eqb_refl. rewrite (sumZ_ext _ (fun _ => 0)), sumZ_zero; [lia|].
    intros w Hw. destruct (Z.eqb_spec v w); [subst; contradiction|reflexivity].
  - destruct (Z.eqb_spec v x); [subst; contradiction|]. rewrite IH by assumption. lia.
Qed.

Definition ev_total (a : Z -> bool) (EV : list ((Z * Z) * Z)) : Z := count_true a (map snd EV).

Lemma tseitin_double_count a n EV :
  (forall e, In e EV -> 1 <= fst (fst e) <= n /\ 1 <= snd (fst e) <= n) ->
  sumZ (fun w => count_true a (inc_lits EV w)) (vrange n) = 2 * ev_total a EV.
Proof.
  induction EV as [|[[u v] x] t IH]; intros Hr.
  - unfold inc_lits, ev_total. cbn. apply sumZ_zero.
  - assert (Hu : 1 <= u <= n /\ 1 <= v <= n) by (apply (Hr ((u, v), x)); now left).
    rewrite (sumZ_ext _ (fun w => ((if v =? w then b2z (lit_true a x) else 0) + (if u =? w then b2z (lit_true a x) else 0))
                                  + count_true a (inc_lits t w))).
    + rewrite sumZ_add, sumZ_add, IH by (intros e He; apply Hr; now right).
      rewrite !sumZ_indicator by (try apply NoDup_zrange; apply In_vrange; lia).
      unfold ev_total. cbn [map snd count_true]. lia.
    + intros w _. unfold inc_lits. rewrite !count_true_app. cbn [filter fst snd].
      destruct (v =? w); destruct (u =? w); cbn [map snd count_true]; lia.
Qed.

Lemma sumZ_parity f g l : (forall w, In w l -> Z.odd (f w) = g w) -> exists Q, sumZ f l = 2 * Q + sumZ (fun w => b2z (g w)) l.
Proof.
  induction l as [|w t IH]; intros H; [exists 0; reflexivity|].
  destruct IH as [Q HQ]; [intros; apply H; now right|]. cbn [sumZ].
  specialize (H w (or_introl eq_refl)). exists (Q + Z.div2 (f w)). rewrite HQ.
  pose proof (Z.div2_odd (f w)) as D. rewrite H in D. destruct (g w); cbn [Z.b2z b2z] in *; lia.
Qed.

Lemma edge_vars_pos E e : In e (edge_vars E) -> In (fst e) E /\ 0 < snd e.
Proof.
  unfold edge_vars. intros H. destruct e as [uv x]. split; [eapply in_combine_l; eauto|].
  apply in_combine_r in H. apply In_zrange in H. cbn [snd]. lia.
Qed.

Lemma inc_lits_ok E w : lits_ok (inc_lits (edge_vars E) w) = true.
Proof.
  unfold lits_ok. apply forallb_forall. intros l Hl. unfold inc_lits in Hl.
  assert (exists e, In e (edge_vars E) /\ l = snd e) as [e [He ->]].
  { apply in_app_or in Hl as [Hl|Hl]; apply in_map_iff in Hl as [e [E' He]]; apply filter_In in He as [He _]; eauto. }
  apply edge_vars_pos in He as [_ He]. apply nonzero_spec. lia.
Qed.

Lemma edges_ok_spec n E e : edges_ok n E = true -> In e E -> 1 <= fst e <= n /\ 1 <= snd e <= n.
Proof. unfold edges_ok. intros H He. rewrite forallb_forall in H. specialize (H e He). lia. Qed.

Theorem tseitin_unsat n E a : 1 <= n -> edges_ok n E = true -> cnf_sat a (tseitin_cnf n E) = false.
Proof.
  intros Hn Hok. destruct (cnf_sat a (tseitin_cnf n E)) eqn:Hs; [|reflexivity]. exfalso.
  unfold tseitin_cnf in Hs. rewrite cnf_sat_flat_map, forallb_forall in Hs.
  assert (Par : forall w, In w (vrange n) -> Z.odd (count_true a (inc_lits (edge_vars E) w)) = (w =? 1)).
  { intros w Hw. specialize (Hs w Hw). rewrite add_parity_sem in Hs by apply inc_lits_ok.
    rewrite parity_of_count in Hs. apply eqb_prop in Hs. rewrite Hs. destruct (w =? 1); reflexivity. }
  destruct (sumZ_parity _ _ _ Par) as [Q HQ].
  rewrite tseitin_double_count in HQ.
  - rewrite (sumZ_ext _ (fun w => if 1 =? w then 1 else 0)) in HQ.
    + rewrite sumZ_indicator in HQ by (try apply NoDup_zrange; apply In_vrange; lia). lia.
    + intros w _. destruct (Z.eqb_spec w 1); destruct (Z.eqb_spec 1 w); try lia; reflexivity.
  - intros e He. apply edge_vars_pos in He as [He _]. apply (edges_ok_spec n E _ Hok He).
Qed.

(* literals of a parity constraint are the given literals or their opposites *)
Lemma parity_clauses_lits ls : forall w c l, In c (parity_clauses ls w) -> In l c -> In l ls \/ In (- l) ls.
Proof.
  induction ls as [|x t IH]; intros w c l Hc Hl; cbn [parity_clauses] in Hc.
  - destruct w; [destruct Hc as [<-|[]]; contradiction|contradiction].
  - apply in_app_or in Hc as [Hc|Hc]; apply in_map_iff in Hc as [c' [<- Hc']]; destruct Hl as [<-|Hl].
    + left. now left.
    + destruct (IH _ _ _ Hc' Hl); [left|right]; now right.
    + right. rewrite Z.opp_involutive. now left.
    + destruct (IH _ _ _ Hc' Hl); [left|right]; now right.
Qed.

Lemma tseitin_lits n E c l : In c (tseitin_cnf n E) -> In l c -> l <> 0.
Proof.
  unfold tseitin_cnf. intros Hc Hl. apply in_flat_map in Hc as [w [_ Hc]]. unfold add_parity in Hc.
  pose proof (inc_lits_ok E w) as OK. unfold lits_ok in OK. rewrite forallb_forall in OK.
  destruct (parity_clauses_lits _ _ _ _ Hc Hl) as [H|H]; apply OK, nonzero_spec in H; lia.
Qed.

(* ====================================================================== *)
(* copies                                                                  *)
(* ====================================================================== *)
Lemma shift_spec_sem a off_nx j l : 0 <= (j - 1) * off_nx -> l <> 0 ->
  lit_true a (shift_spec off_nx j l) = lit_true (fun v => a (v + (j - 1) * off_nx)) l.
Proof.
  intros Ho Hl. unfold shift_spec. destruct (Z.lt_trichotomy l 0) as [L|[L|L]]; [|lia|].
  - replace (Z.sgn l) with (-1) by lia. replace (-1 * ((j - 1) * off_nx + 1 + Z.abs l - 1)) with (- ((- l) + (j - 1) * off_nx)) by lia.
    rewrite lit_true_neg by lia. replace l with (- (- l)) at 2 by lia. rewrite lit_true_neg by lia. reflexivity.
  - replace (Z.sgn l) with 1 by lia. replace (1 * ((j - 1) * off_nx + 1 + Z.abs l - 1)) with (l + (j - 1) * off_nx) by lia.
    rewrite !lit_true_pos by lia. reflexivity.
Qed.

Lemma shift_asis_pos nx j l : 0 < l -> shift_asis nx j l = shift_spec nx j l.
Proof. intros H. unfold shift_asis, shift_spec. replace (Z.sgn l) with 1 by lia. lia. Qed.

(* ====================================================================== *)
(* the gadgets                                                             *)
(* ====================================================================== *)
Lemma In_remove_nth {A} (x : A) i l : In x (remove_nth i l) -> In x l.
Proof.
  revert i. induction l as [|y t IH]; intros i H; [destruct i; exact H|].
  destruct i as [|i]; cbn [remove_nth] in H; [now right|]. destruct H as [->|H]; [now left|right; eauto].
Qed.
Lemma In_firstn_nth (x : Z) t l : In x (firstn t l) -> exists i, (i < t)%nat /\ (i < length l)%nat /\ nth i l 0 = x.
Proof.
  revert t. induction l as [|y r IH]; intros t H; [rewrite firstn_nil in H; contradiction|].
  destruct t as [|t]; [contradiction|]. cbn [firstn] in H. destruct H as [->|H].
  - exists O. cbn. repeat split; lia.
  - destruct (IH t H) as [i [H1 [H2 H3]]]. exists (S i). cbn [nth length]. repeat split; try lia; try exact H3.
Qed.

Section Gadgets.
  Context (nx ny nz k : Z) (a : Z -> bool).
  Context (Hnx : 0 <= nx) (Hny : 2 <= ny) (Hnz : 2 <= nz) (Hk : 1 <= k).

  Lemma Yid_pos j i : 1 <= j -> 1 <= i -> 0 < Yid nx ny nz k j i. Proof. unfold Yid. nia. Qed.
  Lemma Zid_pos j i : 1 <= j -> 1 <= i -> 0 < Zid nx ny nz k j i. Proof. unfold Zid. nia. Qed.
  Lemma Pid_pos j i : 1 <= j -> 1 <= i -> 0 < Pid nx ny nz k j i. Proof. unfold Pid. nia. Qed.
  Lemma Aid_pos j i : 1 <= j -> 1 <= i -> 0 < Aid nx ny nz k j i. Proof. unfold Aid. nia. Qed.
  Lemma Xs_pos j x : 1 <= j -> In x (Xs nx j) -> 0 < x.
  Proof. unfold Xs. intros Hj Hx. apply In_zrange in Hx. nia. Qed.
  Lemma Ys_pos j y : 1 <= j -> In y (Ys nx ny nz k j) -> 0 < y.
  Proof. unfold Ys. intros Hj Hy. apply in_map_iff in Hy as [i [<- Hi]]. apply In_vrange in Hi. apply Yid_pos; lia. Qed.
  Lemma Zs_pos j z : 1 <= j -> In z (Zs nx ny nz k j) -> 0 < z.
  Proof. unfold Zs. intros Hj Hz. apply in_map_iff in Hz as [i [<- Hi]]. apply In_vrange in Hi. apply Zid_pos; lia. Qed.
  Lemma Ps_pos j p : 1 <= j -> In p (Ps nx ny nz k j) -> 0 < p.
  Proof. unfold Ps. intros Hj Hp. apply in_map_iff in Hp as [i [<- Hi]]. apply In_vrange in Hi. apply Pid_pos; lia. Qed.

  (* tail gadget: a true safety variable switches off every easy variable of its copy *)
  Lemma tail_sem j y z : 1 <= j <= k -> In y (Ys nx ny nz k j) -> In z (Zs nx ny nz k j) ->
    cnf_sat a (pit_tail nx ny nz k) = true -> a z = true -> a y = false.
  Proof.
    intros Hj Hy Hz Hs Az. rewrite cnf_sat_true_iff in Hs.
    assert (IN : forall c, In c [[- Aid nx ny nz k j 1; Aid nx ny nz k j 3; - z]; [- Aid nx ny nz k j 2; - Aid nx ny nz k j 3; - z];
                                 [Aid nx ny nz k j 1; - z; - y]; [Aid nx ny nz k j 2; - z; - y]] -> clause_sat a c = true).
    { intros c Hc. apply Hs. unfold pit_tail. apply in_flat_map. exists j. split; [apply In_vrange; lia|].
      apply in_flat_map. exists y. split; [assumption|]. apply in_flat_map. exists z. split; assumption. }
    pose proof (Ys_pos j y ltac:(lia) Hy) as Py. pose proof (Zs_pos j z ltac:(lia) Hz) as Pz.
    pose proof (Aid_pos j 1 ltac:(lia) ltac:(lia)) as P1. pose proof (Aid_pos j 2 ltac:(lia) ltac:(lia)) as P2.
    pose proof (Aid_pos j 3 ltac:(lia) ltac:(lia)) as P3.
    pose proof (IN _ (or_introl eq_refl)) as C1. pose proof (IN _ (or_intror (or_introl eq_refl))) as C2.
    pose proof (IN _ (or_intror (or_intror (or_introl eq_refl)))) as C3.
    pose proof (IN _ (or_intror (or_intror (or_intror (or_introl eq_refl))))) as C4.
    cbn [clause_sat existsb] in C1, C2, C3, C4.
    repeat rewrite lit_true_neg in C1 by assumption. repeat rewrite lit_true_neg in C2 by assumption.
    repeat rewrite lit_true_neg in C3 by assumption. repeat rewrite lit_true_neg in C4 by assumption.
    repeat rewrite lit_true_pos in C1 by assumption. repeat rewrite lit_true_pos in C2 by assumption.
    repeat rewrite lit_true_pos in C3 by assumption. repeat rewrite lit_true_pos in C4 by assumption.
    rewrite Az in C1, C2, C3, C4.
    destruct (a y); [|reflexivity]. destruct (a (Aid nx ny nz k j 1)), (a (Aid nx ny nz k j 2)), (a (Aid nx ny nz k j 3)); cbn in C1, C2, C3, C4; discriminate.
  Qed.

  (* pitfall gadget: with all easy variables false every pitfall variable is false *)
  Lemma pitfall_sem j p : 1 <= j <= k -> In p (Ps nx ny nz k j) ->
    cnf_sat a (pit_pitfall nx ny nz k) = true -> (forall y, In y (Ys nx ny nz k j) -> a y = false) -> a p = false.
  Proof.
    intros Hj Hp Hs Hy. rewrite cnf_sat_true_iff in Hs.
    set (y1 := Yid nx ny nz k j 1). set (y2 := Yid nx ny nz k j 2).
    assert (Hc : clause_sat a [y1; y2; - p] = true).
    { apply Hs. unfold pit_pitfall. apply in_flat_map. exists j. split; [apply In_vrange; lia|].
      apply in_flat_map. exists (y1, y2). split.
      - unfold Ys, vrange. rewrite zrange_cons, (zrange_cons (1 + 1)) by lia. cbn [map pairs]. left. reflexivity.
      - apply in_map_iff. exists p. split; [reflexivity|assumption]. }
    assert (H1 : In y1 (Ys nx ny nz k j)) by (apply in_map_iff; exists 1; split; [reflexivity|apply In_vrange; lia]).
    assert (H2 : In y2 (Ys nx ny nz k j)) by (apply in_map_iff; exists 2; split; [reflexivity|apply In_vrange; lia]).
    cbn [clause_sat existsb] in Hc.
    rewrite !lit_true_pos, (Hy _ H1), (Hy _ H2) in Hc by (apply Ys_pos with (j := j); [lia|assumption]).
    rewrite lit_true_neg in Hc by (apply Ps_pos with (j := j); [lia|assumption]).
    destruct (a p); [discriminate|reflexivity].
  Qed.

  (* pipe gadget: with y and all pitfall variables false, every hard and safety variable is false *)
  Lemma pipe_sem y PP S : (forall s, In s S -> 0 < s) -> 0 < y -> (forall p, In p PP -> 0 < p) ->
    cnf_sat a (pipe nx y PP S) = true -> a y = false -> (forall p, In p PP -> a p = false) ->
    forall s, In s S -> a s = false.
  Proof.
    intros PS Py PPp Hs Ay Ap. rewrite cnf_sat_true_iff in Hs.
    assert (All : forall (n t : nat), (t < n)%nat -> (t < length S)%nat -> a (nth t S 0) = false).
    { induction n as [|n IH]; intros t Ht HtS; [lia|].
      assert (Hc : clause_sat a (pipe_clause nx y PP S t) = true).
      { apply Hs. unfold pipe. apply in_map. apply in_seq. lia. }
      apply clause_sat_true_iff in Hc as [l [Hl Hlt]]. unfold pipe_clause in Hl.
      apply in_app_or in Hl as [Hl|Hl]; [|apply in_app_or in Hl as [Hl|Hl]; [|apply in_app_or in Hl as [Hl|Hl]]].
      - destruct Hl as [<-|[]]. rewrite lit_true_pos, Ay in Hlt by assumption. discriminate.
      - apply In_remove_nth in Hl. rewrite lit_true_pos, (Ap _ Hl) in Hlt by (now apply PPp). discriminate.
      - assert (Hl' : In l (firstn t S)) by (destruct (Nat.eqb (t + 1) (length S)); [now apply In_remove_nth in Hl|assumption]).
        apply In_firstn_nth in Hl' as [i [Hi [HiS E]]]. subst l.
        rewrite lit_true_pos in Hlt by (apply PS, nth_In; assumption). rewrite (IH i ltac:(lia) HiS) in Hlt. discriminate.
      - destruct Hl as [<-|[]]. rewrite lit_true_neg in Hlt by (apply PS, nth_In; assumption).
        destruct (a (nth t S 0)); [discriminate|reflexivity]. }
    intros s Hin. apply (In_nth _ _ 0) in Hin as [t [Ht <-]]. apply (All (Datatypes.S t)); lia.
  Qed.
End Gadgets.

(* ====================================================================== *)
(* the repaired formula is unsatisfiable                                   *)
(* ====================================================================== *)
Lemma hard_forces_safety n E ny nz k a j : 1 <= n -> edges_ok n E = true -> 2 <= ny -> 2 <= nz -> 1 <= j <= k ->
  cnf_sat a (pit_hard (len E) ny nz k true (tseitin_cnf n E)) = true ->
  exists z, In z (Zs (len E) ny nz k j) /\ a z = true.
Proof.
  intros Hn Hok Hny Hnz Hj Hs. set (nx := len E) in *. assert (Hnx : 0 <= nx) by apply len_nonneg.
  destruct (existsb a (Zs nx ny nz k j)) eqn:Ez; [apply existsb_exists in Ez; exact Ez|]. exfalso.
  assert (Zf : clause_sat a (Zs nx ny nz k j) = false).
  { apply clause_false_iff. intros z Hz. rewrite lit_true_pos by (apply (Zs_pos nx ny nz k a Hnx Hny Hnz ltac:(lia) j z ltac:(lia) Hz)).
    destruct (a z) eqn:Az; [|reflexivity]. assert (existsb a (Zs nx ny nz k j) = true) by (apply existsb_exists; eauto). congruence. }
  unfold pit_hard in Hs. rewrite cnf_sat_flat_map, forallb_forall in Hs.
  specialize (Hs j (proj2 (In_vrange _ _) Hj)). rewrite cnf_sat_true_iff in Hs.
  pose proof (tseitin_unsat n E (fun v => a (v + (j - 1) * nx)) Hn Hok) as U.
  assert (S : cnf_sat (fun v => a (v + (j - 1) * nx)) (tseitin_cnf n E) = true); [|congruence].
  apply cnf_sat_true_iff. intros cl Hcl.
  specialize (Hs _ (in_map (fun cl => map (shift true nx j) cl ++ Zs nx ny nz k j) _ _ Hcl)). cbn beta in Hs.
  rewrite clause_sat_app, Zf, orb_false_r in Hs. apply clause_sat_true_iff in Hs as [l [Hl Ht]].
  apply in_map_iff in Hl as [l0 [<- Hl0]]. apply clause_sat_true_iff. exists l0. split; [assumption|].
  cbn [shift] in Ht. rewrite shift_spec_sem in Ht; [exact Ht|nia|eapply tseitin_lits; eauto].
Qed.

Theorem pitfall_spec_unsat n E ny nz k a : 1 <= n -> edges_ok n E = true -> 2 <= ny -> 2 <= nz -> 1 <= k ->
  cnf_sat a (pitfall_cnf true n E ny nz k) = false.
Proof.
  intros Hn Hok Hny Hnz Hk. destruct (cnf_sat a (pitfall_cnf true n E ny nz k)) eqn:Hs; [|reflexivity]. exfalso.
  unfold pitfall_cnf in Hs. set (nx := len E) in *. assert (Hnx : 0 <= nx) by apply len_nonneg.
  rewrite !cnf_sat_app, !andb_true_iff in Hs. destruct Hs as [Hhard [Hpit [Hpipe [Htail _]]]].
  assert (Hj : 1 <= 1 <= k) by lia.
  destruct (hard_forces_safety n E ny nz k a 1 Hn Hok Hny Hnz Hj Hhard) as [z [Hz Az]]. fold nx in Hz.
  assert (Yf : forall y, In y (Ys nx ny nz k 1) -> a y = false).
  { intros y Hy. eapply (tail_sem nx ny nz k a); eauto. }
  assert (Pf : forall p, In p (Ps nx ny nz k 1) -> a p = false).
  { intros p Hp. eapply (pitfall_sem nx ny nz k a); eauto. }
  set (y1 := Yid nx ny nz k 1 1).
  assert (H1 : In y1 (Ys nx ny nz k 1)) by (apply in_map_iff; exists 1; split; [reflexivity|apply In_vrange; lia]).
  assert (Hp1 : cnf_sat a (pipe nx y1 (Ps nx ny nz k 1) (Xs nx 1 ++ Zs nx ny nz k 1)) = true).
  { unfold pit_pipes in Hpipe. rewrite cnf_sat_flat_map, forallb_forall in Hpipe.
    specialize (Hpipe 1 (proj2 (In_vrange _ _) Hj)). rewrite cnf_sat_flat_map, forallb_forall in Hpipe. exact (Hpipe _ H1). }
  assert (Zf : a z = false).
  { apply (pipe_sem nx a y1 (Ps nx ny nz k 1) (Xs nx 1 ++ Zs nx ny nz k 1)); try assumption.
    - intros s Hin. apply in_app_or in Hin as [Hin|Hin];
        [exact (Xs_pos nx a Hnx 1 s ltac:(lia) Hin)|exact (Zs_pos nx ny nz k a Hnx Hny Hnz Hk 1 s ltac:(lia) Hin)].
    - exact (Ys_pos nx ny nz k a Hnx Hny Hk 1 y1 ltac:(lia) H1).
    - intros p Hp. exact (Ps_pos nx ny nz k a Hnx Hny Hnz Hk 1 p ltac:(lia) Hp).
    - now apply Yf.
    - apply in_or_app. now right. }
  congruence.
Qed.

(* ====================================================================== *)
(* the formula as cnfgen builds it (D31)                                   *)
(* ====================================================================== *)
Definition assignment_of (pos : list Z) (v : Z) : bool := memZ v pos.

(* PitfallFormula(4,2,2,2,2) on the 4-cycle 1-2-4-3-1: 34 variables, satisfiable *)
Definition pitfall_witness_edges : list (Z * Z) := [(1, 2); (1, 3); (2, 4); (3, 4)].
Definition pitfall_witness : list Z := [1; 2; 4; 5; 8; 9; 12; 21; 27; 29; 30; 32; 33; 34].

Theorem pitfall_asis_sat :
  cnf_sat (assignment_of pitfall_witness) (pitfall_cnf false 4 pitfall_witness_edges 2 2 2) = true.
Proof. vm_compute. reflexivity. Qed.

(* what "PitfallFormula is a contradiction" says of a model variant *)
Definition pitfall_unsat_statement (fixed : bool) : Prop :=
  forall n E ny nz k a, 1 <= n -> edges_ok n E = true -> 2 <= ny -> 2 <= nz -> 1 <= k ->
    cnf_sat a (pitfall_cnf fixed n E ny nz k) = false.

Theorem pitfall_refuted : ~ pitfall_unsat_statement false.
Proof.
  intros H. specialize (H 4 pitfall_witness_edges 2 2 2 (assignment_of pitfall_witness)
                          ltac:(lia) eq_refl ltac:(lia) ltac:(lia) ltac:(lia)).
  rewrite pitfall_asis_sat in H. discriminate.
Qed.

Theorem pitfall_spec_holds : pitfall_unsat_statement true.
Proof. intros n E ny nz k a. apply pitfall_spec_unsat. Qed.

(* the two copies agree when the template has no negative literal, i.e. the defect needs an edge *)
Theorem pitfall_asis_partial n ny nz k a : 1 <= n -> 2 <= ny -> 2 <= nz -> 1 <= k ->
  cnf_sat a (pitfall_cnf false n [] ny nz k) = false.
Proof.
  intros Hn Hny Hnz Hk. rewrite <- (pitfall_spec_unsat n [] ny nz k a Hn eq_refl Hny Hnz Hk).
  unfold pitfall_cnf. f_equal. f_equal. unfold pit_hard. apply flat_map_ext. intros j. apply map_ext_in. intros cl Hcl.
  f_equal. apply map_ext_in. intros l Hl. exfalso.
  unfold tseitin_cnf in Hcl. apply in_flat_map in Hcl as [w [_ Hcl]]. unfold add_parity in Hcl.
  destruct (parity_clauses_lits _ _ _ _ Hcl Hl) as [H|H]; exact H.
Qed.
