(* PipelineHeader.v -- the comment header `cnfgen` writes when -q is not given.  Definitions only.

   Models
     cnfgen/formula/basecnf.py  BaseCNF.__init__: header = OrderedDict(description, generator, copyright, url)
     cnfgen/info.py             project 'CNFgen', copyright, url; info['version'] comes from the installation
                                (version.py or `git describe`): it is NOT a function of argv and is the parameter
                                [version] below
     the description string of each family generator (families/*.py, clihelpers/simple_helpers.py) for the
     sub-commands WITHOUT a graph argument; with a graph argument the description contains the name of the graph
     object: not modelled, the header is then None (-> POutside)
     cnfgen/transformations/substitutions.py  add_description(newF, text) of every transformation, through
                                Header.add_description (the `while 'transformation i' in header` loop)
     cnfgen/clitools/cnfgen.py  cli(): header['command line'] = "cnfgen " + " ".join(argv[1:])
     to_file(export_header=True, export_varnames=False) -> Dimacs.print_dimacs (Some header) None
   Integers are written with str(): Text.print_Z of the PARSED value ("+3" and "03" are written 3). *)
From Coq Require Import ZArith List Bool Ascii String.
From Cnfgen Require Import Sem Comb Linear Text Dimacs Header Cli PipelineGraph Pipeline.
Import ListNotations.
Local Open Scope Z_scope.
Local Open Scope string_scope.

Definition plh_z (z : Z) : string := string_of_list_ascii (print_Z z).
Fixpoint plh_join (sep : string) (l : list string) : string :=
  match l with
  | [] => ""
  | [x] => x
  | x :: r => x ++ sep ++ plh_join sep r
  end.

Definition plh_op_name (o : cop) : string :=
  match o with CEq => "==" | CLt => "<" | CGt => ">" | CLe => "<=" | CGe => ">=" | CNe => "!=" end.

(* header['description'] of the formula build_formula returns; None: not modelled (graph name inside) *)
Definition pl_fdesc (c : pl_fcmd) : option string :=
  match c with
  | FcPhp m n f o =>
    Some ((if f then (if o then "Matching" else "Functional pigeonhole principle")
           else (if o then "Onto pigeonhole principle" else "Pigeonhole principle"))
          ++ " formula for " ++ plh_z m ++ " pigeons and " ++ plh_z n ++ " holes")
  | FcBphp m n => Some ("Binary Pigeonhole Principle for " ++ plh_z m ++ " pigeons and " ++ plh_z n ++ " holes")
  | FcRphp p r h => Some ("Relativized pigeonhole principle formula for " ++ plh_z p ++ " pigeons, " ++ plh_z r
                          ++ " resting places and " ++ plh_z h ++ " holes")
  | FcCount M p => Some ("Counting Principle: " ++ plh_z M ++ " divided in parts of size " ++ plh_z p ++ ".")
  | FcCliqueCol n k c => Some ("There is a graph of " ++ plh_z n ++ " vertices with a " ++ plh_z k ++ "-clique and a "
                               ++ plh_z c ++ "-coloring")
  | FcOp n total smart plant knuth =>
    Some ((if total || smart then "Total ordering principle" else "Ordering principle")
          ++ (if smart then " (compact representation)" else "")
          ++ (if Z.eqb knuth 2 || Z.eqb knuth 3 then " (Knuth variant " ++ plh_z knuth ++ ")" else ""))
  | FcRam s k N => Some (plh_z N ++ "-vertices graph free of " ++ plh_z s ++ "-independent sets and " ++ plh_z k ++ "-cliques")
  | FcVdw N ks => Some ("is van der Waerden number vdw(" ++ plh_join ", " (map plh_z ks) ++ ") > " ++ plh_z N ++ " ?")
  | FcPtn N => Some ("Pythagorean triples problem on 1..." ++ plh_z N)
  | FcCpls a b c => Some ("Thapen's CPLS formula with " ++ plh_z a ++ " levels, " ++ plh_z b ++ " nodes per level, "
                          ++ plh_z c ++ " colours")
  | FcAnd p n => Some ("Singleton clauses: " ++ plh_z p ++ " positive and " ++ plh_z n ++ " negative")
  | FcOr p n => Some ("A clause with " ++ plh_z p ++ " positive and " ++ plh_z n ++ " negative literals")
  | FcTrue => Some "Formula with no clauses"
  | FcFalse => Some "Formula with one empty clause"
  | _ => None
  end.

(* the text a transformation records (`none` returns the formula itself: no entry) *)
Definition pl_tdesc (t : pl_tcmd) : list string :=
  match t with
  | TcNone => []
  | TcFlip => ["All polarities have been flipped"]
  | TcIte => ["If-Then-Else substitution formula"]
  | TcXor k => ["Substitution with XOR of arity " ++ plh_z k]
  | TcOr k => ["Substitution with OR of arity " ++ plh_z k]
  | TcEq k | TcNeq k => ["Substitution with not-all-equals of arity " ++ plh_z k]     (* both branches of the code say this *)
  | TcMaj k => ["Substitution with majority of arity " ++ plh_z k]
  | TcOne k => ["Substitution with exaclty-one, of arity " ++ plh_z k]
  | TcLift k => ["Lifting with selectors over " ++ plh_z k ++ " values"]
  | TcLin o N K => ["Substitution x --> x1 + x2 + ... x" ++ plh_z N ++ " " ++ plh_op_name o ++ " " ++ plh_z K]
  end.

Definition plh_copyright : string := "(C) 2012-2022 Massimo Lauria <massimo.lauria@uniroma1.it>".
Definition plh_url : string := "https://massimolauria.net/cnfgen".

(* the header of the generated formula *)
Definition plh_fresh (version d : string) : Header.header :=
  [(KO "description", d); (KO "generator", "CNFgen (" ++ version ++ ")"); (KO "copyright", plh_copyright); (KO "url", plh_url)].

(* after the transformations and cli() *)
Definition plh_final (version : string) (argv : list string) (d : string) (ts : list pl_tcmd) : Header.header :=
  List.app (apply_chain (plh_fresh version d) (flat_map pl_tdesc ts)) [(KO "command line", "cnfgen " ++ plh_join " " argv)].

Definition plh_key_text (k : hkey) : text :=
  match k with
  | KO s => lit s
  | KT i => List.app (lit "transformation ") (print_Z (Z.of_nat i))
  end.
Definition plh_render (h : Header.header) : Dimacs.header := map (fun kv => (plh_key_text (fst kv), lit (snd kv))) h.

Definition pl_header (version : string) (argv : list string) (g : pl_fcmd) (ts : list pl_tcmd) : option Dimacs.header :=
  match pl_fdesc g with
  | Some d => Some (plh_render (plh_final version argv d ts))
  | None => None
  end.

(* what to_file is asked to write in front of the formula: Some None = nothing (-q), Some (Some h) = the header h,
   None = a header this file does not model *)
Definition pl_header_choice (version : string) (argv : list string) : option (option Dimacs.header) :=
  match pl_parse_chunks (pl_chunks_of argv) with
  | PlOk c =>
    if pl_quiet (pl_o c) then Some None
    else match pl_gen c, pl_all_some (pl_ts c) with
         | Some g, Some ts => option_map Some (pl_header version argv g ts)
         | _, _ => None
         end
  | _ => None
  end.

Definition pl_render_env (opb : bool) (h : option (option Dimacs.header)) (r : pl_fres) : pipeline_result :=
  match r with
  | FrOk n F => match h with
                | Some hh => POut (pl_write opb hh n F)
                | None => POutside
                end
  | FrErr => PCliError
  | FrCrash => PCrash
  | FrOutside => POutside
  end.

(* the program with and without -q; [version] is info['version'] of the installation *)
Definition cnfgen_main_env (version : string) (argv : list string) : pipeline_result :=
  pl_render_env (pl_opb_of argv) (pl_header_choice version argv) (pl_formula argv).
Definition cnfgen_main_env_fast (version : string) (argv : list string) : pipeline_result :=
  pl_render_env (pl_opb_of argv) (pl_header_choice version argv) (pl_formula_fast argv).
