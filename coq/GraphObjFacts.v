(* GraphObjFacts.v -- abstract specification of the graph objects (vertex count + finite
   set of edges), refinement proofs for the three state machines of GraphObj.v, and the
   characterisation of every view as a function of the abstraction. *)
From Coq Require Import ZArith List Bool Lia ZifyBool Sorted.
From Cnfgen Require Import Comb GraphObj.
Import ListNotations.
Open Scope Z_scope.
Ltac Zify.zify_post_hook ::= Z.to_euclidean_division_equations.

(* ====================================================================== 1. sets of pairs *)
Lemma pair_eqb_spec a b : pair_eqb a b = true <-> a = b.
Proof.
  destruct a as [a1 a2], b as [b1 b2]; unfold pair_eqb; cbn [fst snd].
  rewrite andb_true_iff, !Z.eqb_eq. split.
  - intros [H1 H2]; subst; reflexivity.
  - intros H; inversion H; auto.
Qed.

Lemma pair_eqb_refl a : pair_eqb a a = true.
Proof. apply pair_eqb_spec; reflexivity. Qed.

Lemma set_mem_In e s : set_mem e s = true <-> In e s.
Proof.
  unfold set_mem. rewrite existsb_exists. split.
  - intros [x [Hin Heq]]. apply pair_eqb_spec in Heq. subst; auto.
  - intros H. exists e. split; auto. apply pair_eqb_refl.
Qed.

Lemma set_mem_nIn e s : set_mem e s = false <-> ~ In e s.
Proof.
  rewrite <- set_mem_In. destruct (set_mem e s); split; intros H; congruence.
Qed.

Lemma set_add_In e s x : In x (set_add e s) <-> x = e \/ In x s.
Proof.
  unfold set_add. destruct (set_mem e s) eqn:H.
  - apply set_mem_In in H. split; [auto | intros [Hx | Hx]; subst; auto].
  - cbn [In]. split; intros [Hx | Hx]; auto.
Qed.

Lemma set_remove_In e s x : In x (set_remove e s) <-> In x s /\ x <> e.
Proof.
  unfold set_remove. rewrite filter_In. split; intros [H1 H2]; split; auto.
  - intros Hx; subst. rewrite pair_eqb_refl in H2. discriminate.
  - destruct (pair_eqb e x) eqn:E; auto. apply pair_eqb_spec in E. congruence.
Qed.

Lemma NoDup_filter' {A} (f : A -> bool) l : NoDup l -> NoDup (filter f l).
Proof.
  induction 1 as [| x l Hx Hl IH]; cbn [filter]; [constructor |].
  destruct (f x); auto. constructor; auto. rewrite filter_In. intros [H _]; auto.
Qed.

Lemma set_add_NoDup e s : NoDup s -> NoDup (set_add e s).
Proof.
  intros H. unfold set_add. destruct (set_mem e s) eqn:E; auto.
  constructor; auto. apply set_mem_nIn; auto.
Qed.

Lemma set_remove_NoDup e s : NoDup s -> NoDup (set_remove e s).
Proof. apply NoDup_filter'. Qed.

Lemma set_remove_absent e s : ~ In e s -> set_remove e s = s.
Proof.
  intros H. unfold set_remove. induction s as [| x s IH]; cbn [filter]; auto.
  destruct (pair_eqb e x) eqn:E.
  - apply pair_eqb_spec in E. subst. exfalso; apply H; left; auto.
  - cbn [negb]. f_equal. apply IH. intros Hin; apply H; right; auto.
Qed.

Lemma set_remove_length e s : NoDup s -> In e s ->
  Z.of_nat (length (set_remove e s)) = Z.of_nat (length s) - 1.
Proof.
  unfold set_remove. induction 1 as [| x l Hx Hl IH]; intros Hin; [destruct Hin |].
  cbn [filter]. destruct (pair_eqb e x) eqn:E.
  - apply pair_eqb_spec in E. subst x. cbn [negb].
    fold (set_remove e l). rewrite set_remove_absent by auto. cbn [length]. lia.
  - cbn [negb length]. destruct Hin as [Hin | Hin].
    + subst. rewrite pair_eqb_refl in E. discriminate.
    + specialize (IH Hin). lia.
Qed.

(* ====================================================================== 2. sorted lists *)
Definition sorted := StronglySorted Z.lt.

Lemma sorted_inv a t : sorted (a :: t) -> sorted t /\ forall y, In y t -> a < y.
Proof.
  intros H. apply StronglySorted_inv in H. destruct H as [H1 H2].
  split; auto. rewrite Forall_forall in H2. auto.
Qed.

Lemma sorted_cons a t : sorted t -> (forall y, In y t -> a < y) -> sorted (a :: t).
Proof. intros H1 H2. constructor; auto. apply Forall_forall; auto. Qed.

Lemma insort_nil x : insort x [] = [x].
Proof. reflexivity. Qed.

Lemma insort_cons a t x : insort x (a :: t) = if a <=? x then a :: insort x t else x :: a :: t.
Proof. unfold insort. cbn [bisect_right]. destruct (a <=? x); reflexivity. Qed.

Lemma insort_In x l y : In y (insort x l) <-> y = x \/ In y l.
Proof.
  induction l as [| a t IH].
  - rewrite insort_nil. cbn [In]. intuition.
  - rewrite insort_cons. destruct (a <=? x); cbn [In]; [rewrite IH |]; intuition.
Qed.

Lemma insort_sorted x l : sorted l -> ~ In x l -> sorted (insort x l).
Proof.
  induction l as [| a t IH]; intros Hs Hn.
  - rewrite insort_nil. apply sorted_cons; [constructor | intros y []].
  - rewrite insort_cons. apply sorted_inv in Hs. destruct Hs as [Hs Hlt].
    destruct (a <=? x) eqn:E.
    + apply sorted_cons.
      * apply IH; auto. intros Hin; apply Hn; right; auto.
      * intros y Hy. apply insort_In in Hy. destruct Hy as [Hy | Hy]; [| auto].
        subst y. assert (a <> x) by (intros ->; apply Hn; left; auto). lia.
    + apply sorted_cons; [apply sorted_cons; auto |].
      intros y [Hy | Hy]; [subst; lia |]. specialize (Hlt y Hy). lia.
Qed.

Lemma insort_length x l : length (insort x l) = S (length l).
Proof.
  induction l as [| a t IH]; [reflexivity |].
  rewrite insort_cons. destruct (a <=? x); cbn [length]; auto.
Qed.

Lemma remove_first_In x l : In x l -> exists l', remove_first x l = Some l'.
Proof.
  induction l as [| a t IH]; intros Hin; [destruct Hin |].
  cbn [remove_first]. destruct (a =? x) eqn:E; [eauto |].
  destruct Hin as [Hin | Hin]; [lia |].
  destruct (IH Hin) as [t' Ht']. rewrite Ht'. eauto.
Qed.

Lemma remove_first_spec x l : sorted l -> forall l', remove_first x l = Some l' ->
  sorted l' /\ (forall y, In y l' <-> In y l /\ y <> x) /\ length l = S (length l').
Proof.
  induction l as [| a t IH]; intros Hs l' Hr; [discriminate |].
  apply sorted_inv in Hs. destruct Hs as [Hs Hlt].
  cbn [remove_first] in Hr. destruct (a =? x) eqn:E.
  - inversion Hr; subst l'. split; [auto | split; [| reflexivity]].
    intros y. cbn [In]. split.
    + intros Hy. specialize (Hlt y Hy). split; [auto | lia].
    + intros [[Hy | Hy] Hne]; [lia | auto].
  - destruct (remove_first x t) as [t' |] eqn:Ht; [| discriminate].
    inversion Hr; subst l'. destruct (IH Hs t' eq_refl) as [Hs' [Hin' Hlen]].
    split; [| split].
    + apply sorted_cons; auto. intros y Hy. apply Hin' in Hy. apply Hlt. tauto.
    + intros y. cbn [In]. rewrite Hin'. split.
      * intros [Hy | [Hy Hne]]; [subst; split; [auto | lia] | auto].
      * intros [[Hy | Hy] Hne]; auto.
    + cbn [length]. lia.
Qed.

Lemma skipn_sorted n l : sorted l -> sorted (skipn n l).
Proof.
  revert l. induction n as [| n IH]; intros l Hs; [exact Hs |].
  destruct l as [| a t]; [exact Hs |]. cbn [skipn]. apply IH. apply sorted_inv in Hs. tauto.
Qed.

Lemma skipn_bisect l u : sorted l -> forall v, In v (skipn (bisect_right l u) l) <-> In v l /\ u < v.
Proof.
  induction l as [| a t IH]; intros Hs v.
  - cbn. tauto.
  - apply sorted_inv in Hs. destruct Hs as [Hs Hlt]. cbn [bisect_right].
    destruct (a <=? u) eqn:E.
    + cbn [skipn]. rewrite IH by auto. cbn [In]. split; [tauto |].
      intros [[Hv | Hv] Hu]; [lia | tauto].
    + cbn [skipn In]. split; [| tauto].
      intros [Hv | Hv]; [split; [auto | lia] |]. specialize (Hlt v Hv). split; [auto | lia].
Qed.

Lemma sorted_NoDup l : sorted l -> NoDup l.
Proof.
  induction l as [| a t IH]; intros Hs; [constructor |].
  apply sorted_inv in Hs. destruct Hs as [Hs Hlt]. constructor; auto.
  intros Hin. specialize (Hlt a Hin). lia.
Qed.

(* a strictly sorted list is determined by its elements *)
Lemma ssorted_unique {A} (R : A -> A -> Prop) :
  (forall x, ~ R x x) -> (forall x y z, R x y -> R y z -> R x z) ->
  forall l1 l2, StronglySorted R l1 -> StronglySorted R l2 ->
  (forall x, In x l1 <-> In x l2) -> l1 = l2.
Proof.
  intros Hirr Htr. induction l1 as [| a l1 IH]; intros l2 H1 H2 Hin.
  - destruct l2 as [| b l2]; [reflexivity |]. exfalso. apply (Hin b). left; reflexivity.
  - destruct l2 as [| b l2]; [exfalso; apply (Hin a); left; reflexivity |].
    apply StronglySorted_inv in H1. destruct H1 as [H1 F1].
    apply StronglySorted_inv in H2. destruct H2 as [H2 F2].
    rewrite Forall_forall in F1, F2.
    assert (Hab : a = b).
    { destruct (proj1 (Hin a) (or_introl eq_refl)) as [Ha | Ha]; [auto |].
      destruct (proj2 (Hin b) (or_introl eq_refl)) as [Hb | Hb]; [auto |].
      exfalso. apply (Hirr a). apply (Htr a b a); auto. }
    subst b. f_equal. apply IH; auto. intros x. split; intros Hx.
    + destruct (proj1 (Hin x) (or_intror Hx)) as [Hx' | Hx']; [| auto].
      subst x. exfalso. apply (Hirr a). auto.
    + destruct (proj2 (Hin x) (or_intror Hx)) as [Hx' | Hx']; [| auto].
      subst x. exfalso. apply (Hirr a). auto.
Qed.

Lemma sorted_unique l1 l2 : sorted l1 -> sorted l2 -> (forall x, In x l1 <-> In x l2) -> l1 = l2.
Proof. apply ssorted_unique; intros; lia. Qed.

(* lexicographic order on pairs: the order of the edge listings *)
Definition pair_lt (a b : Z * Z) : Prop := fst a < fst b \/ (fst a = fst b /\ snd a < snd b).
Definition lex_sorted := StronglySorted pair_lt.

Lemma lex_sorted_unique l1 l2 : lex_sorted l1 -> lex_sorted l2 -> (forall x, In x l1 <-> In x l2) -> l1 = l2.
Proof. apply ssorted_unique; unfold pair_lt; intros; lia. Qed.

Lemma ssorted_app {A} (R : A -> A -> Prop) l1 l2 :
  StronglySorted R l1 -> StronglySorted R l2 -> (forall a b, In a l1 -> In b l2 -> R a b) ->
  StronglySorted R (l1 ++ l2).
Proof.
  induction l1 as [| x l1 IH]; intros H1 H2 H; [exact H2 |].
  apply StronglySorted_inv in H1. destruct H1 as [H1 F1]. rewrite Forall_forall in F1.
  cbn [app]. constructor.
  - apply IH; auto. intros a b Ha Hb. apply H; [right |]; auto.
  - apply Forall_forall. intros y Hy. apply in_app_or in Hy. destruct Hy as [Hy | Hy]; auto.
    apply H; [left |]; auto.
Qed.

Lemma lex_sorted_map_pair u l : sorted l -> lex_sorted (map (pair u) l).
Proof.
  induction l as [| a t IH]; intros Hs; [constructor |].
  apply sorted_inv in Hs. destruct Hs as [Hs Hlt]. cbn [map]. constructor; [apply IH; auto |].
  apply Forall_forall. intros y Hy. apply in_map_iff in Hy. destruct Hy as [b [Hb Hin]]. subst y.
  right. cbn [fst snd]. split; auto.
Qed.

Lemma lex_sorted_flat_map (f : Z -> list Z) us :
  sorted us -> (forall u, In u us -> sorted (f u)) ->
  lex_sorted (flat_map (fun u => map (pair u) (f u)) us).
Proof.
  induction us as [| u us IH]; intros Hs Hf; [constructor |].
  apply sorted_inv in Hs. destruct Hs as [Hs Hlt]. cbn [flat_map].
  apply ssorted_app.
  - apply lex_sorted_map_pair. apply Hf. left; auto.
  - apply IH; auto. intros x Hx. apply Hf. right; auto.
  - intros a b Ha Hb. apply in_map_iff in Ha. destruct Ha as [x [Hx _]]. subst a.
    apply in_flat_map in Hb. destruct Hb as [u' [Hu' Hb]].
    apply in_map_iff in Hb. destruct Hb as [y [Hy _]]. subst b.
    left. cbn [fst]. auto.
Qed.

Lemma in_flat_map_pair (f : Z -> list Z) us x y :
  In (x, y) (flat_map (fun u => map (pair u) (f u)) us) <-> In x us /\ In y (f x).
Proof.
  rewrite in_flat_map. split.
  - intros [u [Hu H]]. apply in_map_iff in H. destruct H as [v [Hv Hin]]. inversion Hv; subst. auto.
  - intros [Hx Hy]. exists x. split; auto. apply in_map_iff. exists y. auto.
Qed.

Lemma zrange_In a b x : In x (zrange a b) <-> a <= x < b.
Proof.
  unfold zrange. rewrite in_map_iff. split.
  - intros [i [Hi Hin]]. apply in_seq in Hin. lia.
  - intros H. exists (Z.to_nat (x - a)). split; [lia |]. apply in_seq. lia.
Qed.

Lemma zrange_sorted a b : sorted (zrange a b).
Proof.
  unfold zrange. generalize (Z.to_nat (b - a)) as n. generalize 0%nat as s.
  intros s n. revert s. induction n as [| n IH]; intros s; [constructor |].
  cbn [seq map]. apply sorted_cons; [apply IH |].
  intros y Hy. apply in_map_iff in Hy. destruct Hy as [i [Hi Hin]]. apply in_seq in Hin. lia.
Qed.

(* ====================================================================== 3. stores *)
Lemma py_pos_inrange len i : 0 <= i < Z.of_nat len -> py_pos len i = Some (Z.to_nat i).
Proof.
  intros H. unfold py_pos.
  destruct ((0 <=? i) && (i <? Z.of_nat len)) eqn:E; [reflexivity | lia].
Qed.

Lemma set_nth_length {A} (l : list A) i x : length (set_nth l i x) = length l.
Proof.
  revert i. induction l as [| a t IH]; intros i; [reflexivity |].
  destruct i; cbn [set_nth length]; auto.
Qed.

Lemma nth_set_nth {A} (l : list A) i j x d : (i < length l)%nat ->
  nth j (set_nth l i x) d = if Nat.eqb j i then x else nth j l d.
Proof.
  revert i j. induction l as [| a t IH]; intros i j Hi; [cbn in Hi; lia |].
  destruct i as [| i]; destruct j as [| j]; cbn [set_nth nth Nat.eqb]; auto.
  apply IH. cbn [length] in Hi. lia.
Qed.

Lemma adj_at_set_nth adj u x y : 0 <= u -> 0 <= y -> (Z.to_nat u < length adj)%nat ->
  adj_at (set_nth adj (Z.to_nat u) x) y = if y =? u then x else adj_at adj y.
Proof.
  intros Hu Hy Hlen. unfold adj_at. rewrite nth_set_nth by auto.
  destruct (y =? u) eqn:E.
  - replace (Nat.eqb (Z.to_nat y) (Z.to_nat u)) with true; [reflexivity |].
    symmetry. apply Nat.eqb_eq. lia.
  - replace (Nat.eqb (Z.to_nat y) (Z.to_nat u)) with false; [reflexivity |].
    symmetry. apply Nat.eqb_neq. lia.
Qed.

Lemma adj_at_repeat k u : adj_at (repeat [] k) u = [].
Proof.
  unfold adj_at. generalize (Z.to_nat u) as i. induction k as [| k IH]; intros i; destruct i; cbn; auto.
Qed.

Lemma adj_at_app_l adj ext u : (Z.to_nat u < length adj)%nat -> adj_at (adj ++ ext) u = adj_at adj u.
Proof. intros H. unfold adj_at. apply app_nth1; auto. Qed.

Lemma adj_at_app_repeat_r adj k u : (length adj <= Z.to_nat u)%nat -> adj_at (adj ++ repeat [] k) u = [].
Proof.
  intros H. unfold adj_at. rewrite app_nth2 by auto.
  generalize (Z.to_nat u - length adj)%nat as i. induction k as [| k IH]; intros i; destruct i; cbn; auto.
Qed.

Lemma dict_find_set k x d y : dict_find y (dict_set k x d) = if y =? k then Some x else dict_find y d.
Proof.
  induction d as [| [k' z] t IH]; cbn [dict_set dict_find].
  - destruct (k =? y) eqn:E1; destruct (y =? k) eqn:E2; auto; lia.
  - destruct (k' =? k) eqn:E; cbn [dict_find].
    + destruct (k' =? y) eqn:E1; destruct (y =? k) eqn:E2; auto; lia.
    + destruct (k' =? y) eqn:E1; destruct (y =? k) eqn:E2; auto; lia.
Qed.

Lemma dict_get_set k x d y : dict_get y (dict_set k x d) = if y =? k then x else dict_get y d.
Proof. unfold dict_get. rewrite dict_find_set. destruct (y =? k); reflexivity. Qed.

Lemma dict_get_default k d y : dict_get y (dict_default k d) = dict_get y d.
Proof.
  unfold dict_default, dict_has. destruct (dict_find k d) as [l |] eqn:E; [reflexivity |].
  rewrite dict_get_set. destruct (y =? k) eqn:Ey; [| reflexivity].
  assert (y = k) by lia. subst. unfold dict_get. rewrite E. reflexivity.
Qed.

(* pointwise description of an adjacency store: every list is sorted and lists exactly R *)
Definition PW (dom : Z -> Prop) (get : Z -> list Z) (R : Z -> Z -> Prop) : Prop :=
  forall u, dom u -> sorted (get u) /\ forall v, In v (get u) <-> R u v.

Lemma PW_insert dom get R u v get' R' :
  PW dom get R -> ~ R u v ->
  (forall x, dom x -> get' x = if x =? u then insort v (get u) else get x) ->
  (forall a b, R' a b <-> R a b \/ (a = u /\ b = v)) ->
  PW dom get' R'.
Proof.
  intros HP Hn Hg HR x Hx. rewrite (Hg x Hx). destruct (x =? u) eqn:E.
  - assert (x = u) by lia. subst x. destruct (HP u Hx) as [Hs Hin]. split.
    + apply insort_sorted; auto. rewrite Hin. auto.
    + intros y. rewrite insort_In, HR, Hin. intuition.
  - destruct (HP x Hx) as [Hs Hin]. split; auto.
    intros y. rewrite HR, Hin. intuition; lia.
Qed.

Lemma PW_remove dom get R u v l' get' R' :
  PW dom get R -> dom u -> remove_first v (get u) = Some l' ->
  (forall x, dom x -> get' x = if x =? u then l' else get x) ->
  (forall a b, R' a b <-> R a b /\ ~ (a = u /\ b = v)) ->
  PW dom get' R'.
Proof.
  intros HP Hu Hr Hg HR x Hx. rewrite (Hg x Hx). destruct (x =? u) eqn:E.
  - assert (x = u) by lia. subst x. destruct (HP u Hx) as [Hs Hin].
    destruct (remove_first_spec v (get u) Hs l' Hr) as [Hs' [Hin' _]]. split; auto.
    intros y. rewrite Hin', HR, Hin. intuition.
  - destruct (HP x Hx) as [Hs Hin]. split; auto.
    intros y. rewrite HR, Hin. intuition; lia.
Qed.

Lemma PW_ext (dom dom' : Z -> Prop) get get' R R' :
  PW dom get R -> (forall u, dom' u -> dom u) -> (forall u, dom' u -> get' u = get u) ->
  (forall a b, dom' a -> (R' a b <-> R a b)) -> PW dom' get' R'.
Proof.
  intros HP Hd Hg HR u Hu. rewrite (Hg u Hu). destruct (HP u (Hd u Hu)) as [Hs Hin].
  split; auto. intros v. rewrite Hin. symmetry. apply HR; auto.
Qed.

Lemma bool_eq_iff (a b : bool) : (a = true <-> b = true) -> a = b.
Proof. destruct a, b; intros [H1 H2]; try reflexivity; [symmetry; apply H1; reflexivity | apply H2; reflexivity]. Qed.

Lemma filter_filter' {A} (f g : A -> bool) l : filter f (filter g l) = filter (fun x => g x && f x) l.
Proof.
  induction l as [| x l IH]; [reflexivity |]. cbn [filter].
  destruct (g x); cbn [filter andb]; [destruct (f x) |]; rewrite IH; reflexivity.
Qed.

Lemma filter_ext' {A} (f g : A -> bool) l : (forall x, f x = g x) -> filter f l = filter g l.
Proof.
  intros H. induction l as [| x l IH]; [reflexivity |]. cbn [filter]. rewrite H, IH. reflexivity.
Qed.

Lemma NoDup_same_length {A} (l1 l2 : list A) : NoDup l1 -> NoDup l2 -> (forall x, In x l1 <-> In x l2) ->
  length l1 = length l2.
Proof.
  intros H1 H2 H. apply Nat.le_antisymm; apply NoDup_incl_length; auto; intros x Hx; apply H; auto.
Qed.

(* ====================================================================== 4. abstract specification
   A graph is a vertex count (two for a bipartite graph) and a finite set of edges, kept as a
   duplicate-free list.  An edge of a simple graph is stored as (smaller, larger). *)
Record agraph := mkA { a_n : Z; a_r : Z; a_E : list (Z * Z) }.

Definition a_valid (k : kind) (A : agraph) (u v : Z) : bool :=
  match k with
  | KSimple => between 1 u (a_n A) && between 1 v (a_n A) && negb (u =? v)
  | KDirected => between 1 u (a_n A) && between 1 v (a_n A)
  | KBipartite => between 1 u (a_n A) && between 1 v (a_r A)
  end.

Definition a_norm (k : kind) (u v : Z) : Z * Z :=
  match k with KSimple => (Z.min u v, Z.max u v) | _ => (u, v) end.

Definition a_has (k : kind) (A : agraph) (u v : Z) : bool := set_mem (a_norm k u v) (a_E A).

Definition a_add (k : kind) (A : agraph) (u v : Z) : agraph * outcome :=
  if a_valid k A u v then (mkA (a_n A) (a_r A) (set_add (a_norm k u v) (a_E A)), Ok)
  else (A, ValueError).

Definition a_remove (k : kind) (A : agraph) (u v : Z) : agraph * outcome :=
  match k with
  | KSimple => (mkA (a_n A) (a_r A) (set_remove (a_norm k u v) (a_E A)), Ok)
  | _ => (A, NoMethod)
  end.

Definition a_raise (k : kind) (A : agraph) (new : Z) : agraph * outcome :=
  match k with
  | KSimple => if new <? 0 then (A, ValueError) else (mkA (Z.max (a_n A) new) (a_r A) (a_E A), Ok)
  | _ => (A, NoMethod)
  end.

Definition a_step (k : kind) (A : agraph) (o : op) : agraph * outcome :=
  match o with
  | AddEdge u v => a_add k A u v
  | RemoveEdge u v => a_remove k A u v
  | RaiseN n => a_raise k A n
  | AddEdgesFrom l => add_from (a_add k) A l
  end.

Definition a_run (k : kind) (A : agraph) (ops : list op) : agraph :=
  fold_left (fun A o => fst (a_step k A o)) ops A.

Definition a_init (k : kind) (a b : Z) : agraph := mkA a (match k with KBipartite => b | _ => 0 end) [].

(* what the abstract machine means, in terms of membership only *)
Lemma a_add_has k A u v x y : a_valid k A u v = true ->
  a_has k (fst (a_add k A u v)) x y = pair_eqb (a_norm k x y) (a_norm k u v) || a_has k A x y.
Proof.
  intros Hv. unfold a_add, a_has. rewrite Hv. cbn [fst a_E].
  apply bool_eq_iff. rewrite orb_true_iff, !set_mem_In, set_add_In, pair_eqb_spec. tauto.
Qed.

Lemma a_add_refused k A u v : a_valid k A u v = false -> a_add k A u v = (A, ValueError).
Proof. intros Hv. unfold a_add. rewrite Hv. reflexivity. Qed.

Lemma a_add_duplicate k A u v : a_has k A u v = true -> fst (a_add k A u v) = A.
Proof.
  intros Hh. unfold a_add, a_has in *. destruct (a_valid k A u v); [| reflexivity].
  cbn [fst]. unfold set_add. rewrite Hh. destruct A; reflexivity.
Qed.

Lemma a_remove_has A u v x y :
  a_has KSimple (fst (a_remove KSimple A u v)) x y =
  negb (pair_eqb (a_norm KSimple x y) (a_norm KSimple u v)) && a_has KSimple A x y.
Proof.
  unfold a_remove, a_has. cbn [fst a_E].
  apply bool_eq_iff. rewrite andb_true_iff, negb_true_iff, !set_mem_In, set_remove_In.
  rewrite <- not_true_iff_false, pair_eqb_spec. tauto.
Qed.

Lemma add_from_outcome {S} (add : S -> Z -> Z -> S * outcome) (P : outcome -> Prop) :
  P Ok -> (forall s u v, P (snd (add s u v))) -> forall l s, P (snd (add_from add s l)).
Proof.
  intros HOk Hadd. induction l as [| [u v] r IH]; intros s; cbn [add_from]; [exact HOk |].
  specialize (Hadd s u v). destruct (add s u v) as [s' o]. cbn [snd] in Hadd.
  destruct o; auto.
Qed.

Lemma add_from_app {S} (add : S -> Z -> Z -> S * outcome) l1 l2 : forall s,
  snd (add_from add s l1) = Ok ->
  add_from add s (l1 ++ l2) = add_from add (fst (add_from add s l1)) l2.
Proof.
  induction l1 as [| [u v] r IH]; intros s H; cbn [add_from app] in *; [reflexivity |].
  destruct (add s u v) as [s' o]. destruct o; cbn [snd] in H; try discriminate. apply IH; auto.
Qed.

Lemma add_from_stop {S} (add : S -> Z -> Z -> S * outcome) s u v r :
  snd (add s u v) <> Ok -> add_from add s ((u, v) :: r) = add s u v.
Proof.
  intros H. cbn [add_from]. destruct (add s u v) as [s' o]. destruct o; cbn [snd] in H; congruence.
Qed.

(* a step-wise simulation of add_edge lifts to add_edges_from *)
Lemma add_from_refines {S} (inv : S -> Prop) (abs : S -> agraph) k (add : S -> Z -> Z -> S * outcome) :
  (forall s u v, inv s -> inv (fst (add s u v)) /\ abs (fst (add s u v)) = fst (a_add k (abs s) u v) /\
                          snd (add s u v) = snd (a_add k (abs s) u v)) ->
  forall l s, inv s -> inv (fst (add_from add s l)) /\
                       abs (fst (add_from add s l)) = fst (add_from (a_add k) (abs s) l) /\
                       snd (add_from add s l) = snd (add_from (a_add k) (abs s) l).
Proof.
  intros Hstep. induction l as [| [u v] r IH]; intros s Hinv; cbn [add_from]; [auto |].
  destruct (Hstep s u v Hinv) as [H1 [H2 H3]].
  destruct (add s u v) as [s' o]. destruct (a_add k (abs s) u v) as [A' o'].
  cbn [fst snd] in *. subst o' A'. destruct o; cbn [fst snd]; auto.
Qed.

(* ====================================================================== 5. class Graph *)
Definition ltp (e : Z * Z) : bool := fst e <? snd e.

Lemma ltp_pair a b : ltp (a, b) = (a <? b).
Proof. reflexivity. Qed.

(* abstraction: the vertex count and the edges read in the orientation (smaller, larger) *)
Definition g_abs (s : gstate) : agraph := mkA (g_n s) 0 (filter ltp (g_es s)).

Record g_inv (s : gstate) : Prop := mk_g_inv {
  gi_n : 0 <= g_n s;
  gi_len : length (g_adj s) = S (Z.to_nat (g_n s));
  gi_nodup : NoDup (g_es s);
  gi_range : forall u v, In (u, v) (g_es s) -> 1 <= u <= g_n s /\ 1 <= v <= g_n s /\ u <> v;
  gi_sym : forall u v, In (u, v) (g_es s) -> In (v, u) (g_es s);
  gi_m : g_m s = Z.of_nat (length (filter ltp (g_es s)));
  gi_adj : PW (fun u => 0 <= u <= g_n s) (adj_at (g_adj s)) (fun u v => In (u, v) (g_es s))
}.

Lemma g_init_ok n s : g_init n = Some s -> g_inv s /\ g_abs s = a_init KSimple n 0.
Proof.
  unfold g_init. destruct (n <? 0) eqn:E; [discriminate |]. intros H; inversion H; subst s; clear H.
  split; [| reflexivity]. constructor; cbn [g_n g_m g_adj g_es].
  - lia.
  - rewrite repeat_length. lia.
  - constructor.
  - intros u v [].
  - intros u v [].
  - reflexivity.
  - intros u Hu. rewrite adj_at_repeat. split; [constructor | cbn; tauto].
Qed.

Lemma g_init_refused n : g_init n = None <-> n < 0.
Proof. unfold g_init. destruct (n <? 0) eqn:E; split; intros H; try discriminate; try reflexivity; lia. Qed.

Lemma g_has_norm s u v : g_inv s ->
  (In (u, v) (g_es s) <-> In (Z.min u v, Z.max u v) (filter ltp (g_es s))).
Proof.
  intros I. rewrite filter_In. unfold ltp. cbn [fst snd]. split.
  - intros H. destruct (gi_range s I u v H) as [_ [_ Hne]].
    destruct (Z_lt_le_dec u v) as [Hlt | Hle].
    + replace (Z.min u v) with u by lia. replace (Z.max u v) with v by lia. split; [auto | lia].
    + replace (Z.min u v) with v by lia. replace (Z.max u v) with u by lia.
      split; [apply (gi_sym s I); auto | lia].
  - intros [H Hlt]. destruct (Z_lt_le_dec u v) as [Hl | Hle].
    + replace (Z.min u v) with u in H by lia. replace (Z.max u v) with v in H by lia. auto.
    + replace (Z.min u v) with v in H by lia. replace (Z.max u v) with u in H by lia.
      apply (gi_sym s I); auto.
Qed.

Lemma es_add_eq a b es : ~ In (a, b) es -> ~ In (b, a) es -> a <> b ->
  set_add (b, a) (set_add (a, b) es) = (b, a) :: (a, b) :: es.
Proof.
  intros H1 H2 Hne. unfold set_add. rewrite (proj2 (set_mem_nIn (a, b) es)) by auto.
  rewrite (proj2 (set_mem_nIn (b, a) ((a, b) :: es))); [reflexivity |].
  intros [H | H]; [inversion H; lia | auto].
Qed.

Lemma g_insert_inv s a b : g_inv s -> 1 <= a -> a < b -> b <= g_n s -> ~ In (a, b) (g_es s) ->
  let adj1 := set_nth (g_adj s) (Z.to_nat a) (insort b (nth (Z.to_nat a) (g_adj s) [])) in
  let adj2 := set_nth adj1 (Z.to_nat b) (insort a (nth (Z.to_nat b) adj1 [])) in
  let s' := mkG (g_n s) (g_m s + 1) adj2 (set_add (b, a) (set_add (a, b) (g_es s))) in
  g_inv s' /\ g_abs s' = mkA (g_n s) 0 (set_add (a, b) (filter ltp (g_es s))).
Proof.
  intros I Ha Hab Hb Hn adj1 adj2 s'.
  destruct I as [In_ Ilen Ind Irng Isym Im Iadj].
  assert (Hn' : ~ In (b, a) (g_es s)) by (intros H; apply Hn; apply Isym; auto).
  assert (Hes : set_add (b, a) (set_add (a, b) (g_es s)) = (b, a) :: (a, b) :: g_es s)
    by (apply es_add_eq; auto; lia).
  assert (Hl1 : length adj1 = length (g_adj s)) by apply set_nth_length.
  assert (Hf : filter ltp ((b, a) :: (a, b) :: g_es s) = (a, b) :: filter ltp (g_es s)).
  { cbn [filter]. rewrite !ltp_pair.
    replace (b <? a) with false by lia. replace (a <? b) with true by lia. reflexivity. }
  assert (P1 : PW (fun u => 0 <= u <= g_n s) (adj_at adj1)
                  (fun x y => In (x, y) (g_es s) \/ (x = a /\ y = b))).
  { apply (PW_insert _ (adj_at (g_adj s)) (fun x y => In (x, y) (g_es s)) a b); auto.
    - intros x Hx. subst adj1. apply adj_at_set_nth; lia.
    - intros; tauto. }
  assert (P2 : PW (fun u => 0 <= u <= g_n s) (adj_at adj2)
                  (fun x y => (In (x, y) (g_es s) \/ (x = a /\ y = b)) \/ (x = b /\ y = a))).
  { apply (PW_insert _ (adj_at adj1) (fun x y => In (x, y) (g_es s) \/ (x = a /\ y = b)) b a); auto.
    - intros [H | [H1 H2]]; [auto | lia].
    - intros x Hx. subst adj2. apply adj_at_set_nth; lia.
    - intros; tauto. }
  split.
  - subst s'. rewrite Hes. constructor; cbn [g_n g_m g_adj g_es].
    + exact In_.
    + subst adj2. rewrite set_nth_length. lia.
    + constructor; [| constructor; auto].
      intros [H | H]; [inversion H; lia | auto].
    + intros u v [H | [H | H]]; [inversion H; subst; lia | inversion H; subst; lia | apply Irng; auto].
    + intros u v [H | [H | H]].
      * inversion H; subst. right; left; reflexivity.
      * inversion H; subst. left; reflexivity.
      * right; right. apply Isym; auto.
    + rewrite Hf. cbn [length]. lia.
    + apply (PW_ext _ _ _ _ _ _ P2); auto.
      intros x y _. cbn [In]. split.
      * intros [H | [H | H]].
        -- inversion H; subst. right; split; reflexivity.
        -- inversion H; subst. left; right; split; reflexivity.
        -- left; left; auto.
      * intros [[H | [H1 H2]] | [H1 H2]]; subst; auto.
  - subst s'. unfold g_abs. cbn [g_n g_es]. rewrite Hes, Hf. f_equal.
    unfold set_add. rewrite (proj2 (set_mem_nIn (a, b) (filter ltp (g_es s)))); [reflexivity |].
    rewrite filter_In. tauto.
Qed.

Lemma g_add_edge_ok s u v : g_inv s ->
  g_inv (fst (g_add_edge s u v)) /\
  g_abs (fst (g_add_edge s u v)) = fst (a_add KSimple (g_abs s) u v) /\
  snd (g_add_edge s u v) = snd (a_add KSimple (g_abs s) u v) /\
  (snd (g_add_edge s u v) = Ok \/ g_add_edge s u v = (s, ValueError)).
Proof.
  intros I. unfold g_add_edge, a_add.
  change (a_valid KSimple (g_abs s) u v) with (g_valid s u v).
  destruct (g_valid s u v) eqn:V; cbn [negb]; [| cbn [fst snd]; auto].
  assert (Hr : 1 <= u <= g_n s /\ 1 <= v <= g_n s /\ u <> v) by (unfold g_valid, between in V; lia).
  destruct (set_mem (u, v) (g_es s)) eqn:M.
  - apply set_mem_In in M. cbn [fst snd]. split; [auto | split; [| auto]].
    unfold g_abs. cbn [a_n a_r a_E a_norm]. f_equal.
    unfold set_add. rewrite (proj2 (set_mem_In _ _)); [reflexivity |].
    apply g_has_norm; auto.
  - apply set_mem_nIn in M.
    assert (Hn : ~ In (Z.min u v, Z.max u v) (g_es s)).
    { intros H. apply M. apply g_has_norm; auto. apply filter_In. split; auto.
      unfold ltp; cbn [fst snd]; lia. }
    pose proof (gi_len s I) as Ilen.
    destruct (g_insert_inv s (Z.min u v) (Z.max u v) I) as [J1 J2]; try lia; auto.
    cbv zeta in J1, J2 |- *.
    rewrite py_pos_inrange by lia. rewrite set_nth_length. rewrite py_pos_inrange by lia.
    cbn [fst snd]. split; [exact J1 | split; [exact J2 | auto]].
Qed.

Lemma g_raise_ok s k : g_inv s ->
  g_inv (fst (g_update_vertex_number s k)) /\
  g_abs (fst (g_update_vertex_number s k)) = fst (a_raise KSimple (g_abs s) k) /\
  snd (g_update_vertex_number s k) = snd (a_raise KSimple (g_abs s) k) /\
  (snd (g_update_vertex_number s k) = Ok \/ g_update_vertex_number s k = (s, ValueError)).
Proof.
  intros I. unfold g_update_vertex_number, a_raise.
  destruct (k <? 0) eqn:E; cbn [fst snd]; [auto |].
  split; [| auto].
  destruct I as [In_ Ilen Ind Irng Isym Im Iadj].
  constructor; cbn [g_n g_m g_adj g_es]; auto.
  - lia.
  - rewrite app_length, repeat_length. lia.
  - intros u v H. specialize (Irng u v H). lia.
  - intros u Hu. destruct (Z_le_gt_dec u (g_n s)) as [Hle | Hgt].
    + rewrite adj_at_app_l by lia. apply Iadj. lia.
    + rewrite adj_at_app_repeat_r by lia. split; [constructor |].
      intros v. cbn [In]. split; [tauto |]. intros H. specialize (Irng u v H). lia.
Qed.

Lemma g_es_remove_filter s u v : g_inv s -> In (u, v) (g_es s) ->
  filter ltp (set_remove (v, u) (set_remove (u, v) (g_es s))) =
  set_remove (Z.min u v, Z.max u v) (filter ltp (g_es s)).
Proof.
  intros I H. destruct (gi_range s I u v H) as [_ [_ Hne]].
  unfold set_remove. rewrite !filter_filter'. apply filter_ext'.
  intros [x y]. unfold pair_eqb, ltp. cbn [fst snd]. lia.
Qed.

Lemma g_remove_edge_ok s u v : g_inv s ->
  g_inv (fst (g_remove_edge s u v)) /\
  g_abs (fst (g_remove_edge s u v)) = fst (a_remove KSimple (g_abs s) u v) /\
  snd (g_remove_edge s u v) = Ok.
Proof.
  intros I. unfold g_remove_edge, a_remove.
  destruct (set_mem (u, v) (g_es s)) eqn:M; cbn [negb].
  2:{ apply set_mem_nIn in M. cbn [fst snd]. split; [auto | split; [| reflexivity]].
      unfold g_abs. cbn [a_n a_r a_E a_norm]. f_equal. symmetry. apply set_remove_absent.
      intros H. apply M. apply g_has_norm; auto. }
  apply set_mem_In in M.
  destruct (gi_range s I u v M) as [Hu [Hv Hne]].
  pose proof (gi_sym s I u v M) as M'.
  pose proof (gi_len s I) as Ilen.
  pose proof (gi_adj s I) as Iadj.
  assert (M1 : set_mem (v, u) (set_remove (u, v) (g_es s)) = true).
  { apply set_mem_In. apply set_remove_In. split; auto. intros H; inversion H; lia. }
  rewrite M1. cbn [negb].
  rewrite py_pos_inrange by lia.
  destruct (Iadj u) as [Hsu Hiu]; [lia |].
  destruct (remove_first_In v (adj_at (g_adj s) u)) as [lu Hlu]; [apply Hiu; auto |].
  unfold adj_at in Hlu at 1. rewrite Hlu.
  rewrite set_nth_length. rewrite py_pos_inrange by lia.
  set (adj1 := set_nth (g_adj s) (Z.to_nat u) lu).
  assert (G1 : forall x, 0 <= x <= g_n s -> adj_at adj1 x = if x =? u then lu else adj_at (g_adj s) x).
  { intros x Hx. subst adj1. apply adj_at_set_nth; lia. }
  assert (P1 : PW (fun x => 0 <= x <= g_n s) (adj_at adj1)
                  (fun x y => In (x, y) (g_es s) /\ ~ (x = u /\ y = v))).
  { apply (PW_remove _ (adj_at (g_adj s)) (fun x y => In (x, y) (g_es s)) u v lu); auto; [lia | intros; tauto]. }
  destruct (P1 v) as [Hsv Hiv]; [lia |].
  destruct (remove_first_In u (adj_at adj1 v)) as [lv Hlv].
  { apply Hiv. split; auto. lia. }
  unfold adj_at in Hlv at 1. rewrite Hlv. cbn [fst snd].
  split; [| split; [| reflexivity]].
  - destruct I as [In_ _ Ind Irng Isym Im _].
    constructor; cbn [g_n g_m g_adj g_es]; auto.
    + rewrite set_nth_length. subst adj1. rewrite set_nth_length. exact Ilen.
    + apply set_remove_NoDup, set_remove_NoDup; auto.
    + intros x y H. apply set_remove_In in H. destruct H as [H _]. apply set_remove_In in H. destruct H as [H _]. auto.
    + intros x y H. apply set_remove_In in H. destruct H as [H H2]. apply set_remove_In in H. destruct H as [H H1].
      apply set_remove_In. split; [apply set_remove_In; split; auto |].
      * intros E; inversion E; subst. apply H2; reflexivity.
      * intros E; inversion E; subst. apply H1; reflexivity.
    + rewrite g_es_remove_filter; auto; [| constructor; auto].
      rewrite set_remove_length; [lia | apply NoDup_filter'; auto |].
      apply g_has_norm; auto. constructor; auto.
    + apply (PW_remove _ (adj_at adj1) (fun x y => In (x, y) (g_es s) /\ ~ (x = u /\ y = v)) v u lv); auto.
      * lia.
      * intros x Hx. apply adj_at_set_nth; try lia. subst adj1. rewrite set_nth_length. lia.
      * intros a b. rewrite !set_remove_In. split.
        -- intros [[H H1] H2]. split; [split; auto |].
           ++ intros [E1 E2]; subst. apply H1; reflexivity.
           ++ intros [E1 E2]; subst. apply H2; reflexivity.
        -- intros [[H H1] H2]. split; [split; auto |].
           ++ intros E; inversion E; subst. apply H1; auto.
           ++ intros E; inversion E; subst. apply H2; auto.
  - unfold g_abs. cbn [g_n g_es a_n a_r a_E a_norm]. f_equal. apply g_es_remove_filter; auto.
Qed.

Lemma g_step_ok s o : g_inv s ->
  g_inv (fst (g_step s o)) /\
  g_abs (fst (g_step s o)) = fst (a_step KSimple (g_abs s) o) /\
  snd (g_step s o) = snd (a_step KSimple (g_abs s) o).
Proof.
  intros I. destruct o as [u v | u v | k | l]; cbn [g_step a_step].
  - destruct (g_add_edge_ok s u v I) as [H1 [H2 [H3 _]]]. auto.
  - destruct (g_remove_edge_ok s u v I) as [H1 [H2 H3]]. auto.
  - destruct (g_raise_ok s k I) as [H1 [H2 [H3 _]]]. auto.
  - apply (add_from_refines g_inv g_abs KSimple g_add_edge); auto.
    intros s0 u v I0. destruct (g_add_edge_ok s0 u v I0) as [H1 [H2 [H3 _]]]. auto.
Qed.

(* a call that does not return normally raises ValueError and, unless it is add_edges_from,
   leaves the object untouched *)
Lemma g_step_outcome s o : g_inv s -> snd (g_step s o) = Ok \/ snd (g_step s o) = ValueError.
Proof.
  intros I. destruct o as [u v | u v | k | l]; cbn [g_step].
  - destruct (g_add_edge_ok s u v I) as [_ [_ [_ [H | H]]]]; [auto | rewrite H; auto].
  - destruct (g_remove_edge_ok s u v I) as [_ [_ H]]. auto.
  - destruct (g_raise_ok s k I) as [_ [_ [_ [H | H]]]]; [auto | rewrite H; auto].
  - revert s I. induction l as [| [u v] r IH]; intros s I; cbn [add_from]; [auto |].
    destruct (g_add_edge_ok s u v I) as [I' [_ [_ [H | H]]]].
    + destruct (g_add_edge s u v) as [s' o]. cbn [fst snd] in *. subst o. apply IH; auto.
    + rewrite H. auto.
Qed.

(* a call that does not return normally raises ValueError and, unless it is add_edges_from,
   leaves the object untouched *)
Lemma g_step_error s o : g_inv s -> snd (g_step s o) <> Ok ->
  snd (g_step s o) = ValueError /\ ((forall l, o <> AddEdgesFrom l) -> fst (g_step s o) = s).
Proof.
  intros I Hne. split; [destruct (g_step_outcome s o I); congruence |].
  intros Hno. destruct o as [u v | u v | k | l]; cbn [g_step] in *.
  - destruct (g_add_edge_ok s u v I) as [_ [_ [_ [H | H]]]]; [congruence | rewrite H; reflexivity].
  - destruct (g_remove_edge_ok s u v I) as [_ [_ H]]. congruence.
  - destruct (g_raise_ok s k I) as [_ [_ [_ [H | H]]]]; [congruence | rewrite H; reflexivity].
  - exfalso. apply (Hno l). reflexivity.
Qed.

(* add_edges_from = the add_edge calls in order up to the first refused edge, which is refused
   without touching what the earlier edges built *)
Lemma g_add_from_refused s l1 u v l2 : g_inv s ->
  snd (add_from g_add_edge s l1) = Ok ->
  g_valid (fst (add_from g_add_edge s l1)) u v = false ->
  add_from g_add_edge s (l1 ++ (u, v) :: l2) = (fst (add_from g_add_edge s l1), ValueError).
Proof.
  intros I H1 Hv. rewrite add_from_app by auto. cbn [add_from].
  unfold g_add_edge at 1. rewrite Hv. reflexivity.
Qed.

Lemma g_add_from_all_valid s l : g_inv s ->
  snd (add_from g_add_edge s l) = Ok ->
  fst (add_from g_add_edge s l) = g_run s (map (fun e => AddEdge (fst e) (snd e)) l).
Proof.
  revert s. induction l as [| [u v] r IH]; intros s I H; [reflexivity |].
  cbn [add_from map fst snd] in *. unfold g_run. cbn [fold_left g_step].
  destruct (g_add_edge_ok s u v I) as [I' _].
  destruct (g_add_edge s u v) as [s' o]. destruct o; cbn [fst snd] in *; try discriminate.
  apply IH; auto.
Qed.

(* lifted to every op sequence *)
Lemma g_run_ok ops : forall s, g_inv s ->
  g_inv (g_run s ops) /\ g_abs (g_run s ops) = a_run KSimple (g_abs s) ops /\
  outcomes g_step s ops = outcomes (a_step KSimple) (g_abs s) ops.
Proof.
  induction ops as [| o r IH]; intros s I; [cbn; auto |].
  destruct (g_step_ok s o I) as [H1 [H2 H3]].
  destruct (IH (fst (g_step s o)) H1) as [J1 [J2 J3]].
  split; [exact J1 | split].
  - change (g_abs (g_run (fst (g_step s o)) r) = a_run KSimple (fst (a_step KSimple (g_abs s) o)) r).
    rewrite <- H2. exact J2.
  - cbn [outcomes]. rewrite H3, J3, H2. reflexivity.
Qed.

(* ---- views of a Graph as functions of the abstraction *)
Lemma g_view_count s : g_inv s -> g_m s = Z.of_nat (length (a_E (g_abs s))).
Proof. intros I. apply (gi_m s I). Qed.

Lemma g_view_has s u v : g_inv s -> g_has_edge s u v = a_has KSimple (g_abs s) u v.
Proof.
  intros I. unfold g_has_edge, a_has. cbn [a_norm g_abs a_E].
  apply bool_eq_iff. rewrite !set_mem_In. apply g_has_norm; auto.
Qed.

Lemma g_has_sym s u v : g_inv s -> g_has_edge s u v = g_has_edge s v u.
Proof.
  intros I. unfold g_has_edge. apply bool_eq_iff. rewrite !set_mem_In.
  split; apply (gi_sym s I).
Qed.

Lemma g_view_edges s : g_inv s ->
  lex_sorted (g_edges s) /\ forall e, In e (g_edges s) <-> In e (a_E (g_abs s)).
Proof.
  intros I. pose proof (gi_adj s I) as Iadj. unfold g_edges. split.
  - apply (lex_sorted_flat_map (fun u => skipn (bisect_right (adj_at (g_adj s) u) u) (adj_at (g_adj s) u))).
    + apply zrange_sorted.
    + intros u Hu. apply zrange_In in Hu. apply skipn_sorted. apply Iadj. lia.
  - intros [x y]. cbn [g_abs a_E]. rewrite filter_In, ltp_pair.
    rewrite (in_flat_map_pair (fun u => skipn (bisect_right (adj_at (g_adj s) u) u) (adj_at (g_adj s) u))).
    rewrite zrange_In. split.
    + intros [Hx Hy]. destruct (Iadj x) as [Hs Hin]; [lia |].
      apply skipn_bisect in Hy; auto. destruct Hy as [Hy Hlt]. apply Hin in Hy. split; [auto | lia].
    + intros [Hin Hlt]. destruct (gi_range s I x y Hin) as [Hx [Hy _]].
      split; [lia |]. destruct (Iadj x) as [Hs Hi]; [lia |].
      apply skipn_bisect; auto. split; [apply Hi; auto | lia].
Qed.

Lemma g_view_neighbors s u : g_inv s ->
  match g_neighbors s u with
  | None => ~ (1 <= u <= g_n s)
  | Some l => 1 <= u <= g_n s /\ sorted l /\ (forall v, In v l <-> a_has KSimple (g_abs s) u v = true) /\
              g_degree s u = Some (Z.of_nat (length l))
  end.
Proof.
  intros I. unfold g_neighbors, g_degree. destruct (between 1 u (g_n s)) eqn:B.
  - assert (Hu : 1 <= u <= g_n s) by (unfold between in B; lia).
    destruct (gi_adj s I u) as [Hs Hin]; [lia |].
    split; [auto | split; [auto | split; [| reflexivity]]].
    intros v. rewrite Hin. rewrite <- g_view_has by auto. unfold g_has_edge. symmetry. apply set_mem_In.
  - unfold between in B. lia.
Qed.

Lemma g_degree_none s u : g_degree s u = None <-> g_neighbors s u = None.
Proof. unfold g_degree, g_neighbors. destruct (between 1 u (g_n s)); split; intros; congruence. Qed.

(* duplicates are no-ops, in either orientation *)
Lemma g_duplicate_noop s u v : g_inv s -> g_has_edge s u v = true \/ g_has_edge s v u = true ->
  g_valid s u v = true -> g_add_edge s u v = (s, Ok).
Proof.
  intros I H V. assert (H' : g_has_edge s u v = true) by (destruct H; [auto | rewrite g_has_sym; auto]).
  unfold g_add_edge. rewrite V. cbn [negb]. unfold g_has_edge in H'. rewrite H'. reflexivity.
Qed.

(* two reachable states with the same vertex count and the same edge set show the same views *)
Lemma map_ext_in' {A B} (f g : A -> B) l : (forall x, In x l -> f x = g x) -> map f l = map g l.
Proof. intros H. induction l as [| a t IH]; [reflexivity |]. cbn [map]. rewrite H, IH; auto; [intros; apply H; right; auto | left; auto]. Qed.

Lemma g_views_determined s1 s2 : g_inv s1 -> g_inv s2 -> g_n s1 = g_n s2 ->
  (forall e, In e (a_E (g_abs s1)) <-> In e (a_E (g_abs s2))) -> g_view s1 = g_view s2.
Proof.
  intros I1 I2 Hn HE.
  assert (Hhas : forall u v, g_has_edge s1 u v = g_has_edge s2 u v).
  { intros u v. rewrite !g_view_has by auto. unfold a_has. apply bool_eq_iff. rewrite !set_mem_In. apply HE. }
  assert (Hnb : forall u, g_neighbors s1 u = g_neighbors s2 u).
  { intros u. pose proof (g_view_neighbors s1 u I1) as N1. pose proof (g_view_neighbors s2 u I2) as N2.
    destruct (g_neighbors s1 u) as [l1 |], (g_neighbors s2 u) as [l2 |]; try reflexivity; try (exfalso; lia).
    destruct N1 as [_ [S1 [M1 _]]]. destruct N2 as [_ [S2 [M2 _]]]. f_equal.
    apply sorted_unique; auto. intros v. rewrite M1, M2. rewrite <- !g_view_has by auto. rewrite Hhas. tauto.
  }
  assert (Hdg : forall u, g_degree s1 u = g_degree s2 u).
  { intros u. pose proof (g_view_neighbors s1 u I1) as N1. pose proof (g_view_neighbors s2 u I2) as N2.
    specialize (Hnb u).
    destruct (g_neighbors s1 u) as [l1 |] eqn:E1, (g_neighbors s2 u) as [l2 |] eqn:E2; try discriminate.
    - destruct N1 as [_ [_ [_ D1]]]. destruct N2 as [_ [_ [_ D2]]]. rewrite D1, D2. congruence.
    - apply g_degree_none in E1. apply g_degree_none in E2. congruence. }
  unfold g_view. rewrite <- Hn.
  f_equal.
  - rewrite (gi_m s1 I1), (gi_m s2 I2). f_equal.
    apply NoDup_same_length; try (apply NoDup_filter'; apply gi_nodup; auto). exact HE.
  - destruct (g_view_edges s1 I1) as [S1 M1]. destruct (g_view_edges s2 I2) as [S2 M2].
    apply lex_sorted_unique; auto. intros e. rewrite M1, M2. apply HE.
  - apply map_ext_in'. intros u _. apply map_ext_in'. intros v _. apply Hhas.
  - apply map_ext_in'. intros u _. apply Hnb.
  - apply map_ext_in'. intros u _. apply Hdg.
Qed.

(* ====================================================================== 6. class DirectedGraph *)
Definition d_abs (s : dstate) : agraph := mkA (d_n s) 0 (d_es s).

Record d_inv (s : dstate) : Prop := mk_d_inv {
  di_n : 0 <= d_n s;
  di_lenp : length (d_pred s) = S (Z.to_nat (d_n s));
  di_lens : length (d_succ s) = S (Z.to_nat (d_n s));
  di_nodup : NoDup (d_es s);
  di_range : forall u v, In (u, v) (d_es s) -> 1 <= u <= d_n s /\ 1 <= v <= d_n s;
  di_m : d_m s = Z.of_nat (length (d_es s));
  di_dag : d_dag s = forallb ltp (d_es s);
  di_succ : PW (fun u => 0 <= u <= d_n s) (adj_at (d_succ s)) (fun u v => In (u, v) (d_es s));
  di_pred : PW (fun u => 0 <= u <= d_n s) (adj_at (d_pred s)) (fun v u => In (u, v) (d_es s))
}.

Lemma d_init_ok n s : d_init n = Some s -> d_inv s /\ d_abs s = a_init KDirected n 0.
Proof.
  unfold d_init. destruct (n <? 0) eqn:E; [discriminate |]. intros H; inversion H; subst s; clear H.
  split; [| reflexivity]. constructor; cbn [d_n d_m d_es d_dag d_pred d_succ].
  - lia.
  - rewrite repeat_length. lia.
  - rewrite repeat_length. lia.
  - constructor.
  - intros u v [].
  - reflexivity.
  - reflexivity.
  - intros u Hu. rewrite adj_at_repeat. split; [constructor | cbn; tauto].
  - intros u Hu. rewrite adj_at_repeat. split; [constructor | cbn; tauto].
Qed.

Lemma d_init_refused n : d_init n = None <-> n < 0.
Proof. unfold d_init. destruct (n <? 0) eqn:E; split; intros H; try discriminate; try reflexivity; lia. Qed.

Lemma d_add_edge_ok s u v : d_inv s ->
  d_inv (fst (d_add_edge s u v)) /\
  d_abs (fst (d_add_edge s u v)) = fst (a_add KDirected (d_abs s) u v) /\
  snd (d_add_edge s u v) = snd (a_add KDirected (d_abs s) u v) /\
  (snd (d_add_edge s u v) = Ok \/ d_add_edge s u v = (s, ValueError)).
Proof.
  intros I. unfold d_add_edge, a_add.
  change (a_valid KDirected (d_abs s) u v) with (d_valid s u v).
  destruct (d_valid s u v) eqn:V; cbn [negb]; [| cbn [fst snd]; auto].
  assert (Hr : 1 <= u <= d_n s /\ 1 <= v <= d_n s) by (unfold d_valid, between in V; lia).
  cbn [a_norm d_abs a_E a_n a_r]. unfold set_add.
  destruct (set_mem (u, v) (d_es s)) eqn:M; [cbn [fst snd]; auto |].
  apply set_mem_nIn in M.
  destruct I as [In_ Ilp Ils Ind Irng Im Idag Isucc Ipred].
  rewrite py_pos_inrange by lia. rewrite py_pos_inrange by lia. cbn [fst snd].
  split; [| auto].
  constructor; cbn [d_n d_m d_es d_dag d_pred d_succ]; auto.
  - rewrite set_nth_length; auto.
  - rewrite set_nth_length; auto.
  - constructor; auto.
  - intros x y [H | H]; [inversion H; subst; lia | auto].
  - cbn [length]. lia.
  - cbn [forallb]. rewrite ltp_pair, <- Idag. destruct (u >=? v) eqn:E1; destruct (u <? v) eqn:E2; try reflexivity; lia.
  - apply (PW_insert _ (adj_at (d_succ s)) (fun x y => In (x, y) (d_es s)) u v); auto.
    + intros x Hx. apply adj_at_set_nth; lia.
    + intros a b. cbn [In]. split.
      * intros [H | H]; [inversion H; subst; right; split; reflexivity | left; auto].
      * intros [H | [H1 H2]]; [right; auto | subst; left; reflexivity].
  - apply (PW_insert _ (adj_at (d_pred s)) (fun y x => In (x, y) (d_es s)) v u); auto.
    + intros x Hx. apply adj_at_set_nth; lia.
    + intros a b. cbn [In]. split.
      * intros [H | H]; [inversion H; subst; right; split; reflexivity | left; auto].
      * intros [H | [H1 H2]]; [right; auto | subst; left; reflexivity].
Qed.

Lemma d_step_ok s o : d_inv s ->
  d_inv (fst (d_step s o)) /\
  d_abs (fst (d_step s o)) = fst (a_step KDirected (d_abs s) o) /\
  snd (d_step s o) = snd (a_step KDirected (d_abs s) o).
Proof.
  intros I. destruct o as [u v | u v | k | l]; cbn [d_step a_step a_remove a_raise fst snd]; auto.
  - destruct (d_add_edge_ok s u v I) as [H1 [H2 [H3 _]]]. auto.
  - apply (add_from_refines d_inv d_abs KDirected d_add_edge); auto.
    intros s0 u v I0. destruct (d_add_edge_ok s0 u v I0) as [H1 [H2 [H3 _]]]. auto.
Qed.

(* the only outcomes: Ok, ValueError, and NoMethod exactly for the two methods the class lacks *)
Lemma d_step_outcome s o : d_inv s ->
  match o with
  | RemoveEdge _ _ | RaiseN _ => d_step s o = (s, NoMethod)
  | _ => snd (d_step s o) = Ok \/ snd (d_step s o) = ValueError
  end.
Proof.
  intros I. destruct o as [u v | u v | k | l]; cbn [d_step]; auto.
  - destruct (d_add_edge_ok s u v I) as [_ [_ [_ [H | H]]]]; [auto | rewrite H; auto].
  - revert s I. induction l as [| [u v] r IH]; intros s I; cbn [add_from]; [auto |].
    destruct (d_add_edge_ok s u v I) as [I' [_ [_ [H | H]]]].
    + destruct (d_add_edge s u v) as [s' o]. cbn [fst snd] in *. subst o. apply IH; auto.
    + rewrite H. auto.
Qed.

Lemma d_step_error s o : d_inv s -> snd (d_step s o) <> Ok ->
  (forall l, o <> AddEdgesFrom l) -> fst (d_step s o) = s.
Proof.
  intros I Hne Hno. destruct o as [u v | u v | k | l]; cbn [d_step fst] in *; auto.
  - destruct (d_add_edge_ok s u v I) as [_ [_ [_ [H | H]]]]; [congruence | rewrite H; reflexivity].
  - exfalso. apply (Hno l). reflexivity.
Qed.

Lemma d_add_from_refused s l1 u v l2 : d_inv s ->
  snd (add_from d_add_edge s l1) = Ok ->
  d_valid (fst (add_from d_add_edge s l1)) u v = false ->
  add_from d_add_edge s (l1 ++ (u, v) :: l2) = (fst (add_from d_add_edge s l1), ValueError).
Proof.
  intros I H1 Hv. rewrite add_from_app by auto. cbn [add_from].
  unfold d_add_edge at 1. rewrite Hv. reflexivity.
Qed.

Lemma d_run_ok ops : forall s, d_inv s ->
  d_inv (d_run s ops) /\ d_abs (d_run s ops) = a_run KDirected (d_abs s) ops /\
  outcomes d_step s ops = outcomes (a_step KDirected) (d_abs s) ops.
Proof.
  induction ops as [| o r IH]; intros s I; [cbn; auto |].
  destruct (d_step_ok s o I) as [H1 [H2 H3]].
  destruct (IH (fst (d_step s o)) H1) as [J1 [J2 J3]].
  split; [exact J1 | split].
  - change (d_abs (d_run (fst (d_step s o)) r) = a_run KDirected (fst (a_step KDirected (d_abs s) o)) r).
    rewrite <- H2. exact J2.
  - cbn [outcomes]. rewrite H3, J3, H2. reflexivity.
Qed.

(* ---- views *)
Lemma d_view_count s : d_inv s -> d_m s = Z.of_nat (length (a_E (d_abs s))).
Proof. intros I. apply (di_m s I). Qed.

Lemma d_view_has s u v : d_has_edge s u v = a_has KDirected (d_abs s) u v.
Proof. reflexivity. Qed.

Lemma d_view_dag s : d_inv s -> d_dag s = forallb ltp (a_E (d_abs s)).
Proof. intros I. apply (di_dag s I). Qed.

Lemma d_view_dag_iff s : d_inv s -> (d_dag s = true <-> forall u v, In (u, v) (a_E (d_abs s)) -> u < v).
Proof.
  intros I. rewrite d_view_dag by auto. rewrite forallb_forall. split.
  - intros H u v Hin. specialize (H _ Hin). rewrite ltp_pair in H. lia.
  - intros H [u v] Hin. rewrite ltp_pair. specialize (H u v Hin). lia.
Qed.

Lemma d_view_edges s : d_inv s ->
  lex_sorted (d_edges s) /\ forall e, In e (d_edges s) <-> In e (a_E (d_abs s)).
Proof.
  intros I. pose proof (di_succ s I) as Isucc. unfold d_edges. split.
  - apply (lex_sorted_flat_map (adj_at (d_succ s))).
    + apply zrange_sorted.
    + intros u Hu. apply zrange_In in Hu. apply Isucc. lia.
  - intros [x y]. cbn [d_abs a_E]. rewrite (in_flat_map_pair (adj_at (d_succ s))), zrange_In. split.
    + intros [Hx Hy]. apply (Isucc x); [lia | auto].
    + intros Hin. destruct (di_range s I x y Hin) as [Hx Hy]. split; [lia |]. apply (Isucc x); [lia | auto].
Qed.

Definition swap (e : Z * Z) : Z * Z := (snd e, fst e).

Lemma map_swap_flat_map (f : Z -> list Z) us :
  map swap (flat_map (fun d => map (fun s => (s, d)) (f d)) us) = flat_map (fun d => map (pair d) (f d)) us.
Proof.
  induction us as [| d us IH]; [reflexivity |]. cbn [flat_map]. rewrite map_app, map_map, IH. reflexivity.
Qed.

(* the second listing is sorted by (destination, source) *)
Lemma d_view_edges_by_dest s : d_inv s ->
  lex_sorted (map swap (d_edges_by_dest s)) /\ forall e, In e (d_edges_by_dest s) <-> In e (a_E (d_abs s)).
Proof.
  intros I. pose proof (di_pred s I) as Ipred. unfold d_edges_by_dest. split.
  - rewrite map_swap_flat_map. apply (lex_sorted_flat_map (adj_at (d_pred s))).
    + apply zrange_sorted.
    + intros u Hu. apply zrange_In in Hu. apply Ipred. lia.
  - intros [x y]. cbn [d_abs a_E]. rewrite in_flat_map. split.
    + intros [d [Hd H]]. apply in_map_iff in H. destruct H as [x' [E Hin]]. inversion E; subst.
      apply zrange_In in Hd. apply (Ipred y); [lia | auto].
    + intros Hin. destruct (di_range s I x y Hin) as [Hx Hy]. exists y. split; [apply zrange_In; lia |].
      apply in_map_iff. exists x. split; auto. apply (Ipred y); [lia | auto].
Qed.

Lemma d_view_successors s u : d_inv s ->
  match d_successors s u with
  | None => ~ (1 <= u <= d_n s)
  | Some l => 1 <= u <= d_n s /\ sorted l /\ (forall v, In v l <-> a_has KDirected (d_abs s) u v = true) /\
              d_out_degree s u = Some (Z.of_nat (length l))
  end.
Proof.
  intros I. unfold d_successors, d_out_degree. destruct (between 1 u (d_n s)) eqn:B.
  - assert (Hu : 1 <= u <= d_n s) by (unfold between in B; lia).
    destruct (di_succ s I u) as [Hs Hin]; [lia |].
    split; [auto | split; [auto | split; [| reflexivity]]].
    intros v. rewrite Hin. unfold a_has. cbn [a_norm d_abs a_E]. symmetry. apply set_mem_In.
  - unfold between in B. lia.
Qed.

Lemma d_view_predecessors s v : d_inv s ->
  match d_predecessors s v with
  | None => ~ (1 <= v <= d_n s)
  | Some l => 1 <= v <= d_n s /\ sorted l /\ (forall u, In u l <-> a_has KDirected (d_abs s) u v = true) /\
              d_in_degree s v = Some (Z.of_nat (length l))
  end.
Proof.
  intros I. unfold d_predecessors, d_in_degree. destruct (between 1 v (d_n s)) eqn:B.
  - assert (Hv : 1 <= v <= d_n s) by (unfold between in B; lia).
    destruct (di_pred s I v) as [Hs Hin]; [lia |].
    split; [auto | split; [auto | split; [| reflexivity]]].
    intros u. rewrite Hin. unfold a_has. cbn [a_norm d_abs a_E]. symmetry. apply set_mem_In.
  - unfold between in B. lia.
Qed.

Lemma d_duplicate_noop s u v : d_has_edge s u v = true -> d_valid s u v = true -> d_add_edge s u v = (s, Ok).
Proof. intros H V. unfold d_add_edge. rewrite V. cbn [negb]. unfold d_has_edge in H. rewrite H. reflexivity. Qed.

Lemma forallb_same_set {A} (f : A -> bool) l1 l2 : (forall x, In x l1 <-> In x l2) -> forallb f l1 = forallb f l2.
Proof.
  intros H. apply bool_eq_iff. rewrite !forallb_forall. split; intros G x Hx; apply G; apply H; auto.
Qed.

Lemma d_views_determined s1 s2 : d_inv s1 -> d_inv s2 -> d_n s1 = d_n s2 ->
  (forall e, In e (a_E (d_abs s1)) <-> In e (a_E (d_abs s2))) -> d_view s1 = d_view s2.
Proof.
  intros I1 I2 Hn HE.
  assert (Hhas : forall u v, a_has KDirected (d_abs s1) u v = a_has KDirected (d_abs s2) u v).
  { intros u v. unfold a_has. apply bool_eq_iff. rewrite !set_mem_In. apply HE. }
  assert (Hsu : forall u, d_successors s1 u = d_successors s2 u /\ d_out_degree s1 u = d_out_degree s2 u).
  { intros u. pose proof (d_view_successors s1 u I1) as N1. pose proof (d_view_successors s2 u I2) as N2.
    unfold d_out_degree in *. unfold d_successors in *. rewrite <- Hn in *.
    destruct (between 1 u (d_n s1)); [| auto].
    destruct N1 as [_ [S1 [M1 _]]]. destruct N2 as [_ [S2 [M2 _]]].
    assert (E : adj_at (d_succ s1) u = adj_at (d_succ s2) u).
    { apply sorted_unique; auto. intros v. rewrite M1, M2, Hhas. tauto. }
    rewrite E. auto. }
  assert (Hpr : forall u, d_predecessors s1 u = d_predecessors s2 u /\ d_in_degree s1 u = d_in_degree s2 u).
  { intros u. pose proof (d_view_predecessors s1 u I1) as N1. pose proof (d_view_predecessors s2 u I2) as N2.
    unfold d_in_degree in *. unfold d_predecessors in *. rewrite <- Hn in *.
    destruct (between 1 u (d_n s1)); [| auto].
    destruct N1 as [_ [S1 [M1 _]]]. destruct N2 as [_ [S2 [M2 _]]].
    assert (E : adj_at (d_pred s1) u = adj_at (d_pred s2) u).
    { apply sorted_unique; auto. intros v. rewrite M1, M2, Hhas. tauto. }
    rewrite E. auto. }
  unfold d_view. rewrite <- Hn.
  f_equal.
  - rewrite (di_m s1 I1), (di_m s2 I2). f_equal.
    apply NoDup_same_length; try (apply di_nodup; auto). exact HE.
  - destruct (d_view_edges s1 I1) as [S1 M1]. destruct (d_view_edges s2 I2) as [S2 M2].
    apply lex_sorted_unique; auto. intros e. rewrite M1, M2. apply HE.
  - destruct (d_view_edges_by_dest s1 I1) as [S1 M1]. destruct (d_view_edges_by_dest s2 I2) as [S2 M2].
    assert (E : map swap (d_edges_by_dest s1) = map swap (d_edges_by_dest s2)).
    { apply lex_sorted_unique; auto. intros e. rewrite !in_map_iff. split; intros [x [Hx Hin]]; exists x; split; auto.
      - apply M2. apply HE. apply M1. auto.
      - apply M1. apply HE. apply M2. auto. }
    apply (f_equal (map swap)) in E. rewrite !map_map in E.
    rewrite (map_ext_in' (fun x => swap (swap x)) (fun x => x)) in E by (intros [a b] _; reflexivity).
    rewrite (map_ext_in' (fun x => swap (swap x)) (fun x => x)) in E by (intros [a b] _; reflexivity).
    rewrite !map_id in E. exact E.
  - apply map_ext_in'. intros u _. apply map_ext_in'. intros v _. apply Hhas.
  - apply map_ext_in'. intros u _. apply Hsu.
  - apply map_ext_in'. intros u _. apply Hpr.
  - apply map_ext_in'. intros u _. apply Hsu.
  - apply map_ext_in'. intros u _. apply Hpr.
  - rewrite (di_dag s1 I1), (di_dag s2 I2). apply forallb_same_set. exact HE.
Qed.

(* ====================================================================== 7. class BipartiteGraph *)
Definition b_abs (s : bstate) : agraph := mkA (b_l s) (b_r s) (b_es s).

Record b_inv (s : bstate) : Prop := mk_b_inv {
  bi_l : 0 <= b_l s;
  bi_r : 0 <= b_r s;
  bi_nodup : NoDup (b_es s);
  bi_range : forall u v, In (u, v) (b_es s) -> 1 <= u <= b_l s /\ 1 <= v <= b_r s;
  bi_ladj : PW (fun _ => True) (fun u => dict_get u (b_ladj s)) (fun u v => In (u, v) (b_es s));
  bi_radj : PW (fun _ => True) (fun v => dict_get v (b_radj s)) (fun v u => In (u, v) (b_es s))
}.

Lemma b_init_ok l r s : b_init l r = Some s -> b_inv s /\ b_abs s = a_init KBipartite l r.
Proof.
  unfold b_init. destruct ((l <? 0) || (r <? 0)) eqn:E; [discriminate |]. intros H; inversion H; subst s; clear H.
  split; [| reflexivity]. constructor; cbn [b_l b_r b_ladj b_radj b_es].
  - lia.
  - lia.
  - constructor.
  - intros u v [].
  - intros u _. cbn. split; [constructor | tauto].
  - intros u _. cbn. split; [constructor | tauto].
Qed.

Lemma b_init_refused l r : b_init l r = None <-> l < 0 \/ r < 0.
Proof. unfold b_init. destruct ((l <? 0) || (r <? 0)) eqn:E; split; intros H; try discriminate; try reflexivity; lia. Qed.

Lemma b_add_edge_ok s u v : b_inv s ->
  b_inv (fst (b_add_edge s u v)) /\
  b_abs (fst (b_add_edge s u v)) = fst (a_add KBipartite (b_abs s) u v) /\
  snd (b_add_edge s u v) = snd (a_add KBipartite (b_abs s) u v) /\
  (snd (b_add_edge s u v) = Ok \/ b_add_edge s u v = (s, ValueError)).
Proof.
  intros I. unfold b_add_edge, a_add.
  change (a_valid KBipartite (b_abs s) u v) with (b_valid s u v).
  destruct (b_valid s u v) eqn:V; cbn [negb]; [| cbn [fst snd]; auto].
  assert (Hr : 1 <= u <= b_l s /\ 1 <= v <= b_r s) by (unfold b_valid, between in V; lia).
  cbn [a_norm b_abs a_E a_n a_r]. unfold set_add.
  destruct (set_mem (u, v) (b_es s)) eqn:M; [cbn [fst snd]; auto |].
  apply set_mem_nIn in M.
  destruct I as [Il Ir Ind Irng Iladj Iradj].
  cbv zeta. cbn [fst snd]. split; [| auto].
  constructor; cbn [b_l b_r b_ladj b_radj b_es]; auto.
  - constructor; auto.
  - intros x y [H | H]; [inversion H; subst; lia | auto].
  - apply (PW_insert _ (fun x => dict_get x (b_ladj s)) (fun x y => In (x, y) (b_es s)) u v); auto.
    + intros x _. rewrite dict_get_set, !dict_get_default. reflexivity.
    + intros a b. cbn [In]. split.
      * intros [H | H]; [inversion H; subst; right; split; reflexivity | left; auto].
      * intros [H | [H1 H2]]; [right; auto | subst; left; reflexivity].
  - apply (PW_insert _ (fun x => dict_get x (b_radj s)) (fun y x => In (x, y) (b_es s)) v u); auto.
    + intros x _. rewrite dict_get_set, !dict_get_default. reflexivity.
    + intros a b. cbn [In]. split.
      * intros [H | H]; [inversion H; subst; right; split; reflexivity | left; auto].
      * intros [H | [H1 H2]]; [right; auto | subst; left; reflexivity].
Qed.

Lemma b_step_ok s o : b_inv s ->
  b_inv (fst (b_step s o)) /\
  b_abs (fst (b_step s o)) = fst (a_step KBipartite (b_abs s) o) /\
  snd (b_step s o) = snd (a_step KBipartite (b_abs s) o).
Proof.
  intros I. destruct o as [u v | u v | k | l]; cbn [b_step a_step a_remove a_raise fst snd]; auto.
  - destruct (b_add_edge_ok s u v I) as [H1 [H2 [H3 _]]]. auto.
  - apply (add_from_refines b_inv b_abs KBipartite b_add_edge); auto.
    intros s0 u v I0. destruct (b_add_edge_ok s0 u v I0) as [H1 [H2 [H3 _]]]. auto.
Qed.

Lemma b_step_outcome s o : b_inv s ->
  match o with
  | RemoveEdge _ _ | RaiseN _ => b_step s o = (s, NoMethod)
  | _ => snd (b_step s o) = Ok \/ snd (b_step s o) = ValueError
  end.
Proof.
  intros I. destruct o as [u v | u v | k | l]; cbn [b_step]; auto.
  - destruct (b_add_edge_ok s u v I) as [_ [_ [_ [H | H]]]]; [auto | rewrite H; auto].
  - revert s I. induction l as [| [u v] r IH]; intros s I; cbn [add_from]; [auto |].
    destruct (b_add_edge_ok s u v I) as [I' [_ [_ [H | H]]]].
    + destruct (b_add_edge s u v) as [s' o]. cbn [fst snd] in *. subst o. apply IH; auto.
    + rewrite H. auto.
Qed.

Lemma b_step_error s o : b_inv s -> snd (b_step s o) <> Ok ->
  (forall l, o <> AddEdgesFrom l) -> fst (b_step s o) = s.
Proof.
  intros I Hne Hno. destruct o as [u v | u v | k | l]; cbn [b_step fst] in *; auto.
  - destruct (b_add_edge_ok s u v I) as [_ [_ [_ [H | H]]]]; [congruence | rewrite H; reflexivity].
  - exfalso. apply (Hno l). reflexivity.
Qed.

Lemma b_add_from_refused s l1 u v l2 : b_inv s ->
  snd (add_from b_add_edge s l1) = Ok ->
  b_valid (fst (add_from b_add_edge s l1)) u v = false ->
  add_from b_add_edge s (l1 ++ (u, v) :: l2) = (fst (add_from b_add_edge s l1), ValueError).
Proof.
  intros I H1 Hv. rewrite add_from_app by auto. cbn [add_from].
  unfold b_add_edge at 1. rewrite Hv. reflexivity.
Qed.

Lemma b_run_ok ops : forall s, b_inv s ->
  b_inv (b_run s ops) /\ b_abs (b_run s ops) = a_run KBipartite (b_abs s) ops /\
  outcomes b_step s ops = outcomes (a_step KBipartite) (b_abs s) ops.
Proof.
  induction ops as [| o r IH]; intros s I; [cbn; auto |].
  destruct (b_step_ok s o I) as [H1 [H2 H3]].
  destruct (IH (fst (b_step s o)) H1) as [J1 [J2 J3]].
  split; [exact J1 | split].
  - change (b_abs (b_run (fst (b_step s o)) r) = a_run KBipartite (fst (a_step KBipartite (b_abs s) o)) r).
    rewrite <- H2. exact J2.
  - cbn [outcomes]. rewrite H3, J3, H2. reflexivity.
Qed.

(* ---- views *)
Lemma b_view_count s : b_number_of_edges s = Z.of_nat (length (a_E (b_abs s))).
Proof. reflexivity. Qed.

Lemma b_view_order s : b_l s + b_r s = a_n (b_abs s) + a_r (b_abs s).
Proof. reflexivity. Qed.

Lemma b_view_has s u v : b_has_edge s u v = a_has KBipartite (b_abs s) u v.
Proof. reflexivity. Qed.

Lemma flat_map_ext_in' {A B} (f g : A -> list B) l : (forall x, In x l -> f x = g x) -> flat_map f l = flat_map g l.
Proof.
  intros H. induction l as [| a t IH]; [reflexivity |]. cbn [flat_map].
  rewrite H by (left; auto). rewrite IH; auto. intros x Hx. apply H. right; auto.
Qed.

Lemma b_edges_eq s : b_edges s = flat_map (fun u => map (pair u) (dict_get u (b_ladj s))) (zrange 1 (b_l s + 1)).
Proof.
  unfold b_edges. apply flat_map_ext_in'. intros u Hu. apply zrange_In in Hu.
  unfold b_right_neighbors. replace (between 1 u (b_l s)) with true; [reflexivity |].
  unfold between. lia.
Qed.

Lemma b_view_edges s : b_inv s ->
  lex_sorted (b_edges s) /\ forall e, In e (b_edges s) <-> In e (a_E (b_abs s)).
Proof.
  intros I. pose proof (bi_ladj s I) as Il. rewrite b_edges_eq. split.
  - apply (lex_sorted_flat_map (fun u => dict_get u (b_ladj s))).
    + apply zrange_sorted.
    + intros u _. apply (Il u); trivial.
  - intros [x y]. cbn [b_abs a_E]. rewrite (in_flat_map_pair (fun u => dict_get u (b_ladj s))), zrange_In. split.
    + intros [Hx Hy]. apply (Il x); auto.
    + intros Hin. destruct (bi_range s I x y Hin) as [Hx Hy]. split; [lia |]. apply (Il x); auto.
Qed.

Lemma b_view_right_neighbors s u : b_inv s ->
  match b_right_neighbors s u with
  | None => ~ (1 <= u <= b_l s)
  | Some l => 1 <= u <= b_l s /\ sorted l /\ (forall v, In v l <-> a_has KBipartite (b_abs s) u v = true) /\
              b_right_degree s u = Some (Z.of_nat (length l))
  end.
Proof.
  intros I. unfold b_right_degree, b_right_neighbors. destruct (between 1 u (b_l s)) eqn:B.
  - assert (Hu : 1 <= u <= b_l s) by (unfold between in B; lia).
    destruct (bi_ladj s I u) as [Hs Hin]; [trivial |].
    split; [auto | split; [auto | split; [| reflexivity]]].
    intros v. rewrite Hin. unfold a_has. cbn [a_norm b_abs a_E]. symmetry. apply set_mem_In.
  - unfold between in B. lia.
Qed.

Lemma b_view_left_neighbors s v : b_inv s ->
  match b_left_neighbors s v with
  | None => ~ (1 <= v <= b_r s)
  | Some l => 1 <= v <= b_r s /\ sorted l /\ (forall u, In u l <-> a_has KBipartite (b_abs s) u v = true) /\
              b_left_degree s v = Some (Z.of_nat (length l))
  end.
Proof.
  intros I. unfold b_left_degree, b_left_neighbors. destruct (between 1 v (b_r s)) eqn:B.
  - assert (Hv : 1 <= v <= b_r s) by (unfold between in B; lia).
    destruct (bi_radj s I v) as [Hs Hin]; [trivial |].
    split; [auto | split; [auto | split; [| reflexivity]]].
    intros u. rewrite Hin. unfold a_has. cbn [a_norm b_abs a_E]. symmetry. apply set_mem_In.
  - unfold between in B. lia.
Qed.

Lemma b_duplicate_noop s u v : b_has_edge s u v = true -> b_valid s u v = true -> b_add_edge s u v = (s, Ok).
Proof. intros H V. unfold b_add_edge. rewrite V. cbn [negb]. unfold b_has_edge in H. rewrite H. reflexivity. Qed.

Lemma b_views_determined s1 s2 : b_inv s1 -> b_inv s2 -> b_l s1 = b_l s2 -> b_r s1 = b_r s2 ->
  (forall e, In e (a_E (b_abs s1)) <-> In e (a_E (b_abs s2))) -> b_view s1 = b_view s2.
Proof.
  intros I1 I2 Hl Hr HE.
  assert (Hhas : forall u v, a_has KBipartite (b_abs s1) u v = a_has KBipartite (b_abs s2) u v).
  { intros u v. unfold a_has. apply bool_eq_iff. rewrite !set_mem_In. apply HE. }
  assert (Hrn : forall u, b_right_neighbors s1 u = b_right_neighbors s2 u).
  { intros u. pose proof (b_view_right_neighbors s1 u I1) as N1. pose proof (b_view_right_neighbors s2 u I2) as N2.
    unfold b_right_neighbors in *. rewrite <- Hl in *.
    destruct (between 1 u (b_l s1)); [| auto].
    destruct N1 as [_ [S1 [M1 _]]]. destruct N2 as [_ [S2 [M2 _]]]. f_equal.
    apply sorted_unique; auto. intros v. rewrite M1, M2, Hhas. tauto. }
  assert (Hln : forall u, b_left_neighbors s1 u = b_left_neighbors s2 u).
  { intros u. pose proof (b_view_left_neighbors s1 u I1) as N1. pose proof (b_view_left_neighbors s2 u I2) as N2.
    unfold b_left_neighbors in *. rewrite <- Hr in *.
    destruct (between 1 u (b_r s1)); [| auto].
    destruct N1 as [_ [S1 [M1 _]]]. destruct N2 as [_ [S2 [M2 _]]]. f_equal.
    apply sorted_unique; auto. intros v. rewrite M1, M2, Hhas. tauto. }
  unfold b_view. rewrite <- Hl, <- Hr.
  f_equal.
  - unfold b_number_of_edges. f_equal.
    apply NoDup_same_length; try (apply bi_nodup; auto). exact HE.
  - destruct (b_view_edges s1 I1) as [S1 M1]. destruct (b_view_edges s2 I2) as [S2 M2].
    apply lex_sorted_unique; auto. intros e. rewrite M1, M2. apply HE.
  - apply map_ext_in'. intros u _. apply map_ext_in'. intros v _. apply Hhas.
  - apply map_ext_in'. intros u _. apply Hrn.
  - apply map_ext_in'. intros u _. apply Hln.
  - apply map_ext_in'. intros u _. unfold b_right_degree. rewrite Hrn. reflexivity.
  - apply map_ext_in'. intros u _. unfold b_left_degree. rewrite Hln. reflexivity.
Qed.

(* ====================================================================== 8. networkx round trip on the model
   to_networkx hands (vertex count, edge listing) to networkx; from_networkx builds a fresh
   object and feeds it networkx's edge list, which may come in any order and, for undirected
   graphs, in either orientation.  Every view of the rebuilt object equals the original's. *)
Lemma a_add_n k A u v : a_n (fst (a_add k A u v)) = a_n A /\ a_r (fst (a_add k A u v)) = a_r A.
Proof. unfold a_add. destruct (a_valid k A u v); cbn; auto. Qed.

Lemma a_add_valid_E k A u v : a_valid k A u v = true ->
  snd (a_add k A u v) = Ok /\ a_E (fst (a_add k A u v)) = set_add (a_norm k u v) (a_E A).
Proof. intros H. unfold a_add. rewrite H. cbn. auto. Qed.

Lemma norm_eq_cases x y u v : (Z.min x y, Z.max x y) = (Z.min u v, Z.max u v) <-> (x, y) = (u, v) \/ (x, y) = (v, u).
Proof.
  split.
  - intros H. inversion H. destruct (Z_lt_le_dec x y), (Z_lt_le_dec u v); [left | right | right | left]; f_equal; lia.
  - intros [H | H]; inversion H; subst; f_equal; lia.
Qed.

Lemma g_add_edge_valid s u v : g_inv s -> g_valid s u v = true ->
  let s' := fst (g_add_edge s u v) in
  g_inv s' /\ snd (g_add_edge s u v) = Ok /\ g_n s' = g_n s /\
  forall x y, In (x, y) (g_es s') <-> In (x, y) (g_es s) \/ (x, y) = (u, v) \/ (x, y) = (v, u).
Proof.
  intros I V s'. destruct (g_add_edge_ok s u v I) as [I' [HA [HO _]]].
  destruct (a_add_valid_E KSimple (g_abs s) u v V) as [E1 E2].
  split; [auto | split; [congruence | split]].
  - subst s'. change (g_n (fst (g_add_edge s u v))) with (a_n (g_abs (fst (g_add_edge s u v)))).
    rewrite HA. apply a_add_n.
  - intros x y. subst s'. rewrite (g_has_norm _ x y I').
    change (filter ltp (g_es (fst (g_add_edge s u v)))) with (a_E (g_abs (fst (g_add_edge s u v)))).
    rewrite HA, E2, set_add_In. cbn [a_norm]. rewrite norm_eq_cases.
    change (a_E (g_abs s)) with (filter ltp (g_es s)). rewrite <- (g_has_norm s x y I). tauto.
Qed.

Lemma g_add_from_valid l : forall s, g_inv s -> (forall u v, In (u, v) l -> g_valid s u v = true) ->
  let s' := fst (add_from g_add_edge s l) in
  g_inv s' /\ snd (add_from g_add_edge s l) = Ok /\ g_n s' = g_n s /\
  forall x y, In (x, y) (g_es s') <-> In (x, y) (g_es s) \/ In (x, y) l \/ In (y, x) l.
Proof.
  induction l as [| [u v] r IH]; intros s I Hv; cbn [add_from].
  - cbn [fst snd In]. split; [auto | split; [auto | split; [auto | intros; tauto]]].
  - destruct (g_add_edge_valid s u v I) as [I' [HO [Hn HE]]]; [apply Hv; left; auto |].
    destruct (g_add_edge s u v) as [s1 o]. cbn [fst snd] in *. subst o.
    destruct (IH s1 I') as [J1 [J2 [J3 J4]]].
    { intros a b Hab. unfold g_valid. rewrite Hn. apply (Hv a b). right; auto. }
    split; [auto | split; [auto | split; [congruence |]]].
    intros x y. rewrite J4, HE. cbn [In]. split.
    + intros [[H | [H | H]] | [H | H]]; auto; inversion H; subst; auto.
    + intros [H | [[H | H] | [H | H]]]; auto; inversion H; subst; auto.
Qed.

Lemma g_roundtrip_general s l : g_inv s ->
  (forall u v, In (u, v) (g_es s) <-> In (u, v) l \/ In (v, u) l) ->
  exists s', g_from_nx (g_n s) l = Some (s', Ok) /\ g_inv s' /\ g_view s' = g_view s.
Proof.
  intros I Hl. unfold g_from_nx.
  destruct (g_init (g_n s)) as [s0 |] eqn:E0.
  2:{ apply g_init_refused in E0. pose proof (gi_n s I). lia. }
  destruct (g_init_ok _ _ E0) as [I0 A0].
  assert (N0 : g_n s0 = g_n s) by (change (g_n s0) with (a_n (g_abs s0)); rewrite A0; reflexivity).
  assert (E00 : g_es s0 = []).
  { unfold g_init in E0. destruct (g_n s <? 0); inversion E0. reflexivity. }
  destruct (g_add_from_valid l s0 I0) as [J1 [J2 [J3 J4]]].
  { intros u v Huv. assert (H : In (u, v) (g_es s)) by (apply Hl; auto).
    destruct (gi_range s I u v H) as [Hu [Hv Hne]]. unfold g_valid, between. rewrite N0. lia. }
  exists (fst (add_from g_add_edge s0 l)). split; [| split; auto].
  - destruct (add_from g_add_edge s0 l) as [s' o]. cbn [fst snd] in *. subst o. reflexivity.
  - apply g_views_determined; auto; [congruence |].
    intros [x y]. cbn [g_abs a_E]. rewrite !filter_In. rewrite J4, E00, Hl. cbn [In]. tauto.
Qed.

(* the edge list to_networkx actually hands over *)
Lemma g_roundtrip s : g_inv s ->
  exists s', g_from_nx (fst (g_to_nx s)) (snd (g_to_nx s)) = Some (s', Ok) /\ g_inv s' /\ g_view s' = g_view s.
Proof.
  intros I. cbn [g_to_nx fst snd]. apply g_roundtrip_general; auto.
  intros u v. destruct (g_view_edges s I) as [_ HE]. rewrite !HE. cbn [g_abs a_E]. rewrite !filter_In, !ltp_pair.
  split.
  - intros H. destruct (gi_range s I u v H) as [_ [_ Hne]].
    destruct (Z_lt_le_dec u v); [left; split; [auto | lia] | right; split; [apply (gi_sym s I); auto | lia]].
  - intros [[H _] | [H _]]; [auto | apply (gi_sym s I); auto].
Qed.

Lemma d_add_edge_valid s u v : d_inv s -> d_valid s u v = true ->
  let s' := fst (d_add_edge s u v) in
  d_inv s' /\ snd (d_add_edge s u v) = Ok /\ d_n s' = d_n s /\
  forall e, In e (d_es s') <-> e = (u, v) \/ In e (d_es s).
Proof.
  intros I V s'. destruct (d_add_edge_ok s u v I) as [I' [HA [HO _]]].
  destruct (a_add_valid_E KDirected (d_abs s) u v V) as [E1 E2].
  split; [auto | split; [congruence | split]].
  - subst s'. change (d_n (fst (d_add_edge s u v))) with (a_n (d_abs (fst (d_add_edge s u v)))).
    rewrite HA. apply a_add_n.
  - intros e. subst s'. change (d_es (fst (d_add_edge s u v))) with (a_E (d_abs (fst (d_add_edge s u v)))).
    rewrite HA, E2, set_add_In. reflexivity.
Qed.

Lemma d_add_from_valid l : forall s, d_inv s -> (forall u v, In (u, v) l -> d_valid s u v = true) ->
  let s' := fst (add_from d_add_edge s l) in
  d_inv s' /\ snd (add_from d_add_edge s l) = Ok /\ d_n s' = d_n s /\
  forall e, In e (d_es s') <-> In e (d_es s) \/ In e l.
Proof.
  induction l as [| [u v] r IH]; intros s I Hv; cbn [add_from].
  - cbn [fst snd In]. split; [auto | split; [auto | split; [auto | intros; tauto]]].
  - destruct (d_add_edge_valid s u v I) as [I' [HO [Hn HE]]]; [apply Hv; left; auto |].
    destruct (d_add_edge s u v) as [s1 o]. cbn [fst snd] in *. subst o.
    destruct (IH s1 I') as [J1 [J2 [J3 J4]]].
    { intros a b Hab. unfold d_valid. rewrite Hn. apply (Hv a b). right; auto. }
    split; [auto | split; [auto | split; [congruence |]]].
    intros e. rewrite J4, HE. cbn [In]. split.
    + intros [[H | H] | H]; auto.
    + intros [H | [H | H]]; auto.
Qed.

Lemma d_roundtrip_general s l : d_inv s -> (forall e, In e l <-> In e (d_es s)) ->
  exists s', d_from_nx (d_n s) l = Some (s', Ok) /\ d_inv s' /\ d_view s' = d_view s.
Proof.
  intros I Hl. unfold d_from_nx.
  destruct (d_init (d_n s)) as [s0 |] eqn:E0.
  2:{ apply d_init_refused in E0. pose proof (di_n s I). lia. }
  destruct (d_init_ok _ _ E0) as [I0 A0].
  assert (N0 : d_n s0 = d_n s) by (change (d_n s0) with (a_n (d_abs s0)); rewrite A0; reflexivity).
  assert (E00 : d_es s0 = []) by (change (d_es s0) with (a_E (d_abs s0)); rewrite A0; reflexivity).
  destruct (d_add_from_valid l s0 I0) as [J1 [J2 [J3 J4]]].
  { intros u v Huv. apply Hl in Huv. destruct (di_range s I u v Huv) as [Hu Hv].
    unfold d_valid, between. rewrite N0. lia. }
  exists (fst (add_from d_add_edge s0 l)). split; [| split; auto].
  - destruct (add_from d_add_edge s0 l) as [s' o]. cbn [fst snd] in *. subst o. reflexivity.
  - apply d_views_determined; auto; [congruence |].
    intros e. cbn [d_abs a_E]. rewrite J4, E00, Hl. cbn [In]. tauto.
Qed.

Lemma d_roundtrip s : d_inv s ->
  exists s', d_from_nx (fst (d_to_nx s)) (snd (d_to_nx s)) = Some (s', Ok) /\ d_inv s' /\ d_view s' = d_view s.
Proof.
  intros I. cbn [d_to_nx fst snd]. apply d_roundtrip_general; auto.
  intros e. destruct (d_view_edges s I) as [_ HE]. rewrite HE. reflexivity.
Qed.

(* bipartite: left vertices keep their number, right vertex v becomes v + L in networkx *)
Definition nx_wf (L R x y : Z) : Prop :=
  (1 <= x <= L /\ L + 1 <= y <= L + R) \/ (L + 1 <= x <= L + R /\ 1 <= y <= L).

Lemma b_add_edge_valid s u v : b_inv s -> b_valid s u v = true ->
  let s' := fst (b_add_edge s u v) in
  b_inv s' /\ snd (b_add_edge s u v) = Ok /\ b_l s' = b_l s /\ b_r s' = b_r s /\
  forall e, In e (b_es s') <-> e = (u, v) \/ In e (b_es s).
Proof.
  intros I V s'. destruct (b_add_edge_ok s u v I) as [I' [HA [HO _]]].
  destruct (a_add_valid_E KBipartite (b_abs s) u v V) as [E1 E2].
  split; [auto | split; [congruence | split; [| split]]].
  - subst s'. change (b_l (fst (b_add_edge s u v))) with (a_n (b_abs (fst (b_add_edge s u v)))).
    rewrite HA. apply a_add_n.
  - subst s'. change (b_r (fst (b_add_edge s u v))) with (a_r (b_abs (fst (b_add_edge s u v)))).
    rewrite HA. apply a_add_n.
  - intros e. subst s'. change (b_es (fst (b_add_edge s u v))) with (a_E (b_abs (fst (b_add_edge s u v)))).
    rewrite HA, E2, set_add_In. reflexivity.
Qed.

Lemma b_from_nx_edges_ok l : forall s, b_inv s -> (forall x y, In (x, y) l -> nx_wf (b_l s) (b_r s) x y) ->
  let s' := fst (b_from_nx_edges s l) in
  b_inv s' /\ snd (b_from_nx_edges s l) = Ok /\ b_l s' = b_l s /\ b_r s' = b_r s /\
  forall u v, 1 <= u <= b_l s -> 1 <= v <= b_r s ->
    (In (u, v) (b_es s') <-> In (u, v) (b_es s) \/ In (u, v + b_l s) l \/ In (v + b_l s, u) l).
Proof.
  induction l as [| [x y] r IH]; intros s I Hwf; cbn [b_from_nx_edges].
  - cbn [fst snd In]. split; [auto | split; [auto | split; [auto | split; [auto | intros; tauto]]]].
  - assert (Hxy : nx_wf (b_l s) (b_r s) x y) by (apply Hwf; left; auto).
    assert (Hcase : (between 1 x (b_l s) = true /\ between (b_l s + 1) y (b_l s + b_r s) = true /\
                     b_valid s x (y - b_l s) = true) \/
                    (between 1 x (b_l s) = false /\ between (b_l s + 1) y (b_l s + b_r s) = false /\
                     b_valid s y (x - b_l s) = true)).
    { unfold nx_wf in Hxy. unfold b_valid, between. destruct Hxy as [[H1 H2] | [H1 H2]]; [left | right]; lia. }
    destruct Hcase as [[B1 [B2 V]] | [B1 [B2 V]]]; rewrite B1, B2; cbn [negb Bool.eqb].
    + destruct (b_add_edge_valid s x (y - b_l s) I V) as [I' [HO [Hl [Hr HE]]]].
      destruct (b_add_edge s x (y - b_l s)) as [s1 o]. cbn [fst snd] in *. subst o.
      destruct (IH s1 I') as [J1 [J2 [J3 [J4 J5]]]].
      { intros a b Hab. rewrite Hl, Hr. apply Hwf. right; auto. }
      split; [auto | split; [auto | split; [congruence | split; [congruence |]]]].
      intros u v Hu Hv. rewrite J5 by lia. rewrite HE, Hl. cbn [In]. unfold between in B1, B2. split.
      * intros [[H | H] | [H | H]]; auto. inversion H; subst. right; left; left. f_equal. lia.
      * intros [H | [[H | H] | [H | H]]]; auto.
        -- inversion H; subst. left; left. f_equal. lia.
        -- inversion H; subst. exfalso. lia.
    + destruct (b_add_edge_valid s y (x - b_l s) I V) as [I' [HO [Hl [Hr HE]]]].
      destruct (b_add_edge s y (x - b_l s)) as [s1 o]. cbn [fst snd] in *. subst o.
      destruct (IH s1 I') as [J1 [J2 [J3 [J4 J5]]]].
      { intros a b Hab. rewrite Hl, Hr. apply Hwf. right; auto. }
      split; [auto | split; [auto | split; [congruence | split; [congruence |]]]].
      intros u v Hu Hv. rewrite J5 by lia. rewrite HE, Hl. cbn [In].
      unfold nx_wf in Hxy. unfold between in B1, B2. split.
      * intros [[H | H] | [H | H]]; auto. inversion H; subst. right; right; left. f_equal. lia.
      * intros [H | [[H | H] | [H | H]]]; auto.
        -- inversion H; subst. exfalso. lia.
        -- inversion H; subst. left; left. f_equal. lia.
Qed.

Lemma b_roundtrip_general s l : b_inv s ->
  (forall x y, In (x, y) l -> nx_wf (b_l s) (b_r s) x y) ->
  (forall u v, 1 <= u <= b_l s -> 1 <= v <= b_r s ->
     (In (u, v) (b_es s) <-> In (u, v + b_l s) l \/ In (v + b_l s, u) l)) ->
  exists s', b_from_nx (b_l s) (b_r s) l = Some (s', Ok) /\ b_inv s' /\ b_view s' = b_view s.
Proof.
  intros I Hwf Hl. unfold b_from_nx.
  destruct (b_init (b_l s) (b_r s)) as [s0 |] eqn:E0.
  2:{ apply b_init_refused in E0. pose proof (bi_l s I). pose proof (bi_r s I). lia. }
  destruct (b_init_ok _ _ _ E0) as [I0 A0].
  assert (L0 : b_l s0 = b_l s) by (change (b_l s0) with (a_n (b_abs s0)); rewrite A0; reflexivity).
  assert (R0 : b_r s0 = b_r s) by (change (b_r s0) with (a_r (b_abs s0)); rewrite A0; reflexivity).
  assert (E00 : b_es s0 = []) by (change (b_es s0) with (a_E (b_abs s0)); rewrite A0; reflexivity).
  destruct (b_from_nx_edges_ok l s0 I0) as [J1 [J2 [J3 [J4 J5]]]].
  { intros x y Hxy. rewrite L0, R0. auto. }
  exists (fst (b_from_nx_edges s0 l)). split; [| split; auto].
  - destruct (b_from_nx_edges s0 l) as [s' o]. cbn [fst snd] in *. subst o. reflexivity.
  - apply b_views_determined; auto; [congruence | congruence |].
    intros [u v]. cbn [b_abs a_E]. split; intros H.
    + destruct (bi_range _ J1 u v H) as [Hu Hv]. rewrite J3, L0 in Hu. rewrite J4, R0 in Hv.
      apply J5 in H; [| lia | lia]. rewrite E00, L0 in H. cbn [In] in H. apply Hl; auto. tauto.
    + destruct (bi_range s I u v H) as [Hu Hv]. apply J5; [lia | lia |]. rewrite L0. right. apply Hl; auto.
Qed.

Lemma b_roundtrip s : b_inv s ->
  exists s', b_from_nx (fst (fst (b_to_nx s))) (snd (fst (b_to_nx s))) (snd (b_to_nx s)) = Some (s', Ok) /\
             b_inv s' /\ b_view s' = b_view s.
Proof.
  intros I. cbn [b_to_nx fst snd]. destruct (b_view_edges s I) as [_ HE]. apply b_roundtrip_general; auto.
  - intros x y H. apply in_map_iff in H. destruct H as [[u v] [E H]]. cbn [fst snd] in E. inversion E as [[E1 E2]]. clear E. subst x y.
    apply HE in H. destruct (bi_range s I u v H) as [Hu Hv]. left. lia.
  - intros u v Hu Hv. rewrite !in_map_iff. split.
    + intros H. left. exists (u, v). split; [reflexivity | apply HE; auto].
    + intros [[[a b] [E H]] | [[a b] [E H]]]; cbn [fst snd] in E; inversion E as [[E1 E2]]; clear E.
      * assert (b = v) by lia. subst a b. apply HE; auto.
      * apply HE in H. destruct (bi_range s I _ _ H) as [Ha Hb]. exfalso. lia.
Qed.

(* ====================================================================== 9. statements over every history
   A state is reachable when it is the result of some finite op sequence run on a freshly
   constructed object of some size. *)
Definition g_reach (s : gstate) : Prop := exists n0 s0 ops, g_init n0 = Some s0 /\ s = g_run s0 ops.
Definition d_reach (s : dstate) : Prop := exists n0 s0 ops, d_init n0 = Some s0 /\ s = d_run s0 ops.
Definition b_reach (s : bstate) : Prop := exists l0 r0 s0 ops, b_init l0 r0 = Some s0 /\ s = b_run s0 ops.

Lemma g_reach_inv s : g_reach s -> g_inv s.
Proof. intros [n0 [s0 [ops [H E]]]]. subst s. apply g_run_ok. apply (g_init_ok n0); auto. Qed.
Lemma d_reach_inv s : d_reach s -> d_inv s.
Proof. intros [n0 [s0 [ops [H E]]]]. subst s. apply d_run_ok. apply (d_init_ok n0); auto. Qed.
Lemma b_reach_inv s : b_reach s -> b_inv s.
Proof. intros [l0 [r0 [s0 [ops [H E]]]]]. subst s. apply b_run_ok. apply (b_init_ok l0 r0); auto. Qed.

Lemma g_reach_step s o : g_reach s -> g_reach (fst (g_step s o)).
Proof.
  intros [n0 [s0 [ops [H E]]]]. exists n0, s0, (ops ++ [o]). split; auto.
  subst s. unfold g_run. rewrite fold_left_app. reflexivity.
Qed.
Lemma d_reach_step s o : d_reach s -> d_reach (fst (d_step s o)).
Proof.
  intros [n0 [s0 [ops [H E]]]]. exists n0, s0, (ops ++ [o]). split; auto.
  subst s. unfold d_run. rewrite fold_left_app. reflexivity.
Qed.
Lemma b_reach_step s o : b_reach s -> b_reach (fst (b_step s o)).
Proof.
  intros [l0 [r0 [s0 [ops [H E]]]]]. exists l0, r0, s0, (ops ++ [o]). split; auto.
  subst s. unfold b_run. rewrite fold_left_app. reflexivity.
Qed.

(* 9.1 refinement from the constructor on *)
Theorem g_refinement n0 s0 ops : g_init n0 = Some s0 ->
  g_abs (g_run s0 ops) = a_run KSimple (a_init KSimple n0 0) ops /\
  outcomes g_step s0 ops = outcomes (a_step KSimple) (a_init KSimple n0 0) ops.
Proof.
  intros H. destruct (g_init_ok n0 s0 H) as [I A]. rewrite <- A.
  destruct (g_run_ok ops s0 I) as [_ [H1 H2]]. auto.
Qed.

Theorem d_refinement n0 s0 ops : d_init n0 = Some s0 ->
  d_abs (d_run s0 ops) = a_run KDirected (a_init KDirected n0 0) ops /\
  outcomes d_step s0 ops = outcomes (a_step KDirected) (a_init KDirected n0 0) ops.
Proof.
  intros H. destruct (d_init_ok n0 s0 H) as [I A]. rewrite <- A.
  destruct (d_run_ok ops s0 I) as [_ [H1 H2]]. auto.
Qed.

Theorem b_refinement l0 r0 s0 ops : b_init l0 r0 = Some s0 ->
  b_abs (b_run s0 ops) = a_run KBipartite (a_init KBipartite l0 r0) ops /\
  outcomes b_step s0 ops = outcomes (a_step KBipartite) (a_init KBipartite l0 r0) ops.
Proof.
  intros H. destruct (b_init_ok l0 r0 s0 H) as [I A]. rewrite <- A.
  destruct (b_run_ok ops s0 I) as [_ [H1 H2]]. auto.
Qed.

(* 9.2 outcomes and refusals *)
Theorem g_calls_never_crash s o : g_reach s ->
  (snd (g_step s o) = Ok \/ snd (g_step s o) = ValueError) /\
  (snd (g_step s o) <> Ok -> (forall l, o <> AddEdgesFrom l) -> fst (g_step s o) = s).
Proof.
  intros R. pose proof (g_reach_inv s R) as I. split; [apply g_step_outcome; auto |].
  intros Hne Hno. apply g_step_error; auto.
Qed.

Theorem d_calls_never_crash s o : d_reach s ->
  match o with
  | RemoveEdge _ _ | RaiseN _ => d_step s o = (s, NoMethod)
  | _ => snd (d_step s o) = Ok \/ snd (d_step s o) = ValueError
  end /\
  (snd (d_step s o) <> Ok -> (forall l, o <> AddEdgesFrom l) -> fst (d_step s o) = s).
Proof.
  intros R. pose proof (d_reach_inv s R) as I. split; [apply d_step_outcome; auto |].
  intros Hne Hno. apply d_step_error; auto.
Qed.

Theorem b_calls_never_crash s o : b_reach s ->
  match o with
  | RemoveEdge _ _ | RaiseN _ => b_step s o = (s, NoMethod)
  | _ => snd (b_step s o) = Ok \/ snd (b_step s o) = ValueError
  end /\
  (snd (b_step s o) <> Ok -> (forall l, o <> AddEdgesFrom l) -> fst (b_step s o) = s).
Proof.
  intros R. pose proof (b_reach_inv s R) as I. split; [apply b_step_outcome; auto |].
  intros Hne Hno. apply b_step_error; auto.
Qed.

Theorem g_add_edges_from_stops_clean s l1 u v l2 : g_reach s ->
  snd (add_from g_add_edge s l1) = Ok -> g_valid (fst (add_from g_add_edge s l1)) u v = false ->
  g_step s (AddEdgesFrom (l1 ++ (u, v) :: l2)) = (fst (g_step s (AddEdgesFrom l1)), ValueError).
Proof. intros R. apply g_add_from_refused. apply g_reach_inv; auto. Qed.
Theorem d_add_edges_from_stops_clean s l1 u v l2 : d_reach s ->
  snd (add_from d_add_edge s l1) = Ok -> d_valid (fst (add_from d_add_edge s l1)) u v = false ->
  d_step s (AddEdgesFrom (l1 ++ (u, v) :: l2)) = (fst (d_step s (AddEdgesFrom l1)), ValueError).
Proof. intros R. apply d_add_from_refused. apply d_reach_inv; auto. Qed.
Theorem b_add_edges_from_stops_clean s l1 u v l2 : b_reach s ->
  snd (add_from b_add_edge s l1) = Ok -> b_valid (fst (add_from b_add_edge s l1)) u v = false ->
  b_step s (AddEdgesFrom (l1 ++ (u, v) :: l2)) = (fst (b_step s (AddEdgesFrom l1)), ValueError).
Proof. intros R. apply b_add_from_refused. apply b_reach_inv; auto. Qed.

Theorem g_add_edges_from_is_add_edge_loop s l : g_reach s -> snd (g_step s (AddEdgesFrom l)) = Ok ->
  fst (g_step s (AddEdgesFrom l)) = g_run s (map (fun e => AddEdge (fst e) (snd e)) l).
Proof. intros R. apply g_add_from_all_valid. apply g_reach_inv; auto. Qed.

(* 9.3 every view is the named function of the abstraction *)
Theorem g_views s : g_reach s ->
  let A := g_abs s in
  g_n s = a_n A /\
  g_m s = Z.of_nat (length (a_E A)) /\
  NoDup (a_E A) /\
  (forall u v, g_has_edge s u v = a_has KSimple A u v) /\
  (forall u v, g_has_edge s u v = g_has_edge s v u) /\
  lex_sorted (g_edges s) /\ (forall e, In e (g_edges s) <-> In e (a_E A)) /\
  (forall u, match g_neighbors s u with
             | None => ~ (1 <= u <= a_n A) /\ g_degree s u = None
             | Some l => 1 <= u <= a_n A /\ sorted l /\ (forall v, In v l <-> a_has KSimple A u v = true) /\
                         g_degree s u = Some (Z.of_nat (length l))
             end).
Proof.
  intros R A. pose proof (g_reach_inv s R) as I. subst A.
  split; [reflexivity | split; [apply g_view_count; auto | split; [apply NoDup_filter'; apply gi_nodup; auto |]]].
  split; [intros; apply g_view_has; auto | split; [intros; apply g_has_sym; auto |]].
  destruct (g_view_edges s I) as [S M]. split; [auto | split; [auto |]].
  intros u. pose proof (g_view_neighbors s u I) as N.
  destruct (g_neighbors s u) eqn:E; [exact N | split; [exact N | apply g_degree_none; auto]].
Qed.

Theorem d_views s : d_reach s ->
  let A := d_abs s in
  d_n s = a_n A /\
  d_m s = Z.of_nat (length (a_E A)) /\
  NoDup (a_E A) /\
  (forall u v, d_has_edge s u v = a_has KDirected A u v) /\
  lex_sorted (d_edges s) /\ (forall e, In e (d_edges s) <-> In e (a_E A)) /\
  lex_sorted (map swap (d_edges_by_dest s)) /\ (forall e, In e (d_edges_by_dest s) <-> In e (a_E A)) /\
  (forall u, match d_successors s u with
             | None => ~ (1 <= u <= a_n A)
             | Some l => 1 <= u <= a_n A /\ sorted l /\ (forall v, In v l <-> a_has KDirected A u v = true) /\
                         d_out_degree s u = Some (Z.of_nat (length l))
             end) /\
  (forall v, match d_predecessors s v with
             | None => ~ (1 <= v <= a_n A)
             | Some l => 1 <= v <= a_n A /\ sorted l /\ (forall u, In u l <-> a_has KDirected A u v = true) /\
                         d_in_degree s v = Some (Z.of_nat (length l))
             end) /\
  (d_dag s = true <-> forall u v, In (u, v) (a_E A) -> u < v).
Proof.
  intros R A. pose proof (d_reach_inv s R) as I. subst A.
  split; [reflexivity | split; [apply d_view_count; auto | split; [apply di_nodup; auto |]]].
  split; [intros; apply d_view_has |].
  destruct (d_view_edges s I) as [S M]. split; [auto | split; [auto |]].
  destruct (d_view_edges_by_dest s I) as [S2 M2]. split; [auto | split; [auto |]].
  split; [intros u; apply d_view_successors; auto |].
  split; [intros u; apply d_view_predecessors; auto |].
  apply d_view_dag_iff; auto.
Qed.

Theorem b_views s : b_reach s ->
  let A := b_abs s in
  b_l s = a_n A /\ b_r s = a_r A /\
  b_number_of_edges s = Z.of_nat (length (a_E A)) /\
  NoDup (a_E A) /\
  (forall u v, b_has_edge s u v = a_has KBipartite A u v) /\
  lex_sorted (b_edges s) /\ (forall e, In e (b_edges s) <-> In e (a_E A)) /\
  (forall u, match b_right_neighbors s u with
             | None => ~ (1 <= u <= a_n A)
             | Some l => 1 <= u <= a_n A /\ sorted l /\ (forall v, In v l <-> a_has KBipartite A u v = true) /\
                         b_right_degree s u = Some (Z.of_nat (length l))
             end) /\
  (forall v, match b_left_neighbors s v with
             | None => ~ (1 <= v <= a_r A)
             | Some l => 1 <= v <= a_r A /\ sorted l /\ (forall u, In u l <-> a_has KBipartite A u v = true) /\
                         b_left_degree s v = Some (Z.of_nat (length l))
             end).
Proof.
  intros R A. pose proof (b_reach_inv s R) as I. subst A.
  split; [reflexivity | split; [reflexivity | split; [reflexivity | split; [apply bi_nodup; auto |]]]].
  split; [intros; apply b_view_has |].
  destruct (b_view_edges s I) as [S M]. split; [auto | split; [auto |]].
  split; [intros u; apply b_view_right_neighbors; auto | intros u; apply b_view_left_neighbors; auto].
Qed.

(* the abstract edge set only holds admissible edges, each once *)
Theorem g_abs_wellformed s : g_reach s -> forall u v, In (u, v) (a_E (g_abs s)) -> 1 <= u /\ u < v /\ v <= g_n s.
Proof.
  intros R u v H. pose proof (g_reach_inv s R) as I. cbn [g_abs a_E] in H. apply filter_In in H.
  destruct H as [H L]. rewrite ltp_pair in L. destruct (gi_range s I u v H). lia.
Qed.
Theorem d_abs_wellformed s : d_reach s -> forall u v, In (u, v) (a_E (d_abs s)) -> 1 <= u <= d_n s /\ 1 <= v <= d_n s.
Proof. intros R u v H. apply (di_range s (d_reach_inv s R)); auto. Qed.
Theorem b_abs_wellformed s : b_reach s -> forall u v, In (u, v) (a_E (b_abs s)) -> 1 <= u <= b_l s /\ 1 <= v <= b_r s.
Proof. intros R u v H. apply (bi_range s (b_reach_inv s R)); auto. Qed.

(* 9.4 duplicates *)
Theorem g_duplicate s u v : g_reach s -> g_has_edge s u v = true \/ g_has_edge s v u = true ->
  g_step s (AddEdge u v) = (s, Ok) \/ g_step s (AddEdge u v) = (s, ValueError).
Proof.
  intros R H. pose proof (g_reach_inv s R) as I. cbn [g_step].
  destruct (g_valid s u v) eqn:V; [left; apply g_duplicate_noop; auto |].
  right. unfold g_add_edge. rewrite V. reflexivity.
Qed.
Theorem d_duplicate s u v : d_reach s -> d_has_edge s u v = true -> d_step s (AddEdge u v) = (s, Ok).
Proof.
  intros R H. pose proof (d_reach_inv s R) as I. cbn [d_step]. apply d_duplicate_noop; auto.
  unfold d_has_edge in H. apply set_mem_In in H. destruct (di_range s I u v H).
  unfold d_valid, between. lia.
Qed.
Theorem b_duplicate s u v : b_reach s -> b_has_edge s u v = true -> b_step s (AddEdge u v) = (s, Ok).
Proof.
  intros R H. pose proof (b_reach_inv s R) as I. cbn [b_step]. apply b_duplicate_noop; auto.
  unfold b_has_edge in H. apply set_mem_In in H. destruct (bi_range s I u v H).
  unfold b_valid, between. lia.
Qed.

(* 9.5 the views do not depend on the history, only on vertex count and edge set *)
Theorem g_history_independent s1 s2 : g_reach s1 -> g_reach s2 -> g_n s1 = g_n s2 ->
  (forall e, In e (a_E (g_abs s1)) <-> In e (a_E (g_abs s2))) -> g_view s1 = g_view s2.
Proof. intros R1 R2. apply g_views_determined; apply g_reach_inv; auto. Qed.
Theorem d_history_independent s1 s2 : d_reach s1 -> d_reach s2 -> d_n s1 = d_n s2 ->
  (forall e, In e (a_E (d_abs s1)) <-> In e (a_E (d_abs s2))) -> d_view s1 = d_view s2.
Proof. intros R1 R2. apply d_views_determined; apply d_reach_inv; auto. Qed.
Theorem b_history_independent s1 s2 : b_reach s1 -> b_reach s2 -> b_l s1 = b_l s2 -> b_r s1 = b_r s2 ->
  (forall e, In e (a_E (b_abs s1)) <-> In e (a_E (b_abs s2))) -> b_view s1 = b_view s2.
Proof. intros R1 R2. apply b_views_determined; apply b_reach_inv; auto. Qed.

(* 9.6 networkx *)
Theorem g_networkx_roundtrip s : g_reach s ->
  (forall l, (forall u v, In (u, v) (g_es s) <-> In (u, v) l \/ In (v, u) l) ->
     exists s', g_from_nx (g_n s) l = Some (s', Ok) /\ g_view s' = g_view s) /\
  exists s', g_from_nx (fst (g_to_nx s)) (snd (g_to_nx s)) = Some (s', Ok) /\ g_view s' = g_view s.
Proof.
  intros R. pose proof (g_reach_inv s R) as I. split.
  - intros l H. destruct (g_roundtrip_general s l I H) as [s' [H1 [_ H2]]]. eauto.
  - destruct (g_roundtrip s I) as [s' [H1 [_ H2]]]. eauto.
Qed.
Theorem d_networkx_roundtrip s : d_reach s ->
  (forall l, (forall e, In e l <-> In e (d_es s)) ->
     exists s', d_from_nx (d_n s) l = Some (s', Ok) /\ d_view s' = d_view s) /\
  exists s', d_from_nx (fst (d_to_nx s)) (snd (d_to_nx s)) = Some (s', Ok) /\ d_view s' = d_view s.
Proof.
  intros R. pose proof (d_reach_inv s R) as I. split.
  - intros l H. destruct (d_roundtrip_general s l I H) as [s' [H1 [_ H2]]]. eauto.
  - destruct (d_roundtrip s I) as [s' [H1 [_ H2]]]. eauto.
Qed.
Theorem b_networkx_roundtrip s : b_reach s ->
  (forall l, (forall x y, In (x, y) l -> nx_wf (b_l s) (b_r s) x y) ->
     (forall u v, 1 <= u <= b_l s -> 1 <= v <= b_r s ->
        (In (u, v) (b_es s) <-> In (u, v + b_l s) l \/ In (v + b_l s, u) l)) ->
     exists s', b_from_nx (b_l s) (b_r s) l = Some (s', Ok) /\ b_view s' = b_view s) /\
  exists s', b_from_nx (fst (fst (b_to_nx s))) (snd (fst (b_to_nx s))) (snd (b_to_nx s)) = Some (s', Ok) /\
             b_view s' = b_view s.
Proof.
  intros R. pose proof (b_reach_inv s R) as I. split.
  - intros l H1 H2. destruct (b_roundtrip_general s l I H1 H2) as [s' [J1 [_ J2]]]. eauto.
  - destruct (b_roundtrip s I) as [s' [H1 [_ H2]]]. eauto.
Qed.

(* the edge lists handed to networkx are the abstraction's edges (bipartite: right ends shifted by L) *)
Theorem to_nx_edges s : g_reach s -> fst (g_to_nx s) = a_n (g_abs s) /\ forall e, In e (snd (g_to_nx s)) <-> In e (a_E (g_abs s)).
Proof. intros R. split; [reflexivity |]. apply g_view_edges. apply g_reach_inv; auto. Qed.
