(* Fam_coloring_Facts.v — GraphColoringFormula and EvenColoringFormula:
   T1 characterisations, T2 (satisfiable iff a proper k-colouring exists; for the functional
   version the models are in bijection with the proper colourings). *)
From Coq Require Import ZArith List Bool Lia ZifyBool.
From Cnfgen Require Import Sem Comb Linear SemFacts LinearFacts IR IRFacts C02Common C02CommonFacts
  Fam_tseitin Fam_tseitin_Facts Fam_coloring.
Import ListNotations.
Open Scope Z_scope.

(* no edge is monochromatic *)
Definition rel_proper (R : Z -> Z -> bool) (E : list (Z * Z)) (k : Z) : Prop :=
  forall e c, In e E -> 1 <= c <= k -> R (fst e) c = true -> R (snd e) c = true -> False.

Lemma kcolor_edges_sem a n E k : edges_ok n E = true ->
  (irs_hold a (kcolor_edge_clauses E k) = true <-> rel_proper (rel_of a 0 k) E k).
Proof.
  intros Hok. unfold kcolor_edge_clauses, rel_proper, rel_of. rewrite irs_hold_flat_map_iff. split.
  - intros H [u w] c He Hc T1 T2. specialize (H (u, w) He). rewrite irs_hold_map_iff in H.
    specialize (H c (proj2 (In_rng c k) Hc)). cbn [ir_holds fst snd] in *.
    pose proof (edges_ok_in n E u w Hok He).
    apply clause_neg2_true in H; auto; apply mvar_pos; lia.
  - intros H [u w] He. apply irs_hold_map_iff. intros c Hc. apply In_rng in Hc. cbn [ir_holds fst snd].
    pose proof (edges_ok_in n E u w Hok He).
    apply clause_neg2_true; try (apply mvar_pos; lia). intros T1 T2. apply (H (u, w) c); auto.
Qed.
Lemma kcolor_edges_ok n E k : edges_ok n E = true -> irs_ok (kcolor_edge_clauses E k) = true.
Proof.
  intros Hok. apply irs_ok_flat_map. intros [u w] He. apply irs_ok_map. intros c Hc. apply In_rng in Hc.
  pose proof (edges_ok_in n E u w Hok He). cbn [fst snd]. apply ir_ok_clause2; apply mvar_pos; lia.
Qed.

Lemma kcolor_ok n E k fn l : edges_ok n E = true -> kcolor_ir n E k fn = Some l -> irs_ok l = true.
Proof.
  intros Hok. unfold kcolor_ir. destruct (k <? 0); [discriminate|]. intros [= <-].
  rewrite !irs_ok_app_iff. split; [apply um_complete_ok; lia|]. split; [|now apply (kcolor_edges_ok n)].
  destruct fn; [apply um_functional_ok; lia|reflexivity].
Qed.

(* T1, relational form: every vertex has a colour (exactly one when functional), no edge is monochromatic *)
Theorem kcolor_rel a n E k fn l : edges_ok n E = true -> kcolor_ir n E k fn = Some l ->
  (irs_hold a l = true <->
   rel_total (rel_of a 0 k) n k /\ (fn = true -> rel_functional (rel_of a 0 k) n k) /\ rel_proper (rel_of a 0 k) E k).
Proof.
  intros Hok. unfold kcolor_ir. destruct (k <? 0); [discriminate|]. intros [= <-].
  rewrite !irs_hold_app_iff, um_complete_sem, (kcolor_edges_sem a n) by (assumption || lia).
  destruct fn.
  - rewrite um_functional_sem by lia. tauto.
  - rewrite irs_hold_nil. intuition discriminate.
Qed.

Lemma proper_fun R phi n E k : edges_ok n E = true -> graph_of R phi n k ->
  (rel_proper R E k <-> forall e, In e E -> phi (fst e) <> phi (snd e)).
Proof.
  intros Hok G. unfold rel_proper. split.
  - intros H [u w] He Eq. cbn [fst snd] in Eq. pose proof (edges_ok_in n E u w Hok He).
    destruct (G u ltac:(lia)) as [Ru Gu]. destruct (G w ltac:(lia)) as [Rw Gw].
    apply (H (u, w) (phi u) He Ru); cbn [fst snd]; [now apply Gu | apply Gw; [lia|congruence]].
  - intros H [u w] c He Hc T1 T2. cbn [fst snd] in *. pose proof (edges_ok_in n E u w Hok He).
    destruct (G u ltac:(lia)) as [Ru Gu]. destruct (G w ltac:(lia)) as [Rw Gw].
    apply Gu in T1; auto. apply Gw in T2; auto. apply (H (u, w) He). cbn [fst snd]. congruence.
Qed.

(* T1, functional version: the true variables are the graph of a proper colouring *)
Theorem kcolor_functional_char a n E k l : edges_ok n E = true -> kcolor_ir n E k true = Some l ->
  (irs_hold a l = true <-> exists phi, graph_of (rel_of a 0 k) phi n k /\ proper_coloring n E k phi).
Proof.
  intros Hok Hl. rewrite (kcolor_rel a n E k true l Hok Hl). unfold proper_coloring. split.
  - intros [Ht [Hf Hp]]. specialize (Hf eq_refl). exists (dec_map a 0 k).
    assert (G := dec_map_graph a 0 k n Ht Hf). split; [exact G|]. split; [intros v Hv; apply (G v Hv)|].
    now apply (proper_fun _ _ n E k Hok G).
  - intros [phi [G [Hr Hp]]]. split; [eapply graph_of_total; eauto|]. split; [intros _; eapply graph_of_functional; eauto|].
    now apply (proper_fun _ _ n E k Hok G).
Qed.

(* first colour of a vertex under a total relation *)
Lemma dec_map_total a off m n : rel_total (rel_of a off m) n m ->
  forall i, 1 <= i <= n -> 1 <= dec_map a off m i <= m /\ rel_of a off m i (dec_map a off m i) = true.
Proof.
  intros Ht i Hi. unfold dec_map. destruct (Ht i Hi) as [j0 [Hj0 T0]].
  destruct (find (fun j => a (mvar off m i j)) (rng m)) as [j1|] eqn:E.
  - apply find_some in E as [Hj1 T1]. apply In_rng in Hj1. now split.
  - exfalso. pose proof (find_none _ _ E j0 (proj2 (In_rng j0 m) Hj0)) as Hn. cbn beta in Hn.
    unfold rel_of in T0. congruence.
Qed.

(* T2: satisfiable iff a proper k-colouring exists (with or without the functional clauses) *)
Theorem kcolor_sat_iff n E k fn l : edges_ok n E = true -> kcolor_ir n E k fn = Some l ->
  ((exists a, irs_hold a l = true) <-> exists phi, proper_coloring n E k phi).
Proof.
  intros Hok Hl. split.
  - intros [a H]. apply (kcolor_rel a n E k fn l Hok Hl) in H as [Ht [_ Hp]].
    exists (dec_map a 0 k). split.
    + intros v Hv. apply (dec_map_total a 0 k n Ht v Hv).
    + intros [u w] He Eq. cbn [fst snd] in Eq. pose proof (edges_ok_in n E u w Hok He).
      destruct (dec_map_total a 0 k n Ht u ltac:(lia)) as [Ru Tu]. destruct (dec_map_total a 0 k n Ht w ltac:(lia)) as [Rw Tw].
      apply (Hp (u, w) (dec_map a 0 k u) He Ru); cbn [fst snd]; [exact Tu|]. rewrite Eq. exact Tw.
  - intros [phi [Hr Hp]]. exists (enc_map 0 k phi). apply (kcolor_rel _ n E k fn l Hok Hl).
    assert (G : graph_of (rel_of (enc_map 0 k phi) 0 k) phi n k) by (apply enc_map_graph; [lia|exact Hr]).
    split; [eapply graph_of_total; eauto|]. split; [intros _; eapply graph_of_functional; eauto|].
    now apply (proper_fun _ _ n E k Hok G).
Qed.

(* model count of the functional version: models <-> proper colourings *)
Theorem kcolor_bijection n E k l : 0 <= n -> edges_ok n E = true -> kcolor_ir n E k true = Some l ->
  (forall a, irs_hold a l = true -> proper_coloring n E k (dec_map a 0 k)) /\
  (forall phi, proper_coloring n E k phi -> irs_hold (enc_map 0 k phi) l = true) /\
  (forall phi, proper_coloring n E k phi -> forall v, 1 <= v <= n -> dec_map (enc_map 0 k phi) 0 k v = phi v) /\
  (forall a, irs_hold a l = true -> forall x, 1 <= x <= kcolor_numvar n k -> enc_map 0 k (dec_map a 0 k) x = a x).
Proof.
  intros Hn Hok Hl.
  assert (Hdec : forall a, irs_hold a l = true ->
            graph_of (rel_of a 0 k) (dec_map a 0 k) n k /\ proper_coloring n E k (dec_map a 0 k)).
  { intros a H. apply (kcolor_rel a n E k true l Hok Hl) in H as [Ht [Hf Hp]]. specialize (Hf eq_refl).
    assert (G := dec_map_graph a 0 k n Ht Hf). split; [exact G|]. split; [intros v Hv; apply (G v Hv)|].
    now apply (proper_fun _ _ n E k Hok G). }
  assert (Henc : forall phi, proper_coloring n E k phi -> irs_hold (enc_map 0 k phi) l = true).
  { intros phi HP. apply (kcolor_functional_char _ n E k l Hok Hl). exists phi. split; [|exact HP].
    apply enc_map_graph; [lia|apply HP]. }
  split; [|split; [|split]].
  - intros a H. now apply Hdec in H.
  - exact Henc.
  - intros phi HP v Hv. destruct (Hdec _ (Henc phi HP)) as [G _].
    assert (G' : graph_of (rel_of (enc_map 0 k phi) 0 k) phi n k) by (apply enc_map_graph; [lia|apply HP]).
    apply (graph_of_unique _ _ _ _ _ G G' v Hv).
  - intros a H x Hx. destruct (Hdec a H) as [G HP]. unfold kcolor_numvar in Hx.
    apply (graph_of_same_vars _ _ 0 n k (dec_map a 0 k)); try lia; [|exact G].
    apply enc_map_graph; [lia|apply HP].
Qed.

(* ---------- EvenColoringFormula ---------- *)
Lemma ec_ok n E l : ec_ir n E = Some l -> irs_ok l = true.
Proof.
  unfold ec_ir. destruct (forallb _ _); [|discriminate]. intros [= <-]. apply irs_ok_map. intros v _.
  unfold ir_ok. cbn [ir_lits]. apply incident_ok.
Qed.

(* the generator raises exactly when some vertex has odd degree *)
Lemma ec_defined_iff n E : (exists l, ec_ir n E = Some l) <-> forall v, 1 <= v <= n -> Z.even (degree E v) = true.
Proof.
  unfold ec_ir. destruct (forallb (fun v => Z.even (degree E v)) (rng n)) eqn:F.
  - rewrite forallb_forall in F. split; [|intros _; eauto]. intros _ v Hv. apply F. now apply In_rng.
  - split; [intros [l Hl]; discriminate|]. intros H. exfalso.
    assert (forallb (fun v => Z.even (degree E v)) (rng n) = true); [|congruence].
    apply forallb_forall. intros v Hv. apply H. now apply In_rng.
Qed.

(* T1: at every vertex exactly half of the incident edges are chosen *)
Theorem ec_char a n E l : ec_ir n E = Some l ->
  (irs_hold a l = true <-> forall v, 1 <= v <= n -> 2 * count_true a (incident E v) = degree E v).
Proof.
  unfold ec_ir. destruct (forallb (fun v => Z.even (degree E v)) (rng n)) eqn:F; [|discriminate]. intros [= <-].
  rewrite forallb_forall in F. rewrite irs_hold_map_iff. split.
  - intros H v Hv. apply In_rng in Hv. specialize (H v Hv). specialize (F v Hv). cbn [ir_holds cop_holds] in H.
    apply Z.even_spec in F as [q Hq]. lia.
  - intros H v Hv. specialize (F v Hv). apply In_rng in Hv. specialize (H v Hv). cbn [ir_holds cop_holds].
    apply Z.even_spec in F as [q Hq]. lia.
Qed.

(* T3 (the documented direction: "satisfiable only on graphs with an even number of edges in each
   connected component"): a union S of components containing an odd number of edges => unsatisfiable *)
Theorem ec_unsat_of_odd_component a n E (S : Z -> bool) l :
  edges_ok n E = true -> closed_under_edges S E -> ec_ir n E = Some l ->
  Z.odd (len (filter (fun e => S (fst e)) E)) = true -> irs_hold a l = false.
Proof.
  intros Hok Hcl Hl Hodd. destruct (irs_hold a l) eqn:Hs; [exfalso|reflexivity].
  rewrite (ec_char a n E l Hl) in Hs.
  pose proof (incidence_count_double a n E S Hok Hcl) as Ha.
  pose proof (incidence_count_double (fun _ => true) n E S Hok Hcl) as Ht.
  rewrite esum_eidx_true in Ht.
  assert (Hd : zsum (fun v => if S v then count_true (fun _ => true) (incident E v) else 0) (rng n) =
               2 * zsum (fun v => if S v then count_true a (incident E v) else 0) (rng n)).
  { rewrite <- zsum_scale. apply zsum_ext_in. intros v Hv. apply In_rng in Hv. destruct (S v); [|reflexivity].
    rewrite count_true_all_pos by (intros i Hi; apply incident_pos in Hi; lia).
    rewrite (Hs v Hv). reflexivity. }
  rewrite Hd, Ha in Ht. rewrite <- Z.negb_even in Hodd. apply negb_true_iff in Hodd.
  assert (Z.even (len (filter (fun e => S (fst e)) E)) = true); [|congruence].
  apply Z.even_spec. exists (esum a S (eidx E)). lia.
Qed.
