(* Property C14 -- placeholder while the facts are being proved *)
From Coq Require Import ZArith List Bool.
From Cnfgen Require Import GText GraphIO.
Import ListNotations.
Open Scope Z_scope.
Example C14_stub_nonvacuous : gt_print_Z 12 = [gt_chr 49; gt_chr 50].
Proof. vm_compute. reflexivity. Qed.
