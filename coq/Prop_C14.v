(* Property C14 -- graph files round-trip in every supported format; bad files are rejected.
   ONLY statements; every proof is `exact <lemma>`.

   Model: coq/GText.v (characters), coq/GraphIO.v (readers, writers, readGraph/writeGraph,
   cnfgen's step after the networkx gml/dot readers).  Graph objects are (kind, name, orders,
   strictly sorted edge list) -- gio_wf says: orders >= 0, edges sorted, in range, (u<v) for
   simple graphs.  A graph with isolated vertices or with ten or more vertices is just a wf graph:
   the theorems quantify over all of them.

   The model follows the CURRENT code of /repo.  The code as found (before the repairs bb735e1, 11330db,
   1f39172, 733c3b6) is modelled by the *_as_found functions; what failed there stays visible:
     D6  kthlist text without size line      -> StopIteration   C14_kth_no_size_line_as_found_refuted
     D7  blank line in a DIMACS graph file   -> IndexError      C14_dimacs_blank_line_as_found_refuted
     D8  bipartite kthlist, left vertex twice-> edges dropped   C14_kthb_sound_as_found_refuted
     D9  dot labels sorted as strings        -> renumbering     C14_dot_labels_as_found_refuted *)
From Coq Require Import ZArith List Bool Ascii.
From Cnfgen Require Import GText GraphIO GTextFacts GraphIOFacts GraphIOMatrix GraphIODimacs GraphIOKth GraphIOSound GraphIOLabels GraphIOBipNx.
Import ListNotations.
Open Scope Z_scope.

(* ---------- characters ---------- *)
(* int(str(z)) == z, for every integer (so vertex numbers with any number of digits survive) *)
Theorem C14_int_of_printed : forall z, gt_int (gt_print_Z z) = Some z.
Proof. exact int_print_Z. Qed.
Print Assumptions C14_int_of_printed.

(* ---------- write then read ---------- *)
(* through writeGraph/readGraph: every graph type (simple, digraph, dag, bipartite), every in-house
   format the type supports, every well-formed graph, every name without a line break: the graph read
   back has the same kind, vertex count, left/right split, numbering and edge list *)
Theorem C14_roundtrip : forall hd t f G text,
  gio_wf G -> type_kind_ok t G -> no_nl (io_name G) ->
  gio_write_graph hd t f G = GOk text ->
  exists nm, gio_read_graph hd t f text = GOk (same_but_name G nm).
Proof. exact graph_roundtrip. Qed.
Print Assumptions C14_roundtrip.

(* per format, with the weakest condition on the name: kthlist also accepts the names its own reader
   produces (they end with a newline): kth_name_ok *)
Theorem C14_roundtrip_kthlist : forall G, gio_wf G -> io_kind G <> GioBipartite -> kth_name_ok (io_name G) ->
  exists nm, gio_read_kth (io_kind G) (gio_write_kth G) = GOk (mkIOG (io_kind G) nm (io_n G) (io_r G) (io_edges G)).
Proof. exact kth_roundtrip. Qed.
Print Assumptions C14_roundtrip_kthlist.

Theorem C14_roundtrip_kthlist_bipartite : forall G, gio_wf G -> io_kind G = GioBipartite -> kth_name_ok (io_name G) ->
  exists nm, gio_read_kthb (gio_write_kthb G) = GOk (mkIOG GioBipartite nm (io_n G) (io_r G) (io_edges G)).
Proof. exact kthb_roundtrip. Qed.
Print Assumptions C14_roundtrip_kthlist_bipartite.

Theorem C14_kth_name_ok : forall name, (no_nl name -> kth_name_ok name) /\ (no_nl name -> kth_name_ok (name ++ [gt_nl])).
Proof. exact (fun name => conj (kth_name_ok_line name) (kth_name_ok_line_nl name)). Qed.
Print Assumptions C14_kth_name_ok.

Theorem C14_roundtrip_dimacs : forall G, gio_wf G -> io_kind G <> GioBipartite -> no_nl (io_name G) ->
  exists nm, gio_read_dimacs (io_kind G) (gio_write_dimacs G) = GOk (mkIOG (io_kind G) nm (io_n G) (io_r G) (io_edges G)).
Proof. exact dimacs_roundtrip. Qed.
Print Assumptions C14_roundtrip_dimacs.

Theorem C14_roundtrip_matrix : forall G, gio_wf G -> io_kind G = GioBipartite ->
  gio_read_matrix (gio_write_matrix G) = GOk (mkIOG GioBipartite [] (io_n G) (io_r G) (io_edges G)).
Proof. exact matrix_roundtrip. Qed.
Print Assumptions C14_roundtrip_matrix.

(* ---------- reader soundness: an accepted text describes the returned graph ---------- *)
(* kthlist, simple and directed: comment/blank lines, ONE size line n, then rows "v : u1 ... uk 0" with
   strictly increasing v; the graph has n vertices and exactly the edges (u_i, v) of the rows *)
Theorem C14_kth_sound : forall k text G, k <> GioBipartite -> gio_read_kth k text = GOk G ->
  exists skips sl rest n,
    gt_lines text = skips ++ sl :: rest /\ Forall kth_skip skips /\ gio_kth_line (-1) sl = GOk (KISize n) /\
    io_kind G = k /\ io_n G = n /\ io_r G = 0 /\ gio_wf G /\
    rows_inc 0 (kth_rows n rest) /\
    (forall a b, In (a, b) (io_edges G) <->
                 exists r u, In r (kth_rows n rest) /\ In u (snd r) /\ (a, b) = edge_norm k (u, fst r)).
Proof. exact kth_sound. Qed.
Print Assumptions C14_kth_sound.

(* kthlist, bipartite: rows "u : v1 ... vk 0" with strictly increasing left vertex u (a repeated or
   out-of-order left vertex is therefore never accepted); the two sides add up to the declared size and
   the edges are exactly the listed pairs (u, v - L).  No extra hypothesis. *)
Theorem C14_kthb_sound : forall text G, gio_read_kthb text = GOk G ->
  exists skips sl rest n,
    gt_lines text = skips ++ sl :: rest /\ Forall kth_skip skips /\ gio_kth_line (-1) sl = GOk (KISize n) /\
    io_kind G = GioBipartite /\ io_n G + io_r G = n /\ gio_wf G /\
    rows_inc 0 (kth_rows n rest) /\
    (forall a b, In (a, b) (io_edges G) <->
                 exists r v, In r (kth_rows n rest) /\ In v (snd r) /\ a = fst r /\ b = v - io_n G).
Proof. exact kthb_sound. Qed.
Print Assumptions C14_kthb_sound.

(* the same for ANY way of cutting the text into "skipped lines, size line, rest": every listed neighbour is an edge *)
Theorem C14_kthb_every_listed_edge : kthb_sound_statement_for gio_read_kthb.
Proof. exact kthb_sound_statement_holds. Qed.
Print Assumptions C14_kthb_every_listed_edge.

(* the files of D8 are refused now *)
Theorem C14_kthb_repeated_left_vertex_rejected :
  gio_read_kthb kthb_dup_text = GRaise EValueError /\ gio_read_kthb kthb_unordered_text = GRaise EValueError.
Proof. exact kthb_dup_rejected. Qed.
Print Assumptions C14_kthb_repeated_left_vertex_rejected.

(* the reader as found (before 1f39172): the edge characterisation needs every left vertex to be listed once ... *)
Theorem C14_kthb_sound_as_found_partial : forall text G, gio_read_kthb_as_found text = GOk G ->
  exists skips sl rest n,
    gt_lines text = skips ++ sl :: rest /\ Forall kth_skip skips /\ gio_kth_line (-1) sl = GOk (KISize n) /\
    io_kind G = GioBipartite /\ io_n G + io_r G = n /\ gio_wf G /\
    (NoDup (map fst (kth_rows n rest)) ->
     forall a b, In (a, b) (io_edges G) <->
                 exists r v, In r (kth_rows n rest) /\ In v (snd r) /\ a = fst r /\ b = v - io_n G).
Proof. exact kthb_sound_as_found_partial. Qed.
Print Assumptions C14_kthb_sound_as_found_partial.

(* ... and fails without that hypothesis (D8): "3 / 1 : 2 0 / 1 : 3 0" was accepted with the single edge (1,2) *)
Theorem C14_kthb_sound_as_found_refuted : ~ kthb_sound_statement_for gio_read_kthb_as_found.
Proof. exact kthb_sound_as_found_refuted. Qed.
Print Assumptions C14_kthb_sound_as_found_refuted.

(* dimacs: exactly one line "p edge n m", m lines "e u v" after it, all vertices in range; the graph has
   n vertices and exactly those edges *)
Theorem C14_dimacs_sound : forall k text G, k <> GioBipartite -> gio_read_dimacs k text = GOk G ->
  exists n m, dm_ppairs (gt_lines text) = [(n, m)] /\ Z.of_nat (length (dm_epairs (gt_lines text))) = m /\
    io_kind G = k /\ io_n G = n /\ io_r G = 0 /\ gio_wf G /\
    Forall (edge_ok G) (dm_epairs (gt_lines text)) /\
    (forall a b, In (a, b) (io_edges G) <-> In (a, b) (map (edge_norm k) (dm_epairs (gt_lines text)))).
Proof. exact dimacs_sound. Qed.
Print Assumptions C14_dimacs_sound.

(* matrix: the integers of the non comment lines are exactly those of the canonical file of the graph
   (L, R, then the L x R table of 0/1 in row order) *)
Theorem C14_matrix_sound : forall text G, gio_read_matrix text = GOk G ->
  gio_wf G /\ io_kind G = GioBipartite /\ io_name G = [] /\
  gio_matrix_stream (gt_lines text) = map MGood (concat (matrix_rows G)).
Proof. exact matrix_sound. Qed.
Print Assumptions C14_matrix_sound.

(* ---------- rejection: which exceptions can escape ---------- *)
(* matrix: ValueError only, for every text *)
Theorem C14_matrix_rejects_with_value_error : forall text e, gio_read_matrix text = GRaise e -> e = EValueError.
Proof. exact matrix_exn. Qed.
Print Assumptions C14_matrix_rejects_with_value_error.

(* kthlist, the three graph types: ValueError only, for every text *)
Theorem C14_kth_rejects_with_value_error : forall k text e, gio_read_kth k text = GRaise e -> e = EValueError.
Proof. exact kth_exn. Qed.
Print Assumptions C14_kth_rejects_with_value_error.
Theorem C14_kthb_rejects_with_value_error : forall text e, gio_read_kthb text = GRaise e -> e = EValueError.
Proof. exact kthb_exn. Qed.
Print Assumptions C14_kthb_rejects_with_value_error.

(* dimacs: ValueError only, for every text *)
Theorem C14_dimacs_rejects_with_value_error : forall k text e, gio_read_dimacs k text = GRaise e -> e = EValueError.
Proof. exact dimacs_exn. Qed.
Print Assumptions C14_dimacs_rejects_with_value_error.

(* through readGraph: every graph type, every in-house format, every text: a graph or ValueError *)
Theorem C14_read_graph_rejects_with_value_error : forall hd t f text e, f <> FGml -> f <> FDot ->
  gio_read_graph hd t f text = GRaise e -> e = EValueError.
Proof. exact read_graph_exn. Qed.
Print Assumptions C14_read_graph_rejects_with_value_error.

(* the readers as found (before bb735e1, 11330db): StopIteration exactly when every line is a comment or blank (D6) *)
Theorem C14_kth_rejects_as_found_partial : forall k text e, gio_read_kth_as_found k text = GRaise e ->
  e = EValueError \/ (e = EStopIteration /\ Forall kth_skip (gt_lines text)).
Proof. exact kth_exn_as_found. Qed.
Print Assumptions C14_kth_rejects_as_found_partial.
Theorem C14_kthb_rejects_as_found_partial : forall text e, gio_read_kthb_as_found text = GRaise e ->
  e = EValueError \/ (e = EStopIteration /\ Forall kth_skip (gt_lines text)).
Proof. exact kthb_exn_as_found. Qed.
Print Assumptions C14_kthb_rejects_as_found_partial.
Theorem C14_kth_no_size_line_as_found_refuted :
  gio_read_graph_as_found true TSimple FKthlist [] = GRaise EStopIteration /\
  gio_read_graph_as_found true TBipartite FKthlist comment_only_text = GRaise EStopIteration.
Proof. exact kth_empty_stopiteration. Qed.
Print Assumptions C14_kth_no_size_line_as_found_refuted.

(* ... IndexError when some line is blank (D7) *)
Theorem C14_dimacs_rejects_as_found_partial : forall k text e, gio_read_dimacs_as_found k text = GRaise e ->
  e = EValueError \/ (e = EIndexError /\ exists l, In l (gt_lines text) /\ gt_strip l = []).
Proof. exact dimacs_exn_as_found. Qed.
Print Assumptions C14_dimacs_rejects_as_found_partial.
Theorem C14_dimacs_blank_line_as_found_refuted :
  gio_read_graph_as_found true TSimple FDimacs dimacs_blank_text = GRaise EIndexError.
Proof. exact dimacs_blank_indexerror. Qed.
Print Assumptions C14_dimacs_blank_line_as_found_refuted.

(* a format that the graph type does not support is refused with ValueError whatever the text *)
Theorem C14_format_table : forall hd t f text, existsb (gio_fmt_eqb f) (gio_supported hd t) = false ->
  gio_read_graph hd t f text = GRaise EValueError.
Proof. exact format_table_refuses. Qed.
Print Assumptions C14_format_table.

(* ---------- a file declared acyclic ---------- *)
Theorem C14_dag_accept : forall hd f text G,
  gio_read_graph hd TDag f text = GOk G <->
  gio_read_graph hd TDigraph f text = GOk G /\ (forall u v, In (u, v) (io_edges G) -> u < v).
Proof. exact dag_accept. Qed.
Print Assumptions C14_dag_accept.

Theorem C14_dag_reject : forall hd f text G, gio_read_graph hd TDigraph f text = GOk G ->
  (exists u v, In (u, v) (io_edges G) /\ v <= u) -> gio_read_graph hd TDag f text = GRaise EValueError.
Proof. exact dag_reject. Qed.
Print Assumptions C14_dag_reject.

(* ---------- gml / dot: cnfgen's own step (sort labels, relabel 1..n, from_networkx) ---------- *)
(* gml ids are integers: identity for every size *)
Theorem C14_gml_labels_identity : forall G, gio_wf G -> io_kind G <> GioBipartite -> gio_gml_roundtrip G = Some (GOk G).
Proof. exact gml_labels_identity. Qed.
Print Assumptions C14_gml_labels_identity.

(* dot labels are decimal strings; the current code turns them into integers when they all are integers and
   sorts them as numbers: identity for every size *)
Theorem C14_dot_labels_identity : forall G, gio_wf G -> io_kind G <> GioBipartite -> gio_dot_roundtrip G = Some (GOk G).
Proof. exact dot_labels_identity. Qed.
Print Assumptions C14_dot_labels_identity.
(* when some label is not an integer nothing is relabelled: the labels are sorted as strings, as before 733c3b6 *)
Theorem C14_dot_non_numeric_labels : forall k name nodes edges, gt_ints nodes = None ->
  gio_dot_normalize k name nodes edges = gio_dot_normalize_as_found k name nodes edges.
Proof. exact dot_normalize_non_numeric. Qed.
Print Assumptions C14_dot_non_numeric_labels.

(* as found (D9): labels sorted lexicographically, identity up to nine vertices only *)
Theorem C14_dot_labels_as_found_partial : forall G, gio_wf G -> io_kind G <> GioBipartite -> io_n G <= 9 ->
  gio_dot_roundtrip_as_found G = Some (GOk G).
Proof. exact dot_labels_partial. Qed.
Print Assumptions C14_dot_labels_as_found_partial.
Theorem C14_dot_labels_as_found_refuted : exists G, gio_wf G /\ io_kind G = GioSimple /\ gio_dot_roundtrip_as_found G <> Some (GOk G).
Proof. exact dot_labels_refuted. Qed.
Print Assumptions C14_dot_labels_as_found_refuted.
Theorem C14_dot_12_vertices_as_found :
  gio_dot_roundtrip_as_found (mkIOG GioSimple [] 12 0 [(2, 10)]) = Some (GOk (mkIOG GioSimple [] 12 0 [(2, 5)])).
Proof. exact dot_g12. Qed.
Print Assumptions C14_dot_12_vertices_as_found.

(* bipartite graphs: from_networkx uses the 'bipartite' attribute and the node order, nothing is sorted:
   what to_networkx + a faithful gml/dot writer and reader deliver (nodes "1".."L" with colour 0, then
   "L+1".."L+R" with colour 1) is rebuilt to the same graph at every size *)
Theorem C14_bipartite_from_networkx : forall G, gio_wf G -> io_kind G = GioBipartite ->
  gio_bip_from_nx gt_str_eqb (io_name G) (nx_bip_nodes (io_n G) (io_r G)) (nx_bip_edges (io_n G) (io_edges G)) = GOk G.
Proof. exact bip_nx_roundtrip. Qed.
Print Assumptions C14_bipartite_from_networkx.

(* the same through the relabelling of the dot branch (labels become the integers 1..L+R) *)
Theorem C14_bipartite_dot_labels : forall G, gio_wf G -> io_kind G = GioBipartite ->
  gio_dot_bip_normalize (io_name G) (nx_bip_nodes (io_n G) (io_r G)) (nx_bip_edges (io_n G) (io_edges G)) = Some (GOk G).
Proof. exact bip_dot_roundtrip. Qed.
Print Assumptions C14_bipartite_dot_labels.

(* ---------- non-vacuity ---------- *)
(* a 12-vertex dag with isolated vertices and an edge 2 -> 10 meets the hypotheses of C14_roundtrip;
   its kthlist text is the expected one and its dimacs text is read back to the same graph *)
Example C14_nonvacuous :
  gio_wf g12d /\ type_kind_ok TDag g12d /\ no_nl (io_name g12d) /\
  gio_write_graph true TDag FKthlist g12d = GOk g12d_kth_text /\
  (exists text, gio_write_graph true TDag FDimacs g12d = GOk text /\
                gio_read_graph true TDag FDimacs text = GOk (same_but_name g12d (io_name g12d))).
Proof. exact g12d_example. Qed.

(* the witnesses of D6, D7 under the current code: a parse error, and the blank line is skipped *)
Example C14_repaired_nonvacuous :
  gio_read_graph true TSimple FKthlist [] = GRaise EValueError /\
  gio_read_graph true TSimple FDimacs dimacs_blank_text = GOk (mkIOG GioSimple [] 2 0 [(1, 2)]) /\
  gio_read_graph true TSimple FDimacs dimacs_noblank_text = GOk (mkIOG GioSimple [] 2 0 [(1, 2)]) /\
  gio_dot_roundtrip g12 = Some (GOk g12).
Proof. exact (conj (proj1 kth_empty_valueerror) (conj dimacs_blank_ok (conj dimacs_noblank_ok dot_g12_now))). Qed.
