(* GTextFacts.v -- lemmas about the character-level helpers of GText.v:
   str(int) then int() is the identity, split / strip / readlines on texts assembled
   from printed integers and separators. *)
From Coq Require Import ZArith List Bool Lia ZifyBool Ascii Wf_Z.
From Cnfgen Require Import GText.
Import ListNotations.
Open Scope Z_scope.
Ltac Zify.zify_post_hook ::= Z.to_euclidean_division_equations.

(* ---------- characters ---------- *)
Lemma code_range c : 0 <= gt_code c < 256.
Proof. unfold gt_code. pose proof (N_ascii_bounded c). lia. Qed.
Lemma code_chr z : 0 <= z < 256 -> gt_code (gt_chr z) = z.
Proof. intros H. unfold gt_code, gt_chr. rewrite N_ascii_embedding by lia. lia. Qed.
Lemma eqb_by_code c k : gt_code c <> gt_code k -> Ascii.eqb c k = false.
Proof. intros H. apply Ascii.eqb_neq. intros E. subst. auto. Qed.

Definition is_digit (c : ascii) : bool := (48 <=? gt_code c) && (gt_code c <=? 57).
(* a character of a token: no whitespace, not the kthlist separator *)
Definition plainc (c : ascii) : Prop := gt_is_space c = false /\ Ascii.eqb c gt_colon = false.

Lemma code_nl : gt_code gt_nl = 10. Proof. reflexivity. Qed.
Lemma code_sp : gt_code gt_sp = 32. Proof. reflexivity. Qed.
Lemma code_colon : gt_code gt_colon = 58. Proof. reflexivity. Qed.
Lemma code_minus : gt_code gt_minus = 45. Proof. reflexivity. Qed.
Lemma code_plus : gt_code gt_plus = 43. Proof. reflexivity. Qed.
Lemma code_c : gt_code gt_c = 99. Proof. reflexivity. Qed.
Lemma code_p : gt_code gt_p = 112. Proof. reflexivity. Qed.
Lemma code_e : gt_code gt_e = 101. Proof. reflexivity. Qed.
Lemma code_hash : gt_code gt_hash = 35. Proof. reflexivity. Qed.
Lemma code_underscore : gt_code gt_underscore = 95. Proof. reflexivity. Qed.

Lemma digit_char_code d : 0 <= d <= 9 -> gt_code (gt_digit_char d) = 48 + d.
Proof. intros H. unfold gt_digit_char. apply code_chr. lia. Qed.
Lemma digit_char_is_digit d : 0 <= d <= 9 -> is_digit (gt_digit_char d) = true.
Proof. intros H. unfold is_digit. rewrite digit_char_code by lia. lia. Qed.
Lemma digit_val_char d : 0 <= d <= 9 -> gt_digit_val (gt_digit_char d) = Some d.
Proof.
  intros H. unfold gt_digit_val. rewrite digit_char_code by lia.
  replace ((48 <=? 48 + d) && (48 + d <=? 57)) with true by lia. f_equal. lia.
Qed.
Lemma digit_val_is_digit c : is_digit c = true -> gt_digit_val c = Some (gt_code c - 48).
Proof. unfold is_digit, gt_digit_val. intros ->. reflexivity. Qed.
Lemma digit_val_not_digit c : is_digit c = false -> gt_digit_val c = None.
Proof. unfold is_digit, gt_digit_val. intros ->. reflexivity. Qed.

Lemma digit_not_space c : is_digit c = true -> gt_is_space c = false.
Proof. unfold is_digit, gt_is_space. lia. Qed.
Lemma digit_not_int_space c : is_digit c = true -> gt_is_int_space c = false.
Proof. unfold is_digit, gt_is_int_space. lia. Qed.
Lemma digit_neq c k : is_digit c = true -> (gt_code k < 48 \/ 57 < gt_code k) -> Ascii.eqb c k = false.
Proof. unfold is_digit. intros H K. apply eqb_by_code. lia. Qed.
Lemma digit_plain c : is_digit c = true -> plainc c.
Proof.
  intros H. split; [now apply digit_not_space|]. apply digit_neq; [exact H|]. rewrite code_colon. lia.
Qed.
Lemma minus_plain : plainc gt_minus.
Proof. split; reflexivity. Qed.
Lemma space_sp : gt_is_space gt_sp = true. Proof. reflexivity. Qed.
Lemma space_nl : gt_is_space gt_nl = true. Proof. reflexivity. Qed.
Lemma plain_not_nl c : plainc c -> Ascii.eqb c gt_nl = false.
Proof.
  intros [H _]. apply Ascii.eqb_neq. intros ->. rewrite space_nl in H. discriminate.
Qed.

(* ---------- str(int) ---------- *)
Lemma digits_app : forall f n acc, gt_digits f n acc = gt_digits f n [] ++ acc.
Proof.
  induction f as [|f IH]; intros n acc; cbn [gt_digits]; [reflexivity|].
  destruct (n <? 10); [reflexivity|].
  rewrite (IH (n / 10) (_ :: acc)), (IH (n / 10) [_]). rewrite <- app_assoc. reflexivity.
Qed.

Lemma digits_S f n acc : gt_digits (S f) n acc =
  if n <? 10 then gt_digit_char n :: acc else gt_digits f (n / 10) (gt_digit_char (n mod 10) :: acc).
Proof. reflexivity. Qed.

Lemma digits_fuel : forall g1 g2 n, 0 <= n < 2 ^ Z.of_nat g1 -> n < 2 ^ Z.of_nat g2 ->
  gt_digits (S g1) n [] = gt_digits (S g2) n [].
Proof.
  induction g1 as [|g1 IH]; intros g2 n H1 H2.
  - cbn in H1. assert (n = 0) by lia. subst. reflexivity.
  - rewrite (digits_S (S g1)), (digits_S g2). destruct (n <? 10) eqn:E; [reflexivity|].
    destruct g2 as [|g2]; [cbn in H2; lia|].
    rewrite Nat2Z.inj_succ, Z.pow_succ_r in H1, H2 by lia.
    rewrite (digits_app (S g1)), (digits_app (S g2)). f_equal.
    apply IH; lia.
Qed.

Lemma log2_fuel n : 0 <= n -> n < 2 ^ Z.of_nat (S (Z.to_nat (Z.log2 n))).
Proof.
  intros H. rewrite Nat2Z.inj_succ, Z2Nat.id by apply Z.log2_nonneg.
  destruct (Z.eq_dec n 0) as [->|Hn]; [reflexivity|].
  apply Z.log2_spec. lia.
Qed.

Lemma print_nat_small n : 0 <= n < 10 -> gt_print_nat n = [gt_digit_char n].
Proof. intros H. unfold gt_print_nat. rewrite digits_S. replace (n <? 10) with true by lia. reflexivity. Qed.

Lemma print_nat_step n : 10 <= n -> gt_print_nat n = gt_print_nat (n / 10) ++ [gt_digit_char (n mod 10)].
Proof.
  intros H. unfold gt_print_nat at 1. rewrite digits_S. replace (n <? 10) with false by lia.
  rewrite digits_app. f_equal. unfold gt_print_nat.
  pose proof (log2_fuel n ltac:(lia)) as F1. pose proof (log2_fuel (n / 10) ltac:(lia)) as F2.
  rewrite Nat2Z.inj_succ, Z.pow_succ_r in F1 by lia.
  apply digits_fuel; lia.
Qed.

Lemma decimal_ind (P : Z -> Prop) :
  (forall n, 0 <= n < 10 -> P n) -> (forall n, 10 <= n -> P (n / 10) -> P n) -> forall n, 0 <= n -> P n.
Proof.
  intros H0 H1.
  assert (K : forall x, 0 <= x -> 0 <= x -> P x).
  { apply (Z_lt_induction (fun x => 0 <= x -> P x)). intros x IH Hx.
    destruct (Z_lt_ge_dec x 10) as [L|G]; [apply H0; lia|].
    apply H1; [lia|]. apply IH; lia. }
  intros n Hn. now apply K.
Qed.

Lemma print_nat_digits n : 0 <= n -> Forall (fun c => is_digit c = true) (gt_print_nat n) /\ gt_print_nat n <> [].
Proof.
  intros Hn. pattern n. apply decimal_ind; [| |exact Hn]; clear n Hn.
  - intros n H. rewrite print_nat_small by lia. split; [|discriminate].
    constructor; [|constructor]. apply digit_char_is_digit. lia.
  - intros n H [IH1 IH2]. rewrite print_nat_step by lia. split.
    + apply Forall_app. split; [exact IH1|]. constructor; [|constructor]. apply digit_char_is_digit. lia.
    + intros E. apply app_eq_nil in E as [_ E]. discriminate.
Qed.

(* value of a digit string, most significant digit first *)
Definition horner (acc : Z) (s : gt_str) : Z := fold_left (fun a c => 10 * a + (gt_code c - 48)) s acc.
Lemma horner_app a s t : horner a (s ++ t) = horner (horner a s) t.
Proof. unfold horner. apply fold_left_app. Qed.

Lemma print_nat_horner n : 0 <= n -> horner 0 (gt_print_nat n) = n.
Proof.
  intros Hn. pattern n. apply decimal_ind; [| |exact Hn]; clear n Hn.
  - intros n H. rewrite print_nat_small by lia. cbn [horner fold_left]. rewrite digit_char_code by lia. lia.
  - intros n H IH. rewrite print_nat_step, horner_app, IH by lia. cbn [horner fold_left].
    rewrite digit_char_code by lia. lia.
Qed.

(* ---------- int() ---------- *)
Lemma int_body_digits : forall ds seen acc rest, Forall (fun c => is_digit c = true) ds ->
  gt_int_body seen acc (ds ++ rest) = gt_int_body (seen || negb (gt_is_nil ds)) (horner acc ds) rest.
Proof.
  induction ds as [|c t IH]; intros seen acc rest HF.
  - cbn. now rewrite orb_false_r.
  - inversion HF as [|x l Hc Ht]; subst. cbn [app gt_int_body]. rewrite digit_val_is_digit by exact Hc.
    rewrite IH by exact Ht. cbn [gt_is_nil negb horner fold_left]. now rewrite orb_true_r.
Qed.

Lemma int_body_print_nat n : 0 <= n -> gt_int_body false 0 (gt_print_nat n) = Some n.
Proof.
  intros Hn. destruct (print_nat_digits n Hn) as [HF Hne].
  rewrite <- (app_nil_r (gt_print_nat n)), int_body_digits by exact HF.
  rewrite print_nat_horner by exact Hn. destruct (gt_print_nat n); [congruence|reflexivity].
Qed.

(* ---------- strip ---------- *)
Lemma lstrip_all p s : Forall (fun c => p c = true) s -> gt_lstrip_by p s = [].
Proof. induction 1 as [|c t Hc Ht IH]; cbn [gt_lstrip_by]; [reflexivity|]. now rewrite Hc. Qed.
Lemma lstrip_app p pre s : Forall (fun c => p c = true) pre -> gt_lstrip_by p (pre ++ s) = gt_lstrip_by p s.
Proof. induction 1 as [|c t Hc Ht IH]; cbn [app gt_lstrip_by]; [reflexivity|]. now rewrite Hc. Qed.
Lemma lstrip_id p c t : p c = false -> gt_lstrip_by p (c :: t) = c :: t.
Proof. intros H. cbn [gt_lstrip_by]. now rewrite H. Qed.

(* strip of   spaces ++ word ++ spaces   when the word has no space at either end *)
Lemma strip_by_word p pre w post :
  Forall (fun c => p c = true) pre -> Forall (fun c => p c = true) post ->
  Forall (fun c => p c = false) w -> gt_strip_by p (pre ++ w ++ post) = w.
Proof.
  intros Hpre Hpost Hw. unfold gt_strip_by. rewrite lstrip_app by exact Hpre.
  destruct w as [|c t].
  - cbn [app]. rewrite (lstrip_all p post) by exact Hpost. reflexivity.
  - inversion Hw as [|x l Hc Ht]; subst. cbn [app]. rewrite lstrip_id by exact Hc.
    change (c :: t ++ post) with ((c :: t) ++ post). rewrite rev_app_distr.
    rewrite lstrip_app by (apply Forall_rev; exact Hpost).
    assert (Hr : Forall (fun c => p c = false) (rev (c :: t))) by (apply Forall_rev; exact Hw).
    destruct (rev (c :: t)) as [|d r] eqn:E.
    + apply (f_equal (@length _)) in E. rewrite rev_length in E. discriminate.
    + inversion Hr as [|x l Hd _]; subst. rewrite lstrip_id by exact Hd. rewrite <- E. apply rev_involutive.
Qed.

Lemma strip_word_post w post : Forall plainc w -> Forall (fun c => gt_is_space c = true) post ->
  gt_strip (w ++ post) = w.
Proof.
  intros Hw Hp. unfold gt_strip. apply (strip_by_word gt_is_space [] w post); auto.
  eapply Forall_impl; [|exact Hw]. intros c [H _]. exact H.
Qed.

(* ---------- the printed integer as a token ---------- *)
Lemma print_Z_plain z : Forall plainc (gt_print_Z z) /\ gt_print_Z z <> [].
Proof.
  unfold gt_print_Z. destruct (z <? 0) eqn:E.
  - destruct (print_nat_digits (- z) ltac:(lia)) as [HF _]. split; [|discriminate].
    constructor; [exact minus_plain|]. eapply Forall_impl; [|exact HF]. intros c. apply digit_plain.
  - destruct (print_nat_digits z ltac:(lia)) as [HF Hne]. split; [|exact Hne].
    eapply Forall_impl; [|exact HF]. intros c. apply digit_plain.
Qed.

Lemma print_Z_first_not c0 z t k : gt_print_Z z = c0 :: t -> 0 <= z ->
  (gt_code k < 48 \/ 57 < gt_code k) -> Ascii.eqb c0 k = false.
Proof.
  intros E Hz Hk. unfold gt_print_Z in E. replace (z <? 0) with false in E by lia.
  destruct (print_nat_digits z Hz) as [HF _]. rewrite E in HF. inversion HF; subst. now apply digit_neq.
Qed.

Lemma int_print_Z z : gt_int (gt_print_Z z) = Some z.
Proof.
  unfold gt_int.
  assert (Hs : gt_strip_by gt_is_int_space (gt_print_Z z) = gt_print_Z z).
  { rewrite <- (app_nil_r (gt_print_Z z)) at 1. apply (strip_by_word gt_is_int_space [] _ []); auto.
    unfold gt_print_Z. destruct (z <? 0) eqn:E.
    - constructor; [reflexivity|]. destruct (print_nat_digits (- z) ltac:(lia)) as [HF _].
      eapply Forall_impl; [|exact HF]. intros c. apply digit_not_int_space.
    - destruct (print_nat_digits z ltac:(lia)) as [HF _].
      eapply Forall_impl; [|exact HF]. intros c. apply digit_not_int_space. }
  rewrite Hs. unfold gt_print_Z. destruct (z <? 0) eqn:E.
  - rewrite Ascii.eqb_refl. rewrite int_body_print_nat by lia. cbn. f_equal. lia.
  - destruct (print_nat_digits z ltac:(lia)) as [HF Hne].
    destruct (gt_print_nat z) as [|c t] eqn:Ep; [congruence|].
    inversion HF as [|x l Hc Ht]; subst.
    rewrite (digit_neq c gt_minus Hc) by (rewrite code_minus; lia).
    rewrite (digit_neq c gt_plus Hc) by (rewrite code_plus; lia).
    rewrite <- Ep. apply int_body_print_nat. lia.
Qed.

Lemma ints_print zs : gt_ints (map gt_print_Z zs) = Some zs.
Proof. induction zs as [|z t IH]; cbn [map gt_ints]; [reflexivity|]. now rewrite int_print_Z, IH. Qed.

(* ---------- split() ---------- *)
Definition starts_space (s : gt_str) : Prop :=
  match s with [] => True | c :: _ => gt_is_space c = true end.

Lemma split_ws_space c s : gt_is_space c = true -> gt_split_ws (c :: s) = gt_split_ws s.
Proof. intros H. cbn [gt_split_ws]. now rewrite H. Qed.

Lemma split_ws_spaces s : Forall (fun c => gt_is_space c = true) s -> gt_split_ws s = [].
Proof. induction 1 as [|c t Hc Ht IH]; [reflexivity|]. now rewrite split_ws_space. Qed.

Lemma split_ws_word : forall w rest, w <> [] -> Forall (fun c => gt_is_space c = false) w -> starts_space rest ->
  gt_split_ws (w ++ rest) = w :: gt_split_ws rest.
Proof.
  induction w as [|c t IH]; intros rest Hne Hw Hr; [congruence|].
  inversion Hw as [|x l Hc Ht]; subst. destruct t as [|c2 t'].
  - cbn [app gt_split_ws]. rewrite Hc. destruct rest as [|c' r]; [reflexivity|].
    cbn in Hr. rewrite Hr. reflexivity.
  - specialize (IH rest ltac:(discriminate) Ht Hr).
    change ((c :: c2 :: t') ++ rest) with (c :: (c2 :: t') ++ rest).
    cbn [gt_split_ws]. rewrite Hc. cbn [app]. inversion Ht as [|y l2 Hc2 _]; subst. rewrite Hc2.
    change (c2 :: t' ++ rest) with ((c2 :: t') ++ rest). rewrite IH. reflexivity.
Qed.

(* " a b c" ++ tail *)
Lemma split_ws_tokens : forall ws tail, Forall (fun w => w <> [] /\ Forall plainc w) ws -> starts_space tail ->
  gt_split_ws (concat (map (fun w => gt_sp :: w) ws) ++ tail) = ws ++ gt_split_ws tail.
Proof.
  induction ws as [|w t IH]; intros tail HF Ht; [reflexivity|].
  inversion HF as [|x l [Hne Hw] Hl]; subst. cbn [map concat app].
  rewrite <- app_assoc. cbn [app]. rewrite split_ws_space by exact space_sp.
  rewrite split_ws_word; [|exact Hne| |].
  - rewrite IH by assumption. reflexivity.
  - eapply Forall_impl; [|exact Hw]. intros c [H _]. exact H.
  - destruct t as [|w2 t2]; [exact Ht|]. cbn. reflexivity.
Qed.

(* ---------- readlines() ---------- *)
Definition no_nl (s : gt_str) : Prop := Forall (fun c => Ascii.eqb c gt_nl = false) s.

Lemma lines_nil : gt_lines [] = []. Proof. reflexivity. Qed.
Lemma lines_line l rest : no_nl l -> gt_lines (l ++ gt_nl :: rest) = (l ++ [gt_nl]) :: gt_lines rest.
Proof.
  induction 1 as [|c t Hc Ht IH]; cbn [app gt_lines].
  - rewrite Ascii.eqb_refl. reflexivity.
  - rewrite Hc, IH. reflexivity.
Qed.
Lemma lines_nonempty c t : gt_lines (c :: t) <> [].
Proof. cbn [gt_lines]. destruct (Ascii.eqb c gt_nl); [discriminate|]. destruct (gt_lines t); discriminate. Qed.

(* a text that ends with a newline is a closed group of lines *)
Lemma lines_app a b : gt_lines (a ++ gt_nl :: b) = gt_lines (a ++ [gt_nl]) ++ gt_lines b.
Proof.
  induction a as [|c t IH]; cbn [app gt_lines].
  - rewrite Ascii.eqb_refl. reflexivity.
  - destruct (Ascii.eqb c gt_nl); [rewrite IH; reflexivity|].
    rewrite IH. destruct (gt_lines (t ++ [gt_nl])) as [|l ls] eqn:E; [|reflexivity].
    exfalso. destruct t; cbn in E; [discriminate|]. eapply lines_nonempty; eauto.
Qed.

Lemma lines_rows : forall rows rest, Forall no_nl rows ->
  gt_lines (concat (map (fun r => r ++ [gt_nl]) rows) ++ rest) = map (fun r => r ++ [gt_nl]) rows ++ gt_lines rest.
Proof.
  induction rows as [|r t IH]; intros rest HF; [reflexivity|].
  inversion HF as [|x l Hr Ht]; subst. cbn [map concat app]. rewrite <- !app_assoc. cbn [app].
  rewrite lines_line by exact Hr. rewrite IH by exact Ht. reflexivity.
Qed.

Lemma plain_no_nl s : Forall plainc s -> no_nl s.
Proof. intros H. eapply Forall_impl; [|exact H]. intros c. apply plain_not_nl. Qed.

(* ---------- split(sep), in ---------- *)
Lemma mem_app c a b : gt_mem c (a ++ b) = gt_mem c a || gt_mem c b.
Proof. unfold gt_mem. apply existsb_app. Qed.
Lemma mem_false c s : gt_mem c s = false <-> Forall (fun x => Ascii.eqb x c = false) s.
Proof.
  unfold gt_mem. induction s as [|x t IH]; cbn [existsb]; [split; [constructor|reflexivity]|].
  rewrite orb_false_iff, IH, (Ascii.eqb_sym c x). split.
  - intros [H1 H2]. now constructor.
  - intros H. inversion H; subst. auto.
Qed.

Lemma split_on_none sep s : Forall (fun x => Ascii.eqb x sep = false) s -> gt_split_on sep s = [s].
Proof. induction 1 as [|c t Hc Ht IH]; cbn [gt_split_on]; [reflexivity|]. now rewrite Hc, IH. Qed.
Lemma split_on_one sep a b : Forall (fun x => Ascii.eqb x sep = false) a ->
  gt_split_on sep (a ++ sep :: b) = a :: gt_split_on sep b.
Proof.
  induction 1 as [|c t Hc Ht IH]; cbn [app gt_split_on].
  - now rewrite Ascii.eqb_refl.
  - now rewrite Hc, IH.
Qed.

Lemma plain_no_colon s : Forall plainc s -> Forall (fun x => Ascii.eqb x gt_colon = false) s.
Proof. intros H. eapply Forall_impl; [|exact H]. intros c [_ K]. exact K. Qed.

(* ---------- range ---------- *)
Lemma range1_In n x : In x (gt_range1 n) <-> 1 <= x <= n.
Proof.
  unfold gt_range1. rewrite in_map_iff. split.
  - intros [k [<- Hk]]. apply in_seq in Hk. lia.
  - intros H. exists (Z.to_nat x). split; [lia|]. apply in_seq. lia.
Qed.
Lemma range1_length n : length (gt_range1 n) = Z.to_nat n.
Proof. unfold gt_range1. now rewrite map_length, seq_length. Qed.

(* ---------- more on strip ---------- *)
Lemma lstrip_suffix p s : exists pre, s = pre ++ gt_lstrip_by p s.
Proof.
  induction s as [|c t [pre IH]]; [exists []; reflexivity|]. cbn [gt_lstrip_by].
  destruct (p c); [exists (c :: pre); cbn; now f_equal|exists []; reflexivity].
Qed.
Lemma lstrip_Forall (P : ascii -> Prop) p s : Forall P s -> Forall P (gt_lstrip_by p s).
Proof.
  intros H. destruct (lstrip_suffix p s) as [pre E]. rewrite E in H. apply Forall_app in H. tauto.
Qed.
Lemma strip_by_Forall (P : ascii -> Prop) p s : Forall P s -> Forall P (gt_strip_by p s).
Proof.
  intros H. unfold gt_strip_by. apply Forall_rev, lstrip_Forall, Forall_rev, lstrip_Forall, H.
Qed.

Lemma lstrip_keeps_last p a c : p c = false -> exists a', gt_lstrip_by p (a ++ [c]) = a' ++ [c].
Proof.
  intros Hc. induction a as [|x t [a' IH]]; cbn [app gt_lstrip_by].
  - rewrite Hc. exists []. reflexivity.
  - destruct (p x); [exists a'; exact IH|exists (x :: t); reflexivity].
Qed.

(* the first character survives when it is not stripped *)
Lemma strip_by_head p c t : p c = false -> exists t', gt_strip_by p (c :: t) = c :: t'.
Proof.
  intros Hc. unfold gt_strip_by. rewrite lstrip_id by exact Hc. cbn [rev].
  destruct (lstrip_keeps_last p (rev t) c Hc) as [a' E]. rewrite E, rev_app_distr. cbn. eauto.
Qed.

(* head ++ word ++ spaces : only the trailing spaces go *)
Lemma strip_by_tail p c a w post : p c = false -> w <> [] -> Forall (fun x => p x = false) w ->
  Forall (fun x => p x = true) post -> gt_strip_by p ((c :: a) ++ w ++ post) = (c :: a) ++ w.
Proof.
  intros Hc Hne Hw Hpost. unfold gt_strip_by. cbn [app]. rewrite lstrip_id by exact Hc.
  change (c :: a ++ w ++ post) with ((c :: a) ++ w ++ post).
  rewrite !rev_app_distr, <- app_assoc. rewrite lstrip_app by (apply Forall_rev; exact Hpost).
  assert (Hr : Forall (fun x => p x = false) (rev w)) by (apply Forall_rev; exact Hw).
  destruct (rev w) as [|d r] eqn:E.
  - apply (f_equal (@length _)) in E. rewrite rev_length in E. destruct w; [congruence|discriminate].
  - inversion Hr as [|x l Hd _]; subst. cbn [app]. rewrite lstrip_id by exact Hd.
    change (d :: r ++ rev (c :: a)) with ((d :: r) ++ rev (c :: a)). rewrite <- E, <- rev_app_distr.
    apply rev_involutive.
Qed.

Lemma strip_tail c a w post : gt_is_space c = false -> w <> [] -> Forall plainc w ->
  Forall (fun x => gt_is_space x = true) post -> gt_strip ((c :: a) ++ w ++ post) = (c :: a) ++ w.
Proof.
  intros. apply strip_by_tail; auto. eapply Forall_impl; [|eassumption]. intros x [K _]. exact K.
Qed.
