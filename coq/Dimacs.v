(* Dimacs.v — DIMACS writer and reader.  Definitions only.

   Models cnfgen/utils/parsedimacs.py:
     to_dimacs_file(formula, out, export_header, export_varnames)  -> print_dimacs
        header   : list of (field, value) of formula.header, in order, already
                   rendered by str(); None when export_header is false
        names    : formula.all_variable_labels() (any length; numbered from 1);
                   None when export_varnames is false
        n        : formula.number_of_variables();  F : the clause list in order
        Every header line goes through encode('ascii','replace'): characters
        above 127 become '?' (ascii_replace).  Names of variables are written raw.
        Every field and name first goes through _within_comment (-> within_comment):
        "\r\n" and "\r" become "\n", and every "\n" is followed by "c ".
        print_dimacs_as_found is the writer before commit 7278321 (no _within_comment),
        kept for the refutation witnesses of Prop_C06.v.
     parse_dimacs(infile) + from_dimacs_file(cls, file)             -> parse_dimacs
        result DOk n F  = formula with update_variable_number(n) and clauses F;
        result Err e k = ValueError raised; e tells which `raise` statement,
                         k is the line number in its message (0: raised after the loop).
        universal=false : the text is in a StringIO (lines break at "\n" only);
        universal=true  : the text is the content of a file opened in text mode
                          (CNF.from_file(name), argparse.FileType('r') of `cnfgen dimacs`).
   Exceptions of the real reader that were considered: the unpacking error of the
   `p` line (ValueError, caught and re-raised), int() errors including the 4300
   digit limit (ValueError), IndexError on line[0] (guarded by the length test),
   StopIteration from next() in from_dimacs_file (impossible: the generator
   cannot end without the spec line, it raises ValueError first),
   UnicodeDecodeError while reading a file (a subclass of ValueError; outside the
   8-bit alphabet of this model), errors of update_variable_number / add_clause
   (n >= 0 and literals are non-zero integers when they are reached).  None of
   them leaves the reader as anything but ValueError, so `result` has no other
   failure constructor; the harness still treats any other exception class of
   the implementation as a failing input.
   Abstracted: the per-literal loop with `literal_buffer` is the function split0
   applied to buffer ++ numbers of the line (same clauses, same left-over);
   the range test of a line is made before its clauses are handed over (the
   real generator hands them over first, then raises: the caller drops them).
   For |z| >= 10^4300 Python's str(z) raises ValueError; print_Z does not
   (theorems carry `small`). *)
From Coq Require Import String ZArith List Bool Ascii.
From Cnfgen Require Import Sem Text.
Import ListNotations.
Open Scope Z_scope.

(* ------------------------------------------------------------------ *)
(* writer *)

Definition header := list (text * text).

Definition ascii_replace (s : text) : text :=
  map (fun c => if 127 <? code c then "?"%char else c) s.

(* ---- the writer as it is now (after the repair of D4, commit 7278321) ---- *)

(* s.replace("\n", "\n" + prefix) *)
Fixpoint after_lf (prefix s : text) : text :=
  match s with
  | [] => []
  | c :: r => if is_lf c then LF :: prefix ++ after_lf prefix r else c :: after_lf prefix r
  end.

(* _within_comment(text, prefix):
     text = text.replace('\r\n', '\n').replace('\r', '\n');  return text.replace('\n', '\n' + prefix)
   the two replacements of the first statement are exactly `universal` of Text.v
   (utils/opb.py has an identical copy of this helper) *)
Definition within_comment (prefix s : text) : text := after_lf prefix (universal s).

(* an ENTRY is what one `output.write(... + "\n")` call writes, without that final
   "\n"; an entry of the comment part may contain line breaks, each followed by "c " *)
Definition header_entry (fv : text * text) : text :=
  ascii_replace (within_comment (lit "c ") (lit "c " ++ fst fv ++ lit ": " ++ snd fv)).

Fixpoint varname_entries (i : Z) (names : list text) : list text :=
  match names with
  | [] => []
  | nm :: r => within_comment (lit "c ") (lit "c varname " ++ print_Z i ++ [SP] ++ nm)
               :: varname_entries (i + 1) r
  end.

Definition spec_line (n m : Z) : text := lit "p cnf " ++ print_Z n ++ [SP] ++ print_Z m.

Definition clause_line (c : list Z) : text :=
  concat (map (fun l => print_Z l ++ [SP]) c) ++ lit "0".

Definition comment_entries (h : option header) (names : option (list text)) : list text :=
  (match h with Some h => map header_entry h ++ [lit "c"] | None => [] end) ++
  (match names with Some ns => varname_entries 1 ns ++ [lit "c"] | None => [] end).

Definition print_entries (h : option header) (names : option (list text)) (n : Z) (F : cnf) : list text :=
  comment_entries h names ++ [spec_line n (len F)] ++ map clause_line F.

Definition print_dimacs (h : option header) (names : option (list text)) (n : Z) (F : cnf) : text :=
  unlines (print_entries h names n F).

(* the lines of the comment part, as a reader of the text finds them (an entry
   with k line breaks gives k+1 of them) *)
Definition comment_lines (h : option header) (names : option (list text)) : list text :=
  split_lines (unlines (comment_entries h names)).

(* ---- the writer as it was found (before 7278321): fields copied verbatim ---- *)

(* lines are given without their final "\n"; unlines appends it *)
Definition header_line_as_found (fv : text * text) : text :=
  ascii_replace (lit "c " ++ fst fv ++ lit ": " ++ snd fv).

Fixpoint varname_lines_as_found (i : Z) (names : list text) : list text :=
  match names with
  | [] => []
  | nm :: r => (lit "c varname " ++ print_Z i ++ [SP] ++ nm) :: varname_lines_as_found (i + 1) r
  end.

Definition comment_lines_as_found (h : option header) (names : option (list text)) : list text :=
  (match h with Some h => map header_line_as_found h ++ [lit "c"] | None => [] end) ++
  (match names with Some ns => varname_lines_as_found 1 ns ++ [lit "c"] | None => [] end).

Definition print_lines_as_found (h : option header) (names : option (list text)) (n : Z) (F : cnf) : list text :=
  comment_lines_as_found h names ++ [spec_line n (len F)] ++ map clause_line F.

Definition print_dimacs_as_found (h : option header) (names : option (list text)) (n : Z) (F : cnf) : text :=
  unlines (print_lines_as_found h names n F).

(* ------------------------------------------------------------------ *)
(* reader *)

Inductive err :=
| DupSpec          (* "There is a another spec at line k" *)
| BadSpec          (* "Spec at line k should have format ..." *)
| DataBeforeSpec   (* "Non comment line k before p cnf <n> <m>" *)
| BadLiteral       (* "Invalid literal at line k" *)
| Incomplete       (* "Last clause was incomplete" *)
| MissingSpec      (* "Missing spec line 'p cnf <n> <m>" *)
| WrongCount.      (* "Formula contains .. clauses but .. were expected." *)

Inductive result := DOk (n : Z) (F : cnf) | Err (e : err) (line : Z).

(* `_, _, nstr, mstr = line.split(); n = int(nstr); m = int(mstr); n<0 or m<0 -> error` *)
Definition parse_spec (s : text) : option (Z * Z) :=
  match split_ws s with
  | [_; _; a; b] =>
    match parse_int a, parse_int b with
    | Some n, Some m => if (n <? 0) || (m <? 0) then None else Some (n, m)
    | _, _ => None
    end
  | _ => None
  end.

(* [int(lit) for lit in line.split()] *)
Fixpoint ints_of (ts : list text) : option (list Z) :=
  match ts with
  | [] => Some []
  | t :: r => match parse_int t, ints_of r with
              | Some z, Some zs => Some (z :: zs)
              | _, _ => None
              end
  end.

Definition lit_ok (n z : Z) : bool := (z =? 0) || ((1 <=? Z.abs z) && (Z.abs z <=? n)).

(* cut a sequence of numbers at the zeros: (complete clauses, unterminated rest) *)
Fixpoint split0 (zs : list Z) : list (list Z) * list Z :=
  match zs with
  | [] => ([], [])
  | z :: r =>
    let '(cs, tl) := split0 r in
    if z =? 0 then ([] :: cs, tl)
    else match cs with
         | [] => ([], z :: tl)
         | c :: cs' => ((z :: c) :: cs', tl)
         end
  end.

Fixpoint parse_lines (spec : option (Z * Z)) (buf : list Z) (count : Z) (lineno : Z)
         (ls : list text) : result :=
  match ls with
  | [] =>
    if nonempty buf then Err Incomplete 0
    else match spec with
         | None => Err MissingSpec 0
         | Some (n, m) => if m =? count then DOk n [] else Err WrongCount 0
         end
  | l :: rest =>
    let k := lineno + 1 in
    let s := strip l in
    match s with
    | [] => parse_lines spec buf count k rest
    | c :: _ =>
      if Ascii.eqb c "c"%char then parse_lines spec buf count k rest
      else if Ascii.eqb c "p"%char then
        match spec with
        | Some _ => Err DupSpec k
        | None => match parse_spec s with
                  | None => Err BadSpec k
                  | Some nm => parse_lines (Some nm) buf count k rest
                  end
        end
      else
        match spec with
        | None => Err DataBeforeSpec k
        | Some (n, m) =>
          match ints_of (split_ws s) with
          | None => Err BadLiteral k
          | Some zs =>
            if forallb (lit_ok n) zs then
              let '(cs, buf') := split0 (buf ++ zs) in
              match parse_lines spec buf' (count + len cs) k rest with
              | DOk n' F => DOk n' (cs ++ F)
              | e => e
              end
            else Err BadLiteral k
          end
        end
    end
  end.

Definition read_lines (universal_newlines : bool) (t : text) : list text :=
  split_lines (if universal_newlines then universal t else t).

Definition parse_dimacs (universal_newlines : bool) (t : text) : result :=
  parse_lines None [] 0 0 (read_lines universal_newlines t).

(* ------------------------------------------------------------------ *)
(* what a text says, stated without the reader's state machine *)

Inductive kind := KBlank | KComment | KSpec | KData.

(* decided by the first character that is not white space *)
Definition line_kind (l : text) : kind :=
  match lstrip l with
  | [] => KBlank
  | c :: _ => if Ascii.eqb c "c"%char then KComment
              else if Ascii.eqb c "p"%char then KSpec else KData
  end.
Definition is_data (l : text) : bool := match line_kind l with KData => true | _ => false end.
Definition is_spec (l : text) : bool := match line_kind l with KSpec => true | _ => false end.

(* all tokens of the data lines, in order; as numbers; cut at the zeros *)
Definition data_tokens (ls : list text) : list text := concat (map split_ws (filter is_data ls)).
Definition clauses_written (ls : list text) : option (list (list Z) * list Z) :=
  match ints_of (data_tokens ls) with
  | Some zs => Some (split0 zs)
  | None => None
  end.
Definition spec_lines (ls : list text) : list text := filter is_spec ls.

(* formulas the writer is defined for: literals non-zero and within the declared range *)
Definition lit_in (n l : Z) : Prop := 1 <= Z.abs l <= n.
Definition valid (n : Z) (F : cnf) : Prop := 0 <= n /\ Forall (Forall (lit_in n)) F.

(* no line break inside a header field or a variable name (both kinds of break):
   needed by the as-found writer only; under it the two writers agree *)
Definition no_break (s : text) : bool := forallb (fun c => negb (is_lf c) && negb (is_cr c)) s.
Definition header_ok (h : option header) : bool :=
  match h with
  | Some h => forallb (fun fv => no_break (fst fv) && no_break (snd fv)) h
  | None => true
  end.
Definition names_ok (names : option (list text)) : bool :=
  match names with Some ns => forallb no_break ns | None => true end.
