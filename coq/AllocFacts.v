(* AllocFacts.v — no variable is mentioned beyond the declared number, and a new
   group never reuses an identifier that an earlier clause mentioned (C10). *)
From Coq Require Import ZArith List Bool Lia ZifyBool.
From Cnfgen Require Import Sem Alloc.
Import ListNotations.
Open Scope Z_scope.

Definition ainv (s : ast) : Prop := 0 <= a_mentioned s <= a_numvar s.

Lemma max_var_clause_nonneg' c : 0 <= max_var_clause c.
Proof. unfold max_var_clause. induction c as [|a t IH]; cbn [fold_right]; lia. Qed.

Lemma astep_inv s o : ainv s -> aop_ok s o = true -> ainv (astep s o).
Proof.
  unfold ainv. intros H Hok. destruct o as [n|c [|]|k]; cbn [astep aop_ok] in *.
  - destruct (n <=? 0) eqn:E; cbn [a_numvar a_mentioned]; lia.
  - pose proof (max_var_clause_nonneg' c). cbn [a_numvar a_mentioned]. lia.
  - pose proof (max_var_clause_nonneg' c). cbn [a_numvar a_mentioned]. lia.
  - cbn [a_numvar a_mentioned]. lia.
Qed.

Theorem arun_inv : forall ops s s', ainv s -> arun s ops = Some s' -> ainv s'.
Proof.
  induction ops as [|o more IH]; intros s s' H E; cbn [arun] in E.
  - inversion E; subst; exact H.
  - destruct (aop_ok s o) eqn:Hok; [|discriminate]. eapply IH; [|exact E]. now apply astep_inv.
Qed.

(* fresh allocation: after ANY history, the identifiers of a new group lie above
   every variable mentioned so far and above the declared number *)
Theorem fresh_after_any_history ops s' : arun ast0 ops = Some s' ->
  a_mentioned s' < first_id s' /\ a_numvar s' < first_id s'.
Proof.
  intros E. assert (H : ainv s') by (eapply arun_inv; [|exact E]; unfold ainv, ast0; cbn; lia).
  unfold ainv, first_id in *. lia.
Qed.

(* the number of variables never decreases *)
Lemma astep_mono s o : a_numvar s <= a_numvar (astep s o).
Proof. destruct o as [n|c [|]|k]; cbn [astep]; try destruct (n <=? 0) eqn:E; cbn [a_numvar]; lia. Qed.
Theorem arun_mono : forall ops s s', arun s ops = Some s' -> a_numvar s <= a_numvar s'.
Proof.
  induction ops as [|o more IH]; intros s s' E; cbn [arun] in E.
  - inversion E; lia.
  - destruct (aop_ok s o); [|discriminate]. pose proof (astep_mono s o). specialize (IH _ _ E). lia.
Qed.
