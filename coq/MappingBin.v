(* MappingBin.v — binary mappings: forbid(i,j) is falsified exactly when the bits of
   pigeon i spell j; meaning of force_complete / injective / nondecreasing. *)
From Coq Require Import ZArith List Bool Lia ZifyBool.
From Cnfgen Require Import Sem Comb Linear IR SemFacts IRFacts Vars VarsLists VarsFacts Mapping.
Import ListNotations.
Open Scope Z_scope.

(* value of a bit string, most significant bit first *)
Fixpoint bits_val (bs : list bool) : Z :=
  match bs with
  | [] => 0
  | b :: t => b2z b * 2 ^ len t + bits_val t
  end.

Lemma pow2_pos k : 0 <= k -> 0 < 2 ^ k.
Proof. intros. apply Z.pow_pos_nonneg; lia. Qed.

Lemma bits_val_range bs : 0 <= bits_val bs < 2 ^ len bs.
Proof.
  induction bs as [|b t IH]; [cbn; lia|].
  cbn [bits_val]. rewrite len_cons. pose proof (len_nonneg t). replace (1 + len t) with (Z.succ (len t)) by lia.
  rewrite Z.pow_succ_r by lia. pose proof (pow2_pos (len t) H). destruct b; cbn [b2z]; lia.
Qed.

Lemma len_prod_rep2 (k : nat) : len (prod_rep [1; -1] k) = 2 ^ Z.of_nat k.
Proof.
  unfold prod_rep. induction k as [|k IH]; [reflexivity|].
  cbn [repeat prod flat_map]. rewrite !len_app, !len_map, IH, len_nil, Nat2Z.inj_succ, Z.pow_succ_r by lia. lia.
Qed.

Lemma prod_rep2_S (k : nat) : prod_rep [1; -1] (S k) = map (cons 1) (prod_rep [1; -1] k) ++ map (cons (-1)) (prod_rep [1; -1] k).
Proof. unfold prod_rep. cbn [repeat prod flat_map]. now rewrite app_nil_r. Qed.

(* the j-th sign pattern, multiplied into positive identifiers, is falsified exactly by the bit string spelling j *)
Lemma flips_clause a : forall ids, (forall x, In x ids -> 0 < x) -> forall j, 0 <= j < 2 ^ len ids ->
  exists sg, znth j (prod_rep [1; -1] (length ids)) = Some sg /\
             clause_sat a (mul_zip sg ids) = negb (bits_val (map a ids) =? j).
Proof.
  induction ids as [|v t IH]; intros Hpos j Hj.
  - cbn in Hj. assert (j = 0) by lia. subst. exists []. split; reflexivity.
  - rewrite len_cons in Hj. pose proof (len_nonneg t) as Lt. replace (1 + len t) with (Z.succ (len t)) in Hj by lia.
    rewrite Z.pow_succ_r in Hj by lia.
    assert (Hv : 0 < v) by (apply Hpos; now left).
    assert (Hpos' : forall x, In x t -> 0 < x) by (intros; apply Hpos; now right).
    pose proof (bits_val_range (map a t)) as Br. rewrite len_map in Br.
    cbn [length]. rewrite prod_rep2_S.
    assert (Lp : len (map (cons 1) (prod_rep [1; -1] (length t))) = 2 ^ len t) by (rewrite len_map, len_prod_rep2; reflexivity).
    destruct (Z.ltb_spec j (2 ^ len t)) as [C|C].
    + destruct (IH Hpos' j ltac:(lia)) as [sg [E1 E2]]. exists (1 :: sg). split.
      * rewrite znth_app1 by lia. rewrite znth_map, E1. reflexivity.
      * cbn [mul_zip map bits_val]. rewrite len_map, clause_sat_cons, E2. replace (1 * v) with v by lia.
        rewrite lit_true_pos by exact Hv. destruct (a v); cbn [b2z orb].
        -- symmetry. apply negb_true_iff. apply Z.eqb_neq. lia.
        -- reflexivity.
    + destruct (IH Hpos' (j - 2 ^ len t) ltac:(lia)) as [sg [E1 E2]]. exists (-1 :: sg). split.
      * rewrite znth_app2 by lia. rewrite Lp, znth_map, E1. reflexivity.
      * cbn [mul_zip map bits_val]. rewrite len_map, clause_sat_cons, E2. replace (-1 * v) with (- v) by lia.
        rewrite lit_true_neg by exact Hv. destruct (a v); cbn [b2z orb negb].
        -- f_equal. destruct (Z.eqb_spec (bits_val (map a t)) (j - 2 ^ len t)); destruct (Z.eqb_spec (1 * 2 ^ len t + bits_val (map a t)) j); try reflexivity; lia.
        -- symmetry. apply negb_true_iff. apply Z.eqb_neq. lia.
Qed.

(* ---------- the bits of pigeon i ---------- *)
Definition row_bits (off n m i : Z) : list Z := pattern_ids off (BinMap n m) [Some i; None].
Definition value (a : Z -> bool) (off n m i : Z) : Z := bits_val (map a (row_bits off n m i)).

Lemma row_bits_spec off n m i : 1 <= i <= n ->
  row_bits off n m i = map (fun b => i * bitlength m - b + off) (down_range (bitlength m)).
Proof.
  intros Hi. unfold row_bits, pattern_ids. cbn [pattern_indices].
  destruct (Z.leb_spec 1 i); [|lia]. destruct (Z.leb_spec i n); [|lia]. cbn [andb flat_map]. rewrite app_nil_r, map_map.
  apply map_ext_in. intros b Hb. unfold down_range in Hb. apply in_map_iff in Hb as [c [<- Hc]]. apply in_zrange in Hc.
  cbn [vg_to_id]. destruct (Z.leb_spec 1 i); [|lia]. destruct (Z.leb_spec i n); [|lia].
  destruct (Z.leb_spec 0 (bitlength m - 1 - c)); [|lia]. destruct (Z.ltb_spec (bitlength m - 1 - c) (bitlength m)); [|lia]. reflexivity.
Qed.

Lemma row_bits_len off n m i : 1 <= i <= n -> len (row_bits off n m i) = bitlength m /\ length (row_bits off n m i) = Z.to_nat (bitlength m).
Proof.
  intros Hi. rewrite row_bits_spec by exact Hi. unfold down_range. pose proof (bitlength_nonneg m).
  split; [rewrite !len_map, zrange_len; lia|rewrite !map_length, zrange_length; lia].
Qed.

Lemma row_bits_pos off n m i x : 0 <= off -> 1 <= i <= n -> In x (row_bits off n m i) -> 0 < x.
Proof.
  intros Hoff Hi Hx. rewrite row_bits_spec in Hx by exact Hi. apply in_map_iff in Hx as [b [<- Hb]].
  unfold down_range in Hb. apply in_map_iff in Hb as [c [<- Hc]]. apply in_zrange in Hc. nia.
Qed.

Lemma value_range a off n m i : 1 <= i <= n -> 0 <= value a off n m i < 2 ^ bitlength m.
Proof. intros Hi. unfold value. pose proof (bits_val_range (map a (row_bits off n m i))) as B. rewrite len_map in B. now rewrite (proj1 (row_bits_len off n m i Hi)) in B. Qed.

Lemma m_le_pow m : 1 <= m -> m <= 2 ^ bitlength m.
Proof.
  intros H. destruct (Z.eq_dec m 1) as [->|N]; [cbn; lia|]. pose proof (bitlength_spec m ltac:(lia)). lia.
Qed.

Lemma prod_rep2_signs (k : nat) sg : In sg (prod_rep [1; -1] k) -> forall s, In s sg -> s = 1 \/ s = -1.
Proof.
  unfold prod_rep. revert sg. induction k as [|k IH]; intros sg E.
  - destruct E as [<-|[]]. intros s [].
  - cbn [repeat prod] in E. apply in_flat_map in E as [x [Hx E]]. apply in_map_iff in E as [sg' [<- E]].
    intros s [<-|Hs]; [cbn in Hx; intuition|]. eapply IH; eauto.
Qed.

Lemma mul_zip_ok : forall ids sg, (forall x, In x ids -> 0 < x) -> (forall s, In s sg -> s = 1 \/ s = -1) ->
  lits_ok (mul_zip sg ids) = true.
Proof.
  induction ids as [|v t IH]; intros sg P S; destruct sg as [|s sg']; try reflexivity.
  cbn [mul_zip lits_ok forallb]. apply andb_true_iff. split.
  - apply nonzero_spec. specialize (P v (or_introl eq_refl)). destruct (S s (or_introl eq_refl)); subst; lia.
  - apply IH; [intros; apply P; now right|intros; apply S; now right].
Qed.

(* forbid(i,j) is falsified exactly when pigeon i's bits spell j *)
Theorem forbid_sem a off n m i j : 0 <= off -> 1 <= i <= n -> 0 <= j < 2 ^ bitlength m ->
  exists c, vmap_forbid off n m i j = Some c /\ clause_sat a c = negb (value a off n m i =? j) /\ lits_ok c = true.
Proof.
  intros Hoff Hi Hj. unfold vmap_forbid. destruct (Z.geb_spec j (2 ^ bitlength m)) as [G|G]; [lia|].
  destruct (row_bits_len off n m i Hi) as [L1 L2].
  assert (P : forall x, In x (row_bits off n m i) -> 0 < x) by (intros; eapply row_bits_pos; eauto).
  destruct (flips_clause a (row_bits off n m i) P j ltac:(rewrite L1; lia)) as [sg [E1 E2]].
  unfold flips. rewrite L2 in E1. fold (row_bits off n m i). rewrite E1. eexists. split; [reflexivity|]. split; [exact E2|].
  apply mul_zip_ok; [exact P|]. apply znth_In in E1. eapply prod_rep2_signs; eauto.
Qed.

Lemma forbid_cl_sem a off n m i j : 0 <= off -> 1 <= i <= n -> 0 <= j < 2 ^ bitlength m ->
  clause_sat a (forbid_cl off n m i j) = negb (value a off n m i =? j) /\ lits_ok (forbid_cl off n m i j) = true.
Proof. intros H1 H2 H3. destruct (forbid_sem a off n m i j H1 H2 H3) as [c [E [S O]]]. unfold forbid_cl. rewrite E. auto. Qed.

(* ---------- helpers on irs_hold ---------- *)
Lemma irs_hold_flat_map {A} a (f : A -> list ir) l : irs_hold a (flat_map f l) = forallb (fun x => irs_hold a (f x)) l.
Proof. induction l as [|x t IH]; [reflexivity|]. cbn [flat_map forallb]. now rewrite irs_hold_app, IH. Qed.
Lemma irs_hold_map {A} a (f : A -> ir) l : irs_hold a (map f l) = forallb (fun x => ir_holds a (f x)) l.
Proof. unfold irs_hold. apply forallb_map. Qed.
Lemma irs_ok_flat_map {A} (f : A -> list ir) l : irs_ok (flat_map f l) = forallb (fun x => irs_ok (f x)) l.
Proof. induction l as [|x t IH]; [reflexivity|]. cbn [flat_map forallb]. now rewrite irs_ok_app, IH. Qed.
Lemma irs_ok_map {A} (f : A -> ir) l : irs_ok (map f l) = forallb (fun x => ir_ok (f x)) l.
Proof. unfold irs_ok. apply forallb_map. Qed.
Lemma lits_ok_app l1 l2 : lits_ok (l1 ++ l2) = lits_ok l1 && lits_ok l2.
Proof. unfold lits_ok. apply forallb_app. Qed.

(* combinations(range(a,b), 2) *)
Lemma in_pairs_cons {A} (x : A) t p : In p (pairs (x :: t)) <-> (exists y, In y t /\ p = (x, y)) \/ In p (pairs t).
Proof.
  cbn [pairs]. rewrite in_app_iff, in_map_iff. split; intros [H|H]; auto.
  - left. destruct H as [y [E Hy]]. eauto.
  - left. destruct H as [y [Hy E]]. eauto.
Qed.

Lemma in_pairs_zrange x y : forall (k : nat) a, In (x, y) (pairs (zrange a (a + Z.of_nat k))) <-> a <= x < y /\ y < a + Z.of_nat k.
Proof.
  induction k as [|k IH]; intros a.
  - rewrite zrange_empty by lia. cbn. lia.
  - rewrite zrange_cons by lia. rewrite in_pairs_cons. replace (a + Z.of_nat (S k)) with ((a + 1) + Z.of_nat k) by lia.
    rewrite IH. split.
    + intros [[z [Hz E]]|H]; [|lia]. injection E as -> ->. apply in_zrange in Hz. lia.
    + intros H. destruct (Z.eq_dec x a) as [->|N].
      * left. exists y. split; [apply in_zrange; lia|reflexivity].
      * right. lia.
Qed.

Lemma in_pairs_zrange_Z x y a b : In (x, y) (pairs (zrange a b)) <-> a <= x < y /\ y < b.
Proof.
  destruct (Z.le_gt_cases a b) as [H|H].
  - replace b with (a + Z.of_nat (Z.to_nat (b - a))) at 1 by lia. rewrite in_pairs_zrange. lia.
  - rewrite zrange_empty by lia. cbn. lia.
Qed.

(* ---------- meaning of the constraints on binary mappings ---------- *)
Section Binary.
  Context (a : Z -> bool) (off n m : Z) (Hoff : 0 <= off) (Hn : 1 <= n) (Hm : 1 <= m).
  Let val := value a off n m.

  Theorem bin_complete_sem :
    irs_hold a (vm_force_complete off (MBinary n m)) = true <-> forall i, 1 <= i <= n -> val i < m.
  Proof.
    cbn [vm_force_complete m_domain]. rewrite irs_hold_flat_map, forallb_forall. pose proof (m_le_pow m Hm) as Mp. split.
    - intros H i Hi. specialize (H i ltac:(apply in_zrange; lia)). rewrite irs_hold_map, forallb_forall in H.
      pose proof (value_range a off n m i Hi) as Vr. fold val in Vr.
      destruct (Z.lt_ge_cases (val i) m) as [C|C]; [exact C|]. exfalso.
      specialize (H (val i) ltac:(apply in_zrange; lia)). cbn [ir_holds] in H.
      rewrite (proj1 (forbid_cl_sem a off n m i (val i) Hoff Hi ltac:(lia))) in H. fold val in H. rewrite Z.eqb_refl in H. discriminate.
    - intros H i Hi. apply in_zrange in Hi. rewrite irs_hold_map, forallb_forall. intros j Hj. apply in_zrange in Hj.
      cbn [ir_holds]. rewrite (proj1 (forbid_cl_sem a off n m i j Hoff ltac:(lia) ltac:(lia))). fold val.
      apply negb_true_iff, Z.eqb_neq. specialize (H i ltac:(lia)). lia.
  Qed.

  Theorem bin_injective_sem :
    irs_hold a (vm_force_injective off (MBinary n m)) = true <->
    forall x1 x2, 1 <= x1 < x2 /\ x2 <= n -> val x1 = val x2 -> m <= val x1.
  Proof.
    cbn [vm_force_injective m_domain m_range]. rewrite irs_hold_flat_map, forallb_forall. pose proof (m_le_pow m Hm) as Mp. split.
    - intros H x1 x2 Hx E. destruct (Z.lt_ge_cases (val x1) m) as [C|C]; [exfalso|exact C].
      pose proof (value_range a off n m x1 ltac:(lia)) as Vr. fold val in Vr.
      specialize (H (val x1) ltac:(apply in_zrange; lia)). rewrite irs_hold_map, forallb_forall in H.
      specialize (H (x1, x2) ltac:(apply in_pairs_zrange_Z; lia)). cbn [ir_holds fst snd] in H.
      rewrite clause_sat_app in H.
      rewrite (proj1 (forbid_cl_sem a off n m x1 (val x1) Hoff ltac:(lia) ltac:(lia))) in H.
      rewrite (proj1 (forbid_cl_sem a off n m x2 (val x1) Hoff ltac:(lia) ltac:(lia))) in H. fold val in H.
      rewrite <- E, Z.eqb_refl in H. discriminate.
    - intros H y Hy. apply in_zrange in Hy. rewrite irs_hold_map, forallb_forall. intros [x1 x2] Hx. apply in_pairs_zrange_Z in Hx.
      cbn [ir_holds fst snd]. rewrite clause_sat_app.
      rewrite (proj1 (forbid_cl_sem a off n m x1 y Hoff ltac:(lia) ltac:(lia))).
      rewrite (proj1 (forbid_cl_sem a off n m x2 y Hoff ltac:(lia) ltac:(lia))). fold val.
      destruct (Z.eqb_spec (val x1) y) as [E1|E1]; [|reflexivity]. destruct (Z.eqb_spec (val x2) y) as [E2|E2]; [|reflexivity].
      exfalso. specialize (H x1 x2 ltac:(lia) ltac:(lia)). lia.
  Qed.

  Theorem bin_nondecreasing_sem :
    irs_hold a (vm_force_nondecreasing off (MBinary n m)) = true <->
    forall u1 u2, 1 <= u1 < u2 /\ u2 <= n -> val u2 < val u1 -> m <= val u1.
  Proof.
    cbn [vm_force_nondecreasing m_domain m_range]. rewrite irs_hold_flat_map, forallb_forall. pose proof (m_le_pow m Hm) as Mp. split.
    - intros H u1 u2 Hu D. destruct (Z.lt_ge_cases (val u1) m) as [C|C]; [exfalso|exact C].
      pose proof (value_range a off n m u2 ltac:(lia)) as Vr. fold val in Vr.
      specialize (H (u1, u2) ltac:(apply in_pairs_zrange_Z; lia)). rewrite irs_hold_map, forallb_forall in H.
      specialize (H (val u2, val u1) ltac:(apply in_pairs_zrange_Z; lia)). cbn [ir_holds fst snd] in H.
      rewrite clause_sat_app in H.
      rewrite (proj1 (forbid_cl_sem a off n m u1 (val u1) Hoff ltac:(lia) ltac:(lia))) in H.
      rewrite (proj1 (forbid_cl_sem a off n m u2 (val u2) Hoff ltac:(lia) ltac:(lia))) in H. fold val in H.
      rewrite !Z.eqb_refl in H. discriminate.
    - intros H [u1 u2] Hu. apply in_pairs_zrange_Z in Hu. rewrite irs_hold_map, forallb_forall. intros [v1 v2] Hv. apply in_pairs_zrange_Z in Hv.
      cbn [ir_holds fst snd]. rewrite clause_sat_app.
      rewrite (proj1 (forbid_cl_sem a off n m u1 v2 Hoff ltac:(lia) ltac:(lia))).
      rewrite (proj1 (forbid_cl_sem a off n m u2 v1 Hoff ltac:(lia) ltac:(lia))). fold val.
      destruct (Z.eqb_spec (val u1) v2) as [E1|E1]; [|reflexivity]. destruct (Z.eqb_spec (val u2) v1) as [E2|E2]; [|reflexivity].
      exfalso. specialize (H u1 u2 ltac:(lia) ltac:(lia)). lia.
  Qed.

  (* together with completeness: the usual reading *)
  Corollary bin_complete_injective :
    irs_hold a (vm_force_complete off (MBinary n m) ++ vm_force_injective off (MBinary n m)) = true <->
    (forall i, 1 <= i <= n -> val i < m) /\ (forall x1 x2, 1 <= x1 < x2 /\ x2 <= n -> val x1 <> val x2).
  Proof.
    rewrite irs_hold_app, andb_true_iff, bin_complete_sem, bin_injective_sem. split.
    - intros [C I]. split; [exact C|]. intros x1 x2 Hx E. specialize (I x1 x2 Hx E). specialize (C x1 ltac:(lia)). lia.
    - intros [C I]. split; [exact C|]. intros x1 x2 Hx E. exfalso. now apply (I x1 x2 Hx).
  Qed.

  Corollary bin_complete_nondecreasing :
    irs_hold a (vm_force_complete off (MBinary n m) ++ vm_force_nondecreasing off (MBinary n m)) = true <->
    (forall i, 1 <= i <= n -> val i < m) /\ (forall u1 u2, 1 <= u1 < u2 /\ u2 <= n -> val u1 <= val u2).
  Proof.
    rewrite irs_hold_app, andb_true_iff, bin_complete_sem, bin_nondecreasing_sem. split.
    - intros [C I]. split; [exact C|]. intros u1 u2 Hu. destruct (Z.le_gt_cases (val u1) (val u2)) as [D|D]; [exact D|].
      specialize (I u1 u2 Hu ltac:(lia)). specialize (C u1 ltac:(lia)). lia.
    - intros [C I]. split; [exact C|]. intros u1 u2 Hu D. specialize (I u1 u2 Hu). lia.
  Qed.

  Theorem bin_functional_sem : vm_force_functional off (MBinary n m) = [].
  Proof. reflexivity. Qed.

  (* force_surjective_mapping on a binary mapping always ends in ValueError *)
  Theorem bin_surjective_raises : snd (vm_force_surjective off (MBinary n m)) = true.
  Proof.
    cbn [vm_force_surjective snd]. apply Z.ltb_lt.
    destruct (Z.eq_dec m 1) as [->|N]; [cbn; lia|]. pose proof (bitlength_spec m ltac:(lia)) as [B _].
    pose proof (bitlength_nonneg m) as K.
    destruct (Z.lt_ge_cases (bitlength m) m) as [C|C]; [exact C|exfalso].
    assert (E : bitlength m - 1 < 2 ^ (bitlength m - 1)) by (apply Z.pow_gt_lin_r; lia). lia.
  Qed.

  (* every literal produced is a non-zero integer: the constraints transfer to both renderings *)
  Theorem bin_constraints_ok :
    irs_ok (vm_force_complete off (MBinary n m)) = true /\ irs_ok (vm_force_injective off (MBinary n m)) = true /\
    irs_ok (vm_force_nondecreasing off (MBinary n m)) = true.
  Proof.
    pose proof (m_le_pow m Hm) as Mp. split; [|split].
    - cbn [vm_force_complete m_domain]. rewrite irs_ok_flat_map. apply forallb_forall. intros i Hi. apply in_zrange in Hi.
      rewrite irs_ok_map. apply forallb_forall. intros j Hj. apply in_zrange in Hj.
      apply (proj2 (forbid_cl_sem a off n m i j Hoff ltac:(lia) ltac:(lia))).
    - cbn [vm_force_injective m_domain m_range]. rewrite irs_ok_flat_map. apply forallb_forall. intros y Hy. apply in_zrange in Hy.
      rewrite irs_ok_map. apply forallb_forall. intros [x1 x2] Hx. apply in_pairs_zrange_Z in Hx.
      unfold ir_ok. cbn [ir_lits fst snd]. rewrite lits_ok_app.
      rewrite (proj2 (forbid_cl_sem a off n m x1 y Hoff ltac:(lia) ltac:(lia))).
      now rewrite (proj2 (forbid_cl_sem a off n m x2 y Hoff ltac:(lia) ltac:(lia))).
    - cbn [vm_force_nondecreasing m_domain m_range]. rewrite irs_ok_flat_map. apply forallb_forall. intros [u1 u2] Hu. apply in_pairs_zrange_Z in Hu.
      rewrite irs_ok_map. apply forallb_forall. intros [v1 v2] Hv. apply in_pairs_zrange_Z in Hv.
      unfold ir_ok. cbn [ir_lits fst snd]. rewrite lits_ok_app.
      rewrite (proj2 (forbid_cl_sem a off n m u1 v2 Hoff ltac:(lia) ltac:(lia))).
      now rewrite (proj2 (forbid_cl_sem a off n m u2 v1 Hoff ltac:(lia) ltac:(lia))).
  Qed.
End Binary.
