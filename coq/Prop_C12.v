(* Property C12 — OPB and LaTeX renderings denote the formula held in memory.
   ONLY statements; every proof is `exact <lemma>` (or a vm_compute witness). *)
From Coq Require Import String ZArith List Bool Ascii.
From Cnfgen Require Import Sem Text TextFacts Dimacs DimacsFacts OpbText OpbTextFacts Latex LatexFacts.
Import ListNotations.
Open Scope Z_scope.

(* ---- OPB ---- *)

(* print_opb is to_opb_file as it is now (after commit 7278321: every header field
   and every variable name goes through _within_comment).
   The full claim: an independent reader of the OPB format gets, from the text
   of ANY CNF or pseudo-Boolean object, with ANY header and ANY variable names
   (line breaks included), the declared number of variables and, constraint by
   constraint, the coefficients, literals, relation and degree held in memory
   (a clause is  sum of its literals >= 1) *)
Theorem opb_roundtrip : forall h names f, opb_valid f -> opb_printable f ->
  parse_opb (print_opb h names f) = OOk (numvar f) (constraints f).
Proof. exact opb_roundtrip_proved. Qed.
Print Assumptions opb_roundtrip.

(* CNF objects satisfy the hypotheses as soon as their literals are in range *)
Theorem opb_roundtrip_cnf_hypotheses : forall n F,
  valid n F -> printable n -> printable (len F) -> opb_valid (FCnf n F) /\ opb_printable (FCnf n F).
Proof. intros n F V Pn Pm. exact (conj (cnf_opb_valid n F V) (cnf_opb_printable n F Pn Pm)). Qed.
Print Assumptions opb_roundtrip_cnf_hypotheses.

Example opb_roundtrip_nonvacuous :
  let f := FOpb 4 [mkpbc [(2, 3); (1, -1); (3, 4)] PGe 2; mkpbc [] PEq (-1); mkpbc [(1, 1); (2, -2)] PEq 2] in
  let h := Some [(lit "description", lit "a % * formula"); ([ "k"%char; CR; LF; "+"%char ], [ "1"%char; LF; ">"%char; CR; "="%char ])] in
  let names := Some [lit "X"; lit "* y"; [ "a"%char; LF; "+"%char; "1"%char; " "%char; "x"%char; "1"%char; CR ]] in
  opb_valid f /\ opb_printable f /\ header_ok h = false /\ names_ok names = false /\
  parse_opb (print_opb h names f) = OOk 4 (constraints f) /\
  parse_opb (print_opb None None (FCnf 3 [[1; -2]; []; [3]])) =
    OOk 3 [mkpbc [(1, 1); (1, -2)] PGe 1; mkpbc [] PGe 1; mkpbc [(1, 3)] PGe 1].
Proof.
  cbv zeta. split; [|split; [|vm_compute; auto]].
  - split; [discriminate|]. unfold pbc_ok, term_ok, op_ok.
    repeat (apply Forall_cons || apply Forall_nil);
      (split; [repeat constructor; cbn; discriminate | (left; reflexivity) || (right; reflexivity)]).
  - split; [apply printable_million; vm_compute; discriminate|].
    split; [apply printable_million; vm_compute; discriminate|].
    unfold pbc_printable. repeat constructor; apply printable_million; vm_compute; discriminate.
Qed.

(* shape: the first line declares the true counts, then comment lines (first
   character '*'), then one line per constraint (first character not '*'),
   for every header and every list of names;
   opb_comment_lines = the lines of the comment part of the text *)
Theorem opb_shape : forall h names f,
  split_lines (print_opb h names f) =
    opb_spec_line (numvar f) (len (constraints f)) :: opb_comment_lines h names ++
    map constraint_line (constraints f) /\
  Forall starts_star (opb_comment_lines h names) /\
  Forall not_star (map constraint_line (constraints f)).
Proof. exact opb_shape_proved. Qed.
Print Assumptions opb_shape.

(* no carriage return is written: a reader with universal newlines sees the same lines *)
Theorem opb_no_carriage_return : forall h names f, no_cr (print_opb h names f) = true.
Proof. exact print_opb_no_cr. Qed.
Print Assumptions opb_no_carriage_return.

(* without line breaks in fields and names the repair changed no byte, and the
   comment lines are one per header field, "*", one per name, "*" *)
Theorem print_opb_unchanged : forall h names f,
  header_ok h = true -> names_ok names = true ->
  print_opb h names f = print_opb_as_found h names f /\
  opb_comment_lines h names = opb_comment_lines_as_found h names.
Proof. exact OpbTextFacts.print_opb_unchanged. Qed.
Print Assumptions print_opb_unchanged.

(* ---- the OPB writer as it was found (before commit 7278321; defect D4) ---- *)
Definition opb_roundtrip_as_found_statement : Prop :=
  forall h names f, opb_valid f -> opb_printable f ->
    parse_opb (print_opb_as_found h names f) = OOk (numvar f) (constraints f).

Theorem opb_roundtrip_as_found_partial : forall h names f,
  opb_valid f -> opb_printable f -> header_ok h = true -> names_ok names = true ->
  parse_opb (print_opb_as_found h names f) = OOk (numvar f) (constraints f).
Proof. exact opb_roundtrip_as_found_proved. Qed.
Print Assumptions opb_roundtrip_as_found_partial.

Theorem opb_header_newline_refuted : ~ opb_roundtrip_as_found_statement.
Proof.
  intros H.
  specialize (H (Some [(lit "description", [ "x"%char; LF; "y"%char ])]) None (FCnf 1 [[1]])).
  destruct (opb_roundtrip_cnf_hypotheses 1 [[1]]) as [V P].
  - split; [discriminate | repeat constructor; vm_compute; discriminate].
  - apply printable_million; vm_compute; discriminate.
  - apply printable_million; vm_compute; discriminate.
  - specialize (H V P). vm_compute in H. discriminate H.
Qed.
Print Assumptions opb_header_newline_refuted.

Theorem opb_shape_as_found_partial : forall h names f, header_ok h = true -> names_ok names = true ->
  split_lines (print_opb_as_found h names f) =
    opb_spec_line (numvar f) (len (constraints f)) :: opb_comment_lines_as_found h names ++
    map constraint_line (constraints f) /\
  Forall starts_star (opb_comment_lines_as_found h names) /\
  Forall not_star (map constraint_line (constraints f)).
Proof. exact opb_shape_as_found_proved. Qed.
Print Assumptions opb_shape_as_found_partial.

(* a name that continues with something that looks like a constraint used to become
   a constraint line of its own (the reader then finds one constraint too many);
   now it stays inside the comment *)
Theorem opb_name_newline_refuted : exists names,
  parse_opb (print_opb_as_found None (Some names) (FCnf 1 [])) = OErr OWrongCount 0 /\
  parse_opb (print_opb None (Some names) (FCnf 1 [])) = OOk 1 [].
Proof. exists [[ "a"%char; LF ] ++ lit "+1 x1 >= 1"]. vm_compute. auto. Qed.
Print Assumptions opb_name_newline_refuted.

Theorem opb_first_line_counts : forall n m, 0 <= n -> 0 <= m -> small n -> small m ->
  parse_opb_spec (opb_spec_line n m) = Some (n, m).
Proof. exact parse_opb_spec_line. Qed.
Print Assumptions opb_first_line_counts.

(* ---- LaTeX ---- *)

(* the full claim: the align blocks written by _print_latex (snippet: no split,
   compact; document: a new block every 35 rows, not compact; any other split)
   decode to one row per clause / constraint, in order, each with exactly the
   literal tokens of that row ({name}, \overline{name} or {\overline{pre}post};
   for constraints preceded by the coefficient when it exceeds 1, followed by the
   relation and the bound); the empty clause is \square; \top is present exactly
   when there is no row *)
Definition latex_rows_statement : Prop :=
  forall names split compact f t,
  print_latex names split compact f = Some t ->
  exists rows, formula_lrows names f = Some rows /\
               rows_of_latex (is_opb f) t = (negb (nonempty rows), rows).

(* proved for names without white space inside *)
Theorem latex_rows_partial : forall names split compact f t,
  latex_names_ok names = true ->
  print_latex names split compact f = Some t ->
  exists rows, formula_lrows names f = Some rows /\
               rows_of_latex (is_opb f) t = (negb (nonempty rows), rows).
Proof. exact latex_rows_proved. Qed.
Print Assumptions latex_rows_partial.

(* a name with a blank is cut into two tokens: the rows are no longer told apart token by token *)
Theorem latex_rows_names_refuted : ~ latex_rows_statement.
Proof.
  intros H. destruct (H [lit "a b"] (-1) true (FCnf 1 [[1]]) _ eq_refl) as (rows & E1 & E2).
  vm_compute in E1. inversion E1; subst rows. vm_compute in E2. discriminate E2.
Qed.
Print Assumptions latex_rows_names_refuted.

(* ---- from tokens to literals ---- *)

(* the inverse of the literal table: a literal token decodes to the polarity and
   the variable name of its literal -- for names that do not begin with \overline{
   (any other name, white space or braces inside included) *)
Theorem latex_lit_token_inverse : forall names l tok,
  latex_names_decodable names = true ->
  lit_token names l = Some tok ->
  exists pl, lit_name names l = Some pl /\ decode_lit tok = Some pl /\
             exists ch r, tok = ch :: r /\ is_digit ch = false.
Proof. exact decode_lit_token. Qed.
Print Assumptions latex_lit_token_inverse.

(* the condition is needed: {\overline{x}_1} is both the positive literal of the
   name "\overline{x}_1" and the negative literal of the name "x_1" *)
Theorem latex_lit_token_ambiguous : exists names,
  lit_token names 1 = lit_token names (-2) /\ lit_name names 1 <> lit_name names (-2).
Proof. exists [lit "\overline{x}_1"; lit "x_1"]. split; [vm_compute; reflexivity|vm_compute; discriminate]. Qed.
Print Assumptions latex_lit_token_ambiguous.

(* the rows of the text, read as LITERALS: for every row split and both layouts
   the align blocks decode to one row per clause / constraint, in order, and the
   tokens of each row decode to exactly the literals of that clause / constraint
   as (polarity, variable name) -- for constraints with the coefficient as shown
   (none when it does not exceed 1), the relation and the bound; formula_litrows
   is computed from the formula in memory and the names only *)
Theorem latex_rows_literals : forall names split compact f t,
  latex_names_ok names = true -> latex_names_decodable names = true ->
  print_latex names split compact f = Some t ->
  exists rows lrows,
    rows_of_latex (is_opb f) t = (negb (nonempty rows), rows) /\
    formula_litrows names f = Some lrows /\
    map decode_lrow rows = map Some lrows.
Proof. exact latex_rows_literals_proved. Qed.
Print Assumptions latex_rows_literals.

Theorem latex_literal_row_count : forall names f lrows,
  formula_litrows names f = Some lrows -> length lrows = length (constraints f).
Proof. exact formula_litrows_length. Qed.
Print Assumptions latex_literal_row_count.

Example latex_rows_literals_nonvacuous :
  let names := [lit "x_1"; lit "y"; lit "z^2_3"; lit "_u_v"; lit "{a}b"] in
  latex_names_ok names = true /\ latex_names_decodable names = true /\
  formula_litrows names (FCnf 5 [[1; -2]; []; [-1; 3; -4]; [-3; -5; 5]]) =
    Some [LClause [(true, lit "x_1"); (false, lit "y")]; LSquare;
          LClause [(false, lit "x_1"); (true, lit "z^2_3"); (false, lit "_u_v")];
          LClause [(false, lit "z^2_3"); (false, lit "{a}b"); (true, lit "{a}b")]] /\
  option_map (fun t => map decode_lrow (snd (rows_of_latex false t)))
             (print_latex names 2 true (FCnf 5 [[1; -2]; []; [-1; 3; -4]; [-3; -5; 5]])) =
    Some [Some (LClause [(true, lit "x_1"); (false, lit "y")]); Some LSquare;
          Some (LClause [(false, lit "x_1"); (true, lit "z^2_3"); (false, lit "_u_v")]);
          Some (LClause [(false, lit "z^2_3"); (false, lit "{a}b"); (true, lit "{a}b")])] /\
  option_map (fun t => map decode_lrow (snd (rows_of_latex true t)))
             (print_latex names 35 false (FOpb 5 [mkpbc [(2, -1); (1, 3); (12, -3)] PGe 2; mkpbc [] PEq 0])) =
    Some [Some (LConstraint [(lit "2", (false, lit "x_1")); ([], (true, lit "z^2_3")); (lit "12", (false, lit "z^2_3"))] PGe (lit "2"));
          Some (LConstraint [] PEq (lit "0"))].
Proof. vm_compute. repeat split. Qed.

(* one row per clause / constraint *)
Theorem latex_row_count : forall names f rows,
  formula_lrows names f = Some rows -> length rows = length (constraints f).
Proof. exact formula_lrows_length. Qed.
Print Assumptions latex_row_count.

(* the writer is defined (no KeyError) when every literal has a name *)
Theorem latex_defined : forall names split compact f,
  (forall c l, In c (constraints f) -> In l (map snd (pb_terms c)) -> l <> 0 /\ Z.abs l <= len names) ->
  exists t, print_latex names split compact f = Some t.
Proof. exact print_latex_defined. Qed.
Print Assumptions latex_defined.

(* the empty clause and the empty formula are rendered distinctly; a page split
   neither drops nor repeats a row *)
Example latex_rows_nonvacuous :
  let names := [lit "x_1"; lit "y"; lit "z^2_3"] in
  latex_names_ok names = true /\
  option_map (rows_of_latex false) (print_latex_string names (FCnf 3 [])) = Some (true, []) /\
  option_map (rows_of_latex false) (print_latex_string names (FCnf 3 [[]])) = Some (false, [RSquare]) /\
  option_map (rows_of_latex false) (print_latex names 2 false (FCnf 3 [[1; -2]; []; [-1; 3]; [-3]; [2]])) =
    Some (false, [RClause [lit "{x_1}"; lit "\overline{y}"]; RSquare;
                  RClause [lit "{\overline{x}_1}"; lit "{z^2_3}"]; RClause [lit "{\overline{z}^2_3}"];
                  RClause [lit "{y}"]]) /\
  option_map (rows_of_latex true)
             (print_latex names 35 false (FOpb 3 [mkpbc [(2, -1); (1, 3)] PGe 2; mkpbc [] PEq 0])) =
    Some (false, [RConstraint [lit "2{\overline{x}_1}"; lit "{z^2_3}"] PGe (lit "2"); RConstraint [] PEq (lit "0")]).
Proof. vm_compute. repeat split. Qed.
