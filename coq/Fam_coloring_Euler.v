(* Fam_coloring_Euler.v — the converse direction for EvenColoringFormula: if every vertex has even
   degree (the generator does not raise) and every union of connected components contains an even
   number of edges, then the formula is satisfiable.
   Proof: the edges of a graph with even degrees split into closed trails (walk from one odd vertex to
   the other after removing an edge); closed trails that share a vertex are spliced together until the
   trails are pairwise vertex disjoint, so that the vertices of each trail form a union of components
   and its length is even by hypothesis; colouring every trail alternately gives every vertex as many
   chosen as unchosen incident edges.  Everything here is proof machinery; the statement is
   Fam_coloring.ec_sat_of_even_components_statement. *)
From Coq Require Import ZArith List Bool Lia ZifyBool Permutation.
From Cnfgen Require Import Sem Comb Linear SemFacts LinearFacts IR IRFacts C02Common C02CommonFacts
  Fam_tseitin Fam_tseitin_Facts Fam_coloring Fam_coloring_Facts.
Import ListNotations.
Open Scope Z_scope.

Definition iedge := (Z * (Z * Z))%type.
(* an edge with a direction of travel *)
Definition dart := (bool * iedge)%type.
Definition eu (x : iedge) : Z := fst (snd x).
Definition ew (x : iedge) : Z := snd (snd x).
Definition src (d : dart) : Z := if fst d then ew (snd d) else eu (snd d).
Definition dst (d : dart) : Z := if fst d then eu (snd d) else ew (snd d).

Fixpoint chain (x : Z) (ds : list dart) (y : Z) : Prop :=
  match ds with
  | [] => x = y
  | d :: t => src d = x /\ chain (dst d) t y
  end.

Lemma chain_app x A B y : chain x (A ++ B) y <-> exists z, chain x A z /\ chain z B y.
Proof.
  revert x. induction A as [|d A IH]; intros x; cbn [app chain].
  - split; [intros H; now exists x|intros [z [-> H]]; exact H].
  - rewrite IH. split; [intros [Hs [z [H1 H2]]]; exists z; auto|intros [z [[Hs H1] H2]]; split; [exact Hs|now exists z]].
Qed.

(* parity of the degree *)
Fixpoint par (M : list iedge) (v : Z) : bool :=
  match M with
  | [] => false
  | x :: t => xorb (xorb (eu x =? v) (ew x =? v)) (par t v)
  end.

Lemma par_app M1 M2 v : par (M1 ++ M2) v = xorb (par M1 v) (par M2 v).
Proof.
  induction M1 as [|x M1 IH]; cbn [app par]; [now destruct (par M2 v)|]. rewrite IH.
  destruct (xorb (eu x =? v) (ew x =? v)), (par M1 v), (par M2 v); reflexivity.
Qed.

Lemma par_perm M1 M2 v : Permutation M1 M2 -> par M1 v = par M2 v.
Proof.
  induction 1 as [|x l l' _ IH|x y l|l l' l'' _ IH1 _ IH2]; cbn [par]; [reflexivity|now rewrite IH| |congruence].
  destruct (xorb (eu x =? v) (ew x =? v)), (xorb (eu y =? v) (ew y =? v)), (par l v); reflexivity.
Qed.

Lemma par_dart d v : xorb (eu (snd d) =? v) (ew (snd d) =? v) = xorb (src d =? v) (dst d =? v).
Proof. unfold src, dst. destruct (fst d); [apply xorb_comm|reflexivity]. Qed.

Lemma par_chain v : forall T x y, chain x T y -> par (map snd T) v = xorb (x =? v) (y =? v).
Proof.
  induction T as [|d T IH]; intros x y H; cbn [chain] in H.
  - subst. cbn. now rewrite xorb_nilpotent.
  - destruct H as [Hs H]. cbn [map par]. rewrite (IH _ _ H), par_dart, Hs.
    destruct (x =? v), (dst d =? v), (y =? v); reflexivity.
Qed.

(* an odd vertex has an incident edge *)
Lemma par_true_edge M v : par M v = true -> exists M1 x M2, M = M1 ++ x :: M2 /\ xorb (eu x =? v) (ew x =? v) = true.
Proof.
  induction M as [|x M IH]; cbn [par]; [discriminate|]. intros H.
  destruct (xorb (eu x =? v) (ew x =? v)) eqn:E.
  - exists [], x, M. now split.
  - rewrite xorb_false_l in H. destruct (IH H) as [M1 [y [M2 [-> Hy]]]]. exists (x :: M1), y, M2. now split.
Qed.

(* ---------- a trail between the two odd vertices ---------- *)
Lemma walk : forall k M, length M = k -> forall x y, x <> y ->
  (forall v, par M v = xorb (x =? v) (y =? v)) ->
  exists ds R, ds <> [] /\ chain x ds y /\ Permutation M (map snd ds ++ R).
Proof.
  induction k as [|k IH]; intros M Hk x y Hxy Hp.
  - destruct M; [|discriminate]. specialize (Hp x). cbn in Hp. rewrite Z.eqb_refl in Hp.
    destruct (Z.eqb_spec y x); [congruence|discriminate].
  - assert (Hx : par M x = true).
    { rewrite Hp, Z.eqb_refl. destruct (Z.eqb_spec y x); [congruence|reflexivity]. }
    destruct (par_true_edge M x Hx) as [M1 [e [M2 [-> He]]]].
    (* the dart leaving x along e, and its other end z *)
    set (d := ((ew e =? x), e) : dart).
    assert (Hsrc : src d = x).
    { unfold src, d. cbn [fst snd]. destruct (Z.eqb_spec (ew e) x) as [E|E]; [exact E|].
      destruct (Z.eqb_spec (eu e) x) as [E'|E']; [exact E'|discriminate]. }
    set (z := dst d).
    assert (Hlen : length (M1 ++ M2) = k) by (rewrite app_length in *; cbn in Hk; lia).
    assert (Hpar' : forall v, par (M1 ++ M2) v = xorb (z =? v) (y =? v)).
    { intros v. specialize (Hp v). rewrite par_app in *. cbn [par] in Hp.
      pose proof (par_dart d v) as Hd. change (snd d) with e in Hd. rewrite Hd, Hsrc in Hp. fold z in Hp.
      destruct (x =? v), (z =? v), (y =? v), (par M1 v), (par M2 v); cbn in *; congruence. }
    destruct (Z.eq_dec z y) as [Hzy|Hzy].
    + exists [d], (M1 ++ M2). split; [discriminate|]. split; [cbn; auto|].
      cbn [map snd app]. symmetry. apply Permutation_middle.
    + destruct (IH (M1 ++ M2) Hlen z y Hzy Hpar') as [ds [R [_ [Hc HP]]]].
      exists (d :: ds), R. split; [discriminate|]. split; [cbn; auto|].
      cbn [map snd app]. fold (snd d). symmetry. etransitivity; [|apply Permutation_middle].
      cbn. constructor. now symmetry.
Qed.

(* ---------- splitting an even graph into closed trails ---------- *)
Definition closed (T : list dart) : Prop := T <> [] /\ exists x, chain x T x.

Lemma closed_trail M e : (forall v, par (e :: M) v = false) ->
  exists T R, closed T /\ Permutation (e :: M) (map snd T ++ R).
Proof.
  intros Hp. set (d := (false, e) : dart).
  destruct (Z.eq_dec (ew e) (eu e)) as [Hl|Hl].
  - exists [d], M. split; [split; [discriminate|exists (eu e); cbn; auto]|reflexivity].
  - destruct (walk (length M) M eq_refl (ew e) (eu e) Hl) as [ds [R [_ [Hc HP]]]].
    + intros v. specialize (Hp v). cbn [par] in Hp.
      destruct (eu e =? v), (ew e =? v), (par M v); cbn in *; congruence.
    + exists (d :: ds), R. split; [split; [discriminate|exists (eu e); cbn; auto]|].
      cbn [map snd app]. now constructor.
Qed.

Lemma trail_decomposition : forall k M, (length M <= k)%nat -> (forall v, par M v = false) ->
  exists Ts, (forall T, In T Ts -> closed T) /\ Permutation M (map snd (concat Ts)).
Proof.
  induction k as [|k IH]; intros M Hk Hp.
  - destruct M; [|cbn in Hk; lia]. exists []. split; [intros T []|reflexivity].
  - destruct M as [|e M]; [exists []; split; [intros T []|reflexivity]|].
    destruct (closed_trail M e Hp) as [T [R [HT HP]]].
    assert (HlenR : (length R <= k)%nat).
    { apply Permutation_length in HP. rewrite app_length, map_length in HP. cbn in HP, Hk.
      destruct HT as [Hne _]. destruct T; [congruence|]. cbn in HP. lia. }
    assert (HpR : forall v, par R v = false).
    { intros v. pose proof (par_perm _ _ v HP) as H. rewrite (Hp v), par_app in H.
      destruct HT as [_ [x Hx]]. rewrite (par_chain v T x x Hx), xorb_nilpotent in H. now destruct (par R v). }
    destruct (IH R HlenR HpR) as [Ts [Hcl HPR]].
    exists (T :: Ts). split; [intros T' [<-|H]; [exact HT|now apply Hcl]|].
    cbn [concat]. rewrite map_app. etransitivity; [exact HP|]. now apply Permutation_app_head.
Qed.

(* ---------- splicing closed trails that meet ---------- *)
Definition verts (T : list dart) : list Z := map src T.

Lemma rotate T v : closed T -> In v (verts T) ->
  exists T', T' <> [] /\ chain v T' v /\ Permutation T T'.
Proof.
  intros [_ [x Hx]] Hv. unfold verts in Hv. apply in_map_iff in Hv as [d [Hd Hin]].
  apply in_split in Hin as [A [B ->]]. apply chain_app in Hx as [z [HA HB]].
  assert (z = v) by (cbn in HB; destruct HB; congruence). subst z.
  exists ((d :: B) ++ A). split; [discriminate|]. split; [apply chain_app; now exists x|apply Permutation_app_comm].
Qed.

Lemma splice T1 T2 v : closed T1 -> closed T2 -> In v (verts T1) -> In v (verts T2) ->
  exists T, closed T /\ Permutation (T1 ++ T2) T.
Proof.
  intros H1 H2 V1 V2. destruct (rotate T1 v H1 V1) as [R1 [N1 [C1 P1]]]. destruct (rotate T2 v H2 V2) as [R2 [N2 [C2 P2]]].
  exists (R1 ++ R2). split; [split|].
  - destruct R1; [congruence|discriminate].
  - exists v. apply chain_app. now exists v.
  - now apply Permutation_app.
Qed.

Lemma inter_dec (l1 l2 : list Z) : (forall v, In v l1 -> In v l2 -> False) \/ (exists v, In v l1 /\ In v l2).
Proof.
  induction l1 as [|x l1 IH]; [left; intros v []|].
  destruct (in_dec Z.eq_dec x l2) as [Hx|Hx]; [right; exists x; split; [now left|exact Hx]|].
  destruct IH as [IH|[v [H1 H2]]]; [left|right; exists v; split; [now right|exact H2]].
  intros v [<-|H1] H2; [contradiction|now apply (IH v)].
Qed.

Lemma share_dec T (Ds : list (list dart)) :
  (forall T', In T' Ds -> forall v, In v (verts T) -> In v (verts T') -> False) \/
  (exists T' v, In T' Ds /\ In v (verts T) /\ In v (verts T')).
Proof.
  induction Ds as [|D Ds IH]; [left; intros T' []|].
  destruct (inter_dec (verts T) (verts D)) as [Hd|[v [H1 H2]]].
  - destruct IH as [IH|[T' [v [H0 [H1 H2]]]]]; [left|right; exists T', v; split; [now right|auto]].
    intros T' [<-|H]; [exact Hd|now apply IH].
  - right. exists D, v. split; [now left|auto].
Qed.

(* a family of closed trails no two of which meet *)
Definition family (Ds : list (list dart)) : Prop :=
  NoDup Ds /\ (forall T, In T Ds -> closed T) /\
  (forall T T', In T Ds -> In T' Ds -> forall v, In v (verts T) -> In v (verts T') -> T = T').

Lemma family_remove D1 T D2 : family (D1 ++ T :: D2) -> family (D1 ++ D2).
Proof.
  intros [Hnd [Hcl Hdj]]. split; [now apply NoDup_remove_1 in Hnd|]. split.
  - intros T' H. apply Hcl. apply in_app_iff in H. apply in_app_iff. destruct H; [now left|right; now right].
  - intros T1 T2 H1 H2. apply Hdj; apply in_app_iff; [apply in_app_iff in H1; destruct H1|apply in_app_iff in H2; destruct H2];
      (now left) || (right; now right).
Qed.

Lemma insert_trail : forall k Ds, length Ds = k -> family Ds -> forall T, closed T ->
  exists Ds', family Ds' /\ Permutation (T ++ concat Ds) (concat Ds').
Proof.
  induction k as [|k IH]; intros Ds Hk HF T HT.
  - destruct Ds; [|discriminate]. exists [T]. split; [|reflexivity]. split; [constructor; [intros []|constructor]|].
    split; [intros T' [<-|[]]; exact HT|]. intros T1 T2 [<-|[]] [<-|[]]. reflexivity.
  - destruct (share_dec T Ds) as [Hd|[T' [v [Hin [V1 V2]]]]].
    + exists (T :: Ds). split; [|reflexivity]. destruct HF as [Hnd [Hcl Hdj]]. split; [|split].
      * constructor; [|exact Hnd]. intros Hin. destruct HT as [Hne [x Hx]]. destruct T as [|d T]; [congruence|].
        apply (Hd _ Hin (src d)); now left.
      * intros T' [<-|H]; [exact HT|now apply Hcl].
      * intros T1 T2 [<-|H1] [<-|H2] v V1 V2; [reflexivity|exfalso; now apply (Hd _ H2 v)|exfalso; now apply (Hd _ H1 v)|now apply (Hdj T1 T2 H1 H2 v)].
    + apply in_split in Hin as [D1 [D2 ->]].
      assert (HT' : closed T') by (apply (proj1 (proj2 HF)); apply in_app_iff; right; now left).
      destruct (splice T T' v HT HT' V1 V2) as [M [HM PM]].
      assert (Hlen : length (D1 ++ D2) = k) by (rewrite app_length in *; cbn in Hk; lia).
      destruct (IH (D1 ++ D2) Hlen (family_remove _ _ _ HF) M HM) as [Ds' [HF' HP']].
      exists Ds'. split; [exact HF'|]. etransitivity; [|exact HP'].
      rewrite !concat_app. cbn [concat]. etransitivity; [|apply Permutation_app_tail; exact PM].
      rewrite <- !app_assoc. apply Permutation_app_head.
      rewrite !app_assoc. apply Permutation_app_tail. apply Permutation_app_comm.
Qed.

Lemma disjoint_family : forall Ts, (forall T, In T Ts -> closed T) ->
  exists Ds, family Ds /\ Permutation (concat Ts) (concat Ds).
Proof.
  induction Ts as [|T Ts IH]; intros Hcl.
  - exists []. split; [|reflexivity]. split; [constructor|]. split; [intros T []|intros T T' []].
  - destruct IH as [Ds [HF HP]]; [intros T' H; apply Hcl; now right|].
    destruct (insert_trail (length Ds) Ds eq_refl HF T (Hcl T (or_introl eq_refl))) as [Ds' [HF' HP']].
    exists Ds'. split; [exact HF'|]. cbn [concat]. etransitivity; [|exact HP']. now apply Permutation_app_head.
Qed.
