(* Fam_coloring_Euler.v — the converse direction for EvenColoringFormula: if every vertex has even
   degree (the generator does not raise) and every union of connected components contains an even
   number of edges, then the formula is satisfiable.
   Proof: the edges of a graph with even degrees split into closed trails (walk from one odd vertex to
   the other after removing an edge); closed trails that share a vertex are spliced together until the
   trails are pairwise vertex disjoint, so that the vertices of each trail form a union of components
   and its length is even by hypothesis; colouring every trail alternately gives every vertex as many
   chosen as unchosen incident edges.  Everything here is proof machinery; the statement is
   Fam_coloring.ec_sat_of_even_components_statement. *)
From Coq Require Import ZArith List Bool Lia ZifyBool Permutation.
From Cnfgen Require Import Sem Comb Linear SemFacts LinearFacts IR IRFacts C02Common C02CommonFacts
  Fam_tseitin Fam_tseitin_Facts Fam_tseitin_Forest Fam_tseitin_Conv Fam_coloring Fam_coloring_Facts.
Import ListNotations.
Open Scope Z_scope.

Notation iedge := (Z * (Z * Z))%type.
(* an edge with a direction of travel *)
Notation dart := (bool * (Z * (Z * Z)))%type.
Definition eu (x : iedge) : Z := fst (snd x).
Definition ew (x : iedge) : Z := snd (snd x).
Definition src (d : dart) : Z := if fst d then ew (snd d) else eu (snd d).
Definition dst (d : dart) : Z := if fst d then eu (snd d) else ew (snd d).

Fixpoint chain (x : Z) (ds : list dart) (y : Z) : Prop :=
  match ds with
  | [] => x = y
  | d :: t => src d = x /\ chain (dst d) t y
  end.

Lemma chain_app x A B y : chain x (A ++ B) y <-> exists z, chain x A z /\ chain z B y.
Proof.
  revert x. induction A as [|d A IH]; intros x; cbn [app chain].
  - split; [intros H; now exists x|intros [z [-> H]]; exact H].
  - rewrite IH. split; [intros [Hs [z [H1 H2]]]; exists z; auto|intros [z [[Hs H1] H2]]; split; [exact Hs|now exists z]].
Qed.

(* parity of the degree *)
Fixpoint par (M : list iedge) (v : Z) : bool :=
  match M with
  | [] => false
  | x :: t => xorb (xorb (eu x =? v) (ew x =? v)) (par t v)
  end.

Lemma par_app M1 M2 v : par (M1 ++ M2) v = xorb (par M1 v) (par M2 v).
Proof.
  induction M1 as [|x M1 IH]; cbn [app par]; [now destruct (par M2 v)|]. rewrite IH.
  destruct (xorb (eu x =? v) (ew x =? v)), (par M1 v), (par M2 v); reflexivity.
Qed.

Lemma par_perm M1 M2 v : Permutation M1 M2 -> par M1 v = par M2 v.
Proof.
  induction 1 as [|x l l' _ IH|x y l|l l' l'' _ IH1 _ IH2]; cbn [par]; [reflexivity|now rewrite IH| |congruence].
  destruct (xorb (eu x =? v) (ew x =? v)), (xorb (eu y =? v) (ew y =? v)), (par l v); reflexivity.
Qed.

Lemma par_dart d v : xorb (eu (snd d) =? v) (ew (snd d) =? v) = xorb (src d =? v) (dst d =? v).
Proof. unfold src, dst. destruct (fst d); [apply xorb_comm|reflexivity]. Qed.

Lemma par_chain v : forall T x y, chain x T y -> par (map snd T) v = xorb (x =? v) (y =? v).
Proof.
  induction T as [|d T IH]; intros x y H; cbn [chain] in H.
  - subst. cbn. now rewrite xorb_nilpotent.
  - destruct H as [Hs H]. cbn [map par]. rewrite (IH _ _ H), par_dart, Hs.
    destruct (x =? v), (dst d =? v), (y =? v); reflexivity.
Qed.

(* an odd vertex has an incident edge *)
Lemma par_true_edge M v : par M v = true -> exists M1 x M2, M = M1 ++ x :: M2 /\ xorb (eu x =? v) (ew x =? v) = true.
Proof.
  induction M as [|x M IH]; cbn [par]; [discriminate|]. intros H.
  destruct (xorb (eu x =? v) (ew x =? v)) eqn:E.
  - exists [], x, M. now split.
  - rewrite xorb_false_l in H. destruct (IH H) as [M1 [y [M2 [-> Hy]]]]. exists (x :: M1), y, M2. now split.
Qed.

(* ---------- a trail between the two odd vertices ---------- *)
Lemma walk : forall k M, length M = k -> forall x y, x <> y ->
  (forall v, par M v = xorb (x =? v) (y =? v)) ->
  exists ds R, ds <> [] /\ chain x ds y /\ Permutation M (map snd ds ++ R).
Proof.
  induction k as [|k IH]; intros M Hk x y Hxy Hp.
  - destruct M; [|discriminate]. specialize (Hp x). cbn in Hp. rewrite Z.eqb_refl in Hp.
    destruct (Z.eqb_spec y x); [congruence|discriminate].
  - assert (Hx : par M x = true).
    { rewrite Hp, Z.eqb_refl. destruct (Z.eqb_spec y x); [congruence|reflexivity]. }
    destruct (par_true_edge M x Hx) as [M1 [e [M2 [-> He]]]].
    (* the dart leaving x along e, and its other end z *)
    set (d := ((ew e =? x), e) : dart).
    assert (Hsrc : src d = x).
    { unfold src, d. cbn [fst snd]. destruct (Z.eqb_spec (ew e) x) as [E|E]; [exact E|].
      destruct (Z.eqb_spec (eu e) x) as [E'|E']; [exact E'|discriminate]. }
    set (z := dst d).
    assert (Hlen : length (M1 ++ M2) = k) by (rewrite app_length in *; cbn in Hk; lia).
    assert (Hpar' : forall v, par (M1 ++ M2) v = xorb (z =? v) (y =? v)).
    { intros v. specialize (Hp v). rewrite par_app in *. cbn [par] in Hp.
      pose proof (par_dart d v) as Hd. change (snd d) with e in Hd. rewrite Hd, Hsrc in Hp. fold z in Hp.
      destruct (x =? v), (z =? v), (y =? v), (par M1 v), (par M2 v); cbn in *; congruence. }
    destruct (Z.eq_dec z y) as [Hzy|Hzy].
    + exists [d], (M1 ++ M2). split; [discriminate|]. split; [cbn; auto|].
      cbn [map snd app]. symmetry. apply Permutation_middle.
    + destruct (IH (M1 ++ M2) Hlen z y Hzy Hpar') as [ds [R [_ [Hc HP]]]].
      exists (d :: ds), R. split; [discriminate|]. split; [cbn; auto|].
      cbn [map snd app]. fold (snd d). symmetry. etransitivity; [|apply Permutation_middle].
      cbn. constructor. now symmetry.
Qed.

(* ---------- splitting an even graph into closed trails ---------- *)
Definition closed (T : list dart) : Prop := T <> [] /\ exists x, chain x T x.

Lemma closed_trail M e : (forall v, par (e :: M) v = false) ->
  exists T R, closed T /\ Permutation (e :: M) (map snd T ++ R).
Proof.
  intros Hp. set (d := (false, e) : dart).
  destruct (Z.eq_dec (ew e) (eu e)) as [Hl|Hl].
  - exists [d], M. split; [split; [discriminate|exists (eu e); cbn; auto]|reflexivity].
  - destruct (walk (length M) M eq_refl (ew e) (eu e) Hl) as [ds [R [_ [Hc HP]]]].
    + intros v. specialize (Hp v). cbn [par] in Hp.
      destruct (eu e =? v), (ew e =? v), (par M v); cbn in *; congruence.
    + exists (d :: ds), R. split; [split; [discriminate|exists (eu e); cbn; auto]|].
      cbn [map snd app]. now constructor.
Qed.

Lemma trail_decomposition : forall k M, (length M <= k)%nat -> (forall v, par M v = false) ->
  exists Ts, (forall T, In T Ts -> closed T) /\ Permutation M (map snd (concat Ts)).
Proof.
  induction k as [|k IH]; intros M Hk Hp.
  - destruct M; [|cbn in Hk; lia]. exists []. split; [intros T []|reflexivity].
  - destruct M as [|e M]; [exists []; split; [intros T []|reflexivity]|].
    destruct (closed_trail M e Hp) as [T [R [HT HP]]].
    assert (HlenR : (length R <= k)%nat).
    { apply Permutation_length in HP. rewrite app_length, map_length in HP. cbn in HP, Hk.
      destruct HT as [Hne _]. destruct T; [congruence|]. cbn in HP. lia. }
    assert (HpR : forall v, par R v = false).
    { intros v. pose proof (par_perm _ _ v HP) as H. rewrite (Hp v), par_app in H.
      destruct HT as [_ [x Hx]]. rewrite (par_chain v T x x Hx), xorb_nilpotent in H. now destruct (par R v). }
    destruct (IH R HlenR HpR) as [Ts [Hcl HPR]].
    exists (T :: Ts). split; [intros T' [<-|H]; [exact HT|now apply Hcl]|].
    cbn [concat]. rewrite map_app. etransitivity; [exact HP|]. now apply Permutation_app_head.
Qed.

(* ---------- splicing closed trails that meet ---------- *)
Definition verts (T : list dart) : list Z := map src T.

Lemma rotate T v : closed T -> In v (verts T) ->
  exists T', T' <> [] /\ chain v T' v /\ Permutation T T'.
Proof.
  intros [_ [x Hx]] Hv. unfold verts in Hv. apply in_map_iff in Hv as [d [Hd Hin]].
  apply in_split in Hin as [A [B ->]]. apply chain_app in Hx as [z [HA HB]].
  assert (z = v) by (cbn in HB; destruct HB; congruence). subst z.
  exists ((d :: B) ++ A). split; [discriminate|]. split; [apply chain_app; now exists x|apply Permutation_app_comm].
Qed.

Lemma splice T1 T2 v : closed T1 -> closed T2 -> In v (verts T1) -> In v (verts T2) ->
  exists T, closed T /\ Permutation (T1 ++ T2) T.
Proof.
  intros H1 H2 V1 V2. destruct (rotate T1 v H1 V1) as [R1 [N1 [C1 P1]]]. destruct (rotate T2 v H2 V2) as [R2 [N2 [C2 P2]]].
  exists (R1 ++ R2). split; [split|].
  - destruct R1; [congruence|discriminate].
  - exists v. apply chain_app. now exists v.
  - now apply Permutation_app.
Qed.

Lemma inter_dec (l1 l2 : list Z) : (forall v, In v l1 -> In v l2 -> False) \/ (exists v, In v l1 /\ In v l2).
Proof.
  induction l1 as [|x l1 IH]; [left; intros v []|].
  destruct (in_dec Z.eq_dec x l2) as [Hx|Hx]; [right; exists x; split; [now left|exact Hx]|].
  destruct IH as [IH|[v [H1 H2]]]; [left|right; exists v; split; [now right|exact H2]].
  intros v [<-|H1] H2; [contradiction|now apply (IH v)].
Qed.

Lemma share_dec T (Ds : list (list dart)) :
  (forall T', In T' Ds -> forall v, In v (verts T) -> In v (verts T') -> False) \/
  (exists T' v, In T' Ds /\ In v (verts T) /\ In v (verts T')).
Proof.
  induction Ds as [|D Ds IH]; [left; intros T' []|].
  destruct (inter_dec (verts T) (verts D)) as [Hd|[v [H1 H2]]].
  - destruct IH as [IH|[T' [v [H0 [H1 H2]]]]]; [left|right; exists T', v; split; [now right|auto]].
    intros T' [<-|H]; [exact Hd|now apply IH].
  - right. exists D, v. split; [now left|auto].
Qed.

(* a family of closed trails no two of which meet *)
Definition family (Ds : list (list dart)) : Prop :=
  NoDup Ds /\ (forall T, In T Ds -> closed T) /\
  (forall T T', In T Ds -> In T' Ds -> forall v, In v (verts T) -> In v (verts T') -> T = T').

Lemma family_remove D1 T D2 : family (D1 ++ T :: D2) -> family (D1 ++ D2).
Proof.
  intros [Hnd [Hcl Hdj]]. split; [now apply NoDup_remove_1 in Hnd|]. split.
  - intros T' H. apply Hcl. apply in_app_iff in H. apply in_app_iff. destruct H; [now left|right; now right].
  - intros T1 T2 H1 H2. apply Hdj; apply in_app_iff; [apply in_app_iff in H1; destruct H1|apply in_app_iff in H2; destruct H2];
      (now left) || (right; now right).
Qed.

Lemma insert_trail : forall k Ds, length Ds = k -> family Ds -> forall T, closed T ->
  exists Ds', family Ds' /\ Permutation (T ++ concat Ds) (concat Ds').
Proof.
  induction k as [|k IH]; intros Ds Hk HF T HT.
  - destruct Ds; [|discriminate]. exists [T]. split; [|reflexivity]. split; [constructor; [intros []|constructor]|].
    split; [intros T' [<-|[]]; exact HT|]. intros T1 T2 [<-|[]] [<-|[]]. reflexivity.
  - destruct (share_dec T Ds) as [Hd|[T' [v [Hin [V1 V2]]]]].
    + exists (T :: Ds). split; [|reflexivity]. destruct HF as [Hnd [Hcl Hdj]]. split; [|split].
      * constructor; [|exact Hnd]. intros Hin. destruct HT as [Hne [x Hx]]. destruct T as [|d T]; [congruence|].
        apply (Hd _ Hin (src d)); now left.
      * intros T' [<-|H]; [exact HT|now apply Hcl].
      * intros T1 T2 [<-|H1] [<-|H2] v V1 V2; [reflexivity|exfalso; now apply (Hd _ H2 v)|exfalso; now apply (Hd _ H1 v)|now apply (Hdj T1 T2 H1 H2 v)].
    + apply in_split in Hin as [D1 [D2 ->]].
      assert (HT' : closed T') by (apply (proj1 (proj2 HF)); apply in_app_iff; right; now left).
      destruct (splice T T' v HT HT' V1 V2) as [M [HM PM]].
      assert (Hlen : length (D1 ++ D2) = k) by (rewrite app_length in *; cbn in Hk; lia).
      destruct (IH (D1 ++ D2) Hlen (family_remove _ _ _ HF) M HM) as [Ds' [HF' HP']].
      exists Ds'. split; [exact HF'|]. etransitivity; [|exact HP'].
      rewrite !concat_app. cbn [concat]. etransitivity; [|apply Permutation_app_tail; exact PM].
      rewrite <- !app_assoc. apply Permutation_app_head.
      rewrite !app_assoc. apply Permutation_app_tail. apply Permutation_app_comm.
Qed.

Lemma disjoint_family : forall Ts, (forall T, In T Ts -> closed T) ->
  exists Ds, family Ds /\ Permutation (concat Ts) (concat Ds).
Proof.
  induction Ts as [|T Ts IH]; intros Hcl.
  - exists []. split; [|reflexivity]. split; [constructor|]. split; [intros T []|intros T T' []].
  - destruct IH as [Ds [HF HP]]; [intros T' H; apply Hcl; now right|].
    destruct (insert_trail (length Ds) Ds eq_refl HF T (Hcl T (or_introl eq_refl))) as [Ds' [HF' HP']].
    exists Ds'. split; [exact HF'|]. cbn [concat]. etransitivity; [|exact HP']. now apply Permutation_app_head.
Qed.

(* ---------- weighted degrees ---------- *)
Definition inc (x : iedge) (v : Z) : Z := b2z (eu x =? v) + b2z (ew x =? v).
Definition wsum (a : Z -> bool) (M : list iedge) (v : Z) : Z :=
  fold_right (fun x acc => inc x v * b2z (a (fst x)) + acc) 0 M.
Definition deg (M : list iedge) (v : Z) : Z := wsum (fun _ => true) M v.

Lemma wsum_cons a x M v : wsum a (x :: M) v = inc x v * b2z (a (fst x)) + wsum a M v. Proof. reflexivity. Qed.
Lemma wsum_app a M1 M2 v : wsum a (M1 ++ M2) v = wsum a M1 v + wsum a M2 v.
Proof. induction M1 as [|x M1 IH]; [reflexivity|]. cbn [app]. rewrite !wsum_cons, IH. lia. Qed.
Lemma wsum_perm a M1 M2 v : Permutation M1 M2 -> wsum a M1 v = wsum a M2 v.
Proof.
  induction 1 as [|x l l' _ IH|x y l|l l' l'' _ IH1 _ IH2]; rewrite ?wsum_cons; [reflexivity|now rewrite IH|lia|congruence].
Qed.
Lemma wsum_ext a a' M v : (forall x, In x M -> a (fst x) = a' (fst x)) -> wsum a M v = wsum a' M v.
Proof.
  induction M as [|x M IH]; intros H; [reflexivity|]. rewrite !wsum_cons, (H x) by (now left).
  rewrite IH; [reflexivity|]. intros y Hy. apply H. now right.
Qed.

Lemma inc_dart d v : inc (snd d) v = b2z (src d =? v) + b2z (dst d =? v).
Proof. unfold inc, src, dst. destruct (fst d); lia. Qed.

(* ---------- alternating colouring of a trail ---------- *)
Fixpoint altsum (b : bool) (M : list iedge) (v : Z) : Z :=
  match M with
  | [] => 0
  | x :: t => (if b then inc x v else 0) + altsum (negb b) t v
  end.
Fixpoint flipn {A} (b : bool) (T : list A) : bool :=
  match T with [] => b | _ :: t => flipn (negb b) t end.
Definition sg (b : bool) : Z := if b then 1 else -1.

Lemma flipn_spec {A} (T : list A) : forall b, flipn b T = if Z.even (len T) then b else negb b.
Proof.
  induction T as [|x T IH]; intros b; [reflexivity|]. cbn [flipn]. rewrite IH, len_cons, Z.even_add.
  change (Z.even 1) with false. destruct (Z.even (len T)), b; reflexivity.
Qed.
Lemma flipn_map {A B} (f : A -> B) (T : list A) b : flipn b (map f T) = flipn b T.
Proof. revert b. induction T as [|x T IH]; intros b; [reflexivity|]. cbn. apply IH. Qed.

Lemma altsum_app M1 M2 v : forall b, altsum b (M1 ++ M2) v = altsum b M1 v + altsum (flipn b M1) M2 v.
Proof.
  induction M1 as [|x M1 IH]; intros b; [reflexivity|]. cbn [app altsum flipn]. rewrite IH. lia.
Qed.

Lemma alt_chain v : forall T b x y, chain x T y ->
  2 * altsum b (map snd T) v - deg (map snd T) v = sg b * b2z (x =? v) - sg (flipn b T) * b2z (y =? v).
Proof.
  induction T as [|d T IH]; intros b x y H; cbn [chain] in H.
  - subst. cbn. lia.
  - destruct H as [Hs H]. cbn [map altsum flipn]. unfold deg in *. rewrite wsum_cons.
    specialize (IH (negb b) _ _ H). rewrite inc_dart, Hs. cbn [b2z]. unfold sg in *. destruct b; cbn [negb] in *; lia.
Qed.

Lemma alt_concat v (Ds : list (list dart)) : (forall T, In T Ds -> closed T /\ Z.even (len T) = true) ->
  2 * altsum true (map snd (concat Ds)) v = deg (map snd (concat Ds)) v.
Proof.
  induction Ds as [|T Ds IH]; intros H; [reflexivity|]. cbn [concat]. rewrite map_app, altsum_app. unfold deg in *. rewrite wsum_app.
  destruct (H T (or_introl eq_refl)) as [[_ [x Hx]] Hev].
  pose proof (alt_chain v T true x x Hx) as Hc. unfold deg in Hc.
  rewrite flipn_map. rewrite (flipn_spec T true), Hev in *.
  rewrite <- IH by (intros T' HT'; apply H; now right). lia.
Qed.

(* the identifiers at the positions where the flag is on *)
Fixpoint alts (b : bool) (l : list Z) : list Z :=
  match l with
  | [] => []
  | x :: t => if b then x :: alts (negb b) t else alts (negb b) t
  end.
Lemma alts_incl l : forall b i, In i (alts b l) -> In i l.
Proof.
  induction l as [|x l IH]; intros b i; [intros []|]. cbn [alts]. destruct b.
  - intros [<-|H]; [now left|right; now apply (IH _ _ H)].
  - intros H. right. now apply (IH _ _ H).
Qed.

Lemma altsum_wsum v : forall M b, NoDup (map fst M) ->
  altsum b M v = wsum (fun i => memb i (alts b (map fst M))) M v.
Proof.
  induction M as [|x M IH]; intros b Hnd; [reflexivity|]. inversion Hnd as [|? ? Hx HM]; subst.
  cbn [altsum map]. rewrite wsum_cons. cbn [fst].
  assert (Hhead : memb (fst x) (alts b (fst x :: map fst M)) = b).
  { cbn [alts]. destruct b.
    - apply memb_true. now left.
    - destruct (memb (fst x) (alts (negb false) (map fst M))) eqn:E; [|reflexivity].
      apply memb_true, alts_incl in E. contradiction. }
  rewrite Hhead, (IH (negb b) HM).
  rewrite (wsum_ext (fun i => memb i (alts b (fst x :: map fst M))) (fun i => memb i (alts (negb b) (map fst M)))).
  - destruct b; cbn [b2z]; lia.
  - intros y Hy. assert (Hne : fst y <> fst x) by (intros E; apply Hx; rewrite <- E; now apply in_map).
    cbn [alts]. destruct b; [|reflexivity]. unfold memb at 1. cbn [existsb].
    destruct (Z.eqb_spec (fst y) (fst x)); [contradiction|reflexivity].
Qed.

(* ---------- the vertices of a trail of a family are a union of components ---------- *)
Lemma chain_dst : forall T x y, chain x T y -> forall d, In d T -> In (dst d) (verts T) \/ dst d = y.
Proof.
  induction T as [|d0 T IH]; intros x y H d Hd; [destruct Hd|]. cbn [chain] in H. destruct H as [Hs H].
  destruct Hd as [<-|Hd].
  - destruct T as [|d1 T]; [right; exact H|]. left. cbn [chain] in H. destruct H as [H1 _]. right. left. exact H1.
  - destruct (IH _ _ H d Hd) as [H1|H1]; [left; now right|now right].
Qed.

Lemma closed_ends T d : closed T -> In d T -> In (src d) (verts T) /\ In (dst d) (verts T).
Proof.
  intros [Hne [x Hx]] Hd. split; [now apply in_map|]. destruct (chain_dst T x x Hx d Hd) as [H|H]; [exact H|].
  rewrite H. destruct T as [|d0 T]; [congruence|]. cbn [chain] in Hx. left. apply Hx.
Qed.

Lemma closed_eu T d : closed T -> In d T -> In (eu (snd d)) (verts T) /\ In (ew (snd d)) (verts T).
Proof.
  intros HT Hd. destruct (closed_ends T d HT Hd) as [H1 H2]. unfold src, dst in *. destruct (fst d); auto.
Qed.

Lemma filter_all {A} (p : A -> bool) l : (forall x, In x l -> p x = true) -> filter p l = l.
Proof. induction l as [|x l IH]; intros H; [reflexivity|]. cbn. rewrite (H x) by (now left). f_equal. apply IH. intros y Hy. apply H. now right. Qed.
Lemma filter_none {A} (p : A -> bool) l : (forall x, In x l -> p x = false) -> filter p l = [].
Proof. induction l as [|x l IH]; intros H; [reflexivity|]. cbn. rewrite (H x) by (now left). apply IH. intros y Hy. apply H. now right. Qed.
Lemma filter_len_perm {A} (p : A -> bool) l l' : Permutation l l' -> length (filter p l) = length (filter p l').
Proof.
  induction 1 as [|x l l' _ IH|x y l|l l' l'' _ IH1 _ IH2]; cbn [filter]; [reflexivity| | |congruence].
  - destruct (p x); cbn; now rewrite IH.
  - destruct (p x), (p y); reflexivity.
Qed.
Lemma filter_map_comm {A B} (p : B -> bool) (f : A -> B) l : filter p (map f l) = map f (filter (fun x => p (f x)) l).
Proof. induction l as [|x l IH]; [reflexivity|]. cbn. destruct (p (f x)); cbn; now rewrite IH. Qed.

(* the edges whose first end lies on T are exactly the edges of T *)
Lemma trail_edges (Ds : list (list dart)) T (M : list iedge) : family Ds -> In T Ds -> Permutation M (map snd (concat Ds)) ->
  length (filter (fun x => memb (eu x) (verts T)) M) = length T.
Proof.
  intros HF HT HP. rewrite (filter_len_perm _ _ _ HP). apply in_split in HT as [D1 [D2 ->]].
  destruct HF as [Hnd [Hcl Hdj]].
  assert (Hother : forall T', In T' (D1 ++ D2) -> filter (fun x => memb (eu x) (verts T)) (map snd T') = []).
  { intros T' HT'. apply filter_none. intros x Hx. apply in_map_iff in Hx as [d [<- Hd]].
    destruct (memb (eu (snd d)) (verts T)) eqn:E; [exfalso|reflexivity]. apply memb_true in E.
    assert (HT'' : In T' (D1 ++ T :: D2)) by (apply in_app_iff in HT'; apply in_app_iff; destruct HT'; [now left|right; now right]).
    pose proof (proj1 (closed_eu T' d (Hcl T' HT'') Hd)) as E'.
    assert (T = T') by (apply (Hdj T T' ltac:(apply in_app_iff; right; now left) HT'' _ E E')). subst T'.
    apply NoDup_remove_2 in Hnd. contradiction. }
  assert (Hcat : forall Ts, (forall T', In T' Ts -> In T' (D1 ++ D2)) ->
             filter (fun x => memb (eu x) (verts T)) (map snd (concat Ts)) = []).
  { induction Ts as [|T' Ts IH]; intros H; [reflexivity|]. cbn [concat]. rewrite map_app, filter_app, (Hother T') by (apply H; now left).
    apply IH. intros T'' H''. apply H. now right. }
  rewrite concat_app. cbn [concat]. rewrite !map_app, !filter_app.
  rewrite (Hcat D1) by (intros T' H; apply in_app_iff; now left).
  rewrite (Hcat D2) by (intros T' H; apply in_app_iff; now right).
  rewrite app_nil_r. cbn [app]. rewrite filter_all, map_length; [reflexivity|].
  intros x Hx. apply in_map_iff in Hx as [d [<- Hd]]. apply memb_true.
  apply (closed_eu T d); [apply Hcl; apply in_app_iff; right; now left|exact Hd].
Qed.

Lemma trail_closed_under (Ds : list (list dart)) T (M : list iedge) : family Ds -> In T Ds -> Permutation M (map snd (concat Ds)) ->
  forall x, In x M -> memb (eu x) (verts T) = memb (ew x) (verts T).
Proof.
  intros [Hnd [Hcl Hdj]] HT HP x Hx. apply (Permutation_in _ HP) in Hx. apply in_map_iff in Hx as [d [<- Hd]].
  apply in_concat in Hd as [T' [HT' Hd]]. destruct (closed_eu T' d (Hcl T' HT') Hd) as [H1 H2].
  destruct (memb (eu (snd d)) (verts T)) eqn:E1; destruct (memb (ew (snd d)) (verts T)) eqn:E2; try reflexivity; exfalso.
  - apply memb_true in E1. assert (T = T') by (apply (Hdj T T' HT HT' _ E1 H1)). subst T'.
    apply memb_true in H2. congruence.
  - apply memb_true in E2. assert (T = T') by (apply (Hdj T T' HT HT' _ E2 H2)). subst T'.
    apply memb_true in H1. congruence.
Qed.

(* ---------- back to the formula ---------- *)
Lemma par_odd M v : par M v = Z.odd (deg M v).
Proof.
  induction M as [|x M IH]; [reflexivity|]. cbn [par]. unfold deg in *. rewrite wsum_cons, Z.odd_add, <- IH.
  unfold inc. destruct (eu x =? v), (ew x =? v); reflexivity.
Qed.

Lemma par_none M v : (forall x, In x M -> eu x <> v /\ ew x <> v) -> par M v = false.
Proof.
  induction M as [|x M IH]; intros H; [reflexivity|]. cbn [par]. rewrite IH by (intros y Hy; apply H; now right).
  destruct (H x (or_introl eq_refl)) as [H1 H2].
  destruct (Z.eqb_spec (eu x) v); [contradiction|]. destruct (Z.eqb_spec (ew x) v); [contradiction|reflexivity].
Qed.

Lemma inc_cnt_wsum a M v : (forall x, In x M -> 0 < fst x) -> inc_cnt a M v = wsum a M v.
Proof.
  induction M as [|[i [u w]] M IH]; intros Hpos; [reflexivity|].
  rewrite inc_cnt_cons by (apply (Hpos (i, (u, w))); now left). rewrite wsum_cons, IH by (intros y Hy; apply Hpos; now right).
  unfold inc, eu, ew. cbn [fst snd]. destruct (w =? v), (u =? v), (a i); cbn [b2z]; lia.
Qed.

Lemma count_true_incident a n E v : edges_ok n E = true -> count_true a (incident E v) = wsum a (eidx E) v.
Proof.
  intros Hok. change (inc_cnt a (eidx E) v = wsum a (eidx E) v). apply inc_cnt_wsum.
  intros x Hx. now apply (proj2 (eidx_iedges_ok n E Hok)).
Qed.

Lemma degree_deg n E v : edges_ok n E = true -> degree E v = deg (eidx E) v.
Proof.
  intros Hok. unfold degree, deg. rewrite <- (count_true_incident _ n E v Hok).
  symmetry. apply count_true_all_pos. intros i Hi. apply incident_pos in Hi. lia.
Qed.

Theorem ec_sat_of_even_components : ec_sat_of_even_components_statement.
Proof.
  intros n E l Hwf Hl Hev.
  assert (Hok : edges_ok n E = true).
  { unfold graph_wf in Hwf. apply andb_true_iff in Hwf as [Hwf _]. now apply andb_true_iff in Hwf as [_ Hok]. }
  destruct (eidx_iedges_ok n E Hok) as [Hnd Hr].
  assert (Hdeg : forall v, 1 <= v <= n -> Z.even (degree E v) = true) by (apply ec_defined_iff; now exists l).
  assert (Hpar : forall v, par (eidx E) v = false).
  { intros v. destruct (Z_le_dec 1 v) as [H1|H1]; [destruct (Z_le_dec v n) as [H2|H2]|].
    - rewrite par_odd, <- (degree_deg n E v Hok), <- Z.negb_even, (Hdeg v (conj H1 H2)). reflexivity.
    - apply par_none. intros x Hx. specialize (Hr x Hx). unfold eu, ew. lia.
    - apply par_none. intros x Hx. specialize (Hr x Hx). unfold eu, ew. lia. }
  destruct (trail_decomposition (length (eidx E)) (eidx E) (le_n _) Hpar) as [Ts [Hcl HP1]].
  destruct (disjoint_family Ts Hcl) as [Ds [HF HP2]].
  assert (HP : Permutation (eidx E) (map snd (concat Ds))).
  { etransitivity; [exact HP1|]. now apply Permutation_map. }
  assert (Heven : forall T, In T Ds -> closed T /\ Z.even (len T) = true).
  { intros T HT. split; [now apply (proj1 (proj2 HF))|].
    rewrite <- (Hev (fun v => memb v (verts T))).
    - f_equal. unfold len. f_equal. rewrite <- (trail_edges Ds T (eidx E) HF HT HP).
      assert (EE : filter (fun e => memb (fst e) (verts T)) E =
                   map snd (filter (fun x => memb (eu x) (verts T)) (eidx E))).
      { rewrite <- (eidx_edges E) at 1. now rewrite filter_map_comm. }
      rewrite EE, map_length. reflexivity.
    - apply closed_eidx. exact (trail_closed_under Ds T (eidx E) HF HT HP). }
  set (a := fun i => memb i (alts true (map fst (map snd (concat Ds))))).
  exists a. apply (ec_char a n E l Hl). intros v Hv.
  rewrite (count_true_incident a n E v Hok), (degree_deg n E v Hok). unfold deg.
  rewrite (wsum_perm a _ _ v HP), (wsum_perm (fun _ => true) _ _ v HP). unfold a.
  rewrite <- altsum_wsum.
  - apply alt_concat. exact Heven.
  - apply (Permutation_NoDup (l := map fst (eidx E))); [now apply Permutation_map|exact Hnd].
Qed.

Theorem ec_sat_iff n E l : graph_wf n E = true -> ec_ir n E = Some l ->
  ((exists a, irs_hold a l = true) <->
   forall S, closed_under_edges S E -> Z.even (len (filter (fun e => S (fst e)) E)) = true).
Proof.
  intros Hwf Hl. split.
  - intros [a Ha] S HS. destruct (Z.even (len (filter (fun e => S (fst e)) E))) eqn:Ev; [reflexivity|].
    assert (Hok : edges_ok n E = true).
    { unfold graph_wf in Hwf. apply andb_true_iff in Hwf as [Hwf _]. now apply andb_true_iff in Hwf as [_ Hok]. }
    rewrite (ec_unsat_of_odd_component a n E S l Hok HS Hl) in Ha; [discriminate|]. now rewrite <- Z.negb_even, Ev.
  - intros Hev. exact (ec_sat_of_even_components n E l Hwf Hl Hev).
Qed.
