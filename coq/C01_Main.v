(* C01_Main.v — the C01 theorems in their final form: about the CNF and the
   pseudo-Boolean formula that classes CNF / OPB build from the builder calls
   (transfer through IRFacts.to_cnf_sem / to_opb_sem). *)
From Coq Require Import ZArith List Bool Lia ZifyBool.
From Cnfgen Require Import Sem Comb Linear IR SemFacts LinearFacts IRFacts FamTab FamTabFacts.
From Cnfgen Require Import Fam_php Fam_count Fam_subsetcard Fam_cliquecol Spec_C01.
From Cnfgen Require Import Fam_php_Facts Fam_count_Facts Fam_subsetcard_Facts Fam_cliquecol_Facts.
Import ListNotations.
Open Scope Z_scope.

Lemma final_sat l (C : Prop) : irs_ok l = true -> ((exists a, irs_hold a l = true) <-> C) ->
  ((exists a, cnf_sat a (to_cnf l) = true) <-> C) /\ ((exists a, opb_sat a (to_opb l) = true) <-> C).
Proof.
  intros Hok H. split; rewrite <- H; split; intros [a Ha]; exists a;
    rewrite ?to_cnf_sem, ?to_opb_sem in * by assumption; assumption.
Qed.
Lemma final_T2 l (D : (Z -> bool) -> Prop) : irs_ok l = true -> (exists a, irs_hold a l = true /\ D a) ->
  exists a, cnf_sat a (to_cnf l) = true /\ opb_sat a (to_opb l) = true /\ D a.
Proof. intros Hok [a [Ha Hd]]. exists a. now rewrite to_cnf_sem, to_opb_sem. Qed.

(* ---------------- php ---------------- *)
Theorem php_T1_final a m n f o : 0 <= n ->
  (cnf_sat a (to_cnf (php_ir m n f o)) = true <-> placement m n f o (php_R a n)) /\
  (opb_sat a (to_opb (php_ir m n f o)) = true <-> placement m n f o (php_R a n)).
Proof. intros Hn. apply irs_transfer; [now apply php_ok|now apply php_T1]. Qed.
Theorem php_T2_final m n f o R : 0 <= n -> placement m n f o R ->
  exists a, cnf_sat a (to_cnf (php_ir m n f o)) = true /\ opb_sat a (to_opb (php_ir m n f o)) = true /\
            forall i j, 1 <= i <= m -> 1 <= j <= n -> php_R a n i j = R i j.
Proof. intros Hn HP. apply (final_T2 (php_ir m n f o)); [now apply php_ok|now apply php_T2]. Qed.
Theorem php_sat_iff_final m n f o : 0 <= m -> 0 <= n ->
  ((exists a, cnf_sat a (to_cnf (php_ir m n f o)) = true) <-> php_criterion m n f o) /\
  ((exists a, opb_sat a (to_opb (php_ir m n f o)) = true) <-> php_criterion m n f o).
Proof. intros Hm Hn. apply final_sat; [now apply php_ok|now apply php_sat_iff]. Qed.
(* the four classical readings of the criterion *)
Theorem php_plain_unsat_iff m n : 0 <= m -> 0 <= n ->
  (~ (exists a, cnf_sat a (to_cnf (php_ir m n false false)) = true) <-> n < m).
Proof.
  intros Hm Hn. destruct (php_sat_iff_final m n false false Hm Hn) as [H _]. rewrite H. unfold php_criterion.
  split; [intros Hc|intros Hlt [Hle _]; lia]. destruct (Z.lt_ge_cases n m); [assumption|].
  exfalso. apply Hc. split; [lia|discriminate].
Qed.
Theorem php_flags_sat_iff m n : 0 <= m -> 0 <= n ->
  ((exists a, cnf_sat a (to_cnf (php_ir m n false false)) = true) <-> m <= n) /\
  ((exists a, cnf_sat a (to_cnf (php_ir m n true false)) = true) <-> m <= n) /\
  ((exists a, cnf_sat a (to_cnf (php_ir m n false true)) = true) <-> m <= n /\ (1 <= m \/ n = 0)) /\
  ((exists a, cnf_sat a (to_cnf (php_ir m n true true)) = true) <-> m = n).
Proof.
  intros Hm Hn.
  destruct (php_sat_iff_final m n false false Hm Hn) as [H1 _]. destruct (php_sat_iff_final m n true false Hm Hn) as [H2 _].
  destruct (php_sat_iff_final m n false true Hm Hn) as [H3 _]. destruct (php_sat_iff_final m n true true Hm Hn) as [H4 _].
  rewrite H1, H2, H3, H4. unfold php_criterion. split; [|split; [|split]].
  - split; [tauto|intros H; split; [assumption|discriminate]].
  - split; [tauto|intros H; split; [assumption|discriminate]].
  - split; [intros [A B]; split; [assumption|apply B; reflexivity]|intros [A B]; split; [assumption|intros _; exact B]].
  - split; [intros [A B]; specialize (B eq_refl); lia|intros ->; split; [lia|intros _; lia]].
Qed.

(* ---------------- gphp ---------------- *)
Theorem gphp_T1_final a adj R f o : bip_wf adj R = true ->
  (cnf_sat a (to_cnf (gphp_ir adj R f o)) = true <-> graph_placement (len adj) R f o (gphp_sel a adj)) /\
  (opb_sat a (to_opb (gphp_ir adj R f o)) = true <-> graph_placement (len adj) R f o (gphp_sel a adj)).
Proof. intros Hwf. apply irs_transfer; [apply gphp_ok|now apply gphp_T1]. Qed.
Theorem gphp_T2_final adj R f o (obj : Z * Z -> bool) : bip_wf adj R = true ->
  graph_placement (len adj) R f o (filter obj (bip_index adj)) ->
  exists a, cnf_sat a (to_cnf (gphp_ir adj R f o)) = true /\ opb_sat a (to_opb (gphp_ir adj R f o)) = true /\
            gphp_sel a adj = filter obj (bip_index adj).
Proof. intros Hwf HP. apply (final_T2 (gphp_ir adj R f o)); [apply gphp_ok|now apply gphp_T2]. Qed.
Theorem gphp_sat_iff_final adj R f : bip_wf adj R = true ->
  ((exists a, cnf_sat a (to_cnf (gphp_ir adj R f false)) = true) <-> exists h, left_saturating adj h) /\
  ((exists a, opb_sat a (to_opb (gphp_ir adj R f false)) = true) <-> exists h, left_saturating adj h).
Proof. intros Hwf. apply final_sat; [apply gphp_ok|now apply gphp_sat_iff_matching]. Qed.
Theorem gphp_sat_iff_exists_final adj R f o : bip_wf adj R = true ->
  ((exists a, cnf_sat a (to_cnf (gphp_ir adj R f o)) = true) <->
   exists obj, graph_placement (len adj) R f o (filter obj (bip_index adj))) /\
  ((exists a, opb_sat a (to_opb (gphp_ir adj R f o)) = true) <->
   exists obj, graph_placement (len adj) R f o (filter obj (bip_index adj))).
Proof. intros Hwf. apply final_sat; [apply gphp_ok|now apply gphp_sat_iff_exists]. Qed.

(* ---------------- bphp ---------------- *)
Theorem bphp_T1_final a m n : 1 <= n ->
  (cnf_sat a (to_cnf (bphp_ir m n)) = true <-> binary_placement m n (bphp_hole a n)) /\
  (opb_sat a (to_opb (bphp_ir m n)) = true <-> binary_placement m n (bphp_hole a n)).
Proof. intros Hn. apply irs_transfer; [now apply bphp_ok|now apply bphp_T1]. Qed.
Theorem bphp_T2_final m n h : 1 <= n -> binary_placement m n h ->
  exists a, cnf_sat a (to_cnf (bphp_ir m n)) = true /\ opb_sat a (to_opb (bphp_ir m n)) = true /\
            forall i, 1 <= i <= m -> bphp_hole a n i = h i.
Proof. intros Hn HP. apply (final_T2 (bphp_ir m n)); [now apply bphp_ok|now apply bphp_T2]. Qed.
Theorem bphp_sat_iff_final m n : 0 <= m -> 1 <= n ->
  ((exists a, cnf_sat a (to_cnf (bphp_ir m n)) = true) <-> m <= n) /\
  ((exists a, opb_sat a (to_opb (bphp_ir m n)) = true) <-> m <= n).
Proof. intros Hm Hn. apply final_sat; [now apply bphp_ok|now apply bphp_sat_iff]. Qed.
(* the documented domain (pigeons, holes >= 0) is NOT the domain of the code: D30 *)
Definition bphp_domain_statement : Prop := forall m n, 0 <= m -> 0 <= n -> bphp_valid m n = true.
Theorem bphp_domain_refuted : exists m n, 0 <= m /\ 0 <= n /\ bphp_valid m n = false.
Proof. exists 0, 3. vm_compute. repeat split; discriminate. Qed.
Theorem bphp_domain_partial : forall m n, 1 <= m -> 1 <= n -> bphp_valid m n = true.
Proof. intros. unfold bphp_valid. lia. Qed.

Theorem bphp_spec_sat_iff_final m n : 0 <= m -> 0 <= n ->
  ((exists a, cnf_sat a (to_cnf (bphp_spec_ir m n)) = true) <-> m <= n) /\
  ((exists a, opb_sat a (to_opb (bphp_spec_ir m n)) = true) <-> m <= n).
Proof. intros Hm Hn. apply final_sat; [now apply bphp_spec_ok|now apply bphp_spec_sat_iff]. Qed.

(* ---------------- rphp ---------------- *)
Theorem rphp_T1_final a m r n : 0 <= m -> 0 <= r -> 0 <= n ->
  (cnf_sat a (to_cnf (rphp_ir m r n)) = true <->
     relativized_placement m r n (rphp_P a r) (rphp_Q a m r n) (rphp_S a m r n)) /\
  (opb_sat a (to_opb (rphp_ir m r n)) = true <->
     relativized_placement m r n (rphp_P a r) (rphp_Q a m r n) (rphp_S a m r n)).
Proof. intros Hm Hr Hn. apply irs_transfer; [now apply rphp_ok|now apply rphp_T1]. Qed.
Theorem rphp_T2_final m r n P Q S : 0 <= m -> 0 <= r -> 0 <= n -> relativized_placement m r n P Q S ->
  exists a, cnf_sat a (to_cnf (rphp_ir m r n)) = true /\ opb_sat a (to_opb (rphp_ir m r n)) = true /\
    ((forall u v, 1 <= u <= m -> 1 <= v <= r -> rphp_P a r u v = P u v) /\
     (forall v w, 1 <= v <= r -> 1 <= w <= n -> rphp_Q a m r n v w = Q v w) /\
     (forall v, 1 <= v <= r -> rphp_S a m r n v = S v)).
Proof. intros Hm Hr Hn HP. apply (final_T2 (rphp_ir m r n)); [now apply rphp_ok|now apply rphp_T2]. Qed.
Theorem rphp_sat_iff_final m r n : 0 <= m -> 0 <= r -> 0 <= n ->
  ((exists a, cnf_sat a (to_cnf (rphp_ir m r n)) = true) <-> m <= r /\ m <= n) /\
  ((exists a, opb_sat a (to_opb (rphp_ir m r n)) = true) <-> m <= r /\ m <= n).
Proof. intros Hm Hr Hn. apply final_sat; [now apply rphp_ok|now apply rphp_sat_iff]. Qed.

(* ---------------- counting ---------------- *)
Theorem count_T1_final a M p :
  (cnf_sat a (to_cnf (count_ir M p)) = true <-> partition_of M (count_sel a M p)) /\
  (opb_sat a (to_opb (count_ir M p)) = true <-> partition_of M (count_sel a M p)).
Proof. apply irs_transfer; [apply count_ok|apply count_T1]. Qed.
Theorem count_T2_final M p (blk : list Z -> bool) : partition_of M (filter blk (count_blocks M p)) ->
  exists a, cnf_sat a (to_cnf (count_ir M p)) = true /\ opb_sat a (to_opb (count_ir M p)) = true /\
            count_sel a M p = filter blk (count_blocks M p).
Proof. intros HP. apply (final_T2 (count_ir M p)); [apply count_ok|now apply count_T2]. Qed.
Theorem count_sat_iff_final M p : 0 <= M -> 1 <= p ->
  ((exists a, cnf_sat a (to_cnf (count_ir M p)) = true) <-> (p | M)) /\
  ((exists a, opb_sat a (to_opb (count_ir M p)) = true) <-> (p | M)).
Proof. intros HM Hp. apply final_sat; [apply count_ok|now apply count_sat_iff]. Qed.
(* the decoded blocks are p-subsets of 1..M *)
Theorem count_blocks_spec a M p S : 0 <= p -> In S (count_sel a M p) ->
  len S = p /\ NoDup S /\ forall x, In x S -> 1 <= x <= M.
Proof.
  intros Hp HS. apply count_sel_blocks in HS. unfold count_blocks in HS. split; [|split].
  - unfold len. rewrite (combs_length _ _ _ HS). lia.
  - eapply combs_elem_NoDup; [apply NoDup_upto|exact HS].
  - intros x Hx. apply In_upto. eapply combs_incl; eauto.
Qed.

(* ---------------- perfect matching ---------------- *)
Theorem matching_T1_final a n es : simple_graph_wf n es = true ->
  (cnf_sat a (to_cnf (matching_ir n es)) = true <-> perfect_matching n (matching_sel a es)) /\
  (opb_sat a (to_opb (matching_ir n es)) = true <-> perfect_matching n (matching_sel a es)).
Proof. intros Hwf. apply irs_transfer; [apply matching_ok|now apply matching_T1]. Qed.
Theorem matching_T2_final n es (obj : Z * Z -> bool) : simple_graph_wf n es = true -> perfect_matching n (filter obj es) ->
  exists a, cnf_sat a (to_cnf (matching_ir n es)) = true /\ opb_sat a (to_opb (matching_ir n es)) = true /\
            matching_sel a es = filter obj es.
Proof. intros Hwf HP. apply (final_T2 (matching_ir n es)); [apply matching_ok|now apply matching_T2]. Qed.
Theorem matching_sat_iff_final n es : simple_graph_wf n es = true ->
  ((exists a, cnf_sat a (to_cnf (matching_ir n es)) = true) <-> exists obj, perfect_matching n (filter obj es)) /\
  ((exists a, opb_sat a (to_opb (matching_ir n es)) = true) <-> exists obj, perfect_matching n (filter obj es)).
Proof. intros Hwf. apply final_sat; [apply matching_ok|now apply matching_sat_iff_exists]. Qed.

(* ---------------- subset cardinality ---------------- *)
Theorem subsetcard_T1_final a adj R eq :
  (cnf_sat a (to_cnf (subsetcard_ir adj R eq)) = true <-> subsetcard_labelling adj R eq (subsetcard_sel a adj)) /\
  (opb_sat a (to_opb (subsetcard_ir adj R eq)) = true <-> subsetcard_labelling adj R eq (subsetcard_sel a adj)).
Proof. apply irs_transfer; [apply subsetcard_ok|apply subsetcard_T1]. Qed.
Theorem subsetcard_T2_final adj R eq (obj : Z * Z -> bool) :
  subsetcard_labelling adj R eq (filter obj (bip_index adj)) ->
  exists a, cnf_sat a (to_cnf (subsetcard_ir adj R eq)) = true /\ opb_sat a (to_opb (subsetcard_ir adj R eq)) = true /\
            subsetcard_sel a adj = filter obj (bip_index adj).
Proof. intros HP. apply (final_T2 (subsetcard_ir adj R eq)); [apply subsetcard_ok|now apply subsetcard_T2]. Qed.
Theorem subsetcard_sat_iff_final adj R eq : bip_wf adj R = true ->
  ((exists a, cnf_sat a (to_cnf (subsetcard_ir adj R eq)) = true) <->
   exists obj, subsetcard_labelling adj R eq (filter obj (bip_index adj))) /\
  ((exists a, opb_sat a (to_opb (subsetcard_ir adj R eq)) = true) <->
   exists obj, subsetcard_labelling adj R eq (filter obj (bip_index adj))).
Proof. intros Hwf. apply final_sat; [apply subsetcard_ok|now apply subsetcard_sat_iff_exists]. Qed.

(* ---------------- clique-colouring ---------------- *)
Theorem cliquecol_T1_final a n k c : 0 <= n -> 0 <= k -> 0 <= c ->
  (cnf_sat a (to_cnf (cliquecol_ir n k c)) = true <-> clique_and_colouring n k c (cc_E a n) (cc_Q a n) (cc_C a n k c)) /\
  (opb_sat a (to_opb (cliquecol_ir n k c)) = true <-> clique_and_colouring n k c (cc_E a n) (cc_Q a n) (cc_C a n k c)).
Proof. intros Hn Hk Hc. apply irs_transfer; [now apply cliquecol_ok|now apply cliquecol_T1]. Qed.
Theorem cliquecol_T2_final n k c (Eobj : Z * Z -> bool) Q C : 0 <= n -> 0 <= k -> 0 <= c ->
  clique_and_colouring n k c (filter Eobj (pairs (upto n))) Q C ->
  exists a, cnf_sat a (to_cnf (cliquecol_ir n k c)) = true /\ opb_sat a (to_opb (cliquecol_ir n k c)) = true /\
    (cc_E a n = filter Eobj (pairs (upto n)) /\
     (forall i u, 1 <= i <= k -> 1 <= u <= n -> cc_Q a n i u = Q i u) /\
     (forall v l, 1 <= v <= n -> 1 <= l <= c -> cc_C a n k c v l = C v l)).
Proof. intros Hn Hk Hc HP. apply (final_T2 (cliquecol_ir n k c)); [now apply cliquecol_ok|now apply cliquecol_T2]. Qed.
Theorem cliquecol_sat_iff_final n k c : 0 <= n -> 0 <= k -> 0 <= c ->
  ((exists a, cnf_sat a (to_cnf (cliquecol_ir n k c)) = true) <-> k <= n /\ k <= c /\ (n = 0 \/ 1 <= c)) /\
  ((exists a, opb_sat a (to_opb (cliquecol_ir n k c)) = true) <-> k <= n /\ k <= c /\ (n = 0 \/ 1 <= c)).
Proof. intros Hn Hk Hc. apply final_sat; [now apply cliquecol_ok|now apply cliquecol_sat_iff]. Qed.
(* the decoded edges are pairs u < v of vertices *)
Theorem cliquecol_edges_spec a n u v : In (u, v) (cc_E a n) -> 1 <= u /\ u < v /\ v <= n.
Proof. intros H. apply In_sel in H as [id [He _]]. apply cc_etab_spec in He. cbn in He. lia. Qed.
