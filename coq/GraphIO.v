(* GraphIO.v -- graph file readers and writers of cnfgen/graphs.py, character level.
   Definitions only.

   Models (cnfgen/graphs.py):
     readGraph / writeGraph (dispatch, format table, 'dag' test)       gio_read_graph, gio_write_graph, gio_supported
     _kthlist_parse, _read_nonbipartite_kthlist, _read_bipartite_kthlist   gio_kth_line, gio_kth_header, gio_read_kth, gio_read_kthb
     _read_graph_dimacs_format                                         gio_read_dimacs
     _read_graph_matrix_format (scan_integer)                          gio_matrix_stream, gio_read_matrix
     _write_graph_kthlist_nonbipartite/_bipartite, _dimacs_, _matrix_  gio_write_kth, gio_write_kthb, gio_write_dimacs, gio_write_matrix
     normalize_networkx_labels + Graph/DirectedGraph/BipartiteGraph.from_networkx   gio_from_nx, gio_bip_from_nx
   Outcomes are explicit: GOk value | GRaise exception-class, in the order the Python code raises.

   Two revisions of the code are modelled.  The functions without suffix follow the CURRENT code
   (after the repairs bb735e1, 11330db, 1f39172, 733c3b6); the functions with suffix _as_found follow
   the code before these four commits.  They differ in exactly four places, selected by the boolean
   [af] ("as found") of the _gen functions:
     D6  next(parser) of the kthlist readers      StopIteration is turned into ValueError | escapes
     D7  blank line in the DIMACS reader          skipped                                  | l[0] raises IndexError
     D8  `previous` of the bipartite kthlist loop set to the left vertex of each row       | stays 0
     D9  dot node labels                          int(v) when every label is an integer    | decimal strings

   Abstracted:
   * a graph object is (kind, name, order(s), edge list in the iteration order of G.edges()):
     lexicographically sorted, duplicate free, (min,max) for simple graphs.  Sorted adjacency
     lists (bisect insertion) are read off that list; Graph/DirectedGraph/BipartiteGraph
     internals are the subject of property C16.
   * the text is the str delivered by the file object (after newline translation), latin-1 range.
   * networkx / pydot (gml, dot) are not modelled: only cnfgen's own step after them, i.e. sorting the
     node labels, relabelling 1..n, and from_networkx.  gio_read_graph answers GRaise ENotModelled there.
   * error messages (only the exception class is kept).
   Identifiers are prefixed gio_ (single extracted OCaml module). *)
From Coq Require Import ZArith List Bool Ascii.
From Cnfgen Require Import GText.
Import ListNotations.
Open Scope Z_scope.

Inductive gio_exn := EValueError | EStopIteration | EIndexError | ETypeError | ENotModelled.
Inductive gio_res (A : Type) := GOk (a : A) | GRaise (e : gio_exn).
Arguments GOk {A} a.
Arguments GRaise {A} e.

Definition gio_bind {A B} (x : gio_res A) (f : A -> gio_res B) : gio_res B :=
  match x with GOk a => f a | GRaise e => GRaise e end.

(* ---------- graphs ---------- *)
Inductive gio_kind := GioSimple | GioDirected | GioBipartite.
(* io_n: number of vertices (left vertices when bipartite); io_r: right vertices (0 otherwise) *)
Record iograph := mkIOG { io_kind : gio_kind; io_name : gt_str; io_n : Z; io_r : Z; io_edges : list (Z * Z) }.

Definition gio_pair_eqb (a b : Z * Z) : bool := (fst a =? fst b) && (snd a =? snd b).
Definition gio_pair_ltb (a b : Z * Z) : bool :=
  (fst a <? fst b) || ((fst a =? fst b) && (snd a <? snd b)).

(* insertion keeping the list sorted and duplicate free (bisect_right + edgeset test) *)
Fixpoint gio_insert (e : Z * Z) (l : list (Z * Z)) : list (Z * Z) :=
  match l with
  | [] => [e]
  | x :: t => if gio_pair_ltb e x then e :: l
              else if gio_pair_eqb e x then l
              else x :: gio_insert e t
  end.
Definition gio_mem (e : Z * Z) (l : list (Z * Z)) : bool := existsb (gio_pair_eqb e) l.

Definition gio_has_edge (G : iograph) (u v : Z) : bool :=
  match io_kind G with
  | GioSimple => gio_mem (Z.min u v, Z.max u v) (io_edges G)
  | _ => gio_mem (u, v) (io_edges G)
  end.

(* Graph(n, name) / DirectedGraph(n, name) / BipartiteGraph(L, R, name): non_negative_int checks *)
Definition gio_new (k : gio_kind) (name : gt_str) (n r : Z) : gio_res iograph :=
  if (n <? 0) || (r <? 0) then GRaise EValueError else GOk (mkIOG k name n r []).

Definition gio_with_edges (G : iograph) (es : list (Z * Z)) : iograph :=
  mkIOG (io_kind G) (io_name G) (io_n G) (io_r G) es.

Definition gio_add_edge (G : iograph) (u v : Z) : gio_res iograph :=
  match io_kind G with
  | GioSimple =>
    if (1 <=? u) && (u <=? io_n G) && (1 <=? v) && (v <=? io_n G) && negb (u =? v)
    then GOk (gio_with_edges G (gio_insert (Z.min u v, Z.max u v) (io_edges G)))
    else GRaise EValueError
  | GioDirected =>
    if (1 <=? u) && (u <=? io_n G) && (1 <=? v) && (v <=? io_n G)
    then GOk (gio_with_edges G (gio_insert (u, v) (io_edges G)))
    else GRaise EValueError
  | GioBipartite =>
    if (1 <=? u) && (u <=? io_n G) && (1 <=? v) && (v <=? io_r G)
    then GOk (gio_with_edges G (gio_insert (u, v) (io_edges G)))
    else GRaise EValueError
  end.

(* for (u,v) in es: G.add_edge(u,v) *)
Fixpoint gio_add_edges (G : iograph) (es : list (Z * Z)) : gio_res iograph :=
  match es with
  | [] => GOk G
  | (u, v) :: t => gio_bind (gio_add_edge G u v) (fun G' => gio_add_edges G' t)
  end.

(* DirectedGraph.is_dag(): still_a_dag is cleared by any edge with src >= dest *)
Definition gio_is_dag (G : iograph) : bool := forallb (fun e => fst e <? snd e) (io_edges G).

(* sorted adjacency lists read off the sorted edge list *)
Definition gio_preds (G : iograph) (v : Z) : list Z :=
  map fst (filter (fun e => snd e =? v) (io_edges G)).
Definition gio_succs (G : iograph) (u : Z) : list Z :=
  map snd (filter (fun e => fst e =? u) (io_edges G)).
(* Graph.neighbors(v): smaller neighbours then larger ones, both increasing *)
Definition gio_neighbors (G : iograph) (v : Z) : list Z := gio_preds G v ++ gio_succs G v.

(* ---------- kthlist: _kthlist_parse, one line ---------- *)
Inductive gio_kitem := KISkip | KISize (n : Z) | KIAdj (lft : Z) (rgt : list Z).

Definition gio_kth_line (size : Z) (l : gt_str) : gio_res gio_kitem :=
  match l with
  | [] => GRaise EIndexError                       (* l[0]; readlines never delivers '' *)
  | c :: _ =>
    if Ascii.eqb c gt_c then GOk KISkip            (* comment *)
    else if gt_is_nil (gt_strip l) then GOk KISkip (* blank *)
    else if negb (gt_mem gt_colon l) then
      (* vertex number spec *)
      if size >=? 0 then GRaise EValueError
      else match gt_int (gt_strip l) with
           | Some z => if z <? 0 then GRaise EValueError else GOk (KISize z)
           | None => GRaise EValueError
           end
    else
      match gt_split_on gt_colon l with
      | [lpart; rpart] =>
        match gt_int (gt_strip lpart) with
        | None => GRaise EValueError
        | Some lf =>
          match gt_ints (gt_split_ws rpart) with
          | None => GRaise EValueError
          | Some rs =>
            if gt_is_nil rs || negb (last rs 1 =? 0) then GRaise EValueError
            else if (lf <? 1) || (lf >? size) then GRaise EValueError
            else let rs' := removelast rs in
                 if existsb (fun x => (x <? 1) || (x >? size)) rs' then GRaise EValueError
                 else GOk (KIAdj lf rs')
          end
        end
      | _ => GRaise EValueError                    (* left, right = l.split(':') *)
      end
  end.

(* the graph name: first comment line with a non blank body, before the size line *)
Fixpoint gio_kth_name (ls : list gt_str) : gt_str :=
  match ls with
  | [] => []
  | l :: t =>
    match l with
    | [] => []
    | c :: _ =>
      if Ascii.eqb c gt_c then
        (if gt_is_nil (gt_strip (skipn 2 l)) then gio_kth_name t else skipn 2 l)
      else if gt_is_nil (gt_strip l) then gio_kth_name t
      else []
    end
  end.

(* next(parser): run the generator to its first yield; an exhausted generator raises StopIteration *)
Fixpoint gio_kth_next (ls : list gt_str) : gio_res (Z * list gt_str) :=
  match ls with
  | [] => GRaise EStopIteration
  | l :: t =>
    match gio_kth_line (-1) l with
    | GRaise e => GRaise e
    | GOk KISkip => gio_kth_next t
    | GOk (KISize n) => GOk (n, t)
    | GOk (KIAdj _ _) => GRaise EValueError        (* size, name = <3-tuple> *)
    end
  end.

(* try: size, name = next(parser)  except StopIteration: raise ValueError(...)
   as found: no try, StopIteration escapes (D6) *)
Definition gio_kth_header_gen (af : bool) (ls : list gt_str) : gio_res (Z * list gt_str) :=
  match gio_kth_next ls with
  | GRaise EStopIteration => if af then GRaise EStopIteration else GRaise EValueError
  | r => r
  end.
Definition gio_kth_header := gio_kth_header_gen false.
Definition gio_kth_header_as_found := gio_kth_header_gen true.

(* _read_nonbipartite_kthlist: the loop over the remaining items *)
Fixpoint gio_kth_body (size : Z) (ls : list gt_str) (previous : Z) (G : iograph) : gio_res iograph :=
  match ls with
  | [] => GOk G
  | l :: t =>
    match gio_kth_line size l with
    | GRaise e => GRaise e
    | GOk KISkip => gio_kth_body size t previous G
    | GOk (KISize _) => GRaise EValueError
    | GOk (KIAdj succ preds) =>
      if succ <=? previous then GRaise EValueError
      else gio_bind (gio_add_edges G (map (fun v => (v, succ)) preds))
                    (fun G' => gio_kth_body size t succ G')
    end
  end.

Definition gio_read_kth_gen (af : bool) (k : gio_kind) (text : gt_str) : gio_res iograph :=
  let ls := gt_lines text in
  gio_bind (gio_kth_header_gen af ls) (fun hd =>
  gio_bind (gio_new k (gio_kth_name ls) (fst hd) 0) (fun G =>
  gio_kth_body (fst hd) (snd hd) 0 G)).
Definition gio_read_kth := gio_read_kth_gen false.
Definition gio_read_kth_as_found := gio_read_kth_gen true.

(* dict assignment edges[left] = right *)
Fixpoint gio_dict_set (k : Z) (v : list Z) (d : list (Z * list Z)) : list (Z * list Z) :=
  match d with
  | [] => [(k, v)]
  | (k', v') :: t => if k' =? k then (k, v) :: t else (k', v') :: gio_dict_set k v t
  end.

(* for v in right: check against the lower bound, lower the upper bound *)
Fixpoint gio_kthb_scan (rgt : list Z) (lo hi : Z) : option Z :=
  match rgt with
  | [] => Some hi
  | v :: t => if v <? lo then None else gio_kthb_scan t lo (Z.min hi (v - 1))
  end.

(* _read_bipartite_kthlist, the loop: `previous = left` at the end of each round
   (as found: the assignment is missing and `previous` stays 0 for the whole loop, D8) *)
Fixpoint gio_kthb_body_gen (af : bool) (size : Z) (ls : list gt_str) (previous lo hi : Z) (d : list (Z * list Z))
  : gio_res (Z * list (Z * list Z)) :=
  match ls with
  | [] => GOk (lo, d)
  | l :: t =>
    match gio_kth_line size l with
    | GRaise e => GRaise e
    | GOk KISkip => gio_kthb_body_gen af size t previous lo hi d
    | GOk (KISize _) => GRaise EValueError
    | GOk (KIAdj lft rgt) =>
      if lft <=? previous then GRaise EValueError
      else if lft >? hi then GRaise EValueError
      else let lo' := Z.max lo (lft + 1) in
           match gio_kthb_scan rgt lo' hi with
           | None => GRaise EValueError
           | Some hi' => gio_kthb_body_gen af size t (if af then previous else lft) lo' hi' (gio_dict_set lft rgt d)
           end
    end
  end.

Definition gio_dict_edges (L : Z) (d : list (Z * list Z)) : list (Z * Z) :=
  flat_map (fun kv => map (fun v => (fst kv, v - L)) (snd kv)) d.

Definition gio_read_kthb_gen (af : bool) (text : gt_str) : gio_res iograph :=
  let ls := gt_lines text in
  gio_bind (gio_kth_header_gen af ls) (fun hd =>
  let size := fst hd in
  gio_bind (gio_kthb_body_gen af size (snd hd) 0 1 size []) (fun st =>
  let L := fst st - 1 in
  let R := size - fst st + 1 in
  gio_bind (gio_new GioBipartite (gio_kth_name ls) L R) (fun G =>
  gio_add_edges G (gio_dict_edges L (snd st))))).
Definition gio_read_kthb := gio_read_kthb_gen false.
Definition gio_read_kthb_as_found := gio_read_kthb_gen true.

(* ---------- dimacs ---------- *)
Record gio_dstate := mkDS { ds_G : option iograph; ds_name : gt_str; ds_m : Z; ds_cnt : Z }.

Definition gio_edge_word : gt_str := [gt_e; gt_d; gt_g; gt_e].

Definition gio_dimacs_line_gen (af : bool) (k : gio_kind) (st : gio_dstate) (raw : gt_str) : gio_res gio_dstate :=
  let l := gt_strip raw in
  match l with
  | [] => if af then GRaise EIndexError            (* as found: l[0] of a blank line (D7) *)
          else GOk st                              (* if len(l) == 0: continue *)
  | c :: _ =>
    if Ascii.eqb c gt_c then GOk (mkDS (ds_G st) (ds_name st ++ skipn 2 l) (ds_m st) (ds_cnt st))
    else if Ascii.eqb c gt_p then
      match ds_G st with
      | Some _ => GRaise EValueError
      | None =>
        match gt_split_ws l with
        | [_; fmt; nstr; mstr] =>
          if negb (gt_str_eqb fmt gio_edge_word) then GRaise EValueError
          else match gt_int nstr with
               | None => GRaise EValueError
               | Some n =>
                 match gt_int mstr with
                 | None => GRaise EValueError
                 | Some m => gio_bind (gio_new k (ds_name st) n 0)
                                      (fun G => GOk (mkDS (Some G) (ds_name st) m (ds_cnt st)))
                 end
               end
        | _ => GRaise EValueError
        end
      end
    else if Ascii.eqb c gt_e then
      match ds_G st with
      | None => GRaise EValueError
      | Some G =>
        match gt_split_ws l with
        | [_; v; w] =>
          match gt_int v with
          | None => GRaise EValueError
          | Some vi =>
            match gt_int w with
            | None => GRaise EValueError
            | Some wi =>
              match gio_add_edge G vi wi with
              | GOk G' => GOk (mkDS (Some G') (ds_name st) (ds_m st) (ds_cnt st + 1))
              | GRaise _ => GRaise EValueError
              end
            end
          end
        | _ => GRaise EValueError
        end
      end
    else GOk st                                    (* any other line is ignored *)
  end.

Fixpoint gio_dimacs_loop_gen (af : bool) (k : gio_kind) (st : gio_dstate) (ls : list gt_str) : gio_res gio_dstate :=
  match ls with
  | [] => GOk st
  | l :: t => gio_bind (gio_dimacs_line_gen af k st l) (fun st' => gio_dimacs_loop_gen af k st' t)
  end.

Definition gio_read_dimacs_gen (af : bool) (k : gio_kind) (text : gt_str) : gio_res iograph :=
  gio_bind (gio_dimacs_loop_gen af k (mkDS None [] (-1) 0) (gt_lines text)) (fun st =>
  if negb (ds_m st =? ds_cnt st) then GRaise EValueError
  else match ds_G st with
       | Some G => GOk G
       | None => GRaise EValueError                (* not reachable: m = -1 <> m_cnt *)
       end).
Definition gio_read_dimacs := gio_read_dimacs_gen false.
Definition gio_read_dimacs_as_found := gio_read_dimacs_gen true.

(* ---------- matrix ---------- *)
(* what scan_integer delivers: the integers of the non comment lines; a line with a non numeric
   token raises when it is loaded, before any of its tokens is delivered *)
Inductive gio_mtok := MGood (z : Z) | MBad.

Definition gio_matrix_line (l : gt_str) : list gio_mtok :=
  match gt_split_ws l with
  | [] => []
  | t0 :: rest =>
    match t0 with
    | c :: _ => if Ascii.eqb c gt_hash then []
                else match gt_ints (t0 :: rest) with
                     | Some zs => map MGood zs
                     | None => [MBad]
                     end
    | [] => []
    end
  end.
Definition gio_matrix_stream (ls : list gt_str) : list gio_mtok := flat_map gio_matrix_line ls.

(* next(scanner) inside the try: StopIteration is turned into ValueError *)
Definition gio_mpop (s : list gio_mtok) : gio_res (Z * list gio_mtok) :=
  match s with
  | MGood z :: t => GOk (z, t)
  | _ => GRaise EValueError
  end.

(* the double loop over i, j, entry number k = (i-1)*m + (j-1) *)
Fixpoint gio_matrix_entries (s : list gio_mtok) (k total m : Z) (G : iograph)
  : gio_res (iograph * list gio_mtok) :=
  if k >=? total then GOk (G, s)
  else match s with
       | MGood b :: t =>
         if b =? 1 then gio_bind (gio_add_edge G (k / m + 1) (k mod m + 1))
                                 (fun G' => gio_matrix_entries t (k + 1) total m G')
         else if b =? 0 then gio_matrix_entries t (k + 1) total m G
         else GRaise EValueError
       | _ => GRaise EValueError
       end.

Definition gio_read_matrix (text : gt_str) : gio_res iograph :=
  let s := gio_matrix_stream (gt_lines text) in
  gio_bind (gio_mpop s) (fun a =>
  gio_bind (gio_mpop (snd a)) (fun b =>
  let n := fst a in let m := fst b in
  gio_bind (gio_new GioBipartite [] n m) (fun G =>
  gio_bind (gio_matrix_entries (snd b) 0 (n * m) m G) (fun r =>
  match snd r with
  | [] => GOk (fst r)
  | _ :: _ => GRaise EValueError                   (* more entries, or a further bad line *)
  end)))).

(* ---------- writers ---------- *)
Definition gio_kth_row (v : Z) (nb : list Z) : gt_str :=
  gt_print_Z v ++ [gt_sp; gt_colon] ++ concat (map (fun i => gt_sp :: gt_print_Z i) nb) ++ [gt_sp; gt_zero; gt_nl].

Definition gio_write_kth (G : iograph) : gt_str :=
  [gt_c; gt_sp] ++ io_name G ++ [gt_nl] ++
  gt_print_Z (io_n G) ++ [gt_nl] ++
  concat (map (fun v => gio_kth_row v (match io_kind G with
                                       | GioDirected => gio_preds G v
                                       | _ => gio_neighbors G v
                                       end)) (gt_range1 (io_n G))) ++ [gt_nl].

Definition gio_write_kthb (G : iograph) : gt_str :=
  [gt_c; gt_sp] ++ io_name G ++ [gt_nl] ++
  gt_print_Z (io_n G + io_r G) ++ [gt_nl] ++
  concat (map (fun u => gio_kth_row u (map (fun v => v + io_n G) (gio_succs G u))) (gt_range1 (io_n G))) ++ [gt_nl].

Definition gio_write_dimacs (G : iograph) : gt_str :=
  gt_strip ([gt_c; gt_sp] ++ io_name G) ++ [gt_nl] ++
  [gt_p; gt_sp] ++ gio_edge_word ++ [gt_sp] ++ gt_print_Z (io_n G) ++ [gt_sp] ++
     gt_print_Z (Z.of_nat (length (io_edges G))) ++ [gt_nl] ++
  concat (map (fun e => [gt_e; gt_sp] ++ gt_print_Z (fst e) ++ [gt_sp] ++ gt_print_Z (snd e) ++ [gt_nl]) (io_edges G)).

Definition gio_write_matrix (G : iograph) : gt_str :=
  gt_print_Z (io_n G) ++ [gt_sp] ++ gt_print_Z (io_r G) ++ [gt_nl] ++
  concat (map (fun u => gt_join [gt_sp] (map (fun v => if gio_has_edge G u v then [gt_one] else [gt_zero])
                                              (gt_range1 (io_r G))) ++ [gt_nl])
              (gt_range1 (io_n G))).

(* ---------- readGraph / writeGraph ---------- *)
Inductive gio_gtype := TSimple | TDigraph | TDag | TBipartite.
Inductive gio_fmt := FKthlist | FGml | FDot | FDimacs | FMatrix.

Definition gio_fmt_eqb (a b : gio_fmt) : bool :=
  match a, b with
  | FKthlist, FKthlist | FGml, FGml | FDot, FDot | FDimacs, FDimacs | FMatrix, FMatrix => true
  | _, _ => false
  end.

(* supported_file_formats of the class of the graph type; has_dot = has_dot_library() *)
Definition gio_supported (has_dot : bool) (t : gio_gtype) : list gio_fmt :=
  match t with
  | TBipartite => [FKthlist; FGml] ++ (if has_dot then [FDot] else []) ++ [FMatrix]
  | _ => [FKthlist; FGml] ++ (if has_dot then [FDot] else []) ++ [FDimacs]
  end.

Definition gio_kind_of (t : gio_gtype) : gio_kind :=
  match t with TSimple => GioSimple | TBipartite => GioBipartite | _ => GioDirected end.

Definition gio_read_graph_gen (af : bool) (has_dot : bool) (t : gio_gtype) (f : gio_fmt) (text : gt_str) : gio_res iograph :=
  if negb (existsb (gio_fmt_eqb f) (gio_supported has_dot t)) then GRaise EValueError
  else
    gio_bind (match f with
              | FKthlist => match t with TBipartite => gio_read_kthb_gen af text | _ => gio_read_kth_gen af (gio_kind_of t) text end
              | FDimacs => gio_read_dimacs_gen af (gio_kind_of t) text
              | FMatrix => gio_read_matrix text
              | _ => GRaise ENotModelled
              end)
             (fun G => match t with
                       | TDag => if gio_is_dag G then GOk G else GRaise EValueError
                       | _ => GOk G
                       end).
Definition gio_read_graph := gio_read_graph_gen false.
Definition gio_read_graph_as_found := gio_read_graph_gen true.

Definition gio_write_graph (has_dot : bool) (t : gio_gtype) (f : gio_fmt) (G : iograph) : gio_res gt_str :=
  if negb (existsb (gio_fmt_eqb f) (gio_supported has_dot t)) then GRaise EValueError
  else match f with
       | FKthlist => match t with TBipartite => GOk (gio_write_kthb G) | _ => GOk (gio_write_kth G) end
       | FDimacs => GOk (gio_write_dimacs G)
       | FMatrix => GOk (gio_write_matrix G)
       | _ => GRaise ENotModelled
       end.

(* ---------- cnfgen's part of the gml / dot readers ---------- *)
(* sorted(G.nodes()) *)
Fixpoint gio_sort_insert {A} (ltb : A -> A -> bool) (x : A) (l : list A) : list A :=
  match l with
  | [] => [x]
  | y :: t => if ltb x y then x :: l else y :: gio_sort_insert ltb x t
  end.
Definition gio_sort {A} (ltb : A -> A -> bool) (l : list A) : list A :=
  fold_right (gio_sort_insert ltb) [] l.

(* mapping[label] : 1 + position in the sorted list *)
Fixpoint gio_index {A} (eqb : A -> A -> bool) (x : A) (l : list A) (i : Z) : option Z :=
  match l with
  | [] => None
  | y :: t => if eqb x y then Some i else gio_index eqb x t (i + 1)
  end.

Fixpoint gio_relabel {A} (eqb : A -> A -> bool) (sorted : list A) (es : list (A * A)) : option (list (Z * Z)) :=
  match es with
  | [] => Some []
  | (a, b) :: t =>
    match gio_index eqb a sorted 1, gio_index eqb b sorted 1, gio_relabel eqb sorted t with
    | Some u, Some v, Some r => Some ((u, v) :: r)
    | _, _, _ => None
    end
  end.

(* normalize_networkx_labels (ordering='sorted') then cls(G.order()); add_edges_from(G.edges()).
   None: an edge mentions a node that is not in the node list (not a networkx graph). *)
Definition gio_from_nx {A} (ltb eqb : A -> A -> bool) (k : gio_kind) (name : gt_str)
           (nodes : list A) (edges : list (A * A)) : option (gio_res iograph) :=
  match gio_relabel eqb (gio_sort ltb nodes) edges with
  | None => None
  | Some es => Some (gio_bind (gio_new k name (Z.of_nat (length nodes)) 0) (fun G => gio_add_edges G es))
  end.

(* readGraph, dot branch, after read_dot (node names are str):
     try:    G = networkx.relabel_nodes(G, {v: int(v) for v in G.nodes()})
     except ValueError: pass
     G = graph_class.normalize(G)
   When EVERY label is accepted by int() the labels become integers (labels with the same value are merged
   into one node, in the position of the first of them) and are sorted as numbers; when one label is not
   an integer nothing is relabelled and the labels are sorted as strings.
   None: an edge mentions a node that is not in the node list (not a networkx graph). *)
Fixpoint gio_nodup_Z (l : list Z) : list Z :=
  match l with
  | [] => []
  | x :: t => x :: filter (fun y => negb (y =? x)) (gio_nodup_Z t)
  end.
Definition gio_dot_normalize (k : gio_kind) (name : gt_str) (nodes : list gt_str) (edges : list (gt_str * gt_str))
  : option (gio_res iograph) :=
  match gt_ints nodes with
  | Some zs =>
    match gt_ints (map fst edges), gt_ints (map snd edges) with
    | Some us, Some vs => gio_from_nx Z.ltb Z.eqb k name (gio_nodup_Z zs) (combine us vs)
    | _, _ => None
    end
  | None => gio_from_nx gt_str_ltb gt_str_eqb k name nodes edges
  end.
(* as found (D9): no relabelling, decimal strings are sorted as strings *)
Definition gio_dot_normalize_as_found (k : gio_kind) (name : gt_str) (nodes : list gt_str) (edges : list (gt_str * gt_str))
  : option (gio_res iograph) := gio_from_nx gt_str_ltb gt_str_eqb k name nodes edges.

(* what to_networkx + write_dot + read_dot hand to that step: decimal strings as labels *)
Definition gio_dot_nodes (n : Z) : list gt_str := map gt_print_Z (gt_range1 n).
Definition gio_dot_edges (es : list (Z * Z)) : list (gt_str * gt_str) :=
  map (fun e => (gt_print_Z (fst e), gt_print_Z (snd e))) es.
Definition gio_dot_roundtrip (G : iograph) : option (gio_res iograph) :=
  gio_dot_normalize (io_kind G) (io_name G) (gio_dot_nodes (io_n G)) (gio_dot_edges (io_edges G)).
Definition gio_dot_roundtrip_as_found (G : iograph) : option (gio_res iograph) :=
  gio_dot_normalize_as_found (io_kind G) (io_name G) (gio_dot_nodes (io_n G)) (gio_dot_edges (io_edges G)).
(* gml: the reader is called with label='id'; ids are the integers 0..n-1 *)
Definition gio_gml_roundtrip (G : iograph) : option (gio_res iograph) :=
  gio_from_nx Z.ltb Z.eqb (io_kind G) (io_name G) (map (fun v => v - 1) (gt_range1 (io_n G)))
              (map (fun e => (fst e - 1, snd e - 1)) (io_edges G)).

(* BipartiteGraph.from_networkx: sides by the 'bipartite' attribute in node order; no sorting *)
Definition gio_bip_from_nx {A} (eqb : A -> A -> bool) (name : gt_str)
           (nodes : list (A * Z)) (edges : list (A * A)) : gio_res iograph :=
  if negb (forallb (fun nc => (snd nc =? 0) || (snd nc =? 1)) nodes) then GRaise EValueError
  else
    let side0 := map fst (filter (fun nc => snd nc =? 0) nodes) in
    let side1 := map fst (filter (fun nc => snd nc =? 1) nodes) in
    gio_bind (gio_new GioBipartite name (Z.of_nat (length side0)) (Z.of_nat (length side1))) (fun B =>
    (fix go (B : iograph) (es : list (A * A)) : gio_res iograph :=
       match es with
       | [] => GOk B
       | (u, v) :: t =>
         let ucolor := match gio_index eqb u side0 1 with Some _ => 0 | None => 1 end in
         let vcolor := match gio_index eqb v side1 1 with Some _ => 1 | None => 0 end in
         if ucolor =? vcolor then GRaise EValueError
         else
           let iu := gio_index eqb u (if ucolor =? 0 then side0 else side1) 1 in
           let iv := gio_index eqb v (if vcolor =? 0 then side0 else side1) 1 in
           match iu, iv with
           | Some a, Some b => gio_bind (if ucolor =? 0 then gio_add_edge B a b else gio_add_edge B b a) (fun B' => go B' t)
           | _, _ => GRaise EValueError              (* KeyError is not reachable for nodes of G *)
           end
       end) B edges).

(* readGraph, dot branch, bipartite type: the same relabelling, then BipartiteGraph.normalize; relabel_nodes
   keeps the node order and the 'bipartite' attributes.  None: outside the model (two labels with the same
   integer value are merged by networkx; an edge endpoint that is not an integer although all nodes are). *)
Fixpoint gio_nodupb_Z (l : list Z) : bool :=
  match l with
  | [] => true
  | x :: t => negb (existsb (Z.eqb x) t) && gio_nodupb_Z t
  end.
Definition gio_dot_bip_normalize (name : gt_str) (nodes : list (gt_str * Z)) (edges : list (gt_str * gt_str))
  : option (gio_res iograph) :=
  match gt_ints (map fst nodes) with
  | Some zs =>
    match gt_ints (map fst edges), gt_ints (map snd edges) with
    | Some us, Some vs =>
      if gio_nodupb_Z zs then Some (gio_bip_from_nx Z.eqb name (combine zs (map snd nodes)) (combine us vs)) else None
    | _, _ => None
    end
  | None => Some (gio_bip_from_nx gt_str_eqb name nodes edges)
  end.
