(* Fam_cpls.v — model of cnfgen/families/cpls.py: CPLSFormula(a,b,c)
   (Thapen's coloured polynomial local search formula).  Definitions only.

   Variables, in the order the Python code creates them:
     G_i(x,y)      new_block(a,b,c):           ((i-1)*b + (x-1))*c + y
     (f_i(x))_j    a groups new_binary_mapping(b,b), Lb = log2 b bits each,
                   bits of f_i(x) are the ids  foff i + (x-1)*Lb + 1 .. foff i + x*Lb (most significant first)
     (u(x))_j      new_binary_mapping(b,c), Lc = log2 c bits.
   BinaryMappingVariables.forbid(x,j) is the clause falsified exactly when the bits
   of x spell j: [forbid] (sign of the t-th variable = bit of j, most significant first).
   The number of bits is ceil(log2 m) = Z.log2_up m (the Python code computes it in
   floating point; exact for m < 2^29, DESIGN section 8).
   Abstracted: description/header, labels; the two `assert`s on counts. *)
From Coq Require Import ZArith List Bool.
From Cnfgen Require Import Sem Comb Linear IR C03_Util.
Import ListNotations.
Open Scope Z_scope.

Definition Gid (b c i x y : Z) : Z := ((i - 1) * b + (x - 1)) * c + y.

(* signs from the least significant bit: [rvars] is the list of bit variables, least significant first *)
Fixpoint fb (rvars : list Z) (j : Z) : list Z :=
  match rvars with
  | [] => []
  | v :: t => (if Z.odd j then - v else v) :: fb t (j / 2)
  end.
Definition bitvars (off L x : Z) : list Z := zrange (off + (x - 1) * L + 1) (off + x * L + 1).
Definition forbid (off L x j : Z) : list Z := rev (fb (rev (bitvars off L x)) j).

Definition cpls_foff (a b c i : Z) : Z := a * b * c + (i - 1) * b * Z.log2_up b.
Definition cpls_uoff (a b c : Z) : Z := a * b * c + a * b * Z.log2_up b.

Definition cpls_ax1 (b c : Z) : cnf := map (fun y => [- Gid b c 1 1 y]) (vrange c).
Definition cpls_ax2 (a b c : Z) : cnf :=
  flat_map (fun i => flat_map (fun x => flat_map (fun xx => map (fun y =>
      forbid (cpls_foff a b c i) (Z.log2_up b) x (xx - 1) ++ [- Gid b c (i + 1) xx y; Gid b c i x y])
    (vrange c)) (vrange b)) (vrange b)) (vrange (a - 1)).
Definition cpls_ax3 (a b c : Z) : cnf :=
  flat_map (fun x => map (fun y => forbid (cpls_uoff a b c) (Z.log2_up c) x (y - 1) ++ [Gid b c a x y])
                         (vrange c)) (vrange b).
Definition cpls_cnf (a b c : Z) : cnf := cpls_ax1 b c ++ cpls_ax2 a b c ++ cpls_ax3 a b c.

Definition cpls_numvar (a b c : Z) : Z := a * b * c + a * b * Z.log2_up b + b * Z.log2_up c.

Definition is_pow2 (m : Z) : bool := m =? 2 ^ Z.log2_up m.

Definition cpls_formula (a b c : Z) : c3res :=
  if (a <? 1) || (b <? 1) || (c <? 1) then C3Err C3ValueError
  else if negb (is_pow2 b) || negb (is_pow2 c) then C3Err C3ValueError
  else C3Ok (cpls_numvar a b c) (clauses_ir (cpls_cnf a b c)).
