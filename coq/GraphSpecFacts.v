(* GraphSpecFacts.v -- lemmas about coq/GraphSpec.v (graph argument of the command line; C18 / C17). *)
From Coq Require Import ZArith List Bool Ascii String Lia ZifyBool Sorted.
From Cnfgen Require Import Text GraphSpec GraphGen.
Import ListNotations.
Open Scope Z_scope.

(* ------------------------------------------------------------------ *)
(* text equality                                                       *)
(* ------------------------------------------------------------------ *)
Lemma gs_teqb_refl a : gs_teqb a a = true.
Proof. induction a as [|c a IH]; cbn; [reflexivity|]. now rewrite Ascii.eqb_refl, IH. Qed.

Lemma gs_teqb_eq a b : gs_teqb a b = true <-> a = b.
Proof.
  split; [|intros ->; apply gs_teqb_refl].
  revert b. induction a as [|c a IH]; intros [|d b] H; cbn in H; try discriminate; [reflexivity|].
  apply andb_true_iff in H. destruct H as [H1 H2]. apply Ascii.eqb_eq in H1. subst d. f_equal. now apply IH.
Qed.

Lemma gs_teqb_neq a b : gs_teqb a b = false <-> a <> b.
Proof.
  split.
  - intros H E. subst b. now rewrite gs_teqb_refl in H.
  - intros H. destruct (gs_teqb a b) eqn:E; [|reflexivity]. apply gs_teqb_eq in E. contradiction.
Qed.

Lemma gs_mem_In x l : gs_mem x l = true <-> In x l.
Proof.
  unfold gs_mem. rewrite existsb_exists. split.
  - intros [y [Hy E]]. apply gs_teqb_eq in E. now subst y.
  - intros H. exists x. split; [assumption|apply gs_teqb_refl].
Qed.

Lemma gs_mem_not_In x l : gs_mem x l = false <-> ~ In x l.
Proof.
  split.
  - intros H HI. apply gs_mem_In in HI. congruence.
  - intros H. destruct (gs_mem x l) eqn:E; [|reflexivity]. apply gs_mem_In in E. contradiction.
Qed.

(* no format is called "autodetect" *)
Lemma gs_format_not_autodetect g t : gs_mem t (gs_formats g) = true -> gs_teqb t gs_autodetect = false.
Proof.
  intros H. apply gs_mem_In in H. apply gs_teqb_neq. intros ->.
  destruct g; cbn in H; repeat (destruct H as [H|H]; [discriminate H|]); exact H.
Qed.

(* ------------------------------------------------------------------ *)
(* consumenumbers / consumesaveinfo                                    *)
(* ------------------------------------------------------------------ *)
Lemma gs_consume_numbers_app l : fst (gs_consume_numbers l) ++ snd (gs_consume_numbers l) = l.
Proof.
  induction l as [|t r IH]; cbn; [reflexivity|].
  destruct (gs_float_ok t); cbn; [now rewrite IH|reflexivity].
Qed.

Lemma gs_consume_numbers_numeric l : Forall (fun t => gs_float_ok t = true) (fst (gs_consume_numbers l)).
Proof.
  induction l as [|t r IH]; cbn; [constructor|].
  destruct (gs_float_ok t) eqn:E; cbn; [constructor; assumption|constructor].
Qed.

(* consumption stops at the first token that float() refuses *)
Lemma gs_consume_numbers_stop l : match snd (gs_consume_numbers l) with
                                  | [] => True
                                  | t :: _ => gs_float_ok t = false
                                  end.
Proof.
  induction l as [|t r IH]; cbn; [exact I|].
  destruct (gs_float_ok t) eqn:E; cbn; [exact IH|exact E].
Qed.

Lemma gs_consume_numbers_length l : (List.length (snd (gs_consume_numbers l)) <= List.length l)%nat.
Proof.
  induction l as [|t r IH]; cbn; [lia|].
  destruct (gs_float_ok t); cbn; lia.
Qed.

Lemma gs_consume_saveinfo_ok g l info rest :
  gs_consume_saveinfo g l = inl (info, rest) ->
  info ++ rest = l /\
  ((exists f, info = [f] /\ gs_mem f (gs_formats g) = false) \/
   (exists fmt f, info = [fmt; f] /\ gs_mem fmt (gs_formats g) = true)).
Proof.
  unfold gs_consume_saveinfo. destruct l as [|t r]; [discriminate|].
  destruct (gs_mem t (gs_formats g)) eqn:E.
  - destruct r as [|f r']; [discriminate|]. intros H. inversion H; subst. split; [reflexivity|].
    right. exists t, f. auto.
  - intros H. inversion H; subst. split; [reflexivity|]. left. exists t. auto.
Qed.

(* ------------------------------------------------------------------ *)
(* the option loop                                                     *)
(* ------------------------------------------------------------------ *)
Lemma gs_options_loop_no_crash : forall fuel g p toks,
  (List.length toks <= fuel)%nat -> gs_options_loop fuel g p toks <> GSPCrash.
Proof.
  induction fuel as [|f IH]; intros g p toks L.
  - destruct toks; cbn in *; [discriminate|lia].
  - destruct toks as [|o rest]; cbn [gs_options_loop]; [discriminate|]. cbn in L.
    destruct (gs_mem o gs_type_names); [discriminate|].
    destruct (negb (gs_mem o (gs_options g)) && gs_starts_with_dash o); [discriminate|].
    destruct (negb (gs_mem o (gs_options g))); [discriminate|].
    destruct (gs_has_key o p); [discriminate|].
    destruct (gs_teqb o gs_save).
    + destruct (gs_consume_saveinfo g rest) as [[info rest']|e] eqn:E; [|discriminate].
      apply IH. apply gs_consume_saveinfo_ok in E. destruct E as [E _].
      rewrite <- E in L. rewrite app_length in L. lia.
    + apply IH. pose proof (gs_consume_numbers_length rest). lia.
Qed.

Theorem gs_parse_never_crashes g spec : gs_parse g spec <> GSPCrash.
Proof.
  unfold gs_parse. destruct spec as [|s0 rest]; [discriminate|].
  destruct (gs_mem s0 (gs_constructions g)).
  - apply gs_options_loop_no_crash. lia.
  - destruct (gs_mem s0 (gs_formats g)).
    + destruct rest as [|f rest']; [discriminate|]. apply gs_options_loop_no_crash. lia.
    + destruct (gs_format_elsewhere s0 g); [discriminate|].
      destruct (gs_construction_elsewhere s0 g); [discriminate|].
      apply gs_options_loop_no_crash. lia.
Qed.

(* what the loop keeps *)
Definition gs_same_head (p q : gs_parsed) : Prop :=
  p_gtype q = p_gtype p /\ p_construction q = p_construction p /\ p_args q = p_args p /\
  p_argskey q = p_argskey p /\ p_filename q = p_filename p /\ p_fileformat q = p_fileformat p.

Lemma gs_same_head_refl p : gs_same_head p p.
Proof. unfold gs_same_head. tauto. Qed.
Lemma gs_same_head_set k v p : gs_same_head p (gs_set_opt k v p).
Proof. unfold gs_same_head, gs_set_opt. cbn. tauto. Qed.
Lemma gs_same_head_trans p q r : gs_same_head p q -> gs_same_head q r -> gs_same_head p r.
Proof. unfold gs_same_head. intuition congruence. Qed.

Lemma gs_render_head_same p q : gs_same_head p q -> gs_render_head q = gs_render_head p.
Proof. unfold gs_same_head, gs_render_head. intros (_ & -> & -> & _ & -> & ->). reflexivity. Qed.

(* the value stored under an option *)
Definition gs_opt_ok (g : gs_gtype) (kv : text * list text) : Prop :=
  gs_mem (fst kv) (gs_options g) = true /\
  (if gs_teqb (fst kv) gs_save
   then exists fmt f, snd kv = [fmt; f] /\ (fmt = gs_autodetect \/ gs_mem fmt (gs_formats g) = true)
   else Forall (fun t => gs_float_ok t = true) (snd kv)).

Definition gs_opts_ok (g : gs_gtype) (opts : list (text * list text)) : Prop :=
  Forall (gs_opt_ok g) opts /\ NoDup (map fst opts).

Lemma gs_has_key_false o p : gs_has_key o p = false -> ~ In o (map fst (p_opts p)).
Proof.
  unfold gs_has_key. intros H. apply orb_false_iff in H. destruct H as [_ H]. now apply gs_mem_not_In.
Qed.

Lemma NoDup_snoc {A} (l : list A) x : NoDup l -> ~ In x l -> NoDup (l ++ [x]).
Proof.
  induction l as [|y l IH]; intros N H; cbn.
  - constructor; [intros []|constructor].
  - inversion N; subst. constructor.
    + rewrite in_app_iff. cbn. intros [HI|[E|[]]]; [contradiction|]. subst. apply H. now left.
    + apply IH; [assumption|]. intros HI. apply H. now right.
Qed.

Lemma gs_opts_ok_set g o v p :
  gs_opts_ok g (p_opts p) -> gs_opt_ok g (o, v) -> gs_has_key o p = false ->
  gs_opts_ok g (p_opts (gs_set_opt o v p)).
Proof.
  intros [F N] K H. unfold gs_set_opt; cbn [p_opts]. split.
  - apply Forall_app. split; [assumption|constructor; [assumption|constructor]].
  - rewrite map_app. cbn. apply NoDup_snoc; [assumption|]. now apply gs_has_key_false.
Qed.

Lemma gs_render_set o v p :
  gs_render (gs_set_opt o v p) = gs_render p ++ gs_render_opt (o, v).
Proof.
  unfold gs_render. rewrite (gs_render_head_same p _ (gs_same_head_set o v p)).
  unfold gs_set_opt; cbn [p_opts]. rewrite flat_map_app. cbn. now rewrite app_nil_r, app_assoc.
Qed.

(* everything about one run of the loop *)
Lemma gs_options_loop_ok : forall fuel g p toks q,
  gs_options_loop fuel g p toks = GSPOk q ->
  gs_opts_ok g (p_opts p) ->
  gs_same_head p q /\ gs_opts_ok g (p_opts q) /\ gs_render q = gs_render p ++ toks.
Proof.
  induction fuel as [|f IH]; intros g p toks q H OK.
  - destruct toks; cbn in H; [|discriminate]. inversion H; subst.
    split; [apply gs_same_head_refl|]. split; [assumption|now rewrite app_nil_r].
  - destruct toks as [|o rest]; cbn [gs_options_loop] in H.
    + inversion H; subst. split; [apply gs_same_head_refl|]. split; [assumption|now rewrite app_nil_r].
    + destruct (gs_mem o gs_type_names); [discriminate|].
      destruct (negb (gs_mem o (gs_options g)) && gs_starts_with_dash o); [discriminate|].
      destruct (negb (gs_mem o (gs_options g))) eqn:EO; [discriminate|].
      apply negb_false_iff in EO.
      destruct (gs_has_key o p) eqn:EK; [discriminate|].
      destruct (gs_teqb o gs_save) eqn:ES.
      * destruct (gs_consume_saveinfo g rest) as [[info rest']|e] eqn:E; [|discriminate].
        apply gs_consume_saveinfo_ok in E. destruct E as [E SH].
        set (info' := match info with [f0] => [gs_autodetect; f0] | _ => info end) in H.
        assert (OK' : gs_opt_ok g (o, info')).
        { split; [exact EO|]. cbn [fst snd]. rewrite ES.
          destruct SH as [[f0 [-> _]]|[fmt [f0 [-> M]]]]; subst info'.
          - exists gs_autodetect, f0. auto.
          - exists fmt, f0. auto. }
        specialize (IH g _ _ _ H (gs_opts_ok_set g o info' p OK OK' EK)).
        destruct IH as [SHd [OKq R]].
        split; [eapply gs_same_head_trans; [apply gs_same_head_set|exact SHd]|]. split; [exact OKq|].
        rewrite R, gs_render_set, <- app_assoc. f_equal.
        unfold gs_render_opt. cbn [fst snd]. rewrite ES.
        destruct SH as [[f0 [-> _]]|[fmt [f0 [-> M]]]]; subst info'; cbn in E; subst rest.
        -- rewrite gs_teqb_refl. reflexivity.
        -- rewrite (gs_format_not_autodetect g fmt M). reflexivity.
      * assert (OK' : gs_opt_ok g (o, fst (gs_consume_numbers rest))).
        { split; [exact EO|]. cbn [fst snd]. rewrite ES. apply gs_consume_numbers_numeric. }
        specialize (IH g _ _ _ H (gs_opts_ok_set g o _ p OK OK' EK)).
        destruct IH as [SHd [OKq R]].
        split; [eapply gs_same_head_trans; [apply gs_same_head_set|exact SHd]|]. split; [exact OKq|].
        rewrite R, gs_render_set, <- app_assoc. f_equal.
        unfold gs_render_opt. cbn [fst snd]. rewrite ES. cbn. f_equal. apply gs_consume_numbers_app.
Qed.

Lemma gs_opts_ok_nil g : gs_opts_ok g [].
Proof. split; constructor. Qed.

(* the initial value of `result` in each of the three accepting branches *)
Inductive gs_head_of (g : gs_gtype) (spec : list text) (p0 : gs_parsed) (rest : list text) : Prop :=
| gs_head_construction s0 r :
    spec = s0 :: r -> gs_mem s0 (gs_constructions g) = true ->
    p0 = mk_gs_parsed g (Some s0) (Some (fst (gs_consume_numbers r))) true None None [] ->
    rest = snd (gs_consume_numbers r) -> gs_head_of g spec p0 rest
| gs_head_format s0 f r :
    spec = s0 :: f :: r -> gs_mem s0 (gs_constructions g) = false -> gs_mem s0 (gs_formats g) = true ->
    p0 = mk_gs_parsed g None None true (Some f) (Some s0) [] -> rest = r -> gs_head_of g spec p0 rest
| gs_head_file s0 r :
    spec = s0 :: r -> gs_mem s0 (gs_constructions g) = false -> gs_mem s0 (gs_formats g) = false ->
    gs_format_elsewhere s0 g = false -> gs_construction_elsewhere s0 g = false ->
    p0 = mk_gs_parsed g None None false (Some s0) (Some gs_autodetect) [] -> rest = r -> gs_head_of g spec p0 rest.

Lemma gs_parse_ok_inv g spec q :
  gs_parse g spec = GSPOk q ->
  exists p0 rest fuel, gs_head_of g spec p0 rest /\ gs_options_loop fuel g p0 rest = GSPOk q.
Proof.
  unfold gs_parse. destruct spec as [|s0 rest]; [discriminate|].
  destruct (gs_mem s0 (gs_constructions g)) eqn:EC.
  - intros H. eexists _, _, _. split; [|exact H]. eapply gs_head_construction; eauto.
  - destruct (gs_mem s0 (gs_formats g)) eqn:EF.
    + destruct rest as [|f rest']; [discriminate|]. intros H. eexists _, _, _. split; [|exact H].
      eapply gs_head_format; eauto.
    + destruct (gs_format_elsewhere s0 g) eqn:E1; [discriminate|].
      destruct (gs_construction_elsewhere s0 g) eqn:E2; [discriminate|].
      intros H. eexists _, _, _. split; [|exact H]. eapply gs_head_file; eauto.
Qed.

Lemma gs_head_render g spec p0 rest : gs_head_of g spec p0 rest -> gs_render p0 ++ rest = spec.
Proof.
  intros [s0 r -> M -> -> | s0 f r -> _ M -> -> | s0 r -> _ _ _ _ -> ->]; unfold gs_render, gs_render_head;
    cbn [p_construction p_filename p_fileformat p_args p_opts flat_map].
  - rewrite app_nil_r. cbn. f_equal. apply gs_consume_numbers_app.
  - rewrite (gs_format_not_autodetect g s0 M). reflexivity.
  - rewrite gs_teqb_refl. reflexivity.
Qed.

Lemma gs_head_opts_nil g spec p0 rest : gs_head_of g spec p0 rest -> p_opts p0 = [].
Proof. intros [s0 r _ _ -> _ | s0 f r _ _ _ -> _ | s0 r _ _ _ _ _ -> _]; reflexivity. Qed.

Lemma gs_parse_ok_facts g spec q :
  gs_parse g spec = GSPOk q ->
  exists p0 rest, gs_head_of g spec p0 rest /\ gs_same_head p0 q /\ gs_opts_ok g (p_opts q) /\ gs_render q = gs_render p0 ++ rest.
Proof.
  intros H. apply gs_parse_ok_inv in H. destruct H as (p0 & rest & fuel & HD & L).
  exists p0, rest. split; [exact HD|].
  apply (gs_options_loop_ok fuel g p0 rest q L). rewrite (gs_head_opts_nil _ _ _ _ HD). apply gs_opts_ok_nil.
Qed.

(* parsing consumes all tokens: the parsed value renders back to exactly the token list *)
Theorem gs_parse_consumes_all g spec q : gs_parse g spec = GSPOk q -> gs_render q = spec.
Proof.
  intros H. apply gs_parse_ok_facts in H. destruct H as (p0 & rest & HD & _ & _ & R).
  rewrite R. now apply (gs_head_render g).
Qed.

Theorem gs_parse_opts_ok g spec q : gs_parse g spec = GSPOk q -> gs_opts_ok g (p_opts q).
Proof.
  intros H. apply gs_parse_ok_facts in H. destruct H as (p0 & rest & HD & _ & OK & _). exact OK.
Qed.

(* every option at most once, and only options of that graph type *)
Theorem gs_parse_options_once g spec q :
  gs_parse g spec = GSPOk q ->
  NoDup (map fst (p_opts q)) /\ Forall (fun k => In k (gs_options g)) (map fst (p_opts q)).
Proof.
  intros H. apply gs_parse_opts_ok in H. destruct H as [F N]. split; [exact N|].
  apply Forall_map. eapply Forall_impl; [|exact F]. intros kv [M _]. now apply gs_mem_In.
Qed.

Lemma gs_lookup_In k l v : gs_lookup k l = Some v -> In (k, v) l.
Proof.
  induction l as [|[k' v'] r IH]; cbn; [discriminate|].
  destruct (gs_teqb k k') eqn:E.
  - intros H. inversion H; subst. apply gs_teqb_eq in E. subst. now left.
  - intros H. right. now apply IH.
Qed.

(* `save` always comes with a file name *)
Theorem gs_parse_save_has_filename g spec q v :
  gs_parse g spec = GSPOk q -> gs_lookup gs_save (p_opts q) = Some v ->
  exists fmt f, v = [fmt; f] /\ (fmt = gs_autodetect \/ In fmt (gs_formats g)).
Proof.
  intros H L. apply gs_parse_opts_ok in H. destruct H as [F _].
  apply gs_lookup_In in L. rewrite Forall_forall in F. specialize (F _ L).
  destruct F as [_ F]. cbn [fst snd] in F. rewrite gs_teqb_refl in F.
  destruct F as (fmt & f & -> & [E|M]); exists fmt, f; split; auto. right. now apply gs_mem_In.
Qed.

(* the numeric options hold only tokens float() accepts *)
Theorem gs_parse_option_numeric g spec q k v :
  gs_parse g spec = GSPOk q -> k <> gs_save -> gs_lookup k (p_opts q) = Some v ->
  Forall (fun t => gs_float_ok t = true) v.
Proof.
  intros H NE L. apply gs_parse_opts_ok in H. destruct H as [F _].
  apply gs_lookup_In in L. rewrite Forall_forall in F. specialize (F _ L).
  destruct F as [_ F]. cbn [fst snd] in F. apply gs_teqb_neq in NE. now rewrite NE in F.
Qed.

(* the head of the result: what the first token selects *)
Theorem gs_parse_head g spec q :
  gs_parse g spec = GSPOk q ->
  p_gtype q = g /\
  exists s0 r, spec = s0 :: r /\
  ((In s0 (gs_constructions g) /\ p_construction q = Some s0 /\ p_filename q = None /\ p_fileformat q = None /\
    exists nums, p_args q = Some nums /\ Forall (fun t => gs_float_ok t = true) nums /\
                 nums = fst (gs_consume_numbers r)) \/
   (~ In s0 (gs_constructions g) /\ In s0 (gs_formats g) /\ p_construction q = None /\ p_args q = None /\
    p_fileformat q = Some s0 /\ exists f r', r = f :: r' /\ p_filename q = Some f) \/
   (~ In s0 (gs_constructions g) /\ ~ In s0 (gs_formats g) /\ p_construction q = None /\ p_args q = None /\
    p_filename q = Some s0 /\ p_fileformat q = Some gs_autodetect)).
Proof.
  intros H. apply gs_parse_ok_facts in H. destruct H as (p0 & rest & HD & (E1 & E2 & E3 & E4 & E5 & E6) & _ & _).
  destruct HD as [s0 r -> M -> -> | s0 f r -> M1 M2 -> -> | s0 r -> M1 M2 _ _ -> ->]; cbn in *.
  - split; [assumption|]. exists s0, r. split; [reflexivity|]. left.
    apply gs_mem_In in M. repeat split; try assumption. eexists. split; [eassumption|].
    split; [apply gs_consume_numbers_numeric|reflexivity].
  - split; [assumption|]. exists s0, (f :: r). split; [reflexivity|]. right. left.
    apply gs_mem_not_In in M1. apply gs_mem_In in M2. repeat split; try assumption. eauto.
  - split; [assumption|]. exists s0, r. split; [reflexivity|]. right. right.
    apply gs_mem_not_In in M1. apply gs_mem_not_In in M2. repeat split; assumption.
Qed.

Theorem gs_parse_wf g spec q : gs_parse g spec = GSPOk q -> gs_wf q = true.
Proof.
  intros H. apply gs_parse_ok_facts in H.
  destruct H as (p0 & rest & HD & (E1 & E2 & E3 & E4 & E5 & E6) & [F _] & _).
  assert (G : p_gtype q = g).
  { rewrite E1. destruct HD as [s0 r _ _ -> _ | s0 f r _ _ _ -> _ | s0 r _ _ _ _ _ -> _]; reflexivity. }
  unfold gs_wf. apply andb_true_iff. split.
  - rewrite E1, E2, E3, E4, E5.
    destruct HD as [s0 r -> M -> -> | s0 f r -> M1 M2 -> -> | s0 r -> M1 M2 _ _ -> ->]; cbn.
    + now rewrite M.
    + reflexivity.
    + reflexivity.
  - apply forallb_forall. intros kv HI. rewrite Forall_forall in F. destruct (F kv HI) as [M _]. now rewrite G.
Qed.

(* ------------------------------------------------------------------ *)
(* validation: the exception monad                                     *)
(* ------------------------------------------------------------------ *)
(* x ends in a value satisfying P, or in ValueError -- never in another exception *)
Definition gs_post {A} (x : gs_pr A) (P : A -> Prop) : Prop :=
  match x with
  | GSRet a => P a
  | GSRaise (GXValue _) => True
  | GSRaise (GXOther _) => False
  end.

Lemma gs_post_bind {A B} (x : gs_pr A) (f : A -> gs_pr B) (P : A -> Prop) (Q : B -> Prop) :
  gs_post x P -> (forall a, P a -> gs_post (f a) Q) -> gs_post (gs_bind x f) Q.
Proof. destruct x as [a|[t|k]]; cbn; intros H F; auto. Qed.

Lemma gs_post_weaken {A} (x : gs_pr A) (P Q : A -> Prop) :
  gs_post x P -> (forall a, P a -> Q a) -> gs_post x Q.
Proof. destruct x as [a|[t|k]]; cbn; auto. Qed.

Lemma gs_post_ret {A} (x : gs_pr A) (P : A -> Prop) a : gs_post x P -> x = GSRet a -> P a.
Proof. intros H ->. exact H. Qed.

Lemma gs_post_no_crash {A} (x : gs_pr A) (P : A -> Prop) k : gs_post x P -> x <> GSRaise (GXOther k).
Proof. intros H ->. exact H. Qed.

Ltac Zify.zify_post_hook ::= Z.to_euclidean_division_equations.

(* one step of symbolic execution of a try/assert block *)
Ltac gs_step :=
  match goal with
  | |- context [gs_int_ ?t] => unfold gs_int_ at 1; destruct (gs_int t) eqn:?
  | |- context [gs_float_ ?t] => unfold gs_float_ at 1; destruct (gs_float t) eqn:?
  | |- context [gs_assert ?b] => unfold gs_assert at 1; destruct b eqn:?
  | |- context [gs_mod ?a ?b] => unfold gs_mod at 1; destruct (b =? 0) eqn:?
  | |- context [gs_map_int ?l] => destruct (gs_map_int l) as [?|[?|?]] eqn:?
  | |- context [if ?b then _ else _] => destruct b eqn:?
  end;
  cbn [gs_bind gs_try gs_class existsb gs_xclass_eqb gs_all_caught orb fst snd gs_raise_value gs_post].
Ltac gs_run := repeat gs_step.

Lemma gs_map_int_post l : gs_post (gs_map_int l) (fun zs => List.length zs = List.length l).
Proof.
  induction l as [|t r IH]; cbn [gs_map_int gs_post]; [reflexivity|].
  unfold gs_int_. destruct (gs_int t); cbn [gs_bind gs_post]; [|exact I].
  destruct (gs_map_int r) as [zs|[e|k]]; cbn [gs_bind gs_post] in *; auto. cbn. now f_equal.
Qed.

Lemma gs_map_int_not_other l k : gs_map_int l <> GSRaise (GXOther k).
Proof. apply (gs_post_no_crash _ _ k (gs_map_int_post l)). Qed.

(* ------------------------------------------------------------------ *)
(* sorted(...)                                                         *)
(* ------------------------------------------------------------------ *)
Lemma gs_insert_Forall (P : Z -> Prop) x l : P x -> Forall P l -> Forall P (gs_insert x l).
Proof.
  intros Hx. induction l as [|y r IH]; intros F; cbn; [constructor; auto|].
  inversion F; subst. destruct (x <=? y); constructor; auto.
Qed.
Lemma gs_sort_Forall (P : Z -> Prop) l : Forall P l -> Forall P (gs_sort l).
Proof.
  induction l as [|x r IH]; intros F; cbn; [constructor|]. inversion F; subst. apply gs_insert_Forall; auto.
Qed.
Lemma gs_insert_sorted x l : StronglySorted Z.le l -> StronglySorted Z.le (gs_insert x l).
Proof.
  induction l as [|y r IH]; intros S; cbn; [constructor; constructor|].
  inversion S; subst. destruct (x <=? y) eqn:E.
  - constructor; [assumption|]. constructor; [lia|]. eapply Forall_impl; [|eassumption]. cbn. intros; lia.
  - constructor; [auto|]. apply gs_insert_Forall; [lia|assumption].
Qed.
Lemma gs_sort_sorted l : StronglySorted Z.le (gs_sort l).
Proof. induction l as [|x r IH]; cbn; [constructor|]. now apply gs_insert_sorted. Qed.

Lemma gs_sorted_strict l : StronglySorted Z.le l -> gs_adjacent_equal l = false -> StronglySorted Z.lt l.
Proof.
  induction l as [|x r IH]; intros S A; [constructor|].
  inversion S as [|? ? S' F]; subst. destruct r as [|y t].
  - constructor; constructor.
  - cbn [gs_adjacent_equal] in A. apply orb_false_iff in A. destruct A as [A1 A2].
    specialize (IH S' A2). constructor; [assumption|].
    inversion IH as [|? ? _ F2]; subst. inversion F; subst.
    constructor; [lia|]. eapply Forall_impl; [|exact F2]. cbn. intros; lia.
Qed.

Lemma gs_existsb_false_Forall {A} (f : A -> bool) l : existsb f l = false -> Forall (fun x => f x = false) l.
Proof.
  induction l as [|x r IH]; cbn; [constructor|]. intros H. apply orb_false_iff in H. destruct H. constructor; auto.
Qed.

(* ------------------------------------------------------------------ *)
(* what each construction hands to its generator                       *)
(* ------------------------------------------------------------------ *)
Definition gs_call_pre (g : gs_gtype) (c : gs_call) : Prop :=
  match c with
  | GCGnp n q t => 0 < n /\ gs_in_unit q = true /\ 0 < t
  | GCGnm n m => gg_pre_nx_gnm n m
  | GCGnd n d => gg_pre_nx_random_regular d n /\ 0 < d
  | GCGrid _ dims => dims <> [] /\ gg_pre_nx_grid dims
  | GCCompleteS n None => 0 < n
  | GCCompleteS n (Some b) => gg_pre_nx_multipartite n b
  | GCEmptyS n => 0 < n
  | GCGlrp l r q => 1 <= l /\ 1 <= r /\ gs_in_unit q = true
  | GCGlrm l r m => gg_pre_m_edges l r m
  | GCGlrd l r d => gg_pre_left_regular l r d /\ 1 <= l /\ 1 <= r
  | GCRegular l r d => gg_pre_random_regular l r d /\ 1 <= l /\ d <= r
  | GCShift l r pat => gg_pre_shift l r pat /\ StronglySorted Z.lt pat /\ Forall (fun x => 0 <= x <= r) pat
  | GCCompleteB l r | GCEmptyB l r => 1 <= l /\ 1 <= r
  | GCTree h | GCPyramid h | GCPath h => gg_pre_height h
  | GCRead f fmt => In fmt (gs_formats g)
  end.

Ltac gs_start := intros HK HA; unfold gs_args; rewrite HK; cbn [gs_bind]; rewrite HA; cbn [gs_bind gs_need_list gs_try].

Lemma gs_obtain_gnd_post g p l :
  p_argskey p = true -> p_args p = Some l ->
  gs_post (gs_obtain_gnd p) (gs_call_pre g).
Proof.
  unfold gs_obtain_gnd. gs_start.
  destruct l as [|a [|b [|c r]]]; cbn [gs_unpack2 gs_bind gs_try gs_class existsb gs_xclass_eqb gs_all_caught orb gs_post fst snd]; try exact I.
  gs_run; try exact I; try (exfalso; lia).
  cbn. unfold gg_pre_nx_random_regular. lia.
Qed.

Lemma gs_obtain_gnp_post g p l :
  p_argskey p = true -> p_args p = Some l ->
  gs_post (gs_obtain_gnp p) (gs_call_pre g).
Proof.
  unfold gs_obtain_gnp. gs_start.
  destruct l as [|a [|b [|c [|d r]]]]; cbn [gs_bind gs_try gs_class existsb gs_xclass_eqb gs_all_caught orb gs_post fst snd gs_raise_value]; try exact I;
    gs_run; try exact I; try (exfalso; lia); cbn; repeat split; try lia; assumption.
Qed.

Lemma gs_obtain_gnm_post g p l :
  p_argskey p = true -> p_args p = Some l ->
  gs_post (gs_obtain_gnm p) (gs_call_pre g).
Proof.
  unfold gs_obtain_gnm. gs_start.
  destruct l as [|a [|b [|c r]]]; cbn [gs_unpack2 gs_bind gs_try gs_class existsb gs_xclass_eqb gs_all_caught orb gs_post fst snd]; try exact I.
  gs_run; try exact I; try (exfalso; lia).
  cbn. unfold gg_pre_nx_gnm. lia.
Qed.

Lemma gs_obtain_complete_simple_post g p l :
  p_argskey p = true -> p_args p = Some l ->
  gs_post (gs_obtain_complete_simple p) (gs_call_pre g).
Proof.
  unfold gs_obtain_complete_simple. gs_start.
  destruct l as [|a [|b [|c r]]]; cbn [gs_index nth_error gs_bind gs_try gs_class existsb gs_xclass_eqb gs_all_caught orb gs_post fst snd gs_raise_value]; try exact I;
    gs_run; try exact I; try (exfalso; lia); cbn; unfold gg_pre_nx_multipartite; lia.
Qed.

Lemma gs_obtain_empty_simple_post g p l :
  p_argskey p = true -> p_args p = Some l ->
  gs_post (gs_obtain_empty_simple p) (gs_call_pre g).
Proof.
  unfold gs_obtain_empty_simple. gs_start.
  destruct l as [|a [|b r]]; cbn [List.length Nat.eqb negb gs_index nth_error gs_bind gs_try gs_class existsb gs_xclass_eqb gs_all_caught orb gs_post fst snd gs_raise_value]; try exact I;
    gs_run; try exact I; try (exfalso; lia); cbn; lia.
Qed.

Lemma gs_obtain_grid_or_torus_post g p l per :
  p_argskey p = true -> p_args p = Some l ->
  gs_post (gs_obtain_grid_or_torus per p) (gs_call_pre g).
Proof.
  unfold gs_obtain_grid_or_torus. gs_start.
  pose proof (gs_map_int_not_other l) as NO.
  destruct (gs_map_int l) as [dims|[e|k]] eqn:E; cbn [gs_bind gs_try gs_class existsb gs_xclass_eqb orb gs_post]; try exact I.
  - destruct (gs_is_nil dims) eqn:EN; cbn [gs_bind gs_try gs_class existsb gs_xclass_eqb orb gs_post gs_raise_value]; [exact I|].
    destruct (existsb (fun d => d <=? 0) dims) eqn:EX; cbn [gs_bind gs_try gs_class existsb gs_xclass_eqb orb gs_post gs_raise_value]; [exact I|].
    cbn. split.
    + destruct dims; [discriminate|discriminate].
    + unfold gg_pre_nx_grid. apply gs_existsb_false_Forall in EX. eapply Forall_impl; [|exact EX]. cbn. intros; lia.
  - exfalso. now apply (NO k).
Qed.

Lemma gs_obtain_glrp_post g p l :
  p_argskey p = true -> p_args p = Some l ->
  gs_post (gs_obtain_glrp p) (gs_call_pre g).
Proof.
  unfold gs_obtain_glrp. gs_start.
  destruct l as [|a [|b [|c [|d r]]]]; cbn [gs_unpack3 gs_bind gs_try gs_class existsb gs_xclass_eqb gs_all_caught orb gs_post fst snd]; try exact I.
  gs_run; try exact I; try (exfalso; lia). cbn. repeat split; try lia; assumption.
Qed.

Lemma gs_obtain_glrm_post g p l :
  p_argskey p = true -> p_args p = Some l ->
  gs_post (gs_obtain_glrm p) (gs_call_pre g).
Proof.
  unfold gs_obtain_glrm. gs_start.
  destruct l as [|a [|b [|c [|d r]]]]; cbn [gs_unpack3 gs_bind gs_try gs_class existsb gs_xclass_eqb gs_all_caught orb gs_post fst snd]; try exact I.
  gs_run; try exact I; try (exfalso; lia). cbn. unfold gg_pre_m_edges. lia.
Qed.

Lemma gs_obtain_glrd_post g p l :
  p_argskey p = true -> p_args p = Some l ->
  gs_post (gs_obtain_glrd p) (gs_call_pre g).
Proof.
  unfold gs_obtain_glrd. gs_start.
  destruct l as [|a [|b [|c [|d r]]]]; cbn [gs_unpack3 gs_bind gs_try gs_class existsb gs_xclass_eqb gs_all_caught orb gs_post fst snd]; try exact I.
  gs_run; try exact I; try (exfalso; lia). cbn. unfold gg_pre_left_regular. lia.
Qed.

Lemma gs_obtain_regular_post g p l :
  p_argskey p = true -> p_args p = Some l ->
  gs_post (gs_obtain_regular p) (gs_call_pre g).
Proof.
  unfold gs_obtain_regular. gs_start.
  destruct l as [|a [|b [|c [|d r]]]]; cbn [gs_unpack3 gs_bind gs_try gs_class existsb gs_xclass_eqb gs_all_caught orb gs_post fst snd]; try exact I.
  gs_run; try exact I; try (exfalso; lia). cbn. unfold gg_pre_random_regular.
  repeat split; try lia. rewrite Z.mul_comm. lia.
Qed.

Lemma gs_obtain_shift_post g p l :
  p_argskey p = true -> p_args p = Some l ->
  gs_post (gs_obtain_shift p) (gs_call_pre g).
Proof.
  unfold gs_obtain_shift. gs_start.
  destruct l as [|a [|b r]]; cbn [List.length Nat.ltb Nat.leb gs_bind gs_post gs_raise_value]; try exact I.
  cbn [gs_index nth_error skipn gs_bind gs_try].
  pose proof (gs_map_int_not_other r) as NO.
  unfold gs_int_ at 1. destruct (gs_int a) as [le|] eqn:Ea; cbn [gs_bind gs_try gs_class existsb gs_xclass_eqb gs_all_caught orb gs_post]; [|exact I].
  unfold gs_int_ at 1. destruct (gs_int b) as [ri|] eqn:Eb; cbn [gs_bind gs_try gs_class existsb gs_xclass_eqb gs_all_caught orb gs_post]; [|exact I].
  destruct (gs_map_int r) as [pat|[e|k]] eqn:E; cbn [gs_bind gs_try gs_class existsb gs_xclass_eqb gs_all_caught orb gs_post]; try exact I.
  - gs_run; try exact I. cbn. unfold gg_pre_shift. split; [lia|]. split.
    + apply gs_sorted_strict; [apply gs_sort_sorted|assumption].
    + match goal with H : existsb _ (gs_sort pat) = false |- _ => apply gs_existsb_false_Forall in H;
        eapply Forall_impl; [|exact H] end. cbn. intros; lia.
  - exfalso. now apply (NO k).
Qed.

Lemma gs_obtain_two_positive_post g p l tag mk :
  p_argskey p = true -> p_args p = Some l ->
  (forall a b, 1 <= a -> 1 <= b -> gs_call_pre g (mk a b)) ->
  gs_post (gs_obtain_two_positive tag mk p) (gs_call_pre g).
Proof.
  intros HK0 HA0 HM. revert HK0 HA0. unfold gs_obtain_two_positive. gs_start.
  destruct l as [|a [|b [|c r]]]; cbn [List.length Nat.eqb negb gs_index nth_error gs_bind gs_try gs_class existsb gs_xclass_eqb gs_all_caught orb gs_post fst snd gs_raise_value]; try exact I.
  gs_run; try exact I; try (exfalso; lia). apply HM; lia.
Qed.

Lemma gs_obtain_one_nonneg_post g p l tag mk :
  p_argskey p = true -> p_args p = Some l ->
  (forall h, 0 <= h -> gs_call_pre g (mk h)) ->
  gs_post (gs_obtain_one_nonneg tag mk p) (gs_call_pre g).
Proof.
  intros HK0 HA0 HM. revert HK0 HA0. unfold gs_obtain_one_nonneg. gs_start.
  destruct l as [|a [|b r]]; cbn [List.length Nat.eqb negb gs_index nth_error gs_bind gs_try gs_class existsb gs_xclass_eqb gs_all_caught orb gs_post fst snd gs_raise_value]; try exact I.
  gs_run; try exact I; try (exfalso; lia). apply HM; lia.
Qed.

Lemma gs_dispatch_post g p l c :
  p_argskey p = true -> p_args p = Some l -> gs_post (gs_dispatch g c p) (gs_call_pre g).
Proof.
  intros HK HA. unfold gs_dispatch. destruct g;
    repeat match goal with |- context [if ?b then _ else _] => destruct b end;
    first [ apply (gs_obtain_gnp_post _ p l HK HA) | apply (gs_obtain_gnm_post _ p l HK HA) | apply (gs_obtain_gnd_post _ p l HK HA)
          | apply (gs_obtain_grid_or_torus_post _ p l _ HK HA) | apply (gs_obtain_complete_simple_post _ p l HK HA) | apply (gs_obtain_empty_simple_post _ p l HK HA)
          | apply (gs_obtain_glrp_post _ p l HK HA) | apply (gs_obtain_glrm_post _ p l HK HA) | apply (gs_obtain_glrd_post _ p l HK HA) | apply (gs_obtain_regular_post _ p l HK HA)
          | apply (gs_obtain_shift_post _ p l HK HA)
          | (apply (gs_obtain_two_positive_post _ p l _ _ HK HA); intros; cbn; lia)
          | (apply (gs_obtain_one_nonneg_post _ p l _ _ HK HA); intros; cbn; unfold gg_pre_height; lia) ].
Qed.

(* ------------------------------------------------------------------ *)
(* obtain_graph                                                        *)
(* ------------------------------------------------------------------ *)
Inductive gs_kind := GKGen | GKPlantClique | GKPlantBiclique | GKAddEdges | GKSplitEdges | GKSave.
Definition gs_step_kind (s : gs_step) : gs_kind :=
  match s with
  | SGen _ => GKGen | SPlantClique _ => GKPlantClique | SPlantBiclique _ _ => GKPlantBiclique
  | SAddEdges _ => GKAddEdges | SSplitEdges _ => GKSplitEdges | SSave _ _ => GKSave
  end.
Definition gs_when (k : text) (p : gs_parsed) (kind : gs_kind) : list gs_kind :=
  match gs_lookup k (p_opts p) with Some _ => [kind] | None => [] end.
(* the calls obtain_graph makes, in its order: exactly the options present, each once *)
Definition gs_expected_kinds (p : gs_parsed) : list gs_kind :=
  GKGen :: (match p_gtype p with
            | GSSimple => gs_when (lit "plantclique") p GKPlantClique
            | GSBipartite => gs_when (lit "plantbiclique") p GKPlantBiclique
            | _ => []
            end)
        ++ gs_when (lit "addedges") p GKAddEdges ++ gs_when (lit "splitedges") p GKSplitEdges
        ++ gs_when gs_save p GKSave.

(* what a modifier / the writer needs, given the orders of the graph it receives *)
Definition gs_step_pre (g : gs_gtype) (ord : Z * Z) (s : gs_step) : Prop :=
  match s with
  | SGen _ => False
  | SPlantClique k => gg_pre_sample (fst ord) k
  | SPlantBiclique a b => gg_pre_sample (fst ord) a /\ gg_pre_sample (snd ord) b
  | SAddEdges k => 0 <= k
  | SSplitEdges k => 0 <= k
  | SSave fmt _ => In fmt (gs_formats g)
  end.
Definition gs_plan_pre (g : gs_gtype) (fo : Z * Z) (plan : list gs_step) : Prop :=
  match plan with
  | SGen c :: rest => gs_call_pre g c /\ Forall (gs_step_pre g (gs_call_order fo c)) rest
  | _ => False
  end.

Lemma gs_one_nonneg_opt_post tag v :
  gs_post (gs_one_nonneg_opt tag v) (fun k => 0 <= k /\ exists t, v = [t] /\ gs_int t = Some k).
Proof.
  unfold gs_one_nonneg_opt.
  destruct v as [|a [|b r]]; cbn [List.length Nat.eqb negb gs_index nth_error gs_bind gs_try gs_class existsb gs_xclass_eqb gs_all_caught orb gs_post fst snd gs_raise_value]; try exact I.
  gs_run; try exact I; try (exfalso; lia). split; [lia|]. eauto.
Qed.

Lemma gs_modify_plantclique_post g ord v :
  gs_post (gs_modify_plantclique (fst ord) v) (fun s => gs_step_pre g ord s /\ gs_step_kind s = GKPlantClique).
Proof.
  unfold gs_modify_plantclique. eapply gs_post_bind; [apply gs_one_nonneg_opt_post|].
  intros k [K _]. cbn beta. destruct (k >? fst ord) eqn:E; cbn; [exact I|]. unfold gg_pre_sample. split; [lia|reflexivity].
Qed.

Lemma gs_modify_plantbiclique_post g ord v :
  gs_post (gs_modify_plantbiclique ord v) (fun s => gs_step_pre g ord s /\ gs_step_kind s = GKPlantBiclique).
Proof.
  unfold gs_modify_plantbiclique.
  eapply gs_post_bind with (P := fun ab => 0 <= fst ab /\ 0 <= snd ab).
  - destruct v as [|a [|b [|c r]]]; cbn [List.length Nat.eqb negb gs_index nth_error gs_bind gs_try gs_class existsb gs_xclass_eqb gs_all_caught orb gs_post fst snd gs_raise_value]; try exact I.
    gs_run; try exact I; try (exfalso; lia). lia.
  - intros [a b] [A B]. cbn [fst snd] in *. destruct ((a >? fst ord) || (b >? snd ord)) eqn:E; cbn; [exact I|].
    unfold gg_pre_sample. split; [lia|reflexivity].
Qed.

Lemma gs_save_format_post g fmt f :
  gs_post (gs_save_format g fmt f) (fun s => gs_step_pre g (0, 0) s /\ gs_step_kind s = GKSave).
Proof.
  unfold gs_save_format. destruct (gs_teqb fmt gs_autodetect).
  - destruct (gs_mem (gs_ext f) (gs_formats g)) eqn:E; cbn; [|exact I]. split; [now apply gs_mem_In|reflexivity].
  - destruct (gs_mem fmt (gs_formats g)) eqn:E; cbn; [|exact I]. split; [now apply gs_mem_In|reflexivity].
Qed.

Lemma gs_read_input_post g f fmt : gs_post (gs_read_input g (Some f) fmt) (gs_call_pre g).
Proof.
  unfold gs_read_input. destruct fmt as [fmt|]; [|exact I].
  destruct (gs_teqb fmt gs_autodetect).
  - destruct (gs_is_nil (gs_ext f)); [exact I|].
    destruct (gs_mem (gs_ext f) (gs_formats g)) eqn:E; cbn; [now apply gs_mem_In|exact I].
  - destruct (gs_mem fmt (gs_formats g)) eqn:E; cbn; [now apply gs_mem_In|exact I].
Qed.

Lemma gs_opt_step_post (o : option (list text)) f (P : gs_step -> Prop) kind :
  (forall v, o = Some v -> gs_post (f v) (fun s => P s /\ gs_step_kind s = kind)) ->
  gs_post (gs_opt_step o f)
          (fun l => Forall P l /\ map gs_step_kind l = match o with Some _ => [kind] | None => [] end).
Proof.
  intros H. unfold gs_opt_step. destruct o as [v|]; [|cbn; split; [constructor|reflexivity]].
  eapply gs_post_bind; [apply (H v eq_refl)|]. intros s [Ps K]. cbn. split; [constructor; [assumption|constructor]|now rewrite K].
Qed.

(* `splitedges` is an option of simple graphs only *)
Lemma gs_wf_splitedges p v :
  forallb (fun kv => gs_mem (fst kv) (gs_options (p_gtype p))) (p_opts p) = true ->
  gs_lookup (lit "splitedges") (p_opts p) = Some v -> p_gtype p = GSSimple.
Proof.
  intros F L. apply gs_lookup_In in L. rewrite forallb_forall in F. specialize (F _ L). cbn [fst] in F.
  destruct (p_gtype p); [reflexivity|vm_compute in F; discriminate..].
Qed.

Lemma gs_step_pre_ord_irrelevant g ord ord' s :
  match s with SPlantClique _ | SPlantBiclique _ _ | SGen _ => False | _ => True end ->
  gs_step_pre g ord s -> gs_step_pre g ord' s.
Proof. destruct s; cbn; tauto. Qed.

Theorem gs_obtain_graph_post fo p :
  gs_wf p = true ->
  gs_post (gs_obtain_graph fo p)
          (fun plan => gs_plan_pre (p_gtype p) fo plan /\ map gs_step_kind plan = gs_expected_kinds p).
Proof.
  intros WF. unfold gs_wf in WF. apply andb_true_iff in WF. destruct WF as [WF WO].
  pose proof (gs_wf_splitedges p) as HS. specialize (fun v => HS v WO).
  unfold gs_obtain_graph, gs_expected_kinds, gs_when.
  remember (p_gtype p) as g eqn:Eg.
  eapply gs_post_bind with (P := gs_call_pre g).
  { destruct (p_construction p) as [c|].
    - destruct (gs_mem c (gs_constructions g)); [|discriminate]. cbn [andb] in WF.
      destruct (p_argskey p) eqn:HK; [|discriminate]. destruct (p_args p) as [l|] eqn:HA; [|discriminate].
      now apply (gs_dispatch_post g p l c).
    - destruct (p_filename p) as [f|]; [|discriminate]. apply gs_read_input_post. }
  intros call Hcall. cbn beta zeta.
  set (ord := gs_call_order fo call).
  eapply gs_post_bind with
    (P := fun l => Forall (gs_step_pre g ord) l /\
                   map gs_step_kind l = match g with
                                        | GSSimple => match gs_lookup (lit "plantclique") (p_opts p) with Some _ => [GKPlantClique] | None => [] end
                                        | GSBipartite => match gs_lookup (lit "plantbiclique") (p_opts p) with Some _ => [GKPlantBiclique] | None => [] end
                                        | _ => []
                                        end).
  { destruct g; try (cbn; split; [constructor|reflexivity]).
    - apply gs_opt_step_post. intros v _. apply gs_modify_plantclique_post.
    - apply gs_opt_step_post. intros v _. apply gs_modify_plantbiclique_post. }
  intros plant [Fp Kp].
  eapply gs_post_bind; [apply (gs_opt_step_post _ _ (gs_step_pre g ord) GKAddEdges)|].
  { intros v _. eapply gs_post_bind; [apply gs_one_nonneg_opt_post|]. intros k [K _]. cbn. split; [assumption|reflexivity]. }
  intros add [Fa Ka].
  eapply gs_post_bind; [apply (gs_opt_step_post _ _ (gs_step_pre g ord) GKSplitEdges)|].
  { intros v Ev. eapply gs_post_bind; [apply gs_one_nonneg_opt_post|]. intros k [K _].
    rewrite (HS v Ev). cbn. split; [assumption|reflexivity]. }
  intros split [Fs Ks].
  eapply gs_post_bind; [apply (gs_opt_step_post _ _ (gs_step_pre g ord) GKSave)|].
  { intros v _. unfold gs_unpack2. destruct v as [|a [|b [|c r]]]; cbn [gs_bind gs_post]; try exact I.
    eapply gs_post_weaken; [apply gs_save_format_post|]. intros s [S K]. split; [|assumption].
    destruct s; cbn in *; try discriminate; assumption. }
  intros save [Fv Kv].
  cbn [gs_post gs_plan_pre]. split.
  - split; [assumption|]. fold ord. repeat (apply Forall_app; split); assumption.
  - cbn [map gs_step_kind]. rewrite !map_app, Kp, Ka, Ks, Kv. reflexivity.
Qed.

(* a parsed value never leads to an exception other than ValueError *)
Theorem gs_validate_never_crashes fo p k : gs_wf p = true -> gs_validate fo p <> GSVCrash k.
Proof.
  intros WF. pose proof (gs_obtain_graph_post fo p WF) as H. unfold gs_validate.
  destruct (gs_obtain_graph fo p) as [plan|[t|k']]; cbn in H; [discriminate|discriminate|contradiction].
Qed.

(* guard => precondition, and the calls made are exactly those the options name *)
Theorem gs_validate_ok fo p plan :
  gs_wf p = true -> gs_validate fo p = GSVOk plan ->
  gs_plan_pre (p_gtype p) fo plan /\ map gs_step_kind plan = gs_expected_kinds p.
Proof.
  intros WF. pose proof (gs_obtain_graph_post fo p WF) as H. unfold gs_validate.
  destruct (gs_obtain_graph fo p) as [plan'|[t|k']]; cbn in H; [|discriminate|discriminate].
  intros E. inversion E; subst. exact H.
Qed.

Theorem gs_make_never_crashes fo g spec :
  (forall k, gs_make fo g spec <> inl (GSVCrash k)) /\ gs_make fo g spec <> inr GSPCrash.
Proof.
  unfold gs_make. destruct (gs_parse g spec) as [p| e |] eqn:E.
  - split; [|discriminate]. intros k H. inversion H as [H']. revert H'. apply gs_validate_never_crashes.
    now apply (gs_parse_wf g spec).
  - split; [discriminate|discriminate].
  - exfalso. now apply (gs_parse_never_crashes g spec).
Qed.

(* the hypothesis of gs_validate_never_crashes is needed: obtain_graph asserts that a construction it does not know is None *)
Lemma gs_validate_needs_wf :
  gs_validate (0, 0) (mk_gs_parsed GSDag (Some (lit "gnp")) (Some [lit "3"; lit ".5"]) true None None []) = GSVCrash KAssert
  /\ gs_validate (0, 0) (mk_gs_parsed GSBipartite (Some (lit "shift")) None true None None []) = GSVCrash KType
  /\ gs_validate (0, 0) (mk_gs_parsed GSBipartite (Some (lit "empty")) (Some [lit "2"; lit "2"]) true None None
                                      [(lit "splitedges", [lit "0"])]) = GSVCrash KType.
Proof. repeat split; vm_compute; reflexivity. Qed.

(* ------------------------------------------------------------------ *)
(* the one guard that is weaker than what the construction needs       *)
(* ------------------------------------------------------------------ *)
(* networkx.grid_graph(dims, periodic=True) turns a dimension of size 1 into a self-loop, which Graph.from_networkx
   refuses (ValueError: a clean error, but raised by the callee with a message about vertices u,v) *)
Definition gs_torus_ok (c : gs_call) : Prop :=
  match c with GCGrid true dims => Forall (fun d => 2 <= d) dims | _ => True end.

Lemma gs_torus_guard_refuted :
  exists spec p plan c, gs_parse GSSimple spec = GSPOk p /\ gs_validate (0, 0) p = GSVOk plan /\
                        plan = [SGen c] /\ ~ gs_torus_ok c.
Proof.
  exists [lit "torus"; lit "1"; lit "3"]. eexists. eexists. eexists.
  split; [vm_compute; reflexivity|]. split; [vm_compute; reflexivity|]. split; [reflexivity|].
  cbn. intros H. inversion H; subst. lia.
Qed.

(* ------------------------------------------------------------------ *)
(* corollaries in the vocabulary of the command line                   *)
(* ------------------------------------------------------------------ *)
Theorem gs_accepted_call fo g spec p c rest :
  gs_parse g spec = GSPOk p -> gs_validate fo p = GSVOk (SGen c :: rest) ->
  gs_call_pre g c /\ Forall (gs_step_pre g (gs_call_order fo c)) rest.
Proof.
  intros HP HV. pose proof (gs_parse_wf _ _ _ HP) as WF.
  destruct (gs_validate_ok fo p _ WF HV) as [H _].
  destruct (gs_parse_head _ _ _ HP) as [G _]. rewrite G in H. exact H.
Qed.

Theorem gs_accepted_plan_starts_with_call fo p plan :
  gs_wf p = true -> gs_validate fo p = GSVOk plan -> exists c rest, plan = SGen c :: rest.
Proof.
  intros WF HV. destruct (gs_validate_ok fo p _ WF HV) as [H _].
  destruct plan as [|[c| | | | |] rest]; cbn in H; try contradiction. eauto.
Qed.

Lemma gs_gnd_guard fo spec p n d rest :
  gs_parse GSSimple spec = GSPOk p -> gs_validate fo p = GSVOk (SGen (GCGnd n d) :: rest) ->
  0 < d < n /\ (n * d) mod 2 = 0.
Proof.
  intros HP HV. destruct (gs_accepted_call _ _ _ _ _ _ HP HV) as [H _]. cbn in H.
  unfold gg_pre_nx_random_regular in H. lia.
Qed.

Lemma gs_gnm_guard fo spec p n m rest :
  gs_parse GSSimple spec = GSPOk p -> gs_validate fo p = GSVOk (SGen (GCGnm n m) :: rest) ->
  0 < n /\ 0 <= m <= n * (n - 1) / 2.
Proof. intros HP HV. destruct (gs_accepted_call _ _ _ _ _ _ HP HV) as [H _]. exact H. Qed.

Lemma gs_gnp_guard fo spec p n q t rest :
  gs_parse GSSimple spec = GSPOk p -> gs_validate fo p = GSVOk (SGen (GCGnp n q t) :: rest) ->
  0 < n /\ gs_ge_zero q = true /\ gs_le_one q = true /\ 0 < t.
Proof.
  intros HP HV. destruct (gs_accepted_call _ _ _ _ _ _ HP HV) as [(H1 & H2 & H3) _].
  unfold gs_in_unit in H2. apply andb_true_iff in H2. tauto.
Qed.

Lemma gs_regular_guard fo spec p l r d rest :
  gs_parse GSBipartite spec = GSPOk p -> gs_validate fo p = GSVOk (SGen (GCRegular l r d) :: rest) ->
  1 <= l /\ 1 <= r /\ 0 <= d <= r /\ (l * d) mod r = 0 /\ 0 <= l * d / r <= l.
Proof.
  intros HP HV. destruct (gs_accepted_call _ _ _ _ _ _ HP HV) as [H _]. cbn in H.
  unfold gg_pre_random_regular in H. destruct H as ((H0 & H1 & H2 & H3) & H4 & H5).
  split; [lia|]. split; [lia|]. split; [lia|]. split; [assumption|]. split.
  - apply Z.div_pos; nia.
  - apply Z.div_le_upper_bound; nia.
Qed.

Lemma gs_glrm_guard fo spec p l r m rest :
  gs_parse GSBipartite spec = GSPOk p -> gs_validate fo p = GSVOk (SGen (GCGlrm l r m) :: rest) ->
  1 <= l /\ 1 <= r /\ 0 <= m <= l * r.
Proof. intros HP HV. destruct (gs_accepted_call _ _ _ _ _ _ HP HV) as [H _]. exact H. Qed.

Lemma gs_glrd_guard fo spec p l r d rest :
  gs_parse GSBipartite spec = GSPOk p -> gs_validate fo p = GSVOk (SGen (GCGlrd l r d) :: rest) ->
  1 <= l /\ 1 <= r /\ 0 <= d <= r.
Proof.
  intros HP HV. destruct (gs_accepted_call _ _ _ _ _ _ HP HV) as [H _]. cbn in H.
  unfold gg_pre_left_regular in H. lia.
Qed.

Lemma gs_shift_guard fo spec p l r pat rest :
  gs_parse GSBipartite spec = GSPOk p -> gs_validate fo p = GSVOk (SGen (GCShift l r pat) :: rest) ->
  1 <= l /\ 1 <= r /\ StronglySorted Z.lt pat /\ Forall (fun x => 0 <= x <= r) pat.
Proof.
  intros HP HV. destruct (gs_accepted_call _ _ _ _ _ _ HP HV) as [H _]. cbn in H.
  unfold gg_pre_shift in H. tauto.
Qed.

Lemma gs_grid_guard fo spec p per dims rest :
  gs_parse GSSimple spec = GSPOk p -> gs_validate fo p = GSVOk (SGen (GCGrid per dims) :: rest) ->
  dims <> [] /\ Forall (fun d => 0 < d) dims.
Proof. intros HP HV. destruct (gs_accepted_call _ _ _ _ _ _ HP HV) as [H _]. exact H. Qed.

Lemma gs_plantclique_guard fo spec p c k rest :
  gs_parse GSSimple spec = GSPOk p -> gs_validate fo p = GSVOk (SGen c :: SPlantClique k :: rest) ->
  0 <= k <= fst (gs_call_order fo c).
Proof.
  intros HP HV. destruct (gs_accepted_call _ _ _ _ _ _ HP HV) as [_ H]. inversion H; subst. assumption.
Qed.

Lemma gs_read_guard fo g spec p f fmt rest :
  gs_parse g spec = GSPOk p -> gs_validate fo p = GSVOk (SGen (GCRead f fmt) :: rest) -> In fmt (gs_formats g).
Proof. intros HP HV. destruct (gs_accepted_call _ _ _ _ _ _ HP HV) as [H _]. exact H. Qed.

Lemma gs_save_guard fo g spec p plan fmt f :
  gs_parse g spec = GSPOk p -> gs_validate fo p = GSVOk plan -> In (SSave fmt f) plan -> In fmt (gs_formats g).
Proof.
  intros HP HV HI. pose proof (gs_parse_wf _ _ _ HP) as WF.
  destruct (gs_accepted_plan_starts_with_call fo p plan WF HV) as (c & rest & ->).
  destruct (gs_accepted_call _ _ _ _ _ _ HP HV) as [_ H]. destruct HI as [HI|HI]; [discriminate|].
  rewrite Forall_forall in H. apply (H _ HI).
Qed.
