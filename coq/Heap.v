(* Heap.v — a heap of mutable Python lists, for the aliasing model of property C19.
   Definitions only.

   What it stands for (cnfgen/formula/basecnf.py, baseopb.py and the caller's own lists):
   - a location is the identity of one Python `list` object; a heap is the
     collection of the list objects alive (index = location; nothing is ever
     freed: garbage collection is not modelled, a dead cell is unobservable);
   - a cell is the CONTENT of that list object. Two shapes occur in cnfgen:
       HLits xs         a list of integers: a clause, a list of literals passed to a
                        builder, a list of flips / a permutation passed to Shuffle,
                        or a two-element list `[coeff, lit]` used as a (mutable) pair;
       HPb ts o d       an OPB constraint list `[t1, ..., tn, op, degree]`; each term is
                        either an immutable tuple `(c, l)` (a VALUE, `PTup`) or a
                        REFERENCE to another list object used as a pair (`PRef p`);
   - `hp_alloc` gives fresh locations (the next unused indices), as `list(...)`,
     `x[:]` and list displays do in Python;
   - `mutation` is what a client can do to a list it holds a reference to:
     append / item assignment / `x[i] *= -1` / clear / pop, and for constraint lists
     item assignment of a term, insertion and deletion of a term, assignment of the
     operator or the degree. A mutation that Python rejects (IndexError on a bad
     index, pop from an empty list) leaves the list as it was. Mutations that would
     destroy the shape `[terms..., op, degree]` of a constraint list are not in the
     alphabet (abstraction: typed cells).
   Headers (OrderedDict objects) live in a second heap, `list header`, see Alias.v. *)
From Coq Require Import ZArith List Bool.
From Cnfgen Require Import Sem.
Import ListNotations.
Open Scope Z_scope.

Inductive pterm := PTup (c l : Z) | PRef (p : nat).

Inductive hcell :=
| HLits (xs : list Z)
| HPb (ts : list pterm) (o : pbop) (d : Z).

Definition hheap := list hcell.

Definition hp_get (h : hheap) (l : nat) : hcell := nth l h (HLits []).

(* item assignment on a Python list; out of range: unchanged *)
Fixpoint hp_set {A} (n : nat) (x : A) (l : list A) : list A :=
  match l, n with
  | [], _ => []
  | _ :: t, O => x :: t
  | y :: t, S n' => y :: hp_set n' x t
  end.

(* fresh list objects: locations length h, length h + 1, ... *)
Definition hp_alloc (h : hheap) (cs : list hcell) : list nat * hheap :=
  (seq (length h) (length cs), h ++ cs).

(* ---- what the client may do to a list it holds ---- *)
Inductive mutation :=
| MAppend (x : Z)            (* L.append(x) *)
| MSet (i : nat) (x : Z)     (* L[i] = x *)
| MNeg (i : nat)             (* L[i] *= -1 *)
| MClear                     (* L.clear() *)
| MPop                       (* L.pop() *)
| MReverse                   (* L.reverse() *)
| MTermSet (i : nat) (c l : Z)   (* C[i] = (c, l)        for i < number of terms *)
| MTermIns (c l : Z)             (* C.insert(len(C)-2, (c, l)) *)
| MTermDel                       (* del C[0]             when there is a term *)
| MSetOp (o : pbop)              (* C[-2] = op *)
| MSetDeg (d : Z).               (* C[-1] = d *)

Definition lits_mutate (m : mutation) (xs : list Z) : list Z :=
  match m with
  | MAppend x => xs ++ [x]
  | MSet i x => hp_set i x xs
  | MNeg i => match nth_error xs i with Some y => hp_set i (- y) xs | None => xs end
  | MClear => []
  | MPop => removelast xs
  | MReverse => rev xs
  | _ => xs
  end.

Definition mutate (m : mutation) (c : hcell) : hcell :=
  match c with
  | HLits xs => HLits (lits_mutate m xs)
  | HPb ts o d =>
    match m with
    | MTermSet i c' l' => HPb (hp_set i (PTup c' l') ts) o d
    | MTermIns c' l' => HPb (ts ++ [PTup c' l']) o d
    | MTermDel => HPb (tl ts) o d
    | MSetOp o' => HPb ts o' d
    | MSetDeg d' => HPb ts o d'
    | _ => c
    end
  end.

(* ---- reading ---- *)
Definition lits_at (h : hheap) (l : nat) : list Z :=
  match hp_get h l with HLits xs => xs | HPb _ _ _ => [] end.

(* a term as Python sees it: the tuple, or the current content of the referenced list *)
Definition term_val (h : hheap) (t : pterm) : list Z :=
  match t with PTup c l => [c; l] | PRef p => lits_at h p end.

(* the locations a cell refers to *)
Definition term_refs (t : pterm) : list nat := match t with PRef p => [p] | PTup _ _ => [] end.
Definition cell_refs (c : hcell) : list nat :=
  match c with HLits _ => [] | HPb ts _ _ => flat_map term_refs ts end.

(* observable value of the list object at l (what `list(x)` / printing shows) *)
Inductive cval :=
| VLits (xs : list Z)
| VPb (ts : list (list Z)) (o : pbop) (d : Z).

Definition cell_val (h : hheap) (l : nat) : cval :=
  match hp_get h l with
  | HLits xs => VLits xs
  | HPb ts o d => VPb (map (term_val h) ts) o d
  end.
