(* Fam_pebbling_Facts.v — pebbling, stone and sparse stone formulas are
   unsatisfiable on every DAG with at least one vertex; exact list of axioms. *)
From Coq Require Import ZArith List Bool Lia ZifyBool.
From Cnfgen Require Import Sem Comb Linear IR SemFacts LinearFacts IRFacts C03_Util C03_UtilFacts Fam_pebbling.
Import ListNotations.
Open Scope Z_scope.

Lemma dag_ok_spec D : dag_ok D = true ->
  forall v p, 1 <= v <= len D -> In p (nthZ D v) -> 1 <= p < v.
Proof.
  unfold dag_ok. intros H v p Hv Hp. rewrite forallb_forall in H.
  specialize (H v (proj2 (In_vrange v (len D)) Hv)). rewrite forallb_forall in H.
  specialize (H p Hp). lia.
Qed.

Lemma is_sink_spec D v : is_sink D v = true <-> forall w, 1 <= w <= len D -> ~ In v (nthZ D w).
Proof.
  unfold is_sink. rewrite negb_true_iff. split.
  - intros H w Hw Hin. assert (E : existsb (memZ v) D = true).
    { apply existsb_exists. exists (nthZ D w). split; [now apply nthZ_mem|now apply memZ_spec]. }
    congruence.
  - intros H. destruct (existsb (memZ v) D) eqn:E; [|reflexivity].
    apply existsb_exists in E as [l [Hl Hm]]. apply memZ_spec in Hm.
    apply In_nth_vrange in Hl as [w [Hw E]]. subst l. exfalso. exact (H w Hw Hm).
Qed.

Lemma last_is_sink D : dag_ok D = true -> is_sink D (len D) = true.
Proof.
  intros H. apply is_sink_spec. intros w Hw Hin. pose proof (dag_ok_spec D H w _ Hw Hin). lia.
Qed.

(* ---------- exact list of axioms of the pebbling formula ---------- *)
Theorem peb_axioms_exact D c : In c (peb_cnf D) <->
  (exists v, 1 <= v <= len D /\ c = map Z.opp (nthZ D v) ++ [v]) \/
  (exists v, 1 <= v <= len D /\ is_sink D v = true /\ c = [- v]).
Proof.
  unfold peb_cnf. rewrite in_flat_map. split.
  - intros [v [Hv H]]. apply In_vrange in Hv. unfold peb_vertex in H. destruct H as [H|H].
    + left. exists v. split; [assumption|now symmetry].
    + right. destruct (is_sink D v) eqn:E; [|contradiction]. destruct H as [H|[]].
      exists v. repeat split; try lia; now symmetry.
  - intros [[v [Hv E]]|[v [Hv [Hs E]]]]; exists v; (split; [now apply In_vrange|]); unfold peb_vertex.
    + left. now symmetry.
    + right. rewrite Hs. left. now symmetry.
Qed.

Theorem peb_unsat D a : dag_ok D = true -> 1 <= len D -> cnf_sat a (peb_cnf D) = false.
Proof.
  intros Hd Hn. destruct (cnf_sat a (peb_cnf D)) eqn:Hs; [|reflexivity]. exfalso.
  rewrite cnf_sat_true_iff in Hs.
  assert (All : forall (k : nat) v, 1 <= v <= len D -> v <= Z.of_nat k -> a v = true).
  { induction k as [|k IH]; intros v Hv Hk; [lia|].
    assert (Hc : clause_sat a (map Z.opp (nthZ D v) ++ [v]) = true).
    { apply Hs, peb_axioms_exact. left. exists v. now split. }
    apply clause_sat_true_iff in Hc as [l [Hl Ht]]. apply in_app_or in Hl as [Hl|[Hl|[]]].
    - apply in_map_iff in Hl as [p [E Hp]]. subst l.
      pose proof (dag_ok_spec D Hd v p Hv Hp) as Hr.
      rewrite lit_true_neg in Ht by lia. rewrite (IH p) in Ht by lia. discriminate.
    - subst l. rewrite lit_true_pos in Ht by lia. exact Ht. }
  assert (Hc : clause_sat a [- len D] = true).
  { apply Hs, peb_axioms_exact. right. exists (len D). repeat split; try lia. now apply last_is_sink. }
  cbn [clause_sat existsb] in Hc. rewrite orb_false_r, lit_true_neg in Hc by lia.
  rewrite (All (Z.to_nat (len D)) (len D)) in Hc by lia. discriminate.
Qed.

(* ---------- sparse stone formula ---------- *)
Lemma Pvar_pos B R v j : 0 <= R -> 0 < Pvar B R v j.
Proof.
  intros H. unfold Pvar. pose proof (prefix_len_nonneg B (Z.to_nat (v - 1))).
  pose proof (indexZ_nonneg j (nthZ B v)). lia.
Qed.

Lemma uniq_aux_In x seen l : In x (uniq_aux seen l) -> In x l.
Proof.
  revert seen. induction l as [|y t IH]; intros seen H; [exact H|]. cbn [uniq_aux] in H.
  destruct (memZ y seen).
  - right. eapply IH; eauto.
  - destruct H as [H|H]; [now left|right; eapply IH; eauto].
Qed.
Lemma uniqify_In x l : In x (uniqify l) -> In x l.
Proof. apply uniq_aux_In. Qed.

Lemma Forall2_combine_In {A B} (Q : A -> B -> Prop) l1 l2 x y :
  Forall2 Q l1 l2 -> In (x, y) (combine l1 l2) -> Q x y.
Proof.
  intros H. induction H as [|a b l1 l2 Hab H IH]; cbn [combine]; intros Hin; [contradiction|].
  destruct Hin as [E|Hin]; [inversion E; now subst|auto].
Qed.
Lemma Forall2_In_r {A B} (Q : A -> B -> Prop) l1 l2 y :
  Forall2 Q l1 l2 -> In y l2 -> exists x, In x l1 /\ Q x y.
Proof.
  intros H. induction H as [|a b l1 l2 Hab H IH]; intros Hin; [contradiction|].
  destruct Hin as [E|Hin].
  - subst. exists a. split; [now left|assumption].
  - destruct (IH Hin) as [x [Hx Hq]]. exists x. split; [now right|assumption].
Qed.

(* exact list of axioms of the sparse stone formula *)
Theorem sstone_axioms_exact D B R c : In c (sstone_cnf D B R) <->
  (exists v, 1 <= v <= len B /\ c = map (Pvar B R v) (nthZ B v)) \/
  (exists v j pat, 1 <= v <= len D /\ In j (nthZ B v) /\
      Forall2 (fun s p => In s (nthZ B p) /\ s <> j) pat (nthZ D v) /\
      c = sstone_prop_clause B R (nthZ D v) v j pat) \/
  (exists v j, 1 <= v <= len D /\ is_sink D v = true /\ In j (nthZ B v) /\ c = [- Pvar B R v j; - j]).
Proof.
  unfold sstone_cnf. rewrite in_app_iff. unfold sstone_complete. rewrite in_map_iff, in_flat_map.
  assert (PAT : forall j pat l, In pat (prod (map (fun p => filter (fun s => negb (s =? j)) (nthZ B p)) l)) <->
                                 Forall2 (fun s p => In s (nthZ B p) /\ s <> j) pat l).
  { intros j pat l. rewrite In_prod. revert pat. induction l as [|p t IH]; intros pat; cbn [map].
    - split; intros H; inversion H; constructor.
    - split; intros H; inversion H; subst; constructor.
      + match goal with H : In _ (filter _ _) |- _ => apply filter_In in H as [H1 H2] end. split; [assumption|lia].
      + now apply IH.
      + apply filter_In. split; [tauto|lia].
      + now apply IH. }
  split.
  - intros [[v [E Hv]]|[v [Hv H]]].
    + left. apply In_vrange in Hv. exists v. split; [assumption|now symmetry].
    + right. apply In_vrange in Hv. unfold sstone_vertex in H. apply in_app_or in H as [H|H].
      * left. apply in_flat_map in H as [j [Hj H]]. apply in_map_iff in H as [pat [E Hp]].
        exists v, j, pat. repeat split; try lia; try assumption; [now apply PAT|now symmetry].
      * right. destruct (is_sink D v) eqn:Es; [|contradiction]. apply in_map_iff in H as [j [E Hj]].
        exists v, j. repeat split; try lia; try assumption. now symmetry.
  - intros [[v [Hv E]]|[[v [j [pat [Hv [Hj [Hp E]]]]]]|[v [j [Hv [Hs [Hj E]]]]]]].
    + left. exists v. split; [now symmetry|now apply In_vrange].
    + right. exists v. split; [now apply In_vrange|]. unfold sstone_vertex. apply in_or_app. left.
      apply in_flat_map. exists j. split; [assumption|]. apply in_map_iff. exists pat. split; [now symmetry|now apply PAT].
    + right. exists v. split; [now apply In_vrange|]. unfold sstone_vertex. apply in_or_app. right.
      rewrite Hs. apply in_map_iff. exists j. split; [now symmetry|assumption].
Qed.

Lemma bip_ok_spec B R v j : bip_ok B R = true -> In j (nthZ B v) -> 1 <= j <= R.
Proof.
  unfold bip_ok. intros H Hj. rewrite forallb_forall in H.
  destruct (Z.le_gt_cases v (len B)) as [L|L]; [|rewrite nthZ_out in Hj by assumption; contradiction].
  destruct (Z.le_gt_cases 1 v) as [L1|L1].
  - specialize (H _ (nthZ_mem B v (conj L1 L))). rewrite forallb_forall in H. specialize (H j Hj). lia.
  - (* v <= 0 reads position 0 *)
    unfold nthZ in Hj. replace (Z.to_nat (v - 1)) with O in Hj by lia.
    destruct B as [|b t]; [contradiction|]. cbn [nth] in Hj.
    specialize (H b (or_introl eq_refl)). rewrite forallb_forall in H. specialize (H j Hj). lia.
Qed.

Theorem sstone_unsat D B R a : dag_ok D = true -> len B = len D -> 1 <= len D -> 0 <= R -> bip_ok B R = true ->
  cnf_sat a (sstone_cnf D B R) = false.
Proof.
  intros Hd HB Hn HR Hb. destruct (cnf_sat a (sstone_cnf D B R)) eqn:Hs; [|reflexivity]. exfalso.
  rewrite cnf_sat_true_iff in Hs.
  (* every vertex carries a stone *)
  assert (Comp : forall v, 1 <= v <= len D -> exists j, In j (nthZ B v) /\ a (Pvar B R v j) = true).
  { intros v Hv. assert (Hc : clause_sat a (map (Pvar B R v) (nthZ B v)) = true).
    { apply Hs, sstone_axioms_exact. left. exists v. split; [lia|reflexivity]. }
    apply clause_sat_true_iff in Hc as [l [Hl Ht]]. apply in_map_iff in Hl as [j [E Hj]]. subst l.
    exists j. split; [assumption|]. now rewrite lit_true_pos in Ht by now apply Pvar_pos. }
  (* every stone lying on a vertex is red *)
  assert (Red : forall (k : nat) v, 1 <= v <= len D -> v <= Z.of_nat k ->
                 forall j, In j (nthZ B v) -> a (Pvar B R v j) = true -> a j = true).
  { induction k as [|k IH]; intros v Hv Hk j Hj HP; [lia|].
    assert (Choice : forall ps, (forall p, In p ps -> 1 <= p < v) ->
              a j = true \/ exists pat, Forall2 (fun s p => In s (nthZ B p) /\ s <> j) pat ps /\
                                         Forall2 (fun s p => a (Pvar B R p s) = true) pat ps).
    { induction ps as [|p t IHt]; intros Hps.
      - right. exists []. split; constructor.
      - assert (Hpt : forall q, In q t -> 1 <= q < v) by (intros q Hq; apply Hps; now right).
        destruct (IHt Hpt) as [Hr|[pat [H1 H2]]]; [now left|].
        assert (Hp : 1 <= p < v) by (apply Hps; now left).
        destruct (Comp p ltac:(lia)) as [s [Hsin HsP]].
        destruct (Z.eq_dec s j) as [E|NE].
        + left. subst s. apply (IH p); try lia; assumption.
        + right. exists (s :: pat). split; constructor; auto. }
    destruct (Choice (nthZ D v) (fun p Hp => dag_ok_spec D Hd v p Hv Hp)) as [Hr|[pat [H1 H2]]]; [assumption|].
    assert (Hc : clause_sat a (sstone_prop_clause B R (nthZ D v) v j pat) = true).
    { apply Hs, sstone_axioms_exact. right. left. exists v, j, pat. repeat split; try lia; assumption. }
    apply clause_sat_true_iff in Hc as [l [Hl Ht]]. unfold sstone_prop_clause in Hl.
    apply in_app_or in Hl as [Hl|Hl]; [|apply in_app_or in Hl as [Hl|Hl]; [|apply in_app_or in Hl as [Hl|Hl]]].
    - apply in_map_iff in Hl as [[p s] [E Hin]]. subst l. cbn [fst snd] in Ht.
      assert (HQ : a (Pvar B R p s) = true).
      { apply in_combine_l in Hin as Hp'. clear Hp'.
        assert (Hin' : In (s, p) (combine pat (nthZ D v))).
        { clear -Hin H2. revert H2 Hin. generalize (nthZ D v). intros l. revert pat.
          induction l as [|q t IHl]; intros pat H2 Hin; [contradiction|].
          inversion H2; subst. cbn [combine] in *. destruct Hin as [E|Hin]; [left; now inversion E|right; auto]. }
        exact (Forall2_combine_In _ _ _ _ _ H2 Hin'). }
      rewrite lit_true_neg, HQ in Ht by now apply Pvar_pos. discriminate.
    - destruct Hl as [E|[]]. subst l. rewrite lit_true_neg, HP in Ht by now apply Pvar_pos. discriminate.
    - apply in_map_iff in Hl as [s [E Hin]]. subst l. apply uniqify_In in Hin.
      (* s lies on some predecessor p *)
      assert (Hp : exists p, In p (nthZ D v) /\ In s (nthZ B p) /\ a (Pvar B R p s) = true).
      { clear -H1 H2 Hin. revert H1 H2 Hin. generalize (nthZ D v). intros l H1.
        induction H1 as [|x p pat l Hx H1 IHl]; intros H2 Hin; [contradiction|].
        inversion H2; subst. destruct Hin as [E|Hin].
        - subst. exists p. repeat split; [now left|tauto|assumption].
        - destruct (IHl ltac:(assumption) Hin) as [q [Hq1 Hq2]]. exists q. split; [now right|assumption]. }
      destruct Hp as [p [Hp [Hsin HsP]]]. pose proof (dag_ok_spec D Hd v p Hv Hp) as Hr.
      pose proof (bip_ok_spec B R p s Hb Hsin) as Hsr.
      rewrite lit_true_neg in Ht by lia. rewrite (IH p ltac:(lia) ltac:(lia) s Hsin HsP) in Ht. discriminate.
    - destruct Hl as [E|[]]. subst l. pose proof (bip_ok_spec B R v j Hb Hj). now rewrite lit_true_pos in Ht by lia. }
  (* the last vertex is a sink: its stone must be blue *)
  destruct (Comp (len D) ltac:(lia)) as [j [Hj HP]].
  assert (Hc : clause_sat a [- Pvar B R (len D) j; - j] = true).
  { apply Hs, sstone_axioms_exact. right. right. exists (len D), j. repeat split; try lia; try assumption. now apply last_is_sink. }
  pose proof (bip_ok_spec B R _ j Hb Hj) as Hjr.
  cbn [clause_sat existsb] in Hc. rewrite orb_false_r in Hc.
  rewrite !lit_true_neg in Hc by (try apply Pvar_pos; lia). rewrite HP in Hc.
  rewrite (Red (Z.to_nat (len D)) (len D) ltac:(lia) ltac:(lia) j Hj HP) in Hc. discriminate.
Qed.

(* ---------- stone formula = sparse stone formula on the complete availability graph ---------- *)
Lemma complete_bip_len n R : len (complete_bip n R) = Z.of_nat n.
Proof. unfold complete_bip, len. now rewrite repeat_length. Qed.
Lemma complete_bip_ok n R : bip_ok (complete_bip n R) R = true.
Proof.
  unfold bip_ok, complete_bip. apply forallb_forall. intros l Hl. apply repeat_spec in Hl. subst l.
  apply forallb_forall. intros j Hj. apply In_vrange in Hj. lia.
Qed.

Theorem stone_unsat D R a : dag_ok D = true -> 1 <= len D -> 0 <= R -> cnf_sat a (stone_cnf D R) = false.
Proof.
  intros Hd Hn HR. unfold stone_cnf. apply sstone_unsat; try assumption.
  - rewrite complete_bip_len. reflexivity.
  - apply complete_bip_ok.
Qed.
