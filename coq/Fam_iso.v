(* Fam_iso.v — model of cnfgen/families/graphisomorphism.py :
   GraphIsomorphism(G1, G2) and GraphAutomorphism(G).
   f = new_mapping(n1, n2); force_complete, force_surjective, force_functional,
   force_injective (in this order); then for u1<u2 in 1..n1, v1<v2 in 1..n2 with
   G1.has_edge(u1,u2) != G2.has_edge(v1,v2) the clauses [-f(u1,v1),-f(u2,v2)] and
   [-f(u1,v2),-f(u2,v1)].  Automorphism: isomorphism G -> G plus the clause
   [-f(u,u) for u in 1..n].
   The keyword `nontrivial` of GraphIsomorphism ("forbid identical mapping") is never
   read by the code: [iso_ir] (the code as it is) has no such parameter;
   [iso_nontrivial_ir] is the documented behaviour for nontrivial=True (the clause of
   GraphAutomorphism, over the vertices both graphs have).
   Abstracted: descriptions.  Definitions only. *)
From Coq Require Import ZArith List Bool.
From Cnfgen Require Import Sem Comb Linear IR C02Common.
Import ListNotations.
Open Scope Z_scope.

Definition iso_bad (E1 E2 : list (Z * Z)) (u1 u2 v1 v2 : Z) : bool :=
  negb (eqb (has_edge E1 u1 u2) (has_edge E2 v1 v2)).
Definition iso_ir (n1 : Z) (E1 : list (Z * Z)) (n2 : Z) (E2 : list (Z * Z)) : list ir :=
  um_complete 0 n1 n2 ++ um_surjective 0 n1 n2 ++ um_functional 0 n1 n2 ++ um_injective 0 n1 n2
  ++ cons_clauses (iso_bad E1 E2) (pair_mk 0 n2 false) n1 n2.
Definition iso_numvar (n1 n2 : Z) : Z := n1 * n2.

Definition auto_ir (n : Z) (E : list (Z * Z)) : list ir :=
  iso_ir n E n E ++ [IClause (map (fun u => - mvar 0 n u u) (rng n))].

(* documented behaviour of GraphIsomorphism(G1, G2, nontrivial=True) *)
Definition iso_nontrivial_ir (n1 : Z) (E1 : list (Z * Z)) (n2 : Z) (E2 : list (Z * Z)) : list ir :=
  iso_ir n1 E1 n2 E2 ++ [IClause (map (fun u => - mvar 0 n2 u u) (rng (Z.min n1 n2)))].

(* phi is an isomorphism G1 -> G2 (only its values on 1..n1 matter) *)
Definition isomorphism (n1 : Z) (E1 : list (Z * Z)) (n2 : Z) (E2 : list (Z * Z)) (phi : Z -> Z) : Prop :=
  (forall u, 1 <= u <= n1 -> 1 <= phi u <= n2) /\
  (forall u1 u2, 1 <= u1 <= n1 -> 1 <= u2 <= n1 -> phi u1 = phi u2 -> u1 = u2) /\
  (forall v, 1 <= v <= n2 -> exists u, 1 <= u <= n1 /\ phi u = v) /\
  (forall u1 u2, 1 <= u1 <= n1 -> 1 <= u2 <= n1 -> u1 <> u2 ->
     has_edge E1 u1 u2 = has_edge E2 (phi u1) (phi u2)).
