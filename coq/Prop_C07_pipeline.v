(* Property C07 (and C17, C13, C15) for the whole program on command lines that USE RANDOMNESS:
   cnfgen_main_rand : argv -> stream of primitive draws (the values getrandbits returned, in call order) -> result
   (coq/PipelineRand.v).  Statements only; proofs in PipelineRandFacts.v. *)
From Coq Require Import ZArith List Bool Ascii String.
From Cnfgen Require Import Sem Comb Text Dimacs DimacsFacts GraphSpec GraphIO GraphGen Shuffle Rand ShuffleMain ShuffleMainFacts
     PipelineGraph Pipeline PipelineFacts PipelineRand PipelineRandFacts.
Import ListNotations.
Open Scope Z_scope.

(* (1) conservative extension: on a command line without any of the words that announce a random part
   (--seed -S randkcnf randkxor gnp gnm gnd glrp glrm glrd regular plantclique plantbiclique addedges splitedges
   random randomodd randomeven in the first chunk, shuffle after a -T) the result is Pipeline.cnfgen_main's and no draw
   is read, whatever the oracle *)
Theorem pipeline_rand_extends : forall argv oracle, plr_uses_random argv = false ->
  cnfgen_main_rand argv oracle = PdOk (cnfgen_main argv) oracle.
Proof. exact plr_extends. Qed.
Print Assumptions pipeline_rand_extends.

(* (2) for ALL argv and ALL oracles: output, clean error, outside the grammar, out of draws (with the call that would
   come next) or an impossible draw -- never the crash value *)
Theorem pipeline_rand_total : forall argv oracle,
  (exists text rest, cnfgen_main_rand argv oracle = PdOk (POut text) rest) \/
  (exists rest, cnfgen_main_rand argv oracle = PdOk PCliError rest) \/
  (exists rest, cnfgen_main_rand argv oracle = PdOk POutside rest) \/
  (exists q, cnfgen_main_rand argv oracle = PdEnd q) \/
  cnfgen_main_rand argv oracle = PdBad.
Proof. exact plr_total. Qed.
Print Assumptions pipeline_rand_total.

(* (3) whatever is written is the DIMACS / OPB text of a formula with its literals in range, and a strict reader of
   that format gets the formula back *)
Theorem pipeline_rand_roundtrip : forall argv oracle text rest, cnfgen_main_rand argv oracle = PdOk (POut text) rest ->
  exists opb n F, text = pl_write opb None n F /\ 0 <= n /\ lits_in_range n F = true /\
                  (printable n -> printable (len F) -> pl_reads_back opb text n F).
Proof. exact plr_roundtrip. Qed.
Print Assumptions pipeline_rand_roundtrip.

(* (4) THE ORDER OF THE DRAWS.  The oracle is ONE stream, read as
        (graph argument, sampled while the command line is parsed) ++ (the family's own draws) ++ (transformations)
   which is the "one seeded library session" reading of --seed.  A stage "reads exactly o" when it leaves whatever
   follows o unread. *)
Theorem pipeline_draw_order : forall argv o1 o2 o3 c g ts F,
  plr_uses_random argv = true ->
  (forall t, plr_stage_parse (pl_chunks_of argv) (o1 ++ t) = PdOk (PlOk c) t) ->
  plr_gen_of (plr_head_of c) = Some g -> pl_all_some (plr_ts c) = Some ts ->
  (forall t, plr_stage_family g (o2 ++ t) = PdOk F t) ->
  cnfgen_main_rand argv (o1 ++ o2 ++ o3) =
    match plr_chain ts F o3 with
    | PdOk r rest => PdOk (plr_finish c r) rest
    | PdEnd q => PdEnd q
    | PdBad => PdBad
    end.
Proof. exact plr_draw_order. Qed.
Print Assumptions pipeline_draw_order.

(* ... and the transformations read it left to right, each its own part *)
Theorem pipeline_draw_order_chain : forall t ts n F oa ob r,
  plr_tstep t n F oa = PdOk r [] -> plr_chain (t :: ts) (FrOk n F) (oa ++ ob) = plr_chain ts r ob.
Proof. exact plr_chain_split. Qed.
Print Assumptions pipeline_draw_order_chain.

(* "reads exactly o" follows from one run that ends with nothing unread, for every stage whose draws the model reads
   itself: the whole chain of transformations, every family except randkcnf / randkxor.  (For randkcnf / randkxor and for
   the graph argument the frame is the hypothesis of pipeline_draw_order: Rand.v / GraphGen.v have no such lemma.) *)
Definition pipeline_frames_statement : Prop :=
  (forall chunks, plr_framed (plr_stage_parse chunks)) /\ (forall g, plr_framed (plr_stage_family g)).
Theorem pipeline_frames_partial :
  (forall ts acc, plr_framed (plr_chain ts acc)) /\
  (forall c, (forall x k n m p, c <> RcRand x k n m p) -> plr_framed (plr_stage_family c)) /\
  (forall bs, plr_framed (plr_belows bs)) /\
  (forall A (f : list Z -> plr_dr A) o a, plr_framed f -> f o = PdOk a [] -> forall t, f (o ++ t) = PdOk a t).
Proof. exact (conj plr_chain_framed (conj plr_stage_family_framed (conj plr_belows_framed (@plr_framed_exact)))). Qed.
Print Assumptions pipeline_frames_partial.

(* the bounds of the draws of a stage are a function of the command line and of the results of the stages before it:
   -T shuffle: ShuffleMain.shm_bounds of its switches, the number of variables and of clauses of the formula it receives;
   random charges: n (random) or n-1 (randomodd, randomeven) calls with bound 2;
   glrd, plantclique, plantbiclique, splitedges: a fixed schedule of random.sample calls *)
Theorem pipeline_stage_bounds :
  (forall a b c n F o, plr_shuffle a b c n F o =
     match plr_belows (shm_bounds a b c n (len F)) o with
     | PdOk rs o' => let '(fl, pm, cp) := shm_args a b c n (len F) rs in
                     match shuffle n F fl pm cp with ShOk n' out => PdOk (plr_checked n' out) o' | _ => PdOk FrErr o' end
     | PdEnd q => PdEnd q
     | PdBad => PdBad
     end) /\
  (forall mode n E o, plr_stage_family (RcTseitin mode n E) o =
     match plr_belows (repeat 2 (Z.to_nat (if mode =? 0 then n else n - 1))) o with
     | PdOk rs o' => PdOk (pl_build_fast (FcTseitin (Some (plr_charges mode n rs)) n E)) o'
     | PdEnd q => PdEnd q
     | PdBad => PdBad
     end) /\
  (forall l r d, exists calls, forall o, plr_gen (GCGlrd l r d) o = plr_exact calls (gg_left_regular l r d) o) /\
  (forall G k, exists calls, forall o, plr_step G (SPlantClique k) o = plr_exact calls (gg_plantclique G k) o) /\
  (forall G a b, exists calls, forall o, plr_step G (SPlantBiclique a b) o = plr_exact calls (gg_plantbiclique G a b) o) /\
  (forall G k, exists calls, forall o, plr_step G (SSplitEdges k) o = plr_exact calls (gg_split_edges G k) o).
Proof. exact plr_stage_bounds. Qed.
Print Assumptions pipeline_stage_bounds.

(* the model's reading of a list of bounds is ShuffleMain's *)
Theorem pipeline_belows_is_shm_draws : forall bs o rs rest, plr_belows bs o = PdOk rs rest <-> shm_draws bs o = DrOk rs rest.
Proof. exact plr_belows_shm. Qed.
Print Assumptions pipeline_belows_is_shm_draws.

(* (5) C07 for this grammar.  A run against ANY generator (state type G, getrandbits : k -> state -> value * state):
   the tool asks, the generator answers.  The run is the model on the values the generator handed out ... *)
Theorem pipeline_run_is_replay : forall (G : Type) (bits : Z -> G -> Z * G) seed_fn fuel argv g0 r oracle,
  cnfgen_run_rand bits seed_fn fuel argv g0 = Some (r, oracle) ->
  cnfgen_main_rand argv oracle = r /\ forall q, r <> PdEnd q.
Proof. exact @plr_run_is_replay. Qed.
Print Assumptions pipeline_run_is_replay.

(* ... and two runs whose generators were seeded alike write the same bytes, whatever state the generator was in
   before: for every seed (0 included), every generator, every command line *)
Theorem pipeline_seeded_deterministic : forall (G : Type) (bits : Z -> G -> Z * G) seed_fn fuel argv s,
  plr_seed argv = Some s ->
  forall g1 g2, cnfgen_run_rand bits seed_fn fuel argv g1 = cnfgen_run_rand bits seed_fn fuel argv g2.
Proof. exact @plr_seeded_runs_agree. Qed.
Print Assumptions pipeline_seeded_deterministic.

(* without --seed they do not; with --seed 0 they do (toy generator: getrandbits(k) = state mod 2^k, state + 1) *)
Theorem pipeline_unseeded_refuted :
  cnfgen_run_rand shm_toy_bits (fun s => s) 40 ["-q"; "randkcnf"; "1"; "2"; "1"]%string 0
    <> cnfgen_run_rand shm_toy_bits (fun s => s) 40 ["-q"; "randkcnf"; "1"; "2"; "1"]%string 1 /\
  cnfgen_run_rand shm_toy_bits (fun s => s) 40 ["-q"; "--seed"; "0"; "randkcnf"; "1"; "2"; "1"]%string 0
    = cnfgen_run_rand shm_toy_bits (fun s => s) 40 ["-q"; "--seed"; "0"; "randkcnf"; "1"; "2"; "1"]%string 1 /\
  plr_seed ["-q"; "--seed"; "0"; "randkcnf"; "1"; "2"; "1"]%string = Some 0 /\
  plr_seed ["-S"; "3"; "-q"; "--seed"; "-7"; "php"; "--seed"; "9"]%string = Some (-7).
Proof.
  split; [intros H; vm_compute in H; discriminate H|]. vm_compute. repeat split.
Qed.
Print Assumptions pipeline_unseeded_refuted.

(* (6) C13 / C15 carried to the tool *)
(* randkcnf k n m [--plant]: exactly m pairwise distinct clauses, each on k distinct variables of 1..n ... *)
Theorem pipeline_randkcnf_shape : forall k n m pl oracle nv F rest,
  plr_rand_run false k n m pl oracle = PdOk (FrOk nv F) rest ->
  nv = n /\ len F = m /\ NoDup F /\
  (forall c, In c F -> len c = k /\ NoDup (map Z.abs c) /\ (forall l, In l c -> 1 <= Z.abs l <= n)).
Proof. exact plr_randkcnf_shape. Qed.
Print Assumptions pipeline_randkcnf_shape.

(* ... and a clean error only when there is no such formula *)
Theorem pipeline_randkcnf_error : forall k n m oracle rest,
  plr_rand_run false k n m false oracle = PdOk FrErr rest ->
  n < 0 \/ m < 0 \/ k < 0 \/ k > n \/ m > len (all_clauses k n []).
Proof. exact plr_randkcnf_error. Qed.
Print Assumptions pipeline_randkcnf_error.

(* a graph argument glrd L R d: every left vertex has degree min(R, d) *)
Theorem pipeline_glrd_regular : forall l r d oracle G rest, plr_gen (GCGlrd l r d) oracle = PdOk (PlOk G) rest ->
  io_kind G = GioBipartite /\ io_n G = l /\ io_r G = r /\
  forall u, 1 <= u <= l -> Z.of_nat (List.length (gio_succs G u)) = Z.min r d.
Proof. exact plr_glrd_regular. Qed.
Print Assumptions pipeline_glrd_regular.

(* non-vacuity: real runs (draws recorded from CPython 3.12.1, seed 5; the first line read 22 values: rejected
   values of getrandbits(2) for _randbelow(3) and _randbelow(2) included) *)
Example pipeline_rand_nonvacuous :
  cnfgen_main_rand ["-q"; "--seed"; "5"; "randkcnf"; "2"; "3"; "2"]%string [2;1;2;1;3;2;3;3;2;2;3;2;0;3;1;3;3;0;2;0;3;0]
    = PdOk (POut (lit "p cnf 3 2
-2 3 0
1 2 0
")) [] /\
  cnfgen_main_rand ["-q"; "--seed"; "5"; "randkcnf"; "2"; "3"; "2"]%string [2;1;2;1;3;2;3;3;2;2;3;2;0;3;1;3;3;0;2;0;3] = PdEnd (RqBits 2) /\
  cnfgen_main_rand ["-q"; "--seed"; "5"; "randkcnf"; "2"; "3"; "2"]%string [9] = PdBad /\
  cnfgen_main_rand ["-q"; "--seed"; "x"; "randkcnf"; "2"; "3"; "2"]%string [1; 2] = PdOk PCliError [1; 2] /\
  cnfgen_main_rand ["-q"; "randkcnf"; "4"; "3"; "2"]%string [] = PdOk PCliError [] /\
  cnfgen_main_rand ["-q"; "matching"; "gnp"; "4"; "0.5"]%string [7] = PdOk POutside [7] /\
  cnfgen_main_rand ["-q"; "--seed"; "0"; "php"; "glrd"; "2"; "3"; "1"]%string [2; 3; 1] = PdOk (POut (lit "p cnf 2 2
1 0
2 0
")) [] /\
  plr_uses_random ["-q"; "php"; "3"; "2"; "-T"; "xor"; "2"]%string = false.
Proof. vm_compute. repeat split. Qed.

(* the order of the draws on one line with three random parts: plantclique reads [0; 0] (random.sample of 2 out of 3),
   the charges read [1; 0; 1], the shuffle of the variables reads [2; 1] *)
Example pipeline_draw_order_nonvacuous :
  let argv := ["-q"; "tseitin"; "random"; "complete"; "3"; "plantclique"; "2"; "-T"; "shuffle"; "-p"; "-c"]%string in
  cnfgen_main_rand argv ([0; 0] ++ [1; 0; 1] ++ [2; 1]) = PdOk (POut (lit "p cnf 3 6
1 2 0
-1 -2 0
1 -3 0
-1 3 0
2 3 0
-2 -3 0
")) [] /\
  (exists c, plr_stage_parse (pl_chunks_of argv) [0; 0] = PdOk (PlOk c) [] /\
             plr_stage_parse (pl_chunks_of argv) ([0; 0] ++ [5; 6]) = PdOk (PlOk c) [5; 6]) /\
  cnfgen_main_rand argv ([0; 0] ++ [1; 0; 1] ++ [2]) = PdEnd (RqBits 2) /\
  plr_shuffle true false true 3 [[1; 2]; [-3]] [0; 0] = PdOk (FrOk 3 [[2; 3]; [-1]]) [].
Proof. vm_compute. split; [reflexivity|]. split; [eexists; split; reflexivity|]. split; reflexivity. Qed.
