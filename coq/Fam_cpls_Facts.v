(* Fam_cpls_Facts.v — Thapen's CPLS formula is unsatisfiable for every number of
   levels and all powers of two b, c; exact list of axioms. *)
From Coq Require Import ZArith List Bool Lia ZifyBool.
From Cnfgen Require Import Sem Comb Linear IR SemFacts LinearFacts IRFacts C03_Util C03_UtilFacts Fam_cpls.
Import ListNotations.
Open Scope Z_scope.

Lemma clause_sat_rev a c : clause_sat a (rev c) = clause_sat a c.
Proof. apply clause_sat_set_ext; intros l Hl; [now apply in_rev|now apply -> in_rev]. Qed.

(* whatever the bits are, they spell some number j, and the clause that forbids j is false *)
Lemma fb_exists a rvars : (forall v, In v rvars -> 0 < v) ->
  exists j, 0 <= j < 2 ^ len rvars /\ clause_sat a (fb rvars j) = false.
Proof.
  induction rvars as [|v t IH]; intros Hp.
  - exists 0. split; [cbn; lia|reflexivity].
  - destruct IH as [j [Hj Hc]]; [intros w Hw; apply Hp; now right|].
    assert (Hv : 0 < v) by (apply Hp; now left).
    exists (2 * j + b2z (a v)). rewrite len_cons. pose proof (len_nonneg t).
    rewrite Z.pow_add_r by lia. change (2 ^ 1) with 2. split; [destruct (a v); cbn [b2z]; lia|].
    cbn [fb]. assert (E2 : (2 * j + b2z (a v)) / 2 = j) by (destruct (a v); cbn [b2z]; lia).
    assert (Eo : Z.odd (2 * j + b2z (a v)) = a v).
    { rewrite Z.add_comm, Z.odd_add_mul_2. now destruct (a v). }
    rewrite E2, Eo. rewrite clause_sat_cons, Hc, orb_false_r.
    destruct (a v) eqn:Ea; [rewrite lit_true_neg by lia|rewrite lit_true_pos by lia]; now rewrite Ea.
Qed.

Lemma bitvars_len off L x : 0 <= L -> len (bitvars off L x) = L.
Proof. intros HL. unfold bitvars, len. rewrite zrange_length. lia. Qed.

Lemma forbid_exists a off L x : 0 <= off -> 0 <= L -> 1 <= x ->
  exists j, 0 <= j < 2 ^ L /\ clause_sat a (forbid off L x j) = false.
Proof.
  intros Ho HL Hx. destruct (fb_exists a (rev (bitvars off L x))) as [j [Hj Hc]].
  - intros v Hv. apply in_rev in Hv. unfold bitvars in Hv. apply In_zrange in Hv. nia.
  - exists j. split.
    + unfold len in Hj. rewrite rev_length in Hj. fold (len (bitvars off L x)) in Hj. now rewrite bitvars_len in Hj.
    + unfold forbid. now rewrite clause_sat_rev.
Qed.

(* ---------- exact list of axioms ---------- *)
Theorem cpls_axioms_exact a b c cl : In cl (cpls_cnf a b c) <->
  (exists y, 1 <= y <= c /\ cl = [- Gid b c 1 1 y]) \/
  (exists i x xx y, 1 <= i <= a - 1 /\ 1 <= x <= b /\ 1 <= xx <= b /\ 1 <= y <= c /\
      cl = forbid (cpls_foff a b c i) (Z.log2_up b) x (xx - 1) ++ [- Gid b c (i + 1) xx y; Gid b c i x y]) \/
  (exists x y, 1 <= x <= b /\ 1 <= y <= c /\ cl = forbid (cpls_uoff a b c) (Z.log2_up c) x (y - 1) ++ [Gid b c a x y]).
Proof.
  unfold cpls_cnf. rewrite !in_app_iff.
  assert (A1 : In cl (cpls_ax1 b c) <-> exists y, 1 <= y <= c /\ cl = [- Gid b c 1 1 y]).
  { unfold cpls_ax1. rewrite in_map_iff. split.
    - intros [y [E Hy]]. apply In_vrange in Hy. exists y. split; [assumption|now symmetry].
    - intros [y [Hy E]]. exists y. split; [now symmetry|now apply In_vrange]. }
  assert (A2 : In cl (cpls_ax2 a b c) <-> exists i x xx y, 1 <= i <= a - 1 /\ 1 <= x <= b /\ 1 <= xx <= b /\ 1 <= y <= c /\
      cl = forbid (cpls_foff a b c i) (Z.log2_up b) x (xx - 1) ++ [- Gid b c (i + 1) xx y; Gid b c i x y]).
  { unfold cpls_ax2. rewrite in_flat_map. split.
    - intros [i [Hi H]]. apply in_flat_map in H as [x [Hx H]]. apply in_flat_map in H as [xx [Hxx H]].
      apply in_map_iff in H as [y [E Hy]]. apply In_vrange in Hi, Hx, Hxx, Hy. exists i, x, xx, y. repeat split; try lia. now symmetry.
    - intros [i [x [xx [y [Hi [Hx [Hxx [Hy E]]]]]]]]. exists i. split; [now apply In_vrange|]. apply in_flat_map. exists x.
      split; [now apply In_vrange|]. apply in_flat_map. exists xx. split; [now apply In_vrange|]. apply in_map_iff.
      exists y. split; [now symmetry|now apply In_vrange]. }
  assert (A3 : In cl (cpls_ax3 a b c) <-> exists x y, 1 <= x <= b /\ 1 <= y <= c /\
      cl = forbid (cpls_uoff a b c) (Z.log2_up c) x (y - 1) ++ [Gid b c a x y]).
  { unfold cpls_ax3. rewrite in_flat_map. split.
    - intros [x [Hx H]]. apply in_map_iff in H as [y [E Hy]]. apply In_vrange in Hx, Hy. exists x, y. repeat split; try lia. now symmetry.
    - intros [x [y [Hx [Hy E]]]]. exists x. split; [now apply In_vrange|]. apply in_map_iff. exists y. split; [now symmetry|now apply In_vrange]. }
  rewrite A1, A2, A3. tauto.
Qed.

Lemma mul3_nonneg x y z : 0 <= x -> 0 <= y -> 0 <= z -> 0 <= x * y * z.
Proof. intros. apply Z.mul_nonneg_nonneg; [apply Z.mul_nonneg_nonneg|]; assumption. Qed.

Lemma Gid_pos b c i x y : 1 <= b -> 1 <= c -> 1 <= i -> 1 <= x -> 1 <= y -> 0 < Gid b c i x y.
Proof. intros. unfold Gid. nia. Qed.

Theorem cpls_unsat (A : Z) (Lb Lc : Z) asg : 1 <= A -> 0 <= Lb -> 0 <= Lc ->
  cnf_sat asg (cpls_cnf A (2 ^ Lb) (2 ^ Lc)) = false.
Proof.
  intros HA HLb HLc. set (b := 2 ^ Lb). set (c := 2 ^ Lc).
  assert (Hb : 1 <= b) by (unfold b; pose proof (Z.pow_pos_nonneg 2 Lb); lia).
  assert (Hc : 1 <= c) by (unfold c; pose proof (Z.pow_pos_nonneg 2 Lc); lia).
  assert (Eb : Z.log2_up b = Lb) by (apply Z.log2_up_pow2; lia).
  assert (Ec : Z.log2_up c = Lc) by (apply Z.log2_up_pow2; lia).
  destruct (cnf_sat asg (cpls_cnf A b c)) eqn:Hs; [|reflexivity]. exfalso. rewrite cnf_sat_true_iff in Hs.
  assert (Col : forall (k : nat) i, i = A - Z.of_nat k -> 1 <= i ->
            forall x, 1 <= x <= b -> exists y, 1 <= y <= c /\ asg (Gid b c i x y) = true).
  { induction k as [|k IH]; intros i Ei Hi x Hx.
    - assert (EA : i = A) by lia. clear Ei. subst i.
      destruct (forbid_exists asg (cpls_uoff A b c) Lc x) as [j [Hj Hf]]; try lia.
      { unfold cpls_uoff. rewrite Eb. pose proof (mul3_nonneg A b c). pose proof (mul3_nonneg A b Lb). lia. }
      exists (j + 1). split; [unfold c; lia|].
      assert (Hcl : clause_sat asg (forbid (cpls_uoff A b c) (Z.log2_up c) x (j + 1 - 1) ++ [Gid b c A x (j + 1)]) = true).
      { apply Hs, cpls_axioms_exact. right. right. exists x, (j + 1). repeat split; try lia; unfold c; lia. }
      rewrite Ec in Hcl. replace (j + 1 - 1) with j in Hcl by lia.
      rewrite clause_sat_app, Hf in Hcl. cbn [orb clause_sat existsb] in Hcl. rewrite orb_false_r in Hcl.
      now rewrite lit_true_pos in Hcl by (apply Gid_pos; lia).
    - destruct (forbid_exists asg (cpls_foff A b c i) Lb x) as [j [Hj Hf]]; try lia.
      { unfold cpls_foff. rewrite Eb. pose proof (mul3_nonneg A b c). pose proof (mul3_nonneg (i - 1) b Lb). lia. }
      destruct (IH (i + 1) ltac:(lia) ltac:(lia) (j + 1) ltac:(unfold b; lia)) as [y [Hy Hg]].
      exists y. split; [assumption|].
      assert (Hcl : clause_sat asg (forbid (cpls_foff A b c i) (Z.log2_up b) x (j + 1 - 1)
                                    ++ [- Gid b c (i + 1) (j + 1) y; Gid b c i x y]) = true).
      { apply Hs, cpls_axioms_exact. right. left. exists i, x, (j + 1), y. repeat split; try lia; unfold b; lia. }
      rewrite Eb in Hcl. replace (j + 1 - 1) with j in Hcl by lia.
      rewrite clause_sat_app, Hf in Hcl. cbn [orb clause_sat existsb] in Hcl. rewrite orb_false_r in Hcl.
      rewrite lit_true_neg in Hcl by (apply Gid_pos; lia). rewrite Hg in Hcl. cbn [negb orb] in Hcl.
      now rewrite lit_true_pos in Hcl by (apply Gid_pos; lia). }
  destruct (Col (Z.to_nat (A - 1)) 1 ltac:(lia) ltac:(lia) 1 ltac:(lia)) as [y [Hy Hg]].
  assert (Hcl : clause_sat asg [- Gid b c 1 1 y] = true).
  { apply Hs, cpls_axioms_exact. left. exists y. split; [assumption|reflexivity]. }
  cbn [clause_sat existsb] in Hcl. rewrite orb_false_r, lit_true_neg in Hcl by (apply Gid_pos; lia).
  rewrite Hg in Hcl. discriminate.
Qed.

(* the generator accepts exactly positive a and powers of two b, c *)
Lemma is_pow2_spec m : 1 <= m -> (is_pow2 m = true <-> exists L, 0 <= L /\ m = 2 ^ L).
Proof.
  intros Hm. unfold is_pow2. rewrite Z.eqb_eq. split.
  - intros E. exists (Z.log2_up m). split; [apply Z.log2_up_nonneg|assumption].
  - intros [L [HL E]]. subst m. now rewrite Z.log2_up_pow2.
Qed.
