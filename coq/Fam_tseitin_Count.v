(* Fam_tseitin_Count.v — from the bijection "models <-> values on the free edges" to the NUMBER of
   models computed by brute force (Fam_tseitin.count_models filters all 2^|E| boolean vectors):
   a satisfiable Tseitin formula has exactly 2^(|E| - |V| + components) models, for every graph. *)
From Coq Require Import ZArith List Bool Lia ZifyBool.
From Cnfgen Require Import Sem Comb Linear SemFacts LinearFacts IR IRFacts C02Common C02CommonFacts
  Fam_tseitin Fam_tseitin_Facts Fam_tseitin_Forest Fam_tseitin_Conv.
Import ListNotations.
Open Scope Z_scope.

(* ---------- boolean vectors ---------- *)
Lemma In_bool_vectors k : forall bs, In bs (bool_vectors k) <-> length bs = k.
Proof.
  induction k as [|k IH]; intros bs; cbn [bool_vectors].
  - split; [intros [<-|[]]; reflexivity|]. destruct bs; [now left|discriminate].
  - rewrite in_app_iff, !in_map_iff. split.
    + intros [[t [<- Ht]]|[t [<- Ht]]]; apply IH in Ht; cbn; now rewrite Ht.
    + destruct bs as [|[|] t]; [discriminate| |]; intros H; injection H as H; apply IH in H; [right|left]; now exists t.
Qed.

Lemma NoDup_app_disjoint {A} (l1 l2 : list A) :
  NoDup l1 -> NoDup l2 -> (forall x, In x l1 -> In x l2 -> False) -> NoDup (l1 ++ l2).
Proof.
  induction l1 as [|x l1 IH]; intros H1 H2 Hd; [exact H2|]. inversion H1 as [|? ? Hx Hl]; subst. cbn. constructor.
  - rewrite in_app_iff. intros [H|H]; [contradiction|]. apply (Hd x); [now left|exact H].
  - apply IH; [exact Hl|exact H2|]. intros y Hy1 Hy2. apply (Hd y); [now right|exact Hy2].
Qed.

Lemma NoDup_bool_vectors k : NoDup (bool_vectors k).
Proof.
  induction k as [|k IH]; cbn [bool_vectors]; [constructor; [intros []|constructor]|].
  assert (Hinj : forall (b : bool) (l : list (list bool)), NoDup l -> NoDup (map (cons b) l)).
  { intros b l Hl. induction Hl as [|x l Hx Hl IHl]; [constructor|]. cbn. constructor; [|exact IHl].
    intros H. apply in_map_iff in H as [y [E Hy]]. injection E as ->. contradiction. }
  apply NoDup_app_disjoint; [now apply Hinj|now apply Hinj|].
  intros x H1 H2. apply in_map_iff in H1 as [y [<- _]]. apply in_map_iff in H2 as [z [E _]]. discriminate.
Qed.

Lemma len_bool_vectors k : len (bool_vectors k) = 2 ^ Z.of_nat k.
Proof.
  induction k as [|k IH]; [reflexivity|]. cbn [bool_vectors]. rewrite len_app. unfold len in *. rewrite !map_length, IH.
  rewrite Nat2Z.inj_succ, Z.pow_succ_r by lia. lia.
Qed.

(* reading a vector back: variable i sits at position i-1 *)
Lemma map_nth_seq {A} (d : A) : forall l, map (fun i => nth i l d) (seq 0 (length l)) = l.
Proof.
  induction l as [|x l IH]; [reflexivity|]. cbn [length seq map nth]. f_equal.
  rewrite <- seq_shift, map_map. exact IH.
Qed.

Lemma rng_as_seq (m : nat) : rng (Z.of_nat m) = map (fun i => 1 + Z.of_nat i) (seq 0 m).
Proof. unfold rng, zrange. replace (Z.to_nat (Z.of_nat m + 1 - 1)) with m by lia. reflexivity. Qed.

Lemma assignment_of_vector bs : map (assignment_of bs) (rng (Z.of_nat (length bs))) = bs.
Proof.
  rewrite rng_as_seq, map_map. transitivity (map (fun i => nth i bs false) (seq 0 (length bs))); [|apply map_nth_seq].
  apply map_ext. intros i. unfold assignment_of. f_equal. lia.
Qed.

Lemma assignment_of_map (a : Z -> bool) (m : nat) v : 1 <= v <= Z.of_nat m ->
  assignment_of (map a (rng (Z.of_nat m))) v = a v.
Proof.
  intros Hv. unfold assignment_of. rewrite rng_as_seq, map_map.
  rewrite (nth_indep _ false (a (1 + Z.of_nat 0))) by (rewrite map_length, seq_length; lia).
  rewrite (map_nth (fun i => a (1 + Z.of_nat i)) (seq 0 m) 0%nat). rewrite seq_nth by lia. f_equal. lia.
Qed.

Lemma vector_ext bs bs' : length bs = length bs' ->
  (forall i, 1 <= i <= Z.of_nat (length bs) -> assignment_of bs i = assignment_of bs' i) -> bs = bs'.
Proof.
  intros Hl H. rewrite <- (assignment_of_vector bs), <- (assignment_of_vector bs'), <- Hl.
  apply map_ext_in. intros i Hi. apply In_rng in Hi. now apply H.
Qed.

(* a function with prescribed values on a duplicate-free list *)
Fixpoint lookup (F : list Z) (gs : list bool) (i : Z) : bool :=
  match F, gs with
  | x :: F', y :: gs' => if i =? x then y else lookup F' gs' i
  | _, _ => false
  end.
Lemma map_lookup : forall F gs, NoDup F -> length F = length gs -> map (lookup F gs) F = gs.
Proof.
  induction F as [|x F IH]; intros [|y gs] Hnd Hl; try discriminate; [reflexivity|].
  inversion Hnd as [|? ? Hx HF]; subst. cbn [map lookup]. rewrite Z.eqb_refl. f_equal.
  transitivity (map (lookup F gs) F); [|apply (IH gs HF); now injection Hl]. apply map_ext_in. intros i Hi.
  destruct (Z.eqb_spec i x) as [->|_]; [contradiction|reflexivity].
Qed.

(* ---------- counting through a set of free positions ---------- *)
Lemma count_by_free (m : nat) (F : list Z) (P : (Z -> bool) -> bool) :
  NoDup F -> (forall i, In i F -> 1 <= i <= Z.of_nat m) ->
  (forall a b, (forall i, 1 <= i <= Z.of_nat m -> a i = b i) -> P a = P b) ->
  (forall g, exists a, P a = true /\ forall i, In i F -> a i = g i) ->
  (forall a b, P a = true -> P b = true -> (forall i, In i F -> a i = b i) ->
     forall i, 1 <= i <= Z.of_nat m -> a i = b i) ->
  len (filter (fun bs => P (assignment_of bs)) (bool_vectors m)) = 2 ^ len F.
Proof.
  intros HF HFr Hext Hex Huniq.
  set (A := filter (fun bs => P (assignment_of bs)) (bool_vectors m)).
  set (f := fun bs : list bool => map (assignment_of bs) F).
  assert (HA : forall bs, In bs A <-> length bs = m /\ P (assignment_of bs) = true).
  { intros bs. unfold A. rewrite filter_In, In_bool_vectors. reflexivity. }
  assert (Hinj : forall x y, In x A -> In y A -> f x = f y -> x = y).
  { intros x y Hx Hy Hxy. apply HA in Hx as [Lx Px]. apply HA in Hy as [Ly Py].
    apply vector_ext; [congruence|]. rewrite Lx. apply (Huniq _ _ Px Py).
    intros i Hi. unfold f in Hxy.
    assert (H : forall l, In i l -> map (assignment_of x) l = map (assignment_of y) l -> assignment_of x i = assignment_of y i).
    { induction l as [|z l IHl]; [intros []|]. cbn [map]. intros [->|Hin] E; injection E as E1 E2; [exact E1|now apply IHl]. }
    now apply (H F). }
  assert (Hnd : NoDup (map f A)).
  { apply NoDup_map_inj_in; [exact Hinj|]. apply NoDup_filter, NoDup_bool_vectors. }
  assert (H1 : incl (map f A) (bool_vectors (length F))).
  { intros gs Hgs. apply in_map_iff in Hgs as [bs [<- _]]. apply In_bool_vectors. unfold f. apply map_length. }
  assert (H2 : incl (bool_vectors (length F)) (map f A)).
  { intros gs Hgs. apply In_bool_vectors in Hgs. destruct (Hex (lookup F gs)) as [a [Pa Ha]].
    apply in_map_iff. exists (map a (rng (Z.of_nat m))). split.
    - unfold f. transitivity (map (lookup F gs) F); [|apply (map_lookup F gs HF (eq_sym Hgs))]. apply map_ext_in. intros i Hi.
      rewrite <- (Ha i Hi).
      apply assignment_of_map. now apply HFr.
    - apply HA. split; [rewrite map_length; unfold rng; rewrite length_zrange; lia|].
      rewrite <- Pa. apply Hext. intros i Hi. now apply assignment_of_map. }
  assert (E : length A = length (bool_vectors (length F))).
  { rewrite <- (map_length f A). apply Nat.le_antisymm.
    - now apply NoDup_incl_length.
    - apply NoDup_incl_length; [apply NoDup_bool_vectors|exact H2]. }
  fold A. unfold len at 1. rewrite E. exact (len_bool_vectors (length F)).
Qed.

(* ---------- Tseitin ---------- *)
(* the component count used in the statement: vertices that represent their class *)
Theorem tseitin_model_count_uf n E ch : 0 <= n -> edges_ok n E = true ->
  (exists a, irs_hold a (tseitin_ir n E ch) = true) ->
  count_models (tseitin_numvar E) (tseitin_ir n E ch) = 2 ^ (len E - n + uf_components n E).
Proof.
  intros Hn Hok Hs. unfold count_models, tseitin_numvar.
  replace (Z.to_nat (len E)) with (length E) by (unfold len; lia).
  rewrite <- (free_edges_count n E Hn Hok).
  apply (count_by_free (length E) (free_edges E) (fun a => irs_hold a (tseitin_ir n E ch))).
  - apply free_edges_NoDup.
  - apply free_edges_range.
  - intros a b Hab. now apply tseitin_ext.
  - intros g. now apply tseitin_extend.
  - intros a b Ha Hb Hf. now apply (tseitin_model_unique n E ch).
Qed.
