(* FamFast.v — an output-identical but pruned version of the CNF rendering [to_cnf].
   Comb.combs l k explores 2^(length l) dead branches when k > length l (every
   "at least 1 of n" constraint ends in such a branch), which makes the extracted
   [to_cnf] unusable beyond ~20 literals.  [combs_fast] returns [] at once when the
   list is shorter than k.  FamFastFacts.to_cnf_f_eq proves  to_cnf_f l = to_cnf l,
   so the driver may answer with [to_cnf_f] while all theorems speak about [to_cnf].
   Definitions only. *)
From Coq Require Import ZArith List Bool.
From Cnfgen Require Import Sem Comb Linear IR.
Import ListNotations.
Open Scope Z_scope.

Fixpoint combs_fast {A} (l : list A) (k : nat) {struct l} : list (list A) :=
  match k with
  | O => [[]]
  | S k' => match l with
            | [] => []
            | x :: t => if Nat.ltb (length l) k then []
                        else map (cons x) (combs_fast t k') ++ combs_fast t (S k')
            end
  end.

Definition add_geq_f (ls : list Z) (k : Z) : cnf :=
  if k <=? 0 then []
  else if k >? len ls then [[]]
  else combs_fast ls (Z.to_nat (len ls - k + 1)).
Definition add_leq_f (ls : list Z) (k : Z) : cnf := add_geq_f (map Z.opp ls) (len ls - k).
Definition add_linear_f (ls : list Z) (o : cop) (k : Z) : cnf :=
  match o with
  | CGe => add_geq_f ls k
  | CLe => add_leq_f ls k
  | CLt => add_leq_f ls (k - 1)
  | CGt => add_geq_f ls (k + 1)
  | CEq => add_leq_f ls k ++ add_geq_f ls k
  | CNe => add_neq ls k
  end.
Definition ir_cnf_f (i : ir) : cnf :=
  match i with
  | IClause c => [c]
  | ILin ls o k => add_linear_f ls o k
  | IParity ls c => add_parity ls c
  | ILooseMaj ls => add_linear_f ls CGe ((len ls + 1) / 2)
  | ILooseMin ls => add_linear_f ls CLe (len ls / 2)
  | IStrictMaj ls => add_linear_f ls CGe (len ls / 2 + 1)
  | IStrictMin ls => add_linear_f ls CLe ((len ls - 1) / 2)
  end.
Definition to_cnf_f (l : list ir) : cnf := flat_map ir_cnf_f l.
