(* RandFacts.v — the random k-CNF / k-XOR samplers of Rand.v return exactly the
   promised shape for every oracle stream (property C13). *)
From Coq Require Import ZArith List Bool Lia ZifyBool Permutation.
From Cnfgen Require Import Sem Comb Linear SemFacts LinearFacts Rand.
Import ListNotations.
Open Scope Z_scope.

(* ---------- boolean tests ---------- *)

Lemma memz_In x l : memz x l = true <-> In x l.
Proof.
  unfold memz. rewrite existsb_exists. split.
  - intros [y [Hy E]]. apply Z.eqb_eq in E. now subst.
  - intros H. exists x. split; [assumption|apply Z.eqb_refl].
Qed.

Lemma zl_eqb_eq : forall a b, zl_eqb a b = true <-> a = b.
Proof.
  induction a as [|x a IH]; intros [|y b]; cbn; split; intros H; try reflexivity; try discriminate.
  - apply andb_true_iff in H as [H1 H2]. apply Z.eqb_eq in H1. apply IH in H2. now subst.
  - inversion H; subst. rewrite Z.eqb_refl. cbn. now apply IH.
Qed.

Lemma mem_zl_In c l : mem_zl c l = true <-> In c l.
Proof.
  unfold mem_zl. rewrite existsb_exists. split.
  - intros [y [Hy E]]. apply zl_eqb_eq in E. now subst.
  - intros H. exists c. split; [assumption|now apply zl_eqb_eq].
Qed.

Lemma mem_zl_false c l : mem_zl c l = false <-> ~ In c l.
Proof. rewrite <- mem_zl_In. destruct (mem_zl c l); split; intros; congruence. Qed.

Lemma nodupb_NoDup l : nodupb l = true -> NoDup l.
Proof.
  induction l as [|x t IH]; cbn; intros H; [constructor|].
  apply andb_true_iff in H as [H1 H2]. constructor; [|auto].
  intros Hin. apply negb_true_iff in H1.
  assert (existsb (Nat.eqb x) t = true) as E.
  { apply existsb_exists. exists x. split; [assumption|apply Nat.eqb_refl]. }
  congruence.
Qed.

Lemma sample_ok_spec p k idx : sample_ok p k idx = true ->
  length idx = k /\ NoDup idx /\ (forall i, In i idx -> (i < p)%nat).
Proof.
  unfold sample_ok. intros H. apply andb_true_iff in H as [H H3]. apply andb_true_iff in H as [H1 H2].
  split; [now apply Nat.eqb_eq|]. split; [now apply nodupb_NoDup|].
  intros i Hi. rewrite forallb_forall in H3. apply Nat.ltb_lt. auto.
Qed.

(* ---------- sorted() ---------- *)

Fixpoint ssorted (l : list Z) : Prop :=
  match l with
  | [] => True
  | x :: t => (forall y, In y t -> x < y) /\ ssorted t
  end.

Lemma ssorted_NoDup l : ssorted l -> NoDup l.
Proof.
  induction l as [|x t IH]; cbn; intros H; constructor.
  - intros Hin. destruct H as [H _]. specialize (H x Hin). lia.
  - apply IH, H.
Qed.

Lemma In_insert_z y x l : In y (insert_z x l) <-> y = x \/ In y l.
Proof.
  induction l as [|z t IH]; cbn.
  - intuition.
  - destruct (x <=? z); cbn; rewrite ?IH; intuition.
Qed.

Lemma length_insert_z x l : length (insert_z x l) = S (length l).
Proof. induction l as [|z t IH]; cbn; [reflexivity|]. destruct (x <=? z); cbn; [reflexivity|now rewrite IH]. Qed.

Lemma sort_z_cons x t : sort_z (x :: t) = insert_z x (sort_z t).
Proof. reflexivity. Qed.

Lemma In_sort_z y l : In y (sort_z l) <-> In y l.
Proof.
  induction l as [|x t IH]; [cbn; tauto|]. rewrite sort_z_cons, In_insert_z, IH. cbn. intuition.
Qed.

Lemma length_sort_z l : length (sort_z l) = length l.
Proof. induction l as [|x t IH]; [reflexivity|]. rewrite sort_z_cons, length_insert_z, IH. reflexivity. Qed.

Lemma ssorted_insert_z x l : ~ In x l -> ssorted l -> ssorted (insert_z x l).
Proof.
  induction l as [|z t IH]; cbn; intros Hn Hs.
  - split; [intros y []|exact I].
  - destruct Hs as [Hz Hs]. destruct (Z.leb_spec x z) as [Hle|Hgt]; cbn.
    + assert (x < z) by (assert (z <> x) by tauto; lia).
      split; [|split; assumption]. intros y [<-|Hy]; [assumption|]. specialize (Hz y Hy). lia.
    + split.
      * intros y Hy. apply In_insert_z in Hy as [->|Hy]; [lia|auto].
      * apply IH; tauto.
Qed.

Lemma ssorted_sort_z l : NoDup l -> ssorted (sort_z l).
Proof.
  induction l as [|x t IH]; intros H; [exact I|]. inversion H as [|? ? Hn Hd]; subst.
  rewrite sort_z_cons. apply ssorted_insert_z; [|auto]. now rewrite In_sort_z.
Qed.

(* ---------- itertools.combinations ---------- *)

Lemma combs_in_sorted : forall L l, ssorted L -> ssorted l -> incl l L -> In l (combs L (length l)).
Proof.
  induction L as [|x t IH]; intros l HL Hl Hincl.
  - destruct l as [|y l]; [now left|]. exfalso. apply (Hincl y). now left.
  - destruct l as [|y l]; [now left|]. cbn [length combs]. apply in_app_iff.
    destruct HL as [Hx HL]. destruct Hl as [Hy Hl].
    destruct (Z.eq_dec y x) as [->|Hne].
    + left. apply in_map. apply IH; [assumption|assumption|].
      intros z Hz. assert (In z (x :: t)) as Hin by (apply Hincl; now right).
      destruct Hin as [<-|Hin]; [|assumption]. specialize (Hy _ Hz). lia.
    + right. change (S (length l)) with (length (y :: l)). apply IH; [assumption|split; assumption|].
      assert (In y t) as Hyt. { destruct (Hincl y (or_introl eq_refl)) as [E|Hin]; [congruence|assumption]. }
      intros z [<-|Hz]; [assumption|].
      destruct (Hincl z (or_intror Hz)) as [<-|Hin]; [|assumption].
      specialize (Hy _ Hz). specialize (Hx _ Hyt). lia.
Qed.

Lemma combs_spec : forall L k d, In d (combs L k) ->
  length d = k /\ incl d L /\ (ssorted L -> ssorted d).
Proof.
  induction L as [|x t IH]; intros k d H.
  - destruct k; cbn in H; [|contradiction]. destruct H as [<-|[]]. repeat split; auto. intros z [].
  - destruct k as [|k]; cbn in H.
    + destruct H as [<-|[]]. repeat split; auto. intros z [].
    + apply in_app_iff in H as [H|H].
      * apply in_map_iff in H as [d' [<- Hd']]. destruct (IH _ _ Hd') as [L1 [L2 L3]].
        split; [cbn; lia|]. split.
        -- intros z [<-|Hz]; [now left|right; auto].
        -- intros [Hx Ht]. split; [|auto]. intros y Hy. apply Hx, L2, Hy.
      * destruct (IH _ _ H) as [L1 [L2 L3]]. split; [assumption|]. split.
        -- intros z Hz. right. auto.
        -- intros [_ Ht]. auto.
Qed.

Lemma NoDup_map_cons {A} (x : A) l : NoDup l -> NoDup (map (cons x) l).
Proof.
  induction 1 as [|y l Hn Hd IH]; cbn; constructor; [|assumption].
  intros Hin. apply in_map_iff in Hin as [z [E Hz]]. inversion E; subst. contradiction.
Qed.

Lemma NoDup_combs : forall L k, ssorted L -> NoDup (combs L k).
Proof.
  induction L as [|x t IH]; intros k HL.
  - destruct k; cbn; [repeat constructor; intros []|constructor].
  - destruct k as [|k]; cbn; [repeat constructor; intros []|].
    destruct HL as [Hx HL].
    assert (forall a, In a (map (cons x) (combs t k)) -> In a (combs t (S k)) -> False) as Hdisj.
    { intros a H1 H2. apply in_map_iff in H1 as [d [<- _]].
      destruct (combs_spec _ _ _ H2) as [_ [Hi _]].
      specialize (Hx x (Hi x (or_introl eq_refl))). lia. }
    revert Hdisj. generalize (NoDup_map_cons x _ (IH k HL)) (IH (S k) HL).
    generalize (map (cons x) (combs t k)) (combs t (S k)). intros l1 l2 N1 N2 Hd.
    induction N1 as [|a l1 Hn N1 IH1]; cbn; [assumption|]. constructor.
    + rewrite in_app_iff. intros [H|H]; [contradiction|]. apply (Hd a); [now left|assumption].
    + apply IH1. intros b Hb. apply Hd. now right.
Qed.

(* ---------- range(1, n+1) ---------- *)

Lemma In_zrange a b x : In x (zrange a b) <-> a <= x < b.
Proof.
  unfold zrange. rewrite in_map_iff. split.
  - intros [i [<- Hi]]. apply in_seq in Hi. lia.
  - intros H. exists (Z.to_nat (x - a)). split; [lia|]. apply in_seq. lia.
Qed.

Lemma ssorted_map_seq a : forall len s, ssorted (map (fun i => a + Z.of_nat i) (seq s len)).
Proof.
  induction len as [|len IH]; intros s; cbn; [exact I|]. split; [|apply IH].
  intros y Hy. apply in_map_iff in Hy as [i [<- Hi]]. apply in_seq in Hi. lia.
Qed.

Lemma In_variables n v : In v (variables n) <-> 1 <= v <= n.
Proof. unfold variables. rewrite In_zrange. lia. Qed.
Lemma ssorted_variables n : ssorted (variables n).
Proof. apply ssorted_map_seq. Qed.
Lemma length_variables n : length (variables n) = Z.to_nat n.
Proof. unfold variables, zrange. rewrite map_length, seq_length. lia. Qed.

(* ---------- itertools.product(l, repeat=k) ---------- *)

Lemma prod_rep_S {A} (L : list A) k : prod_rep L (S k) = flat_map (fun x => map (cons x) (prod_rep L k)) L.
Proof. reflexivity. Qed.

Lemma In_prod_rep {A} (L : list A) : forall k l, In l (prod_rep L k) <-> length l = k /\ (forall x, In x l -> In x L).
Proof.
  induction k as [|k IH]; intros l.
  - cbn. split.
    + intros [<-|[]]. split; [reflexivity|intros x []].
    + intros [H _]. destruct l; [now left|discriminate].
  - rewrite prod_rep_S, in_flat_map. split.
    + intros [x [Hx H]]. apply in_map_iff in H as [l' [<- Hl']]. apply IH in Hl' as [H1 H2].
      split; [cbn; lia|]. intros y [<-|Hy]; auto.
    + intros [H1 H2]. destruct l as [|x l']; [discriminate|]. exists x. split; [apply H2; now left|].
      apply in_map. apply IH. split; [cbn in H1; lia|]. intros y Hy. apply H2. now right.
Qed.

Lemma NoDup_app_disj {A} (l1 l2 : list A) :
  NoDup l1 -> NoDup l2 -> (forall a, In a l1 -> In a l2 -> False) -> NoDup (l1 ++ l2).
Proof.
  intros N1 N2 Hd. induction N1 as [|a l1 Hn N1 IH1]; cbn; [assumption|]. constructor.
  - rewrite in_app_iff. intros [H|H]; [contradiction|]. apply (Hd a); [now left|assumption].
  - apply IH1. intros b Hb. apply Hd. now right.
Qed.

Lemma NoDup_flat_map {A B} (f : A -> list B) l :
  NoDup l -> (forall x, In x l -> NoDup (f x)) ->
  (forall x y z, In x l -> In y l -> In z (f x) -> In z (f y) -> x = y) ->
  NoDup (flat_map f l).
Proof.
  induction 1 as [|x t Hn Hd IH]; intros Hf Hdisj; cbn; [constructor|].
  apply NoDup_app_disj.
  - apply Hf. now left.
  - apply IH; [intros y Hy; apply Hf; now right|].
    intros a b z Ha Hb. apply Hdisj; now right.
  - intros z Hz1 Hz2. apply in_flat_map in Hz2 as [y [Hy Hz2]].
    assert (x = y) by (apply (Hdisj x y z); [now left|now right|assumption|assumption]).
    subst. contradiction.
Qed.

Lemma NoDup_prod_rep {A} (L : list A) : NoDup L -> forall k, NoDup (prod_rep L k).
Proof.
  intros HL. induction k as [|k IH]; [cbn; repeat constructor; intros []|].
  rewrite prod_rep_S. apply NoDup_flat_map; [assumption| |].
  - intros x _. now apply NoDup_map_cons.
  - intros x y z _ _ H1 H2. apply in_map_iff in H1 as [l1 [<- _]]. apply in_map_iff in H2 as [l2 [E _]]. now inversion E.
Qed.

(* ---------- [p*v for p,v in zip(polarity,domain)] ---------- *)

Lemma zipmul_cons p ps v vs : zipmul (p :: ps) (v :: vs) = p * v :: zipmul ps vs.
Proof. reflexivity. Qed.
Lemma zipmul_nil_l vs : zipmul [] vs = []. Proof. reflexivity. Qed.
Lemma zipmul_nil_r ps : zipmul ps [] = []. Proof. destruct ps; reflexivity. Qed.

Lemma zipmul_comm : forall ps vs, zipmul ps vs = zipmul vs ps.
Proof.
  induction ps as [|p ps IH]; intros [|v vs]; try reflexivity.
  rewrite !zipmul_cons, IH. f_equal. lia.
Qed.

Lemma length_zipmul : forall ps vs, length ps = length vs -> length (zipmul ps vs) = length vs.
Proof.
  induction ps as [|p ps IH]; intros [|v vs] H; try discriminate; [reflexivity|].
  rewrite zipmul_cons. cbn [length]. rewrite IH; [reflexivity|]. cbn in H. lia.
Qed.

Lemma zipmul_abs : forall ps vs, length ps = length vs ->
  (forall p, In p ps -> p = -1 \/ p = 1) -> (forall v, In v vs -> 0 < v) ->
  map Z.abs (zipmul ps vs) = vs.
Proof.
  induction ps as [|p ps IH]; intros [|v vs] H Hp Hv; try discriminate; [reflexivity|].
  rewrite zipmul_cons. cbn [map]. f_equal.
  - specialize (Hp p (or_introl eq_refl)). specialize (Hv v (or_introl eq_refl)). destruct Hp; subst; lia.
  - apply IH; [cbn in H; lia| |]; intros; [apply Hp|apply Hv]; now right.
Qed.

Lemma zipmul_inj : forall ps qs vs, length ps = length vs -> length qs = length vs ->
  (forall v, In v vs -> v <> 0) -> zipmul ps vs = zipmul qs vs -> ps = qs.
Proof.
  induction ps as [|p ps IH]; intros [|q qs] [|v vs] H1 H2 Hv E; try discriminate; [reflexivity|].
  rewrite !zipmul_cons in E. inversion E as [[E1 E2]]. f_equal.
  - specialize (Hv v (or_introl eq_refl)). nia.
  - apply (IH qs vs); [cbn in H1; lia|cbn in H2; lia| |assumption]. intros; apply Hv; now right.
Qed.

Lemma zipmul_sgn_abs c : (forall l, In l c -> l <> 0) -> zipmul (map Z.sgn c) (map Z.abs c) = c.
Proof.
  induction c as [|l c IH]; intros H; [reflexivity|]. cbn [map]. rewrite zipmul_cons. f_equal.
  - lia.
  - apply IH. intros; apply H; now right.
Qed.

(* ---------- all_clauses ---------- *)

Definition good_clause (k n : Z) (c : list Z) : Prop :=
  length c = Z.to_nat k /\ ssorted (map Z.abs c) /\ (forall l, In l c -> 1 <= Z.abs l <= n).

Lemma pm1 p : In p [-1; 1] <-> p = -1 \/ p = 1.
Proof. cbn. intuition. Qed.

Lemma all_clauses_spec k n planted c :
  In c (all_clauses k n planted) <-> good_clause k n c /\ clause_satisfied c planted = true.
Proof.
  unfold all_clauses. rewrite in_flat_map. split.
  - intros [dom [Hdom H]]. apply in_flat_map in H as [pol [Hpol H]].
    destruct (clause_satisfied (zipmul pol dom) planted) eqn:Hs; [|destruct H].
    destruct H as [<-|[]]. split; [|assumption].
    apply combs_spec in Hdom as [D1 [D2 D3]]. apply In_prod_rep in Hpol as [P1 P2].
    assert (map Z.abs (zipmul pol dom) = dom) as Habs.
    { apply zipmul_abs; [lia| |]. intros p Hp. now apply pm1, P2.
      intros v Hv. apply D2, In_variables in Hv. lia. }
    unfold good_clause. rewrite Habs. split; [rewrite length_zipmul; lia|]. split; [apply D3, ssorted_variables|].
    intros l Hl. apply In_variables, D2. rewrite <- Habs. now apply in_map.
  - intros [[G1 [G2 G3]] Hs]. exists (map Z.abs c). split.
    + replace (Z.to_nat k) with (length (map Z.abs c)) by (rewrite map_length; assumption).
      apply combs_in_sorted; [apply ssorted_variables|assumption|].
      intros v Hv. apply in_map_iff in Hv as [l [<- Hl]]. apply In_variables. auto.
    + assert (zipmul (map Z.sgn c) (map Z.abs c) = c) as E.
      { apply zipmul_sgn_abs. intros l Hl. specialize (G3 l Hl). lia. }
      apply in_flat_map. exists (map Z.sgn c). split.
      * apply In_prod_rep. split; [rewrite map_length; assumption|].
        intros p Hp. apply in_map_iff in Hp as [l [<- Hl]]. apply pm1. specialize (G3 l Hl). lia.
      * rewrite E, Hs. now left.
Qed.

Lemma NoDup_all_clauses k n planted : NoDup (all_clauses k n planted).
Proof.
  unfold all_clauses. apply NoDup_flat_map.
  - apply NoDup_combs, ssorted_variables.
  - intros dom Hdom. apply combs_spec in Hdom as [D1 [D2 _]]. apply NoDup_flat_map.
    + apply NoDup_prod_rep. repeat constructor; cbn; intuition; discriminate.
    + intros pol _. destruct (clause_satisfied _ _); repeat constructor; intros [].
    + intros p q z Hp Hq H1 H2.
      destruct (clause_satisfied (zipmul p dom) planted); [|destruct H1].
      destruct (clause_satisfied (zipmul q dom) planted); [|destruct H2].
      destruct H1 as [<-|[]]. destruct H2 as [E|[]].
      apply In_prod_rep in Hp as [P1 _]. apply In_prod_rep in Hq as [Q1 _].
      symmetry. apply (zipmul_inj q p dom); [lia|lia| |assumption].
      intros v Hv. apply D2, In_variables in Hv. lia.
  - intros d1 d2 z H1 H2 Hz1 Hz2.
    assert (forall d, In d (combs (variables n) (Z.to_nat k)) ->
                      In z (flat_map (fun polarity => let cls := zipmul polarity d in
                                        if clause_satisfied cls planted then [cls] else []) (prod_rep [-1; 1] (Z.to_nat k))) ->
                      map Z.abs z = d) as Hkey.
    { intros d Hd Hz. apply combs_spec in Hd as [D1 [D2 _]]. apply in_flat_map in Hz as [pol [Hpol Hz]].
      cbn zeta in Hz. destruct (clause_satisfied (zipmul pol d) planted); [|destruct Hz]. destruct Hz as [<-|[]].
      apply In_prod_rep in Hpol as [P1 P2]. apply zipmul_abs; [lia| |].
      - intros p Hp. now apply pm1, P2.
      - intros v Hv. apply D2, In_variables in Hv. lia. }
    rewrite <- (Hkey d1 H1 Hz1). apply Hkey; assumption.
Qed.

(* ---------- the oracle primitives ---------- *)

Lemma NoDup_map_nth {A} (d : A) pop : NoDup pop -> forall idx, NoDup idx ->
  (forall i, In i idx -> (i < length pop)%nat) -> NoDup (map (fun i => nth i pop d) idx).
Proof.
  intros Hpop. induction 1 as [|x t Hn Hd IH]; intros Hlt; cbn; constructor.
  - intros Hin. apply in_map_iff in Hin as [j [E Hj]].
    assert (j = x). { eapply (proj1 (NoDup_nth pop d) Hpop); [apply Hlt; now right|apply Hlt; now left|exact E]. }
    subst. contradiction.
  - apply IH. intros i Hi. apply Hlt. now right.
Qed.

Lemma oracle_sample_ok {A} (d : A) pop k s r s' : oracle_sample d pop k s = ROk (r, s') ->
  length r = k /\ incl r pop /\ (NoDup pop -> NoDup r).
Proof.
  unfold oracle_sample. destruct (Nat.ltb (length pop) k); [discriminate|].
  destruct s as [|[idx|z|z] s0]; try discriminate.
  destruct (sample_ok (length pop) k idx) eqn:E; [|discriminate]. intros H. inversion H; subst.
  apply sample_ok_spec in E as [E1 [E2 E3]]. split; [now rewrite map_length|]. split.
  - intros x Hx. apply in_map_iff in Hx as [i [<- Hi]]. apply nth_In. auto.
  - intros Hp. now apply NoDup_map_nth.
Qed.

Lemma oracle_sample_verr {A} (d : A) pop k s : oracle_sample d pop k s = RValueError -> (length pop < k)%nat.
Proof.
  unfold oracle_sample. destruct (Nat.ltb_spec (length pop) k) as [H|H]; [auto|].
  destruct s as [|[idx|z|z] s0]; try discriminate. destruct (sample_ok _ _ _); discriminate.
Qed.

Lemma oracle_choices_ok l : forall vs s cs s', oracle_choices l vs s = ROk (cs, s') ->
  length cs = length vs /\ (forall c, In c cs -> In c l).
Proof.
  induction vs as [|v vs IH]; intros s cs s' H; cbn in H.
  - inversion H; subst. split; [reflexivity|intros c []].
  - unfold oracle_choice in H. destruct s as [|[idx|z|z] s0]; try discriminate.
    destruct (memz z l) eqn:Hz; [|discriminate].
    destruct (oracle_choices l vs s0) as [[cs1 s1]| | |] eqn:E; try discriminate.
    inversion H; subst. destruct (IH _ _ _ E) as [I1 I2]. split; [cbn; lia|].
    intros c [<-|Hc]; [now apply memz_In|auto].
Qed.

Lemma oracle_choices_verr l : forall vs s, oracle_choices l vs s <> RValueError.
Proof.
  induction vs as [|v vs IH]; intros s; cbn; [discriminate|].
  unfold oracle_choice. destruct s as [|[idx|z|z] s0]; try discriminate.
  destruct (memz z l); [|discriminate].
  specialize (IH s0). destruct (oracle_choices l vs s0) as [[cs1 s1]| | |]; congruence.
Qed.

(* the clause assembled in one round of the rejection loop *)
Lemma sampled_clause_good k n s sel s1 cs s2 :
  oracle_sample 0 (variables n) (Z.to_nat k) s = ROk (sel, s1) ->
  oracle_choices [1; -1] (sort_z sel) s1 = ROk (cs, s2) ->
  good_clause k n (zipmul (sort_z sel) cs).
Proof.
  intros H1 H2. apply oracle_sample_ok in H1 as [S1 [S2 S3]]. specialize (S3 (ssorted_NoDup _ (ssorted_variables n))).
  apply oracle_choices_ok in H2 as [C1 C2]. rewrite length_sort_z in C1.
  assert (map Z.abs (zipmul (sort_z sel) cs) = sort_z sel) as Habs.
  { rewrite zipmul_comm. apply zipmul_abs; [rewrite length_sort_z; lia| |].
    - intros p Hp. specialize (C2 p Hp). cbn in C2. intuition.
    - intros v Hv. apply In_sort_z, S2, In_variables in Hv. lia. }
  unfold good_clause. rewrite Habs. split; [|split].
  - rewrite zipmul_comm, length_zipmul; rewrite length_sort_z; lia.
  - now apply ssorted_sort_z.
  - intros l Hl. apply In_variables, S2, In_sort_z. rewrite <- Habs. now apply in_map.
Qed.

(* ---------- sample_clauses ---------- *)

Lemma len_app1 {A} (l : list A) x : len (l ++ [x]) = len l + 1.
Proof. rewrite len_app. reflexivity. Qed.

Lemma sample_clauses_loop_inv k n m planted : forall fuel sampled clauses s out s',
  (forall c, In c clauses -> In c sampled) -> NoDup clauses ->
  (forall c, In c clauses -> In c (all_clauses k n planted)) -> len clauses <= m ->
  sample_clauses_loop fuel k n m planted sampled clauses s = ROk (out, s') ->
  NoDup out /\ (forall c, In c out -> In c (all_clauses k n planted)) /\ len out <= m.
Proof.
  induction fuel as [|fuel IH]; intros sampled clauses s out s' I1 I2 I3 I4 H; cbn [sample_clauses_loop] in H.
  - inversion H; subst. auto.
  - destruct (len clauses <? m) eqn:Hlt; [|inversion H; subst; auto].
    destruct (oracle_sample 0 (variables n) (Z.to_nat k) s) as [[sel s1]| | |] eqn:E1; try discriminate.
    destruct (oracle_choices [1; -1] (sort_z sel) s1) as [[cs s2]| | |] eqn:E2; try discriminate.
    pose proof (sampled_clause_good _ _ _ _ _ _ _ E1 E2) as Hgood.
    destruct (mem_zl (zipmul (sort_z sel) cs) sampled) eqn:Hmem; [apply (IH sampled clauses s2 out s'); assumption|].
    destruct (clause_satisfied (zipmul (sort_z sel) cs) planted) eqn:Hsat; cbn [negb] in H; [|apply (IH sampled clauses s2 out s'); assumption].
    apply mem_zl_false in Hmem.
    eapply IH; [| | | |exact H].
    + intros c Hc. apply in_app_iff in Hc as [Hc|[<-|[]]]; [right; auto|now left].
    + apply NoDup_app_disj; [assumption|repeat constructor; intros []|].
      intros a Ha [<-|[]]. auto.
    + intros c Hc. apply in_app_iff in Hc as [Hc|[<-|[]]]; [auto|]. apply all_clauses_spec. auto.
    + rewrite len_app1. lia.
Qed.

Lemma sample_clauses_loop_no_verr k n m planted : 0 <= k <= n -> forall fuel sampled clauses s,
  sample_clauses_loop fuel k n m planted sampled clauses s <> RValueError.
Proof.
  intros Hk. induction fuel as [|fuel IH]; intros sampled clauses s; cbn [sample_clauses_loop]; [discriminate|].
  destruct (len clauses <? m); [|discriminate].
  destruct (oracle_sample 0 (variables n) (Z.to_nat k) s) as [[sel s1]| | |] eqn:E1; try discriminate.
  - pose proof (oracle_choices_verr [1; -1] (sort_z sel) s1) as Hc.
    destruct (oracle_choices [1; -1] (sort_z sel) s1) as [[cs s2]| | |]; try congruence.
    destruct (mem_zl _ sampled); [apply IH|]. destruct (negb _); apply IH.
  - apply oracle_sample_verr in E1. rewrite length_variables in E1. lia.
Qed.

Lemma NoDup_incl_len {A} (l l' : list A) : NoDup l -> incl l l' -> len l <= len l'.
Proof. intros N I. unfold len. pose proof (NoDup_incl_length N I). lia. Qed.

Theorem sample_clauses_ok k n m planted s out s' : 0 <= m ->
  sample_clauses k n m planted s = ROk (out, s') ->
  len out = m /\ NoDup out /\ (forall c, In c out -> In c (all_clauses k n planted)).
Proof.
  intros Hm H. unfold sample_clauses in H.
  destruct (sample_clauses_loop _ k n m planted [] [] s) as [[cl s1]| | |] eqn:E; try discriminate.
  apply sample_clauses_loop_inv in E as [L1 [L2 L3]]; [|intros c []|constructor|intros c []|cbn; lia].
  destruct (len cl =? m) eqn:Hlen.
  - inversion H; subst. split; [lia|auto].
  - destruct (len (all_clauses k n planted) <? m) eqn:Hfull; [discriminate|].
    apply oracle_sample_ok in H as [S1 [S2 S3]]. split; [unfold len; lia|]. split; [apply S3, NoDup_all_clauses|auto].
Qed.

Theorem sample_clauses_verr k n m planted s : 0 <= k <= n -> 0 <= m ->
  sample_clauses k n m planted s = RValueError -> len (all_clauses k n planted) < m.
Proof.
  intros Hk Hm H. unfold sample_clauses in H.
  pose proof (sample_clauses_loop_no_verr k n m planted Hk (Z.to_nat (10 * m)) [] [] s) as Hno.
  destruct (sample_clauses_loop _ k n m planted [] [] s) as [[cl s1]| | |] eqn:E; try congruence.
  destruct (len cl =? m); [discriminate|].
  destruct (len (all_clauses k n planted) <? m) eqn:Hfull; [lia|].
  apply oracle_sample_verr in H. unfold len in Hfull. lia.
Qed.

Theorem sample_clauses_too_many k n m planted s : 0 <= m ->
  len (all_clauses k n planted) < m -> forall r, sample_clauses k n m planted s <> ROk r.
Proof.
  intros Hm Hfull [out s'] H. apply sample_clauses_ok in H as [H1 [H2 H3]]; [|assumption].
  pose proof (NoDup_incl_len _ _ H2 H3). lia.
Qed.

(* ---------- RandomKCNF ---------- *)

Theorem random_kcnf_shape k n m planted s nv F rest :
  random_kcnf k n m planted s = ROk (nv, F, rest) ->
  nv = n /\ len F = m /\ NoDup F /\
  (forall c, In c F -> good_clause k n c /\ clause_satisfied c planted = true).
Proof.
  unfold random_kcnf. destruct ((n <? 0) || (m <? 0) || (k <? 0)) eqn:Hneg; [discriminate|].
  destruct (k >? n); [discriminate|].
  destruct (sample_clauses k n m planted s) as [[cl s1]| | |] eqn:E; try discriminate.
  intros H. inversion H; subst. apply sample_clauses_ok in E as [E1 [E2 E3]]; [|lia].
  split; [reflexivity|]. split; [assumption|]. split; [assumption|].
  intros c Hc. now apply all_clauses_spec, E3.
Qed.

Definition kcnf_must_fail (k n m : Z) (planted : list (list Z)) : Prop :=
  n < 0 \/ m < 0 \/ k < 0 \/ k > n \/ m > len (all_clauses k n planted).

Theorem random_kcnf_verr k n m planted s :
  random_kcnf k n m planted s = RValueError -> kcnf_must_fail k n m planted.
Proof.
  unfold random_kcnf, kcnf_must_fail. destruct ((n <? 0) || (m <? 0) || (k <? 0)) eqn:Hneg; [lia|].
  destruct (k >? n) eqn:Hkn; [lia|].
  destruct (sample_clauses k n m planted s) as [[cl s1]| | |] eqn:E; try discriminate.
  intros _. apply sample_clauses_verr in E; lia.
Qed.

Theorem random_kcnf_must_fail k n m planted s :
  kcnf_must_fail k n m planted -> forall r, random_kcnf k n m planted s <> ROk r.
Proof.
  unfold random_kcnf, kcnf_must_fail. intros Hc r.
  destruct ((n <? 0) || (m <? 0) || (k <? 0)) eqn:Hneg; [discriminate|].
  destruct (k >? n) eqn:Hkn; [discriminate|].
  assert (len (all_clauses k n planted) < m) as Hfull by lia.
  pose proof (sample_clauses_too_many k n m planted s ltac:(lia) Hfull) as Hno.
  destruct (sample_clauses k n m planted s) as [[cl s1]| | |]; try discriminate.
  exfalso. now apply (Hno (cl, s1)).
Qed.

(* k > n or a negative argument is rejected before anything is drawn *)
Theorem random_kcnf_bad_args k n m planted s :
  n < 0 \/ m < 0 \/ k < 0 \/ k > n -> random_kcnf k n m planted s = RValueError.
Proof.
  unfold random_kcnf. intros H. destruct ((n <? 0) || (m <? 0) || (k <? 0)) eqn:Hneg; [reflexivity|].
  destruct (k >? n) eqn:Hkn; [reflexivity|lia].
Qed.

(* ---------- planted assignments as assignments ---------- *)

Lemma lit_in_planted_true n p l : total_consistent n p -> 1 <= Z.abs l <= n ->
  memz l p = true -> lit_true (asg_of p) l = true.
Proof.
  intros Hp Hl Hin. unfold lit_true, asg_of. destruct (Z.gtb_spec l 0) as [G|G]; [assumption|].
  destruct (Hp (- l) ltac:(lia)) as [_ Hc]. rewrite Z.opp_involutive in Hc.
  destruct (memz (- l) p); [exfalso; auto|reflexivity].
Qed.

Lemma clause_satisfied_sem n planted c p : (forall l, In l c -> 1 <= Z.abs l <= n) ->
  clause_satisfied c planted = true -> In p planted -> total_consistent n p ->
  clause_sat (asg_of p) c = true.
Proof.
  intros Hc Hs Hp Ht. unfold clause_satisfied in Hs. rewrite forallb_forall in Hs. specialize (Hs p Hp).
  apply existsb_exists in Hs as [l [Hl Hm]]. apply clause_sat_true_iff. exists l. split; [assumption|].
  eapply lit_in_planted_true; eauto.
Qed.

Theorem random_kcnf_planted_sat k n m planted s nv F rest p :
  random_kcnf k n m planted s = ROk (nv, F, rest) -> In p planted -> total_consistent n p ->
  cnf_sat (asg_of p) F = true.
Proof.
  intros H Hp Ht. apply random_kcnf_shape in H as [_ [_ [_ H]]]. apply cnf_sat_true_iff. intros c Hc.
  destruct (H c Hc) as [[_ [_ G]] Hs]. eapply clause_satisfied_sem; eauto.
Qed.

(* ====================================================================== *)
(* ---------- randomkxor.py ---------- *)

Lemma parity_value_total n p : total_on n p -> forall X, (forall v, In v X -> 1 <= v <= n) -> parity_value X p <> None.
Proof.
  intros Hp. induction X as [|x t IH]; intros HX; cbn [parity_value]; [discriminate|].
  assert (parity_value t p <> None) as Ht by (apply IH; intros; apply HX; now right).
  destruct (Hp x (HX x (or_introl eq_refl))) as [E|E].
  - rewrite E. destruct (parity_value t p); [discriminate|congruence].
  - destruct (memz x p); [destruct (parity_value t p); [discriminate|congruence]|]. rewrite E. assumption.
Qed.

Lemma parity_value_count p : forall X v, (forall x, In x X -> 0 < x) ->
  parity_value X p = Some v -> v = count_true (asg_of p) X.
Proof.
  induction X as [|x t IH]; intros v HX H; cbn [parity_value] in H.
  - inversion H. reflexivity.
  - cbn [count_true]. rewrite lit_true_pos by (apply HX; now left). unfold asg_of at 1.
    assert (forall y, In y t -> 0 < y) as Ht by (intros; apply HX; now right).
    destruct (memz x p).
    + destruct (parity_value t p) as [v'|] eqn:E; [|discriminate]. cbn in H. inversion H; subst.
      rewrite (IH v' Ht eq_refl). reflexivity.
    + destruct (memz (- x) p); [|discriminate]. rewrite (IH v Ht H). reflexivity.
Qed.

Lemma parity_satisfied_total n planted X b : (forall p, In p planted -> total_on n p) ->
  (forall v, In v X -> 1 <= v <= n) -> parity_satisfied X b planted <> None.
Proof.
  intros Hpl HX. induction planted as [|p rest IH]; cbn [parity_satisfied]; [discriminate|].
  pose proof (parity_value_total n p (Hpl p (or_introl eq_refl)) X HX) as Hv.
  destruct (parity_value X p) as [v|]; [|congruence].
  destruct (negb (v mod 2 =? b)); [discriminate|]. apply IH. intros; apply Hpl; now right.
Qed.

Lemma parity_satisfied_sem planted X b p : (forall x, In x X -> 0 < x) ->
  parity_satisfied X b planted = Some true -> In p planted -> count_true (asg_of p) X mod 2 = b.
Proof.
  intros HX. induction planted as [|q rest IH]; intros H Hp; [destruct Hp|].
  cbn [parity_satisfied] in H. destruct (parity_value X q) as [v|] eqn:E; [|discriminate].
  destruct (v mod 2 =? b) eqn:Hb; cbn [negb] in H; [|discriminate].
  destruct Hp as [<-|Hp]; [|auto]. rewrite <- (parity_value_count q X v HX E). lia.
Qed.

Definition good_par (k n : Z) (planted : list (list Z)) (X : list Z) (b : Z) : Prop :=
  In X (combs (variables n) (Z.to_nat k)) /\ (b = 0 \/ b = 1) /\ parity_satisfied X b planted = Some true.

Lemma good_parities_spec planted : forall doms full, good_parities doms planted = Some full ->
  forall X b, In (X, b) full <-> In X doms /\ (b = 0 \/ b = 1) /\ parity_satisfied X b planted = Some true.
Proof.
  induction doms as [|X0 t IH]; intros full H X b; cbn [good_parities] in H.
  - inversion H; subst. cbn. tauto.
  - destruct (parity_satisfied X0 0 planted) as [b0|] eqn:E0; [|discriminate].
    destruct (parity_satisfied X0 1 planted) as [b1|] eqn:E1; [|discriminate].
    destruct (good_parities t planted) as [r|] eqn:Er; [|discriminate].
    inversion H; subst. rewrite !in_app_iff, (IH r eq_refl X b). cbn [In]. split.
    + intros [HA|[HB|HR]].
      * destruct b0; [|destruct HA]. destruct HA as [HA|[]]. inversion HA; subst. auto.
      * destruct b1; [|destruct HB]. destruct HB as [HB|[]]. inversion HB; subst. auto.
      * tauto.
    + intros [[<-|Hin] [Hb Hs]]; [|tauto]. destruct Hb as [->| ->].
      * left. rewrite E0 in Hs. inversion Hs; subst. now left.
      * right; left. rewrite E1 in Hs. inversion Hs; subst. now left.
Qed.

Lemma NoDup_good_parities planted : forall doms full, NoDup doms -> good_parities doms planted = Some full -> NoDup full.
Proof.
  induction doms as [|X0 t IH]; intros full Hd H; cbn [good_parities] in H.
  - inversion H. constructor.
  - destruct (parity_satisfied X0 0 planted) as [b0|]; [|discriminate].
    destruct (parity_satisfied X0 1 planted) as [b1|]; [|discriminate].
    destruct (good_parities t planted) as [r|] eqn:Er; [|discriminate].
    inversion H; subst. inversion Hd as [|? ? Hn Hd']; subst.
    assert (forall b, ~ In (X0, b) r) as Hr.
    { intros b Hin. apply (good_parities_spec planted t r Er) in Hin as [Hin _]. contradiction. }
    apply NoDup_app_disj; [destruct b0; repeat constructor; intros []| |].
    + apply NoDup_app_disj; [destruct b1; repeat constructor; intros []|now apply IH|].
      intros a Ha Hb. destruct b1; [|destruct Ha]. destruct Ha as [<-|[]]. now apply (Hr 1).
    + intros a Ha Hb. destruct b0; [|destruct Ha]. destruct Ha as [<-|[]].
      apply in_app_iff in Hb as [Hb|Hb]; [|now apply (Hr 0)].
      destruct b1; [|destruct Hb]. destruct Hb as [Hb|[]]. discriminate.
Qed.

Lemma good_parities_total planted : forall doms,
  (forall X b, In X doms -> parity_satisfied X b planted <> None) -> good_parities doms planted <> None.
Proof.
  induction doms as [|X0 t IH]; intros H; cbn [good_parities]; [discriminate|].
  pose proof (H X0 0 (or_introl eq_refl)). pose proof (H X0 1 (or_introl eq_refl)).
  destruct (parity_satisfied X0 0 planted); [|congruence].
  destruct (parity_satisfied X0 1 planted); [|congruence].
  assert (good_parities t planted <> None) by (apply IH; intros; apply H; now right).
  destruct (good_parities t planted); [discriminate|congruence].
Qed.

Lemma all_good_parities_total k n planted : (forall p, In p planted -> total_on n p) ->
  exists full, all_good_parities k n planted = Some full.
Proof.
  intros Hpl. unfold all_good_parities.
  destruct (good_parities (combs (variables n) (Z.to_nat k)) planted) as [full|] eqn:E; [now exists full|].
  exfalso. revert E. apply good_parities_total. intros X b HX. apply (parity_satisfied_total n); [assumption|].
  intros v Hv. apply combs_spec in HX as [_ [HX _]]. now apply In_variables, HX.
Qed.

Lemma all_good_parities_spec k n planted full : all_good_parities k n planted = Some full ->
  forall X b, In (X, b) full <-> good_par k n planted X b.
Proof. intros H X b. unfold good_par. now apply good_parities_spec. Qed.

Lemma NoDup_all_good_parities k n planted full : all_good_parities k n planted = Some full -> NoDup full.
Proof. apply NoDup_good_parities, NoDup_combs, ssorted_variables. Qed.

Lemma oracle_randint_ok a b s z s' : oracle_randint a b s = ROk (z, s') -> a <= z <= b.
Proof.
  unfold oracle_randint. destruct s as [|[idx|c|c] s0]; try discriminate.
  destruct ((a <=? c) && (c <=? b)) eqn:E; [|discriminate]. intros H. inversion H; subst. lia.
Qed.
Lemma oracle_randint_verr a b s : oracle_randint a b s <> RValueError.
Proof. unfold oracle_randint. destruct s as [|[idx|c|c] s0]; try discriminate. destruct (_ && _); discriminate. Qed.

Lemma sampled_domain k n s sel s1 :
  oracle_sample 0 (variables n) (Z.to_nat k) s = ROk (sel, s1) ->
  In (sort_z sel) (combs (variables n) (Z.to_nat k)).
Proof.
  intros H. apply oracle_sample_ok in H as [S1 [S2 S3]]. specialize (S3 (ssorted_NoDup _ (ssorted_variables n))).
  rewrite <- S1, <- (length_sort_z sel). apply combs_in_sorted; [apply ssorted_variables|now apply ssorted_sort_z|].
  intros v Hv. apply S2. now apply In_sort_z.
Qed.

Lemma sample_parities_loop_inv k n m planted : forall fuel sset (slist : list parity) s (out : list parity) s',
  (forall X b, In (X, b) slist -> In (X ++ [b]) sset) -> NoDup slist ->
  (forall X b, In (X, b) slist -> good_par k n planted X b) -> len slist <= m ->
  sample_parities_loop fuel k n m planted sset slist s = ROk (out, s') ->
  NoDup out /\ (forall X b, In (X, b) out -> good_par k n planted X b) /\ len out <= m.
Proof.
  induction fuel as [|fuel IH]; intros sset slist s out s' I1 I2 I3 I4 H; cbn [sample_parities_loop] in H.
  - inversion H; subst. auto.
  - destruct (len slist <? m) eqn:Hlt; [|inversion H; subst; auto].
    destruct (oracle_sample 0 (variables n) (Z.to_nat k) s) as [[sel s1]| | |] eqn:E1; try discriminate.
    destruct (oracle_randint 0 1 s1) as [[b s2]| | |] eqn:E2; try discriminate.
    apply sampled_domain in E1. apply oracle_randint_ok in E2.
    destruct (mem_zl (sort_z sel ++ [b]) sset) eqn:Hmem; [apply (IH sset slist s2 out s'); assumption|].
    destruct (parity_satisfied (sort_z sel) b planted) as [[|]|] eqn:Hsat; [| apply (IH sset slist s2 out s'); assumption|discriminate].
    apply mem_zl_false in Hmem.
    eapply IH; [| | | |exact H].
    + intros X c Hc. apply in_app_iff in Hc as [Hc|[Hc|[]]]; [right; auto|]. inversion Hc; subst. now left.
    + apply NoDup_app_disj; [assumption|repeat constructor; intros []|].
      intros [X c] Ha [Hb|[]]. inversion Hb; subst. auto.
    + intros X c Hc. apply in_app_iff in Hc as [Hc|[Hc|[]]]; [auto|]. inversion Hc; subst.
      unfold good_par. split; [assumption|]. split; [lia|assumption].
    + rewrite len_app1. lia.
Qed.

Lemma sample_parities_loop_no_verr k n m planted : 0 <= k <= n ->
  (forall p, In p planted -> total_on n p) -> forall fuel sset (slist : list parity) s,
  sample_parities_loop fuel k n m planted sset slist s <> RValueError.
Proof.
  intros Hk Hpl. induction fuel as [|fuel IH]; intros sset slist s; cbn [sample_parities_loop]; [discriminate|].
  destruct (len slist <? m); [|discriminate].
  destruct (oracle_sample 0 (variables n) (Z.to_nat k) s) as [[sel s1]| | |] eqn:E1; try discriminate.
  - pose proof (oracle_randint_verr 0 1 s1) as Hc.
    destruct (oracle_randint 0 1 s1) as [[b s2]| | |]; try congruence.
    destruct (mem_zl _ sset); [apply IH|].
    assert (parity_satisfied (sort_z sel) b planted <> None) as Hs.
    { apply (parity_satisfied_total n); [assumption|]. intros v Hv.
      apply sampled_domain in E1. apply combs_spec in E1 as [_ [E1 _]]. now apply In_variables, E1. }
    destruct (parity_satisfied (sort_z sel) b planted) as [[|]|]; [apply IH|apply IH|congruence].
  - apply oracle_sample_verr in E1. rewrite length_variables in E1. lia.
Qed.

Theorem sample_parities_ok k n m planted s out s' : 0 <= m ->
  sample_parities k n m planted s = ROk (out, s') ->
  len out = m /\ NoDup out /\ (forall X b, In (X, b) out -> good_par k n planted X b).
Proof.
  intros Hm H. unfold sample_parities in H.
  destruct (sample_parities_loop _ k n m planted [] [] s) as [[sl s1]| | |] eqn:E; try discriminate.
  apply sample_parities_loop_inv in E as [L1 [L2 L3]]; [|intros X b []|constructor|intros X b []|cbn; lia].
  destruct (len sl >=? m) eqn:Hlen.
  - inversion H; subst. split; [lia|auto].
  - destruct (all_good_parities k n planted) as [full|] eqn:Efull; [|discriminate].
    destruct (len full <? m) eqn:Hfull; [discriminate|].
    apply oracle_sample_ok in H as [S1 [S2 S3]]. split; [unfold len; lia|].
    split; [eapply S3, NoDup_all_good_parities; eassumption|].
    intros X b Hin. apply (all_good_parities_spec k n planted full Efull), S2, Hin.
Qed.

Theorem sample_parities_verr k n m planted s : 0 <= k <= n -> 0 <= m ->
  (forall p, In p planted -> total_on n p) ->
  sample_parities k n m planted s = RValueError ->
  forall full, all_good_parities k n planted = Some full -> len full < m.
Proof.
  intros Hk Hm Hpl H full Efull. unfold sample_parities in H.
  pose proof (sample_parities_loop_no_verr k n m planted Hk Hpl (Z.to_nat (10 * m)) [] [] s) as Hno.
  destruct (sample_parities_loop _ k n m planted [] [] s) as [[sl s1]| | |] eqn:E; try congruence.
  destruct (len sl >=? m); [discriminate|]. rewrite Efull in H.
  destruct (len full <? m) eqn:Hfull; [lia|].
  apply oracle_sample_verr in H. unfold len in Hfull. lia.
Qed.

Theorem sample_parities_too_many k n m planted s full : 0 <= m ->
  all_good_parities k n planted = Some full -> len full < m ->
  forall r, sample_parities k n m planted s <> ROk r.
Proof.
  intros Hm Efull Hfull [out s'] H. apply sample_parities_ok in H as [H1 [H2 H3]]; [|assumption].
  assert (incl out full) as Hi.
  { intros [X b] Hin. apply (all_good_parities_spec k n planted full Efull). auto. }
  pose proof (NoDup_incl_len _ _ H2 Hi). lia.
Qed.

(* ---------- RandomKXOR ---------- *)

Definition parity_shape (k n : Z) (X : list Z) (b : Z) : Prop :=
  length X = Z.to_nat k /\ ssorted X /\ (forall v, In v X -> 1 <= v <= n) /\ (b = 0 \/ b = 1).

Lemma good_par_shape k n planted X b : good_par k n planted X b -> parity_shape k n X b.
Proof.
  intros [H1 [H2 _]]. apply combs_spec in H1 as [C1 [C2 C3]]. unfold parity_shape.
  split; [assumption|]. split; [apply C3, ssorted_variables|]. split; [|assumption].
  intros v Hv. now apply In_variables, C2.
Qed.

Theorem random_kxor_shape k n m planted s nv ps F rest :
  random_kxor k n m planted s = ROk (nv, ps, F, rest) ->
  nv = n /\ len ps = m /\ NoDup ps /\ F = xor_clauses ps /\
  (forall X b, In (X, b) ps -> parity_shape k n X b /\ parity_satisfied X b planted = Some true).
Proof.
  unfold random_kxor. destruct ((n <? 0) || (m <? 0) || (k <? 0)) eqn:Hneg; [discriminate|].
  destruct (k >? n); [discriminate|].
  destruct (sample_parities k n m planted s) as [[sl s1]| | |] eqn:E; try discriminate.
  intros H. inversion H; subst. apply sample_parities_ok in E as [E1 [E2 E3]]; [|lia].
  split; [reflexivity|]. split; [assumption|]. split; [assumption|]. split; [reflexivity|].
  intros X b Hin. specialize (E3 X b Hin). split; [eapply good_par_shape; eassumption|apply E3].
Qed.

Definition kxor_must_fail (k n m : Z) (planted : list (list Z)) : Prop :=
  n < 0 \/ m < 0 \/ k < 0 \/ k > n \/
  exists full, all_good_parities k n planted = Some full /\ m > len full.

Theorem random_kxor_verr k n m planted s : (forall p, In p planted -> total_on n p) ->
  random_kxor k n m planted s = RValueError -> kxor_must_fail k n m planted.
Proof.
  unfold random_kxor, kxor_must_fail. intros Hpl. destruct ((n <? 0) || (m <? 0) || (k <? 0)) eqn:Hneg; [lia|].
  destruct (k >? n) eqn:Hkn; [lia|].
  destruct (sample_parities k n m planted s) as [[sl s1]| | |] eqn:E; try discriminate.
  intros _. destruct (all_good_parities_total k n planted Hpl) as [full Efull].
  right; right; right; right. exists full. split; [assumption|].
  pose proof (sample_parities_verr k n m planted s ltac:(lia) ltac:(lia) Hpl E full Efull). lia.
Qed.

Theorem random_kxor_must_fail k n m planted s :
  kxor_must_fail k n m planted -> forall r, random_kxor k n m planted s <> ROk r.
Proof.
  unfold random_kxor, kxor_must_fail. intros Hc r.
  destruct ((n <? 0) || (m <? 0) || (k <? 0)) eqn:Hneg; [discriminate|].
  destruct (k >? n) eqn:Hkn; [discriminate|].
  destruct Hc as [Hc|[Hc|[Hc|[Hc|[full [Efull Hfull]]]]]]; try lia.
  pose proof (sample_parities_too_many k n m planted s full ltac:(lia) Efull ltac:(lia)) as Hno.
  destruct (sample_parities k n m planted s) as [[sl s1]| | |]; try discriminate.
  exfalso. now apply (Hno (sl, s1)).
Qed.

Theorem random_kxor_bad_args k n m planted s :
  n < 0 \/ m < 0 \/ k < 0 \/ k > n -> random_kxor k n m planted s = RValueError.
Proof.
  unfold random_kxor. intros H. destruct ((n <? 0) || (m <? 0) || (k <? 0)) eqn:Hneg; [reflexivity|].
  destruct (k >? n) eqn:Hkn; [reflexivity|lia].
Qed.

(* the clauses of the XOR formula mean the linear system *)
Definition parity_holds (a : Z -> bool) (Xb : parity) : bool := eqb (parity_of a (fst Xb)) (snd Xb =? 1).

Lemma lits_ok_pos X : (forall v, In v X -> 0 < v) -> lits_ok X = true.
Proof.
  intros H. unfold lits_ok. apply forallb_forall. intros v Hv. apply nonzero_spec. specialize (H v Hv). lia.
Qed.

Lemma xor_clauses_sem a ps : (forall X b, In (X, b) ps -> forall v, In v X -> 0 < v) ->
  cnf_sat a (xor_clauses ps) = forallb (parity_holds a) ps.
Proof.
  intros H. unfold xor_clauses. rewrite cnf_sat_flat_map. apply forallb_ext_in. intros [X b] Hin.
  cbn [fst snd]. unfold parity_holds. cbn [fst snd]. apply add_parity_sem, lits_ok_pos. eauto.
Qed.

Theorem random_kxor_sem k n m planted s nv ps F rest a :
  random_kxor k n m planted s = ROk (nv, ps, F, rest) ->
  cnf_sat a F = forallb (parity_holds a) ps.
Proof.
  intros H. apply random_kxor_shape in H as [_ [_ [_ [-> H]]]]. apply xor_clauses_sem.
  intros X b Hin v Hv. destruct (H X b Hin) as [[_ [_ [Hr _]]] _]. specialize (Hr v Hv). lia.
Qed.

Lemma odd_mod2 c b : c mod 2 = b -> eqb (Z.odd c) (b =? 1) = true.
Proof.
  intros H. rewrite Zodd_mod. unfold Zeq_bool. rewrite H.
  destruct (Z.compare_spec b 1); destruct (Z.eqb_spec b 1); try reflexivity; lia.
Qed.

Theorem random_kxor_planted_sat k n m planted s nv ps F rest p :
  random_kxor k n m planted s = ROk (nv, ps, F, rest) -> In p planted ->
  cnf_sat (asg_of p) F = true.
Proof.
  intros H Hp. rewrite (random_kxor_sem _ _ _ _ _ _ _ _ _ (asg_of p) H).
  apply random_kxor_shape in H as [_ [_ [_ [_ H]]]]. apply forallb_forall. intros [X b] Hin.
  destruct (H X b Hin) as [[_ [_ [Hr _]]] Hs]. unfold parity_holds. cbn [fst snd].
  rewrite parity_of_count. apply odd_mod2. apply (parity_satisfied_sem planted); [|assumption|assumption].
  intros x Hx. specialize (Hr x Hx). lia.
Qed.

(* ---------- the command line helpers: --plant draws a total assignment ---------- *)

Lemma abs_sorted_consistent : forall p, ssorted (map Z.abs p) -> forall v, 0 < v -> ~ (In v p /\ In (- v) p).
Proof.
  induction p as [|x p IH]; intros Hs v Hv [H1 H2]; [destruct H1|].
  cbn [map ssorted] in Hs. destruct Hs as [Hx Hs].
  assert (forall l, In l p -> Z.abs x < Z.abs l) as Hx' by (intros l Hl; apply Hx; now apply in_map).
  destruct H1 as [<-|H1]; destruct H2 as [E|H2].
  - lia.
  - specialize (Hx' _ H2). lia.
  - subst x. specialize (Hx' _ H1). lia.
  - apply (IH Hs v Hv). auto.
Qed.

Lemma plant_total_consistent n s p s1 : plant n s = ROk (p, s1) -> total_consistent n p.
Proof.
  unfold plant. destruct (oracle_choices [-1; 1] (variables n) s) as [[cs s2]| | |] eqn:E; try discriminate.
  intros H. inversion H; subst. apply oracle_choices_ok in E as [C1 C2].
  assert (map Z.abs (zipmul cs (variables n)) = variables n) as Habs.
  { apply zipmul_abs; [assumption| |].
    - intros c Hc. now apply pm1, C2.
    - intros v Hv. apply In_variables in Hv. lia. }
  intros v Hv. split.
  - assert (In v (map Z.abs (zipmul cs (variables n)))) as Hin by (rewrite Habs; now apply In_variables).
    apply in_map_iff in Hin as [l [El Hl]].
    destruct (Z.abs_spec l) as [[_ Ea]|[_ Ea]].
    + left. apply memz_In. congruence.
    + right. apply memz_In. replace (- v) with l by lia. assumption.
  - rewrite !memz_In. apply abs_sorted_consistent; [|lia]. rewrite Habs. apply ssorted_variables.
Qed.

Theorem rand_cmd_plain k n m s : rand_cmd k n m false s = random_kcnf k n m [] s.
Proof. reflexivity. Qed.
Theorem randxor_cmd_plain k n m s : randxor_cmd k n m false s = random_kxor k n m [] s.
Proof. reflexivity. Qed.

Theorem rand_cmd_planted k n m s nv F rest :
  rand_cmd k n m true s = ROk (nv, F, rest) ->
  exists p s1, total_consistent n p /\ random_kcnf k n m [p] s1 = ROk (nv, F, rest) /\ cnf_sat (asg_of p) F = true.
Proof.
  unfold rand_cmd. destruct (plant n s) as [[p s1]| | |] eqn:E; try discriminate.
  intros H. exists p, s1. pose proof (plant_total_consistent _ _ _ _ E) as Ht.
  split; [assumption|]. split; [assumption|].
  eapply random_kcnf_planted_sat; [exact H|now left|assumption].
Qed.

Theorem randxor_cmd_planted k n m s nv ps F rest :
  randxor_cmd k n m true s = ROk (nv, ps, F, rest) ->
  exists p s1, total_consistent n p /\ random_kxor k n m [p] s1 = ROk (nv, ps, F, rest) /\ cnf_sat (asg_of p) F = true.
Proof.
  unfold randxor_cmd. destruct (plant n s) as [[p s1]| | |] eqn:E; try discriminate.
  intros H. exists p, s1. pose proof (plant_total_consistent _ _ _ _ E) as Ht.
  split; [assumption|]. split; [assumption|].
  eapply random_kxor_planted_sat; [exact H|now left].
Qed.

(* a clause over k distinct variables, in the words of the property *)
Lemma good_clause_distinct k n c : good_clause k n c ->
  len c = Z.max 0 k /\ NoDup (map Z.abs c) /\ (forall l, In l c -> 1 <= Z.abs l <= n).
Proof. intros [H1 [H2 H3]]. split; [unfold len; lia|]. split; [now apply ssorted_NoDup|assumption]. Qed.
Lemma parity_shape_distinct k n X b : parity_shape k n X b ->
  len X = Z.max 0 k /\ NoDup X /\ (forall v, In v X -> 1 <= v <= n) /\ (b = 0 \/ b = 1).
Proof. intros [H1 [H2 [H3 H4]]]. split; [unfold len; lia|]. split; [now apply ssorted_NoDup|auto]. Qed.

Theorem random_kcnf_shape_plain k n m planted s nv F rest :
  random_kcnf k n m planted s = ROk (nv, F, rest) ->
  nv = n /\ len F = m /\ NoDup F /\
  (forall c, In c F ->
     len c = k /\ NoDup (map Z.abs c) /\ (forall l, In l c -> 1 <= Z.abs l <= n) /\
     clause_satisfied c planted = true).
Proof.
  intros H. assert (0 <= k) as Hk.
  { destruct (Z.ltb_spec k 0) as [Hk|Hk]; [|assumption]. exfalso.
    apply (random_kcnf_must_fail k n m planted s) with (r := (nv, F, rest)); [unfold kcnf_must_fail; lia|assumption]. }
  apply random_kcnf_shape in H as [H1 [H2 [H3 H4]]]. repeat split; try assumption; destruct (H4 c H) as [G S]; try assumption;
    apply good_clause_distinct in G as [G1 [G2 G3]]; try assumption; try lia. now apply G3. now apply G3.
Qed.

Theorem random_kxor_shape_plain k n m planted s nv ps F rest :
  random_kxor k n m planted s = ROk (nv, ps, F, rest) ->
  nv = n /\ len ps = m /\ NoDup ps /\ F = xor_clauses ps /\
  (forall X b, In (X, b) ps ->
     len X = k /\ NoDup X /\ (forall v, In v X -> 1 <= v <= n) /\ (b = 0 \/ b = 1) /\
     parity_satisfied X b planted = Some true).
Proof.
  intros H. assert (0 <= k) as Hk.
  { destruct (Z.ltb_spec k 0) as [Hk|Hk]; [|assumption]. exfalso.
    apply (random_kxor_must_fail k n m planted s) with (r := (nv, ps, F, rest)); [unfold kxor_must_fail; lia|assumption]. }
  apply random_kxor_shape in H as [H1 [H2 [H3 [H4 H5]]]].
  split; [assumption|]. split; [assumption|]. split; [assumption|]. split; [assumption|].
  intros X b Hin. destruct (H5 X b Hin) as [G S]. apply parity_shape_distinct in G as [G1 [G2 [G3 G4]]].
  split; [lia|]. auto.
Qed.
