(* GraphIOSound.v -- what the readers accept and which exceptions they can raise.
   Lemmas with suffix _gen hold for both revisions of the code (boolean af of GraphIO.v); the statements without
   suffix are about the current code, those with suffix _as_found about the code before the repairs of D6/D7/D8. *)
From Coq Require Import ZArith List Bool Lia ZifyBool Ascii.
From Coq Require String.
From Cnfgen Require Import GText GraphIO GTextFacts GraphIOFacts GraphIOMatrix GraphIODimacs GraphIOKth.
Import ListNotations.
Open Scope Z_scope.

Lemma lines_nonnil s : Forall (fun l => l <> []) (gt_lines s).
Proof.
  induction s as [|c t IH]; [constructor|]. cbn [gt_lines]. destruct (Ascii.eqb c gt_nl).
  - constructor; [discriminate|exact IH].
  - destruct (gt_lines t) as [|l ls]; [repeat constructor; discriminate|].
    inversion IH; subst. constructor; [discriminate|assumption].
Qed.

Ltac break_match :=
  repeat match goal with
         | |- context [match ?x with _ => _ end] => destruct x eqn:?
         end.

(* ---------- exceptions of the kthlist readers ---------- *)
Lemma kth_line_exn size l e : l <> [] -> gio_kth_line size l = GRaise e -> e = EValueError.
Proof.
  intros Hne. unfold gio_kth_line. destruct l as [|c t]; [congruence|].
  break_match; intros H; inversion H; reflexivity.
Qed.

Lemma kth_skip_any s1 s2 l : gio_kth_line s1 l = GOk KISkip -> gio_kth_line s2 l = GOk KISkip.
Proof.
  unfold gio_kth_line. destruct l as [|c t]; [discriminate|].
  destruct (Ascii.eqb c gt_c); [reflexivity|]. destruct (gt_is_nil (gt_strip (c :: t))); [reflexivity|].
  break_match; intros H; discriminate.
Qed.
Lemma kth_skip_of size l : gio_kth_line size l = GOk KISkip -> kth_skip l.
Proof. intros H s2. eapply kth_skip_any; eauto. Qed.

Lemma kth_line_size_inv size l n : gio_kth_line size l = GOk (KISize n) -> 0 <= n /\ size < 0.
Proof.
  unfold gio_kth_line. destruct l as [|c t]; [discriminate|].
  break_match; intros H; inversion H; subst; lia.
Qed.

Lemma kth_line_adj_inv size l v nb : gio_kth_line size l = GOk (KIAdj v nb) ->
  1 <= v <= size /\ Forall (fun x => 1 <= x <= size) nb.
Proof.
  unfold gio_kth_line. destruct l as [|c t]; [discriminate|].
  break_match; intros H; inversion H; subst. split; [lia|].
  apply Forall_forall. intros x Hx.
  match goal with K : existsb _ _ = false |- _ => rename K into Hex end.
  assert (Hx' : ((x <? 1) || (x >? size)) = false).
  { destruct ((x <? 1) || (x >? size)) eqn:E; [|reflexivity]. exfalso.
    assert (existsb (fun x0 => (x0 <? 1) || (x0 >? size)) (removelast l1) = true) by (apply existsb_exists; eauto). congruence. }
  lia.
Qed.

Lemma kth_next_exn : forall ls e, Forall (fun l => l <> []) ls -> gio_kth_next ls = GRaise e ->
  e = EValueError \/ (e = EStopIteration /\ Forall kth_skip ls).
Proof.
  induction ls as [|l t IH]; intros e HF H.
  - inversion H. right. split; [reflexivity|constructor].
  - inversion HF as [|x y Hl Ht]; subst. cbn [gio_kth_next] in H.
    destruct (gio_kth_line (-1) l) as [[| n | v nb]|e1] eqn:E.
    + destruct (IH e Ht H) as [->|[-> Hs]]; [left; reflexivity|right]. split; [reflexivity|].
      constructor; [eapply kth_skip_of; eauto|exact Hs].
    + discriminate.
    + inversion H. left; reflexivity.
    + inversion H; subst. left. eapply kth_line_exn; eauto.
Qed.

Lemma kth_next_ok : forall ls n rest, gio_kth_next ls = GOk (n, rest) ->
  exists skips sl, ls = skips ++ sl :: rest /\ Forall kth_skip skips /\ gio_kth_line (-1) sl = GOk (KISize n) /\ 0 <= n.
Proof.
  induction ls as [|l t IH]; intros n rest H; [discriminate|]. cbn [gio_kth_next] in H.
  destruct (gio_kth_line (-1) l) as [[| n' | v nb]|e1] eqn:E; try discriminate.
  - destruct (IH n rest H) as (skips & sl & -> & Hs & Hl & Hn). exists (l :: skips), sl.
    split; [reflexivity|]. split; [constructor; [eapply kth_skip_of; eauto|exact Hs]|]. split; assumption.
  - inversion H; subst. exists [], l. split; [reflexivity|]. split; [constructor|]. split; [exact E|].
    now apply kth_line_size_inv in E.
Qed.

(* the header of both revisions: the first yield of the generator when there is one *)
Lemma kth_header_gen_ok af ls n rest : gio_kth_header_gen af ls = GOk (n, rest) -> gio_kth_next ls = GOk (n, rest).
Proof. unfold gio_kth_header_gen. destruct (gio_kth_next ls) as [a|[]]; try destruct af; congruence. Qed.
Lemma kth_header_ok af ls n rest : gio_kth_header_gen af ls = GOk (n, rest) ->
  exists skips sl, ls = skips ++ sl :: rest /\ Forall kth_skip skips /\ gio_kth_line (-1) sl = GOk (KISize n) /\ 0 <= n.
Proof. intros H. apply kth_next_ok. eapply kth_header_gen_ok; eauto. Qed.
(* current code: StopIteration never leaves the header *)
Lemma kth_header_exn ls e : Forall (fun l => l <> []) ls -> gio_kth_header ls = GRaise e -> e = EValueError.
Proof.
  intros HF. unfold gio_kth_header, gio_kth_header_gen. destruct (gio_kth_next ls) as [a|e1] eqn:E; [discriminate|].
  destruct (kth_next_exn _ _ HF E) as [->|[-> _]]; intros H; now inversion H.
Qed.
Lemma kth_header_exn_as_found ls e : Forall (fun l => l <> []) ls -> gio_kth_header_as_found ls = GRaise e ->
  e = EValueError \/ (e = EStopIteration /\ Forall kth_skip ls).
Proof.
  intros HF. unfold gio_kth_header_as_found, gio_kth_header_gen. destruct (gio_kth_next ls) as [a|e1] eqn:E; [discriminate|].
  destruct (kth_next_exn _ _ HF E) as [->|[-> Hs]]; intros H; inversion H; subst; auto.
Qed.

(* the adjacency rows of a list of lines *)
Definition kth_rows (size : Z) (ls : list gt_str) : list (Z * list Z) :=
  flat_map (fun l => match gio_kth_line size l with GOk (KIAdj v nb) => [(v, nb)] | _ => [] end) ls.

Lemma kth_body_inv size : forall ls prev G G', gio_wf G -> gio_kth_body size ls prev G = GOk G' ->
  rows_inc prev (kth_rows size ls) /\
  G' = gio_with_edges G (insert_all (map (edge_norm (io_kind G)) (flat_map row_edges (kth_rows size ls))) (io_edges G)) /\
  gio_wf G'.
Proof.
  induction ls as [|l t IH]; intros prev G G' Hwf H.
  - inversion H; subst. split; [exact I|]. split; [|exact Hwf]. cbn. now rewrite with_edges_self.
  - cbn [gio_kth_body] in H. unfold kth_rows. cbn [flat_map]. fold (kth_rows size t).
    destruct (gio_kth_line size l) as [[| n' | v nb]|e1] eqn:E; try discriminate.
    + cbn [app]. now apply IH.
    + destruct (v <=? prev) eqn:Ev; [discriminate|].
      destruct (gio_add_edges G (map (fun v0 => (v0, v)) nb)) as [G1|] eqn:Ea; [|discriminate]. cbn [gio_bind] in H.
      pose proof (add_edges_wf _ _ _ Hwf Ea) as Hwf1. apply add_edges_inv in Ea as [Hok ->].
      destruct (IH v _ G' Hwf1 H) as (Hinc & -> & Hwf'). cbn [app rows_inc fst flat_map].
      split; [split; [lia|exact Hinc]|]. split; [|exact Hwf'].
      rewrite with_edges_twice, with_edges_kind, with_edges_edges. rewrite map_app, insert_all_app. reflexivity.
Qed.

Lemma kth_body_exn size : forall ls prev G e, Forall (fun l => l <> []) ls -> gio_kth_body size ls prev G = GRaise e -> e = EValueError.
Proof.
  induction ls as [|l t IH]; intros prev G e HF H; [discriminate|]. inversion HF as [|x y Hl Ht]; subst.
  cbn [gio_kth_body] in H. destruct (gio_kth_line size l) as [[| n' | v nb]|e1] eqn:E.
  - eauto.
  - now inversion H.
  - destruct (v <=? prev); [now inversion H|].
    destruct (gio_add_edges G (map (fun v0 => (v0, v)) nb)) as [G1|e2] eqn:Ea; cbn [gio_bind] in H.
    + eauto.
    + inversion H; subst. eapply add_edges_exn; eauto.
  - inversion H; subst. eapply kth_line_exn; eauto.
Qed.

Lemma new_wf k name n : k <> GioBipartite -> 0 <= n -> gio_wf (mkIOG k name n 0 []).
Proof. intros Hk Hn. unfold gio_wf. cbn. repeat split; auto; try lia. constructor. Qed.

(* reader soundness, simple and directed kthlist: the accepted text is comment/blank lines, one size line,
   then rows with strictly increasing vertex; the graph has that size and exactly the listed edges *)
Theorem kth_sound_gen af k text G : k <> GioBipartite -> gio_read_kth_gen af k text = GOk G ->
  exists skips sl rest n,
    gt_lines text = skips ++ sl :: rest /\ Forall kth_skip skips /\ gio_kth_line (-1) sl = GOk (KISize n) /\
    io_kind G = k /\ io_n G = n /\ io_r G = 0 /\ gio_wf G /\
    rows_inc 0 (kth_rows n rest) /\
    (forall a b, In (a, b) (io_edges G) <->
                 exists r u, In r (kth_rows n rest) /\ In u (snd r) /\ (a, b) = edge_norm k (u, fst r)).
Proof.
  intros Hk H. unfold gio_read_kth_gen in H.
  destruct (gio_kth_header_gen af (gt_lines text)) as [[n rest]|] eqn:Eh; [|discriminate]. cbn [gio_bind fst snd] in H.
  destruct (kth_header_ok _ _ _ _ Eh) as (skips & sl & Hls & Hs & Hl & Hn).
  rewrite new_ok in H by lia. cbn [gio_bind] in H.
  apply kth_body_inv in H as (Hinc & -> & Hwf); [|now apply new_wf].
  exists skips, sl, rest, n. cbn [io_kind io_n io_r io_edges gio_with_edges] in *.
  repeat (split; [assumption || reflexivity|]).
  intros a b. rewrite insert_all_In. cbn [In]. split.
  - intros [Hin|[]]. apply in_map_iff in Hin as [[u v] [Hx Hin]]. apply in_flat_map in Hin as [r [Hr Hin]].
    unfold row_edges in Hin. apply in_map_iff in Hin as [u' [Hu' Hin]]. inversion Hu'; subst. eauto.
  - intros (r & u & Hr & Hu & Hx). left. apply in_map_iff. exists (u, fst r). split; [now symmetry|].
    apply in_flat_map. exists r. split; [exact Hr|]. unfold row_edges. apply in_map_iff. eauto.
Qed.

Theorem kth_sound k text G : k <> GioBipartite -> gio_read_kth k text = GOk G ->
  exists skips sl rest n,
    gt_lines text = skips ++ sl :: rest /\ Forall kth_skip skips /\ gio_kth_line (-1) sl = GOk (KISize n) /\
    io_kind G = k /\ io_n G = n /\ io_r G = 0 /\ gio_wf G /\
    rows_inc 0 (kth_rows n rest) /\
    (forall a b, In (a, b) (io_edges G) <->
                 exists r u, In r (kth_rows n rest) /\ In u (snd r) /\ (a, b) = edge_norm k (u, fst r)).
Proof. exact (kth_sound_gen false k text G). Qed.

(* which exceptions the reader can raise.  [P e] is what is known of an exception of the header *)
Lemma kth_exn_gen af (P : gio_exn -> Prop) k text e :
  (forall e, gio_kth_header_gen af (gt_lines text) = GRaise e -> P e) -> P EValueError ->
  gio_read_kth_gen af k text = GRaise e -> P e.
Proof.
  unfold gio_read_kth_gen. intros HP HV H. pose proof (lines_nonnil text) as Hne.
  destruct (gio_kth_header_gen af (gt_lines text)) as [[n rest]|e1] eqn:Eh; cbn [gio_bind fst snd] in H.
  - assert (e = EValueError); [|now subst].
    destruct (gio_new k (gio_kth_name (gt_lines text)) n 0) as [G0|e2] eqn:En; cbn [gio_bind] in H.
    + destruct (kth_header_ok _ _ _ _ Eh) as (skips & sl & Hls & _). rewrite Hls in Hne.
      apply Forall_app in Hne as [_ Hne]. inversion Hne; subst. eapply kth_body_exn; eauto.
    + inversion H; subst. eapply new_exn; eauto.
  - inversion H; subst. now apply HP.
Qed.

(* current code: ValueError only, for every text *)
Theorem kth_exn k text e : gio_read_kth k text = GRaise e -> e = EValueError.
Proof.
  apply (kth_exn_gen false (fun e => e = EValueError)); [|reflexivity].
  intros e0 H. eapply kth_header_exn; [apply lines_nonnil|exact H].
Qed.
(* as found: ValueError, or StopIteration exactly when no line is a size line *)
Theorem kth_exn_as_found k text e : gio_read_kth_as_found k text = GRaise e ->
  e = EValueError \/ (e = EStopIteration /\ Forall kth_skip (gt_lines text)).
Proof.
  apply (kth_exn_gen true (fun e => e = EValueError \/ (e = EStopIteration /\ Forall kth_skip (gt_lines text)))); [|now left].
  intros e0 H. eapply kth_header_exn_as_found; [apply lines_nonnil|exact H].
Qed.

(* ---------- bipartite kthlist ---------- *)
Definition dict_fold (rows d : list (Z * list Z)) : list (Z * list Z) :=
  fold_left (fun d r => gio_dict_set (fst r) (snd r) d) rows d.

Lemma kthb_body_inv af size : forall ls prev lo hi d lo' d', gio_kthb_body_gen af size ls prev lo hi d = GOk (lo', d') ->
  d' = dict_fold (kth_rows size ls) d.
Proof.
  induction ls as [|l t IH]; intros prev lo hi d lo' d' H.
  - inversion H; subst. reflexivity.
  - cbn [gio_kthb_body_gen] in H. unfold kth_rows. cbn [flat_map]. fold (kth_rows size t).
    destruct (gio_kth_line size l) as [[| n' | v nb]|e1] eqn:E; try discriminate.
    + cbn [app]. eauto.
    + destruct (v <=? prev); [discriminate|]. destruct (v >? hi); [discriminate|].
      destruct (gio_kthb_scan nb (Z.max lo (v + 1)) hi) as [hi'|]; [|discriminate].
      apply IH in H. subst d'. reflexivity.
Qed.

(* current code: the left vertices of the rows increase strictly *)
Lemma kthb_body_inc size : forall ls prev lo hi d lo' d', gio_kthb_body_gen false size ls prev lo hi d = GOk (lo', d') ->
  rows_inc prev (kth_rows size ls).
Proof.
  induction ls as [|l t IH]; intros prev lo hi d lo' d' H; [exact I|].
  cbn [gio_kthb_body_gen] in H. unfold kth_rows. cbn [flat_map]. fold (kth_rows size t).
  destruct (gio_kth_line size l) as [[| n' | v nb]|e1] eqn:E; try discriminate.
  - cbn [app]. eauto.
  - destruct (v <=? prev) eqn:Ev; [discriminate|]. destruct (v >? hi); [discriminate|].
    destruct (gio_kthb_scan nb (Z.max lo (v + 1)) hi) as [hi'|]; [|discriminate].
    apply IH in H. cbn [app rows_inc fst]. split; [lia|exact H].
Qed.

Lemma rows_inc_lower : forall rows prev, rows_inc prev rows -> forall r, In r rows -> prev < fst r.
Proof.
  induction rows as [|r0 t IH]; intros prev H r Hin; [destruct Hin|]. destruct H as [H1 H2].
  destruct Hin as [<-|Hin]; [exact H1|]. specialize (IH _ H2 _ Hin). lia.
Qed.
Lemma rows_inc_NoDup : forall rows prev, rows_inc prev rows -> NoDup (map fst rows).
Proof.
  induction rows as [|r0 t IH]; intros prev H; [constructor|]. destruct H as [H1 H2]. cbn [map]. constructor; [|eauto].
  intros Hin. apply in_map_iff in Hin as [r [Hr Hin]]. pose proof (rows_inc_lower _ _ H2 _ Hin). lia.
Qed.

Lemma dict_fold_distinct : forall rows d, NoDup (map fst d ++ map fst rows) -> dict_fold rows d = d ++ rows.
Proof.
  induction rows as [|r t IH]; intros d Hnd; [cbn; now rewrite app_nil_r|].
  cbn [dict_fold fold_left]. fold (dict_fold t (gio_dict_set (fst r) (snd r) d)).
  cbn [map] in Hnd. rewrite dict_set_new.
  - rewrite IH.
    + rewrite <- app_assoc. cbn [app]. now destruct r.
    + rewrite map_app. cbn [map]. rewrite <- app_assoc. exact Hnd.
  - apply NoDup_remove_2 in Hnd. intros Hin. apply Hnd. apply in_or_app. now left.
Qed.

Lemma kthb_body_exn af size : forall ls prev lo hi d e, Forall (fun l => l <> []) ls ->
  gio_kthb_body_gen af size ls prev lo hi d = GRaise e -> e = EValueError.
Proof.
  induction ls as [|l t IH]; intros prev lo hi d e HF H; [discriminate|]. inversion HF as [|x y Hl Ht]; subst.
  cbn [gio_kthb_body_gen] in H. destruct (gio_kth_line size l) as [[| n' | v nb]|e1] eqn:E.
  - eauto.
  - now inversion H.
  - destruct (v <=? prev); [now inversion H|]. destruct (v >? hi); [now inversion H|].
    destruct (gio_kthb_scan nb (Z.max lo (v + 1)) hi); [eauto|now inversion H].
  - inversion H; subst. eapply kth_line_exn; eauto.
Qed.

Lemma new_bip_wf name n r : 0 <= n -> 0 <= r -> gio_wf (mkIOG GioBipartite name n r []).
Proof. intros Hn Hr. unfold gio_wf. cbn. split; [lia|]. split; [lia|]. split; [congruence|]. split; constructor. Qed.

(* reader soundness for bipartite kthlist, both revisions.  The edge characterisation needs the left
   vertices to be listed once each; the current code guarantees it (kthb_sound), the code as found does
   not: it never updates `previous` (defect D8, see kthb_sound_refuted). *)
Theorem kthb_sound_gen af text G : gio_read_kthb_gen af text = GOk G ->
  exists skips sl rest n,
    gt_lines text = skips ++ sl :: rest /\ Forall kth_skip skips /\ gio_kth_line (-1) sl = GOk (KISize n) /\
    io_kind G = GioBipartite /\ io_n G + io_r G = n /\ gio_wf G /\
    (af = false -> rows_inc 0 (kth_rows n rest)) /\
    (NoDup (map fst (kth_rows n rest)) ->
     forall a b, In (a, b) (io_edges G) <->
                 exists r v, In r (kth_rows n rest) /\ In v (snd r) /\ a = fst r /\ b = v - io_n G).
Proof.
  intros H. unfold gio_read_kthb_gen in H.
  destruct (gio_kth_header_gen af (gt_lines text)) as [[n rest]|] eqn:Eh; [|discriminate]. cbn [gio_bind fst snd] in H.
  destruct (kth_header_ok _ _ _ _ Eh) as (skips & sl & Hls & Hs & Hl & Hn).
  destruct (gio_kthb_body_gen af n rest 0 1 n []) as [[lo d]|] eqn:Eb; [|discriminate]. cbn [gio_bind fst snd] in H.
  destruct (gio_new GioBipartite (gio_kth_name (gt_lines text)) (lo - 1) (n - lo + 1)) as [G0|] eqn:En; [|discriminate].
  cbn [gio_bind] in H. apply new_inv in En as (HL & HR & ->).
  pose proof (add_edges_wf _ _ _ (new_bip_wf _ _ _ HL HR) H) as Hwf.
  apply add_edges_inv in H as [Hok ->].
  assert (Hinc : af = false -> rows_inc 0 (kth_rows n rest)).
  { intros ->. eapply kthb_body_inc; eauto. }
  apply kthb_body_inv in Eb. subst d.
  exists skips, sl, rest, n. cbn [io_kind io_n io_r io_edges gio_with_edges] in *.
  repeat (split; [assumption || reflexivity || lia|]).
  intros Hnd a b. rewrite dict_fold_distinct by exact Hnd. cbn [app]. rewrite insert_all_In. cbn [In].
  unfold gio_dict_edges. split.
  - intros [Hin|[]]. apply in_map_iff in Hin as [[u v] [Hx Hin]]. cbn in Hx. inversion Hx; subst.
    apply in_flat_map in Hin as [r [Hr Hin]]. apply in_map_iff in Hin as [w [Hw Hin]]. inversion Hw; subst.
    exists r, w. repeat split; assumption || reflexivity.
  - intros (r & v & Hr & Hv & -> & ->). left. apply in_map_iff. exists (fst r, v - (lo - 1)). split; [reflexivity|].
    apply in_flat_map. exists r. split; [exact Hr|]. apply in_map_iff. eauto.
Qed.

(* current code: an accepted text is comment/blank lines, one size line n, then rows "u : v1 ... vk 0" with strictly
   increasing left vertex u; the two sides add up to n and the edges are exactly the listed pairs (u, v - L) *)
Theorem kthb_sound text G : gio_read_kthb text = GOk G ->
  exists skips sl rest n,
    gt_lines text = skips ++ sl :: rest /\ Forall kth_skip skips /\ gio_kth_line (-1) sl = GOk (KISize n) /\
    io_kind G = GioBipartite /\ io_n G + io_r G = n /\ gio_wf G /\
    rows_inc 0 (kth_rows n rest) /\
    (forall a b, In (a, b) (io_edges G) <->
                 exists r v, In r (kth_rows n rest) /\ In v (snd r) /\ a = fst r /\ b = v - io_n G).
Proof.
  intros H. destruct (kthb_sound_gen false text G H) as (skips & sl & rest & n & A & B & C & D & E & F & Hinc & Hed).
  exists skips, sl, rest, n. specialize (Hinc eq_refl). repeat (split; [assumption|]).
  apply Hed. eapply rows_inc_NoDup; eauto.
Qed.

Theorem kthb_sound_as_found_partial text G : gio_read_kthb_as_found text = GOk G ->
  exists skips sl rest n,
    gt_lines text = skips ++ sl :: rest /\ Forall kth_skip skips /\ gio_kth_line (-1) sl = GOk (KISize n) /\
    io_kind G = GioBipartite /\ io_n G + io_r G = n /\ gio_wf G /\
    (NoDup (map fst (kth_rows n rest)) ->
     forall a b, In (a, b) (io_edges G) <->
                 exists r v, In r (kth_rows n rest) /\ In v (snd r) /\ a = fst r /\ b = v - io_n G).
Proof.
  intros H. destruct (kthb_sound_gen true text G H) as (skips & sl & rest & n & A & B & C & D & E & F & _ & Hed).
  exists skips, sl, rest, n. repeat (split; [assumption|]). exact Hed.
Qed.

Lemma kthb_exn_gen af (P : gio_exn -> Prop) text e :
  (forall e, gio_kth_header_gen af (gt_lines text) = GRaise e -> P e) -> P EValueError ->
  gio_read_kthb_gen af text = GRaise e -> P e.
Proof.
  unfold gio_read_kthb_gen. intros HP HV H. pose proof (lines_nonnil text) as Hne.
  destruct (gio_kth_header_gen af (gt_lines text)) as [[n rest]|e1] eqn:Eh; cbn [gio_bind fst snd] in H.
  - assert (e = EValueError); [|now subst].
    destruct (gio_kthb_body_gen af n rest 0 1 n []) as [[lo d]|e2] eqn:Eb; cbn [gio_bind fst snd] in H.
    + destruct (gio_new GioBipartite (gio_kth_name (gt_lines text)) (lo - 1) (n - lo + 1)) as [G0|e3] eqn:En; cbn [gio_bind] in H.
      * eapply add_edges_exn; eauto.
      * inversion H; subst. eapply new_exn; eauto.
    + inversion H; subst. destruct (kth_header_ok _ _ _ _ Eh) as (skips & sl & Hls & _). rewrite Hls in Hne.
      apply Forall_app in Hne as [_ Hne]. inversion Hne; subst. eapply kthb_body_exn; eauto.
  - inversion H; subst. now apply HP.
Qed.

Theorem kthb_exn text e : gio_read_kthb text = GRaise e -> e = EValueError.
Proof.
  apply (kthb_exn_gen false (fun e => e = EValueError)); [|reflexivity].
  intros e0 H. eapply kth_header_exn; [apply lines_nonnil|exact H].
Qed.
Theorem kthb_exn_as_found text e : gio_read_kthb_as_found text = GRaise e ->
  e = EValueError \/ (e = EStopIteration /\ Forall kth_skip (gt_lines text)).
Proof.
  apply (kthb_exn_gen true (fun e => e = EValueError \/ (e = EStopIteration /\ Forall kth_skip (gt_lines text)))); [|now left].
  intros e0 H. eapply kth_header_exn_as_found; [apply lines_nonnil|exact H].
Qed.

(* ---------- dimacs ---------- *)
(* token-level reading of one line: the problem line "p edge n m", an edge line "e u v" *)
Inductive dm_class := DBlank | DComment | DProblem | DEdge | DOther.
Definition dm_kind (raw : gt_str) : dm_class :=
  match gt_strip raw with
  | [] => DBlank
  | c :: _ => if Ascii.eqb c gt_c then DComment else if Ascii.eqb c gt_p then DProblem
              else if Ascii.eqb c gt_e then DEdge else DOther
  end.
Definition dm_ppair (raw : gt_str) : option (Z * Z) :=
  match dm_kind raw with
  | DProblem =>
    match gt_split_ws (gt_strip raw) with
    | [_; fmt; ns; ms] =>
      if gt_str_eqb fmt gio_edge_word then
        match gt_int ns, gt_int ms with Some n, Some m => Some (n, m) | _, _ => None end
      else None
    | _ => None
    end
  | _ => None
  end.
Definition dm_epair (raw : gt_str) : option (Z * Z) :=
  match dm_kind raw with
  | DEdge =>
    match gt_split_ws (gt_strip raw) with
    | [_; v; w] => match gt_int v, gt_int w with Some a, Some b => Some (a, b) | _, _ => None end
    | _ => None
    end
  | _ => None
  end.
Definition opt_list {A} (o : option A) : list A := match o with Some a => [a] | None => [] end.
Definition dm_ppairs (ls : list gt_str) : list (Z * Z) := flat_map (fun l => opt_list (dm_ppair l)) ls.
Definition dm_epairs (ls : list gt_str) : list (Z * Z) := flat_map (fun l => opt_list (dm_epair l)) ls.

Lemma dm_line_inv af k st raw st' : gio_dimacs_line_gen af k st raw = GOk st' ->
  (dm_ppair raw = None /\ dm_epair raw = None /\ ds_G st' = ds_G st /\ ds_m st' = ds_m st /\ ds_cnt st' = ds_cnt st)
  \/ (exists n m, dm_ppair raw = Some (n, m) /\ dm_epair raw = None /\ ds_G st = None /\ 0 <= n /\
                  ds_G st' = Some (mkIOG k (ds_name st) n 0 []) /\ ds_m st' = m /\ ds_cnt st' = ds_cnt st)
  \/ (exists G e, dm_epair raw = Some e /\ dm_ppair raw = None /\ ds_G st = Some G /\ edge_ok G e /\
                  ds_G st' = Some (gio_with_edges G (gio_insert (edge_norm (io_kind G) e) (io_edges G))) /\
                  ds_m st' = ds_m st /\ ds_cnt st' = ds_cnt st + 1).
Proof.
  unfold gio_dimacs_line_gen, dm_ppair, dm_epair, dm_kind.
  destruct (gt_strip raw) as [|c t] eqn:Es.
  { destruct af; [discriminate|]. intros H. inversion H; subst. left. auto. }
  destruct (Ascii.eqb c gt_c) eqn:Ec.
  { intros H. inversion H; subst. left. cbn. auto. }
  destruct (Ascii.eqb c gt_p) eqn:Ep.
  { destruct (ds_G st) eqn:EG; [discriminate|].
    destruct (gt_split_ws (c :: t)) as [|t0 [|fmt [|ns [|ms [|x y]]]]]; try discriminate.
    destruct (gt_str_eqb fmt gio_edge_word); cbn [negb]; [|discriminate].
    destruct (gt_int ns) as [n|]; [|discriminate]. destruct (gt_int ms) as [m|]; [|discriminate].
    destruct (gio_new k (ds_name st) n 0) as [G0|] eqn:En; [|discriminate]. cbn [gio_bind].
    intros H. inversion H; subst. apply new_inv in En as (Hn & _ & ->).
    right. left. exists n, m. cbn. auto 10. }
  destruct (Ascii.eqb c gt_e) eqn:Ee.
  { destruct (ds_G st) as [G|] eqn:EG; [|discriminate].
    destruct (gt_split_ws (c :: t)) as [|t0 [|v [|w [|x y]]]]; try discriminate.
    destruct (gt_int v) as [a|]; [|discriminate]. destruct (gt_int w) as [b|]; [|discriminate].
    destruct (gio_add_edge G a b) as [G'|] eqn:Ea; [|discriminate].
    intros H. inversion H; subst. apply add_edge_inv in Ea as [Hok ->].
    right. right. exists G, (a, b). cbn. auto 10. }
  intros H. inversion H; subst. left. auto.
Qed.

Lemma dm_line_exn af k st raw e : gio_dimacs_line_gen af k st raw = GRaise e ->
  e = EValueError \/ (af = true /\ e = EIndexError /\ gt_strip raw = []).
Proof.
  unfold gio_dimacs_line_gen, gio_bind. destruct (gt_strip raw) as [|c t] eqn:Es.
  - destruct af; [|discriminate]. intros H. inversion H. right. auto.
  - break_match; intros H; inversion H; subst; left; try reflexivity.
    match goal with K : gio_new _ _ _ _ = GRaise _ |- _ => now apply new_exn in K end.
Qed.

Lemma with_edges_wf G es : gio_wf G -> Forall (edge_ok G) es ->
  gio_wf (gio_with_edges G (insert_all (map (edge_norm (io_kind G)) es) (io_edges G))).
Proof. intros Hwf Hok. eapply add_edges_wf; [exact Hwf|]. now apply add_edges_ok. Qed.

(* the loop once the graph exists *)
Lemma dm_loop_some af k : forall ls st st' G, ds_G st = Some G -> gio_dimacs_loop_gen af k st ls = GOk st' ->
  dm_ppairs ls = [] /\ ds_m st' = ds_m st /\ ds_cnt st' = ds_cnt st + Z.of_nat (length (dm_epairs ls)) /\
  Forall (edge_ok G) (dm_epairs ls) /\
  ds_G st' = Some (gio_with_edges G (insert_all (map (edge_norm (io_kind G)) (dm_epairs ls)) (io_edges G))).
Proof.
  induction ls as [|l t IH]; intros st st' G HG H.
  - inversion H; subst. cbn. rewrite with_edges_self. repeat split; auto; try lia.
  - cbn [gio_dimacs_loop_gen] in H. destruct (gio_dimacs_line_gen af k st l) as [st1|] eqn:El; [|discriminate]. cbn [gio_bind] in H.
    unfold dm_ppairs, dm_epairs. cbn [flat_map]. fold (dm_ppairs t) (dm_epairs t).
    destruct (dm_line_inv _ _ _ _ _ El) as [(Hp & He & HG1 & Hm & Hc)|[(n & m & _ & _ & HN & _)|(G1 & e & He & Hp & HG1 & Hok & HG' & Hm & Hc)]].
    + rewrite Hp, He. cbn [opt_list app]. rewrite HG in HG1. destruct (IH _ _ _ HG1 H) as (A & B & C & D & E).
      repeat split; auto; congruence || lia.
    + congruence.
    + rewrite Hp, He. cbn [opt_list app length map]. rewrite HG in HG1. inversion HG1; subst G1.
      destruct (IH _ _ _ HG' H) as (A & B & C & D & E). rewrite with_edges_kind, with_edges_edges, with_edges_twice in E.
      split; [exact A|]. split; [congruence|]. split; [lia|]. split.
      * constructor; [exact Hok|]. eapply Forall_impl; [|exact D]. intros x Hx. now apply edge_ok_with_edges in Hx.
      * rewrite insert_all_cons. exact E.
Qed.

(* the loop from the initial state *)
Lemma dm_loop_none af k : forall ls st st', ds_G st = None -> gio_dimacs_loop_gen af k st ls = GOk st' ->
  (dm_ppairs ls = [] /\ ds_G st' = None /\ ds_m st' = ds_m st /\ ds_cnt st' = ds_cnt st)
  \/ (exists n m nm, dm_ppairs ls = [(n, m)] /\ 0 <= n /\ ds_m st' = m /\
        ds_cnt st' = ds_cnt st + Z.of_nat (length (dm_epairs ls)) /\
        Forall (edge_ok (mkIOG k nm n 0 [])) (dm_epairs ls) /\
        ds_G st' = Some (gio_with_edges (mkIOG k nm n 0 []) (insert_all (map (edge_norm k) (dm_epairs ls)) []))).
Proof.
  induction ls as [|l t IH]; intros st st' HG H.
  - inversion H; subst. left. cbn. auto.
  - cbn [gio_dimacs_loop_gen] in H. destruct (gio_dimacs_line_gen af k st l) as [st1|] eqn:El; [|discriminate]. cbn [gio_bind] in H.
    unfold dm_ppairs, dm_epairs. cbn [flat_map]. fold (dm_ppairs t) (dm_epairs t).
    destruct (dm_line_inv _ _ _ _ _ El) as [(Hp & He & HG1 & Hm & Hc)|[(n & m & Hp & He & _ & Hn & HG1 & Hm & Hc)|(G1 & e & _ & _ & HG1 & _)]].
    + rewrite Hp, He. cbn [opt_list app]. rewrite HG in HG1.
      destruct (IH _ _ HG1 H) as [(A & B & C & D)|(n & m & nm & A & B & C & D & E & F)].
      * left. repeat split; auto; congruence.
      * right. exists n, m, nm. repeat split; auto; congruence || lia.
    + rewrite Hp, He. cbn [opt_list app]. destruct (dm_loop_some af k _ _ _ _ HG1 H) as (A & B & C & D & E).
      right. exists n, m, (ds_name st). rewrite A. cbn [io_kind io_edges] in E.
      repeat split; auto; congruence || lia.
    + congruence.
Qed.

(* reader soundness: exactly one problem line "p edge n m", m edge lines, all after it, all valid;
   the graph has n vertices and exactly the edges of the edge lines *)
Theorem dimacs_sound_gen af k text G : k <> GioBipartite -> gio_read_dimacs_gen af k text = GOk G ->
  exists n m, dm_ppairs (gt_lines text) = [(n, m)] /\ Z.of_nat (length (dm_epairs (gt_lines text))) = m /\
    io_kind G = k /\ io_n G = n /\ io_r G = 0 /\ gio_wf G /\
    Forall (edge_ok G) (dm_epairs (gt_lines text)) /\
    (forall a b, In (a, b) (io_edges G) <-> In (a, b) (map (edge_norm k) (dm_epairs (gt_lines text)))).
Proof.
  intros Hk H. unfold gio_read_dimacs_gen in H.
  destruct (gio_dimacs_loop_gen af k (mkDS None [] (-1) 0) (gt_lines text)) as [st|] eqn:El; [|discriminate]. cbn [gio_bind] in H.
  destruct (negb (ds_m st =? ds_cnt st)) eqn:Em; [discriminate|].
  destruct (dm_loop_none af k (gt_lines text) (mkDS None [] (-1) 0) st eq_refl El) as [(A & B & C & D)|(n & m & nm & A & B & C & D & E & F)].
  - cbn [ds_m ds_cnt] in *. lia.
  - rewrite F in H. inversion H; subst G. cbn [ds_cnt] in D. exists n, m.
    cbn [gio_with_edges io_kind io_name io_n io_r io_edges].
    split; [exact A|]. split; [lia|]. repeat (split; [reflexivity|]). split.
    + apply (with_edges_wf (mkIOG k nm n 0 [])); [now apply new_wf|exact E].
    + split.
      * eapply Forall_impl; [|exact E]. intros e He. exact He.
      * intros a b. rewrite insert_all_In. cbn [In]. tauto.
Qed.

Theorem dimacs_sound k text G : k <> GioBipartite -> gio_read_dimacs k text = GOk G ->
  exists n m, dm_ppairs (gt_lines text) = [(n, m)] /\ Z.of_nat (length (dm_epairs (gt_lines text))) = m /\
    io_kind G = k /\ io_n G = n /\ io_r G = 0 /\ gio_wf G /\
    Forall (edge_ok G) (dm_epairs (gt_lines text)) /\
    (forall a b, In (a, b) (io_edges G) <-> In (a, b) (map (edge_norm k) (dm_epairs (gt_lines text)))).
Proof. exact (dimacs_sound_gen false k text G). Qed.

Lemma dimacs_exn_gen af k text e : gio_read_dimacs_gen af k text = GRaise e ->
  e = EValueError \/ (af = true /\ e = EIndexError /\ exists l, In l (gt_lines text) /\ gt_strip l = []).
Proof.
  unfold gio_read_dimacs_gen. intros H.
  destruct (gio_dimacs_loop_gen af k (mkDS None [] (-1) 0) (gt_lines text)) as [st|e1] eqn:El; cbn [gio_bind] in H.
  - left. destruct (negb (ds_m st =? ds_cnt st)); [now inversion H|]. destruct (ds_G st); [discriminate|now inversion H].
  - inversion H; subst e1. clear H. revert El. generalize (mkDS None [] (-1) 0). induction (gt_lines text) as [|l t IH]; intros st El; [discriminate|].
    cbn [gio_dimacs_loop_gen] in El. destruct (gio_dimacs_line_gen af k st l) as [st1|e2] eqn:E1; cbn [gio_bind] in El.
    + destruct (IH _ El) as [->|[Haf [-> [l' [Hin Hs]]]]]; [left; reflexivity|right]. split; [exact Haf|]. split; [reflexivity|].
      exists l'. split; [now right|exact Hs].
    + inversion El; subst. destruct (dm_line_exn _ _ _ _ _ E1) as [->|[Haf [-> Hs]]]; [left; reflexivity|right].
      split; [exact Haf|]. split; [reflexivity|]. exists l. split; [now left|exact Hs].
Qed.

(* current code: ValueError only, for every text *)
Theorem dimacs_exn k text e : gio_read_dimacs k text = GRaise e -> e = EValueError.
Proof. intros H. destruct (dimacs_exn_gen false k text e H) as [->|[Haf _]]; [reflexivity|discriminate]. Qed.
(* as found: ValueError, or IndexError when some line is blank *)
Theorem dimacs_exn_as_found k text e : gio_read_dimacs_as_found k text = GRaise e ->
  e = EValueError \/ (e = EIndexError /\ exists l, In l (gt_lines text) /\ gt_strip l = []).
Proof. intros H. destruct (dimacs_exn_gen true k text e H) as [->|[_ Hr]]; [now left|now right]. Qed.

(* ---------- matrix ---------- *)
Fixpoint ones (k : Z) (bits : list Z) : list Z :=
  match bits with
  | [] => []
  | b :: t => (if b =? 1 then [k] else []) ++ ones (k + 1) t
  end.

Lemma ones_range : forall bits k j, In j (ones k bits) -> k <= j < k + Z.of_nat (length bits).
Proof.
  induction bits as [|b t IH]; intros k j H; [destruct H|]. cbn [ones length] in *.
  apply in_app_or in H as [H|H].
  - destruct (b =? 1); [|destruct H]. destruct H as [<-|[]]. lia.
  - apply IH in H. lia.
Qed.

Lemma entries_inv total m : forall s k G G' s', io_kind G = GioBipartite -> k <= total ->
  gio_matrix_entries s k total m G = GOk (G', s') ->
  exists bits, s = map MGood bits ++ s' /\ Z.of_nat (length bits) = total - k /\
    Forall (fun b => b = 0 \/ b = 1) bits /\ Forall (edge_ok G) (map (mcell m) (ones k bits)) /\
    G' = gio_with_edges G (insert_all (map (mcell m) (ones k bits)) (io_edges G)).
Proof.
  induction s as [|tok t IH]; intros k G G' s' HK Hk H; rewrite entries_unfold in H.
  - destruct (k >=? total) eqn:E; [|discriminate]. inversion H; subst. exists []. cbn. rewrite with_edges_self.
    repeat split; auto; lia.
  - destruct (k >=? total) eqn:E.
    + inversion H; subst. exists []. cbn. rewrite with_edges_self. repeat split; auto; lia.
    + destruct tok as [b|]; [|discriminate]. destruct (b =? 1) eqn:E1.
      * destruct (gio_add_edge G (k / m + 1) (k mod m + 1)) as [G1|] eqn:Ea; [|discriminate]. cbn [gio_bind] in H.
        apply add_edge_inv in Ea as [Hok ->]. rewrite HK in H.
        apply IH in H as (bits & -> & Hlen & Hb & Hoks & ->); [|exact HK|lia].
        exists (b :: bits). cbn [map app length ones]. rewrite E1. cbn [app map].
        split; [reflexivity|]. split; [lia|]. split; [constructor; [lia|exact Hb]|]. split.
        -- constructor; [exact Hok|]. eapply Forall_impl; [|exact Hoks]. intros e He. now apply edge_ok_with_edges in He.
        -- rewrite with_edges_twice, with_edges_edges. reflexivity.
      * destruct (b =? 0) eqn:E0; [|discriminate].
        apply IH in H as (bits & -> & Hlen & Hb & Hoks & ->); [|exact HK|lia].
        exists (b :: bits). cbn [map app length ones]. rewrite E1. cbn [app].
        split; [reflexivity|]. split; [lia|]. split; [constructor; [lia|exact Hb]|]. split; [exact Hoks|reflexivity].
Qed.

Lemma entries_exn total m : forall s k G e, gio_matrix_entries s k total m G = GRaise e -> e = EValueError.
Proof.
  induction s as [|tok t IH]; intros k G e H; rewrite entries_unfold in H.
  - destruct (k >=? total); now inversion H.
  - destruct (k >=? total); [discriminate|]. destruct tok as [b|]; [|now inversion H].
    destruct (b =? 1).
    + destruct (gio_add_edge G (k / m + 1) (k mod m + 1)) as [G1|e1] eqn:Ea; cbn [gio_bind] in H; [eauto|].
      inversion H; subst. eapply add_edge_exn; eauto.
    + destruct (b =? 0); [eauto|now inversion H].
Qed.

Lemma bits_ones : forall bits k, Forall (fun b => b = 0 \/ b = 1) bits ->
  bits = map (fun j => bitZ (existsb (Z.eqb j) (ones k bits))) (zseq k (length bits)).
Proof.
  induction bits as [|b t IH]; intros k HF; [reflexivity|]. inversion HF as [|x y Hb Ht]; subst.
  cbn [length]. rewrite zseq_S. cbn [map ones]. f_equal.
  - rewrite existsb_app. destruct Hb as [->| ->]; cbn [Z.eqb Pos.eqb existsb orb].
    + destruct (existsb (Z.eqb k) (ones (k + 1) t)) eqn:E; [|reflexivity].
      apply existsb_exists in E as [j [Hj Ej]]. apply ones_range in Hj. lia.
    + rewrite Z.eqb_refl. reflexivity.
  - rewrite (IH (k + 1) Ht) at 1. apply map_ext_in. intros j Hj. apply zseq_In in Hj. f_equal.
    rewrite existsb_app. destruct (b =? 1); cbn [existsb orb]; [|reflexivity].
    replace (j =? k) with false by lia. reflexivity.
Qed.

Lemma mcell_inj m j j' : 0 < m -> mcell m j = mcell m j' -> j = j'.
Proof.
  intros Hm H. unfold mcell in H. inversion H. rewrite (Z.div_mod j m), (Z.div_mod j' m) by lia.
  replace (j / m) with (j' / m) by lia. replace (j mod m) with (j' mod m) by lia. reflexivity.
Qed.

(* reader soundness: the integers of the non comment lines are exactly those of the canonical file of the graph *)
Theorem matrix_sound text G : gio_read_matrix text = GOk G ->
  gio_wf G /\ io_kind G = GioBipartite /\ io_name G = [] /\
  gio_matrix_stream (gt_lines text) = map MGood (concat (matrix_rows G)).
Proof.
  unfold gio_read_matrix. intros H.
  destruct (gio_matrix_stream (gt_lines text)) as [|[n|] s1]; try discriminate. cbn [gio_mpop gio_bind fst snd] in H.
  destruct s1 as [|[m|] s2]; try discriminate. cbn [gio_mpop gio_bind fst snd] in H.
  destruct (gio_new GioBipartite [] n m) as [G0|] eqn:En; [|discriminate]. cbn [gio_bind] in H.
  apply new_inv in En as (Hn & Hm & ->).
  destruct (gio_matrix_entries s2 0 (n * m) m (mkIOG GioBipartite [] n m [])) as [[G' s']|] eqn:Ee; [|discriminate].
  cbn [gio_bind fst snd] in H. destruct s'; [|discriminate]. inversion H; subst G'. clear H.
  apply entries_inv in Ee as (bits & -> & Hlen & Hb & Hoks & ->); [|reflexivity|nia].
  cbn [io_kind io_edges] in *. rewrite app_nil_r.
  split; [apply (with_edges_wf (mkIOG GioBipartite [] n m [])) in Hoks; [|now apply new_bip_wf]; cbn [io_kind io_edges edge_norm] in Hoks;
          rewrite map_id in Hoks; exact Hoks|].
  split; [reflexivity|]. split; [reflexivity|].
  unfold matrix_rows. cbn [gio_with_edges io_n io_r concat map app]. do 3 f_equal.
  rewrite <- flat_map_concat_map.
  pose proof (flat_rows (fun u v => bitZ (gio_has_edge (gio_with_edges (mkIOG GioBipartite [] n m []) (insert_all (map (mcell m) (ones 0 bits)) [])) u v)) m Hm (Z.to_nat n)) as FR.
  rewrite Z2Nat.id in FR by exact Hn. cbn [gio_with_edges io_kind io_name io_n io_r] in FR. rewrite FR. clear FR.
  replace (Z.to_nat n * Z.to_nat m)%nat with (length bits) by nia.
  rewrite (bits_ones bits 0 Hb) at 1. apply map_ext_in. intros j Hj. apply zseq_In in Hj. f_equal.
  apply eq_true_iff_eq. rewrite existsb_exists, has_edge_In. cbn [gio_with_edges io_kind io_edges edge_norm].
  change (j / m + 1, j mod m + 1) with (mcell m j).
  rewrite insert_all_In. cbn [In]. split.
  - intros [j' [Hj' E]]. left. apply in_map_iff. exists j'. split; [|exact Hj']. f_equal. lia.
  - intros [Hin|[]]. apply in_map_iff in Hin as [j' [Hc Hj']]. exists j'. split; [exact Hj'|].
    apply mcell_inj in Hc; [lia|nia].
Qed.

Theorem matrix_exn text e : gio_read_matrix text = GRaise e -> e = EValueError.
Proof.
  unfold gio_read_matrix. intros H.
  destruct (gio_matrix_stream (gt_lines text)) as [|[n|] s1]; try (now inversion H). cbn [gio_mpop gio_bind fst snd] in H.
  destruct s1 as [|[m|] s2]; try (now inversion H). cbn [gio_mpop gio_bind fst snd] in H.
  destruct (gio_new GioBipartite [] n m) as [G0|e1] eqn:En; cbn [gio_bind] in H; [|inversion H; subst; eapply new_exn; eauto].
  destruct (gio_matrix_entries s2 0 (n * m) m G0) as [[G' s']|e2] eqn:Ee; cbn [gio_bind fst snd] in H.
  - destruct s'; now inversion H.
  - inversion H; subst. eapply entries_exn; eauto.
Qed.

(* ---------- readGraph / writeGraph ---------- *)
Definition same_but_name (G : iograph) (nm : gt_str) : iograph :=
  mkIOG (io_kind G) nm (io_n G) (io_r G) (io_edges G).

(* a file declared acyclic is accepted exactly when the same file read as a directed graph has increasing edges only *)
Theorem dag_accept_gen af hd f text G :
  gio_read_graph_gen af hd TDag f text = GOk G <->
  gio_read_graph_gen af hd TDigraph f text = GOk G /\ (forall u v, In (u, v) (io_edges G) -> u < v).
Proof.
  unfold gio_read_graph_gen. cbn [gio_supported gio_kind_of].
  destruct (negb (existsb (gio_fmt_eqb f) ([FKthlist; FGml] ++ (if hd then [FDot] else []) ++ [FDimacs]))); [split; [discriminate|intros [H _]; discriminate]|].
  destruct (match f with FKthlist => gio_read_kth_gen af GioDirected text | FDimacs => gio_read_dimacs_gen af GioDirected text
                    | FMatrix => gio_read_matrix text | _ => GRaise ENotModelled end) as [G1|e]; cbn [gio_bind].
  - rewrite <- is_dag_spec. split.
    + destruct (gio_is_dag G1) eqn:E; [|discriminate]. intros H. inversion H; subst. auto.
    + intros [H Hd]. inversion H; subst. rewrite Hd. reflexivity.
  - split; [discriminate|intros [H _]; discriminate].
Qed.

Theorem dag_accept hd f text G :
  gio_read_graph hd TDag f text = GOk G <->
  gio_read_graph hd TDigraph f text = GOk G /\ (forall u v, In (u, v) (io_edges G) -> u < v).
Proof. exact (dag_accept_gen false hd f text G). Qed.

Theorem dag_reject_gen af hd f text G : gio_read_graph_gen af hd TDigraph f text = GOk G ->
  (exists u v, In (u, v) (io_edges G) /\ v <= u) -> gio_read_graph_gen af hd TDag f text = GRaise EValueError.
Proof.
  unfold gio_read_graph_gen. cbn [gio_supported gio_kind_of].
  destruct (negb (existsb (gio_fmt_eqb f) ([FKthlist; FGml] ++ (if hd then [FDot] else []) ++ [FDimacs]))); [discriminate|].
  destruct (match f with FKthlist => gio_read_kth_gen af GioDirected text | FDimacs => gio_read_dimacs_gen af GioDirected text
                    | FMatrix => gio_read_matrix text | _ => GRaise ENotModelled end) as [G1|e]; cbn [gio_bind]; [|discriminate].
  intros H (u & v & Hin & Hle). inversion H; subst. destruct (gio_is_dag G) eqn:E; [|reflexivity].
  rewrite is_dag_spec in E. apply E in Hin. lia.
Qed.

Theorem dag_reject hd f text G : gio_read_graph hd TDigraph f text = GOk G ->
  (exists u v, In (u, v) (io_edges G) /\ v <= u) -> gio_read_graph hd TDag f text = GRaise EValueError.
Proof. exact (dag_reject_gen false hd f text G). Qed.

Definition type_kind_ok (t : gio_gtype) (G : iograph) : Prop :=
  io_kind G = gio_kind_of t /\ (t = TDag -> gio_is_dag G = true).

(* write then read through the public entry points, every graph type, the three in-house formats *)
Ltac table H := unfold gio_write_graph in H; cbn [gio_supported existsb gio_fmt_eqb app negb orb] in H.
Ltac table_goal := unfold gio_read_graph_gen; cbn [gio_supported existsb gio_fmt_eqb app negb orb gio_kind_of].

Lemma same_but_name_eq G nm k : io_kind G = k -> mkIOG k nm (io_n G) (io_r G) (io_edges G) = same_but_name G nm.
Proof. intros <-. reflexivity. Qed.

Theorem graph_roundtrip_gen af hd t f G text :
  gio_wf G -> type_kind_ok t G -> no_nl (io_name G) ->
  gio_write_graph hd t f G = GOk text ->
  exists nm, gio_read_graph_gen af hd t f text = GOk (same_but_name G nm).
Proof.
  intros Hwf [HK Hdag] Hname H.
  assert (Hkn : kth_name_ok (io_name G)) by now apply kth_name_ok_line.
  destruct t; cbn [gio_kind_of] in HK.
  - (* simple *)
    assert (HnB : io_kind G <> GioBipartite) by congruence.
    destruct f, hd; table H; try discriminate; inversion H; subst text; clear H; table_goal.
    1,2: destruct (kth_roundtrip_gen af G Hwf HnB Hkn) as [nm E]; rewrite HK in E; rewrite E; cbn [gio_bind]; exists nm; now rewrite same_but_name_eq.
    1,2: destruct (dimacs_roundtrip_gen af G Hwf HnB Hname) as [nm E]; rewrite HK in E; rewrite E; cbn [gio_bind]; exists nm; now rewrite same_but_name_eq.
  - (* digraph *)
    assert (HnB : io_kind G <> GioBipartite) by congruence.
    destruct f, hd; table H; try discriminate; inversion H; subst text; clear H; table_goal.
    1,2: destruct (kth_roundtrip_gen af G Hwf HnB Hkn) as [nm E]; rewrite HK in E; rewrite E; cbn [gio_bind]; exists nm; now rewrite same_but_name_eq.
    1,2: destruct (dimacs_roundtrip_gen af G Hwf HnB Hname) as [nm E]; rewrite HK in E; rewrite E; cbn [gio_bind]; exists nm; now rewrite same_but_name_eq.
  - (* dag *)
    assert (HnB : io_kind G <> GioBipartite) by congruence. specialize (Hdag eq_refl).
    assert (Hd : forall nm, gio_is_dag (mkIOG GioDirected nm (io_n G) (io_r G) (io_edges G)) = true) by (intros nm; exact Hdag).
    destruct f, hd; table H; try discriminate; inversion H; subst text; clear H; table_goal.
    1,2: destruct (kth_roundtrip_gen af G Hwf HnB Hkn) as [nm E]; rewrite HK in E; rewrite E; cbn [gio_bind]; rewrite Hd; exists nm; now rewrite same_but_name_eq.
    1,2: destruct (dimacs_roundtrip_gen af G Hwf HnB Hname) as [nm E]; rewrite HK in E; rewrite E; cbn [gio_bind]; rewrite Hd; exists nm; now rewrite same_but_name_eq.
  - (* bipartite *)
    destruct f, hd; table H; try discriminate; inversion H; subst text; clear H; table_goal.
    1,2: destruct (kthb_roundtrip_gen af G Hwf HK Hkn) as [nm E]; rewrite E; cbn [gio_bind]; exists nm; now rewrite same_but_name_eq.
    1,2: rewrite (matrix_roundtrip G Hwf HK); cbn [gio_bind]; exists []; now rewrite same_but_name_eq.
Qed.

Theorem graph_roundtrip hd t f G text :
  gio_wf G -> type_kind_ok t G -> no_nl (io_name G) ->
  gio_write_graph hd t f G = GOk text ->
  exists nm, gio_read_graph hd t f text = GOk (same_but_name G nm).
Proof. exact (graph_roundtrip_gen false hd t f G text). Qed.

(* every exception of the in-house readers of the current code is ValueError, through readGraph too *)
Theorem read_graph_exn hd t f text e : f <> FGml -> f <> FDot ->
  gio_read_graph hd t f text = GRaise e -> e = EValueError.
Proof.
  intros Hg Hd. unfold gio_read_graph, gio_read_graph_gen.
  destruct (negb (existsb (gio_fmt_eqb f) (gio_supported hd t))); [intros H; now inversion H|].
  assert (Hin : forall r : gio_res iograph, (forall e0, r = GRaise e0 -> e0 = EValueError) ->
                gio_bind r (fun G => match t with TDag => if gio_is_dag G then GOk G else GRaise EValueError | _ => GOk G end) = GRaise e ->
                e = EValueError).
  { intros [G|e0] Hr; cbn [gio_bind]; [|intros H; inversion H; subst; now apply Hr].
    destruct t; try discriminate. destruct (gio_is_dag G); [discriminate|]. intros H; now inversion H. }
  apply Hin. intros e0. destruct f; try congruence.
  - destruct t; [apply (kth_exn GioSimple)|apply (kth_exn GioDirected)|apply (kth_exn GioDirected)|apply kthb_exn].
  - apply dimacs_exn.
  - apply matrix_exn.
Qed.

(* ---------- the deviations of the code as found, as witnesses ---------- *)
Import String.
Open Scope list_scope.
Open Scope Z_scope.
Definition txt (s : string) : gt_str := list_ascii_of_string s.

(* D6: a kthlist text without a size line *)
Definition comment_only_text : gt_str := txt "c only a comment" ++ [gt_nl].
Lemma kth_empty_stopiteration :
  gio_read_graph_as_found true TSimple FKthlist [] = GRaise EStopIteration /\
  gio_read_graph_as_found true TBipartite FKthlist comment_only_text = GRaise EStopIteration.
Proof. split; vm_compute; reflexivity. Qed.
(* ... is a parse error now *)
Lemma kth_empty_valueerror :
  gio_read_graph true TSimple FKthlist [] = GRaise EValueError /\
  gio_read_graph true TBipartite FKthlist comment_only_text = GRaise EValueError.
Proof. split; vm_compute; reflexivity. Qed.

(* D7: a blank line in a DIMACS graph file *)
Definition dimacs_blank_text : gt_str := txt "p edge 2 1" ++ [gt_nl; gt_nl] ++ txt "e 1 2" ++ [gt_nl].
Lemma dimacs_blank_indexerror : gio_read_graph_as_found true TSimple FDimacs dimacs_blank_text = GRaise EIndexError.
Proof. vm_compute. reflexivity. Qed.
(* ... is skipped now *)
Lemma dimacs_blank_ok :
  gio_read_graph true TSimple FDimacs dimacs_blank_text = GOk (mkIOG GioSimple [] 2 0 [(1, 2)]).
Proof. vm_compute. reflexivity. Qed.
(* the same file without the blank line *)
Definition dimacs_noblank_text : gt_str := txt "p edge 2 1" ++ [gt_nl] ++ txt "e 1 2" ++ [gt_nl].
Lemma dimacs_noblank_ok :
  gio_read_graph true TSimple FDimacs dimacs_noblank_text = GOk (mkIOG GioSimple [] 2 0 [(1, 2)]).
Proof. vm_compute. reflexivity. Qed.

(* D8: a left vertex listed twice *)
Definition kthb_dup_text : gt_str := txt "3" ++ [gt_nl] ++ txt "1 : 2 0" ++ [gt_nl] ++ txt "1 : 3 0" ++ [gt_nl].
Lemma kthb_dup_accepts : gio_read_kthb_as_found kthb_dup_text = GOk (mkIOG GioBipartite [] 1 2 [(1, 2)]).
Proof. vm_compute. reflexivity. Qed.
(* ... is rejected now; so is a left vertex out of order *)
Definition kthb_unordered_text : gt_str := txt "4" ++ [gt_nl] ++ txt "2 : 3 0" ++ [gt_nl] ++ txt "1 : 4 0" ++ [gt_nl].
Lemma kthb_dup_rejected :
  gio_read_kthb kthb_dup_text = GRaise EValueError /\ gio_read_kthb kthb_unordered_text = GRaise EValueError.
Proof. split; vm_compute; reflexivity. Qed.

(* full soundness statement for a bipartite kthlist reader: every listed neighbour is an edge of the result *)
Definition kthb_sound_statement_for (reader : gt_str -> gio_res iograph) : Prop :=
  forall text G, reader text = GOk G ->
  forall skips sl rest n, gt_lines text = skips ++ sl :: rest -> Forall kth_skip skips ->
    gio_kth_line (-1) sl = GOk (KISize n) ->
    forall r v, In r (kth_rows n rest) -> In v (snd r) -> In (fst r, v - io_n G) (io_edges G).

Lemma kthb_sound_as_found_refuted : ~ kthb_sound_statement_for gio_read_kthb_as_found.
Proof.
  intros S.
  specialize (S kthb_dup_text _ kthb_dup_accepts [] (txt "3" ++ [gt_nl]) [txt "1 : 2 0" ++ [gt_nl]; txt "1 : 3 0" ++ [gt_nl]] 3).
  specialize (S ltac:(vm_compute; reflexivity) ltac:(constructor) ltac:(vm_compute; reflexivity) (1, [2]) 2).
  specialize (S ltac:(vm_compute; left; reflexivity) ltac:(left; reflexivity)).
  cbn in S. destruct S as [S|[]]. inversion S.
Qed.

(* a size line is never a skipped line *)
Lemma kth_size_not_skip l n : gio_kth_line (-1) l = GOk (KISize n) -> ~ kth_skip l.
Proof. intros H Hs. rewrite (Hs (-1)) in H. discriminate. Qed.

(* the decomposition "skipped lines, size line, rest" of a list of lines is unique *)
Lemma kth_split_unique : forall s1 l1 r1 n1 s2 l2 r2 n2,
  s1 ++ l1 :: r1 = s2 ++ l2 :: r2 -> Forall kth_skip s1 -> Forall kth_skip s2 ->
  gio_kth_line (-1) l1 = GOk (KISize n1) -> gio_kth_line (-1) l2 = GOk (KISize n2) -> r1 = r2 /\ n1 = n2.
Proof.
  induction s1 as [|a s1 IH]; intros l1 r1 n1 s2 l2 r2 n2 E H1 H2 L1 L2; destruct s2 as [|b s2]; cbn [app] in E.
  - inversion E; subst. split; [reflexivity|]. rewrite L1 in L2. now inversion L2.
  - injection E as E1 E2. subst l1. inversion H2 as [|x y Hb Ht]. exfalso. exact (kth_size_not_skip _ _ L1 Hb).
  - injection E as E1 E2. subst a. inversion H1 as [|x y Hb Ht]. exfalso. exact (kth_size_not_skip _ _ L2 Hb).
  - injection E as E1 E2. inversion H1 as [|x y Ha Ht1]. inversion H2 as [|x' y' Hb Ht2]. exact (IH _ _ _ _ _ _ _ E2 Ht1 Ht2 L1 L2).
Qed.

Lemma kthb_sound_statement_holds : kthb_sound_statement_for gio_read_kthb.
Proof.
  intros text G H skips sl rest n Hls Hs Hl r v Hr Hv.
  destruct (kthb_sound text G H) as (skips' & sl' & rest' & n' & Hls' & Hs' & Hl' & _ & _ & _ & _ & Hed).
  rewrite Hls in Hls'. destruct (kth_split_unique _ _ _ _ _ _ _ _ Hls' Hs Hs' Hl Hl') as [-> ->].
  apply Hed. exists r, v. auto.
Qed.

(* unsupported format for the type: refused with ValueError, whatever the text *)
Lemma format_table_refuses hd t f text : existsb (gio_fmt_eqb f) (gio_supported hd t) = false ->
  gio_read_graph hd t f text = GRaise EValueError.
Proof. intros H. unfold gio_read_graph, gio_read_graph_gen. rewrite H. reflexivity. Qed.

(* a concrete instance: 12 vertices, isolated vertices, an edge between a one-digit and a two-digit vertex *)
Definition g12d : iograph := mkIOG GioDirected (txt "G") 12 0 [(2, 10); (9, 11)].
Definition g12d_kth_text : gt_str :=
         txt "c G" ++ [gt_nl] ++ txt "12" ++ [gt_nl] ++
         txt "1 : 0" ++ [gt_nl] ++ txt "2 : 0" ++ [gt_nl] ++ txt "3 : 0" ++ [gt_nl] ++ txt "4 : 0" ++ [gt_nl] ++
         txt "5 : 0" ++ [gt_nl] ++ txt "6 : 0" ++ [gt_nl] ++ txt "7 : 0" ++ [gt_nl] ++ txt "8 : 0" ++ [gt_nl] ++
         txt "9 : 0" ++ [gt_nl] ++ txt "10 : 2 0" ++ [gt_nl] ++ txt "11 : 9 0" ++ [gt_nl] ++ txt "12 : 0" ++ [gt_nl] ++ [gt_nl].
Lemma g12d_example :
  gio_wf g12d /\ type_kind_ok TDag g12d /\ no_nl (io_name g12d) /\
  gio_write_graph true TDag FKthlist g12d = GOk g12d_kth_text /\
  (exists text, gio_write_graph true TDag FDimacs g12d = GOk text /\
                gio_read_graph true TDag FDimacs text = GOk (same_but_name g12d (io_name g12d))).
Proof.
  split.
  { unfold gio_wf, g12d. cbn. split; [lia|]. split; [lia|]. split; [reflexivity|]. split.
    - constructor; [constructor; [constructor|intros y []]|]. intros y [<-|[]]. left. cbn. lia.
    - repeat constructor; cbn; lia. }
  split; [split; [reflexivity|intros _; reflexivity]|].
  split; [repeat constructor|].
  split; [vm_compute; reflexivity|].
  eexists. split; vm_compute; reflexivity.
Qed.
