(* Property C17, second part — "options that select a variant select exactly that
   variant and change nothing else", at the level of the family models the command
   line is compared with (three-way differential of harness/c17.py). *)
From Coq Require Import ZArith List Bool.
From Cnfgen Require Import Sem Comb Linear IR FamTab Fam_php Fam_coloring Fam_subsetcard Fam_ordering CliVariantsFacts.
Import ListNotations.
Open Scope Z_scope.

(* php --functional / --onto: the builder calls are those of the plain formula plus,
   exactly, the surjectivity block and/or the functionality block; nothing is dropped *)
Theorem C17_php_variants : forall m n fu on,
  php_ir m n fu on = cm_complete 0 m n ++ (if on then cm_surjective 0 m n else [])
                     ++ cm_injective 0 m n ++ (if fu then cm_functional 0 m n else [])
  /\ incl (php_ir m n false false) (php_ir m n fu on).
Proof. exact php_variants. Qed.
Print Assumptions C17_php_variants.

Theorem C17_gphp_variants : forall adj R fu on, incl (gphp_ir adj R false false) (gphp_ir adj R fu on).
Proof. exact gphp_variants. Qed.
Print Assumptions C17_gphp_variants.

(* op --total adds exactly the totality clauses, whatever --plant / --knuth say *)
Theorem C17_op_total_variant : forall nb plant knuth,
  gop_cnf nb true false plant knuth = gop_cnf nb false false plant knuth ++ gop_totality (len nb).
Proof. exact gop_total_variant. Qed.
Print Assumptions C17_op_total_variant.

Theorem C17_subsetcard_variant : forall adj R e1 e2,
  length (subsetcard_ir adj R e1) = length (subsetcard_ir adj R e2).
Proof. exact subsetcard_variant_length. Qed.
Print Assumptions C17_subsetcard_variant.
