(* SolverFacts.v — the solver-output parsers and the solver selection of
   Solver.v report what the solver said (property C20). *)
From Coq Require Import ZArith List Bool Ascii Lia ZifyBool Permutation.
From Coq Require String.
Import String.StringSyntax.
From Cnfgen Require Import Sem SemFacts Solver.
Import ListNotations.
Open Scope Z_scope.

Definition LF : ascii := chr 10.
Definition CR : ascii := chr 13.
Definition SP : ascii := chr 32.

(* ---------- text equality ---------- *)
Lemma text_eqb_eq : forall a b, text_eqb a b = true <-> a = b.
Proof.
  induction a as [|x a IH]; intros [|y b]; cbn; split; intros H; try reflexivity; try discriminate.
  - apply andb_true_iff in H as [H1 H2]. apply Ascii.eqb_eq in H1. apply IH in H2. now subst.
  - inversion H; subst. rewrite Ascii.eqb_refl. cbn. now apply IH.
Qed.
Lemma text_eqb_refl a : text_eqb a a = true. Proof. now apply text_eqb_eq. Qed.
Lemma text_eqb_neq a b : a <> b -> text_eqb a b = false.
Proof. intros H. destruct (text_eqb a b) eqn:E; [|reflexivity]. apply text_eqb_eq in E. contradiction. Qed.

(* ---------- str.split() ---------- *)
Definition nospace (w : text) : Prop := forall c, In c w -> is_space c = false.
Definition word (w : text) : Prop := w <> [] /\ nospace w.
Definition allspace (s : text) : Prop := forall c, In c s -> is_space c = true.
Definition starts_space (s : text) : Prop := match s with [] => True | c :: _ => is_space c = true end.

Lemma split_ws_space c t : is_space c = true -> sv_split_ws (c :: t) = sv_split_ws t.
Proof. intros H. cbn [sv_split_ws]. now rewrite H. Qed.

Lemma split_ws_allspace : forall s rest, allspace s -> sv_split_ws (s ++ rest) = sv_split_ws rest.
Proof.
  induction s as [|c s IH]; intros rest H; [reflexivity|]. cbn [app]. rewrite split_ws_space by (apply H; now left).
  apply IH. intros d Hd. apply H. now right.
Qed.
Lemma split_ws_allspace_nil s : allspace s -> sv_split_ws s = [].
Proof. intros H. rewrite <- (app_nil_r s). now rewrite split_ws_allspace. Qed.

Lemma split_ws_word_app : forall w rest, word w -> starts_space rest -> sv_split_ws (w ++ rest) = w :: sv_split_ws rest.
Proof.
  induction w as [|c w IH]; intros rest [Hne Hns] Hr; [contradiction|].
  assert (is_space c = false) as Hc by (apply Hns; now left).
  destruct w as [|c' w].
  - cbn [app]. cbn [sv_split_ws]. rewrite Hc. destruct rest as [|d rest]; [reflexivity|].
    cbn in Hr. rewrite ?Hr. reflexivity.
  - assert (word (c' :: w)) as Hw by (split; [discriminate|intros d Hd; apply Hns; now right]).
    specialize (IH rest Hw Hr). cbn [app] in *. cbn [sv_split_ws]. rewrite Hc.
    assert (is_space c' = false) as Hc' by (apply Hns; right; now left). rewrite Hc'.
    cbn [sv_split_ws] in IH. rewrite Hc' in IH. rewrite IH. reflexivity.
Qed.

Lemma split_ws_word w : word w -> sv_split_ws w = [w].
Proof. intros H. rewrite <- (app_nil_r w) at 1. rewrite split_ws_word_app; [reflexivity|assumption|exact I]. Qed.

(* tokens, each preceded by a non-empty run of whitespace *)
Definition join (items : list (text * text)) : text := concat (map (fun st => fst st ++ snd st) items).
Definition sep_ok (s : text) : Prop := s <> [] /\ allspace s.

Lemma starts_space_sep s rest : sep_ok s -> starts_space (s ++ rest).
Proof. intros [Hne Hs]. destruct s as [|c s]; [contradiction|]. cbn. apply Hs. now left. Qed.
Lemma starts_space_allspace s : allspace s -> starts_space s.
Proof. intros H. destruct s as [|c s]; [exact I|]. cbn. apply H. now left. Qed.

Lemma split_ws_join : forall items trail,
  (forall st, In st items -> sep_ok (fst st) /\ word (snd st)) -> allspace trail ->
  sv_split_ws (join items ++ trail) = map snd items.
Proof.
  induction items as [|[s t] items IH]; intros trail H Ht.
  - cbn. now apply split_ws_allspace_nil.
  - destruct (H (s, t) (or_introl eq_refl)) as [Hs Hw]. cbn [fst snd] in *.
    unfold join. cbn [map concat fst snd]. fold (join items). rewrite <- !app_assoc.
    rewrite split_ws_allspace by apply Hs. rewrite split_ws_word_app; [|assumption|].
    + cbn [map snd]. f_equal. apply IH; [|assumption]. intros st Hst. apply H. now right.
    + destruct items as [|[s' t'] items']; [cbn; now apply starts_space_allspace|].
      unfold join. cbn [map concat fst snd]. rewrite <- !app_assoc. apply starts_space_sep.
      apply (H (s', t')). right. now left.
Qed.

(* ---------- str.splitlines ---------- *)
Definition noline (l : text) : Prop := forall c, In c l -> is_linebreak c = false.
Definition eol (crlf : bool) : text := if crlf then [CR; LF] else [LF].

Lemma splitlines_line : forall l crlf rest, noline l -> splitlines (l ++ eol crlf ++ rest) = l :: splitlines rest.
Proof.
  induction l as [|c l IH]; intros crlf rest H.
  - destruct crlf; reflexivity.
  - cbn [app]. cbn [splitlines]. rewrite (H c (or_introl eq_refl)).
    rewrite IH by (intros d Hd; apply H; now right). reflexivity.
Qed.

Lemma splitlines_last : forall l, noline l -> l <> [] -> splitlines l = [l].
Proof.
  induction l as [|c l IH]; intros H Hne; [contradiction|]. cbn [splitlines]. rewrite (H c (or_introl eq_refl)).
  destruct l as [|d l]; [reflexivity|]. rewrite IH; [reflexivity| |discriminate]. intros e He. apply H. now right.
Qed.

Definition unlines (ls : list (text * bool)) : text := concat (map (fun lb => fst lb ++ eol (snd lb)) ls).

Lemma splitlines_unlines : forall ls last, (forall lb, In lb ls -> noline (fst lb)) -> noline last ->
  splitlines (unlines ls ++ last) = map fst ls ++ (match last with [] => [] | _ => [last] end).
Proof.
  induction ls as [|[l b] ls IH]; intros last H Hl.
  - cbn [unlines map concat app]. destruct last as [|c last]; [reflexivity|]. apply splitlines_last; [assumption|discriminate].
  - unfold unlines. cbn [map concat fst snd]. fold (unlines ls). rewrite <- !app_assoc.
    rewrite splitlines_line by (apply (H (l, b)); now left). cbn [map fst app]. f_equal.
    apply IH; [|assumption]. intros lb Hlb. apply H. now right.
Qed.

(* ---------- int() ---------- *)
Lemma digit_not_space c : is_digit c = true -> is_space c = false.
Proof. unfold is_digit, is_space. cbn zeta. lia. Qed.
Lemma underscore_not_space c : is_underscore c = true -> is_space c = false.
Proof. unfold is_underscore, is_space. cbn zeta. lia. Qed.

Lemma parse_digits_nospace : forall s acc prev z, parse_digits acc prev s = Some z -> nospace s.
Proof.
  induction s as [|c s IH]; intros acc prev z H d Hd; [destruct Hd|]. cbn [parse_digits] in H.
  destruct (is_digit c) eqn:Hdig.
  - destruct Hd as [<-|Hd]; [now apply digit_not_space|]. eapply IH; eauto.
  - destruct (is_underscore c && prev) eqn:Hu; [|discriminate]. apply andb_true_iff in Hu as [Hu _].
    destruct Hd as [<-|Hd]; [now apply underscore_not_space|]. eapply IH; eauto.
Qed.

Lemma parse_int_word tk z : sv_parse_int tk = Some z -> word tk.
Proof.
  unfold sv_parse_int. destruct tk as [|c t]; [discriminate|]. intros H. split; [discriminate|].
  destruct (code c =? 43) eqn:E1.
  - intros d [<-|Hd]; [unfold is_space; cbn zeta; lia|]. eapply parse_digits_nospace; eauto.
  - destruct (code c =? 45) eqn:E2.
    + destruct (parse_digits 0 false t) as [v|] eqn:E; [|discriminate].
      intros d [<-|Hd]; [unfold is_space; cbn zeta; lia|]. eapply parse_digits_nospace; eauto.
    + eapply parse_digits_nospace; eauto.
Qed.

Lemma parse_int_not_v tk z : sv_parse_int tk = Some z -> text_eqb tk t_v = false.
Proof.
  intros H. apply text_eqb_neq. intros ->. vm_compute in H. discriminate.
Qed.

(* the values kept from a list of integer tokens: every token except the literal "0" *)
Definition kept (vals : list (text * Z)) : list Z :=
  map snd (filter (fun tz => negb (text_eqb (fst tz) t_0)) vals).
Definition denote_ok (vals : list (text * Z)) : Prop := forall tz, In tz vals -> sv_parse_int (fst tz) = Some (snd tz).

Lemma parse_ints_kept : forall vals, denote_ok vals ->
  parse_ints (filter keep_value (map fst vals)) = Some (kept vals)
  /\ parse_ints (filter keep_value_file (map fst vals)) = Some (kept vals).
Proof.
  induction vals as [|[t z] vals IH]; intros H; [split; reflexivity|].
  assert (denote_ok vals) as H' by (intros tz Htz; apply H; now right).
  destruct (IH H') as [IH1 IH2]. pose proof (H (t, z) (or_introl eq_refl)) as Ht. cbn [fst snd] in Ht.
  unfold kept in *. cbn [map filter fst snd].
  assert (keep_value t = negb (text_eqb t t_0)) as K1 by (unfold keep_value; rewrite (parse_int_not_v t z Ht); reflexivity).
  assert (keep_value_file t = negb (text_eqb t t_0)) as K2 by reflexivity.
  rewrite K1, K2. destruct (text_eqb t t_0); cbn [negb]; [split; assumption|].
  cbn [parse_ints map snd]. rewrite Ht, IH1, IH2. split; reflexivity.
Qed.

(* ---------- sorted(witness, key=abs) ---------- *)
Lemma sort_abs_cons x l : sort_abs (x :: l) = insert_abs x (sort_abs l).
Proof. reflexivity. Qed.

Lemma insert_abs_perm x l : Permutation (insert_abs x l) (x :: l).
Proof.
  induction l as [|y t IH]; cbn [insert_abs]; [reflexivity|].
  destruct (Z.abs x <=? Z.abs y); [reflexivity|]. rewrite IH. apply perm_swap.
Qed.
Lemma sort_abs_perm l : Permutation (sort_abs l) l.
Proof. induction l as [|x t IH]; [reflexivity|]. rewrite sort_abs_cons, insert_abs_perm. now constructor. Qed.

Lemma In_sort_abs x l : In x (sort_abs l) <-> In x l.
Proof. split; apply Permutation_in; [|symmetry]; apply sort_abs_perm. Qed.

Fixpoint abs_sorted (l : list Z) : Prop :=
  match l with
  | [] => True
  | x :: t => (forall y, In y t -> Z.abs x <= Z.abs y) /\ abs_sorted t
  end.

Lemma insert_abs_sorted x l : abs_sorted l -> abs_sorted (insert_abs x l).
Proof.
  induction l as [|y t IH]; cbn [insert_abs]; intros H; [cbn; split; [intros ? []|exact I]|].
  destruct H as [Hy Ht]. destruct (Z.leb_spec (Z.abs x) (Z.abs y)) as [L|L].
  - split; [|split; assumption]. intros z [<-|Hz]; [assumption|]. specialize (Hy z Hz). lia.
  - split; [|auto]. intros z Hz. apply (Permutation_in _ (insert_abs_perm x t)) in Hz as [<-|Hz]; [lia|auto].
Qed.
Lemma sort_abs_sorted l : abs_sorted (sort_abs l).
Proof. induction l as [|x t IH]; [exact I|]. rewrite sort_abs_cons. now apply insert_abs_sorted. Qed.

Lemma sort_abs_nonempty l : l <> [] -> sort_abs l <> [].
Proof.
  intros H E. apply H. pose proof (Permutation_length (sort_abs_perm l)) as L. rewrite E in L.
  destruct l; [reflexivity|discriminate].
Qed.

Lemma lits_sat_sort A F : lits_sat (sort_abs A) F = lits_sat A F.
Proof.
  unfold lits_sat. apply forallb_ext. intros c. apply existsb_ext. intros l.
  destruct (existsb (Z.eqb l) A) eqn:E.
  - apply existsb_exists in E as [y [Hy Ey]]. apply existsb_exists. exists y. split; [now apply In_sort_abs|assumption].
  - destruct (existsb (Z.eqb l) (sort_abs A)) eqn:E2; [|reflexivity].
    apply existsb_exists in E2 as [y [Hy Ey]]. apply (proj1 (In_sort_abs y A)) in Hy.
    assert (existsb (Z.eqb l) A = true) by (apply existsb_exists; exists y; split; assumption). congruence.
Qed.

(* what solve() hands back for a SAT answer spelling A *)
Definition witness_of (q : quirks) (A : list Z) : option (list Z) :=
  match A with
  | [] => if q_empty_none q then None else Some []
  | _ => Some (sort_abs A)
  end.

Lemma answer_true q A : answer q true A = SOk true (witness_of q A).
Proof.
  unfold answer, witness_of. destruct A as [|x A]; [reflexivity|].
  pose proof (sort_abs_nonempty (x :: A) ltac:(discriminate)) as H.
  destruct (sort_abs (x :: A)); [contradiction|reflexivity].
Qed.
Lemma answer_false q A : answer q false A = SOk false None.
Proof. reflexivity. Qed.

(* ---------- solver output in the DIMACS convention ---------- *)

Definition c_s : ascii := "s"%char.
Definition c_v : ascii := "v"%char.

Inductive oline :=
| LOther (body : text)                                  (* comment, blank or any line not starting with s or v *)
| LStatus (sep w trail : text)                          (* s <w> *)
| LValues (items : list (text * (text * Z))) (trail : text).   (* v tok tok ... : (separator, (token, value)) *)

Definition item_texts (items : list (text * (text * Z))) : list (text * text) :=
  map (fun x => (fst x, fst (snd x))) items.

Definition render_line (l : oline) : text :=
  match l with
  | LOther body => body
  | LStatus sep w trail => c_s :: sep ++ w ++ trail
  | LValues items trail => c_v :: join (item_texts items) ++ trail
  end.

Definition wf_line (l : oline) : Prop :=
  match l with
  | LOther body => match body with [] => True | c :: _ => code c <> 115 /\ code c <> 118 end
  | LStatus sep w trail => sep_ok sep /\ word w /\ allspace trail
  | LValues items trail =>
      (forall x, In x items -> sep_ok (fst x) /\ sv_parse_int (fst (snd x)) = Some (snd (snd x))) /\ allspace trail
  end.

Definition line_status (st : option bool) (l : oline) : option bool :=
  match l with LStatus _ w _ => status_of w | _ => st end.
Definition final_status (lines : list oline) (st : option bool) : option bool := fold_left line_status lines st.
Definition line_values (l : oline) : list Z :=
  match l with LValues items _ => kept (map snd items) | _ => [] end.
Definition spelled (lines : list oline) : list Z := flat_map line_values lines.

Definition verdict (q : quirks) (st : option bool) (A : list Z) : sres :=
  match st with
  | None => SRuntimeError
  | Some true => SOk true (witness_of q A)
  | Some false => SOk false None
  end.

Lemma word_single c : is_space c = false -> word [c].
Proof. intros H. split; [discriminate|]. intros d [<-|[]]. assumption. Qed.

Lemma parse_lines_conv q : forall lines st wit, (forall l, In l lines -> wf_line l) ->
  parse_lines q (map render_line lines) st wit = verdict q (final_status lines st) (wit ++ spelled lines).
Proof.
  induction lines as [|l lines IH]; intros st wit H.
  - cbn. rewrite app_nil_r. destruct st as [[|]|]; [apply answer_true|apply answer_false|reflexivity].
  - assert (forall l', In l' lines -> wf_line l') as H' by (intros; apply H; now right).
    pose proof (H l (or_introl eq_refl)) as Hl. cbn [map]. unfold final_status, spelled. cbn [fold_left flat_map].
    fold (final_status lines (line_status st l)). fold (spelled lines).
    destruct l as [body|sep w trail|items trail]; cbn [render_line line_status line_values wf_line] in *.
    + cbn [app]. destruct body as [|c body]; [cbn [parse_lines]; now apply IH|].
      destruct Hl as [H1 H2]. cbn [parse_lines].
      apply Z.eqb_neq in H1. apply Z.eqb_neq in H2. rewrite H1, H2. now apply IH.
    + destruct Hl as [Hs [Hw Ht]]. cbn [parse_lines app].
      replace (code c_s =? 115) with true by reflexivity.
      change (c_s :: sep ++ w ++ trail) with ([c_s] ++ sep ++ w ++ trail).
      rewrite split_ws_word_app; [|apply word_single; reflexivity|now apply starts_space_sep].
      rewrite split_ws_allspace by apply Hs.
      rewrite split_ws_word_app; [|assumption|now apply starts_space_allspace].
      now apply IH.
    + destruct Hl as [Hi Ht]. cbn [parse_lines].
      replace (code c_v =? 115) with false by reflexivity. replace (code c_v =? 118) with true by reflexivity.
      change (c_v :: join (item_texts items) ++ trail) with ([c_v] ++ join (item_texts items) ++ trail).
      assert (sv_split_ws (join (item_texts items) ++ trail) = map fst (map snd items)) as Hsplit.
      { rewrite split_ws_join; [| |assumption].
        - unfold item_texts. rewrite !map_map. reflexivity.
        - intros st' Hst. unfold item_texts in Hst. apply in_map_iff in Hst as [x [<- Hx]]. cbn [fst snd].
          destruct (Hi x Hx) as [Hsep Hp]. split; [assumption|]. eapply parse_int_word; eauto. }
      rewrite split_ws_word_app; [|apply word_single; reflexivity|].
      2:{ destruct items as [|x items]; [cbn; now apply starts_space_allspace|].
          unfold item_texts, join. cbn [map concat fst snd]. rewrite <- !app_assoc. apply starts_space_sep.
          apply (Hi x). now left. }
      rewrite Hsplit. cbn [filter]. replace (keep_value [c_v]) with false by reflexivity.
      assert (denote_ok (map snd items)) as Hd.
      { intros tz Htz. apply in_map_iff in Htz as [x [<- Hx]]. apply (Hi x Hx). }
      destruct (parse_ints_kept _ Hd) as [-> _]. rewrite IH by assumption. now rewrite app_assoc.
Qed.

(* the whole text: lines with LF or CRLF terminators, optionally a last line without terminator *)
Definition render_text (lines : list (oline * bool)) (last : option oline) : text :=
  unlines (map (fun lb => (render_line (fst lb), snd lb)) lines)
  ++ match last with Some l => render_line l | None => [] end.
Definition all_lines (lines : list (oline * bool)) (last : option oline) : list oline :=
  map fst lines ++ match last with Some l => [l] | None => [] end.
Definition wf_text (lines : list (oline * bool)) (last : option oline) : Prop :=
  forall l, In l (all_lines lines last) -> wf_line l /\ noline (render_line l).

Lemma final_status_app l1 l2 st : final_status (l1 ++ l2) st = final_status l2 (final_status l1 st).
Proof. apply fold_left_app. Qed.
Lemma spelled_app l1 l2 : spelled (l1 ++ l2) = spelled l1 ++ spelled l2.
Proof. apply flat_map_app. Qed.

Theorem parse_stdout_conv q lines last : wf_text lines last ->
  parse_stdout q (render_text lines last) =
  verdict q (final_status (all_lines lines last) None) (spelled (all_lines lines last)).
Proof.
  intros H. unfold parse_stdout, render_text.
  rewrite splitlines_unlines.
  2:{ intros lb Hlb. apply in_map_iff in Hlb as [[l b] [<- Hl]]. cbn [fst]. apply H.
      unfold all_lines. apply in_app_iff. left. now apply (in_map fst) in Hl. }
  2:{ destruct last as [l|]; [|intros c []]. apply H. unfold all_lines. apply in_app_iff. right. now left. }
  rewrite map_map. cbn [fst].
  assert (forall l, In l (map fst lines) -> wf_line l) as Hw.
  { intros l Hl. apply H. unfold all_lines. apply in_app_iff. now left. }
  destruct last as [l|].
  - destruct (render_line l) eqn:El.
    + (* an empty last line: it is a blank LOther line *)
      assert (l = LOther []) as -> by (destruct l; cbn in El; [now subst|discriminate|discriminate]).
      rewrite app_nil_r. rewrite <- (map_map fst render_line). rewrite parse_lines_conv by assumption.
      unfold all_lines. rewrite final_status_app, spelled_app. cbn. now rewrite app_nil_r.
    + rewrite <- El. rewrite <- (map_map fst render_line).
      change [render_line l] with (map render_line [l]). rewrite <- map_app.
      rewrite parse_lines_conv; [reflexivity|]. intros l' Hl'. apply H. exact Hl'.
  - rewrite app_nil_r. rewrite <- (map_map fst render_line). unfold all_lines. rewrite app_nil_r.
    now apply parse_lines_conv.
Qed.

(* ---------- the minisat result file ---------- *)

Lemma word_SAT : word t_SAT. Proof. split; [discriminate|]. intros c Hc. cbn in Hc. intuition; subst; reflexivity. Qed.
Lemma word_UNSAT : word t_UNSAT. Proof. split; [discriminate|]. intros c Hc. cbn in Hc. intuition; subst; reflexivity. Qed.

(* leading white space, SAT, then integer tokens separated by white space (newlines included) *)
Theorem parse_minisat_sat q lead items trail :
  allspace lead ->
  (forall x, In x items -> sep_ok (fst x) /\ sv_parse_int (fst (snd x)) = Some (snd (snd x))) -> allspace trail ->
  parse_minisat q (lead ++ t_SAT ++ join (item_texts items) ++ trail) = SOk true (witness_of q (kept (map snd items))).
Proof.
  intros Hlead Hi Ht. unfold parse_minisat. rewrite split_ws_allspace by assumption.
  rewrite split_ws_word_app; [|apply word_SAT|].
  2:{ destruct items as [|x items]; [cbn; now apply starts_space_allspace|].
      unfold item_texts, join. cbn [map concat fst snd]. rewrite <- !app_assoc. apply starts_space_sep. apply (Hi x). now left. }
  rewrite text_eqb_refl. rewrite split_ws_join; [| |assumption].
  2:{ intros st' Hst. unfold item_texts in Hst. apply in_map_iff in Hst as [x [<- Hx]]. cbn [fst snd].
      destruct (Hi x Hx) as [Hsep Hp]. split; [assumption|]. eapply parse_int_word; eauto. }
  assert (denote_ok (map snd items)) as Hd.
  { intros tz Htz. apply in_map_iff in Htz as [x [<- Hx]]. apply (Hi x Hx). }
  destruct (parse_ints_kept _ Hd) as [_ E]. unfold item_texts. rewrite map_map. cbn [fst snd].
  rewrite <- (map_map snd fst). rewrite E. apply answer_true.
Qed.

Theorem parse_minisat_unsat q lead trail : allspace lead -> starts_space trail ->
  parse_minisat q (lead ++ t_UNSAT ++ trail) = SOk false None.
Proof.
  intros Hlead Ht. unfold parse_minisat. rewrite split_ws_allspace by assumption.
  rewrite split_ws_word_app; [|apply word_UNSAT|assumption].
  replace (text_eqb t_UNSAT t_SAT) with false by reflexivity. rewrite text_eqb_refl. reflexivity.
Qed.

Theorem parse_minisat_empty q file : allspace file -> parse_minisat q file = SRuntimeError.
Proof. intros H. unfold parse_minisat. now rewrite split_ws_allspace_nil. Qed.

Theorem parse_minisat_other q lead w trail : allspace lead -> word w -> starts_space trail ->
  w <> t_SAT -> w <> t_UNSAT -> parse_minisat q (lead ++ w ++ trail) = SRuntimeError.
Proof.
  intros Hlead Hw Ht N1 N2. unfold parse_minisat. rewrite split_ws_allspace by assumption.
  rewrite split_ws_word_app by assumption. now rewrite (text_eqb_neq _ _ N1), (text_eqb_neq _ _ N2).
Qed.

(* ---------- the repaired parser never lets an undocumented exception out ---------- *)

Lemma answer_not_crash q r w e : answer q r w <> SCrash e.
Proof. unfold answer. discriminate. Qed.

Lemma parse_lines_spec_no_crash q : q_crash q = false -> forall lines st wit e, parse_lines q lines st wit <> SCrash e.
Proof.
  intros Hq. induction lines as [|l lines IH]; intros st wit e; cbn [parse_lines].
  - destruct st; [apply answer_not_crash|discriminate].
  - destruct l as [|c l]; [apply IH|]. destruct (code c =? 115).
    + destruct (sv_split_ws (c :: l)) as [|a [|b rest]]; rewrite ?Hq; apply IH.
    + destruct (code c =? 118); [|apply IH].
      destruct (parse_ints _); [apply IH|]. unfold crashed. rewrite Hq. discriminate.
Qed.

Theorem parse_stdout_no_crash q : q_crash q = false -> forall output e, parse_stdout q output <> SCrash e.
Proof. intros Hq output e. apply parse_lines_spec_no_crash. assumption. Qed.

Theorem parse_minisat_no_crash q : q_crash q = false -> forall file e, parse_minisat q file <> SCrash e.
Proof.
  intros Hq file e. unfold parse_minisat. destruct (sv_split_ws file) as [|w rest]; [discriminate|].
  destruct (text_eqb w t_SAT).
  - destruct (parse_ints _); [apply answer_not_crash|]. unfold crashed. rewrite Hq. discriminate.
  - destruct (text_eqb w t_UNSAT); [apply answer_not_crash|discriminate].
Qed.

(* ---------- sat_solve: which solver runs, which error is raised ---------- *)

Theorem sameas_unsupported q cmd s installed world :
  supported s = false -> sat_solve q cmd (Some s) installed world = OValueError.
Proof. intros H. unfold sat_solve. now rewrite H. Qed.

Lemma first_installed_spec installed : forall tab n i,
  first_installed tab installed = Some (n, i) ->
  exists before after, tab = before ++ (n, i) :: after /\ installed n = true /\
                       forall m j, In (m, j) before -> installed m = false.
Proof.
  induction tab as [|[m j] tab IH]; intros n i H; cbn [first_installed] in H; [discriminate|].
  destruct (installed m) eqn:E.
  - inversion H; subst. exists [], tab. split; [reflexivity|]. split; [assumption|intros ? ? []].
  - destruct (IH n i H) as [b [a [E1 [E2 E3]]]]. exists ((m, j) :: b), a. split; [now rewrite E1|]. split; [assumption|].
    intros m' j' [Hm|Hm]; [inversion Hm; now subst|eauto].
Qed.

Lemma first_installed_none installed : forall tab,
  first_installed tab installed = None <-> forall m j, In (m, j) tab -> installed m = false.
Proof.
  induction tab as [|[m j] tab IH]; cbn [first_installed]; [split; [intros _ ? ? []|reflexivity]|].
  destruct (installed m) eqn:E; split.
  - discriminate.
  - intros H. rewrite (H m j (or_introl eq_refl)) in E. discriminate.
  - intros H m' j' [Hm|Hm]; [inversion Hm; now subst|]. now apply (proj1 IH H m' j').
  - intros H. apply IH. intros m' j' Hm. apply (H m' j'). now right.
Qed.

Definition no_command (cmd : option text) : Prop :=
  match cmd with None => True | Some c => sv_split_ws c = [] end.

(* no command: the supported solvers are tried in table order, the first installed one runs with its own interface *)
Theorem no_command_first_installed q cmd sameas installed world :
  no_command cmd -> match sameas with Some s => supported s = true | None => True end ->
  match first_installed solver_table installed with
  | Some (n, i) => sat_solve q cmd sameas installed world = OResult (run_iface q i world n) i n
  | None => sat_solve q cmd sameas installed world = ORuntimeNoSolver
  end.
Proof.
  intros Hc Hs. unfold sat_solve.
  assert ((match sameas with Some s => negb (supported s) | None => false end) = false) as ->.
  { destruct sameas as [s|]; [now rewrite Hs|reflexivity]. }
  assert ((match cmd with None => [] | Some c => sv_split_ws c end) = []) as ->.
  { destruct cmd as [c|]; [exact Hc|reflexivity]. }
  destruct (first_installed solver_table installed) as [[n i]|]; reflexivity.
Qed.

(* a command whose first word is not a supported solver, without sameas *)
Theorem unsupported_command q c solver rest installed world :
  sv_split_ws c = solver :: rest -> supported solver = false ->
  sat_solve q (Some c) None installed world = ORuntimeUnsupported.
Proof. intros Hc Hs. unfold sat_solve. rewrite Hc, Hs. reflexivity. Qed.

(* a command: the interface is that of `sameas` when given, else that of the command's first word *)
Theorem command_runs q c solver rest sameas installed world name i :
  sv_split_ws c = solver :: rest ->
  name = match sameas with Some s => s | None => solver end ->
  lookup name solver_table = Some i ->
  sat_solve q (Some c) sameas installed world =
  if installed solver then OResult (run_iface q i world c) i c else ORuntimeNotInstalled.
Proof.
  intros Hc -> Hl. unfold sat_solve. rewrite Hc.
  destruct sameas as [s|]; cbv beta iota in Hl.
  - unfold supported at 1. rewrite Hl. cbn [negb]. rewrite andb_false_r. reflexivity.
  - unfold supported. rewrite Hl. reflexivity.
Qed.

(* ---------- solve / is_satisfiable ---------- *)

Theorem is_satisfiable_same_verdict q cmd sameas installed world :
  is_satisfiable q cmd sameas installed world =
  match solve q cmd sameas installed world with
  | PyPair b _ => PyBool b
  | PyValueError => PyBValueError
  | PyRuntimeError => PyBRuntimeError
  | PyCrash e => PyBCrash e
  end.
Proof. reflexivity. Qed.

Theorem solve_sameas_unsupported q cmd s installed world :
  supported s = false ->
  solve q cmd (Some s) installed world = PyValueError /\ is_satisfiable q cmd (Some s) installed world = PyBValueError.
Proof. intros H. unfold is_satisfiable, solve. rewrite sameas_unsupported by assumption. split; reflexivity. Qed.

Theorem solve_no_solver q cmd sameas installed world :
  no_command cmd -> match sameas with Some s => supported s = true | None => True end ->
  (forall n, installed n = false) ->
  solve q cmd sameas installed world = PyRuntimeError.
Proof.
  intros Hc Hs Hn. pose proof (no_command_first_installed q cmd sameas installed world Hc Hs) as H.
  assert (first_installed solver_table installed = None) as E by (apply first_installed_none; intros; apply Hn).
  rewrite E in H. unfold solve. now rewrite H.
Qed.

Theorem solve_unsupported_command q c solver rest installed world :
  sv_split_ws c = solver :: rest -> supported solver = false ->
  solve q (Some c) None installed world = PyRuntimeError.
Proof. intros Hc Hs. unfold solve. now rewrite (unsupported_command q c solver rest installed world Hc Hs). Qed.

Theorem solve_not_installed q c solver rest sameas installed world i :
  sv_split_ws c = solver :: rest ->
  lookup (match sameas with Some s => s | None => solver end) solver_table = Some i ->
  installed solver = false ->
  solve q (Some c) sameas installed world = PyRuntimeError.
Proof.
  intros Hc Hl Hi. unfold solve. rewrite (command_runs q c solver rest sameas installed world _ i Hc eq_refl Hl), Hi. reflexivity.
Qed.

(* a reachable solver speaking the stdin/stdout or file-in/stdout convention *)
Theorem solve_stdout_convention q c solver rest sameas installed world i lines last :
  sv_split_ws c = solver :: rest ->
  lookup (match sameas with Some s => s | None => solver end) solver_table = Some i ->
  installed solver = true -> i <> FileinFileout ->
  world i c = render_text lines last -> wf_text lines last ->
  solve q (Some c) sameas installed world =
  match final_status (all_lines lines last) None with
  | Some true => PyPair true (witness_of q (spelled (all_lines lines last)))
  | Some false => PyPair false None
  | None => PyRuntimeError
  end.
Proof.
  intros Hc Hl Hi Hne Hw Hwf. unfold solve.
  rewrite (command_runs q c solver rest sameas installed world _ i Hc eq_refl Hl), Hi.
  assert (run_iface q i world c = parse_stdout q (world i c)) as -> by (destruct i; [reflexivity|reflexivity|contradiction]).
  rewrite Hw, parse_stdout_conv by assumption.
  destruct (final_status (all_lines lines last) None) as [[|]|]; reflexivity.
Qed.

(* a reachable solver speaking the minisat convention *)
Theorem solve_minisat_convention_sat q c solver rest sameas installed world lead items trail :
  sv_split_ws c = solver :: rest ->
  lookup (match sameas with Some s => s | None => solver end) solver_table = Some FileinFileout ->
  installed solver = true ->
  world FileinFileout c = lead ++ t_SAT ++ join (item_texts items) ++ trail ->
  allspace lead ->
  (forall x, In x items -> sep_ok (fst x) /\ sv_parse_int (fst (snd x)) = Some (snd (snd x))) -> allspace trail ->
  solve q (Some c) sameas installed world = PyPair true (witness_of q (kept (map snd items))).
Proof.
  intros Hc Hl Hi Hw H1 H2 H3. unfold solve.
  rewrite (command_runs q c solver rest sameas installed world _ FileinFileout Hc eq_refl Hl), Hi.
  cbn [run_iface]. rewrite Hw, parse_minisat_sat by assumption. reflexivity.
Qed.

Theorem solve_minisat_convention_unsat q c solver rest sameas installed world lead trail :
  sv_split_ws c = solver :: rest ->
  lookup (match sameas with Some s => s | None => solver end) solver_table = Some FileinFileout ->
  installed solver = true ->
  world FileinFileout c = lead ++ t_UNSAT ++ trail -> allspace lead -> starts_space trail ->
  solve q (Some c) sameas installed world = PyPair false None.
Proof.
  intros Hc Hl Hi Hw H1 H2. unfold solve.
  rewrite (command_runs q c solver rest sameas installed world _ FileinFileout Hc eq_refl Hl), Hi.
  cbn [run_iface]. rewrite Hw, parse_minisat_unsat by assumption. reflexivity.
Qed.

(* the witness handed back: same literals as spelled, ordered by variable, satisfying what A satisfies *)
Theorem witness_of_sorted q A w : witness_of q A = Some w ->
  Permutation w A /\ abs_sorted w /\ forall F, lits_sat w F = lits_sat A F.
Proof.
  unfold witness_of. destruct A as [|x A].
  - destruct (q_empty_none q); [discriminate|]. intros H. inversion H; subst. repeat split; constructor.
  - intros H. assert (w = sort_abs (x :: A)) as -> by congruence.
    split; [apply sort_abs_perm|]. split; [apply sort_abs_sorted|]. intros F. apply lits_sat_sort.
Qed.

Theorem witness_of_as_is A : A <> [] -> witness_of as_is A = Some (sort_abs A).
Proof. destruct A; [contradiction|reflexivity]. Qed.
Theorem witness_of_spec A : witness_of spec A = Some (sort_abs A).
Proof. destruct A; reflexivity. Qed.
Theorem witness_of_as_is_empty : witness_of as_is [] = None.
Proof. reflexivity. Qed.

(* ---------- temporary files ---------- *)
Theorem temp_left_spec o : temp_left spec o = 0%nat.
Proof. destruct o as [r [| |] c| | | |]; reflexivity. Qed.
Theorem temp_left_as_is o : (forall r c, o <> OResult r FileinStdout c) -> temp_left as_is o = 0%nat.
Proof. destruct o as [r [| |] c| | | |]; intros H; try reflexivity. exfalso. now apply (H r c). Qed.

(* ---------- the code as it is (quirks as_is): exact extra hypothesis ---------- *)

Definition py_of_status (q : quirks) (st : option bool) (A : list Z) : py_solve :=
  match st with
  | Some true => PyPair true (witness_of q A)
  | Some false => PyPair false None
  | None => PyRuntimeError
  end.

Definition expected_answer (st : option bool) (A : list Z) : py_solve :=
  match st with
  | Some true => PyPair true (Some (sort_abs A))
  | Some false => PyPair false None
  | None => PyRuntimeError
  end.

Theorem solve_stdout_spec c solver rest sameas installed world i lines last :
  sv_split_ws c = solver :: rest ->
  lookup (match sameas with Some s => s | None => solver end) solver_table = Some i ->
  installed solver = true -> i <> FileinFileout ->
  world i c = render_text lines last -> wf_text lines last ->
  solve spec (Some c) sameas installed world =
  expected_answer (final_status (all_lines lines last) None) (spelled (all_lines lines last)).
Proof.
  intros. erewrite solve_stdout_convention by eassumption.
  unfold expected_answer. destruct (final_status _ None) as [[|]|]; try reflexivity. now rewrite witness_of_spec.
Qed.

Theorem solve_stdout_as_is c solver rest sameas installed world i lines last :
  sv_split_ws c = solver :: rest ->
  lookup (match sameas with Some s => s | None => solver end) solver_table = Some i ->
  installed solver = true -> i <> FileinFileout ->
  world i c = render_text lines last -> wf_text lines last ->
  (final_status (all_lines lines last) None = Some true -> spelled (all_lines lines last) <> []) ->
  solve as_is (Some c) sameas installed world =
  expected_answer (final_status (all_lines lines last) None) (spelled (all_lines lines last)).
Proof.
  intros H1 H2 H3 H4 H5 H6 Hne. erewrite solve_stdout_convention by eassumption.
  unfold expected_answer. destruct (final_status _ None) as [[|]|]; try reflexivity. now rewrite witness_of_as_is by auto.
Qed.

Theorem solve_minisat_spec c solver rest sameas installed world lead items trail :
  sv_split_ws c = solver :: rest ->
  lookup (match sameas with Some s => s | None => solver end) solver_table = Some FileinFileout ->
  installed solver = true ->
  world FileinFileout c = lead ++ t_SAT ++ join (item_texts items) ++ trail ->
  allspace lead ->
  (forall x, In x items -> sep_ok (fst x) /\ sv_parse_int (fst (snd x)) = Some (snd (snd x))) -> allspace trail ->
  solve spec (Some c) sameas installed world = PyPair true (Some (sort_abs (kept (map snd items)))).
Proof. intros. erewrite solve_minisat_convention_sat by eassumption. now rewrite witness_of_spec. Qed.

Theorem solve_minisat_as_is c solver rest sameas installed world lead items trail :
  sv_split_ws c = solver :: rest ->
  lookup (match sameas with Some s => s | None => solver end) solver_table = Some FileinFileout ->
  installed solver = true ->
  world FileinFileout c = lead ++ t_SAT ++ join (item_texts items) ++ trail ->
  allspace lead ->
  (forall x, In x items -> sep_ok (fst x) /\ sv_parse_int (fst (snd x)) = Some (snd (snd x))) -> allspace trail ->
  kept (map snd items) <> [] ->
  solve as_is (Some c) sameas installed world = PyPair true (Some (sort_abs (kept (map snd items)))).
Proof. intros. erewrite solve_minisat_convention_sat by eassumption. now rewrite witness_of_as_is. Qed.

(* ---------- boolean checks of the side conditions (for the examples) ---------- *)

Definition nolineb (l : text) : bool := forallb (fun c => negb (is_linebreak c)) l.
Definition allspaceb (l : text) : bool := forallb is_space l.
Definition nospaceb (l : text) : bool := forallb (fun c => negb (is_space c)) l.
Definition nonemptyb {A} (l : list A) : bool := match l with [] => false | _ => true end.

Lemma nolineb_ok l : nolineb l = true -> noline l.
Proof. unfold nolineb. rewrite forallb_forall. intros H c Hc. apply negb_true_iff. auto. Qed.
Lemma allspaceb_ok l : allspaceb l = true -> allspace l.
Proof. unfold allspaceb. rewrite forallb_forall. auto. Qed.
Lemma nospaceb_ok l : nospaceb l = true -> nospace l.
Proof. unfold nospaceb. rewrite forallb_forall. intros H c Hc. apply negb_true_iff. auto. Qed.
Lemma nonemptyb_ok {A} (l : list A) : nonemptyb l = true -> l <> [].
Proof. destruct l; [discriminate|discriminate]. Qed.

Definition itemb (x : text * (text * Z)) : bool :=
  nonemptyb (fst x) && allspaceb (fst x) &&
  match sv_parse_int (fst (snd x)) with Some z => z =? snd (snd x) | None => false end.

Definition wf_lineb (l : oline) : bool :=
  nolineb (render_line l) &&
  match l with
  | LOther body => match body with [] => true | c :: _ => negb (code c =? 115) && negb (code c =? 118) end
  | LStatus sep w trail => nonemptyb sep && allspaceb sep && nonemptyb w && nospaceb w && allspaceb trail
  | LValues items trail => forallb itemb items && allspaceb trail
  end.

Lemma itemb_ok x : itemb x = true -> sep_ok (fst x) /\ sv_parse_int (fst (snd x)) = Some (snd (snd x)).
Proof.
  unfold itemb. intros H. apply andb_true_iff in H as [H H3]. apply andb_true_iff in H as [H1 H2].
  split; [split; [now apply nonemptyb_ok|now apply allspaceb_ok]|].
  destruct (sv_parse_int (fst (snd x))) as [z|]; [|discriminate]. apply Z.eqb_eq in H3. now subst.
Qed.

Lemma wf_lineb_ok l : wf_lineb l = true -> wf_line l /\ noline (render_line l).
Proof.
  unfold wf_lineb. intros H. apply andb_true_iff in H as [Hn H]. split; [|now apply nolineb_ok].
  destruct l as [body|sep w trail|items trail]; cbn [wf_line].
  - destruct body as [|c body]; [exact I|]. apply andb_true_iff in H as [H1 H2].
    apply negb_true_iff in H1, H2. apply Z.eqb_neq in H1, H2. auto.
  - repeat (apply andb_true_iff in H as [H ?]).
    split; [split; [now apply nonemptyb_ok|now apply allspaceb_ok]|].
    split; [split; [now apply nonemptyb_ok|now apply nospaceb_ok]|now apply allspaceb_ok].
  - apply andb_true_iff in H as [H1 H2]. split; [|now apply allspaceb_ok].
    rewrite forallb_forall in H1. intros x Hx. now apply itemb_ok, H1.
Qed.

Definition wf_textb (lines : list (oline * bool)) (last : option oline) : bool :=
  forallb wf_lineb (all_lines lines last).
Lemma wf_textb_ok lines last : wf_textb lines last = true -> wf_text lines last.
Proof. unfold wf_textb. rewrite forallb_forall. intros H l Hl. now apply wf_lineb_ok, H. Qed.
