(* PipelineRandFacts.v -- lemmas about PipelineRand.v (the whole-program model of cnfgen with randomness). *)
From Coq Require Import ZArith List Bool Ascii String Lia.
From Cnfgen Require Import Sem Comb Linear IR Text Dimacs OpbText Cli GraphSpec GText GraphIO GraphGen Subst Shuffle FamTab FamFast
     C02Common Rand ShuffleMain ShuffleMainFacts DimacsFacts PipelineGraph PipelineGraphFacts Pipeline PipelineFacts PipelineRand.
Import ListNotations.
Open Scope Z_scope.

(* ------------------------------------------------------------------ *)
(* 1. conservative extension                                           *)
(* ------------------------------------------------------------------ *)
Theorem plr_extends argv o : plr_uses_random argv = false -> cnfgen_main_rand argv o = PdOk (cnfgen_main argv) o.
Proof. intros H. unfold cnfgen_main_rand. rewrite H. now rewrite cnfgen_main_fast_eq. Qed.

(* ------------------------------------------------------------------ *)
(* 2. what reaches the writer                                          *)
(* ------------------------------------------------------------------ *)
Definition plr_ok (r : pl_fres) : Prop :=
  match r with
  | FrOk n F => 0 <= n /\ lits_in_range n F = true
  | FrCrash => False
  | _ => True
  end.
Lemma plr_good_ok r : pl_good r -> plr_ok r.
Proof. destruct r; cbn; tauto. Qed.
Lemma plr_checked_ok nv F : plr_ok (plr_checked nv F).
Proof.
  unfold plr_checked. destruct ((0 <=? nv) && lits_in_range nv F) eqn:E; cbn; [|exact I].
  apply andb_true_iff in E as [A B]. split; [lia|exact B].
Qed.

Definition plr_cmd_wf (c : plr_fcmd) : Prop :=
  match c with RcDet d => pl_cmd_wf d | _ => True end.

Lemma plr_shuffle_ok a b c n F o r o' : plr_shuffle a b c n F o = PdOk r o' -> plr_ok r.
Proof.
  unfold plr_shuffle. destruct (plr_belows _ o) as [rs o1| |]; try discriminate.
  destruct (shm_args a b c n (len F) rs) as [[fl pm] cp].
  destruct (shuffle n F fl pm cp); intros H; inversion H; subst; try exact I. apply plr_checked_ok.
Qed.

Lemma plr_tstep_ok t n F o r o' : 0 <= n -> lits_in_range n F = true -> plr_tstep t n F o = PdOk r o' -> plr_ok r.
Proof.
  intros Hn HR. destruct t as [d|a b c]; cbn [plr_tstep].
  - intros H. inversion H; subst. apply plr_good_ok. now apply pl_transform_good.
  - apply plr_shuffle_ok.
Qed.

Lemma plr_chain_ok : forall ts acc o r o', plr_ok acc -> plr_chain ts acc o = PdOk r o' -> plr_ok r.
Proof.
  induction ts as [|t ts IH]; intros acc o r o' A; cbn [plr_chain].
  - intros H. now inversion H; subst.
  - destruct acc as [n F| | |]; try (intros H; inversion H; subst; exact A).
    destruct (plr_tstep t n F o) as [r1 o1| |] eqn:E; try discriminate.
    destruct A as [Hn HR]. apply IH. now apply (plr_tstep_ok t n F o r1 o1).
Qed.

Lemma plr_rand_run_ok xor k n m pl o r o' : plr_rand_run xor k n m pl o = PdOk r o' -> plr_ok r.
Proof.
  unfold plr_rand_run. destruct (snd _); try discriminate.
  destruct xor.
  - destruct (randxor_cmd _ _ _ _ _) as [[[[nv ps] F] rest]| | |]; try discriminate.
    + intros H. inversion H; subst. apply plr_checked_ok.
    + intros H. inversion H; subst. exact I.
    + destruct (snd _); discriminate.
  - destruct (rand_cmd _ _ _ _ _) as [[[nv F] rest]| | |]; try discriminate.
    + intros H. inversion H; subst. apply plr_checked_ok.
    + intros H. inversion H; subst. exact I.
    + destruct (snd _); discriminate.
Qed.

Lemma plr_build_fast_ok d : pl_cmd_wf d -> plr_ok (pl_build_fast d).
Proof. intros W. pose proof (pl_build_fast_eq d) as Ef. rewrite Ef. apply plr_good_ok. now apply pl_build_good. Qed.

Lemma plr_stage_family_ok c o r o' : plr_cmd_wf c -> plr_stage_family c o = PdOk r o' -> plr_ok r.
Proof.
  destruct c as [d|xor k n m pl|mode n E]; cbn [plr_stage_family plr_cmd_wf]; intros W.
  - intros H. injection H as <- _. now apply plr_build_fast_ok.
  - apply plr_rand_run_ok.
  - destruct (plr_belows _ o) as [rs o1| |]; try discriminate. intros H.
    replace r with (pl_build_fast (FcTseitin (Some (plr_charges mode n rs)) n E)) by congruence.
    apply plr_build_fast_ok. exact I.
Qed.

Lemma plr_after_parse_ok c o r o' :
  (forall g, plr_gen_of (plr_head_of c) = Some g -> plr_cmd_wf g) -> plr_after_parse c o = PdOk r o' -> plr_ok r.
Proof.
  intros W. unfold plr_after_parse. destruct (plr_gen_of (plr_head_of c)) as [g|]; [|intros H; inversion H; exact I].
  destruct (pl_all_some (plr_ts c)) as [ts|]; [|intros H; inversion H; exact I].
  destruct (plr_stage_family g o) as [F o1| |] eqn:E; try discriminate.
  apply plr_chain_ok. eapply plr_stage_family_ok; [|exact E]. now apply W.
Qed.

(* ------------------------------------------------------------------ *)
(* 3. the parsers hand well-formed commands to build_formula           *)
(* ------------------------------------------------------------------ *)
Lemma plr_graph_checked_wf G G' : plr_graph_checked GSSimple G = PlOk G' -> graph_wf (io_n G') (io_edges G') = true.
Proof.
  unfold plr_graph_checked. destruct (negb _); [discriminate|].
  destruct (graph_wf (io_n G) (io_edges G)) eqn:E; [|discriminate]. intros H. now inversion H; subst.
Qed.

Lemma plr_graph_arg_simple_wf vs o G o' :
  plr_graph_arg GSSimple vs o = PdOk (PlOk G) o' -> graph_wf (io_n G) (io_edges G) = true.
Proof.
  unfold plr_graph_arg.
  assert (D : forall o1, PdOk (plg_graph_arg GSSimple vs) o1 = PdOk (PlOk G) o' -> graph_wf (io_n G) (io_edges G) = true).
  { intros o1 H. injection H as H _. now apply (pl_simple_arg_wf vs). }
  destruct (gs_make (0, 0) GSSimple vs) as [[plan|e|e]|e]; try apply D.
  destruct plan as [|s mods]; [apply D|]. destruct s; try apply D.
  destruct (_ || _); [|apply D].
  destruct (plr_gen c o) as [[G0| |] o0| |]; try discriminate.
  destruct (plr_steps G0 mods o0) as [[G1| |] o1| |]; try discriminate.
  intros H. injection H as H _. now apply (plr_graph_checked_wf G1).
Qed.

Ltac plr_site_case :=
  match goal with
  | |- (if ?b then _ else _) = Some _ -> _ => destruct b; [discriminate|]; plr_site_case
  | |- match ?x with _ => _ end = Some _ -> _ => destruct x; try discriminate; plr_site_case
  | |- _ => idtac
  end.

Lemma plr_site_of_wf name toks g vs k : plr_site_of name toks = Some (g, vs, k) ->
  forall G c, (g = GSSimple -> graph_wf (io_n G) (io_edges G) = true) -> k G = PlOk c -> plr_cmd_wf c.
Proof.
  unfold plr_site_of.
  repeat match goal with |- (if pl_is name ?s then _ else _) = Some _ -> _ => destruct (pl_is name s) end;
    try discriminate;
    unfold plr_site_int_graph, plr_site_graph_only, plr_site_tseitin, plr_site_php, plr_site_subsetcard;
    plr_site_case; intros H; injection H as <- <- <-; intros G c W K;
    try (specialize (W eq_refl)).
  all: try (injection K as <-; cbn [plr_cmd_wf pl_cmd_wf]; try exact I; try exact W;
            try (now destruct (graph_wf_parts _ _ W))).
  - (* tseitin *) destruct (pl_charge _ _) as [ch|]; injection K as <-; exact I.
  - (* php *) destruct (existsb _ _); [discriminate|]. injection K as <-. exact I.
Qed.

Lemma plr_parse_randk_wf xor toks c : plr_parse_randk xor toks = PlOk c -> plr_cmd_wf c.
Proof.
  unfold plr_parse_randk. destruct (existsb _ _); [discriminate|]. destruct (existsb _ _); [discriminate|].
  destruct (check_args _ _ _) as [[|k [|n [|m [|x l]]]]|]; try discriminate. intros H. injection H as <-. exact I.
Qed.

Lemma plr_parse_formula_wf name toks o c o' : plr_parse_formula name toks o = PdOk (PlOk c) o' -> plr_cmd_wf c.
Proof.
  unfold plr_parse_formula.
  destruct (pl_is name "randkcnf"); [intros H; injection H as H _; now apply plr_parse_randk_wf in H|].
  destruct (pl_is name "randkxor"); [intros H; injection H as H _; now apply plr_parse_randk_wf in H|].
  destruct (plr_site_of name toks) as [[[g vs] k]|] eqn:S.
  - destruct (plr_graph_arg g vs o) as [[G| |] o1| |] eqn:EG; try discriminate.
    intros H. injection H as H _. apply (plr_site_of_wf name toks g vs k S G c); [|exact H].
    intros ->. now apply (plr_graph_arg_simple_wf vs o G o1).
  - intros H. injection H as H _. unfold plr_lift_det in H. apply pl_map_parsed_inv in H as (d & E & ->).
    cbn [plr_cmd_wf]. now apply (pl_parse_formula_wf name toks).
Qed.

Lemma plr_parse_main_wf : forall toks q v b sd o h o' g,
  plr_parse_main q v b sd toks o = PdOk (PlOk h) o' -> plr_gen_of h = Some g -> plr_cmd_wf g.
Proof.
  intros toks. remember (List.length toks) as k eqn:Hk. revert toks Hk.
  induction k as [k IHk] using lt_wf_ind. intros toks Hk q v b sd o h o' g.
  destruct toks as [|t r]; cbn [plr_parse_main].
  { intros H. injection H as <- _. cbn. discriminate. }
  cbn [List.length] in Hk.
  destruct (_ || _).
  { destruct v; [discriminate|]. apply (IHk (List.length r)); [lia|reflexivity]. }
  destruct (_ || _).
  { destruct q; [discriminate|]. apply (IHk (List.length r)); [lia|reflexivity]. }
  destruct (_ || _).
  { destruct r as [|f r']; [discriminate|]. cbn [List.length] in Hk.
    destruct (pl_starts_dash f); [discriminate|].
    destruct (gs_teqb f (lit "dimacs")); [apply (IHk (List.length r')); [lia|reflexivity]|].
    destruct (gs_teqb f (lit "opb")); [apply (IHk (List.length r')); [lia|reflexivity]|].
    destruct (gs_teqb f (lit "latex")); discriminate. }
  destruct (_ || _).
  { destruct r as [|x r']; [discriminate|]. cbn [List.length] in Hk.
    destruct (_ && _); [discriminate|]. destruct (gs_int x); [|discriminate].
    apply (IHk (List.length r')); [lia|reflexivity]. }
  destruct (pl_starts_dash t); [discriminate|].
  destruct (plr_parse_formula t r o) as [[c| |] o1| |] eqn:E; try discriminate.
  intros H. injection H as <- _. cbn [plr_gen_of]. intros Hg. injection Hg as <-.
  now apply (plr_parse_formula_wf t r o c o1).
Qed.

Lemma plr_stage_parse_wf chunks o c o' g :
  plr_stage_parse chunks o = PdOk (PlOk c) o' -> plr_gen_of (plr_head_of c) = Some g -> plr_cmd_wf g.
Proof.
  unfold plr_stage_parse. destruct chunks as [|c0 rest]; [discriminate|].
  destruct (negb _); [discriminate|].
  destruct (plr_parse_main false false false None c0 o) as [[h| |] o1| |] eqn:E; try discriminate.
  destruct (plr_parse_tchunks rest) as [ts| |]; try discriminate.
  intros H. injection H as <- _. cbn [plr_head_of]. now apply (plr_parse_main_wf c0 false false false None o h o1).
Qed.

(* ------------------------------------------------------------------ *)
(* 4. totality and the round trip                                      *)
(* ------------------------------------------------------------------ *)
Lemma plr_main_ok argv o r o' : plr_main argv o = PdOk r o' ->
  r = PCliError \/ r = POutside \/
  exists c n F, r = plr_finish c (FrOk n F) /\ 0 <= n /\ lits_in_range n F = true.
Proof.
  unfold plr_main.
  destruct (plr_stage_parse (pl_chunks_of argv) o) as [[c| |] o1| |] eqn:E; try discriminate.
  - destruct (plr_after_parse c o1) as [f o2| |] eqn:EA; try discriminate.
    intros H. injection H as <- _.
    pose proof (plr_after_parse_ok c o1 f o2 (fun g => plr_stage_parse_wf _ o c o1 g E) EA) as K.
    destruct f as [n F| | |]; cbn in K.
    + right. right. exists c, n, F. now repeat split.
    + left. reflexivity.
    + destruct K.
    + right. left. reflexivity.
  - intros H. injection H as <- _. now left.
  - intros H. injection H as <- _. right. now left.
Qed.

Theorem plr_total argv o :
  (exists text rest, cnfgen_main_rand argv o = PdOk (POut text) rest) \/
  (exists rest, cnfgen_main_rand argv o = PdOk PCliError rest) \/
  (exists rest, cnfgen_main_rand argv o = PdOk POutside rest) \/
  (exists q, cnfgen_main_rand argv o = PdEnd q) \/
  cnfgen_main_rand argv o = PdBad.
Proof.
  unfold cnfgen_main_rand. destruct (plr_uses_random argv).
  - destruct (plr_main argv o) as [r o'|q|] eqn:E.
    + destruct (plr_main_ok argv o r o' E) as [->|[->|(c & n & F & -> & _)]].
      * right. left. now exists o'.
      * right. right. left. now exists o'.
      * unfold plr_finish, pl_render. destruct (pl_quiet _).
        -- left. eexists. exists o'. reflexivity.
        -- right. right. left. now exists o'.
    + right. right. right. left. now exists q.
    + now repeat right.
  - rewrite cnfgen_main_fast_eq. destruct (cnfgen_main_total argv) as [[t H]|[H|H]]; rewrite H.
    + left. now exists t, o.
    + right. left. now exists o.
    + right. right. left. now exists o.
Qed.

Theorem plr_roundtrip argv o text rest : cnfgen_main_rand argv o = PdOk (POut text) rest ->
  exists opb n F, text = pl_write opb None n F /\ 0 <= n /\ lits_in_range n F = true /\
                  (printable n -> printable (len F) -> pl_reads_back opb text n F).
Proof.
  unfold cnfgen_main_rand. destruct (plr_uses_random argv).
  - intros E. destruct (plr_main_ok argv o _ rest E) as [H|[H|(c & n & F & H & Hn & HR)]]; try discriminate.
    unfold plr_finish, pl_render in H. destruct (pl_quiet _); [|discriminate]. injection H as ->.
    eexists. exists n, F. repeat split; try assumption. intros P1 P2. now apply pl_write_reads_back.
  - rewrite cnfgen_main_fast_eq. intros H. injection H as H _.
    destruct (cnfgen_main_roundtrip argv text H) as (n & F & _ & -> & Hn & HR & RB).
    exists (pl_opb_of argv), n, F. now repeat split.
Qed.
