(* PipelineRandFacts.v -- lemmas about PipelineRand.v (the whole-program model of cnfgen with randomness). *)
From Coq Require Import ZArith List Bool Ascii String Lia.
From Cnfgen Require Import Sem Comb Linear IR Text Dimacs OpbText Cli GraphSpec GText GraphIO GraphGen Subst Shuffle FamTab FamFast
     C02Common Rand RandFacts GraphGenFacts ShuffleMain ShuffleMainFacts DimacsFacts PipelineGraph PipelineGraphFacts Pipeline PipelineFacts PipelineRand.
Import ListNotations.
Open Scope Z_scope.

(* ------------------------------------------------------------------ *)
(* 1. conservative extension                                           *)
(* ------------------------------------------------------------------ *)
Theorem plr_extends argv o : plr_uses_random argv = false -> cnfgen_main_rand argv o = PdOk (cnfgen_main argv) o.
Proof. intros H. unfold cnfgen_main_rand. rewrite H. now rewrite cnfgen_main_fast_eq. Qed.

(* ------------------------------------------------------------------ *)
(* 2. what reaches the writer                                          *)
(* ------------------------------------------------------------------ *)
Definition plr_ok (r : pl_fres) : Prop :=
  match r with
  | FrOk n F => 0 <= n /\ lits_in_range n F = true
  | FrCrash => False
  | _ => True
  end.
Lemma plr_good_ok r : pl_good r -> plr_ok r.
Proof. destruct r; cbn; tauto. Qed.
Lemma plr_checked_ok nv F : plr_ok (plr_checked nv F).
Proof.
  unfold plr_checked. destruct ((0 <=? nv) && lits_in_range nv F) eqn:E; cbn; [|exact I].
  apply andb_true_iff in E as [A B]. split; [lia|exact B].
Qed.

Definition plr_cmd_wf (c : plr_fcmd) : Prop :=
  match c with RcDet d => pl_cmd_wf d | _ => True end.

Lemma plr_shuffle_ok a b c n F o r o' : plr_shuffle a b c n F o = PdOk r o' -> plr_ok r.
Proof.
  unfold plr_shuffle. destruct (plr_belows _ o) as [rs o1| |]; try discriminate.
  destruct (shm_args a b c n (len F) rs) as [[fl pm] cp].
  destruct (shuffle n F fl pm cp); intros H; inversion H; subst; try exact I. apply plr_checked_ok.
Qed.

Lemma plr_tstep_ok t n F o r o' : 0 <= n -> lits_in_range n F = true -> plr_tstep t n F o = PdOk r o' -> plr_ok r.
Proof.
  intros Hn HR. destruct t as [d|a b c]; cbn [plr_tstep].
  - intros H. inversion H; subst. apply plr_good_ok. now apply pl_transform_good.
  - apply plr_shuffle_ok.
Qed.

Lemma plr_chain_ok : forall ts acc o r o', plr_ok acc -> plr_chain ts acc o = PdOk r o' -> plr_ok r.
Proof.
  induction ts as [|t ts IH]; intros acc o r o' A; cbn [plr_chain].
  - intros H. now inversion H; subst.
  - destruct acc as [n F| | |]; try (intros H; inversion H; subst; exact A).
    destruct (plr_tstep t n F o) as [r1 o1| |] eqn:E; try discriminate.
    destruct A as [Hn HR]. apply IH. now apply (plr_tstep_ok t n F o r1 o1).
Qed.

Lemma plr_rand_run_ok xor k n m pl o r o' : plr_rand_run xor k n m pl o = PdOk r o' -> plr_ok r.
Proof.
  unfold plr_rand_run. destruct (snd _); try discriminate.
  destruct xor.
  - destruct (randxor_cmd _ _ _ _ _) as [[[[nv ps] F] rest]| | |]; try discriminate.
    + intros H. inversion H; subst. apply plr_checked_ok.
    + intros H. inversion H; subst. exact I.
    + destruct (snd _); discriminate.
  - destruct (rand_cmd _ _ _ _ _) as [[[nv F] rest]| | |]; try discriminate.
    + intros H. inversion H; subst. apply plr_checked_ok.
    + intros H. inversion H; subst. exact I.
    + destruct (snd _); discriminate.
Qed.

Lemma plr_build_fast_ok d : pl_cmd_wf d -> plr_ok (pl_build_fast d).
Proof. intros W. pose proof (pl_build_fast_eq d) as Ef. rewrite Ef. apply plr_good_ok. now apply pl_build_good. Qed.

Lemma plr_stage_family_ok c o r o' : plr_cmd_wf c -> plr_stage_family c o = PdOk r o' -> plr_ok r.
Proof.
  destruct c as [d|xor k n m pl|mode n E]; cbn [plr_stage_family plr_cmd_wf]; intros W.
  - intros H. injection H as <- _. now apply plr_build_fast_ok.
  - apply plr_rand_run_ok.
  - destruct (plr_belows _ o) as [rs o1| |]; try discriminate. intros H.
    replace r with (pl_build_fast (FcTseitin (Some (plr_charges mode n rs)) n E)) by congruence.
    apply plr_build_fast_ok. exact I.
Qed.

Lemma plr_after_parse_ok c o r o' :
  (forall g, plr_gen_of (plr_head_of c) = Some g -> plr_cmd_wf g) -> plr_after_parse c o = PdOk r o' -> plr_ok r.
Proof.
  intros W. unfold plr_after_parse. destruct (plr_gen_of (plr_head_of c)) as [g|]; [|intros H; inversion H; exact I].
  destruct (pl_all_some (plr_ts c)) as [ts|]; [|intros H; inversion H; exact I].
  destruct (plr_stage_family g o) as [F o1| |] eqn:E; try discriminate.
  apply plr_chain_ok. eapply plr_stage_family_ok; [|exact E]. now apply W.
Qed.

(* ------------------------------------------------------------------ *)
(* 3. the parsers hand well-formed commands to build_formula           *)
(* ------------------------------------------------------------------ *)
Lemma plr_graph_checked_wf G G' : plr_graph_checked GSSimple G = PlOk G' -> graph_wf (io_n G') (io_edges G') = true.
Proof.
  unfold plr_graph_checked. destruct (negb _); [discriminate|].
  destruct (graph_wf (io_n G) (io_edges G)) eqn:E; [|discriminate]. intros H. now inversion H; subst.
Qed.

Lemma plr_graph_arg_simple_wf vs o G o' :
  plr_graph_arg GSSimple vs o = PdOk (PlOk G) o' -> graph_wf (io_n G) (io_edges G) = true.
Proof.
  unfold plr_graph_arg.
  assert (D : forall o1, PdOk (plg_graph_arg GSSimple vs) o1 = PdOk (PlOk G) o' -> graph_wf (io_n G) (io_edges G) = true).
  { intros o1 H. injection H as H _. now apply (pl_simple_arg_wf vs). }
  destruct (gs_make (0, 0) GSSimple vs) as [[plan|e|e]|e]; try apply D.
  destruct plan as [|s mods]; [apply D|]. destruct s; try apply D.
  destruct (_ || _); [|apply D].
  destruct (plr_gen c o) as [[G0| |] o0| |]; try discriminate.
  destruct (plr_steps G0 mods o0) as [[G1| |] o1| |]; try discriminate.
  intros H. injection H as H _. now apply (plr_graph_checked_wf G1).
Qed.

Ltac plr_site_case :=
  match goal with
  | |- (if ?b then _ else _) = Some _ -> _ => destruct b; [discriminate|]; plr_site_case
  | |- match ?x with _ => _ end = Some _ -> _ => destruct x; try discriminate; plr_site_case
  | |- _ => idtac
  end.

Lemma plr_site_of_wf name toks g vs k : plr_site_of name toks = Some (g, vs, k) ->
  forall G c, (g = GSSimple -> graph_wf (io_n G) (io_edges G) = true) -> k G = PlOk c -> plr_cmd_wf c.
Proof.
  unfold plr_site_of.
  repeat match goal with |- (if pl_is name ?s then _ else _) = Some _ -> _ => destruct (pl_is name s) end;
    try discriminate;
    unfold plr_site_int_graph, plr_site_graph_only, plr_site_tseitin, plr_site_php, plr_site_subsetcard;
    plr_site_case; intros H; injection H as <- <- <-; intros G c W K;
    try (specialize (W eq_refl)).
  all: try (injection K as <-; cbn [plr_cmd_wf pl_cmd_wf]; try exact I; try exact W;
            try (now destruct (graph_wf_parts _ _ W))).
  - (* tseitin *) destruct (pl_charge _ _) as [ch|]; injection K as <-; exact I.
  - (* php *) destruct (existsb _ _); [discriminate|]. injection K as <-. exact I.
Qed.

Lemma plr_parse_randk_wf xor toks c : plr_parse_randk xor toks = PlOk c -> plr_cmd_wf c.
Proof.
  unfold plr_parse_randk. destruct (existsb _ _); [discriminate|]. destruct (existsb _ _); [discriminate|].
  destruct (check_args _ _ _) as [[|k [|n [|m [|x l]]]]|]; try discriminate. intros H. injection H as <-. exact I.
Qed.

Lemma plr_parse_formula_wf name toks o c o' : plr_parse_formula name toks o = PdOk (PlOk c) o' -> plr_cmd_wf c.
Proof.
  unfold plr_parse_formula.
  destruct (pl_is name "randkcnf"); [intros H; injection H as H _; now apply plr_parse_randk_wf in H|].
  destruct (pl_is name "randkxor"); [intros H; injection H as H _; now apply plr_parse_randk_wf in H|].
  destruct (plr_site_of name toks) as [[[g vs] k]|] eqn:S.
  - destruct (plr_graph_arg g vs o) as [[G| |] o1| |] eqn:EG; try discriminate.
    intros H. injection H as H _. apply (plr_site_of_wf name toks g vs k S G c); [|exact H].
    intros ->. now apply (plr_graph_arg_simple_wf vs o G o1).
  - intros H. injection H as H _. unfold plr_lift_det in H. apply pl_map_parsed_inv in H as (d & E & ->).
    cbn [plr_cmd_wf]. now apply (pl_parse_formula_wf name toks).
Qed.

Lemma plr_parse_main_wf : forall toks q v b sd o h o' g,
  plr_parse_main q v b sd toks o = PdOk (PlOk h) o' -> plr_gen_of h = Some g -> plr_cmd_wf g.
Proof.
  intros toks. remember (List.length toks) as k eqn:Hk. revert toks Hk.
  induction k as [k IHk] using lt_wf_ind. intros toks Hk q v b sd o h o' g.
  destruct toks as [|t r]; cbn [plr_parse_main].
  { intros H. injection H as <- _. cbn. discriminate. }
  cbn [List.length] in Hk.
  destruct (_ || _).
  { destruct v; [discriminate|]. apply (IHk (List.length r)); [lia|reflexivity]. }
  destruct (_ || _).
  { destruct q; [discriminate|]. apply (IHk (List.length r)); [lia|reflexivity]. }
  destruct (_ || _).
  { destruct r as [|f r']; [discriminate|]. cbn [List.length] in Hk.
    destruct (pl_starts_dash f); [discriminate|].
    destruct (gs_teqb f (lit "dimacs")); [apply (IHk (List.length r')); [lia|reflexivity]|].
    destruct (gs_teqb f (lit "opb")); [apply (IHk (List.length r')); [lia|reflexivity]|].
    destruct (gs_teqb f (lit "latex")); discriminate. }
  destruct (_ || _).
  { destruct r as [|x r']; [discriminate|]. cbn [List.length] in Hk.
    destruct (_ && _); [discriminate|]. destruct (gs_int x); [|discriminate].
    apply (IHk (List.length r')); [lia|reflexivity]. }
  destruct (pl_starts_dash t); [discriminate|].
  destruct (plr_parse_formula t r o) as [[c| |] o1| |] eqn:E; try discriminate.
  intros H. injection H as <- _. cbn [plr_gen_of]. intros Hg. injection Hg as <-.
  now apply (plr_parse_formula_wf t r o c o1).
Qed.

Lemma plr_stage_parse_wf chunks o c o' g :
  plr_stage_parse chunks o = PdOk (PlOk c) o' -> plr_gen_of (plr_head_of c) = Some g -> plr_cmd_wf g.
Proof.
  unfold plr_stage_parse. destruct chunks as [|c0 rest]; [discriminate|].
  destruct (negb _); [discriminate|].
  destruct (plr_parse_main false false false None c0 o) as [[h| |] o1| |] eqn:E; try discriminate.
  destruct (plr_parse_tchunks rest) as [ts| |]; try discriminate.
  intros H. injection H as <- _. cbn [plr_head_of]. now apply (plr_parse_main_wf c0 false false false None o h o1).
Qed.

(* ------------------------------------------------------------------ *)
(* 4. totality and the round trip                                      *)
(* ------------------------------------------------------------------ *)
Lemma plr_main_ok argv o r o' : plr_main argv o = PdOk r o' ->
  r = PCliError \/ r = POutside \/
  exists c n F, r = plr_finish c (FrOk n F) /\ 0 <= n /\ lits_in_range n F = true.
Proof.
  unfold plr_main.
  destruct (plr_stage_parse (pl_chunks_of argv) o) as [[c| |] o1| |] eqn:E; try discriminate.
  - destruct (plr_after_parse c o1) as [f o2| |] eqn:EA; try discriminate.
    intros H. injection H as <- _.
    pose proof (plr_after_parse_ok c o1 f o2 (fun g => plr_stage_parse_wf _ o c o1 g E) EA) as K.
    destruct f as [n F| | |]; cbn in K.
    + right. right. exists c, n, F. now repeat split.
    + left. reflexivity.
    + destruct K.
    + right. left. reflexivity.
  - intros H. injection H as <- _. now left.
  - intros H. injection H as <- _. right. now left.
Qed.

Theorem plr_total argv o :
  (exists text rest, cnfgen_main_rand argv o = PdOk (POut text) rest) \/
  (exists rest, cnfgen_main_rand argv o = PdOk PCliError rest) \/
  (exists rest, cnfgen_main_rand argv o = PdOk POutside rest) \/
  (exists q, cnfgen_main_rand argv o = PdEnd q) \/
  cnfgen_main_rand argv o = PdBad.
Proof.
  unfold cnfgen_main_rand. destruct (plr_uses_random argv).
  - destruct (plr_main argv o) as [r o'|q|] eqn:E.
    + destruct (plr_main_ok argv o r o' E) as [->|[->|(c & n & F & -> & _)]].
      * right. left. now exists o'.
      * right. right. left. now exists o'.
      * unfold plr_finish, pl_render. destruct (pl_quiet _).
        -- left. eexists. exists o'. reflexivity.
        -- right. right. left. now exists o'.
    + right. right. right. left. now exists q.
    + now repeat right.
  - rewrite cnfgen_main_fast_eq. destruct (cnfgen_main_total argv) as [[t H]|[H|H]]; rewrite H.
    + left. now exists t, o.
    + right. left. now exists o.
    + right. right. left. now exists o.
Qed.

Theorem plr_roundtrip argv o text rest : cnfgen_main_rand argv o = PdOk (POut text) rest ->
  exists opb n F, text = pl_write opb None n F /\ 0 <= n /\ lits_in_range n F = true /\
                  (printable n -> printable (len F) -> pl_reads_back opb text n F).
Proof.
  unfold cnfgen_main_rand. destruct (plr_uses_random argv).
  - intros E. destruct (plr_main_ok argv o _ rest E) as [H|[H|(c & n & F & H & Hn & HR)]]; try discriminate.
    unfold plr_finish, pl_render in H. destruct (pl_quiet _); [|discriminate]. injection H as ->.
    eexists. exists n, F. repeat split; try assumption. intros P1 P2. now apply pl_write_reads_back.
  - rewrite cnfgen_main_fast_eq. intros H. injection H as H _.
    destruct (cnfgen_main_roundtrip argv text H) as (n & F & _ & -> & Hn & HR & RB).
    exists (pl_opb_of argv), n, F. now repeat split.
Qed.

(* ------------------------------------------------------------------ *)
(* 5. runs against a generator                                         *)
(* ------------------------------------------------------------------ *)
Section Gen.
  Context {G : Type} (bits : Z -> G -> Z * G).

  Lemma plr_gen_loop_replay f : forall fuel g o r o', plr_gen_loop bits fuel f g o = Some (r, o') ->
    f o' = r /\ (forall q, r <> PdEnd q) /\ exists ext, o' = o ++ ext.
  Proof.
    induction fuel as [|fl IH]; intros g o r o'; cbn [plr_gen_loop]; [discriminate|].
    destruct (f o) as [a rest|[k]|] eqn:E.
    - intros H. injection H as <- <-. repeat split; [exact E|discriminate|exists []; now rewrite app_nil_r].
    - destruct (bits k g) as [v g']. intros H. destruct (IH g' (o ++ [v]) r o' H) as (A & B & ext & C).
      repeat split; [exact A|exact B|]. exists (v :: ext). rewrite C, <- app_assoc. reflexivity.
    - intros H. injection H as <- <-. repeat split; [exact E|discriminate|exists []; now rewrite app_nil_r].
  Qed.

  Theorem plr_run_is_replay seed_fn fuel argv g0 r oracle :
    cnfgen_run_rand bits seed_fn fuel argv g0 = Some (r, oracle) ->
    cnfgen_main_rand argv oracle = r /\ forall q, r <> PdEnd q.
  Proof.
    unfold cnfgen_run_rand. intros H. apply plr_gen_loop_replay in H as (A & B & _). now split.
  Qed.

  Theorem plr_seeded_runs_agree seed_fn fuel argv s : plr_seed argv = Some s ->
    forall g1 g2, cnfgen_run_rand bits seed_fn fuel argv g1 = cnfgen_run_rand bits seed_fn fuel argv g2.
  Proof. intros H g1 g2. unfold cnfgen_run_rand. now rewrite H. Qed.
End Gen.

(* ------------------------------------------------------------------ *)
(* 6. the stream is read front to back: frames                         *)
(* ------------------------------------------------------------------ *)
Definition plr_framed {A} (f : list Z -> plr_dr A) : Prop :=
  forall o a r t, f o = PdOk a r -> f (o ++ t) = PdOk a (r ++ t).

Lemma plr_randbelow_framed n : plr_framed (plr_randbelow n).
Proof.
  intros o a r t. unfold plr_randbelow. destruct (shm_randbelow n o) as [x o'| |] eqn:E; try discriminate.
  intros H. injection H as <- <-. now rewrite (shm_randbelow_app n t o x o' E).
Qed.

Lemma plr_belows_framed : forall bs, plr_framed (plr_belows bs).
Proof.
  induction bs as [|b bs IH]; intros o a r t; cbn [plr_belows].
  - intros H. now injection H as <- <-.
  - destruct (plr_randbelow b o) as [x o1| |] eqn:E; try discriminate.
    rewrite (plr_randbelow_framed b o x o1 t E).
    destruct (plr_belows bs o1) as [xs o2| |] eqn:E2; try discriminate.
    rewrite (IH o1 xs o2 t E2). intros H. now injection H as <- <-.
Qed.

Lemma plr_belows_shm bs o rs rest : plr_belows bs o = PdOk rs rest <-> shm_draws bs o = DrOk rs rest.
Proof.
  revert o rs rest. induction bs as [|b bs IH]; intros o rs rest; cbn [plr_belows shm_draws].
  - split; intros H; now injection H as <- <-.
  - unfold plr_randbelow. destruct (shm_randbelow b o) as [x o1| |]; try (split; discriminate).
    specialize (IH o1). destruct (plr_belows bs o1) as [xs o2| |]; destruct (shm_draws bs o1) as [ys o3| |];
      try (split; discriminate);
      try (exfalso; match goal with
                    | H : forall rs rest, PdOk ?a ?b = PdOk rs rest <-> _ |- _ => destruct (H a b) as [K _]; specialize (K eq_refl); discriminate
                    | H : forall rs rest, _ <-> DrOk ?a ?b = DrOk rs rest |- _ => destruct (H a b) as [_ K]; specialize (K eq_refl); discriminate
                    end).
    destruct (IH xs o2) as [K _]. specialize (K eq_refl). injection K as <- <-.
    split; intros H; now injection H as <- <-.
Qed.

Lemma plr_shuffle_framed a b c n F : plr_framed (plr_shuffle a b c n F).
Proof.
  intros o r rest t. unfold plr_shuffle.
  destruct (plr_belows _ o) as [rs o1| |] eqn:E; try discriminate.
  rewrite (plr_belows_framed _ o rs o1 t E).
  destruct (shm_args a b c n (len F) rs) as [[fl pm] cp].
  destruct (shuffle n F fl pm cp); intros H; now injection H as <- <-.
Qed.

Lemma plr_tstep_framed t n F : plr_framed (plr_tstep t n F).
Proof.
  destruct t as [d|a b c]; cbn [plr_tstep].
  - intros o r rest t H. now injection H as <- <-.
  - apply plr_shuffle_framed.
Qed.

Lemma plr_chain_framed : forall ts acc, plr_framed (plr_chain ts acc).
Proof.
  induction ts as [|t ts IH]; intros acc o r rest e; cbn [plr_chain].
  - intros H. now injection H as <- <-.
  - destruct acc as [n F| | |]; try (intros H; now injection H as <- <-).
    destruct (plr_tstep t n F o) as [r1 o1| |] eqn:E; try discriminate.
    rewrite (plr_tstep_framed t n F o r1 o1 e E). apply IH.
Qed.

(* the families whose draws are read by the model itself *)
Lemma plr_stage_family_framed c : (forall x k n m p, c <> RcRand x k n m p) -> plr_framed (plr_stage_family c).
Proof.
  intros NR. destruct c as [d|x k n m p|mode n E]; cbn [plr_stage_family].
  - intros o r rest t H. now injection H as <- <-.
  - now destruct (NR x k n m p).
  - intros o r rest t. cbn [plr_stage_family]. destruct (plr_belows (plr_charge_bounds mode n) o) as [rs o1| |] eqn:Eb; try discriminate.
    rewrite (plr_belows_framed _ o rs o1 t Eb). intros H. now injection H as <- <-.
Qed.

(* one transformation reads its own part of the stream *)
Theorem plr_chain_split t ts n F oa ob r :
  plr_tstep t n F oa = PdOk r [] -> plr_chain (t :: ts) (FrOk n F) (oa ++ ob) = plr_chain ts r ob.
Proof. intros H. cbn [plr_chain]. now rewrite (plr_tstep_framed t n F oa r [] ob H). Qed.

(* THE ORDER OF THE DRAWS: (graph argument, sampled while parsing) ++ (family) ++ (transformations, left to right).
   "reads exactly o" is stated with the frame: whatever follows is left unread *)
Theorem plr_draw_order argv o1 o2 o3 c g ts F :
  plr_uses_random argv = true ->
  (forall t, plr_stage_parse (pl_chunks_of argv) (o1 ++ t) = PdOk (PlOk c) t) ->
  plr_gen_of (plr_head_of c) = Some g -> pl_all_some (plr_ts c) = Some ts ->
  (forall t, plr_stage_family g (o2 ++ t) = PdOk F t) ->
  cnfgen_main_rand argv (o1 ++ o2 ++ o3) =
    match plr_chain ts F o3 with
    | PdOk r rest => PdOk (plr_finish c r) rest
    | PdEnd q => PdEnd q
    | PdBad => PdBad
    end.
Proof.
  intros U P Hg Ht Fm. unfold cnfgen_main_rand. rewrite U. unfold plr_main. rewrite P.
  unfold plr_after_parse. rewrite Hg, Ht, Fm. reflexivity.
Qed.

(* a stage that is framed and reads o to its end satisfies the hypothesis of plr_draw_order *)
Lemma plr_framed_exact {A} (f : list Z -> plr_dr A) o a : plr_framed f -> f o = PdOk a [] -> forall t, f (o ++ t) = PdOk a t.
Proof. intros Fr H t. exact (Fr o a [] t H). Qed.

(* the bounds of the draws of each stage are functions of the command line and of the results of the stages before *)
Theorem plr_stage_bounds :
  (forall a b c n F o, plr_shuffle a b c n F o =
     match plr_belows (shm_bounds a b c n (len F)) o with
     | PdOk rs o' => let '(fl, pm, cp) := shm_args a b c n (len F) rs in
                     match shuffle n F fl pm cp with ShOk n' out => PdOk (plr_checked n' out) o' | _ => PdOk FrErr o' end
     | PdEnd q => PdEnd q
     | PdBad => PdBad
     end) /\
  (forall mode n E o, plr_stage_family (RcTseitin mode n E) o =
     match plr_belows (repeat 2 (Z.to_nat (if mode =? 0 then n else n - 1))) o with
     | PdOk rs o' => PdOk (pl_build_fast (FcTseitin (Some (plr_charges mode n rs)) n E)) o'
     | PdEnd q => PdEnd q
     | PdBad => PdBad
     end) /\
  (forall l r d, exists calls, forall o, plr_gen (GCGlrd l r d) o = plr_exact calls (gg_left_regular l r d) o) /\
  (forall G k, exists calls, forall o, plr_step G (SPlantClique k) o = plr_exact calls (gg_plantclique G k) o) /\
  (forall G a b, exists calls, forall o, plr_step G (SPlantBiclique a b) o = plr_exact calls (gg_plantbiclique G a b) o) /\
  (forall G k, exists calls, forall o, plr_step G (SSplitEdges k) o = plr_exact calls (gg_split_edges G k) o).
Proof.
  repeat split; try reflexivity; intros; eexists; intros; reflexivity.
Qed.

(* ------------------------------------------------------------------ *)
(* 7. C13 / C15 carried to the tool                                    *)
(* ------------------------------------------------------------------ *)
Lemma plr_checked_inv nv F n F' : plr_checked nv F = FrOk n F' -> n = nv /\ F' = F.
Proof. unfold plr_checked. destruct (_ && _); [|discriminate]. intros H. now injection H as <- <-. Qed.

(* randkcnf k n m [--plant]: exactly m pairwise distinct clauses, each on k distinct variables of 1..n *)
Theorem plr_randkcnf_shape k n m pl o nv F rest :
  plr_rand_run false k n m pl o = PdOk (FrOk nv F) rest ->
  nv = n /\ len F = m /\ NoDup F /\
  (forall c, In c F -> len c = k /\ NoDup (map Z.abs c) /\ (forall l, In l c -> 1 <= Z.abs l <= n)).
Proof.
  unfold plr_rand_run. destruct (snd _); try discriminate.
  destruct (rand_cmd k n m pl _) as [[[nv' F'] rest']| | |] eqn:E; try discriminate.
  2: destruct (snd _); discriminate.
  intros H. injection H as H _. apply plr_checked_inv in H as [-> ->].
  assert (S : exists planted s, random_kcnf k n m planted s = ROk (nv', F', rest')).
  { destruct pl.
    - destruct (rand_cmd_planted k n m _ nv' F' rest' E) as (p & s1 & _ & R & _). now exists [p], s1.
    - unfold rand_cmd in E. exists []. eexists. exact E. }
  destruct S as (planted & s & R).
  destruct (random_kcnf_shape_plain k n m planted s nv' F' rest' R) as (A & B & C & D).
  split; [exact A|]. split; [exact B|]. split; [exact C|]. intros c Hc. destruct (D c Hc) as (D1 & D2 & D3 & _). split; [exact D1|]. split; [exact D2|exact D3].
Qed.

(* a clean error only when no such formula exists *)
Theorem plr_randkcnf_error k n m o rest :
  plr_rand_run false k n m false o = PdOk FrErr rest ->
  n < 0 \/ m < 0 \/ k < 0 \/ k > n \/ m > len (all_clauses k n []).
Proof.
  unfold plr_rand_run. cbn [snd fst]. destruct (rand_cmd k n m false _) as [[[nv' F'] rest']| | |] eqn:E; try discriminate.
  - intros H. injection H as H _. unfold plr_checked in H. destruct (_ && _); discriminate.
  - intros _. unfold rand_cmd in E. now apply random_kcnf_verr in E.
  - destruct (snd _); discriminate.
Qed.

Lemma plr_exact_inv {A} calls (hl : gg_stream -> gg_res (A * gg_stream)) o a o' :
  plr_exact calls hl o = PdOk (PlOk a) o' -> exists s s', hl s = GGOk (a, s').
Proof.
  unfold plr_exact. destruct (hl _) as [[a' s']|e| | |] eqn:E.
  - destruct (snd _); try discriminate. intros H. injection H as <- _. eexists. exists s'. exact E.
  - destruct e; discriminate.
  - discriminate.
  - destruct (snd _); discriminate.
  - discriminate.
Qed.

(* glrd L R d: every left vertex has degree min(R, d) *)
Theorem plr_glrd_regular l r d o G o' : plr_gen (GCGlrd l r d) o = PdOk (PlOk G) o' ->
  io_kind G = GioBipartite /\ io_n G = l /\ io_r G = r /\
  forall u, 1 <= u <= l -> Z.of_nat (List.length (gio_succs G u)) = Z.min r d.
Proof.
  cbn [plr_gen]. intros H. apply plr_exact_inv in H as (s & s' & H). exact (left_regular_degree l r d s G s' H).
Qed.
