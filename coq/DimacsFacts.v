(* DimacsFacts.v — proofs about Dimacs.v: soundness of the reader for every
   text, shape of the writer's output, round trip for every valid formula. *)
From Coq Require Import String ZArith List Bool Ascii Lia ZifyBool.
From Cnfgen Require Import Sem SemFacts Text TextFacts Dimacs.
Import ListNotations.
Open Scope Z_scope.

(* ------------------------------------------------------------------ *)
(* split0 *)

Lemma split0_app : forall x y,
  split0 (x ++ y) =
  (fst (split0 x) ++ fst (split0 (snd (split0 x) ++ y)), snd (split0 (snd (split0 x) ++ y))).
Proof.
  induction x as [|z x IH]; intros y.
  - cbn [app split0 fst snd]. destruct (split0 y); reflexivity.
  - cbn [app split0]. rewrite IH. destruct (split0 x) as [cs tl]. cbn [fst snd].
    destruct (z =? 0) eqn:Hz.
    + cbn [fst snd app]. reflexivity.
    + destruct cs as [|c cs'].
      * cbn [fst snd app split0]. destruct (split0 (tl ++ y)) as [cy ty]. cbn [fst snd].
        rewrite Hz. destruct cy; reflexivity.
      * cbn [fst snd app]. reflexivity.
Qed.

Lemma split0_clause : forall c, Forall (fun z => z <> 0) c -> split0 (c ++ [0]) = ([c], []).
Proof.
  induction c as [|z c IH]; intros H; [reflexivity|].
  inversion H as [|? ? Hz Hc]; subst. cbn [app split0]. rewrite (IH Hc).
  destruct (z =? 0) eqn:E; [lia|reflexivity].
Qed.

(* every literal of a cut-out clause is a non-zero number of the sequence *)
Lemma split0_members : forall x c z, In c (fst (split0 x)) -> In z c -> In z x /\ z <> 0.
Proof.
  induction x as [|y x IH]; intros c z Hc Hz; [cbn in Hc; contradiction|].
  cbn [split0] in Hc. destruct (split0 x) as [cs tl] eqn:E. cbn [fst] in IH.
  destruct (y =? 0) eqn:Hy.
  - cbn [fst] in Hc. destruct Hc as [<-|Hc]; [contradiction|].
    destruct (IH c z Hc Hz). split; [right|]; assumption.
  - destruct cs as [|c0 cs']; [cbn in Hc; contradiction|].
    cbn [fst] in Hc. destruct Hc as [<-|Hc].
    + destruct Hz as [<-|Hz]; [split; [left; reflexivity|lia]|].
      destruct (IH c0 z (or_introl eq_refl) Hz). split; [right|]; assumption.
    + destruct (IH c z (or_intror Hc) Hz). split; [right|]; assumption.
Qed.

(* ------------------------------------------------------------------ *)
(* lists of tokens *)

Lemma ints_of_app : forall a b,
  ints_of (a ++ b) = match ints_of a, ints_of b with
                     | Some x, Some y => Some (x ++ y)
                     | _, _ => None
                     end.
Proof.
  induction a as [|t a IH]; intros b; cbn [app ints_of].
  - destruct (ints_of b); reflexivity.
  - rewrite IH. destruct (parse_int t); [|reflexivity].
    destruct (ints_of a); [|reflexivity]. destruct (ints_of b); reflexivity.
Qed.

Lemma ints_of_printed : forall zs, Forall small zs -> ints_of (map print_Z zs) = Some zs.
Proof.
  induction zs as [|z zs IH]; intros H; [reflexivity|].
  inversion H; subst. cbn [map ints_of]. rewrite parse_int_print_Z, IH by assumption. reflexivity.
Qed.

(* ------------------------------------------------------------------ *)
(* the kind of a line, as the reader finds it *)

Lemma strip_kind l :
  match strip l with
  | [] => line_kind l = KBlank
  | c :: _ => line_kind l = if Ascii.eqb c "c"%char then KComment
                            else if Ascii.eqb c "p"%char then KSpec else KData
  end.
Proof.
  pose proof (strip_lstrip_head l) as H. unfold line_kind.
  destruct (lstrip l) as [|c r].
  - rewrite H. reflexivity.
  - destruct H as (r' & ->). reflexivity.
Qed.

Lemma parse_spec_strip l : parse_spec (strip l) = parse_spec l.
Proof. unfold parse_spec. rewrite split_ws_strip. reflexivity. Qed.

Lemma data_tokens_cons l ls :
  data_tokens (l :: ls) = if is_data l then split_ws l ++ data_tokens ls else data_tokens ls.
Proof. unfold data_tokens. cbn [filter]. destruct (is_data l); reflexivity. Qed.

Lemma spec_lines_cons l ls :
  spec_lines (l :: ls) = if is_spec l then l :: spec_lines ls else spec_lines ls.
Proof. reflexivity. Qed.

(* ------------------------------------------------------------------ *)
(* soundness of the reader, for every list of lines and every reachable state *)

Lemma parse_lines_sound : forall ls spec buf count k n F,
  parse_lines spec buf count k ls = DOk n F ->
  exists zs m,
    ints_of (data_tokens ls) = Some zs /\
    split0 (buf ++ zs) = (F, []) /\
    forallb (lit_ok n) zs = true /\
    m = count + len F /\
    match spec with
    | Some (n0, m0) => n0 = n /\ m0 = m /\ spec_lines ls = []
    | None => exists sl, spec_lines ls = [sl] /\ parse_spec sl = Some (n, m)
    end.
Proof.
  induction ls as [|l ls IH]; intros spec buf count k n F H.
  - cbn [parse_lines] in H. destruct buf as [|b buf]; [|discriminate H]. cbn [nonempty] in H.
    destruct spec as [[n0 m0]|]; [|discriminate H].
    destruct (m0 =? count) eqn:E; [|discriminate H]. inversion H; subst.
    exists [], count. cbn. repeat split; try reflexivity; lia.
  - cbn [parse_lines] in H. pose proof (strip_kind l) as K.
    rewrite data_tokens_cons, spec_lines_cons. unfold is_data, is_spec.
    destruct (strip l) as [|c r] eqn:Es.
    + rewrite K. apply IH in H. exact H.
    + destruct (Ascii.eqb c "c"%char) eqn:Ec.
      * rewrite K. apply IH in H. exact H.
      * destruct (Ascii.eqb c "p"%char) eqn:Ep.
        -- rewrite K. destruct spec as [nm0|]; [discriminate H|].
           destruct (parse_spec (c :: r)) as [[n1 m1]|] eqn:Esp; [|discriminate H].
           apply IH in H. destruct H as (zs & m & H1 & H2 & H3 & H4 & H5 & H6 & H7).
           subst n1. subst m1. exists zs, m. repeat split; try assumption.
           exists l. rewrite H7. split; [reflexivity|].
           rewrite <- parse_spec_strip, Es. exact Esp.
        -- rewrite K. destruct spec as [[n0 m0]|]; [|discriminate H].
           destruct (ints_of (split_ws (c :: r))) as [zs|] eqn:Ei; [|discriminate H].
           destruct (forallb (lit_ok n0) zs) eqn:Eok; [|discriminate H].
           destruct (split0 (buf ++ zs)) as [cs buf'] eqn:E0.
           destruct (parse_lines (Some (n0, m0)) buf' (count + len cs) (k + 1) ls) as [n' F'|] eqn:Er;
             [|discriminate H].
           inversion H; subst n' F. clear H.
           apply IH in Er. destruct Er as (zs' & m & H1 & H2 & H3 & H4 & H5 & H6 & H7).
           subst n0 m0. exists (zs ++ zs'), m.
           rewrite <- Es, split_ws_strip in Ei.
           rewrite ints_of_app, Ei, H1. split; [reflexivity|].
           split.
           { rewrite app_assoc, split0_app, E0. cbn [fst snd]. rewrite H2. reflexivity. }
           split; [rewrite forallb_app, Eok, H3; reflexivity|].
           split; [rewrite len_app; lia|].
           repeat split; assumption.
Qed.

Lemma lit_ok_in n z : lit_ok n z = true -> z <> 0 -> lit_in n z.
Proof. unfold lit_ok, lit_in. lia. Qed.

Theorem parse_sound_lines : forall ls n F,
  parse_lines None [] 0 0 ls = DOk n F ->
  exists sl m, spec_lines ls = [sl] /\ parse_spec sl = Some (n, m) /\ m = len F /\ 0 <= n /\
               clauses_written ls = Some (F, []) /\ Forall (Forall (lit_in n)) F.
Proof.
  intros ls n F H. apply parse_lines_sound in H.
  destruct H as (zs & m & H1 & H2 & H3 & H4 & sl & H5 & H6).
  cbn [app] in H2. exists sl, m. repeat split; try assumption; try lia.
  - unfold parse_spec in H6. destruct (split_ws sl) as [|? [|? [|a [|b [|? ?]]]]]; try discriminate.
    destruct (parse_int a) as [n1|]; [|discriminate]. destruct (parse_int b) as [m1|]; [|discriminate].
    destruct ((n1 <? 0) || (m1 <? 0)) eqn:E; [discriminate|]. inversion H6; subst. lia.
  - unfold clauses_written. rewrite H1, H2. reflexivity.
  - rewrite Forall_forall. intros c Hc. rewrite Forall_forall. intros z Hz.
    assert (Hm : In z zs /\ z <> 0).
    { apply (split0_members zs c z); [rewrite H2; exact Hc | exact Hz]. }
    destruct Hm as [Hin Hnz]. rewrite forallb_forall in H3. apply lit_ok_in; auto.
Qed.

(* ------------------------------------------------------------------ *)
(* shape of the writer's lines *)

Definition starts_c (l : text) : Prop := exists r, l = "c"%char :: r.

Lemma starts_c_kind l : starts_c l -> line_kind l = KComment.
Proof. intros (r & ->). reflexivity. Qed.

Lemma header_line_as_found_starts_c fv : starts_c (header_line_as_found fv).
Proof. unfold header_line_as_found, ascii_replace. cbn. eexists; reflexivity. Qed.

Lemma varname_lines_as_found_start_c : forall names i, Forall starts_c (varname_lines_as_found i names).
Proof.
  induction names as [|nm names IH]; intros i; cbn [varname_lines_as_found]; constructor.
  - cbn. eexists; reflexivity.
  - apply IH.
Qed.

Lemma comment_lines_as_found_start_c h names : Forall starts_c (comment_lines_as_found h names).
Proof.
  unfold comment_lines_as_found. apply Forall_app. split.
  - destruct h as [h|]; [|constructor]. apply Forall_app. split.
    + rewrite Forall_forall. intros l Hl. apply in_map_iff in Hl as (fv & <- & _).
      apply header_line_as_found_starts_c.
    + constructor; [eexists; reflexivity|constructor].
  - destruct names as [ns|]; [|constructor]. apply Forall_app. split.
    + apply varname_lines_as_found_start_c.
    + constructor; [eexists; reflexivity|constructor].
Qed.

Lemma clause_line_head c : exists ch r, clause_line c = ch :: r /\ is_num_char ch = true.
Proof.
  unfold clause_line. destruct c as [|l c].
  - cbn. eexists _, _; split; reflexivity.
  - cbn [map concat]. destruct (print_Z_head l) as (ch & r & E & Hc). rewrite E.
    cbn [app]. eexists _, _; split; [reflexivity|exact Hc].
Qed.

Lemma num_head_kind ch r : is_num_char ch = true -> line_kind (ch :: r) = KData.
Proof.
  intros H. unfold line_kind. rewrite lstrip_nonspace by (apply num_char_not_space, H).
  rewrite (num_char_not ch "c"%char H eq_refl), (num_char_not ch "p"%char H eq_refl). reflexivity.
Qed.

Lemma clause_line_kind c : line_kind (clause_line c) = KData.
Proof. destruct (clause_line_head c) as (ch & r & -> & H). apply num_head_kind, H. Qed.

Lemma spec_line_kind n m : line_kind (spec_line n m) = KSpec.
Proof. reflexivity. Qed.

Lemma spec_line_tokens n m :
  split_ws (spec_line n m) = [lit "p"; lit "cnf"; print_Z n; print_Z m].
Proof.
  assert (E : spec_line n m =
              concat (map (fun t => t ++ [SP]) [lit "p"; lit "cnf"; print_Z n]) ++ print_Z m).
  { unfold spec_line. cbn [map concat]. cbn [lit list_ascii_of_string app].
    rewrite <- !app_assoc. reflexivity. }
  rewrite E, split_ws_joined; [reflexivity| |apply print_Z_token].
  cbn [forallb]. rewrite print_Z_token. reflexivity.
Qed.

Lemma parse_spec_spec_line n m : 0 <= n -> 0 <= m -> small n -> small m ->
  parse_spec (spec_line n m) = Some (n, m).
Proof.
  intros Hn Hm Sn Sm. unfold parse_spec. rewrite spec_line_tokens.
  rewrite !parse_int_print_Z by assumption.
  destruct ((n <? 0) || (m <? 0)) eqn:E; [lia|reflexivity].
Qed.

Lemma clause_line_tokens c : split_ws (clause_line c) = map print_Z c ++ [lit "0"].
Proof.
  unfold clause_line. rewrite <- (map_map print_Z (fun t => t ++ [SP])).
  apply split_ws_joined; [|reflexivity].
  rewrite forallb_forall. intros t Ht. apply in_map_iff in Ht as (z & <- & _). apply print_Z_token.
Qed.

(* line breaks *)
Definition nb (c : ascii) : bool := negb (is_lf c) && negb (is_cr c).

Lemma no_break_app a b : no_break (a ++ b) = no_break a && no_break b.
Proof. unfold no_break. apply forallb_app. Qed.

Lemma num_char_nb c : is_num_char c = true -> nb c = true.
Proof.
  intros H. unfold nb, is_lf, is_cr.
  rewrite (num_char_not c LF H eq_refl), (num_char_not c CR H eq_refl). reflexivity.
Qed.

Lemma no_break_print_Z z : no_break (print_Z z) = true.
Proof.
  unfold no_break. pose proof (print_Z_num z) as H. rewrite forallb_forall in *.
  intros c Hc. apply num_char_nb, H, Hc.
Qed.

Lemma no_break_ascii_replace s : no_break s = true -> no_break (ascii_replace s) = true.
Proof.
  unfold no_break, ascii_replace. rewrite forallb_map. intros H.
  rewrite forallb_forall in *. intros c Hc. specialize (H c Hc).
  destruct (127 <? code c); [reflexivity|exact H].
Qed.

Lemma no_break_header_line_as_found fv : no_break (fst fv) && no_break (snd fv) = true ->
  no_break (header_line_as_found fv) = true.
Proof.
  intros H. apply andb_true_iff in H as [H1 H2]. unfold header_line_as_found.
  apply no_break_ascii_replace. rewrite !no_break_app, H1, H2. reflexivity.
Qed.

Lemma no_break_varname_lines_as_found : forall names i, forallb no_break names = true ->
  forallb no_break (varname_lines_as_found i names) = true.
Proof.
  induction names as [|nm names IH]; intros i H; [reflexivity|].
  cbn [forallb] in H. apply andb_true_iff in H as [H1 H2].
  cbn [varname_lines_as_found forallb]. rewrite IH by exact H2.
  rewrite !no_break_app, no_break_print_Z, H1. reflexivity.
Qed.

Lemma no_break_clause_line c : no_break (clause_line c) = true.
Proof.
  unfold clause_line. rewrite no_break_app. apply andb_true_iff. split; [|reflexivity].
  induction c as [|l c IH]; [reflexivity|]. cbn [map concat].
  rewrite !no_break_app, no_break_print_Z, IH. reflexivity.
Qed.

Lemma no_break_comment_lines_as_found h names : header_ok h = true -> names_ok names = true ->
  forallb no_break (comment_lines_as_found h names) = true.
Proof.
  intros Hh Hn. unfold comment_lines_as_found. rewrite forallb_app. apply andb_true_iff. split.
  - destruct h as [h|]; [|reflexivity]. rewrite forallb_app. apply andb_true_iff. split; [|reflexivity].
    cbn [header_ok] in Hh. rewrite forallb_map. rewrite forallb_forall in *.
    intros fv Hfv. apply no_break_header_line_as_found, Hh, Hfv.
  - destruct names as [ns|]; [|reflexivity]. rewrite forallb_app. apply andb_true_iff.
    split; [|reflexivity]. apply no_break_varname_lines_as_found, Hn.
Qed.

Lemma no_break_print_lines_as_found h names n F : header_ok h = true -> names_ok names = true ->
  forallb no_break (print_lines_as_found h names n F) = true.
Proof.
  intros Hh Hn. unfold print_lines_as_found. rewrite !forallb_app.
  rewrite no_break_comment_lines_as_found by assumption. cbn [forallb andb].
  unfold spec_line. rewrite !no_break_app, !no_break_print_Z. cbn [andb].
  replace (no_break (lit "p cnf ")) with true by reflexivity.
  replace (no_break [SP]) with true by reflexivity. cbn [andb].
  rewrite forallb_map. apply forallb_true. intros c _. apply no_break_clause_line.
Qed.

Lemma no_break_no_lf l : no_break l = true -> no_lf l = true.
Proof.
  unfold no_break, no_lf. intros H. rewrite forallb_forall in *. intros c Hc.
  specialize (H c Hc). apply andb_true_iff in H as [H _]. exact H.
Qed.

Lemma no_break_no_cr l : no_break l = true -> no_cr l = true.
Proof.
  unfold no_break, no_cr. intros H. rewrite forallb_forall in *. intros c Hc.
  specialize (H c Hc). apply andb_true_iff in H as [_ H]. exact H.
Qed.

Lemma forallb_impl {A} (p q : A -> bool) l : (forall x, p x = true -> q x = true) ->
  forallb p l = true -> forallb q l = true.
Proof. intros I H. rewrite forallb_forall in *. auto. Qed.

(* the reader gets back exactly the lines the writer produced, under both newline conventions *)
Lemma read_lines_print_as_found u h names n F : header_ok h = true -> names_ok names = true ->
  read_lines u (print_dimacs_as_found h names n F) = print_lines_as_found h names n F.
Proof.
  intros Hh Hn. pose proof (no_break_print_lines_as_found h names n F Hh Hn) as Hnb.
  unfold read_lines, print_dimacs_as_found.
  assert (E : (if u then universal (unlines (print_lines_as_found h names n F))
               else unlines (print_lines_as_found h names n F)) = unlines (print_lines_as_found h names n F)).
  { destruct u; [|reflexivity]. apply universal_id, no_cr_unlines.
    eapply forallb_impl; [|exact Hnb]. apply no_break_no_cr. }
  rewrite E. apply split_lines_unlines.
  eapply forallb_impl; [|exact Hnb]. apply no_break_no_lf.
Qed.

(* ------------------------------------------------------------------ *)
(* the reader on the writer's lines *)

Lemma parse_lines_comment spec buf count k l rest : starts_c l ->
  parse_lines spec buf count k (l :: rest) = parse_lines spec buf count (k + 1) rest.
Proof.
  intros (r & ->). cbn [parse_lines].
  destruct (strip_head "c"%char r eq_refl) as (r' & ->). reflexivity.
Qed.

Lemma parse_lines_comments : forall cl spec buf count k rest, Forall starts_c cl ->
  parse_lines spec buf count k (cl ++ rest) = parse_lines spec buf count (k + len cl) rest.
Proof.
  induction cl as [|l cl IH]; intros spec buf count k rest H.
  - cbn [app]. rewrite len_nil. f_equal. lia.
  - inversion H; subst. cbn [app]. rewrite parse_lines_comment by assumption.
    rewrite IH by assumption. rewrite len_cons. f_equal. lia.
Qed.

Lemma parse_lines_spec buf count k n m rest : 0 <= n -> 0 <= m -> small n -> small m ->
  parse_lines None buf count k (spec_line n m :: rest) =
  parse_lines (Some (n, m)) buf count (k + 1) rest.
Proof.
  intros Hn Hm Sn Sm. cbn [parse_lines].
  assert (Hs : exists r, strip (spec_line n m) = "p"%char :: r).
  { unfold spec_line. cbn [lit list_ascii_of_string app]. apply strip_head. reflexivity. }
  destruct Hs as (r & Hs). rewrite Hs. cbn [Ascii.eqb Bool.eqb].
  change (Ascii.eqb "p"%char "c"%char) with false. change (Ascii.eqb "p"%char "p"%char) with true.
  cbn iota. rewrite <- Hs, parse_spec_strip, parse_spec_spec_line by assumption. reflexivity.
Qed.

Lemma lit_in_ok n z : lit_in n z -> lit_ok n z = true.
Proof. unfold lit_in, lit_ok. lia. Qed.

Lemma parse_lines_clause n m count k c rest :
  Forall (lit_in n) c -> Forall small c ->
  parse_lines (Some (n, m)) [] count k (clause_line c :: rest) =
  match parse_lines (Some (n, m)) [] (count + 1) (k + 1) rest with
  | DOk n' F => DOk n' (c :: F)
  | e => e
  end.
Proof.
  intros Hc Hs. cbn [parse_lines].
  destruct (clause_line_head c) as (ch & r & E & Hch).
  assert (Hst : exists r', strip (clause_line c) = ch :: r').
  { rewrite E. apply strip_head, num_char_not_space, Hch. }
  destruct Hst as (r' & Hst). rewrite Hst.
  rewrite (num_char_not ch "c"%char Hch eq_refl), (num_char_not ch "p"%char Hch eq_refl).
  rewrite <- Hst, split_ws_strip, clause_line_tokens, ints_of_app, ints_of_printed by exact Hs.
  change (ints_of [lit "0"]) with (Some [0]). cbn iota beta.
  assert (Hok : forallb (lit_ok n) (c ++ [0]) = true).
  { rewrite forallb_app. apply andb_true_iff. split; [|reflexivity].
    apply forallb_true. intros z Hz. rewrite Forall_forall in Hc. apply lit_in_ok, Hc, Hz. }
  rewrite Hok. cbn [app]. rewrite split0_clause.
  - replace (count + len [c]) with (count + 1) by (unfold len; cbn [length]; lia).
    destruct (parse_lines (Some (n, m)) [] (count + 1) (k + 1) rest); reflexivity.
  - rewrite Forall_forall in *. intros z Hz. specialize (Hc z Hz). unfold lit_in in Hc. lia.
Qed.

Lemma parse_lines_clauses : forall F n m count k,
  Forall (Forall (lit_in n)) F -> Forall (Forall small) F ->
  parse_lines (Some (n, m)) [] count k (map clause_line F) =
  if m =? count + len F then DOk n F else Err WrongCount 0.
Proof.
  induction F as [|c F IH]; intros n m count k Hv Hs.
  - cbn [map parse_lines nonempty].
    replace (count + len (@nil (list Z))) with count by (unfold len; cbn [length]; lia). reflexivity.
  - inversion Hv; subst. inversion Hs; subst. cbn [map].
    rewrite parse_lines_clause by assumption. rewrite IH by assumption.
    rewrite len_cons. replace (count + 1 + len F) with (count + (1 + len F)) by lia.
    destruct (m =? count + (1 + len F)); reflexivity.
Qed.

(* numbers below 10^4300: the range in which str() and int() work at all *)
Definition printable (z : Z) : Prop := Z.abs z < 10 ^ max_str_digits.

Lemma printable_million z : Z.abs z <= 1000000 -> printable z.
Proof.
  intros H. unfold printable. apply Z.le_lt_trans with (m := 1000000); [exact H|].
  unfold max_str_digits. vm_compute. reflexivity.
Qed.

Lemma valid_small n F : valid n F -> printable n -> Forall (Forall small) F.
Proof.
  intros [Hn Hv] Hp. rewrite Forall_forall in *. intros c Hc. specialize (Hv c Hc).
  rewrite Forall_forall in *. intros z Hz. specialize (Hv z Hz). unfold lit_in in Hv.
  apply small_of_bound. unfold printable in Hp. lia.
Qed.

Theorem roundtrip_lines_as_found h names n F :
  valid n F -> printable n -> printable (len F) ->
  parse_lines None [] 0 0 (print_lines_as_found h names n F) = DOk n F.
Proof.
  intros Hv Pn Pm. unfold print_lines_as_found.
  rewrite parse_lines_comments by apply comment_lines_as_found_start_c.
  cbn [app]. pose proof (len_nonneg F) as HF. destruct Hv as [Hn Hv].
  rewrite parse_lines_spec; try assumption; try (apply small_of_bound; assumption).
  rewrite parse_lines_clauses.
  - rewrite Z.add_0_l, Z.eqb_refl. reflexivity.
  - exact Hv.
  - apply (valid_small n F); [split; assumption | exact Pn].
Qed.

Theorem dimacs_roundtrip_as_found_proved u h names n F :
  valid n F -> printable n -> printable (len F) ->
  header_ok h = true -> names_ok names = true ->
  parse_dimacs u (print_dimacs_as_found h names n F) = DOk n F.
Proof.
  intros Hv Pn Pm Hh Hn. unfold parse_dimacs. rewrite read_lines_print_as_found by assumption.
  apply roundtrip_lines_as_found; assumption.
Qed.

Theorem parse_sound_proved u t n F :
  parse_dimacs u t = DOk n F ->
  exists sl m, spec_lines (read_lines u t) = [sl] /\ parse_spec sl = Some (n, m) /\
               m = len F /\ 0 <= n /\
               clauses_written (read_lines u t) = Some (F, []) /\
               Forall (Forall (lit_in n)) F.
Proof. unfold parse_dimacs. apply parse_sound_lines. Qed.

Theorem print_shape_as_found_proved u h names n F :
  header_ok h = true -> names_ok names = true ->
  read_lines u (print_dimacs_as_found h names n F) =
    comment_lines_as_found h names ++ spec_line n (len F) :: map clause_line F /\
  Forall (fun l => line_kind l = KComment) (comment_lines_as_found h names) /\
  line_kind (spec_line n (len F)) = KSpec /\
  split_ws (spec_line n (len F)) = [lit "p"; lit "cnf"; print_Z n; print_Z (len F)] /\
  Forall (fun l => line_kind l = KData) (map clause_line F).
Proof.
  intros Hh Hn. split; [rewrite read_lines_print_as_found by assumption; reflexivity|].
  split.
  { eapply Forall_impl; [|apply comment_lines_as_found_start_c]. intros l. apply starts_c_kind. }
  split; [reflexivity|]. split; [apply spec_line_tokens|].
  rewrite Forall_forall. intros l Hl. apply in_map_iff in Hl as (c & <- & _). apply clause_line_kind.
Qed.

(* ------------------------------------------------------------------ *)
(* the writer after the repair (commit 7278321): within_comment *)

Definition starts_with (p l : text) : Prop := exists r, l = p ++ r.

Lemma no_lf_app a b : no_lf (a ++ b) = no_lf a && no_lf b.
Proof. unfold no_lf. apply forallb_app. Qed.

(* every line of  p ++ acc ++ s.replace("\n", "\n" + p) ++ "\n"  starts with p *)
Lemma after_lf_lines p : no_lf p = true -> forall s acc, no_lf acc = true ->
  Forall (starts_with p) (split_lines (p ++ acc ++ after_lf p s ++ [LF])).
Proof.
  intros Hp. induction s as [|c s IH]; intros acc Hacc.
  - cbn [after_lf app]. rewrite app_assoc. fold (entry_lines (p ++ acc)).
    rewrite entry_lines_plain by (rewrite no_lf_app, Hp, Hacc; reflexivity).
    constructor; [exists acc; reflexivity|constructor].
  - cbn [after_lf]. destruct (is_lf c) eqn:Hc.
    + replace (p ++ acc ++ (LF :: p ++ after_lf p s) ++ [LF])
        with ((p ++ acc) ++ LF :: (p ++ [] ++ after_lf p s ++ [LF]))
        by (cbn [app]; rewrite <- !app_assoc; reflexivity).
      unfold split_lines. rewrite split_on_piece;
        [|fold (no_lf (p ++ acc)); rewrite no_lf_app, Hp, Hacc; reflexivity|exact is_lf_LF].
      constructor; [exists acc; reflexivity|]. apply IH. reflexivity.
    + replace (p ++ acc ++ (c :: after_lf p s) ++ [LF])
        with (p ++ (acc ++ [c]) ++ after_lf p s ++ [LF])
        by (cbn [app]; rewrite <- !app_assoc; reflexivity).
      apply IH. rewrite no_lf_app, Hacc. unfold no_lf. cbn [forallb]. rewrite Hc. reflexivity.
Qed.

Lemma universal_app_plain : forall p x, no_cr p = true -> universal (p ++ x) = p ++ universal x.
Proof.
  induction p as [|c p IH]; intros x H; [reflexivity|].
  rewrite no_cr_cons in H. apply andb_true_iff in H as [Hc Hp]. apply negb_true_iff in Hc.
  cbn [app]. rewrite universal_plain by exact Hc. f_equal. apply IH, Hp.
Qed.

Lemma after_lf_app_plain p : forall q x, no_lf q = true -> after_lf p (q ++ x) = q ++ after_lf p x.
Proof.
  induction q as [|c q IH]; intros x H; [reflexivity|].
  unfold no_lf in H. cbn [forallb] in H. apply andb_true_iff in H as [Hc Hq]. apply negb_true_iff in Hc.
  cbn [app after_lf]. rewrite Hc. f_equal. apply IH, Hq.
Qed.

Lemma within_comment_prefixed p x : no_lf p = true -> no_cr p = true ->
  within_comment p (p ++ x) = p ++ after_lf p (universal x).
Proof.
  intros H1 H2. unfold within_comment. rewrite universal_app_plain by exact H2.
  apply after_lf_app_plain, H1.
Qed.

(* the lines of an entry  _within_comment(p + x, p) + "\n" *)
Lemma within_comment_lines p x : no_lf p = true -> no_cr p = true ->
  Forall (starts_with p) (entry_lines (within_comment p (p ++ x))).
Proof.
  intros H1 H2. rewrite within_comment_prefixed by assumption. unfold entry_lines.
  rewrite <- app_assoc. apply (after_lf_lines p H1 (universal x) []). reflexivity.
Qed.

(* no carriage return survives *)
Lemma no_cr_after_lf p : no_cr p = true -> forall s, no_cr s = true -> no_cr (after_lf p s) = true.
Proof.
  intros Hp. induction s as [|c s IH]; intros H; [reflexivity|].
  rewrite no_cr_cons in H. apply andb_true_iff in H as [Hc Hs].
  cbn [after_lf]. destruct (is_lf c).
  - change (LF :: p ++ after_lf p s) with ([LF] ++ p ++ after_lf p s).
    rewrite !no_cr_app, Hp, IH by exact Hs. reflexivity.
  - rewrite no_cr_cons, Hc, IH by exact Hs. reflexivity.
Qed.

Lemma no_cr_within_comment p s : no_cr p = true -> no_cr (within_comment p s) = true.
Proof. intros Hp. unfold within_comment. apply no_cr_after_lf; [exact Hp|apply no_cr_universal]. Qed.

Lemma no_cr_ascii_replace s : no_cr s = true -> no_cr (ascii_replace s) = true.
Proof.
  unfold no_cr, ascii_replace. rewrite forallb_map. intros H.
  rewrite forallb_forall in *. intros c Hc. specialize (H c Hc).
  destruct (127 <? code c); [reflexivity|exact H].
Qed.

(* encode('ascii','replace') neither makes nor removes a line break *)
Lemma is_lf_replace c : is_lf (if 127 <? code c then "?"%char else c) = is_lf c.
Proof.
  destruct (127 <? code c) eqn:E; [|reflexivity].
  unfold is_lf. destruct (Ascii.eqb_spec c LF) as [->|N]; [vm_compute in E; discriminate E|reflexivity].
Qed.

Lemma entry_lines_ascii_replace s : entry_lines (ascii_replace s) = map ascii_replace (entry_lines s).
Proof.
  unfold entry_lines, split_lines, ascii_replace.
  rewrite <- (split_on_map is_lf _ is_lf_replace). rewrite map_app. reflexivity.
Qed.

Lemma starts_c_of_prefix l : starts_with (lit "c ") l -> starts_c l.
Proof. intros (r & ->). eexists; reflexivity. Qed.

Lemma header_entry_lines_start_c fv : Forall starts_c (entry_lines (header_entry fv)).
Proof.
  unfold header_entry. rewrite entry_lines_ascii_replace.
  rewrite Forall_forall. intros l Hl. apply in_map_iff in Hl as (l0 & <- & Hl0).
  pose proof (within_comment_lines (lit "c ") (fst fv ++ lit ": " ++ snd fv) eq_refl eq_refl) as H.
  rewrite Forall_forall in H. destruct (H l0 Hl0) as (r & ->).
  unfold ascii_replace. rewrite map_app. eexists; reflexivity.
Qed.

Lemma varname_entries_lines_start_c : forall names i,
  Forall starts_c (concat (map entry_lines (varname_entries i names))).
Proof.
  induction names as [|nm names IH]; intros i; [constructor|].
  cbn [varname_entries map concat]. apply Forall_app. split; [|apply IH].
  change (lit "c varname " ++ print_Z i ++ [SP] ++ nm) with (lit "c " ++ lit "varname " ++ print_Z i ++ [SP] ++ nm).
  eapply Forall_impl; [|apply within_comment_lines; reflexivity]. apply starts_c_of_prefix.
Qed.

Lemma comment_lines_entries h names :
  comment_lines h names = concat (map entry_lines (comment_entries h names)).
Proof. apply split_lines_unlines_entries. Qed.

Lemma comment_lines_start_c h names : Forall starts_c (comment_lines h names).
Proof.
  rewrite comment_lines_entries. unfold comment_entries. rewrite map_app, concat_app.
  assert (Hc : Forall starts_c (concat (map entry_lines [lit "c"]))).
  { cbn. constructor; [eexists; reflexivity|constructor]. }
  apply Forall_app. split.
  - destruct h as [h|]; [|constructor]. rewrite map_app, concat_app. apply Forall_app. split; [|exact Hc].
    induction h as [|fv h IH]; [constructor|]. cbn [map concat]. apply Forall_app.
    split; [apply header_entry_lines_start_c|exact IH].
  - destruct names as [ns|]; [|constructor]. rewrite map_app, concat_app. apply Forall_app.
    split; [apply varname_entries_lines_start_c|exact Hc].
Qed.

Lemma no_cr_varname_entries : forall names i, forallb no_cr (varname_entries i names) = true.
Proof.
  induction names as [|nm names IH]; intros i; [reflexivity|].
  cbn [varname_entries forallb]. rewrite IH, no_cr_within_comment; reflexivity.
Qed.

Lemma no_cr_comment_entries h names : forallb no_cr (comment_entries h names) = true.
Proof.
  unfold comment_entries. rewrite forallb_app. apply andb_true_iff. split.
  - destruct h as [h|]; [|reflexivity]. rewrite forallb_app. apply andb_true_iff. split; [|reflexivity].
    rewrite forallb_map. apply forallb_true. intros fv _. unfold header_entry.
    apply no_cr_ascii_replace, no_cr_within_comment. reflexivity.
  - destruct names as [ns|]; [|reflexivity]. rewrite forallb_app, no_cr_varname_entries. reflexivity.
Qed.

Lemma no_break_spec_line n m : no_break (spec_line n m) = true.
Proof. unfold spec_line. rewrite !no_break_app, !no_break_print_Z. reflexivity. Qed.

Lemma concat_entry_lines_plain : forall ls, forallb no_lf ls = true -> concat (map entry_lines ls) = ls.
Proof.
  induction ls as [|l ls IH]; intros H; [reflexivity|].
  cbn [forallb] in H. apply andb_true_iff in H as [Hl Hls].
  cbn [map concat]. rewrite entry_lines_plain, IH by assumption. reflexivity.
Qed.

(* the reader gets: the comment lines, the problem line, the clause lines --
   for EVERY header and EVERY list of names, under both newline conventions *)
Lemma read_lines_print u h names n F :
  read_lines u (print_dimacs h names n F) =
  comment_lines h names ++ spec_line n (len F) :: map clause_line F.
Proof.
  unfold read_lines, print_dimacs, print_entries.
  assert (Hb : forallb no_break (spec_line n (len F) :: map clause_line F) = true).
  { cbn [forallb]. rewrite no_break_spec_line, forallb_map. apply forallb_true.
    intros c _. apply no_break_clause_line. }
  assert (E : (if u then universal (unlines (comment_entries h names ++ [spec_line n (len F)] ++ map clause_line F))
               else unlines (comment_entries h names ++ [spec_line n (len F)] ++ map clause_line F)) =
              unlines (comment_entries h names ++ [spec_line n (len F)] ++ map clause_line F)).
  { destruct u; [|reflexivity]. apply universal_id, no_cr_unlines.
    rewrite forallb_app, no_cr_comment_entries. cbn [andb app].
    eapply forallb_impl; [|exact Hb]. apply no_break_no_cr. }
  rewrite E, split_lines_unlines_entries, map_app, concat_app, <- comment_lines_entries. f_equal.
  cbn [app]. apply concat_entry_lines_plain. eapply forallb_impl; [|exact Hb]. apply no_break_no_lf.
Qed.

(* the reader on any comment lines followed by the problem line and the clause lines *)
Theorem roundtrip_after_comments cl n F :
  Forall starts_c cl -> valid n F -> printable n -> printable (len F) ->
  parse_lines None [] 0 0 (cl ++ spec_line n (len F) :: map clause_line F) = DOk n F.
Proof.
  intros Hc Hv Pn Pm. rewrite parse_lines_comments by exact Hc.
  pose proof (len_nonneg F) as HF. destruct Hv as [Hn Hv].
  rewrite parse_lines_spec; try assumption; try (apply small_of_bound; assumption).
  rewrite parse_lines_clauses.
  - rewrite Z.add_0_l, Z.eqb_refl. reflexivity.
  - exact Hv.
  - apply (valid_small n F); [split; assumption | exact Pn].
Qed.

Theorem dimacs_roundtrip_proved u h names n F :
  valid n F -> printable n -> printable (len F) ->
  parse_dimacs u (print_dimacs h names n F) = DOk n F.
Proof.
  intros Hv Pn Pm. unfold parse_dimacs. rewrite read_lines_print.
  apply roundtrip_after_comments; try assumption. apply comment_lines_start_c.
Qed.

Theorem print_shape_proved u h names n F :
  read_lines u (print_dimacs h names n F) =
    comment_lines h names ++ spec_line n (len F) :: map clause_line F /\
  Forall (fun l => line_kind l = KComment) (comment_lines h names) /\
  line_kind (spec_line n (len F)) = KSpec /\
  split_ws (spec_line n (len F)) = [lit "p"; lit "cnf"; print_Z n; print_Z (len F)] /\
  Forall (fun l => line_kind l = KData) (map clause_line F).
Proof.
  split; [apply read_lines_print|]. split.
  { eapply Forall_impl; [|apply comment_lines_start_c]. intros l. apply starts_c_kind. }
  split; [reflexivity|]. split; [apply spec_line_tokens|].
  rewrite Forall_forall. intros l Hl. apply in_map_iff in Hl as (c & <- & _). apply clause_line_kind.
Qed.

(* ------------------------------------------------------------------ *)
(* the two writers agree when no field or name has a line break
   ("output is unchanged for texts without line breaks") *)

Lemma after_lf_id p : forall s, no_lf s = true -> after_lf p s = s.
Proof. intros s H. rewrite <- (app_nil_r s) at 1. rewrite after_lf_app_plain by exact H. apply app_nil_r. Qed.

Lemma within_comment_id p s : no_break s = true -> within_comment p s = s.
Proof.
  intros H. unfold within_comment. rewrite universal_id by (apply no_break_no_cr, H).
  apply after_lf_id, no_break_no_lf, H.
Qed.

Lemma header_entry_as_found fv : no_break (fst fv) && no_break (snd fv) = true ->
  header_entry fv = header_line_as_found fv.
Proof.
  intros H. apply andb_true_iff in H as [H1 H2]. unfold header_entry, header_line_as_found.
  rewrite within_comment_id; [reflexivity|]. rewrite !no_break_app, H1, H2. reflexivity.
Qed.

Lemma varname_entries_as_found : forall names i, forallb no_break names = true ->
  varname_entries i names = varname_lines_as_found i names.
Proof.
  induction names as [|nm names IH]; intros i H; [reflexivity|].
  cbn [forallb] in H. apply andb_true_iff in H as [H1 H2].
  cbn [varname_entries varname_lines_as_found]. rewrite IH by exact H2. f_equal.
  apply within_comment_id. rewrite !no_break_app, no_break_print_Z, H1. reflexivity.
Qed.

Lemma comment_entries_as_found h names : header_ok h = true -> names_ok names = true ->
  comment_entries h names = comment_lines_as_found h names.
Proof.
  intros Hh Hn. unfold comment_entries, comment_lines_as_found. f_equal.
  - destruct h as [h|]; [|reflexivity]. f_equal. cbn [header_ok] in Hh.
    apply map_ext_in. intros fv Hfv. rewrite forallb_forall in Hh. apply header_entry_as_found, Hh, Hfv.
  - destruct names as [ns|]; [|reflexivity]. f_equal. apply varname_entries_as_found, Hn.
Qed.

Theorem print_dimacs_unchanged h names n F : header_ok h = true -> names_ok names = true ->
  print_dimacs h names n F = print_dimacs_as_found h names n F /\
  comment_lines h names = comment_lines_as_found h names.
Proof.
  intros Hh Hn. unfold print_dimacs, print_dimacs_as_found, print_entries, print_lines_as_found, comment_lines.
  rewrite comment_entries_as_found by assumption. split; [reflexivity|].
  apply split_lines_unlines. eapply forallb_impl; [|apply no_break_comment_lines_as_found; assumption].
  apply no_break_no_lf.
Qed.
