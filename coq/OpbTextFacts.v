(* OpbTextFacts.v — the OPB text of a formula, read by the independent reader,
   gives back the declared counts and the constraints term by term. *)
From Coq Require Import String ZArith List Bool Ascii Lia ZifyBool.
From Cnfgen Require Import Sem SemFacts Text TextFacts Dimacs DimacsFacts OpbText.
Import ListNotations.
Open Scope Z_scope.

(* ------------------------------------------------------------------ *)
(* numbers *)

Lemma print_digits_digits : forall f z acc, forallb is_digit acc = true ->
  forallb is_digit (print_digits f z acc) = true.
Proof.
  induction f as [|f IH]; intros z acc Hacc; cbn [print_digits]; [assumption|].
  assert (Hd : forallb is_digit (digit_chr (z mod 10) :: acc) = true).
  { cbn [forallb]. rewrite Hacc, (is_digit_chr _ (digit_range z)). reflexivity. }
  destruct (z <? 10); [exact Hd | apply IH; exact Hd].
Qed.

Lemma print_nonneg_all_digits z : all_digits (print_nonneg z) = true.
Proof.
  unfold all_digits. destruct (print_nonneg_head z) as (c & r & E & _).
  apply andb_true_iff. split; [rewrite E; reflexivity|].
  unfold print_nonneg. apply print_digits_digits. reflexivity.
Qed.

Lemma print_Z_nonneg z : 0 <= z -> print_Z z = print_nonneg z.
Proof. intros H. unfold print_Z. destruct (z <? 0) eqn:E; [lia|reflexivity]. Qed.

Lemma strict_nat_print z : 0 <= z -> small z -> strict_nat (print_Z z) = Some z.
Proof.
  intros Hz Hs. unfold strict_nat.
  assert (A : all_digits (print_Z z) = true)
    by (rewrite print_Z_nonneg by exact Hz; apply print_nonneg_all_digits).
  rewrite A. apply parse_int_print_Z, Hs.
Qed.

Lemma strict_int_print z : small z -> strict_int (print_Z z) = Some z.
Proof.
  intros Hs. unfold strict_int.
  assert (Hb : all_digits match print_Z z with
                          | c :: r => if Ascii.eqb c "+"%char || Ascii.eqb c "-"%char then r else print_Z z
                          | [] => print_Z z
                          end = true).
  { unfold print_Z. destruct (z <? 0) eqn:E.
    - cbn. apply print_nonneg_all_digits.
    - destruct (print_nonneg_head z) as (c & r & Ep & Hc). rewrite Ep.
      assert (Hn : is_num_char "+"%char = false) by reflexivity.
      destruct (Ascii.eqb_spec c "+"%char) as [->|N1]; [discriminate Hc|].
      destruct (Ascii.eqb_spec c "-"%char) as [->|N2]; [discriminate Hc|].
      cbn [orb]. rewrite <- Ep. apply print_nonneg_all_digits. }
  rewrite Hb. apply parse_int_print_Z, Hs.
Qed.

Lemma parse_int_plus body : parse_int ("+"%char :: body) =
  if max_str_digits <? count_digits body then None
  else match parse_unsigned body with Some v => Some v | None => None end.
Proof. reflexivity. Qed.

Lemma strict_int_plus body : strict_int ("+"%char :: body) =
  if all_digits body then parse_int ("+"%char :: body) else None.
Proof. reflexivity. Qed.

Lemma strict_int_signed c : small c -> strict_int (print_signed c) = Some c.
Proof.
  intros Hs. unfold print_signed. destruct (0 <=? c) eqn:E; [|apply strict_int_print, Hs].
  rewrite strict_int_plus.
  rewrite (print_Z_nonneg c) by lia. rewrite print_nonneg_all_digits.
  rewrite parse_int_plus.
  unfold small in Hs. rewrite (print_Z_nonneg c) in Hs by lia.
  destruct (max_str_digits <? count_digits (print_nonneg c)) eqn:Hc; [lia|].
  rewrite parse_unsigned_print_nonneg by lia. reflexivity.
Qed.

Lemma small_opp z : small z -> small (- z).
Proof.
  unfold small, print_Z, count_digits. intros H.
  destruct (z <? 0) eqn:E1; destruct (- z <? 0) eqn:E2; try lia.
  - cbn [filter] in H. rewrite minus_not_digit in H. exact H.
  - cbn [filter]. rewrite minus_not_digit. rewrite Z.opp_involutive. exact H.
  - assert (z = 0) by lia. subst. exact H.
Qed.

Lemma parse_var_opb_var l : l <> 0 -> small l -> parse_var (opb_var l) = Some l.
Proof.
  intros Hnz Hs. unfold opb_var. destruct (0 <=? l) eqn:E.
  - cbn [lit list_ascii_of_string app parse_var].
    change (Ascii.eqb "x"%char "x"%char) with true. cbn iota.
    rewrite strict_nat_print by (try lia; exact Hs).
    destruct (1 <=? l) eqn:E1; [reflexivity|lia].
  - cbn [lit list_ascii_of_string app parse_var].
    change (Ascii.eqb "~"%char "x"%char) with false. change (Ascii.eqb "~"%char "~"%char) with true.
    change (Ascii.eqb "x"%char "x"%char) with true. cbn iota.
    rewrite strict_nat_print by (try lia; apply small_opp, Hs).
    destruct (1 <=? - l) eqn:E1; [f_equal; lia|lia].
Qed.

(* ------------------------------------------------------------------ *)
(* tokens of a constraint line *)

Lemma token_app a b : no_ws a = true -> token b = true -> token (a ++ b) = true.
Proof.
  unfold token, no_ws. intros Ha Hb. apply andb_true_iff in Hb as [Hne Hb].
  apply andb_true_iff. split.
  - destruct a; [exact Hne|reflexivity].
  - rewrite forallb_app, Ha. exact Hb.
Qed.

Lemma opb_var_token l : token (opb_var l) = true.
Proof. unfold opb_var. destruct (0 <=? l); apply token_app; try reflexivity; apply print_Z_token. Qed.

Lemma print_signed_token c : token (print_signed c) = true.
Proof.
  unfold print_signed. destruct (0 <=? c); [|apply print_Z_token].
  apply (token_app ["+"%char]); [reflexivity|apply print_Z_token].
Qed.

Lemma op_text_token o : token (op_text o) = true.
Proof. destruct o; reflexivity. Qed.

Definition term_tokens (cl : Z * Z) : list text := [print_signed (fst cl); opb_var (snd cl)].

Lemma terms_text_tokens : forall ts,
  concat (map term_text ts) = concat (map (fun t => t ++ [SP]) (concat (map term_tokens ts))).
Proof.
  induction ts as [|cl ts IH]; [reflexivity|].
  cbn [map concat]. rewrite map_app, concat_app. f_equal; [|exact IH].
  unfold term_text, term_tokens. cbn [map concat]. rewrite <- !app_assoc. reflexivity.
Qed.

Lemma constraint_line_tokens c :
  split_ws (constraint_line c) =
  concat (map term_tokens (pb_terms c)) ++ [op_text (pb_op c); print_Z (pb_deg c)].
Proof.
  unfold constraint_line. rewrite terms_text_tokens.
  replace (concat (map (fun t => t ++ [SP]) (concat (map term_tokens (pb_terms c)))) ++
           op_text (pb_op c) ++ [SP] ++ print_Z (pb_deg c))
    with (concat (map (fun t => t ++ [SP]) (concat (map term_tokens (pb_terms c)) ++ [op_text (pb_op c)])) ++
          print_Z (pb_deg c)).
  - rewrite split_ws_joined; [rewrite <- app_assoc; reflexivity| |apply print_Z_token].
    rewrite forallb_app. apply andb_true_iff. split.
    + rewrite forallb_forall. intros t Ht. apply in_concat in Ht as (tt & Htt & Ht).
      apply in_map_iff in Htt as (cl & <- & _). destruct Ht as [<-|[<-|[]]];
        [apply print_signed_token | apply opb_var_token].
    + cbn [forallb]. rewrite op_text_token. reflexivity.
  - rewrite map_app, concat_app. cbn [map concat]. rewrite <- !app_assoc. reflexivity.
Qed.

Lemma parse_terms_cons c v rest : rest <> [] ->
  parse_terms (c :: v :: rest) =
  match strict_int c, parse_var v, parse_terms rest with
  | Some cv, Some l, Some p => Some (mkpbc ((cv, l) :: pb_terms p) (pb_op p) (pb_deg p))
  | _, _, _ => None
  end.
Proof. intros H. destruct rest; [congruence|reflexivity]. Qed.

Lemma parse_op_text o : op_ok o -> parse_op (op_text o) = Some o.
Proof. intros [-> | ->]; reflexivity. Qed.

Lemma parse_terms_line : forall ts o d,
  Forall (fun cl => snd cl <> 0 /\ small (fst cl) /\ small (snd cl)) ts -> op_ok o -> small d ->
  parse_terms (concat (map term_tokens ts) ++ [op_text o; print_Z d]) = Some (mkpbc ts o d).
Proof.
  induction ts as [|[c l] ts IH]; intros o d Hts Ho Hd.
  - cbn [map concat app parse_terms]. rewrite parse_op_text, strict_int_print by assumption. reflexivity.
  - inversion Hts as [|? ? (Hnz & Hsc & Hsl) Hts']; subst. cbn [fst snd] in *.
    cbn [map concat]. unfold term_tokens at 1. cbn [fst snd app].
    rewrite parse_terms_cons.
    + rewrite strict_int_signed, parse_var_opb_var, IH by assumption. reflexivity.
    + destruct (concat (map term_tokens ts)); discriminate.
Qed.

(* ------------------------------------------------------------------ *)
(* end and beginning of a constraint line *)

Lemma rstrip_app_nonspace : forall a ch, is_space ch = false -> rstrip (a ++ [ch]) = a ++ [ch].
Proof.
  induction a as [|x a IH]; intros ch H; cbn [app rstrip].
  - rewrite H. reflexivity.
  - rewrite IH by exact H. destruct (a ++ [ch]) eqn:E; [destruct a; discriminate|reflexivity].
Qed.

Lemma print_Z_last z : exists a ch, print_Z z = a ++ [ch] /\ is_num_char ch = true.
Proof.
  destruct (exists_last (print_Z_nonempty z)) as (a & ch & E). exists a, ch. split; [exact E|].
  pose proof (print_Z_num z) as H. rewrite E, forallb_app in H.
  apply andb_true_iff in H as [_ H]. cbn in H. rewrite andb_true_r in H. exact H.
Qed.

Lemma drop_semicolon_num_end a ch : is_num_char ch = true ->
  drop_semicolon (a ++ [ch]) = a ++ [ch].
Proof.
  intros H. unfold drop_semicolon. rewrite rstrip_app_nonspace by (apply num_char_not_space, H).
  rewrite rev_app_distr. cbn [rev app]. rewrite (num_char_not ch ";"%char H eq_refl). reflexivity.
Qed.

Lemma drop_semicolon_constraint_line c : drop_semicolon (constraint_line c) = constraint_line c.
Proof.
  unfold constraint_line. destruct (print_Z_last (pb_deg c)) as (a & ch & -> & H).
  rewrite !app_assoc. apply drop_semicolon_num_end, H.
Qed.

Definition not_star (l : text) : Prop := exists ch r, l = ch :: r /\ Ascii.eqb ch "*"%char = false.

Lemma print_signed_head c : exists ch r, print_signed c = ch :: r /\ Ascii.eqb ch "*"%char = false.
Proof.
  unfold print_signed. destruct (0 <=? c).
  - eexists _, _; split; reflexivity.
  - destruct (print_Z_head c) as (ch & r & -> & H). exists ch, r. split; [reflexivity|].
    apply (num_char_not ch "*"%char H eq_refl).
Qed.

Lemma constraint_line_not_star c : not_star (constraint_line c).
Proof.
  unfold not_star, constraint_line. destruct (pb_terms c) as [|cl ts].
  - cbn [map concat app]. destruct (pb_op c); eexists _, _; split; reflexivity.
  - cbn [map concat]. unfold term_text at 1.
    destruct (print_signed_head (fst cl)) as (ch & r & -> & H). cbn [app].
    eexists _, _; split; [reflexivity|exact H].
Qed.

(* ------------------------------------------------------------------ *)
(* line breaks *)

Lemma no_break_opb_var l : no_break (opb_var l) = true.
Proof. unfold opb_var. destruct (0 <=? l); rewrite no_break_app, no_break_print_Z; reflexivity. Qed.

Lemma no_break_print_signed c : no_break (print_signed c) = true.
Proof.
  unfold print_signed. destruct (0 <=? c); [|apply no_break_print_Z].
  change ("+"%char :: print_Z c) with (["+"%char] ++ print_Z c).
  rewrite no_break_app, no_break_print_Z. reflexivity.
Qed.

Lemma no_break_constraint_line c : no_break (constraint_line c) = true.
Proof.
  unfold constraint_line. rewrite !no_break_app, no_break_print_Z.
  replace (no_break (op_text (pb_op c))) with true by (destruct (pb_op c); reflexivity).
  replace (no_break [SP]) with true by reflexivity. rewrite !andb_true_r.
  induction (pb_terms c) as [|cl ts IH]; [reflexivity|]. cbn [map concat].
  rewrite no_break_app, IH. unfold term_text.
  rewrite !no_break_app, no_break_print_signed, no_break_opb_var. reflexivity.
Qed.

Lemma no_break_opb_header_line_as_found fv : no_break (fst fv) && no_break (snd fv) = true ->
  no_break (opb_header_line_as_found fv) = true.
Proof.
  intros H. apply andb_true_iff in H as [H1 H2]. unfold opb_header_line_as_found.
  apply no_break_ascii_replace. rewrite !no_break_app, H1, H2. reflexivity.
Qed.

Lemma no_break_opb_varname_lines_as_found : forall names i, forallb no_break names = true ->
  forallb no_break (opb_varname_lines_as_found i names) = true.
Proof.
  induction names as [|nm names IH]; intros i H; [reflexivity|].
  cbn [forallb] in H. apply andb_true_iff in H as [H1 H2].
  cbn [opb_varname_lines_as_found forallb]. rewrite IH by exact H2.
  rewrite !no_break_app, no_break_print_Z, H1. reflexivity.
Qed.

Lemma no_break_opb_comment_lines_as_found h names : header_ok h = true -> names_ok names = true ->
  forallb no_break (opb_comment_lines_as_found h names) = true.
Proof.
  intros Hh Hn. unfold opb_comment_lines_as_found. rewrite forallb_app. apply andb_true_iff. split.
  - destruct h as [h|]; [|reflexivity]. rewrite forallb_app. apply andb_true_iff. split; [|reflexivity].
    cbn [header_ok] in Hh. rewrite forallb_map. rewrite forallb_forall in *.
    intros fv Hfv. apply no_break_opb_header_line_as_found, Hh, Hfv.
  - destruct names as [ns|]; [|reflexivity]. rewrite forallb_app. apply andb_true_iff.
    split; [|reflexivity]. apply no_break_opb_varname_lines_as_found, Hn.
Qed.

Lemma no_break_opb_lines_as_found h names f : header_ok h = true -> names_ok names = true ->
  forallb no_break (opb_lines_as_found h names f) = true.
Proof.
  intros Hh Hn. unfold opb_lines_as_found. cbn [forallb]. apply andb_true_iff. split.
  - unfold opb_spec_line. rewrite !no_break_app, !no_break_print_Z. reflexivity.
  - rewrite forallb_app, no_break_opb_comment_lines_as_found by assumption. cbn [andb].
    rewrite forallb_map. apply forallb_true. intros c _. apply no_break_constraint_line.
Qed.

Lemma split_lines_print_opb_as_found h names f : header_ok h = true -> names_ok names = true ->
  split_lines (print_opb_as_found h names f) = opb_lines_as_found h names f.
Proof.
  intros Hh Hn. unfold print_opb_as_found. apply split_lines_unlines.
  eapply forallb_impl; [|apply no_break_opb_lines_as_found; assumption]. apply no_break_no_lf.
Qed.

(* ------------------------------------------------------------------ *)
(* comment lines *)

Definition starts_star (l : text) : Prop := exists r, l = "*"%char :: r.

Lemma opb_varname_lines_as_found_star : forall names i, Forall starts_star (opb_varname_lines_as_found i names).
Proof.
  induction names as [|nm names IH]; intros i; cbn [opb_varname_lines_as_found]; constructor.
  - cbn. eexists; reflexivity.
  - apply IH.
Qed.

Lemma opb_comment_lines_as_found_star h names : Forall starts_star (opb_comment_lines_as_found h names).
Proof.
  unfold opb_comment_lines_as_found. apply Forall_app. split.
  - destruct h as [h|]; [|constructor]. apply Forall_app. split.
    + rewrite Forall_forall. intros l Hl. apply in_map_iff in Hl as (fv & <- & _).
      unfold opb_header_line_as_found, ascii_replace. cbn. eexists; reflexivity.
    + constructor; [eexists; reflexivity|constructor].
  - destruct names as [ns|]; [|constructor]. apply Forall_app. split.
    + apply opb_varname_lines_as_found_star.
    + constructor; [eexists; reflexivity|constructor].
Qed.

Lemma parse_opb_lines_comments : forall cl n k rest, Forall starts_star cl ->
  exists k', parse_opb_lines n k (cl ++ rest) = parse_opb_lines n k' rest.
Proof.
  induction cl as [|l cl IH]; intros n k rest H.
  - exists k. reflexivity.
  - inversion H as [|? ? (r & ->) H']; subst. cbn [app parse_opb_lines].
    change (Ascii.eqb "*"%char "*"%char) with true. cbn iota. apply IH, H'.
Qed.

(* ------------------------------------------------------------------ *)
(* the reader on the constraint lines *)

Definition pbc_printable (c : pbc) : Prop :=
  Forall (fun cl => printable (fst cl)) (pb_terms c) /\ printable (pb_deg c).

Lemma parse_constraint_line n c : pbc_ok n c -> printable n -> pbc_printable c ->
  parse_terms (split_ws (drop_semicolon (constraint_line c))) = Some c /\ pbc_vars_ok n c = true.
Proof.
  intros [Ht Ho] Pn [Pc Pd]. split.
  - rewrite drop_semicolon_constraint_line, constraint_line_tokens, parse_terms_line.
    + destruct c; reflexivity.
    + rewrite Forall_forall in *. intros cl Hcl. specialize (Ht cl Hcl). specialize (Pc cl Hcl).
      unfold term_ok in Ht. unfold printable in *. repeat split.
      * lia.
      * apply small_of_bound, Pc.
      * apply small_of_bound. lia.
    + exact Ho.
    + apply small_of_bound, Pd.
  - unfold pbc_vars_ok. apply forallb_true. intros cl Hcl. rewrite Forall_forall in Ht.
    specialize (Ht cl Hcl). unfold term_ok in Ht. lia.
Qed.

Lemma parse_opb_lines_constraints : forall C n k,
  Forall (pbc_ok n) C -> printable n -> Forall pbc_printable C ->
  parse_opb_lines n k (map constraint_line C) = OOk n C.
Proof.
  induction C as [|c C IH]; intros n k Hok Pn Pc; [reflexivity|].
  inversion Hok; subst. inversion Pc; subst. cbn [map parse_opb_lines].
  destruct (constraint_line_not_star c) as (ch & r & E & Hch). rewrite E, Hch, <- E.
  destruct (parse_constraint_line n c) as [-> ->]; try assumption.
  rewrite IH by assumption. reflexivity.
Qed.

Lemma parse_opb_spec_line n m : 0 <= n -> 0 <= m -> small n -> small m ->
  parse_opb_spec (opb_spec_line n m) = Some (n, m).
Proof.
  intros Hn Hm Sn Sm. unfold parse_opb_spec.
  assert (E : opb_spec_line n m =
              concat (map (fun t => t ++ [SP]) [lit "*"; lit "#variable="; print_Z n; lit "#constraint="]) ++ print_Z m).
  { unfold opb_spec_line. cbn [map concat]. cbn [lit list_ascii_of_string app].
    rewrite <- !app_assoc. cbn [app]. reflexivity. }
  rewrite E, split_ws_joined; [| |apply print_Z_token].
  - cbn [app]. change (text_eqb (lit "*") (lit "*")) with true.
    change (text_eqb (lit "#variable=") (lit "#variable=")) with true.
    change (text_eqb (lit "#constraint=") (lit "#constraint=")) with true. cbn [andb].
    rewrite !strict_nat_print by assumption. reflexivity.
  - cbn [forallb]. rewrite print_Z_token. reflexivity.
Qed.

Definition opb_printable (f : formula) : Prop :=
  printable (numvar f) /\ printable (len (constraints f)) /\ Forall pbc_printable (constraints f).

Theorem opb_roundtrip_as_found_proved h names f :
  opb_valid f -> opb_printable f -> header_ok h = true -> names_ok names = true ->
  parse_opb (print_opb_as_found h names f) = OOk (numvar f) (constraints f).
Proof.
  intros [Hn Hv] (Pn & Pm & Pc) Hh Hnm. unfold parse_opb.
  rewrite split_lines_print_opb_as_found by assumption. unfold opb_lines_as_found.
  pose proof (len_nonneg (constraints f)) as Hm.
  rewrite parse_opb_spec_line; try assumption; try (apply small_of_bound; assumption).
  destruct (parse_opb_lines_comments (opb_comment_lines_as_found h names) (numvar f) 1
              (map constraint_line (constraints f)) (opb_comment_lines_as_found_star h names)) as (k' & ->).
  rewrite parse_opb_lines_constraints by assumption.
  rewrite Z.eqb_refl. reflexivity.
Qed.

(* a CNF object is always within the operator restriction *)
Lemma cnf_opb_valid n F : valid n F -> opb_valid (FCnf n F).
Proof.
  intros [Hn Hv]. split; [exact Hn|]. cbn [numvar constraints].
  rewrite Forall_forall in *. intros c Hc. apply in_map_iff in Hc as (cl & <- & Hcl).
  specialize (Hv cl Hcl). split; [|left; reflexivity].
  cbn [clause_pbc pb_terms]. rewrite Forall_forall in *. intros t Ht.
  apply in_map_iff in Ht as (l & <- & Hl). apply Hv, Hl.
Qed.

Lemma cnf_opb_printable n F : printable n -> printable (len F) -> opb_printable (FCnf n F).
Proof.
  intros Pn Pm. split; [exact Pn|]. cbn [constraints]. split.
  - unfold len in *. rewrite map_length. exact Pm.
  - rewrite Forall_forall. intros c Hc. apply in_map_iff in Hc as (cl & <- & _).
    split; cbn [clause_pbc pb_terms pb_deg].
    + rewrite Forall_forall. intros t Ht. apply in_map_iff in Ht as (l & <- & _).
      apply printable_million. cbn. lia.
    + apply printable_million. cbn. lia.
Qed.

(* shape: first line declares the counts, then comments, then one line per constraint *)
Theorem opb_shape_as_found_proved h names f : header_ok h = true -> names_ok names = true ->
  split_lines (print_opb_as_found h names f) =
    opb_spec_line (numvar f) (len (constraints f)) :: opb_comment_lines_as_found h names ++
    map constraint_line (constraints f) /\
  Forall starts_star (opb_comment_lines_as_found h names) /\
  Forall not_star (map constraint_line (constraints f)).
Proof.
  intros Hh Hn. split; [apply split_lines_print_opb_as_found; assumption|].
  split; [apply opb_comment_lines_as_found_star|].
  rewrite Forall_forall. intros l Hl. apply in_map_iff in Hl as (c & <- & _).
  apply constraint_line_not_star.
Qed.

(* ------------------------------------------------------------------ *)
(* the writer after the repair (commit 7278321) *)

Lemma starts_star_of_prefix l : starts_with (lit "* ") l -> starts_star l.
Proof. intros (r & ->). eexists; reflexivity. Qed.

Lemma opb_header_entry_lines_star fv : Forall starts_star (entry_lines (opb_header_entry fv)).
Proof.
  unfold opb_header_entry. rewrite entry_lines_ascii_replace.
  rewrite Forall_forall. intros l Hl. apply in_map_iff in Hl as (l0 & <- & Hl0).
  pose proof (within_comment_lines (lit "* ") (fst fv ++ lit ": " ++ snd fv) eq_refl eq_refl) as H.
  rewrite Forall_forall in H. destruct (H l0 Hl0) as (r & ->).
  unfold ascii_replace. rewrite map_app. eexists; reflexivity.
Qed.

Lemma opb_varname_entries_lines_star : forall names i,
  Forall starts_star (concat (map entry_lines (opb_varname_entries i names))).
Proof.
  induction names as [|nm names IH]; intros i; [constructor|].
  cbn [opb_varname_entries map concat]. apply Forall_app. split; [|apply IH].
  change (lit "* varname x" ++ print_Z i ++ [SP] ++ nm) with (lit "* " ++ lit "varname x" ++ print_Z i ++ [SP] ++ nm).
  eapply Forall_impl; [|apply within_comment_lines; reflexivity]. apply starts_star_of_prefix.
Qed.

Lemma opb_comment_lines_entries h names :
  opb_comment_lines h names = concat (map entry_lines (opb_comment_entries h names)).
Proof. apply split_lines_unlines_entries. Qed.

Lemma opb_comment_lines_star h names : Forall starts_star (opb_comment_lines h names).
Proof.
  rewrite opb_comment_lines_entries. unfold opb_comment_entries. rewrite map_app, concat_app.
  assert (Hc : Forall starts_star (concat (map entry_lines [lit "*"]))).
  { cbn. constructor; [eexists; reflexivity|constructor]. }
  apply Forall_app. split.
  - destruct h as [h|]; [|constructor]. rewrite map_app, concat_app. apply Forall_app. split; [|exact Hc].
    induction h as [|fv h IH]; [constructor|]. cbn [map concat]. apply Forall_app.
    split; [apply opb_header_entry_lines_star|exact IH].
  - destruct names as [ns|]; [|constructor]. rewrite map_app, concat_app. apply Forall_app.
    split; [apply opb_varname_entries_lines_star|exact Hc].
Qed.

Lemma no_break_opb_spec_line n m : no_break (opb_spec_line n m) = true.
Proof. unfold opb_spec_line. rewrite !no_break_app, !no_break_print_Z. reflexivity. Qed.

(* the lines of the text, for EVERY header and EVERY list of names *)
Lemma split_lines_print_opb h names f :
  split_lines (print_opb h names f) =
  opb_spec_line (numvar f) (len (constraints f)) :: opb_comment_lines h names ++
  map constraint_line (constraints f).
Proof.
  unfold print_opb, opb_entries. rewrite split_lines_unlines_entries. cbn [map concat].
  rewrite entry_lines_plain by apply no_break_no_lf, no_break_opb_spec_line. cbn [app]. f_equal.
  rewrite map_app, concat_app, <- opb_comment_lines_entries. f_equal.
  apply concat_entry_lines_plain. rewrite forallb_map. apply forallb_true.
  intros c _. apply no_break_no_lf, no_break_constraint_line.
Qed.

(* the independent reader on: counts line, any '*' lines, the constraint lines *)
Lemma parse_opb_on_lines cl f t : Forall starts_star cl -> opb_valid f -> opb_printable f ->
  split_lines t = opb_spec_line (numvar f) (len (constraints f)) :: cl ++ map constraint_line (constraints f) ->
  parse_opb t = OOk (numvar f) (constraints f).
Proof.
  intros Hc [Hn Hv] (Pn & Pm & Pc) E. unfold parse_opb. rewrite E.
  pose proof (len_nonneg (constraints f)) as Hm.
  rewrite parse_opb_spec_line; try assumption; try (apply small_of_bound; assumption).
  destruct (parse_opb_lines_comments cl (numvar f) 1 (map constraint_line (constraints f)) Hc) as (k' & ->).
  rewrite parse_opb_lines_constraints by assumption.
  rewrite Z.eqb_refl. reflexivity.
Qed.

Theorem opb_roundtrip_proved h names f :
  opb_valid f -> opb_printable f ->
  parse_opb (print_opb h names f) = OOk (numvar f) (constraints f).
Proof.
  intros Hv Hp. apply (parse_opb_on_lines (opb_comment_lines h names)); try assumption.
  - apply opb_comment_lines_star.
  - apply split_lines_print_opb.
Qed.

Theorem opb_shape_proved h names f :
  split_lines (print_opb h names f) =
    opb_spec_line (numvar f) (len (constraints f)) :: opb_comment_lines h names ++
    map constraint_line (constraints f) /\
  Forall starts_star (opb_comment_lines h names) /\
  Forall not_star (map constraint_line (constraints f)).
Proof.
  split; [apply split_lines_print_opb|].
  split; [apply opb_comment_lines_star|].
  rewrite Forall_forall. intros l Hl. apply in_map_iff in Hl as (c & <- & _).
  apply constraint_line_not_star.
Qed.

(* the text has no carriage return at all (so it reads the same in text mode) *)
Lemma no_cr_opb_varname_entries : forall names i, forallb no_cr (opb_varname_entries i names) = true.
Proof.
  induction names as [|nm names IH]; intros i; [reflexivity|].
  cbn [opb_varname_entries forallb]. rewrite IH, no_cr_within_comment; reflexivity.
Qed.

Theorem print_opb_no_cr h names f : no_cr (print_opb h names f) = true.
Proof.
  unfold print_opb, opb_entries. apply no_cr_unlines. cbn [forallb].
  rewrite (no_break_no_cr _ (no_break_opb_spec_line _ _)). cbn [andb].
  rewrite forallb_app. apply andb_true_iff. split.
  - unfold opb_comment_entries. rewrite forallb_app. apply andb_true_iff. split.
    + destruct h as [h|]; [|reflexivity]. rewrite forallb_app. apply andb_true_iff. split; [|reflexivity].
      rewrite forallb_map. apply forallb_true. intros fv _. unfold opb_header_entry.
      apply no_cr_ascii_replace, no_cr_within_comment. reflexivity.
    + destruct names as [ns|]; [|reflexivity]. rewrite forallb_app, no_cr_opb_varname_entries. reflexivity.
  - rewrite forallb_map. apply forallb_true. intros c _. apply no_break_no_cr, no_break_constraint_line.
Qed.

(* the two writers agree when no field or name has a line break *)
Lemma opb_varname_entries_as_found : forall names i, forallb no_break names = true ->
  opb_varname_entries i names = opb_varname_lines_as_found i names.
Proof.
  induction names as [|nm names IH]; intros i H; [reflexivity|].
  cbn [forallb] in H. apply andb_true_iff in H as [H1 H2].
  cbn [opb_varname_entries opb_varname_lines_as_found]. rewrite IH by exact H2. f_equal.
  apply within_comment_id. rewrite !no_break_app, no_break_print_Z, H1. reflexivity.
Qed.

Lemma opb_comment_entries_as_found h names : header_ok h = true -> names_ok names = true ->
  opb_comment_entries h names = opb_comment_lines_as_found h names.
Proof.
  intros Hh Hn. unfold opb_comment_entries, opb_comment_lines_as_found. f_equal.
  - destruct h as [h|]; [|reflexivity]. f_equal. cbn [header_ok] in Hh.
    apply map_ext_in. intros fv Hfv. rewrite forallb_forall in Hh. specialize (Hh fv Hfv).
    apply andb_true_iff in Hh as [H1 H2]. unfold opb_header_entry, opb_header_line_as_found.
    rewrite within_comment_id; [reflexivity|]. rewrite !no_break_app, H1, H2. reflexivity.
  - destruct names as [ns|]; [|reflexivity]. f_equal. apply opb_varname_entries_as_found, Hn.
Qed.

Theorem print_opb_unchanged h names f : header_ok h = true -> names_ok names = true ->
  print_opb h names f = print_opb_as_found h names f /\
  opb_comment_lines h names = opb_comment_lines_as_found h names.
Proof.
  intros Hh Hn. unfold print_opb, print_opb_as_found, opb_entries, opb_lines_as_found, opb_comment_lines.
  rewrite opb_comment_entries_as_found by assumption. split; [reflexivity|].
  apply split_lines_unlines. eapply forallb_impl; [|apply no_break_opb_comment_lines_as_found; assumption].
  apply no_break_no_lf.
Qed.
