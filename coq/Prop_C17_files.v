(* Property C17 (with C14 and C18) for the tools with FILE arguments (coq/PipelineFiles.v):
     cnfgen_files_main : argv -> env -> bytes     `cnfgen <family> <graph file>`, `cnfgen dimacs [<file>|-]`, -T chains
     k2p_main          : argv -> env -> bytes     `kthlist2pebbling [-q] [-i <file>] [<transformation> <args>]`
   env = (a finite map from file names to file contents, the bytes on standard input).  argv is sys.argv[1:].
   Statements only; proofs in PipelineFilesFacts.v.  Tied to the real tools byte for byte by harness/c17_files.py.

   What differs between `kthlist2pebbling` and `cnfgen peb`: the input is always read as kthlist, from -i <file> or
   standard input (cnfgen: format token or extension); at most ONE transformation, named without -T; only DIMACS
   output (no -of); no -v.  Without -q both write a header, and the two headers differ (kthlist2pebbling records
   no `command line` field, the description names another graph object): both models are POutside there.
   Everything else is proved equal below. *)
From Coq Require Import ZArith List Bool Ascii String.
From Cnfgen Require Import Sem Comb Linear IR Text Dimacs DimacsFacts OpbText Cli GraphSpec GText GraphIO Subst.
From Cnfgen Require Import PipelineGraph Pipeline PipelineFacts PipelineFiles PipelineFilesFacts.
Import ListNotations.
Open Scope Z_scope.

(* ------------------------------------------------------------------ *)
(* totality: C14's "a graph or ValueError" composed with the pipeline  *)
(* ------------------------------------------------------------------ *)
(* for EVERY argv, EVERY file map and EVERY standard input: a text, a clean command line error, or "outside the
   grammar" (POutside) -- never the crash value.  A missing file and a malformed file are clean errors. *)
Theorem files_total : forall argv env,
  (exists text, cnfgen_files_main argv env = POut text) \/ cnfgen_files_main argv env = PCliError \/
  cnfgen_files_main argv env = POutside.
Proof. exact cnfgen_files_main_total. Qed.
Print Assumptions files_total.

Theorem files_never_crashes : forall argv env, plf_formula argv env <> FrCrash.
Proof. exact plf_formula_no_crash. Qed.
Print Assumptions files_never_crashes.

Theorem k2p_total : forall argv env,
  (exists text, k2p_main argv env = POut text) \/ k2p_main argv env = PCliError \/ k2p_main argv env = POutside.
Proof. exact k2p_main_total. Qed.
Print Assumptions k2p_total.

Theorem k2p_never_crashes : forall argv env, k2p_formula argv env <> FrCrash.
Proof. exact k2p_formula_no_crash. Qed.
Print Assumptions k2p_never_crashes.

(* inside a graph argument: whatever the text, a reader of an in-house format returns a graph or raises ValueError
   (so the branch `GRaise _ => PlOutside` of PipelineFiles.plf_read_text is never taken) ... *)
Theorem files_reader_value_error_only : forall g f text, plf_inhouse f ->
  forall e, gio_read_graph true (plf_gtype_of g) f text = GRaise e -> e = EValueError.
Proof. exact plf_read_text_total. Qed.
Print Assumptions files_reader_value_error_only.

(* ... and a graph that is returned is a well-formed graph object of the requested kind *)
Theorem files_graph_argument_wellformed : forall env g vs G, plf_graph_arg env g vs = PlOk G ->
  GraphIOFacts.gio_wf G /\ io_kind G = plg_kind_of g.
Proof. exact plf_graph_arg_wf. Qed.
Print Assumptions files_graph_argument_wellformed.

(* ------------------------------------------------------------------ *)
(* what is written is the formula                                      *)
(* ------------------------------------------------------------------ *)
Theorem files_roundtrip : forall argv env text, cnfgen_files_main argv env = POut text ->
  exists n F, plf_formula argv env = FrOk n F /\ text = pl_write (pl_opb (plf_opts_of argv env)) None n F /\
              0 <= n /\ lits_in_range n F = true /\
              (printable n -> printable (len F) -> pl_reads_back (pl_opb (plf_opts_of argv env)) text n F).
Proof. exact cnfgen_files_main_roundtrip. Qed.
Print Assumptions files_roundtrip.

Theorem k2p_roundtrip : forall argv env text, k2p_main argv env = POut text ->
  exists n F, k2p_formula argv env = FrOk n F /\ text = print_dimacs None None n F /\
              0 <= n /\ lits_in_range n F = true /\
              (printable n -> printable (len F) -> forall u, parse_dimacs u text = DOk n F).
Proof. exact k2p_main_roundtrip. Qed.
Print Assumptions k2p_roundtrip.

(* ------------------------------------------------------------------ *)
(* -T chains with file arguments                                       *)
(* ------------------------------------------------------------------ *)
Theorem files_split : forall a t tc env, noT t -> plf_wellformed a env ->
  pl_parse_tchunk (map lit t) = PlOk (Some tc) ->
  plf_wellformed (a ++ "-T"%string :: t) env /\
  plf_formula (a ++ "-T"%string :: t) env = pl_step (plf_formula a env) tc.
Proof. exact plf_formula_step. Qed.
Print Assumptions files_split.

Theorem files_chain : forall env ts tcs a, plf_wellformed a env -> Forall noT ts ->
  Forall2 (fun t tc => pl_parse_tchunk (map lit t) = PlOk (Some tc)) ts tcs ->
  plf_formula (a ++ flat_map (fun t => "-T"%string :: t) ts) env = fold_left pl_step tcs (plf_formula a env).
Proof. exact plf_formula_chain. Qed.
Print Assumptions files_chain.

Theorem files_ok_wellformed : forall argv env n F, plf_formula argv env = FrOk n F -> plf_wellformed argv env.
Proof. exact plf_formula_ok_wellformed. Qed.
Print Assumptions files_ok_wellformed.

(* ------------------------------------------------------------------ *)
(* kthlist2pebbling equals `peb` on the same file                      *)
(* ------------------------------------------------------------------ *)
(* for EVERY file map, every file name f (an ASCII token that does not start with "-"), both spellings of the two
   options: same bytes, same error, same POutside -- whether f is missing, malformed, not a dag, or fine *)
Theorem k2p_equals_peb : forall env f sq si, In sq ["-q"; "--quiet"]%string -> In si ["-i"; "--input"]%string ->
  pl_is_ascii (lit f) = true -> pl_starts_dash (lit f) = false ->
  k2p_main [sq; si; f] env = cnfgen_files_main ["-q"; "peb"; "kthlist"; f]%string env.
Proof. exact k2p_equals_peb_plain. Qed.
Print Assumptions k2p_equals_peb.

(* with its one transformation t (accepted by the transformation parser): `.. t` is `.. -T t` *)
Theorem k2p_equals_peb_transformed : forall env f sq si t tc, In sq ["-q"; "--quiet"]%string -> In si ["-i"; "--input"]%string ->
  pl_is_ascii (lit f) = true -> pl_starts_dash (lit f) = false ->
  noT t -> pl_parse_tchunk (map lit t) = PlOk (Some tc) ->
  k2p_main ([sq; si; f] ++ t) env = cnfgen_files_main (["-q"; "peb"; "kthlist"; f]%string ++ "-T"%string :: t) env.
Proof. exact k2p_equals_peb_T. Qed.
Print Assumptions k2p_equals_peb_transformed.

(* reading standard input is reading a file that delivers the same text *)
Theorem k2p_standard_input : forall env f sq si t, In sq ["-q"; "--quiet"]%string -> In si ["-i"; "--input"]%string ->
  pl_is_ascii (lit f) = true -> pl_starts_dash (lit f) = false ->
  plf_open env (lit f) = Some (plf_stdin env) ->
  k2p_main ([sq; si; f] ++ t) env = k2p_main (sq :: t) env.
Proof. exact k2p_stdin_is_input. Qed.
Print Assumptions k2p_standard_input.

(* ------------------------------------------------------------------ *)
(* cnfgen dimacs <file>                                                *)
(* ------------------------------------------------------------------ *)
(* [plf_dimacs_outcome text]: POutside when the text has a byte >= 128, else the DIMACS print of what
   Dimacs.parse_dimacs reads, or PCliError when it raises ValueError.  For ALL file contents: *)
Theorem files_dimacs : forall env f, pl_is_ascii (lit f) = true -> (pl_starts_dash (lit f) = false \/ f = "-"%string) ->
  cnfgen_files_main ["-q"; "dimacs"; f]%string env =
  match plf_open env (lit f) with
  | Some text => plf_dimacs_outcome text
  | None => PCliError                                      (* a missing file *)
  end.
Proof. exact files_dimacs_outcome. Qed.
Print Assumptions files_dimacs.

Theorem files_dimacs_stdin : forall env, cnfgen_files_main ["-q"; "dimacs"]%string env = plf_dimacs_outcome (plf_stdin env).
Proof. exact files_dimacs_stdin_outcome. Qed.
Print Assumptions files_dimacs_stdin.

(* idempotence through the tool: if a text reads as (n, F) then the print t of (n, F) reads back as (n, F) (both
   newline conventions), and the tool given t -- on standard input, or in a file opened in text mode -- prints t *)
Theorem files_dimacs_idempotence : forall text n F, parse_dimacs false text = DOk n F -> printable n -> printable (len F) ->
  let t := print_dimacs None None n F in
  (forall u, parse_dimacs u t = DOk n F) /\
  plf_dimacs_outcome t = POut t /\ plf_dimacs_outcome (universal t) = POut t.
Proof. exact files_dimacs_idempotent. Qed.
Print Assumptions files_dimacs_idempotence.

(* ------------------------------------------------------------------ *)
(* the parsers are those of Pipeline.v; the fast rendering             *)
(* ------------------------------------------------------------------ *)
Theorem files_parsers_are_the_old_ones : forall name toks, plf_parse_formula plg_graph_arg name toks = pl_parse_formula name toks.
Proof. exact plf_parse_formula_old. Qed.
Print Assumptions files_parsers_are_the_old_ones.

Theorem files_fast_eq : forall argv env, cnfgen_files_main_fast argv env = cnfgen_files_main argv env.
Proof. exact cnfgen_files_main_fast_eq. Qed.
Print Assumptions files_fast_eq.

Theorem k2p_fast_eq : forall argv env, k2p_main_fast argv env = k2p_main argv env.
Proof. exact k2p_main_fast_eq. Qed.
Print Assumptions k2p_fast_eq.

(* ------------------------------------------------------------------ *)
(* the hypotheses are satisfiable, every outcome occurs                *)
(* ------------------------------------------------------------------ *)
Definition pyramid1 : text := lit "c a pyramid
3
1 : 0
2 : 0
3 : 1 2 0
".
Definition env1 : plf_env := mk_plf_env [(lit "g.kthlist", pyramid1); (lit "p.dimacs", lit "p edge 3 2
e 1 2
e 2 3
"); (lit "cyc.kthlist", lit "2
1 : 2 0
2 : 1 0
"); (lit "f.cnf", lit "c x
p cnf 3 2
1 -2
0 3 0
"); (lit "bad.cnf", lit "p cnf 1 1
2 0
")] pyramid1.

Example files_nonvacuous :
  let peb3 := POut (lit "p cnf 3 4
1 0
2 0
-1 -2 3 0
-3 0
") in
  cnfgen_files_main ["-q"; "peb"; "g.kthlist"]%string env1 = peb3 /\
  cnfgen_files_main ["-q"; "peb"; "kthlist"; "g.kthlist"]%string env1 = peb3 /\
  k2p_main ["-q"; "-i"; "g.kthlist"]%string env1 = peb3 /\
  k2p_main ["--quiet"]%string env1 = peb3 /\
  k2p_main ["-q"; "-i"; "-"]%string env1 = peb3 /\
  k2p_main ["-q"; "-i"; "g.kthlist"; "flip"]%string env1 = cnfgen_files_main ["-q"; "peb"; "g.kthlist"; "-T"; "flip"]%string env1 /\
  (exists t, k2p_main ["-q"; "-i"; "g.kthlist"; "xor"; "2"]%string env1 = POut t) /\
  cnfgen_files_main ["-q"; "kcolor"; "2"; "p.dimacs"]%string env1 = POut (lit "p cnf 6 10
1 2 0
3 4 0
5 6 0
-1 -2 0
-3 -4 0
-5 -6 0
-1 -3 0
-2 -4 0
-3 -5 0
-4 -6 0
") /\
  cnfgen_files_main ["-q"; "peb"; "missing.kthlist"]%string env1 = PCliError /\
  cnfgen_files_main ["-q"; "peb"; "cyc.kthlist"]%string env1 = PCliError /\
  cnfgen_files_main ["-q"; "peb"; "p.dimacs"; "-T"]%string env1 = PCliError /\
  cnfgen_files_main ["-q"; "peb"; "f.cnf"]%string env1 = PCliError /\
  cnfgen_files_main ["-q"; "peb"; "g.gml"]%string env1 = PCliError /\
  cnfgen_files_main ["-q"; "kcolor"; "2"; "p.dimacs"; "plantclique"; "2"]%string env1 = POutside /\
  k2p_main ["-q"; "-i"; "cyc.kthlist"]%string env1 = PCliError /\
  k2p_main ["-q"; "-i"; "nope"]%string env1 = PCliError /\
  k2p_main ["-q"; "-o"; "out"]%string env1 = POutside /\
  k2p_main []%string env1 = POutside /\
  cnfgen_files_main ["-q"; "dimacs"; "f.cnf"]%string env1 = POut (lit "p cnf 3 2
1 -2 0
3 0
") /\
  cnfgen_files_main ["-q"; "dimacs"; "f.cnf"; "-T"; "flip"]%string env1 = POut (lit "p cnf 3 2
-1 2 0
-3 0
") /\
  cnfgen_files_main ["-q"; "dimacs"; "bad.cnf"]%string env1 = PCliError /\
  cnfgen_files_main ["-q"; "dimacs"; "nope.cnf"]%string env1 = PCliError /\
  cnfgen_files_main ["-q"; "dimacs"; "-"]%string env1 = PCliError /\
  plf_wellformed ["-q"; "peb"; "g.kthlist"]%string env1 /\
  pl_parse_tchunk (map lit ["flip"]%string) = PlOk (Some TcFlip) /\
  plf_open env1 (lit "g.kthlist") = Some (plf_stdin env1) /\
  plf_inhouse FKthlist /\ plf_inhouse FDimacs /\ plf_inhouse FMatrix /\
  (exists n F, parse_dimacs false (lit "p cnf 2 1
1 -2 0
") = DOk n F /\ F <> []).
Proof.
  cbv zeta. repeat split; try (vm_compute; reflexivity); try discriminate.
  - eexists. vm_compute. reflexivity.
  - eexists; eexists; eexists. vm_compute. repeat split; reflexivity.
  - eexists; eexists. split; [vm_compute; reflexivity|discriminate].
Qed.
