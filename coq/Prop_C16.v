(* Property C16 -- graph objects stay consistent under any sequence of updates.
   ONLY statements; every proof is `exact <lemma of GraphObjFacts>`.

   Reading guide.  g_ / d_ / b_ = the state machines of cnfgen's Graph / DirectedGraph /
   BipartiteGraph (GraphObj.v).  `g_reach s` = s is the result of SOME finite op sequence (add_edge,
   remove_edge, update_vertex_number, add_edges_from with arbitrary integer arguments) run on a
   freshly constructed object of SOME size.  The abstract specification (GraphObjFacts.v section 4) is a
   vertex count (two for bipartite) and a duplicate-free list of edges `a_E`, an edge of a simple
   graph being kept as (smaller, larger); `a_step` is set insertion / removal / max on it. *)
From Coq Require Import ZArith List Bool Sorted.
From Cnfgen Require Import Comb GraphObj GraphObjFacts.
Import ListNotations.
Open Scope Z_scope.

(* ---------------------------------------------------------------- what the specification means *)
(* after a permitted insertion exactly that edge is new; a refused one changes nothing; inserting a
   present edge changes nothing; removal (simple graphs) deletes exactly that edge *)
Theorem C16_spec_add : forall k A u v x y, a_valid k A u v = true ->
  a_has k (fst (a_add k A u v)) x y = pair_eqb (a_norm k x y) (a_norm k u v) || a_has k A x y.
Proof. exact a_add_has. Qed.
Print Assumptions C16_spec_add.
Theorem C16_spec_refused : forall k A u v, a_valid k A u v = false -> a_add k A u v = (A, ValueError).
Proof. exact a_add_refused. Qed.
Print Assumptions C16_spec_refused.
Theorem C16_spec_duplicate : forall k A u v, a_has k A u v = true -> fst (a_add k A u v) = A.
Proof. exact a_add_duplicate. Qed.
Print Assumptions C16_spec_duplicate.
Theorem C16_spec_remove : forall A u v x y,
  a_has KSimple (fst (a_remove KSimple A u v)) x y =
  negb (pair_eqb (a_norm KSimple x y) (a_norm KSimple u v)) && a_has KSimple A x y.
Proof. exact a_remove_has. Qed.
Print Assumptions C16_spec_remove.

(* a strictly sorted list is determined by its elements: "sorted + exactly these elements" below
   pins a listing down completely *)
Theorem C16_sorted_listing_unique : forall l1 l2, lex_sorted l1 -> lex_sorted l2 ->
  (forall x, In x l1 <-> In x l2) -> l1 = l2.
Proof. exact lex_sorted_unique. Qed.
Print Assumptions C16_sorted_listing_unique.
Theorem C16_sorted_neighbours_unique : forall l1 l2, sorted l1 -> sorted l2 ->
  (forall x, In x l1 <-> In x l2) -> l1 = l2.
Proof. exact sorted_unique. Qed.
Print Assumptions C16_sorted_neighbours_unique.

(* ---------------------------------------------------------------- constructors *)
Theorem C16_graph_constructor : forall n, g_init n = None <-> n < 0.
Proof. exact g_init_refused. Qed.
Print Assumptions C16_graph_constructor.
Theorem C16_digraph_constructor : forall n, d_init n = None <-> n < 0.
Proof. exact d_init_refused. Qed.
Print Assumptions C16_digraph_constructor.
Theorem C16_bipartite_constructor : forall l r, b_init l r = None <-> l < 0 \/ r < 0.
Proof. exact b_init_refused. Qed.
Print Assumptions C16_bipartite_constructor.

(* ---------------------------------------------------------------- refinement, for every history *)
(* from any initial size, after any op sequence: the abstraction of the object is the abstract run,
   and call by call the outcomes (Ok / ValueError / no such method) are the abstract ones *)
Theorem C16_graph_refines : forall n0 s0 ops, g_init n0 = Some s0 ->
  g_abs (g_run s0 ops) = a_run KSimple (a_init KSimple n0 0) ops /\
  outcomes g_step s0 ops = outcomes (a_step KSimple) (a_init KSimple n0 0) ops.
Proof. exact g_refinement. Qed.
Print Assumptions C16_graph_refines.
Theorem C16_digraph_refines : forall n0 s0 ops, d_init n0 = Some s0 ->
  d_abs (d_run s0 ops) = a_run KDirected (a_init KDirected n0 0) ops /\
  outcomes d_step s0 ops = outcomes (a_step KDirected) (a_init KDirected n0 0) ops.
Proof. exact d_refinement. Qed.
Print Assumptions C16_digraph_refines.
Theorem C16_bipartite_refines : forall l0 r0 s0 ops, b_init l0 r0 = Some s0 ->
  b_abs (b_run s0 ops) = a_run KBipartite (a_init KBipartite l0 r0) ops /\
  outcomes b_step s0 ops = outcomes (a_step KBipartite) (a_init KBipartite l0 r0) ops.
Proof. exact b_refinement. Qed.
Print Assumptions C16_bipartite_refines.

(* ---------------------------------------------------------------- refused calls *)
(* in a reachable state a call returns normally or raises ValueError -- never IndexError, KeyError or
   the ValueError of list.remove with a half-updated object --, and a call that does not return
   normally leaves the object (all fields, hence all views) exactly as it was.  add_edges_from is the
   one exception by construction: see C16_*_add_edges_from below. *)
Theorem C16_graph_refusal : forall s o, g_reach s ->
  (snd (g_step s o) = Ok \/ snd (g_step s o) = ValueError) /\
  (snd (g_step s o) <> Ok -> (forall l, o <> AddEdgesFrom l) -> fst (g_step s o) = s).
Proof. exact g_calls_never_crash. Qed.
Print Assumptions C16_graph_refusal.
(* DirectedGraph and BipartiteGraph have no remove_edge / update_vertex_number (AttributeError, object
   untouched) *)
Theorem C16_digraph_refusal : forall s o, d_reach s ->
  match o with
  | RemoveEdge _ _ | RaiseN _ => d_step s o = (s, NoMethod)
  | _ => snd (d_step s o) = Ok \/ snd (d_step s o) = ValueError
  end /\
  (snd (d_step s o) <> Ok -> (forall l, o <> AddEdgesFrom l) -> fst (d_step s o) = s).
Proof. exact d_calls_never_crash. Qed.
Print Assumptions C16_digraph_refusal.
Theorem C16_bipartite_refusal : forall s o, b_reach s ->
  match o with
  | RemoveEdge _ _ | RaiseN _ => b_step s o = (s, NoMethod)
  | _ => snd (b_step s o) = Ok \/ snd (b_step s o) = ValueError
  end /\
  (snd (b_step s o) <> Ok -> (forall l, o <> AddEdgesFrom l) -> fst (b_step s o) = s).
Proof. exact b_calls_never_crash. Qed.
Print Assumptions C16_bipartite_refusal.

(* add_edges_from inserts the edges in order; at the first edge the class does not allow it raises
   ValueError and the object is exactly what the edges before it built *)
Theorem C16_graph_add_edges_from : forall s l1 u v l2, g_reach s ->
  snd (add_from g_add_edge s l1) = Ok -> g_valid (fst (add_from g_add_edge s l1)) u v = false ->
  g_step s (AddEdgesFrom (l1 ++ (u, v) :: l2)) = (fst (g_step s (AddEdgesFrom l1)), ValueError).
Proof. exact g_add_edges_from_stops_clean. Qed.
Print Assumptions C16_graph_add_edges_from.
Theorem C16_digraph_add_edges_from : forall s l1 u v l2, d_reach s ->
  snd (add_from d_add_edge s l1) = Ok -> d_valid (fst (add_from d_add_edge s l1)) u v = false ->
  d_step s (AddEdgesFrom (l1 ++ (u, v) :: l2)) = (fst (d_step s (AddEdgesFrom l1)), ValueError).
Proof. exact d_add_edges_from_stops_clean. Qed.
Print Assumptions C16_digraph_add_edges_from.
Theorem C16_bipartite_add_edges_from : forall s l1 u v l2, b_reach s ->
  snd (add_from b_add_edge s l1) = Ok -> b_valid (fst (add_from b_add_edge s l1)) u v = false ->
  b_step s (AddEdgesFrom (l1 ++ (u, v) :: l2)) = (fst (b_step s (AddEdgesFrom l1)), ValueError).
Proof. exact b_add_edges_from_stops_clean. Qed.
Print Assumptions C16_bipartite_add_edges_from.
Theorem C16_graph_add_edges_from_ok : forall s l, g_reach s -> snd (g_step s (AddEdgesFrom l)) = Ok ->
  fst (g_step s (AddEdgesFrom l)) = g_run s (map (fun e => AddEdge (fst e) (snd e)) l).
Proof. exact g_add_edges_from_is_add_edge_loop. Qed.
Print Assumptions C16_graph_add_edges_from_ok.

(* ---------------------------------------------------------------- duplicates *)
Theorem C16_graph_duplicate : forall s u v, g_reach s ->
  g_has_edge s u v = true \/ g_has_edge s v u = true ->
  g_step s (AddEdge u v) = (s, Ok) \/ g_step s (AddEdge u v) = (s, ValueError).
Proof. exact g_duplicate. Qed.
Print Assumptions C16_graph_duplicate.
Theorem C16_digraph_duplicate : forall s u v, d_reach s -> d_has_edge s u v = true -> d_step s (AddEdge u v) = (s, Ok).
Proof. exact d_duplicate. Qed.
Print Assumptions C16_digraph_duplicate.
Theorem C16_bipartite_duplicate : forall s u v, b_reach s -> b_has_edge s u v = true -> b_step s (AddEdge u v) = (s, Ok).
Proof. exact b_duplicate. Qed.
Print Assumptions C16_bipartite_duplicate.

(* ---------------------------------------------------------------- all views agree with the edge set *)
(* Graph: vertex count; edge count = size of the set; membership (symmetric); the edge listing is
   strictly sorted (so each edge once) and lists exactly the set; neighbors(u) is refused exactly
   outside 1..n, is strictly sorted and lists exactly the v with {u,v} in the set; degree = its length *)
Theorem C16_graph_views : forall s, g_reach s ->
  let A := g_abs s in
  g_n s = a_n A /\
  g_m s = Z.of_nat (length (a_E A)) /\
  NoDup (a_E A) /\
  (forall u v, g_has_edge s u v = a_has KSimple A u v) /\
  (forall u v, g_has_edge s u v = g_has_edge s v u) /\
  lex_sorted (g_edges s) /\ (forall e, In e (g_edges s) <-> In e (a_E A)) /\
  (forall u, match g_neighbors s u with
             | None => ~ (1 <= u <= a_n A) /\ g_degree s u = None
             | Some l => 1 <= u <= a_n A /\ sorted l /\ (forall v, In v l <-> a_has KSimple A u v = true) /\
                         g_degree s u = Some (Z.of_nat (length l))
             end).
Proof. exact g_views. Qed.
Print Assumptions C16_graph_views.

(* DirectedGraph: the same, with both edge listings (by source, and by destination), successor and
   predecessor lists, out- and in-degree; and it reports itself acyclic exactly when every edge of
   the set goes from a lower to a higher vertex *)
Theorem C16_digraph_views : forall s, d_reach s ->
  let A := d_abs s in
  d_n s = a_n A /\
  d_m s = Z.of_nat (length (a_E A)) /\
  NoDup (a_E A) /\
  (forall u v, d_has_edge s u v = a_has KDirected A u v) /\
  lex_sorted (d_edges s) /\ (forall e, In e (d_edges s) <-> In e (a_E A)) /\
  lex_sorted (map swap (d_edges_by_dest s)) /\ (forall e, In e (d_edges_by_dest s) <-> In e (a_E A)) /\
  (forall u, match d_successors s u with
             | None => ~ (1 <= u <= a_n A)
             | Some l => 1 <= u <= a_n A /\ sorted l /\ (forall v, In v l <-> a_has KDirected A u v = true) /\
                         d_out_degree s u = Some (Z.of_nat (length l))
             end) /\
  (forall v, match d_predecessors s v with
             | None => ~ (1 <= v <= a_n A)
             | Some l => 1 <= v <= a_n A /\ sorted l /\ (forall u, In u l <-> a_has KDirected A u v = true) /\
                         d_in_degree s v = Some (Z.of_nat (length l))
             end) /\
  (d_dag s = true <-> forall u v, In (u, v) (a_E A) -> u < v).
Proof. exact d_views. Qed.
Print Assumptions C16_digraph_views.

Theorem C16_bipartite_views : forall s, b_reach s ->
  let A := b_abs s in
  b_l s = a_n A /\ b_r s = a_r A /\
  b_number_of_edges s = Z.of_nat (length (a_E A)) /\
  NoDup (a_E A) /\
  (forall u v, b_has_edge s u v = a_has KBipartite A u v) /\
  lex_sorted (b_edges s) /\ (forall e, In e (b_edges s) <-> In e (a_E A)) /\
  (forall u, match b_right_neighbors s u with
             | None => ~ (1 <= u <= a_n A)
             | Some l => 1 <= u <= a_n A /\ sorted l /\ (forall v, In v l <-> a_has KBipartite A u v = true) /\
                         b_right_degree s u = Some (Z.of_nat (length l))
             end) /\
  (forall v, match b_left_neighbors s v with
             | None => ~ (1 <= v <= a_r A)
             | Some l => 1 <= v <= a_r A /\ sorted l /\ (forall u, In u l <-> a_has KBipartite A u v = true) /\
                         b_left_degree s v = Some (Z.of_nat (length l))
             end).
Proof. exact b_views. Qed.
Print Assumptions C16_bipartite_views.

(* the set only ever holds edges the class allows *)
Theorem C16_graph_edges_admissible : forall s, g_reach s ->
  forall u v, In (u, v) (a_E (g_abs s)) -> 1 <= u /\ u < v /\ v <= g_n s.
Proof. exact g_abs_wellformed. Qed.
Print Assumptions C16_graph_edges_admissible.
Theorem C16_digraph_edges_admissible : forall s, d_reach s ->
  forall u v, In (u, v) (a_E (d_abs s)) -> 1 <= u <= d_n s /\ 1 <= v <= d_n s.
Proof. exact d_abs_wellformed. Qed.
Print Assumptions C16_digraph_edges_admissible.
Theorem C16_bipartite_edges_admissible : forall s, b_reach s ->
  forall u v, In (u, v) (a_E (b_abs s)) -> 1 <= u <= b_l s /\ 1 <= v <= b_r s.
Proof. exact b_abs_wellformed. Qed.
Print Assumptions C16_bipartite_edges_admissible.

(* two histories that end with the same vertex count and the same edge set show identical snapshots
   of ALL views (the record the driver prints and the harness compares) *)
Theorem C16_graph_history_independent : forall s1 s2, g_reach s1 -> g_reach s2 -> g_n s1 = g_n s2 ->
  (forall e, In e (a_E (g_abs s1)) <-> In e (a_E (g_abs s2))) -> g_view s1 = g_view s2.
Proof. exact g_history_independent. Qed.
Print Assumptions C16_graph_history_independent.
Theorem C16_digraph_history_independent : forall s1 s2, d_reach s1 -> d_reach s2 -> d_n s1 = d_n s2 ->
  (forall e, In e (a_E (d_abs s1)) <-> In e (a_E (d_abs s2))) -> d_view s1 = d_view s2.
Proof. exact d_history_independent. Qed.
Print Assumptions C16_digraph_history_independent.
Theorem C16_bipartite_history_independent : forall s1 s2, b_reach s1 -> b_reach s2 ->
  b_l s1 = b_l s2 -> b_r s1 = b_r s2 ->
  (forall e, In e (a_E (b_abs s1)) <-> In e (a_E (b_abs s2))) -> b_view s1 = b_view s2.
Proof. exact b_history_independent. Qed.
Print Assumptions C16_bipartite_history_independent.

(* ---------------------------------------------------------------- networkx
   to_networkx hands over the vertex count and the edge listing; from_networkx rebuilds an object
   from whatever edge list networkx returns -- any order, either orientation for undirected graphs
   (bipartite: right vertex v travels as v + L).  All views of the rebuilt object, is_dag included,
   equal the original's.  (networkx itself is not modelled: that it returns the vertices and edges
   it was given is checked at run time by the harness.) *)
Theorem C16_graph_networkx : forall s, g_reach s ->
  (forall l, (forall u v, In (u, v) (g_es s) <-> In (u, v) l \/ In (v, u) l) ->
     exists s', g_from_nx (g_n s) l = Some (s', Ok) /\ g_view s' = g_view s) /\
  exists s', g_from_nx (fst (g_to_nx s)) (snd (g_to_nx s)) = Some (s', Ok) /\ g_view s' = g_view s.
Proof. exact g_networkx_roundtrip. Qed.
Print Assumptions C16_graph_networkx.
Theorem C16_digraph_networkx : forall s, d_reach s ->
  (forall l, (forall e, In e l <-> In e (d_es s)) ->
     exists s', d_from_nx (d_n s) l = Some (s', Ok) /\ d_view s' = d_view s) /\
  exists s', d_from_nx (fst (d_to_nx s)) (snd (d_to_nx s)) = Some (s', Ok) /\ d_view s' = d_view s.
Proof. exact d_networkx_roundtrip. Qed.
Print Assumptions C16_digraph_networkx.
Theorem C16_bipartite_networkx : forall s, b_reach s ->
  (forall l, (forall x y, In (x, y) l -> nx_wf (b_l s) (b_r s) x y) ->
     (forall u v, 1 <= u <= b_l s -> 1 <= v <= b_r s ->
        (In (u, v) (b_es s) <-> In (u, v + b_l s) l \/ In (v + b_l s, u) l)) ->
     exists s', b_from_nx (b_l s) (b_r s) l = Some (s', Ok) /\ b_view s' = b_view s) /\
  exists s', b_from_nx (fst (fst (b_to_nx s))) (snd (fst (b_to_nx s))) (snd (b_to_nx s)) = Some (s', Ok) /\
             b_view s' = b_view s.
Proof. exact b_networkx_roundtrip. Qed.
Print Assumptions C16_bipartite_networkx.

(* ---------------------------------------------------------------- non-vacuity
   reachable states exist and are not trivial: runs with valid, duplicate, refused (0, out of range,
   self-loop), removing and growing calls; the outcome lists show every class of outcome *)
Example C16_graph_nonvacuous :
  exists s0, g_init 3 = Some s0 /\
  let ops := [AddEdge 3 1; AddEdge 1 3; AddEdge 2 2; AddEdge 0 1; RaiseN 5; AddEdge 5 2; RemoveEdge 3 1;
              RemoveEdge 3 1; RaiseN (-1); AddEdgesFrom [(4, 5); (1, 6); (2, 3)]] in
  outcomes g_step s0 ops = [Ok; Ok; ValueError; ValueError; Ok; Ok; Ok; Ok; ValueError; ValueError] /\
  g_edges (g_run s0 ops) = [(2, 5); (4, 5)] /\ g_m (g_run s0 ops) = 2 /\
  g_neighbors (g_run s0 ops) 5 = Some [2; 4] /\ g_neighbors (g_run s0 ops) 6 = None.
Proof. eexists. split; [reflexivity |]. vm_compute. repeat split. Qed.

Example C16_digraph_nonvacuous :
  exists s0, d_init 3 = Some s0 /\
  outcomes d_step s0 [AddEdge 1 2; AddEdge 2 3; AddEdge 1 2; AddEdge 4 1; RemoveEdge 1 2] = [Ok; Ok; Ok; ValueError; NoMethod] /\
  d_dag (d_run s0 [AddEdge 1 2; AddEdge 2 3]) = true /\
  d_dag (d_run s0 [AddEdge 1 2; AddEdge 2 2]) = false /\
  d_edges (d_run s0 [AddEdge 3 1; AddEdge 1 2; AddEdge 1 1]) = [(1, 1); (1, 2); (3, 1)] /\
  d_edges_by_dest (d_run s0 [AddEdge 3 1; AddEdge 1 2; AddEdge 1 1]) = [(1, 1); (3, 1); (1, 2)].
Proof. eexists. split; [reflexivity |]. vm_compute. repeat split. Qed.

Example C16_bipartite_nonvacuous :
  exists s0, b_init 3 5 = Some s0 /\
  outcomes b_step s0 [AddEdge 2 3; AddEdge 2 2; AddEdge 2 3; AddEdge 4 1; AddEdgesFrom [(1, 5); (1, 6)]] = [Ok; Ok; Ok; ValueError; ValueError] /\
  b_right_neighbors (b_run s0 [AddEdge 2 3; AddEdge 2 2; AddEdge 2 3]) 2 = Some [2; 3] /\
  b_left_neighbors (b_run s0 [AddEdge 2 3; AddEdge 1 3]) 3 = Some [1; 2] /\
  b_number_of_edges (b_run s0 [AddEdge 2 3; AddEdge 2 2; AddEdge 2 3]) = 2.
Proof. eexists. split; [reflexivity |]. vm_compute. repeat split. Qed.

(* the error branches the theorems exclude are real branches of the model: on a state that is NOT
   reachable (adjacency table too short) add_edge crashes half way, leaving a changed object *)
Example C16_crash_branches_nonvacuous :
  let bad := mkG 2 0 [[]; []] [] in
  snd (g_step bad (AddEdge 1 2)) = Crash /\ fst (g_step bad (AddEdge 1 2)) <> bad.
Proof. vm_compute. split; [reflexivity | discriminate]. Qed.
