(* Property C09 — shuffling is a signed renaming of variables plus a reordering
   of clauses.  ONLY statements; every proof is `exact <lemma>`.

   A formula is (N, F) with literals within 1..N ([lits_in_range N F = true]).
   Each argument of Shuffle is ShFixed ('fixed') or ShGiven l (an explicit
   sequence, or the sequence the code drew with random.choice / random.shuffle
   when the argument is 'shuffle': the theorems hold for every l, hence for
   every seed). *)
From Coq Require Import ZArith List Bool Permutation.
From Cnfgen Require Import Sem Comb SemFacts Shuffle ShuffleFacts.
Import ListNotations.
Open Scope Z_scope.

(* which explicit arguments count as valid: a vector of +-1 of length N; a
   permutation of [a, a+n) (a = 1, n = N for variables; a = 0, n = number of
   clauses for clause positions).  'fixed' is always valid. *)
Theorem C09_valid_meaning : forall N a n l,
  (flips_valid N ShFixed <-> True) /\ (perm_valid a n ShFixed <-> True) /\
  (flips_valid N (ShGiven l) <-> len l = N /\ Forall (fun f => f = 1 \/ f = -1) l) /\
  (perm_valid a n (ShGiven l) <-> Permutation l (zrange a (a + n))).
Proof. exact (fun N a n l => conj (iff_refl _) (conj (iff_refl _) (conj (iff_refl _) (iff_refl _)))). Qed.
Print Assumptions C09_valid_meaning.

(* the code's test `sorted(l) == [a..a+n-1]` (with the length test) accepts exactly the permutations *)
Theorem C09_permutation_test : forall a n l l', 0 <= n ->
  check_permutation a n (ShGiven l) = Some l' <-> l' = l /\ Permutation l (zrange a (a + n)).
Proof. exact check_permutation_given. Qed.
Print Assumptions C09_permutation_test.

(* invalid arguments are rejected, valid ones accepted; the error reported is that
   of the first invalid argument in the order flips, variables, clauses *)
Theorem C09_validation : forall N F fl pm cp, 0 <= N ->
  ((exists n out, shuffle N F fl pm cp = ShOk n out) <->
     flips_valid N fl /\ perm_valid 1 N pm /\ perm_valid 0 (len F) cp) /\
  (shuffle N F fl pm cp = ShErrFlips <-> ~ flips_valid N fl) /\
  (shuffle N F fl pm cp = ShErrVars <-> flips_valid N fl /\ ~ perm_valid 1 N pm) /\
  (shuffle N F fl pm cp = ShErrClauses <-> flips_valid N fl /\ perm_valid 1 N pm /\ ~ perm_valid 0 (len F) cp).
Proof. exact shuffle_validation. Qed.
Print Assumptions C09_validation.

(* [signed_map N s]: s maps the literals +-1..+-N to themselves and commutes with negation *)
Theorem C09_signed_map_meaning : forall N s,
  signed_map N s <->
  forall l, (l <> 0 /\ Z.abs l <= N) -> (s l <> 0 /\ Z.abs (s l) <= N) /\ s (- l) = - s l.
Proof. exact (fun N s => iff_refl _). Qed.
Print Assumptions C09_signed_map_meaning.

(* the output is the input mapped, occurrence by occurrence, through ONE signed
   bijection sigma of the variables — the one given: v |-> flips[v-1]*perm[v-1] —
   and placed by ONE permutation of the positions — the one given: clause i
   goes to position cperm[i] *)
Theorem C09_signed_renaming : forall N F fl pm cp n out, 0 <= N ->
  shuffle N F fl pm cp = ShOk n out ->
  exists flips perm cperm,
    check_flips N fl = Some flips /\ check_permutation 1 N pm = Some perm /\
    check_permutation 0 (len F) cp = Some cperm /\
    let sigma := subst_lit flips perm in
    let sigma' := inv_lit flips perm in
    signed_map N sigma /\ signed_map N sigma' /\
    (forall l, inrange N l -> sigma' (sigma l) = l) /\ (forall l, inrange N l -> sigma (sigma' l) = l) /\
    (forall v, 1 <= v <= N -> sigma v = nth (Z.to_nat (v - 1)) flips 0 * nth (Z.to_nat (v - 1)) perm 0) /\
    Permutation cperm (zrange 0 (len F)) /\
    Permutation out (map (map sigma) F) /\
    (forall i, (i < length F)%nat -> nth (Z.to_nat (nth i cperm 0)) out [] = map sigma (nth i F [])).
Proof. exact shuffle_is_signed_renaming. Qed.
Print Assumptions C09_signed_renaming.

(* what the validated arguments are: the given sequence, or the identity for 'fixed' *)
Theorem C09_arguments_as_given : forall N a n l,
  check_flips N ShFixed = Some (repeat 1 (Z.to_nat N)) /\
  check_permutation a n ShFixed = Some (zrange a (a + n)) /\
  (forall l', check_flips N (ShGiven l) = Some l' -> l' = l) /\
  (forall l', 0 <= n -> check_permutation a n (ShGiven l) = Some l' -> l' = l).
Proof.
  exact (fun N a n l =>
    conj (check_flips_fixed N) (conj (check_permutation_fixed a n)
    (conj (fun l' H => proj1 (proj1 (check_flips_given N l l') H))
          (fun l' Hn H => proj1 (proj1 (check_permutation_given a n l l' Hn) H))))).
Qed.
Print Assumptions C09_arguments_as_given.

(* hence: same number of variables and clauses, same multiset of widths, literals in range *)
Theorem C09_counts : forall N F fl pm cp n out, 0 <= N -> lits_in_range N F = true ->
  shuffle N F fl pm cp = ShOk n out ->
  n = N /\ length out = length F /\ Permutation (map (@length Z) F) (map (@length Z) out) /\
  lits_in_range N out = true.
Proof. exact shuffle_counts. Qed.
Print Assumptions C09_counts.

(* a |-> a o sigma is a bijection between the models of the output and the models of the input *)
Theorem C09_models : forall N F fl pm cp n out, 0 <= N -> lits_in_range N F = true ->
  shuffle N F fl pm cp = ShOk n out ->
  exists sigma sigma',
    (forall a, cnf_sat a out = cnf_sat (pull sigma a) F) /\
    (forall a v, 1 <= v <= N -> pull sigma' (pull sigma a) v = a v) /\
    (forall a v, 1 <= v <= N -> pull sigma (pull sigma' a) v = a v).
Proof. exact shuffle_models. Qed.
Print Assumptions C09_models.

(* same number of satisfying assignments (counted over the 2^N assignments of 1..N) *)
Theorem C09_model_count : forall N F fl pm cp n out, 0 <= N -> lits_in_range N F = true ->
  shuffle N F fl pm cp = ShOk n out -> count_models n out = count_models N F.
Proof. exact model_count_preserved. Qed.
Print Assumptions C09_model_count.

(* a switched-off argument is the identity argument; all three off: the formula itself *)
Theorem C09_fixed_arguments : forall N F fl pm cp, 0 <= N ->
  shuffle N F ShFixed pm cp = shuffle N F (ShGiven (repeat 1 (Z.to_nat N))) pm cp /\
  shuffle N F fl ShFixed cp = shuffle N F fl (ShGiven (zrange 1 (1 + N))) cp /\
  shuffle N F fl pm ShFixed = shuffle N F fl pm (ShGiven (zrange 0 (0 + len F))).
Proof. exact fixed_is_identity_argument. Qed.
Print Assumptions C09_fixed_arguments.

Theorem C09_all_fixed : forall N F, 0 <= N -> lits_in_range N F = true ->
  shuffle N F ShFixed ShFixed ShFixed = ShOk N F.
Proof. exact all_fixed_is_identity. Qed.
Print Assumptions C09_all_fixed.

(* non-vacuity: a formula with an empty clause and a repeated literal, explicit
   valid arguments (the result is what cnfgen returns for the same call), and
   one invalid argument of each kind *)
Example C09_nonvacuous :
  let F := [[1; -2]; []; [3; 3]] in
  lits_in_range 3 F = true /\
  shuffle 3 F (ShGiven [-1; 1; -1]) (ShGiven [2; 3; 1]) (ShGiven [2; 0; 1]) = ShOk 3 [[]; [-1; -1]; [-2; -3]] /\
  count_models 3 F = 0%nat /\ count_models 3 [[1; -2]; [3; 3]] = 3%nat /\ count_models 3 [[-1; -1]; [-2; -3]] = 3%nat /\
  shuffle 3 F (ShGiven [1; 0; 1]) ShFixed ShFixed = ShErrFlips /\
  shuffle 3 F (ShGiven [1; 1]) ShFixed ShFixed = ShErrFlips /\
  shuffle 3 F ShFixed (ShGiven [1; 1; 2]) ShFixed = ShErrVars /\
  shuffle 3 F ShFixed (ShGiven [0; 1; 2]) ShFixed = ShErrVars /\
  shuffle 3 F ShFixed ShFixed (ShGiven [1; 2; 3]) = ShErrClauses /\
  shuffle 3 F (ShGiven [2; 1; 1]) (ShGiven [1; 2]) (ShGiven [0]) = ShErrFlips.
Proof. vm_compute. repeat split. Qed.
