(* Property C20 — placeholder while the facts are being proved *)
