(* Property C20 — solve() and is_satisfiable() report what the SAT solver found.
   ONLY statements; every proof is `exact <lemma>` (or a vm_compute witness).

   Solver.v models cnfgen/utils/solver.py at character level.  Every function
   takes a `quirks` value: `as_is` is the code in /repo, `spec` the documented
   behaviour (three known deviations repaired: D22 empty witness, D34 parser
   exceptions, D23 temporary file).  For `as_is` the full statements are
   refuted by a computed witness and proved under the exact extra hypothesis. *)
From Coq Require Import ZArith List Bool Ascii Permutation.
From Coq Require String.
Import String.StringSyntax.
From Cnfgen Require Import Sem Solver SolverFacts.
Import ListNotations.
Open Scope Z_scope.

(* ---------- the DIMACS output conventions (stdin/stdout and file-in/stdout) ----------
   The solver's output is any sequence of lines (LF or CRLF ended, the last one
   possibly unterminated), each of which is
     LOther   : a comment, a blank line, anything not starting with s or v;
     LStatus  : s <word>;
     LValues  : v followed by integer tokens separated by white space.
   final_status = the status word of the LAST s line; spelled = the integers of
   all v lines in order, the terminator tokens "0" dropped. *)

(* documented behaviour: (True, A sorted by variable), (False, None), RuntimeError *)
Theorem C20_solve_stdout_spec : forall c solver rest sameas installed world i lines last,
  sv_split_ws c = solver :: rest ->
  lookup (match sameas with Some s => s | None => solver end) solver_table = Some i ->
  installed solver = true -> i <> FileinFileout ->
  world i c = render_text lines last -> wf_text lines last ->
  solve spec (Some c) sameas installed world =
  match final_status (all_lines lines last) None with
  | Some true => PyPair true (Some (sort_abs (spelled (all_lines lines last))))
  | Some false => PyPair false None
  | None => PyRuntimeError
  end.
Proof. exact solve_stdout_spec. Qed.
Print Assumptions C20_solve_stdout_spec.

(* the code as it is: the same, provided a SAT answer spells a non-empty assignment *)
Theorem C20_solve_stdout_partial : forall c solver rest sameas installed world i lines last,
  sv_split_ws c = solver :: rest ->
  lookup (match sameas with Some s => s | None => solver end) solver_table = Some i ->
  installed solver = true -> i <> FileinFileout ->
  world i c = render_text lines last -> wf_text lines last ->
  (final_status (all_lines lines last) None = Some true -> spelled (all_lines lines last) <> []) ->
  solve as_is (Some c) sameas installed world =
  match final_status (all_lines lines last) None with
  | Some true => PyPair true (Some (sort_abs (spelled (all_lines lines last))))
  | Some false => PyPair false None
  | None => PyRuntimeError
  end.
Proof. exact solve_stdout_as_is. Qed.
Print Assumptions C20_solve_stdout_partial.

(* D22: without that hypothesis the statement is false of the code as it is:
   "s SATISFIABLE / v 0" (formula with no variable) gives (True, None) *)
Definition d22_lines : list (oline * bool) :=
  [(LOther (txt "c a comment"), false); (LStatus [SP] t_SATISFIABLE [], false); (LValues [([SP], (t_0, 0))] [], false)].
Theorem C20_solve_empty_witness_refuted :
  exists c sameas installed world i lines last,
    sv_split_ws c = [c] /\ lookup c solver_table = Some i /\ installed c = true /\ i <> FileinFileout /\
    world i c = render_text lines last /\ wf_text lines last /\
    final_status (all_lines lines last) None = Some true /\
    sameas = None /\
    solve as_is (Some c) sameas installed world = PyPair true None /\
    solve spec (Some c) sameas installed world = PyPair true (Some []).
Proof.
  exists (txt "lingeling"), None, (fun _ => true), (fun _ _ => render_text d22_lines None), StdinStdout, d22_lines, None.
  split; [reflexivity|]. split; [reflexivity|]. split; [reflexivity|]. split; [discriminate|]. split; [reflexivity|].
  split; [apply wf_textb_ok; vm_compute; reflexivity|]. vm_compute. repeat split.
Qed.
Print Assumptions C20_solve_empty_witness_refuted.

(* the witness handed back has the literals the solver spelled, ordered by
   variable, and satisfies whatever the spelled assignment satisfies *)
Theorem C20_witness_sorted_and_satisfying : forall A,
  Permutation (sort_abs A) A /\ abs_sorted (sort_abs A) /\ forall F, lits_sat (sort_abs A) F = lits_sat A F.
Proof. exact (fun A => conj (sort_abs_perm A) (conj (sort_abs_sorted A) (lits_sat_sort A))). Qed.
Print Assumptions C20_witness_sorted_and_satisfying.

(* ---------- the minisat convention (result file) ---------- *)
Theorem C20_solve_minisat_sat_spec : forall c solver rest sameas installed world lead items trail,
  sv_split_ws c = solver :: rest ->
  lookup (match sameas with Some s => s | None => solver end) solver_table = Some FileinFileout ->
  installed solver = true ->
  world FileinFileout c = lead ++ t_SAT ++ join (item_texts items) ++ trail ->
  allspace lead ->
  (forall x, In x items -> sep_ok (fst x) /\ sv_parse_int (fst (snd x)) = Some (snd (snd x))) -> allspace trail ->
  solve spec (Some c) sameas installed world = PyPair true (Some (sort_abs (kept (map snd items)))).
Proof. exact solve_minisat_spec. Qed.
Print Assumptions C20_solve_minisat_sat_spec.

Theorem C20_solve_minisat_sat_partial : forall c solver rest sameas installed world lead items trail,
  sv_split_ws c = solver :: rest ->
  lookup (match sameas with Some s => s | None => solver end) solver_table = Some FileinFileout ->
  installed solver = true ->
  world FileinFileout c = lead ++ t_SAT ++ join (item_texts items) ++ trail ->
  allspace lead ->
  (forall x, In x items -> sep_ok (fst x) /\ sv_parse_int (fst (snd x)) = Some (snd (snd x))) -> allspace trail ->
  kept (map snd items) <> [] ->
  solve as_is (Some c) sameas installed world = PyPair true (Some (sort_abs (kept (map snd items)))).
Proof. exact solve_minisat_as_is. Qed.
Print Assumptions C20_solve_minisat_sat_partial.

Theorem C20_solve_minisat_unsat : forall q c solver rest sameas installed world lead trail,
  sv_split_ws c = solver :: rest ->
  lookup (match sameas with Some s => s | None => solver end) solver_table = Some FileinFileout ->
  installed solver = true ->
  world FileinFileout c = lead ++ t_UNSAT ++ trail -> allspace lead -> starts_space trail ->
  solve q (Some c) sameas installed world = PyPair false None.
Proof. exact solve_minisat_convention_unsat. Qed.
Print Assumptions C20_solve_minisat_unsat.

(* an empty result file, or one that starts with any other word: RuntimeError *)
Theorem C20_minisat_no_answer : forall q,
  (forall file, allspace file -> parse_minisat q file = SRuntimeError) /\
  (forall lead w trail, allspace lead -> word w -> starts_space trail -> w <> t_SAT -> w <> t_UNSAT ->
                        parse_minisat q (lead ++ w ++ trail) = SRuntimeError).
Proof. exact (fun q => conj (parse_minisat_empty q) (parse_minisat_other q)). Qed.
Print Assumptions C20_minisat_no_answer.

(* ---------- which solver runs, which error is raised ---------- *)

(* an unknown `sameas` is a ValueError whatever the command, the installed solvers and their output *)
Theorem C20_unknown_sameas : forall q cmd s installed world,
  supported s = false ->
  solve q cmd (Some s) installed world = PyValueError /\ is_satisfiable q cmd (Some s) installed world = PyBValueError.
Proof. exact solve_sameas_unsupported. Qed.
Print Assumptions C20_unknown_sameas.

Theorem C20_unsupported_command : forall q c solver rest installed world,
  sv_split_ws c = solver :: rest -> supported solver = false ->
  solve q (Some c) None installed world = PyRuntimeError.
Proof. exact solve_unsupported_command. Qed.
Print Assumptions C20_unsupported_command.

Theorem C20_solver_not_installed : forall q c solver rest sameas installed world i,
  sv_split_ws c = solver :: rest ->
  lookup (match sameas with Some s => s | None => solver end) solver_table = Some i ->
  installed solver = false ->
  solve q (Some c) sameas installed world = PyRuntimeError.
Proof. exact solve_not_installed. Qed.
Print Assumptions C20_solver_not_installed.

Theorem C20_no_solver_installed : forall q cmd sameas installed world,
  no_command cmd -> match sameas with Some s => supported s = true | None => True end ->
  (forall n, installed n = false) ->
  solve q cmd sameas installed world = PyRuntimeError.
Proof. exact solve_no_solver. Qed.
Print Assumptions C20_no_solver_installed.

(* no command: the first installed solver of the table runs, through its own interface *)
Theorem C20_first_installed_wins : forall q cmd sameas installed world,
  no_command cmd -> match sameas with Some s => supported s = true | None => True end ->
  match first_installed solver_table installed with
  | Some (n, i) => sat_solve q cmd sameas installed world = OResult (run_iface q i world n) i n
  | None => sat_solve q cmd sameas installed world = ORuntimeNoSolver
  end.
Proof. exact no_command_first_installed. Qed.
Print Assumptions C20_first_installed_wins.

Theorem C20_first_installed_is_first : forall installed n i,
  first_installed solver_table installed = Some (n, i) ->
  exists before after, solver_table = before ++ (n, i) :: after /\ installed n = true /\
                       forall m j, In (m, j) before -> installed m = false.
Proof. exact (fun installed => first_installed_spec installed solver_table). Qed.
Print Assumptions C20_first_installed_is_first.

(* a command: the interface of `sameas` if given, else of the command's first word *)
Theorem C20_command_interface : forall q c solver rest sameas installed world name i,
  sv_split_ws c = solver :: rest ->
  name = match sameas with Some s => s | None => solver end ->
  lookup name solver_table = Some i ->
  sat_solve q (Some c) sameas installed world =
  if installed solver then OResult (run_iface q i world c) i c else ORuntimeNotInstalled.
Proof. exact command_runs. Qed.
Print Assumptions C20_command_interface.

Theorem C20_is_satisfiable_same_verdict : forall q cmd sameas installed world,
  is_satisfiable q cmd sameas installed world =
  match solve q cmd sameas installed world with
  | PyPair b _ => PyBool b
  | PyValueError => PyBValueError
  | PyRuntimeError => PyBRuntimeError
  | PyCrash e => PyBCrash e
  end.
Proof. exact is_satisfiable_same_verdict. Qed.
Print Assumptions C20_is_satisfiable_same_verdict.

(* ---------- any output at all: only documented errors (repaired code) ---------- *)
Theorem C20_no_undocumented_exception_spec : forall output e,
  parse_stdout spec output <> SCrash e /\ parse_minisat spec output <> SCrash e.
Proof. exact (fun output e => conj (parse_stdout_no_crash spec eq_refl output e) (parse_minisat_no_crash spec eq_refl output e)). Qed.
Print Assumptions C20_no_undocumented_exception_spec.

(* D34: the code as it is lets IndexError / ValueError out on malformed output
   (inside the conventions it never does: C20_solve_stdout_partial) *)
Theorem C20_no_undocumented_exception_refuted :
  parse_stdout as_is (txt "s") = SCrash IndexError /\
  parse_stdout as_is (txt "s SATISFIABLE
v 1 x 0
") = SCrash IntValueError /\
  parse_minisat as_is (txt "SAT 1 x 0") = SCrash IntValueError.
Proof. vm_compute. repeat split. Qed.
Print Assumptions C20_no_undocumented_exception_refuted.

(* ---------- temporary files ---------- *)
Theorem C20_temp_files_spec : forall o, temp_left spec o = 0%nat.
Proof. exact temp_left_spec. Qed.
Print Assumptions C20_temp_files_spec.

(* D23: the file-in/stdout interface leaves its input file *)
Theorem C20_temp_files_refuted :
  exists cmd installed world, temp_left as_is (sat_solve as_is cmd None installed world) = 1%nat.
Proof. exists (Some (txt "sat4j")), (fun _ => true), (fun _ _ => []). vm_compute. reflexivity. Qed.
Print Assumptions C20_temp_files_refuted.

Theorem C20_temp_files_partial : forall o,
  (forall r c, o <> OResult r FileinStdout c) -> temp_left as_is o = 0%nat.
Proof. exact temp_left_as_is. Qed.
Print Assumptions C20_temp_files_partial.

(* ---------- non-vacuity ---------- *)

(* an answer split over three v lines, CRLF and LF line ends, comments and a
   blank line interleaved, tabs, the status line last, an unterminated last line *)
Definition demo_lines : list (oline * bool) :=
  [ (LOther (txt "c solving"), false);
    (LValues [([SP], (txt "3", 3)); ([SP; SP], (txt "-1", -1))] [SP], true);
    (LOther [], false);
    (LValues [([chr 9], (txt "+2", 2)); ([SP], (txt "0", 0))] [], false);
    (LOther (txt "c s UNSATISFIABLE"), true);
    (LValues [([SP], (txt "-4", -4))] [], false) ].
Example C20_convention_nonvacuous :
  wf_text demo_lines (Some (LStatus [SP] t_SATISFIABLE [])) /\
  spelled (all_lines demo_lines (Some (LStatus [SP] t_SATISFIABLE []))) = [3; -1; 2; -4] /\
  solve as_is (Some (txt "/opt/mysolver -q")) (Some (txt "march")) (fun _ => true)
        (fun _ _ => render_text demo_lines (Some (LStatus [SP] t_SATISFIABLE [])))
  = PyPair true (Some [-1; 2; 3; -4]) /\
  solve as_is None (Some (txt "minisat")) (fun n => text_eqb n (txt "minisat"))
        (fun _ _ => txt "SAT
-2 1 0
") = PyPair true (Some [1; -2]) /\
  solve as_is None None (fun _ => false) (fun _ _ => []) = PyRuntimeError /\
  map fst solver_table = [txt "cadical"; txt "kissat"; txt "lingeling"; txt "plingeling"; txt "precosat"; txt "picosat";
                          txt "march"; txt "cryptominisat"; txt "minisat"; txt "glucose"; txt "sat4j"].
Proof. split; [apply wf_textb_ok; vm_compute; reflexivity|]. vm_compute. repeat split. Qed.
