(* GraphIODimacs.v -- the DIMACS edge format: write then read is the identity. *)
From Coq Require Import ZArith List Bool Lia ZifyBool Ascii.
From Cnfgen Require Import GText GraphIO GTextFacts GraphIOFacts GraphIOMatrix.
Import ListNotations.
Open Scope Z_scope.

Definition dm_cline (name : gt_str) : gt_str := gt_strip ([gt_c; gt_sp] ++ name).
Definition dm_pline (n m : Z) : gt_str :=
  (gt_p :: (gt_sp :: gio_edge_word ++ gt_sp :: gt_print_Z n ++ [gt_sp])) ++ gt_print_Z m.
Definition dm_eline (e : Z * Z) : gt_str :=
  (gt_e :: (gt_sp :: gt_print_Z (fst e) ++ [gt_sp])) ++ gt_print_Z (snd e).

Ltac norm_app := repeat (progress (rewrite <- ?app_assoc; cbn [app])).

Lemma write_dimacs_rows G : gio_write_dimacs G =
  concat (map (fun r => r ++ [gt_nl])
              (dm_cline (io_name G) :: dm_pline (io_n G) (Z.of_nat (length (io_edges G))) :: map dm_eline (io_edges G))).
Proof.
  unfold gio_write_dimacs, dm_cline, dm_pline. cbn [map concat]. rewrite map_map.
  assert (E : map (fun e => [gt_e; gt_sp] ++ gt_print_Z (fst e) ++ [gt_sp] ++ gt_print_Z (snd e) ++ [gt_nl]) (io_edges G)
              = map (fun x => dm_eline x ++ [gt_nl]) (io_edges G)).
  { apply map_ext. intros e. unfold dm_eline. norm_app. reflexivity. }
  rewrite E. norm_app. reflexivity.
Qed.

Lemma plain_chr z : gt_is_space (gt_chr z) = false -> Ascii.eqb (gt_chr z) gt_colon = false -> plainc (gt_chr z).
Proof. intros; split; assumption. Qed.
Lemma edge_word_token : gio_edge_word <> [] /\ Forall plainc gio_edge_word.
Proof. split; [discriminate|]. repeat constructor. Qed.

(* ---------- comment line ---------- *)
Lemma cline_head name : exists x, dm_cline name = gt_c :: x.
Proof. unfold dm_cline, gt_strip. cbn [app]. apply strip_by_head. reflexivity. Qed.

Lemma dimacs_line_comment af k st raw x : gt_strip raw = gt_c :: x ->
  gio_dimacs_line_gen af k st raw = GOk (mkDS (ds_G st) (ds_name st ++ skipn 2 (gt_c :: x)) (ds_m st) (ds_cnt st)).
Proof. intros E. unfold gio_dimacs_line_gen. rewrite E. rewrite Ascii.eqb_refl. reflexivity. Qed.

Lemma dimacs_cline af k st name : exists nm,
  gio_dimacs_line_gen af k st (dm_cline name ++ [gt_nl]) = GOk (mkDS (ds_G st) nm (ds_m st) (ds_cnt st)).
Proof.
  destruct (cline_head name) as [x E]. rewrite E. cbn [app].
  destruct (strip_by_head gt_is_space gt_c (x ++ [gt_nl]) eq_refl) as [t' E2].
  eexists. apply (dimacs_line_comment af k st _ t'). exact E2.
Qed.

(* ---------- problem line ---------- *)
Lemma strip_pline n m : gt_strip (dm_pline n m ++ [gt_nl]) = dm_pline n m.
Proof.
  unfold dm_pline. rewrite <- app_assoc. destruct (print_Z_plain m) as [Hp Hne].
  apply strip_tail; auto; repeat constructor.
Qed.

Lemma split_pline n m : gt_split_ws (dm_pline n m) = [[gt_p]; gio_edge_word; gt_print_Z n; gt_print_Z m].
Proof.
  unfold dm_pline.
  replace ((gt_p :: gt_sp :: gio_edge_word ++ gt_sp :: gt_print_Z n ++ [gt_sp]) ++ gt_print_Z m)
    with ([gt_p] ++ concat (map (fun w => gt_sp :: w) [gio_edge_word; gt_print_Z n; gt_print_Z m]) ++ [])
    by (cbn [map concat]; norm_app; now rewrite app_nil_r).
  rewrite split_ws_word; [|discriminate|repeat constructor|reflexivity].
  rewrite split_ws_tokens; [reflexivity| |exact I].
  destruct (print_Z_plain n), (print_Z_plain m). repeat constructor; auto; apply edge_word_token.
Qed.

Lemma dimacs_line_p af k name cnt n m : 0 <= n ->
  gio_dimacs_line_gen af k (mkDS None name (-1) cnt) (dm_pline n m ++ [gt_nl]) =
  GOk (mkDS (Some (mkIOG k name n 0 [])) name m cnt).
Proof.
  intros Hn. unfold gio_dimacs_line_gen. rewrite strip_pline.
  change (dm_pline n m) with (gt_p :: ((gt_sp :: gio_edge_word ++ gt_sp :: gt_print_Z n ++ [gt_sp]) ++ gt_print_Z m)) at 1.
  cbv iota beta. change (Ascii.eqb gt_p gt_c) with false. change (Ascii.eqb gt_p gt_p) with true. cbv iota.
  cbn [ds_G]. rewrite split_pline. change (gt_str_eqb gio_edge_word gio_edge_word) with true. cbn [negb].
  rewrite !int_print_Z. cbn [ds_name ds_cnt]. rewrite new_ok by lia. reflexivity.
Qed.

(* ---------- edge line ---------- *)
Lemma strip_eline e : gt_strip (dm_eline e ++ [gt_nl]) = dm_eline e.
Proof.
  unfold dm_eline. rewrite <- app_assoc. destruct (print_Z_plain (snd e)) as [Hp Hne].
  apply strip_tail; auto; repeat constructor.
Qed.
Lemma split_eline e : gt_split_ws (dm_eline e) = [[gt_e]; gt_print_Z (fst e); gt_print_Z (snd e)].
Proof.
  unfold dm_eline.
  replace ((gt_e :: gt_sp :: gt_print_Z (fst e) ++ [gt_sp]) ++ gt_print_Z (snd e))
    with ([gt_e] ++ concat (map (fun w => gt_sp :: w) [gt_print_Z (fst e); gt_print_Z (snd e)]) ++ [])
    by (cbn [map concat]; norm_app; now rewrite app_nil_r).
  rewrite split_ws_word; [|discriminate|repeat constructor|reflexivity].
  rewrite split_ws_tokens; [reflexivity| |exact I].
  destruct (print_Z_plain (fst e)), (print_Z_plain (snd e)). repeat constructor; auto.
Qed.

Lemma dimacs_line_e af k G name m cnt e : edge_ok G e ->
  gio_dimacs_line_gen af k (mkDS (Some G) name m cnt) (dm_eline e ++ [gt_nl]) =
  GOk (mkDS (Some (gio_with_edges G (gio_insert (edge_norm (io_kind G) e) (io_edges G)))) name m (cnt + 1)).
Proof.
  intros Hok. unfold gio_dimacs_line_gen. rewrite strip_eline.
  change (dm_eline e) with (gt_e :: ((gt_sp :: gt_print_Z (fst e) ++ [gt_sp]) ++ gt_print_Z (snd e))) at 1.
  cbv iota beta. change (Ascii.eqb gt_e gt_c) with false. change (Ascii.eqb gt_e gt_p) with false.
  change (Ascii.eqb gt_e gt_e) with true. cbv iota. cbn [ds_G]. rewrite split_eline, !int_print_Z.
  destruct e as [u v]. cbn [fst snd]. rewrite add_edge_ok by exact Hok. reflexivity.
Qed.

Lemma dimacs_loop_edges af k name m : forall es G cnt, Forall (edge_ok G) es ->
  gio_dimacs_loop_gen af k (mkDS (Some G) name m cnt) (map (fun r => r ++ [gt_nl]) (map dm_eline es)) =
  GOk (mkDS (Some (gio_with_edges G (insert_all (map (edge_norm (io_kind G)) es) (io_edges G)))) name m
            (cnt + Z.of_nat (length es))).
Proof.
  induction es as [|e t IH]; intros G cnt HF.
  - cbn [map gio_dimacs_loop_gen length insert_all fold_left]. rewrite with_edges_self. replace (cnt + Z.of_nat 0) with cnt by lia. reflexivity.
  - inversion HF as [|x l He Ht]; subst. cbn [map gio_dimacs_loop_gen]. rewrite dimacs_line_e by exact He.
    cbn [gio_bind]. rewrite IH.
    + rewrite with_edges_twice, with_edges_kind, with_edges_edges. cbn [map length]. rewrite insert_all_cons.
      replace (cnt + 1 + Z.of_nat (length t)) with (cnt + Z.of_nat (S (length t))) by lia. reflexivity.
    + eapply Forall_impl; [|exact Ht]. intros x Hx. now apply edge_ok_with_edges.
Qed.

(* ---------- the lines of the written file ---------- *)
Lemma token_no_nl z : no_nl (gt_print_Z z).
Proof. apply plain_no_nl, print_Z_plain. Qed.

Ltac no_nl_tac := unfold no_nl; cbn [app];
  repeat first [ apply Forall_nil | apply Forall_cons; [reflexivity|] | apply Forall_app; split | apply token_no_nl ].
Lemma pline_no_nl n m : no_nl (dm_pline n m).
Proof. unfold dm_pline, gio_edge_word. no_nl_tac. Qed.
Lemma eline_no_nl e : no_nl (dm_eline e).
Proof. unfold dm_eline. no_nl_tac. Qed.
Lemma cline_no_nl name : no_nl name -> no_nl (dm_cline name).
Proof. intros H. unfold dm_cline. apply strip_by_Forall. cbn [app]. repeat (apply Forall_cons; [reflexivity|]). exact H. Qed.

(* stored edges are their own normal form and are accepted by add_edge *)
Lemma stored_norm G e : edge_stored_ok G e -> edge_norm (io_kind G) e = e /\ edge_ok G e.
Proof.
  unfold edge_stored_ok, edge_norm, edge_ok. destruct e as [u v]. destruct (io_kind G); cbn [fst snd]; intros H.
  - split; [f_equal; lia|lia].
  - split; [reflexivity|exact H].
  - split; [reflexivity|exact H].
Qed.

Lemma insert_all_self l : ssorted l -> insert_all l [] = l.
Proof. intros H. apply insert_all_rebuild; [exact H|]. intros x. reflexivity. Qed.

(* ---------- write then read ---------- *)
Theorem dimacs_roundtrip_gen af G : gio_wf G -> io_kind G <> GioBipartite -> no_nl (io_name G) ->
  exists nm, gio_read_dimacs_gen af (io_kind G) (gio_write_dimacs G) = GOk (mkIOG (io_kind G) nm (io_n G) (io_r G) (io_edges G)).
Proof.
  intros (Hn & Hr & Hk & Hs & Hf) HK Hname. specialize (Hk HK).
  unfold gio_read_dimacs_gen. rewrite write_dimacs_rows. rewrite <- (app_nil_r (concat _)), lines_rows.
  2:{ constructor; [now apply cline_no_nl|]. constructor; [apply pline_no_nl|].
      apply Forall_forall. intros r Hin. apply in_map_iff in Hin as [e [<- _]]. apply eline_no_nl. }
  cbn [gt_lines]. rewrite app_nil_r. cbn [map gio_dimacs_loop_gen].
  destruct (dimacs_cline af (io_kind G) (mkDS None [] (-1) 0) (io_name G)) as [nm E]. rewrite E.
  cbn [gio_bind ds_G ds_m ds_cnt]. rewrite dimacs_line_p by exact Hn. cbn [gio_bind].
  set (G0 := mkIOG (io_kind G) nm (io_n G) 0 []).
  assert (Hall : Forall (fun e => edge_norm (io_kind G) e = e /\ edge_ok G0 e) (io_edges G)).
  { eapply Forall_impl; [|exact Hf]. intros e He. apply stored_norm in He as [H1 H2]. split; [exact H1|].
    unfold edge_ok in *. cbn [G0 io_kind io_n io_r]. rewrite Hk in H2. exact H2. }
  rewrite dimacs_loop_edges.
  2:{ eapply Forall_impl; [|exact Hall]. intros e [_ H]. exact H. }
  cbn [gio_bind ds_m ds_cnt ds_G]. replace (Z.of_nat (length (io_edges G)) =? 0 + Z.of_nat (length (io_edges G))) with true by lia.
  cbn [negb]. exists nm. unfold G0, gio_with_edges. cbn [io_kind io_name io_n io_r io_edges]. rewrite Hk. do 2 f_equal.
  replace (map (edge_norm (io_kind G)) (io_edges G)) with (io_edges G).
  - now apply insert_all_self.
  - symmetry. rewrite <- (map_id (io_edges G)) at 2. apply map_ext_in. intros e He.
    rewrite Forall_forall in Hall. now destruct (Hall e He).
Qed.

Theorem dimacs_roundtrip G : gio_wf G -> io_kind G <> GioBipartite -> no_nl (io_name G) ->
  exists nm, gio_read_dimacs (io_kind G) (gio_write_dimacs G) = GOk (mkIOG (io_kind G) nm (io_n G) (io_r G) (io_edges G)).
Proof. exact (dimacs_roundtrip_gen false G). Qed.
