(* Fam_ordering_Facts.v — the (graph) ordering principle in all its variants is
   unsatisfiable on every graph with at least one vertex; exact list of axioms;
   the planted variant is satisfiable exactly when a linear order exists in which
   every vertex but the last has a neighbour before it. *)
From Coq Require Import ZArith List Bool Lia ZifyBool.
From Cnfgen Require Import Sem Comb Linear IR SemFacts LinearFacts IRFacts C03_Util C03_UtilFacts Fam_ordering.
Import ListNotations.
Open Scope Z_scope.

(* ====================================================================== *)
(* Part A: finite order theory over a boolean relation on 1..n             *)
(* ====================================================================== *)
Section Orders.
  Context (n : Z) (R : Z -> Z -> bool).
  Definition inr (x : Z) := 1 <= x <= n.

  Definition antisym_on := forall u v, inr u -> inr v -> u <> v -> R u v = true -> R v u = false.
  (* transitivity instances kept by Knuth's variant 3: the last element is the largest *)
  Definition trans_k3 := forall v1 v2 v3, inr v1 -> inr v2 -> inr v3 -> v1 <> v2 -> v1 < v3 -> v2 < v3 ->
    R v1 v2 = true -> R v2 v3 = true -> R v1 v3 = true.
  (* variant 2: the middle element is the largest *)
  Definition trans_k2 := forall v1 v2 v3, inr v1 -> inr v2 -> inr v3 -> v1 <> v3 -> v1 < v2 -> v3 < v2 ->
    R v1 v2 = true -> R v2 v3 = true -> R v1 v3 = true.
  Definition trans_on := forall v1 v2 v3, inr v1 -> inr v2 -> inr v3 -> v1 <> v2 -> v2 <> v3 -> v1 <> v3 ->
    R v1 v2 = true -> R v2 v3 = true -> R v1 v3 = true.

  (* every non-empty subset of 1..n has a minimal element *)
  Definition min_prop := forall S : Z -> bool, (forall x, S x = true -> inr x) -> (exists x, S x = true) ->
    exists m, S m = true /\ forall u, S u = true -> u <> m -> R u m = false.

  Lemma bounded_dec (S : Z -> bool) (lo : Z) (k : nat) :
    (exists x, lo <= x < lo + Z.of_nat k /\ S x = true) \/ (forall x, lo <= x < lo + Z.of_nat k -> S x = false).
  Proof.
    induction k as [|k IH]; [right; intros; lia|].
    destruct IH as [[x [Hx Hs]]|IH]; [left; exists x; split; [lia|assumption]|].
    destruct (S (lo + Z.of_nat k)) eqn:E.
    - left. exists (lo + Z.of_nat k). split; [lia|assumption].
    - right. intros x Hx. destruct (Z.eq_dec x (lo + Z.of_nat k)); [now subst|apply IH; lia].
  Qed.

  Lemma trans_on_k3 : trans_on -> trans_k3.
  Proof. intros H v1 v2 v3 ? ? ? ? ? ? ? ?. apply (H v1 v2 v3); auto; lia. Qed.

  Lemma min_k3 : antisym_on -> trans_k3 -> min_prop.
  Proof.
    intros AS TR.
    assert (G : forall (k : nat) (S : Z -> bool), Z.of_nat k <= n ->
               (forall x, S x = true -> 1 <= x <= Z.of_nat k) -> (exists x, S x = true) ->
               exists m, S m = true /\ forall u, S u = true -> u <> m -> R u m = false).
    { induction k as [|k IH]; intros S Hk Hr [x0 Hx0]; [specialize (Hr _ Hx0); lia|].
      remember (Z.of_nat (Datatypes.S k)) as w eqn:Hw.
      destruct (S w) eqn:Sw.
      2:{ apply IH; [lia| |eauto]. intros x Hx. specialize (Hr _ Hx).
          destruct (Z.eq_dec x w); [subst; congruence|lia]. }
      set (S' := fun x => S x && negb (x =? w)).
      assert (S'spec : forall x, S' x = true <-> S x = true /\ x <> w).
      { intros x. unfold S'. rewrite andb_true_iff, negb_true_iff, Z.eqb_neq. tauto. }
      assert (HS' : forall x, S' x = true -> 1 <= x <= Z.of_nat k).
      { intros x Hx. apply S'spec in Hx as [H1 H2]. specialize (Hr _ H1). lia. }
      destruct (bounded_dec S' 1 k) as [[x1 [_ Hx1]]|Emp].
      2:{ (* w alone *) exists w. split; [assumption|]. intros u Hu Hne.
          assert (H : S' u = true) by (apply S'spec; tauto).
          specialize (HS' _ H). rewrite Emp in H by lia. discriminate. }
      destruct (IH S' ltac:(lia) HS' (ex_intro _ x1 Hx1)) as [m [Hm Hmin]].
      assert (Hm' := HS' _ Hm). apply S'spec in Hm as [Hm1 Hm2].
      destruct (R w m) eqn:Rwm.
      2:{ exists m. split; [assumption|]. intros u Hu Hne.
          destruct (Z.eq_dec u w); [now subst|]. apply Hmin; [apply S'spec; tauto|assumption]. }
      set (P := fun x => S' x && R x w).
      assert (Pspec : forall x, P x = true <-> S' x = true /\ R x w = true).
      { intros x. unfold P. apply andb_true_iff. }
      assert (HP : forall x, P x = true -> 1 <= x <= Z.of_nat k).
      { intros x Hx. apply Pspec in Hx as [H1 _]. now apply HS'. }
      destruct (bounded_dec P 1 k) as [[x2 [_ Hx2]]|Emp].
      2:{ exists w. split; [assumption|]. intros u Hu Hne.
          assert (Su : S' u = true) by (apply S'spec; tauto).
          specialize (HS' _ Su). specialize (Emp u ltac:(lia)).
          destruct (R u w) eqn:Ruw; [|reflexivity]. rewrite (proj2 (Pspec u)) in Emp by tauto. discriminate. }
      destruct (IH P ltac:(lia) HP (ex_intro _ x2 Hx2)) as [p [Hp Hpmin]].
      assert (Hp' := HP _ Hp). apply Pspec in Hp as [Sp Rpw]. apply S'spec in Sp as [Sp1 Sp2].
      exists p. split; [assumption|]. intros u Hu Hne.
      destruct (Z.eq_dec u w) as [E|NE].
      - subst u. apply AS; unfold inr; try lia. exact Rpw.
      - assert (Su : S' u = true) by (apply S'spec; tauto). assert (Hu' := HS' _ Su).
        destruct (R u p) eqn:Rup; [|reflexivity].
        assert (Ruw : R u w = true) by (apply (TR u p w); unfold inr; try lia; assumption).
        rewrite <- Rup. apply Hpmin; [apply Pspec; tauto|assumption]. }
    intros S Hr Hex. destruct (Z.le_gt_cases 0 n) as [L|L].
    - apply (G (Z.to_nat n)); [lia| |assumption]. intros x Hx. specialize (Hr _ Hx). unfold inr in Hr. lia.
    - destruct Hex as [x Hx]. specialize (Hr _ Hx). unfold inr in Hr. lia.
  Qed.

  Lemma min_k2 : antisym_on -> trans_k2 -> min_prop.
  Proof.
    intros AS TR.
    assert (G : forall (k : nat) (S : Z -> bool), Z.of_nat k <= n ->
               (forall x, S x = true -> 1 <= x <= Z.of_nat k) -> (exists x, S x = true) ->
               exists m, S m = true /\ forall u, S u = true -> u <> m -> R u m = false).
    { induction k as [|k IH]; intros S Hk Hr [x0 Hx0]; [specialize (Hr _ Hx0); lia|].
      remember (Z.of_nat (Datatypes.S k)) as w eqn:Hw.
      destruct (S w) eqn:Sw.
      2:{ apply IH; [lia| |eauto]. intros x Hx. specialize (Hr _ Hx).
          destruct (Z.eq_dec x w); [subst; congruence|lia]. }
      set (S' := fun x => S x && negb (x =? w)).
      assert (S'spec : forall x, S' x = true <-> S x = true /\ x <> w).
      { intros x. unfold S'. rewrite andb_true_iff, negb_true_iff, Z.eqb_neq. tauto. }
      assert (HS' : forall x, S' x = true -> 1 <= x <= Z.of_nat k).
      { intros x Hx. apply S'spec in Hx as [H1 H2]. specialize (Hr _ H1). lia. }
      destruct (bounded_dec S' 1 k) as [[x1 [_ Hx1]]|Emp].
      2:{ exists w. split; [assumption|]. intros u Hu Hne.
          assert (H : S' u = true) by (apply S'spec; tauto).
          specialize (HS' _ H). rewrite Emp in H by lia. discriminate. }
      destruct (IH S' ltac:(lia) HS' (ex_intro _ x1 Hx1)) as [m [Hm Hmin]].
      assert (Hm' := HS' _ Hm). apply S'spec in Hm as [Hm1 Hm2].
      destruct (R w m) eqn:Rwm.
      2:{ exists m. split; [assumption|]. intros u Hu Hne.
          destruct (Z.eq_dec u w); [now subst|]. apply Hmin; [apply S'spec; tauto|assumption]. }
      exists w. split; [assumption|]. intros u Hu Hne.
      assert (Su : S' u = true) by (apply S'spec; tauto). assert (Hu' := HS' _ Su).
      destruct (R u w) eqn:Ruw; [|reflexivity]. exfalso.
      destruct (Z.eq_dec u m) as [E|NE].
      - subst u. assert (H : R w m = false) by (apply AS; unfold inr; try lia; assumption). congruence.
      - assert (H : R u m = true) by (apply (TR u w m); unfold inr; try lia; assumption).
        rewrite Hmin in H by assumption. discriminate. }
    intros S Hr Hex. destruct (Z.le_gt_cases 0 n) as [L|L].
    - apply (G (Z.to_nat n)); [lia| |assumption]. intros x Hx. specialize (Hr _ Hx). unfold inr in Hr. lia.
    - destruct Hex as [x Hx]. specialize (Hr _ Hx). unfold inr in Hr. lia.
  Qed.

  (* a relation with minimal elements everywhere can be laid out on a line *)
  Lemma toposort : min_prop -> forall (k : nat) (l : list Z), (length l <= k)%nat -> (forall x, In x l -> inr x) ->
    exists pos : Z -> Z, (forall u, 0 <= pos u) /\
      (forall u v, In u l -> In v l -> u <> v -> pos u <> pos v) /\
      (forall u v, In u l -> In v l -> u <> v -> R u v = true -> pos u < pos v).
  Proof.
    intros MP. induction k as [|k IH]; intros l Hk Hr.
    - destruct l; [|cbn in Hk; lia]. exists (fun _ => 0). repeat split; intros; try lia; contradiction.
    - destruct l as [|x0 t] eqn:El; [exists (fun _ => 0); repeat split; intros; try lia; contradiction|]. rewrite <- El in *.
      destruct (MP (fun x => memZ x l)) as [m [Hm Hmin]].
      { intros x Hx. apply Hr. now apply memZ_spec. }
      { exists x0. apply memZ_spec. rewrite El. now left. }
      apply memZ_spec in Hm.
      destruct (IH (remove Z.eq_dec m l)) as [pos [P0 [P1 P2]]].
      { pose proof (remove_length_lt Z.eq_dec l m Hm). lia. }
      { intros x Hx. apply in_remove in Hx as [Hx _]. auto. }
      exists (fun u => if u =? m then 0 else pos u + 1).
      split; [intros u; cbn beta; destruct (u =? m); [lia|specialize (P0 u); lia]|]. split.
      + intros u v Hu Hv Hne. cbn beta. pose proof (P0 u). pose proof (P0 v).
        destruct (Z.eqb_spec u m); destruct (Z.eqb_spec v m); try lia.
        assert (pos u <> pos v); [|lia]. apply P1; try assumption; now apply in_in_remove.
      + intros u v Hu Hv Hne HR. cbn beta. pose proof (P0 u). pose proof (P0 v).
        destruct (Z.eqb_spec u m); destruct (Z.eqb_spec v m); try lia.
        * subst v. rewrite Hmin in HR; [discriminate|now apply memZ_spec|assumption].
        * assert (pos u < pos v); [|lia]. apply P2; try assumption; now apply in_in_remove.
  Qed.
End Orders.

(* ====================================================================== *)
(* Part B: variable layout                                                 *)
(* ====================================================================== *)
Lemma pid_pos n u v : 1 <= u <= n -> 1 <= v <= n -> u <> v -> 0 < pid n u v.
Proof. intros Hu Hv Hne. unfold pid. destruct (Z.ltb_spec v u); nia. Qed.

Lemma pid_range n u v : 1 <= u <= n -> 1 <= v <= n -> u <> v -> 1 <= pid n u v <= n * (n - 1).
Proof. intros Hu Hv Hne. unfold pid. destruct (Z.ltb_spec v u); nia. Qed.

Lemma pid_inj n u v u' v' : 1 <= u <= n -> 1 <= v <= n -> u <> v -> 1 <= u' <= n -> 1 <= v' <= n -> u' <> v' ->
  pid n u v = pid n u' v' -> u = u' /\ v = v'.
Proof.
  intros Hu Hv Hne Hu' Hv' Hne' E. unfold pid in E.
  set (w := if v <? u then v else v - 1) in *. set (w' := if v' <? u' then v' else v' - 1) in *.
  assert (Hw : 1 <= w <= n - 1) by (unfold w; destruct (Z.ltb_spec v u); lia).
  assert (Hw' : 1 <= w' <= n - 1) by (unfold w'; destruct (Z.ltb_spec v' u'); lia).
  assert (Eu : u = u') by nia. subst u'. split; [reflexivity|].
  assert (Ew : w = w') by lia. unfold w, w' in Ew.
  destruct (Z.ltb_spec v u); destruct (Z.ltb_spec v' u); lia.
Qed.

Lemma csum_succ n m : csum n (S m) = csum n m + (n - Z.of_nat (S m)).
Proof. reflexivity. Qed.
Lemma csum_nonneg n m : Z.of_nat m <= n -> 0 <= csum n m.
Proof. induction m as [|m IH]; intros H; [cbn; lia|]. rewrite csum_succ. lia. Qed.
Lemma csum_mono n m m' : (m <= m')%nat -> Z.of_nat m' <= n -> csum n m <= csum n m'.
Proof. induction 1 as [|m' L IH]; intros H; [lia|]. rewrite csum_succ. lia. Qed.
Lemma csum_closed n m : 2 * csum n m = Z.of_nat m * (2 * n - Z.of_nat m - 1).
Proof. induction m as [|m IH]; [reflexivity|]. rewrite csum_succ. nia. Qed.

Lemma cid_bounds n u v : 1 <= u -> u < v <= n -> csum n (Z.to_nat (u - 1)) < cid n u v <= csum n (Z.to_nat u).
Proof.
  intros Hu Hv. unfold cid. replace (Z.to_nat u) with (S (Z.to_nat (u - 1))) by lia. rewrite csum_succ. lia.
Qed.
Lemma cid_pos n u v : 1 <= u -> u < v <= n -> 0 < cid n u v.
Proof. intros Hu Hv. pose proof (cid_bounds n u v Hu Hv). pose proof (csum_nonneg n (Z.to_nat (u - 1))). lia. Qed.
Lemma cid_range n u v : 1 <= u -> u < v <= n -> 1 <= cid n u v <= n * (n - 1) / 2.
Proof.
  intros Hu Hv. pose proof (cid_bounds n u v Hu Hv) as B. pose proof (csum_nonneg n (Z.to_nat (u - 1))).
  pose proof (csum_mono n (Z.to_nat u) (Z.to_nat (n - 1)) ltac:(lia) ltac:(lia)).
  pose proof (csum_closed n (Z.to_nat (n - 1))) as C. replace (Z.of_nat (Z.to_nat (n - 1))) with (n - 1) in C by lia.
  split; [lia|]. apply Z.div_le_lower_bound; [lia|]. nia.
Qed.
Lemma cid_inj n u v u' v' : 1 <= u -> u < v <= n -> 1 <= u' -> u' < v' <= n ->
  cid n u v = cid n u' v' -> u = u' /\ v = v'.
Proof.
  intros Hu Hv Hu' Hv' E.
  pose proof (cid_bounds n u v Hu Hv) as B. pose proof (cid_bounds n u' v' Hu' Hv') as B'.
  destruct (Z.lt_trichotomy u u') as [L|[L|L]].
  - pose proof (csum_mono n (Z.to_nat u) (Z.to_nat (u' - 1)) ltac:(lia) ltac:(lia)). lia.
  - subst u'. unfold cid in E. lia.
  - pose proof (csum_mono n (Z.to_nat u') (Z.to_nat (u - 1)) ltac:(lia) ltac:(lia)). lia.
Qed.

(* the literal "u precedes v" and its reading under an assignment *)
Definition Rel (a : Z -> bool) (smart : bool) (n u v : Z) : bool := lit_true a (xlit smart n u v).

Lemma xlit_nonzero smart n u v : 1 <= u <= n -> 1 <= v <= n -> u <> v -> xlit smart n u v <> 0.
Proof.
  intros Hu Hv Hne. unfold xlit. destruct smart.
  - destruct (Z.ltb_spec u v); [pose proof (cid_pos n u v); lia|pose proof (cid_pos n v u); lia].
  - pose proof (pid_pos n u v). lia.
Qed.

Lemma Rel_smart_flip a n u v : 1 <= u <= n -> 1 <= v <= n -> u <> v -> Rel a true n v u = negb (Rel a true n u v).
Proof.
  intros Hu Hv Hne. unfold Rel, xlit.
  destruct (Z.ltb_spec u v); destruct (Z.ltb_spec v u); try lia.
  - apply lit_true_opp. pose proof (cid_pos n u v). lia.
  - rewrite (lit_true_opp a (cid n v u)) by (pose proof (cid_pos n v u); lia). now rewrite negb_involutive.
Qed.

(* ====================================================================== *)
(* Part C: the clauses are exactly the documented axioms                   *)
(* ====================================================================== *)
Definition ax_nonmin (nb : list (list Z)) (smart plant : bool) (c : list Z) : Prop :=
  exists v, 1 <= v <= len nb /\ (v =? len nb) && plant = false /\ c = map (fun u => xlit smart (len nb) u v) (nthZ nb v).
Definition ax_trans_smart (n : Z) (c : list Z) : Prop :=
  exists v1 v2 v3, 1 <= v1 /\ v1 < v2 /\ v2 < v3 /\ v3 <= n /\
    (c = [xlit true n v1 v2; xlit true n v2 v3; - xlit true n v1 v3] \/
     c = [- xlit true n v1 v2; - xlit true n v2 v3; xlit true n v1 v3]).
Definition ax_trans (n knuth : Z) (c : list Z) : Prop :=
  exists v1 v2 v3, 1 <= v1 <= n /\ 1 <= v2 <= n /\ 1 <= v3 <= n /\ v1 <> v2 /\ v2 <> v3 /\ v1 <> v3 /\
    knuth_keep knuth v1 v2 v3 = true /\ c = [- xlit false n v1 v2; - xlit false n v2 v3; xlit false n v1 v3].
Definition ax_antisym (n : Z) (c : list Z) : Prop :=
  exists v1 v2, 1 <= v1 /\ v1 < v2 /\ v2 <= n /\ c = [- xlit false n v1 v2; - xlit false n v2 v1].
Definition ax_total (n : Z) (c : list Z) : Prop :=
  exists v1 v2, 1 <= v1 /\ v1 < v2 /\ v2 <= n /\ c = [xlit false n v1 v2; xlit false n v2 v1].

Theorem gop_axioms_exact nb total smart plant knuth c :
  In c (gop_cnf nb total smart plant knuth) <->
    ax_nonmin nb smart plant c
    \/ (smart = true /\ ax_trans_smart (len nb) c)
    \/ (smart = false /\ ax_trans (len nb) knuth c)
    \/ (smart = false /\ ax_antisym (len nb) c)
    \/ (smart = false /\ total = true /\ ax_total (len nb) c).
Proof.
  unfold gop_cnf. rewrite in_app_iff.
  assert (NM : In c (gop_nonmin nb smart plant) <-> ax_nonmin nb smart plant c).
  { unfold gop_nonmin, ax_nonmin. rewrite in_flat_map. split.
    - intros [v [Hv H]]. apply In_vrange in Hv. destruct ((v =? len nb) && plant) eqn:E; [contradiction|].
      destruct H as [H|[]]. exists v. repeat split; try lia; try assumption. now symmetry.
    - intros [v [Hv [E H]]]. exists v. split; [now apply In_vrange|]. rewrite E. left. now symmetry. }
  assert (TS : In c (gop_trans_smart (len nb)) <-> ax_trans_smart (len nb) c).
  { unfold gop_trans_smart, ax_trans_smart. rewrite in_flat_map. split.
    - intros [[[v1 v2] v3] [Hv H]]. apply In_triples_lt in Hv. exists v1, v2, v3.
      repeat split; try lia. destruct H as [H|[H|[]]]; [left|right]; now symmetry.
    - intros [v1 [v2 [v3 [H1 [H2 [H3 [H4 H]]]]]]]. exists (v1, v2, v3). split; [apply In_triples_lt; lia|].
      destruct H as [H|H]; [left|right; left]; now symmetry. }
  assert (TR : In c (gop_trans (len nb) knuth) <-> ax_trans (len nb) knuth c).
  { unfold gop_trans, ax_trans. rewrite in_flat_map. split.
    - intros [[[v1 v2] v3] [Hv H]]. apply In_triples_ne in Hv. destruct (knuth_keep knuth v1 v2 v3) eqn:E; [|contradiction].
      destruct H as [H|[]]. exists v1, v2, v3. repeat split; try lia; try assumption. now symmetry.
    - intros [v1 [v2 [v3 [H1 [H2 [H3 [H4 [H5 [H6 [E H]]]]]]]]]]. exists (v1, v2, v3). split; [apply In_triples_ne; lia|].
      rewrite E. left. now symmetry. }
  assert (AN : In c (gop_antisym (len nb)) <-> ax_antisym (len nb) c).
  { unfold gop_antisym, ax_antisym. rewrite in_map_iff. split.
    - intros [[v1 v2] [E Hv]]. apply In_pairs_lt in Hv. exists v1, v2. repeat split; try lia. now symmetry.
    - intros [v1 [v2 [H1 [H2 [H3 E]]]]]. exists (v1, v2). split; [now symmetry|apply In_pairs_lt; lia]. }
  assert (TO : In c (gop_totality (len nb)) <-> ax_total (len nb) c).
  { unfold gop_totality, ax_total. rewrite in_map_iff. split.
    - intros [[v1 v2] [E Hv]]. apply In_pairs_lt in Hv. exists v1, v2. repeat split; try lia. now symmetry.
    - intros [v1 [v2 [H1 [H2 [H3 E]]]]]. exists (v1, v2). split; [now symmetry|apply In_pairs_lt; lia]. }
  rewrite NM. destruct smart.
  - rewrite TS. intuition congruence.
  - rewrite !in_app_iff, TR, AN. destruct total.
    + rewrite TO. intuition congruence.
    + cbn [In]. intuition congruence.
Qed.

(* ====================================================================== *)
(* Part D: what a satisfying assignment says about the relation            *)
(* ====================================================================== *)
Lemma graph_ok_spec nb v u : graph_ok nb = true -> 1 <= v <= len nb -> In u (nthZ nb v) -> 1 <= u <= len nb /\ u <> v.
Proof.
  unfold graph_ok. intros H Hv Hu. rewrite forallb_forall in H.
  specialize (H v (proj2 (In_vrange _ _) Hv)). rewrite forallb_forall in H. specialize (H u Hu). lia.
Qed.

Lemma sat_nonmin nb total smart plant knuth a :
  cnf_sat a (gop_cnf nb total smart plant knuth) = true ->
  forall v, 1 <= v <= len nb -> (v =? len nb) && plant = false ->
  exists u, In u (nthZ nb v) /\ Rel a smart (len nb) u v = true.
Proof.
  intros Hs v Hv E. rewrite cnf_sat_true_iff in Hs.
  assert (Hc : clause_sat a (map (fun u => xlit smart (len nb) u v) (nthZ nb v)) = true).
  { apply Hs, gop_axioms_exact. left. exists v. repeat split; try lia; assumption. }
  apply clause_sat_true_iff in Hc as [l [Hl Ht]]. apply in_map_iff in Hl as [u [E' Hu]]. subst l.
  exists u. split; assumption.
Qed.

Lemma sat_antisym nb total smart plant knuth a :
  cnf_sat a (gop_cnf nb total smart plant knuth) = true -> antisym_on (len nb) (Rel a smart (len nb)).
Proof.
  intros Hs u v Hu Hv Hne HR. unfold inr in *. destruct smart.
  - rewrite Rel_smart_flip, HR by (try assumption; lia). reflexivity.
  - rewrite cnf_sat_true_iff in Hs.
    assert (A : forall x y, 1 <= x -> x < y -> y <= len nb ->
                 Rel a false (len nb) x y = true -> Rel a false (len nb) y x = true -> False).
    { intros x y H1 H2 H3 Rxy Ryx.
      assert (Hc : clause_sat a [- xlit false (len nb) x y; - xlit false (len nb) y x] = true).
      { apply Hs, gop_axioms_exact. right. right. right. left. split; [reflexivity|]. exists x, y. repeat split; lia. }
      unfold Rel in *. cbn [clause_sat existsb] in Hc.
      rewrite !lit_true_opp in Hc by (apply xlit_nonzero; lia). rewrite Rxy, Ryx in Hc. discriminate. }
    destruct (Rel a false (len nb) v u) eqn:Rvu; [|reflexivity]. exfalso.
    destruct (Z.lt_trichotomy u v) as [L|[L|L]]; [eapply (A u v); eauto; lia|lia|eapply (A v u); eauto; lia].
Qed.

Lemma sat_trans_plain nb total plant knuth a :
  cnf_sat a (gop_cnf nb total false plant knuth) = true ->
  forall v1 v2 v3, 1 <= v1 <= len nb -> 1 <= v2 <= len nb -> 1 <= v3 <= len nb -> v1 <> v2 -> v2 <> v3 -> v1 <> v3 ->
    knuth_keep knuth v1 v2 v3 = true ->
    Rel a false (len nb) v1 v2 = true -> Rel a false (len nb) v2 v3 = true -> Rel a false (len nb) v1 v3 = true.
Proof.
  intros Hs v1 v2 v3 H1 H2 H3 N12 N23 N13 K R12 R23. rewrite cnf_sat_true_iff in Hs.
  assert (Hc : clause_sat a [- xlit false (len nb) v1 v2; - xlit false (len nb) v2 v3; xlit false (len nb) v1 v3] = true).
  { apply Hs, gop_axioms_exact. right. right. left. split; [reflexivity|]. exists v1, v2, v3. repeat split; try lia; assumption. }
  unfold Rel in *. cbn [clause_sat existsb] in Hc.
  rewrite !lit_true_opp in Hc by (apply xlit_nonzero; lia). rewrite R12, R23 in Hc. cbn in Hc.
  now rewrite orb_false_r in Hc.
Qed.

Lemma sat_trans_smart nb total plant knuth a :
  cnf_sat a (gop_cnf nb total true plant knuth) = true -> trans_on (len nb) (Rel a true (len nb)).
Proof.
  intros Hs. rewrite cnf_sat_true_iff in Hs.
  (* on a sorted triple x < y < z the two clauses exclude the two cyclic orientations *)
  assert (T : forall x y z, 1 <= x -> x < y -> y < z -> z <= len nb ->
     (Rel a true (len nb) x y || Rel a true (len nb) y z || negb (Rel a true (len nb) x z) = true) /\
     (negb (Rel a true (len nb) x y) || negb (Rel a true (len nb) y z) || Rel a true (len nb) x z = true)).
  { intros x y z H1 H2 H3 H4. split.
    - assert (Hc : clause_sat a [xlit true (len nb) x y; xlit true (len nb) y z; - xlit true (len nb) x z] = true).
      { apply Hs, gop_axioms_exact. right. left. split; [reflexivity|]. exists x, y, z. repeat split; try lia. now left. }
      unfold Rel. cbn [clause_sat existsb] in Hc. rewrite lit_true_opp in Hc by (apply xlit_nonzero; lia).
      now rewrite orb_false_r, orb_assoc in Hc.
    - assert (Hc : clause_sat a [- xlit true (len nb) x y; - xlit true (len nb) y z; xlit true (len nb) x z] = true).
      { apply Hs, gop_axioms_exact. right. left. split; [reflexivity|]. exists x, y, z. repeat split; try lia. now right. }
      unfold Rel. cbn [clause_sat existsb] in Hc. rewrite !lit_true_opp in Hc by (apply xlit_nonzero; lia).
      now rewrite orb_false_r, orb_assoc in Hc. }
  intros v1 v2 v3 H1 H2 H3 N12 N23 N13 R12 R23. unfold inr in *.
  pose proof (fun u v Hu Hv Hne => Rel_smart_flip a (len nb) u v Hu Hv Hne) as FL.
  assert (C : (v1 < v2 /\ v2 < v3) \/ (v1 < v3 /\ v3 < v2) \/ (v2 < v1 /\ v1 < v3) \/
              (v2 < v3 /\ v3 < v1) \/ (v3 < v1 /\ v1 < v2) \/ (v3 < v2 /\ v2 < v1)) by lia.
  destruct C as [C|[C|[C|[C|[C|C]]]]].
  - destruct (T v1 v2 v3) as [_ T2]; try lia. rewrite R12, R23 in T2. exact T2.
  - destruct (T v1 v3 v2) as [T1 _]; try lia. rewrite R12 in T1. rewrite (FL v2 v3), R23 in T1 by lia.
    destruct (Rel a true (len nb) v1 v3); [reflexivity|cbn in T1; discriminate].
  - destruct (T v2 v1 v3) as [T1 _]; try lia. rewrite R23 in T1. rewrite (FL v1 v2), R12 in T1 by lia.
    destruct (Rel a true (len nb) v1 v3); [reflexivity|cbn in T1; discriminate].
  - destruct (T v2 v3 v1) as [_ T2]; try lia. rewrite R23 in T2. rewrite (FL v1 v2), R12 in T2 by lia.
    rewrite (FL v1 v3) in T2 by lia. destruct (Rel a true (len nb) v1 v3); [reflexivity|cbn in T2; discriminate].
  - destruct (T v3 v1 v2) as [_ T2]; try lia. rewrite R12 in T2. rewrite (FL v2 v3), R23 in T2 by lia.
    rewrite (FL v1 v3) in T2 by lia. destruct (Rel a true (len nb) v1 v3); [reflexivity|cbn in T2; discriminate].
  - destruct (T v3 v2 v1) as [T1 _]; try lia. rewrite (FL v2 v3), R23, (FL v1 v2), R12 in T1 by lia.
    rewrite (FL v1 v3) in T1 by lia. destruct (Rel a true (len nb) v1 v3); [reflexivity|cbn in T1; discriminate].
Qed.

(* every variant forces minimal elements in every non-empty subset *)
Lemma sat_min_prop nb total smart plant knuth a :
  cnf_sat a (gop_cnf nb total smart plant knuth) = true -> min_prop (len nb) (Rel a smart (len nb)).
Proof.
  intros Hs. pose proof (sat_antisym _ _ _ _ _ _ Hs) as AS. destruct smart.
  - apply min_k3; [assumption|]. apply trans_on_k3. eapply sat_trans_smart; eauto.
  - pose proof (sat_trans_plain _ _ _ _ _ Hs) as TR. destruct (Z.eq_dec knuth 2) as [K2|K2].
    + apply min_k2; [assumption|]. intros v1 v2 v3 H1 H2 H3 N13 L12 L32 R12 R23. unfold inr in *.
      apply (TR v1 v2 v3); try lia; try assumption. subst knuth. unfold knuth_keep. cbn. lia.
    + apply min_k3; [assumption|]. intros v1 v2 v3 H1 H2 H3 N12 L13 L23 R12 R23. unfold inr in *.
      apply (TR v1 v2 v3); try lia; try assumption. unfold knuth_keep.
      destruct (Z.eqb_spec knuth 2); [lia|]. destruct (knuth =? 3); lia.
Qed.

(* ====================================================================== *)
(* Part E: unsatisfiability, planted variant                               *)
(* ====================================================================== *)
Theorem gop_unsat nb total smart knuth a : graph_ok nb = true -> 1 <= len nb ->
  cnf_sat a (gop_cnf nb total smart false knuth) = false.
Proof.
  intros Hg Hn. destruct (cnf_sat a (gop_cnf nb total smart false knuth)) eqn:Hs; [|reflexivity]. exfalso.
  pose proof (sat_min_prop _ _ _ _ _ _ Hs) as MP.
  destruct (MP (fun x => (1 <=? x) && (x <=? len nb))) as [m [Hm Hmin]].
  - intros x Hx. unfold inr. lia.
  - exists 1. lia.
  - assert (Hm' : 1 <= m <= len nb) by lia.
    destruct (sat_nonmin _ _ _ _ _ _ Hs m Hm' (andb_false_r _)) as [u [Hu HR]].
    destruct (graph_ok_spec nb m u Hg Hm' Hu) as [Hur Hne].
    rewrite Hmin in HR; [discriminate|lia|assumption].
Qed.

Lemma complete_nb_len n : 0 <= n -> len (complete_nb n) = n.
Proof. intros H. unfold complete_nb, len, vrange. rewrite map_length, zrange_length. lia. Qed.

Lemma complete_nb_nth n v : 1 <= v <= n -> nthZ (complete_nb n) v = filter (fun u => negb (u =? v)) (vrange n).
Proof.
  intros Hv. unfold nthZ, complete_nb.
  rewrite nth_indep with (d' := filter (fun u => negb (u =? 0)) (vrange n))
    by (rewrite map_length; unfold vrange; rewrite zrange_length; lia).
  change (filter (fun u => negb (u =? 0)) (vrange n)) with ((fun v => filter (fun u => negb (u =? v)) (vrange n)) 0).
  rewrite map_nth. unfold vrange. rewrite zrange_nth by lia. replace (1 + Z.of_nat (Z.to_nat (v - 1))) with v by lia. reflexivity.
Qed.

Lemma complete_nb_ok n : 0 <= n -> graph_ok (complete_nb n) = true.
Proof.
  intros Hn. unfold graph_ok. rewrite complete_nb_len by assumption. apply forallb_forall. intros v Hv.
  apply In_vrange in Hv. rewrite complete_nb_nth by assumption. apply forallb_forall. intros u Hu.
  apply filter_In in Hu as [Hu Hne]. apply In_vrange in Hu. lia.
Qed.

Theorem op_unsat n total smart knuth a : 1 <= n -> cnf_sat a (op_cnf n total smart false knuth) = false.
Proof.
  intros Hn. unfold op_cnf. apply gop_unsat; [apply complete_nb_ok; lia|rewrite complete_nb_len; lia].
Qed.

(* a linear order (injective position function) in which every vertex but the last
   comes after one of its neighbours *)
Definition planted_order (nb : list (list Z)) (pos : Z -> Z) : Prop :=
  (forall u v, 1 <= u <= len nb -> 1 <= v <= len nb -> u <> v -> pos u <> pos v) /\
  (forall v, 1 <= v < len nb -> exists u, In u (nthZ nb v) /\ pos u < pos v).

Lemma plant_sat_order nb total smart knuth a : graph_ok nb = true ->
  cnf_sat a (gop_cnf nb total smart true knuth) = true -> exists pos, planted_order nb pos.
Proof.
  intros Hg Hs. pose proof (sat_min_prop _ _ _ _ _ _ Hs) as MP.
  destruct (toposort _ _ MP (length (vrange (len nb))) (vrange (len nb)) (le_n _)) as [pos [P0 [P1 P2]]].
  { intros x Hx. apply In_vrange in Hx. exact Hx. }
  exists pos. split.
  - intros u v Hu Hv Hne. apply P1; try apply In_vrange; assumption.
  - intros v Hv. assert (Hv' : 1 <= v <= len nb) by lia.
    destruct (sat_nonmin _ _ _ _ _ _ Hs v Hv') as [u [Hu HR]]; [lia|].
    destruct (graph_ok_spec nb v u Hg Hv' Hu) as [Hur Hne].
    exists u. split; [assumption|]. apply P2; try apply In_vrange; assumption.
Qed.

(* the assignment that spells a position function *)
Definition order_assignment (smart : bool) (n : Z) (pos : Z -> Z) (x : Z) : bool :=
  if smart then existsb (fun p => (cid n (fst p) (snd p) =? x) && (pos (fst p) <? pos (snd p))) (pairs_lt n)
  else existsb (fun t => match t with (u, v, _) => (pid n u v =? x) && (pos u <? pos v) end) (triples_ne n)
       || existsb (fun p => ((pid n (fst p) (snd p) =? x) && (pos (fst p) <? pos (snd p)))
                            || ((pid n (snd p) (fst p) =? x) && (pos (snd p) <? pos (fst p)))) (pairs_lt n).

Lemma order_assignment_cid n pos u v : 1 <= u -> u < v <= n ->
  order_assignment true n pos (cid n u v) = (pos u <? pos v).
Proof.
  intros Hu Hv. unfold order_assignment. destruct (pos u <? pos v) eqn:E.
  - apply existsb_exists. exists (u, v). split; [apply In_pairs_lt; lia|]. cbn [fst snd]. rewrite Z.eqb_refl, E. reflexivity.
  - destruct (existsb _ _) eqn:X; [|reflexivity]. apply existsb_exists in X as [[u' v'] [Hin X]].
    apply In_pairs_lt in Hin. cbn [fst snd] in X. apply andb_true_iff in X as [X1 X2]. apply Z.eqb_eq in X1.
    destruct (cid_inj n u' v' u v) as [-> ->]; try lia; try congruence.
Qed.

Lemma order_assignment_pid n pos u v : 1 <= u <= n -> 1 <= v <= n -> u <> v ->
  order_assignment false n pos (pid n u v) = (pos u <? pos v).
Proof.
  intros Hu Hv Hne. unfold order_assignment. destruct (pos u <? pos v) eqn:E.
  - apply orb_true_iff. right. apply existsb_exists.
    destruct (Z.lt_trichotomy u v) as [L|[L|L]]; [|lia|].
    + exists (u, v). split; [apply In_pairs_lt; lia|]. cbn [fst snd]. rewrite Z.eqb_refl, E. reflexivity.
    + exists (v, u). split; [apply In_pairs_lt; lia|]. cbn [fst snd]. rewrite Z.eqb_refl, E. cbn. apply orb_true_r.
  - apply orb_false_iff. split.
    + destruct (existsb _ _) eqn:X; [|reflexivity]. apply existsb_exists in X as [[[u' v'] w] [Hin X]].
      apply In_triples_ne in Hin. apply andb_true_iff in X as [X1 X2]. apply Z.eqb_eq in X1.
      destruct (pid_inj n u' v' u v) as [-> ->]; try lia; try congruence.
    + destruct (existsb _ _) eqn:X; [|reflexivity]. apply existsb_exists in X as [[u' v'] [Hin X]].
      apply In_pairs_lt in Hin. cbn [fst snd] in X. apply orb_true_iff in X as [X|X];
        apply andb_true_iff in X as [X1 X2]; apply Z.eqb_eq in X1.
      * destruct (pid_inj n u' v' u v) as [-> ->]; try lia; try congruence.
      * destruct (pid_inj n v' u' u v) as [-> ->]; try lia; try congruence.
Qed.

Lemma order_assignment_rel smart n pos u v : 1 <= u <= n -> 1 <= v <= n -> u <> v ->
  (forall x y, 1 <= x <= n -> 1 <= y <= n -> x <> y -> pos x <> pos y) ->
  Rel (order_assignment smart n pos) smart n u v = (pos u <? pos v).
Proof.
  intros Hu Hv Hne Inj. unfold Rel, xlit. destruct smart.
  - destruct (Z.ltb_spec u v).
    + rewrite lit_true_pos by (apply cid_pos; lia). apply order_assignment_cid; lia.
    + rewrite lit_true_neg by (apply cid_pos; lia). rewrite order_assignment_cid by lia.
      specialize (Inj u v Hu Hv Hne). lia.
  - rewrite lit_true_pos by (apply pid_pos; lia). now apply order_assignment_pid.
Qed.

Lemma order_plant_sat nb total smart knuth pos : graph_ok nb = true -> planted_order nb pos ->
  cnf_sat (order_assignment smart (len nb) pos) (gop_cnf nb total smart true knuth) = true.
Proof.
  intros Hg [Inj Hmin]. apply cnf_sat_true_iff. intros c Hc. set (a := order_assignment smart (len nb) pos).
  assert (RP : forall u v, 1 <= u <= len nb -> 1 <= v <= len nb -> u <> v ->
                 lit_true a (xlit smart (len nb) u v) = (pos u <? pos v)).
  { intros u v Hu Hv Hne. apply (order_assignment_rel smart (len nb) pos u v Hu Hv Hne Inj). }
  assert (RN : forall u v, 1 <= u <= len nb -> 1 <= v <= len nb -> u <> v ->
                 lit_true a (- xlit smart (len nb) u v) = negb (pos u <? pos v)).
  { intros u v Hu Hv Hne. rewrite lit_true_opp by (apply xlit_nonzero; assumption). now rewrite RP. }
  apply gop_axioms_exact in Hc as [[v [Hv [E Hc]]]|[[Es [v1 [v2 [v3 [H1 [H2 [H3 [H4 Hc]]]]]]]]|
    [[Es [v1 [v2 [v3 [H1 [H2 [H3 [N1 [N2 [N3 [K Hc]]]]]]]]]]]|[[Es [v1 [v2 [H1 [H2 [H3 Hc]]]]]]|
     [Es [Et [v1 [v2 [H1 [H2 [H3 Hc]]]]]]]]]]].
  - subst c. destruct (Hmin v ltac:(lia)) as [u [Hu Hlt]]. apply clause_sat_true_iff.
    exists (xlit smart (len nb) u v). split; [apply in_map_iff; exists u; split; [reflexivity|assumption]|].
    destruct (graph_ok_spec nb v u Hg Hv Hu) as [Hur Hne]. rewrite RP by assumption. lia.
  - subst smart. pose proof (Inj v1 v2). pose proof (Inj v2 v3). pose proof (Inj v1 v3).
    destruct Hc as [Hc|Hc]; subst c; cbn [clause_sat existsb]; rewrite ?RP, ?RN by lia; lia.
  - subst smart c. cbn [clause_sat existsb]. rewrite ?RP, ?RN by lia. lia.
  - subst smart c. cbn [clause_sat existsb]. rewrite ?RP, ?RN by lia. lia.
  - subst smart c. pose proof (Inj v1 v2). cbn [clause_sat existsb]. rewrite ?RP, ?RN by lia. lia.
Qed.

Theorem gop_plant_sat_iff nb total smart knuth : graph_ok nb = true ->
  ((exists a, cnf_sat a (gop_cnf nb total smart true knuth) = true) <-> exists pos, planted_order nb pos).
Proof.
  intros Hg. split.
  - intros [a Hs]. eapply plant_sat_order; eauto.
  - intros [pos Hp]. exists (order_assignment smart (len nb) pos). now apply order_plant_sat.
Qed.

(* OrderingPrinciple with `plant` is satisfiable for every size: put the last element first *)
Theorem op_plant_sat n total smart knuth : 0 <= n -> exists a, cnf_sat a (op_cnf n total smart true knuth) = true.
Proof.
  intros Hn. unfold op_cnf. apply gop_plant_sat_iff; [now apply complete_nb_ok|].
  exists (fun v => - v). split.
  - intros u v _ _ Hne. lia.
  - rewrite complete_nb_len by assumption. intros v Hv. exists n. split; [|lia].
    rewrite complete_nb_nth by lia. apply filter_In. split; [apply In_vrange; lia|lia].
Qed.

(* ====================================================================== *)
(* Part F: T1 for the variants with all transitivity axioms                *)
(* ====================================================================== *)
(* the models are exactly the strict partial (total when asked) orders in which every vertex
   -- but the last one when planted -- has a neighbour before it *)
Definition order_axioms (nb : list (list Z)) (total plant : bool) (R : Z -> Z -> bool) : Prop :=
  (forall v, 1 <= v <= len nb -> (v =? len nb) && plant = false -> exists u, In u (nthZ nb v) /\ R u v = true) /\
  trans_on (len nb) R /\ antisym_on (len nb) R /\
  (total = true -> forall u v, 1 <= u <= len nb -> 1 <= v <= len nb -> u <> v -> R u v = true \/ R v u = true).

Definition full_trans (knuth : Z) : Prop := knuth <> 2 /\ knuth <> 3.
Lemma full_trans_keep knuth v1 v2 v3 : full_trans knuth -> knuth_keep knuth v1 v2 v3 = true.
Proof. intros [H2 H3]. unfold knuth_keep. destruct (Z.eqb_spec knuth 2); [lia|]. destruct (Z.eqb_spec knuth 3); [lia|reflexivity]. Qed.

Theorem gop_plain_T1 nb total plant knuth a : graph_ok nb = true -> full_trans knuth ->
  (cnf_sat a (gop_cnf nb total false plant knuth) = true <-> order_axioms nb total plant (Rel a false (len nb))).
Proof.
  intros Hg FT. split.
  - intros Hs. split; [|split; [|split]].
    + intros v Hv E. eapply sat_nonmin; eauto.
    + intros v1 v2 v3 H1 H2 H3 N12 N23 N13. unfold inr in *.
      apply (sat_trans_plain _ _ _ _ _ Hs v1 v2 v3); try assumption. now apply full_trans_keep.
    + eapply sat_antisym; eauto.
    + intros Et. subst total. rewrite cnf_sat_true_iff in Hs.
      assert (T : forall x y, 1 <= x -> x < y -> y <= len nb -> Rel a false (len nb) x y = true \/ Rel a false (len nb) y x = true).
      { intros x y H1 H2 H3.
        assert (Hc : clause_sat a [xlit false (len nb) x y; xlit false (len nb) y x] = true).
        { apply Hs, gop_axioms_exact. right. right. right. right. repeat split. exists x, y. repeat split; lia. }
        unfold Rel. cbn [clause_sat existsb] in Hc. rewrite orb_false_r in Hc. now apply orb_true_iff in Hc. }
      intros u v Hu Hv Hne. destruct (Z.lt_trichotomy u v) as [L|[L|L]]; [apply T; lia|lia|].
      destruct (T v u) as [H|H]; try lia; tauto.
  - intros [NM [TR [AS TO]]]. apply cnf_sat_true_iff. intros c Hc.
    apply gop_axioms_exact in Hc as [[v [Hv [E Hc]]]|[[Es _]|[[_ [v1 [v2 [v3 [H1 [H2 [H3 [N1 [N2 [N3 [K Hc]]]]]]]]]]]|
      [[_ [v1 [v2 [H1 [H2 [H3 Hc]]]]]]|[_ [Et [v1 [v2 [H1 [H2 [H3 Hc]]]]]]]]]]]; [|discriminate| | |].
    + subst c. destruct (NM v Hv E) as [u [Hu HR]]. apply clause_sat_true_iff.
      exists (xlit false (len nb) u v). split; [apply in_map_iff; exists u; split; [reflexivity|assumption]|exact HR].
    + subst c. cbn [clause_sat existsb]. rewrite !lit_true_opp by (apply xlit_nonzero; lia).
      fold (Rel a false (len nb) v1 v2). fold (Rel a false (len nb) v2 v3). fold (Rel a false (len nb) v1 v3).
      destruct (Rel a false (len nb) v1 v2) eqn:R12; [|reflexivity]. destruct (Rel a false (len nb) v2 v3) eqn:R23; [|reflexivity].
      assert (R13 : Rel a false (len nb) v1 v3 = true) by (apply (TR v1 v2 v3); unfold inr; try lia; assumption).
      rewrite R13. reflexivity.
    + subst c. cbn [clause_sat existsb]. rewrite !lit_true_opp by (apply xlit_nonzero; lia).
      fold (Rel a false (len nb) v1 v2). fold (Rel a false (len nb) v2 v1).
      destruct (Rel a false (len nb) v1 v2) eqn:R12; [|reflexivity].
      assert (R21 : Rel a false (len nb) v2 v1 = false) by (apply (AS v1 v2); unfold inr; try lia; assumption).
      rewrite R21. reflexivity.
    + subst c. cbn [clause_sat existsb]. fold (Rel a false (len nb) v1 v2). fold (Rel a false (len nb) v2 v1).
      destruct (TO Et v1 v2) as [H|H]; try lia; rewrite H; [reflexivity|apply orb_true_iff; right; reflexivity].
Qed.

Theorem gop_smart_T1 nb total plant knuth a : graph_ok nb = true ->
  (cnf_sat a (gop_cnf nb total true plant knuth) = true <-> order_axioms nb true plant (Rel a true (len nb))).
Proof.
  intros Hg. pose proof (fun u v Hu Hv Hne => Rel_smart_flip a (len nb) u v Hu Hv Hne) as FL. split.
  - intros Hs. split; [|split; [|split]].
    + intros v Hv E. eapply sat_nonmin; eauto.
    + eapply sat_trans_smart; eauto.
    + eapply sat_antisym; eauto.
    + intros _ u v Hu Hv Hne. rewrite (FL u v) by assumption. destruct (Rel a true (len nb) u v); [now left|now right].
  - intros [NM [TR [AS TO]]]. apply cnf_sat_true_iff. intros c Hc.
    apply gop_axioms_exact in Hc as [[v [Hv [E Hc]]]|[[_ [v1 [v2 [v3 [H1 [H2 [H3 [H4 Hc]]]]]]]]|[[Es _]|[[Es _]|[Es _]]]]];
      try discriminate.
    + subst c. destruct (NM v Hv E) as [u [Hu HR]]. apply clause_sat_true_iff.
      exists (xlit true (len nb) u v). split; [apply in_map_iff; exists u; split; [reflexivity|assumption]|exact HR].
    + destruct Hc as [Hc|Hc]; subst c; cbn [clause_sat existsb]; rewrite !lit_true_opp by (apply xlit_nonzero; lia);
        fold (Rel a true (len nb) v1 v2); fold (Rel a true (len nb) v2 v3); fold (Rel a true (len nb) v1 v3).
      * destruct (Rel a true (len nb) v1 v2) eqn:R12; [reflexivity|]. destruct (Rel a true (len nb) v2 v3) eqn:R23; [reflexivity|].
        assert (R21 : Rel a true (len nb) v2 v1 = true) by (rewrite FL, R12 by lia; reflexivity).
        assert (R32 : Rel a true (len nb) v3 v2 = true) by (rewrite FL, R23 by lia; reflexivity).
        assert (R31 : Rel a true (len nb) v3 v1 = true) by (apply (TR v3 v2 v1); unfold inr; try lia; assumption).
        rewrite (FL v1 v3) in R31 by lia. destruct (Rel a true (len nb) v1 v3); [discriminate|reflexivity].
      * destruct (Rel a true (len nb) v1 v2) eqn:R12; [|reflexivity]. destruct (Rel a true (len nb) v2 v3) eqn:R23; [|reflexivity].
        assert (R13 : Rel a true (len nb) v1 v3 = true) by (apply (TR v1 v2 v3); unfold inr; try lia; assumption).
        rewrite R13. reflexivity.
Qed.
