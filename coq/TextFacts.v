(* TextFacts.v — facts about Text.v: printing then parsing an integer, splitting
   a joined list of tokens / lines, strip, universal newlines. *)
From Coq Require Import String ZArith List Bool Ascii Lia ZifyBool.
From Cnfgen Require Import Text.
Import ListNotations.
Open Scope Z_scope.

(* ------------------------------------------------------------------ *)
(* characters *)

Lemma code_range c : 0 <= code c < 256.
Proof. unfold code. pose proof (N_ascii_bounded c). lia. Qed.

Lemma digit_range z : 0 <= z mod 10 < 10.
Proof. apply Z.mod_pos_bound; lia. Qed.

Lemma digit_cases d : 0 <= d < 10 ->
  d = 0 \/ d = 1 \/ d = 2 \/ d = 3 \/ d = 4 \/ d = 5 \/ d = 6 \/ d = 7 \/ d = 8 \/ d = 9.
Proof. lia. Qed.

Lemma digit_val_chr d : 0 <= d < 10 -> digit_val (digit_chr d) = Some d.
Proof.
  intros H. destruct (digit_cases d H) as [E|[E|[E|[E|[E|[E|[E|[E|[E|E]]]]]]]]]; subst; reflexivity.
Qed.

Lemma is_digit_chr d : 0 <= d < 10 -> is_digit (digit_chr d) = true.
Proof.
  intros H. destruct (digit_cases d H) as [E|[E|[E|[E|[E|[E|[E|[E|[E|E]]]]]]]]]; subst; reflexivity.
Qed.

(* characters an integer is printed with *)
Definition is_num_char (c : ascii) : bool := is_digit c || Ascii.eqb c "-"%char.

Lemma code_inj_lit c d : code c <> code d -> c <> d.
Proof. intros H E; subst; auto. Qed.

Lemma num_char_not_space c : is_num_char c = true -> is_space c = false.
Proof.
  unfold is_num_char, is_space, is_digit. intros H.
  destruct (Ascii.eqb_spec c "-"%char) as [E|NE].
  - subst; reflexivity.
  - rewrite orb_false_r in H. lia.
Qed.

Lemma num_char_not c x : is_num_char c = true -> is_num_char x = false -> Ascii.eqb c x = false.
Proof.
  intros H1 H2. destruct (Ascii.eqb_spec c x); [subst; congruence | reflexivity].
Qed.

Lemma digit_not_space c : is_digit c = true -> is_space c = false.
Proof. intros H. apply num_char_not_space. unfold is_num_char. rewrite H. reflexivity. Qed.

(* ------------------------------------------------------------------ *)
(* printing an integer *)

Lemma print_digits_num : forall f z acc, forallb is_num_char acc = true ->
  forallb is_num_char (print_digits f z acc) = true.
Proof.
  induction f as [|f IH]; intros z acc Hacc; cbn [print_digits]; [assumption|].
  assert (Hd : forallb is_num_char (digit_chr (z mod 10) :: acc) = true).
  { cbn [forallb]. rewrite Hacc. unfold is_num_char.
    rewrite (is_digit_chr _ (digit_range z)). reflexivity. }
  destruct (z <? 10); [exact Hd | apply IH; exact Hd].
Qed.

Lemma print_digits_head : forall f z c acc, is_digit c = true ->
  exists c' r, print_digits f z (c :: acc) = c' :: r /\ is_digit c' = true.
Proof.
  induction f as [|f IH]; intros z c acc Hc; cbn [print_digits].
  - exists c, acc; auto.
  - destruct (z <? 10).
    + eexists _, _; split; [reflexivity | apply is_digit_chr, digit_range].
    + apply IH. apply is_digit_chr, digit_range.
Qed.

Lemma print_nonneg_head z : exists c r, print_nonneg z = c :: r /\ is_digit c = true.
Proof.
  unfold print_nonneg. cbn [print_digits].
  destruct (z <? 10).
  - eexists _, _; split; [reflexivity | apply is_digit_chr, digit_range].
  - apply print_digits_head. apply is_digit_chr, digit_range.
Qed.

Lemma print_Z_num z : forallb is_num_char (print_Z z) = true.
Proof.
  unfold print_Z. destruct (z <? 0).
  - cbn [forallb]. unfold print_nonneg. rewrite print_digits_num; reflexivity.
  - unfold print_nonneg. apply print_digits_num; reflexivity.
Qed.

Lemma print_Z_head z : exists c r, print_Z z = c :: r /\ is_num_char c = true.
Proof.
  unfold print_Z. destruct (z <? 0).
  - eexists _, _; split; reflexivity.
  - destruct (print_nonneg_head z) as (c & r & E & Hc). exists c, r. split; [exact E|].
    unfold is_num_char. rewrite Hc. reflexivity.
Qed.

Lemma print_Z_nonempty z : print_Z z <> [].
Proof. destruct (print_Z_head z) as (c & r & E & _). rewrite E. discriminate. Qed.

(* reading back what print_digits wrote: no power of ten needed, the
   accumulators of writer and reader mirror each other *)
Lemma int_body_digit a c r d : digit_val c = Some d -> int_body a (c :: r) = int_body (10 * a + d) r.
Proof. intros H. cbn [int_body]. rewrite H. reflexivity. Qed.

Lemma int_body_print_digits : forall f z acc, 0 <= z < 2 ^ Z.of_nat f ->
  int_body 0 (print_digits f z acc) = int_body z acc.
Proof.
  induction f as [|f IH]; intros z acc Hz.
  - cbn in Hz. assert (z = 0) by lia. subst. reflexivity.
  - cbn [print_digits].
    assert (Hdv := digit_val_chr _ (digit_range z)).
    destruct (z <? 10) eqn:Hlt.
    + rewrite (int_body_digit _ _ _ _ Hdv).
      assert (z mod 10 = z) by (apply Z.mod_small; lia). f_equal. lia.
    + rewrite IH.
      * rewrite (int_body_digit _ _ _ _ Hdv). f_equal.
        pose proof (Z.div_mod z 10). lia.
      * rewrite Nat2Z.inj_succ, Z.pow_succ_r in Hz by lia.
        split; [apply Z.div_pos; lia|].
        apply Z.div_lt_upper_bound; lia.
Qed.

Lemma log2_fuel z : 0 <= z -> z < 2 ^ Z.of_nat (S (Z.to_nat (Z.log2 z))).
Proof.
  intros Hz. rewrite Nat2Z.inj_succ, Z2Nat.id by apply Z.log2_nonneg.
  destruct (Z.eq_dec z 0) as [->|NZ]; [cbn; lia|].
  apply Z.log2_spec. lia.
Qed.

Lemma parse_unsigned_print_nonneg z : 0 <= z -> parse_unsigned (print_nonneg z) = Some z.
Proof.
  intros Hz. destruct (print_nonneg_head z) as (c & r & E & Hc).
  unfold parse_unsigned. rewrite E, Hc, <- E.
  unfold print_nonneg. rewrite int_body_print_digits by (split; [exact Hz | apply log2_fuel; exact Hz]).
  reflexivity.
Qed.

(* the interpreter refuses to convert more than 4300 digits in either direction;
   `small z` says z is printed with at most that many *)
Definition small (z : Z) : Prop := count_digits (print_Z z) <= max_str_digits.

Lemma minus_not_digit : is_digit "-"%char = false. Proof. reflexivity. Qed.

Lemma parse_int_minus body : parse_int ("-"%char :: body) =
  if max_str_digits <? count_digits body then None
  else match parse_unsigned body with Some v => Some (- v) | None => None end.
Proof. reflexivity. Qed.

Lemma parse_int_plain c r : is_digit c = true -> parse_int (c :: r) =
  if max_str_digits <? count_digits (c :: r) then None
  else match parse_unsigned (c :: r) with Some v => Some v | None => None end.
Proof.
  intros Hc. unfold parse_int.
  destruct (Ascii.eqb_spec c "-"%char) as [->|N1]; [discriminate Hc|].
  destruct (Ascii.eqb_spec c "+"%char) as [->|N2]; [discriminate Hc|].
  reflexivity.
Qed.

Theorem parse_int_print_Z z : small z -> parse_int (print_Z z) = Some z.
Proof.
  unfold small, print_Z. intros Hs. destruct (z <? 0) eqn:Hneg.
  - rewrite parse_int_minus.
    unfold count_digits in *. cbn [filter] in Hs. rewrite minus_not_digit in Hs.
    destruct (max_str_digits <? Z.of_nat (length (filter is_digit (print_nonneg (- z))))) eqn:Hc; [lia|].
    rewrite parse_unsigned_print_nonneg by lia. f_equal. lia.
  - destruct (print_nonneg_head z) as (c & r & E & Hc).
    rewrite E, (parse_int_plain c r Hc), <- E.
    destruct (max_str_digits <? count_digits (print_nonneg z)) eqn:Hcnt; [lia|].
    rewrite parse_unsigned_print_nonneg by lia. reflexivity.
Qed.

(* a sufficient and readable condition: fewer than 10^4300 in absolute value *)
Lemma print_digits_length : forall f z acc k, 0 <= z < 10 ^ Z.of_nat (S k) ->
  (length (print_digits f z acc) <= S k + length acc)%nat.
Proof.
  induction f as [|f IH]; intros z acc k Hz; cbn [print_digits]; [lia|].
  destruct (z <? 10) eqn:Hlt; [cbn [length]; lia|].
  destruct k as [|k]; [cbn in Hz; lia|].
  specialize (IH (z / 10) (digit_chr (z mod 10) :: acc) k).
  cbn [length] in IH.
  assert (0 <= z / 10 < 10 ^ Z.of_nat (S k)).
  { rewrite (Nat2Z.inj_succ (S k)), Z.pow_succ_r in Hz by lia.
    split; [apply Z.div_pos; lia | apply Z.div_lt_upper_bound; lia]. }
  specialize (IH H). lia.
Qed.

Lemma filter_length_le {A} (p : A -> bool) l : (length (filter p l) <= length l)%nat.
Proof. induction l as [|x l IH]; cbn; [lia|]. destruct (p x); cbn; lia. Qed.

Lemma small_of_bound z : Z.abs z < 10 ^ max_str_digits -> small z.
Proof.
  unfold small, count_digits, max_str_digits. intros Hb.
  assert (HK : 4300 = Z.of_nat (S (Z.to_nat 4299))) by (rewrite Nat2Z.inj_succ, Z2Nat.id; lia).
  assert (Hlen : forall y, 0 <= y < 10 ^ 4300 -> (length (print_nonneg y) <= S (Z.to_nat 4299))%nat).
  { intros y Hy. unfold print_nonneg.
    pose proof (print_digits_length (S (Z.to_nat (Z.log2 y))) y [] (Z.to_nat 4299)) as P.
    rewrite <- HK in P. specialize (P Hy). cbn [length] in P. lia. }
  unfold print_Z. destruct (z <? 0) eqn:Hneg.
  - cbn [filter]. rewrite minus_not_digit.
    pose proof (filter_length_le is_digit (print_nonneg (- z))).
    specialize (Hlen (- z)). lia.
  - pose proof (filter_length_le is_digit (print_nonneg z)).
    specialize (Hlen z). lia.
Qed.

(* ------------------------------------------------------------------ *)
(* split_on *)

Section SplitOn.
Context {A : Type} (p : A -> bool).

Lemma split_on_cons_nonempty c s : split_on p (c :: s) <> [].
Proof. cbn. destruct (p c); [discriminate|]. destruct (split_on p s); discriminate. Qed.

(* a piece without separators followed by a separator *)
Lemma split_on_piece : forall l c rest, forallb (fun x => negb (p x)) l = true -> p c = true ->
  split_on p (l ++ c :: rest) = l :: split_on p rest.
Proof.
  induction l as [|x l IH]; intros c rest Hl Hc; cbn [app split_on].
  - rewrite Hc. reflexivity.
  - cbn [forallb] in Hl. apply andb_true_iff in Hl as [Hx Hl].
    apply negb_true_iff in Hx. rewrite Hx, (IH c rest Hl Hc). reflexivity.
Qed.

Lemma split_on_last : forall l, forallb (fun x => negb (p x)) l = true -> l <> [] ->
  split_on p l = [l].
Proof.
  induction l as [|x l IH]; intros Hl Hne; [congruence|].
  cbn [forallb] in Hl. apply andb_true_iff in Hl as [Hx Hl]. apply negb_true_iff in Hx.
  cbn [split_on]. rewrite Hx. destruct l as [|y l]; [reflexivity|].
  rewrite IH; [reflexivity | exact Hl | discriminate].
Qed.
End SplitOn.

(* ------------------------------------------------------------------ *)
(* lines *)

Definition no_lf (l : text) : bool := forallb (fun c => negb (is_lf c)) l.

Lemma is_lf_LF : is_lf LF = true. Proof. reflexivity. Qed.

Lemma split_lines_unlines : forall ls, forallb no_lf ls = true -> split_lines (unlines ls) = ls.
Proof.
  induction ls as [|l ls IH]; intros H; [reflexivity|].
  cbn [forallb] in H. apply andb_true_iff in H as [Hl Hls].
  unfold unlines. cbn [map concat]. rewrite <- app_assoc. cbn [app].
  unfold split_lines. rewrite split_on_piece; [|exact Hl|exact is_lf_LF].
  f_equal. apply IH. exact Hls.
Qed.

Lemma unlines_app a b : unlines (a ++ b) = unlines a ++ unlines b.
Proof. unfold unlines. rewrite map_app, concat_app. reflexivity. Qed.

(* universal newlines leave a text without carriage returns unchanged *)
Definition no_cr (l : text) : bool := forallb (fun c => negb (is_cr c)) l.

Lemma universal_id : forall s, no_cr s = true -> universal s = s.
Proof.
  induction s as [|c s IH]; intros H; [reflexivity|].
  unfold no_cr in H. cbn [forallb] in H. apply andb_true_iff in H as [Hc Hs].
  apply negb_true_iff in Hc. cbn [universal]. rewrite Hc. f_equal. apply IH. exact Hs.
Qed.

Lemma no_cr_app a b : no_cr (a ++ b) = no_cr a && no_cr b.
Proof. unfold no_cr. apply forallb_app. Qed.

Lemma no_cr_unlines ls : forallb no_cr ls = true -> no_cr (unlines ls) = true.
Proof.
  induction ls as [|l ls IH]; intros H; [reflexivity|].
  cbn [forallb] in H. apply andb_true_iff in H as [Hl Hls].
  unfold unlines. cbn [map concat]. rewrite !no_cr_app, Hl. cbn. apply IH, Hls.
Qed.

(* ------------------------------------------------------------------ *)
(* tokens *)

Definition no_ws (t : text) : bool := forallb (fun c => negb (is_space c)) t.
Definition token (t : text) : bool := nonempty t && no_ws t.

Lemma split_ws_space c s : is_space c = true -> split_ws (c :: s) = split_ws s.
Proof. intros H. unfold split_ws. cbn [split_on]. rewrite H. reflexivity. Qed.

Lemma split_ws_token_sep t c rest : token t = true -> is_space c = true ->
  split_ws (t ++ c :: rest) = t :: split_ws rest.
Proof.
  unfold token. intros Ht Hc. apply andb_true_iff in Ht as [Hne Hws].
  unfold split_ws. rewrite split_on_piece; [|exact Hws|exact Hc].
  cbn [filter]. rewrite Hne. reflexivity.
Qed.

Lemma split_ws_token t : token t = true -> split_ws t = [t].
Proof.
  unfold token. intros Ht. apply andb_true_iff in Ht as [Hne Hws].
  unfold split_ws. rewrite split_on_last; [|exact Hws|destruct t; [discriminate|discriminate]].
  cbn [filter]. rewrite Hne. reflexivity.
Qed.

Lemma split_ws_nil : split_ws [] = []. Proof. reflexivity. Qed.

(* tokens each followed by one space, then a last token: "t1 t2 ... tk last" *)
Lemma split_ws_joined : forall ts last, forallb token ts = true -> token last = true ->
  split_ws (concat (map (fun t => t ++ [SP]) ts) ++ last) = ts ++ [last].
Proof.
  induction ts as [|t ts IH]; intros last Hts Hl; cbn [map concat app].
  - apply split_ws_token, Hl.
  - cbn [forallb] in Hts. apply andb_true_iff in Hts as [Ht Hts].
    rewrite <- !app_assoc. cbn [app]. rewrite split_ws_token_sep; [|exact Ht|reflexivity].
    f_equal. apply IH; assumption.
Qed.

Lemma print_Z_token z : token (print_Z z) = true.
Proof.
  unfold token. apply andb_true_iff. split.
  - pose proof (print_Z_nonempty z). destruct (print_Z z); [congruence|reflexivity].
  - unfold no_ws. pose proof (print_Z_num z) as H.
    rewrite forallb_forall in *. intros c Hc. rewrite (num_char_not_space c (H c Hc)). reflexivity.
Qed.

(* ------------------------------------------------------------------ *)
(* strip *)

Lemma lstrip_nonspace c s : is_space c = false -> lstrip (c :: s) = c :: s.
Proof. intros H. cbn. rewrite H. reflexivity. Qed.

Lemma rstrip_head c s : is_space c = false -> exists r, rstrip (c :: s) = c :: r.
Proof. intros H. cbn [rstrip]. destruct (rstrip s); [rewrite H|]; eexists; reflexivity. Qed.

Lemma strip_head c s : is_space c = false -> exists r, strip (c :: s) = c :: r.
Proof. intros H. unfold strip. rewrite lstrip_nonspace by exact H. apply rstrip_head, H. Qed.

Lemma split_ws_lstrip s : split_ws (lstrip s) = split_ws s.
Proof.
  induction s as [|c s IH]; [reflexivity|]. cbn [lstrip].
  destruct (is_space c) eqn:H; [rewrite split_ws_space by exact H; exact IH | reflexivity].
Qed.

Lemma filter_nonempty_repeat {A} k : filter (@nonempty A) (repeat [] k) = [].
Proof. induction k; cbn; auto. Qed.

Lemma split_on_cons {A} (p : A -> bool) c s : split_on p (c :: s) =
  if p c then [] :: split_on p s
  else match split_on p s with [] => [[c]] | l :: ls => (c :: l) :: ls end.
Proof. reflexivity. Qed.

Lemma split_on_rstrip s : exists k, split_on is_space s = split_on is_space (rstrip s) ++ repeat [] k.
Proof.
  induction s as [|c s (k & IH)]; [exists O; reflexivity|].
  cbn [rstrip]. destruct (rstrip s) as [|c' r'] eqn:Hr.
  - cbn [split_on app] in IH. destruct (is_space c) eqn:Hc.
    + exists (S k). cbn [split_on]. rewrite Hc, IH. reflexivity.
    + cbn [split_on]. rewrite Hc, IH. destruct k as [|k]; [exists O|exists k]; reflexivity.
  - pose proof (split_on_cons_nonempty is_space c' r') as Hne.
    exists k. rewrite (split_on_cons is_space c s), (split_on_cons is_space c (c' :: r')), IH.
    destruct (split_on is_space (c' :: r')) as [|l ls]; [congruence|].
    destruct (is_space c); reflexivity.
Qed.

Lemma split_ws_rstrip s : split_ws (rstrip s) = split_ws s.
Proof.
  unfold split_ws. destruct (split_on_rstrip s) as (k & E). rewrite E, filter_app.
  rewrite filter_nonempty_repeat, app_nil_r. reflexivity.
Qed.

Lemma split_ws_strip s : split_ws (strip s) = split_ws s.
Proof. unfold strip. rewrite split_ws_rstrip. apply split_ws_lstrip. Qed.

Lemma rstrip_nil_iff : forall s, rstrip s = [] <-> forallb is_space s = true.
Proof.
  induction s as [|c s IH]; [cbn; tauto|]. cbn [rstrip forallb].
  destruct (rstrip s) eqn:Hr.
  - destruct (is_space c); cbn; [tauto | split; discriminate].
  - split; [discriminate|]. intros H. apply andb_true_iff in H as [_ H].
    apply IH in H. discriminate.
Qed.

Lemma lstrip_all_space : forall s, forallb is_space s = true -> lstrip s = [].
Proof.
  induction s as [|c s IH]; [reflexivity|]. cbn [forallb lstrip]. intros H.
  apply andb_true_iff in H as [Hc Hs]. rewrite Hc. apply IH, Hs.
Qed.

Lemma lstrip_head_nonspace : forall s c r, lstrip s = c :: r -> is_space c = false.
Proof.
  induction s as [|x s IH]; intros c r H; [discriminate|]. cbn [lstrip] in H.
  destruct (is_space x) eqn:Hx; [eapply IH; eauto|]. inversion H; subst. exact Hx.
Qed.

(* strip and lstrip agree on what the readers look at: emptiness and first character *)
Lemma strip_lstrip_head s :
  match lstrip s with
  | [] => strip s = []
  | c :: _ => exists r, strip s = c :: r
  end.
Proof.
  unfold strip. destruct (lstrip s) as [|c r] eqn:E; [reflexivity|].
  apply rstrip_head. eapply lstrip_head_nonspace; eauto.
Qed.

(* ------------------------------------------------------------------ *)
(* more on lines: texts made of terminated entries, universal newlines *)

Lemma split_on_map {A} (p : A -> bool) (f : A -> A) : (forall c, p (f c) = p c) ->
  forall s, split_on p (map f s) = map (map f) (split_on p s).
Proof.
  intros Hf. induction s as [|c s IH]; [reflexivity|].
  cbn [map split_on]. rewrite Hf, IH. destruct (p c); [reflexivity|].
  destruct (split_on p s); reflexivity.
Qed.

(* a text that ends an entry with "\n" splits independently of what follows *)
Lemma split_lines_terminated : forall a b,
  split_lines (a ++ LF :: b) = split_lines (a ++ [LF]) ++ split_lines b.
Proof.
  unfold split_lines. induction a as [|c a IH]; intros b; [reflexivity|].
  cbn [app]. rewrite !split_on_cons, IH. destruct (is_lf c); [reflexivity|].
  destruct (split_on is_lf (a ++ [LF])) as [|l ls] eqn:E; [|reflexivity].
  exfalso. destruct a; cbn [app] in E; eapply split_on_cons_nonempty; exact E.
Qed.

Definition entry_lines (e : text) : list text := split_lines (e ++ [LF]).

Lemma split_lines_unlines_entries : forall es,
  split_lines (unlines es) = concat (map entry_lines es).
Proof.
  induction es as [|e es IH]; [reflexivity|].
  unfold unlines in *. cbn [map concat]. rewrite <- app_assoc. cbn [app].
  rewrite split_lines_terminated, IH. reflexivity.
Qed.

Lemma entry_lines_plain e : no_lf e = true -> entry_lines e = [e].
Proof.
  intros H. unfold entry_lines, split_lines. rewrite split_on_piece; [reflexivity|exact H|exact is_lf_LF].
Qed.

Lemma universal_plain c s : is_cr c = false -> universal (c :: s) = c :: universal s.
Proof. intros H. cbn [universal]. rewrite H. reflexivity. Qed.

Lemma no_cr_cons c s : no_cr (c :: s) = negb (is_cr c) && no_cr s.
Proof. reflexivity. Qed.

(* after universal newlines no carriage return is left *)
Lemma no_cr_universal : forall s, no_cr (universal s) = true.
Proof.
  induction s as [|c s IH]; [reflexivity|].
  cbn [universal]. destruct (is_cr c) eqn:Hc.
  - destruct s as [|c2 s2]; [reflexivity|]. destruct (is_lf c2) eqn:H2.
    + assert (Hn : is_cr c2 = false).
      { unfold is_lf, is_cr in *. apply Ascii.eqb_eq in H2. subst c2. reflexivity. }
      rewrite universal_plain, no_cr_cons in IH by exact Hn.
      apply andb_true_iff in IH as [_ IH]. rewrite no_cr_cons, IH. reflexivity.
    + rewrite no_cr_cons, IH. reflexivity.
  - rewrite no_cr_cons, Hc, IH. reflexivity.
Qed.
