(* ShuffleFacts.v — Shuffle is a signed renaming of the variables plus a
   reordering of the clauses (C09). *)
From Coq Require Import ZArith List Bool Lia ZifyBool Permutation.
From Cnfgen Require Import Sem Comb SemFacts Shuffle.
Import ListNotations.
Open Scope Z_scope.

(* ---------- ranges ---------- *)

Lemma sh_in_zrange x a b : In x (zrange a b) <-> a <= x < b.
Proof.
  unfold zrange. rewrite in_map_iff. split.
  - intros [i [E Hi]]. apply in_seq in Hi. lia.
  - intros H. exists (Z.to_nat (x - a)). split; [lia|]. apply in_seq. lia.
Qed.
Lemma sh_length_zrange a b : length (zrange a b) = Z.to_nat (b - a).
Proof. unfold zrange. now rewrite map_length, seq_length. Qed.
Lemma sh_nth_map_seq (f : nat -> Z) : forall n s i, (i < n)%nat -> nth i (map f (seq s n)) 0 = f (s + i)%nat.
Proof.
  induction n as [|n IH]; intros s i H; [lia|]. cbn [seq map]. destruct i as [|i].
  - cbn [nth]. f_equal. lia.
  - cbn [nth]. rewrite IH by lia. f_equal. lia.
Qed.
Lemma sh_nth_zrange a b i : (i < Z.to_nat (b - a))%nat -> nth i (zrange a b) 0 = a + Z.of_nat i.
Proof. intros H. unfold zrange. rewrite sh_nth_map_seq by exact H. reflexivity. Qed.
Lemma sh_NoDup_zrange a b : NoDup (zrange a b).
Proof.
  unfold zrange. generalize (Z.to_nat (b - a)) as n. intros n.
  generalize 0%nat as s. induction n as [|n IH]; intros s; [constructor|].
  cbn [seq map]. constructor; [|apply IH].
  rewrite in_map_iff. intros [j [E Hj]]. apply in_seq in Hj. lia.
Qed.

(* ---------- sorted() ---------- *)

Lemma zinsert_perm x l : Permutation (zinsert x l) (x :: l).
Proof.
  induction l as [|y t IH]; [reflexivity|]. cbn [zinsert]. destruct (x <=? y); [reflexivity|].
  rewrite IH. apply perm_swap.
Qed.
Lemma isort_perm l : Permutation (isort l) l.
Proof. induction l as [|x t IH]; [reflexivity|]. cbn [isort]. rewrite zinsert_perm. now constructor. Qed.

Lemma zinsert_comm x y l : zinsert x (zinsert y l) = zinsert y (zinsert x l).
Proof.
  induction l as [|z t IH].
  - cbn [zinsert]. destruct (x <=? y) eqn:E1, (y <=? x) eqn:E2; try reflexivity; try lia.
    assert (x = y) by lia. now subst.
  - cbn [zinsert].
    destruct (y <=? z) eqn:Eyz; destruct (x <=? z) eqn:Exz; cbn [zinsert]; rewrite ?Eyz, ?Exz;
    destruct (x <=? y) eqn:Exy; destruct (y <=? x) eqn:Eyx; rewrite ?Eyz, ?Exz; try lia;
    try reflexivity; try (rewrite IH; reflexivity).
    all: try (assert (x = y) by lia; subst; reflexivity).
Qed.
Lemma isort_permutation l l' : Permutation l l' -> isort l = isort l'.
Proof.
  induction 1 as [|x l l' _ IH|x y l|l l' l'' _ IH1 _ IH2]; cbn [isort].
  - reflexivity.
  - now rewrite IH.
  - apply zinsert_comm.
  - now rewrite IH1.
Qed.
Lemma isort_increasing a : forall n s,
  isort (map (fun i => a + Z.of_nat i) (seq s n)) = map (fun i => a + Z.of_nat i) (seq s n).
Proof.
  induction n as [|n IH]; intros s; [reflexivity|]. cbn [seq map isort]. rewrite IH.
  destruct n as [|n]; [reflexivity|]. cbn [seq map zinsert].
  replace (a + Z.of_nat s <=? a + Z.of_nat (S s)) with true by lia. reflexivity.
Qed.
Lemma isort_zrange a b : isort (zrange a b) = zrange a b.
Proof. apply isort_increasing. Qed.

Lemma zlist_eqb_spec : forall l1 l2, zlist_eqb l1 l2 = true <-> l1 = l2.
Proof.
  induction l1 as [|x t IH]; intros [|y t2]; cbn [zlist_eqb].
  - split; reflexivity.
  - split; discriminate.
  - split; discriminate.
  - rewrite andb_true_iff, IH, Z.eqb_eq. split; [intros [-> ->]; reflexivity|intros E; inversion E; auto].
Qed.

(* ---------- validation ---------- *)

Definition pm1 (f : Z) : Prop := f = 1 \/ f = -1.

Theorem check_flips_given N l l' :
  check_flips N (ShGiven l) = Some l' <-> l' = l /\ len l = N /\ Forall pm1 l.
Proof.
  cbn [check_flips]. destruct (len l =? N) eqn:E; cbn [negb].
  - destruct (forallb (fun f => Z.abs f =? 1) l) eqn:E2.
    + split; [intros H; inversion H; subst|intros [-> _]; reflexivity].
      repeat split; [lia|]. apply Forall_forall. intros f Hf. rewrite forallb_forall in E2. specialize (E2 f Hf). unfold pm1. lia.
    + split; [discriminate|]. intros [_ [_ H]]. exfalso. rewrite Forall_forall in H.
      assert (forallb (fun f => Z.abs f =? 1) l = true); [|congruence].
      apply forallb_forall. intros f Hf. specialize (H f Hf). unfold pm1 in H. lia.
  - split; [discriminate|]. intros [_ [H _]]. lia.
Qed.
Theorem check_flips_fixed N : check_flips N ShFixed = Some (repeat 1 (Z.to_nat N)).
Proof. reflexivity. Qed.

Theorem check_permutation_given a n l l' : 0 <= n ->
  check_permutation a n (ShGiven l) = Some l' <-> l' = l /\ Permutation l (zrange a (a + n)).
Proof.
  intros Hn. cbn [check_permutation]. destruct (len l =? n) eqn:E; cbn [negb].
  - destruct (zlist_eqb (isort l) (zrange a (a + n))) eqn:E2.
    + apply zlist_eqb_spec in E2. split; [intros H; inversion H; subst|intros [-> _]; reflexivity].
      split; [reflexivity|]. rewrite <- E2. symmetry. apply isort_perm.
    + split; [discriminate|]. intros [_ H]. exfalso.
      assert (zlist_eqb (isort l) (zrange a (a + n)) = true); [|congruence].
      apply zlist_eqb_spec. rewrite (isort_permutation _ _ H). apply isort_zrange.
  - split; [discriminate|]. intros [_ H]. apply Permutation_length in H. rewrite sh_length_zrange in H.
    unfold len in E. lia.
Qed.
Theorem check_permutation_fixed a n : check_permutation a n ShFixed = Some (zrange a (a + n)).
Proof. reflexivity. Qed.

(* ---------- placement of the clauses ---------- *)

Lemma pinsert_perm {A} (p : Z * A) l : Permutation (pinsert p l) (p :: l).
Proof.
  induction l as [|q t IH]; [reflexivity|]. cbn [pinsert]. destruct (fst p <=? fst q); [reflexivity|].
  rewrite IH. apply perm_swap.
Qed.
Lemma psort_perm {A} (l : list (Z * A)) : Permutation (psort l) l.
Proof. induction l as [|p t IH]; [reflexivity|]. cbn [psort]. rewrite pinsert_perm. now constructor. Qed.

Lemma map_fst_pinsert {A} (p : Z * A) l : map fst (pinsert p l) = zinsert (fst p) (map fst l).
Proof.
  induction l as [|q t IH]; [reflexivity|]. cbn [pinsert map zinsert].
  destruct (fst p <=? fst q); cbn [map]; [reflexivity|]. now rewrite IH.
Qed.
Lemma map_fst_psort {A} (l : list (Z * A)) : map fst (psort l) = isort (map fst l).
Proof. induction l as [|p t IH]; [reflexivity|]. cbn [psort map isort]. now rewrite map_fst_pinsert, IH. Qed.

Lemma map_fst_combine {A B} : forall (l : list A) (l' : list B), length l = length l' -> map fst (combine l l') = l.
Proof.
  induction l as [|x t IH]; intros [|y t'] H; try reflexivity; try discriminate.
  cbn [combine map fst]. f_equal. apply IH. now inversion H.
Qed.
Lemma map_snd_combine {A B} : forall (l : list A) (l' : list B), length l = length l' -> map snd (combine l l') = l'.
Proof.
  induction l as [|x t IH]; intros [|y t'] H; try reflexivity; try discriminate.
  cbn [combine map snd]. f_equal. apply IH. now inversion H.
Qed.

Lemma place_perm {A} (cp : list Z) (F : list A) : length cp = length F -> Permutation (place cp F) F.
Proof.
  intros H. unfold place. rewrite (psort_perm (combine cp F)). now rewrite map_snd_combine.
Qed.

(* "the i-th clause of F is going to be at position cp[i]" *)
Theorem place_position {A} (cp : list Z) (F : list A) (d : A) (i : nat) :
  Permutation cp (zrange 0 (len F)) -> (i < length F)%nat ->
  nth (Z.to_nat (nth i cp 0)) (place cp F) d = nth i F d.
Proof.
  intros Hp Hi. assert (Hl : length cp = length F).
  { apply Permutation_length in Hp. rewrite sh_length_zrange in Hp. unfold len in Hp. lia. }
  set (L := psort (combine cp F)).
  assert (Hk : map fst L = zrange 0 (len F)).
  { unfold L. rewrite map_fst_psort, map_fst_combine by assumption.
    rewrite (isort_permutation _ _ Hp). apply isort_zrange. }
  assert (Hin : In (nth i cp 0, nth i F d) L).
  { apply (Permutation_in _ (Permutation_sym (psort_perm (combine cp F)))).
    rewrite <- (combine_nth cp F i 0 d Hl). apply nth_In. rewrite combine_length. lia. }
  destruct (In_nth _ _ (0, d) Hin) as [j [Hj Ej]].
  assert (HL : length L = length F).
  { unfold L. rewrite (Permutation_length (psort_perm _)), combine_length. lia. }
  assert (Ekey : nth i cp 0 = Z.of_nat j).
  { assert (E1 : nth j (map fst L) 0 = fst (nth j L (0, d))) by (apply (map_nth fst L (0, d) j)).
    rewrite Ej, Hk, sh_nth_zrange in E1 by (unfold len; lia). cbn [fst] in E1. lia. }
  unfold place. fold L. rewrite Ekey, Nat2Z.id.
  assert (E2 : nth j (map snd L) d = snd (nth j L (0, d))) by (apply (map_nth snd L (0, d) j)).
  rewrite E2, Ej. reflexivity.
Qed.

(* a clause permutation 'fixed' leaves the order alone *)
Lemma psort_increasing {A} a : forall n s (F : list A),
  psort (combine (map (fun i => a + Z.of_nat i) (seq s n)) F) = combine (map (fun i => a + Z.of_nat i) (seq s n)) F.
Proof.
  induction n as [|n IH]; intros s F; [reflexivity|]. cbn [seq map]. destruct F as [|c F]; [reflexivity|].
  cbn [combine psort]. rewrite IH. destruct n as [|n]; [reflexivity|]. cbn [seq map].
  destruct F as [|c' F]; [reflexivity|]. cbn [combine pinsert fst].
  replace (a + Z.of_nat s <=? a + Z.of_nat (S s)) with true by lia. reflexivity.
Qed.
Lemma place_identity {A} (F : list A) : place (zrange 0 (0 + len F)) F = F.
Proof.
  unfold place, zrange. rewrite psort_increasing. apply map_snd_combine.
  rewrite map_length, seq_length. unfold len. lia.
Qed.

(* ---------- the literal map ---------- *)

Definition inrange (N l : Z) : Prop := l <> 0 /\ Z.abs l <= N.

Lemma index_of_nth x : forall l, In x l -> (index_of x l < length l)%nat /\ nth (index_of x l) l 0 = x.
Proof.
  induction l as [|y t IH]; intros H; [destruct H|]. cbn [index_of]. destruct (Z.eqb_spec x y) as [->|Hne].
  - cbn. split; [lia|reflexivity].
  - destruct H as [H|H]; [congruence|]. destruct (IH H) as [H1 H2]. cbn [length nth]. split; [lia|assumption].
Qed.
Lemma index_of_NoDup : forall l i, NoDup l -> (i < length l)%nat -> index_of (nth i l 0) l = i.
Proof.
  induction l as [|y t IH]; intros i Hnd Hi; [cbn in Hi; lia|]. inversion Hnd as [|? ? Hnotin Hnd']; subst.
  destruct i as [|i]; cbn [nth index_of].
  - now rewrite Z.eqb_refl.
  - cbn [length] in Hi. destruct (Z.eqb_spec (nth i t 0) y) as [E|_].
    + exfalso. apply Hnotin. rewrite <- E. apply nth_In. lia.
    + f_equal. apply IH; [assumption|lia].
Qed.

Section Sigma.
  Context (N : Z) (flips perm : list Z).
  Context (HN : 0 <= N) (Hfl : len flips = N) (Hpm1 : Forall pm1 flips)
          (Hperm : Permutation perm (zrange 1 (1 + N))).
  Let sigma := subst_lit flips perm.
  Let sigma' := inv_lit flips perm.

  Lemma perm_length : length perm = Z.to_nat N.
  Proof. rewrite (Permutation_length Hperm), sh_length_zrange. f_equal. lia. Qed.
  Lemma perm_NoDup : NoDup perm.
  Proof. apply (Permutation_NoDup (Permutation_sym Hperm)). apply sh_NoDup_zrange. Qed.
  Lemma perm_in w : In w perm <-> 1 <= w <= N.
  Proof.
    split; intros H.
    - apply (Permutation_in _ Hperm) in H. apply sh_in_zrange in H. lia.
    - apply (Permutation_in _ (Permutation_sym Hperm)). apply sh_in_zrange. lia.
  Qed.
  Lemma flip_at i : (i < Z.to_nat N)%nat -> pm1 (nth i flips 0).
  Proof. intros H. rewrite Forall_forall in Hpm1. apply Hpm1, nth_In. unfold len in Hfl. lia. Qed.
  Lemma perm_at i : (i < Z.to_nat N)%nat -> 1 <= nth i perm 0 <= N.
  Proof. intros H. apply perm_in, nth_In. rewrite perm_length. exact H. Qed.

  Lemma sigma_odd l : l <> 0 -> sigma (- l) = - sigma l.
  Proof.
    intros Hl. unfold sigma, subst_lit. rewrite Z.abs_opp.
    destruct (l >? 0) eqn:E1, (- l >? 0) eqn:E2; lia.
  Qed.

  Lemma sigma_abs l : inrange N l ->
    exists i, i = Z.to_nat (Z.abs l - 1) /\ (i < Z.to_nat N)%nat /\
              sigma l = Z.sgn l * nth i flips 0 * nth i perm 0.
  Proof.
    intros [H1 H2]. exists (Z.to_nat (Z.abs l - 1)). split; [reflexivity|]. split; [lia|].
    unfold sigma, subst_lit. destruct (l >? 0) eqn:E.
    - replace (Z.sgn l) with 1 by lia. lia.
    - replace (Z.sgn l) with (-1) by lia. lia.
  Qed.

  Lemma sigma_range l : inrange N l -> inrange N (sigma l).
  Proof.
    intros H. destruct (sigma_abs l H) as [i [_ [Hi E]]]. destruct H as [H1 H2].
    pose proof (flip_at i Hi) as Hf. pose proof (perm_at i Hi) as Hp. unfold inrange. rewrite E.
    destruct Hf as [-> | ->]; assert (Z.sgn l = 1 \/ Z.sgn l = -1) as [-> | ->] by lia; lia.
  Qed.

  Lemma sigma_inv_left l : inrange N l -> sigma' (sigma l) = l.
  Proof.
    intros H. destruct (sigma_abs l H) as [i [Ei [Hi E]]]. destruct H as [H1 H2].
    pose proof (flip_at i Hi) as Hf. pose proof (perm_at i Hi) as Hp.
    assert (Eabs : Z.abs (sigma l) = nth i perm 0).
    { rewrite E. destruct Hf as [-> | ->]; assert (Z.sgn l = 1 \/ Z.sgn l = -1) as [-> | ->] by lia; lia. }
    unfold sigma', inv_lit. rewrite Eabs, index_of_NoDup by (try apply perm_NoDup; rewrite perm_length; exact Hi).
    replace (Z.of_nat i + 1) with (Z.abs l) by lia.
    destruct (sigma l >? 0) eqn:Es; rewrite E in Es;
      destruct Hf as [Ef|Ef]; rewrite Ef in *; assert (Z.sgn l = 1 \/ Z.sgn l = -1) as [Eg|Eg] by lia; rewrite Eg in *; lia.
  Qed.

  Lemma sigma'_abs l : inrange N l ->
    exists i, i = index_of (Z.abs l) perm /\ (i < Z.to_nat N)%nat /\ nth i perm 0 = Z.abs l /\
              sigma' l = Z.sgn l * nth i flips 0 * (Z.of_nat i + 1).
  Proof.
    intros [H1 H2]. exists (index_of (Z.abs l) perm).
    destruct (index_of_nth (Z.abs l) perm) as [Hi Hn]; [apply perm_in; lia|]. rewrite perm_length in Hi.
    split; [reflexivity|]. split; [assumption|]. split; [assumption|].
    unfold sigma', inv_lit. destruct (l >? 0) eqn:E.
    - replace (Z.sgn l) with 1 by lia. lia.
    - replace (Z.sgn l) with (-1) by lia. lia.
  Qed.

  Lemma sigma'_odd l : l <> 0 -> sigma' (- l) = - sigma' l.
  Proof.
    intros Hl. unfold sigma', inv_lit. rewrite Z.abs_opp.
    destruct (l >? 0) eqn:E1, (- l >? 0) eqn:E2; lia.
  Qed.

  Lemma sigma'_range l : inrange N l -> inrange N (sigma' l).
  Proof.
    intros H. destruct (sigma'_abs l H) as [i [_ [Hi [_ E]]]]. destruct H as [H1 H2].
    pose proof (flip_at i Hi) as Hf. unfold inrange. rewrite E.
    destruct Hf as [-> | ->]; assert (Z.sgn l = 1 \/ Z.sgn l = -1) as [-> | ->] by lia; lia.
  Qed.

  Lemma sigma_inv_right l : inrange N l -> sigma (sigma' l) = l.
  Proof.
    intros H. destruct (sigma'_abs l H) as [i [Ei [Hi [Hn E]]]]. destruct H as [H1 H2].
    pose proof (flip_at i Hi) as Hf.
    assert (Eabs : Z.abs (sigma' l) = Z.of_nat i + 1).
    { rewrite E. destruct Hf as [-> | ->]; assert (Z.sgn l = 1 \/ Z.sgn l = -1) as [-> | ->] by lia; lia. }
    unfold sigma, subst_lit. rewrite Eabs. replace (Z.to_nat (Z.of_nat i + 1 - 1)) with i by lia. rewrite Hn.
    destruct (sigma' l >? 0) eqn:Es; rewrite E in Es;
      destruct Hf as [Ef|Ef]; rewrite Ef in *; assert (Z.sgn l = 1 \/ Z.sgn l = -1) as [Eg|Eg] by lia; rewrite Eg in *; lia.
  Qed.
End Sigma.

(* ---------- semantics under a signed renaming ---------- *)

Definition signed_map (N : Z) (tau : Z -> Z) : Prop :=
  forall l, inrange N l -> inrange N (tau l) /\ tau (- l) = - tau l.

Lemma pull_lit a tau N l : signed_map N tau -> inrange N l -> lit_true (pull tau a) l = lit_true a (tau l).
Proof.
  intros Ht Hl. destruct (Ht l Hl) as [[Hnz _] Hodd]. destruct Hl as [H1 H2].
  assert (Hs : 0 < l \/ l < 0) by lia. destruct Hs as [Hs|Hs].
  - now rewrite lit_true_pos.
  - unfold lit_true at 1. replace (l >? 0) with false by lia. unfold pull.
    destruct (Ht (- l)) as [_ Hodd']; [unfold inrange; lia|]. rewrite Z.opp_involutive in Hodd'.
    rewrite Hodd, lit_true_opp, negb_involutive by assumption. reflexivity.
Qed.

Lemma sh_in_range N F c l : lits_in_range N F = true -> In c F -> In l c -> inrange N l.
Proof.
  unfold lits_in_range. intros H Hc Hl. rewrite forallb_forall in H. specialize (H c Hc).
  rewrite forallb_forall in H. specialize (H l Hl). apply andb_true_iff in H as [H1 H2].
  apply nonzero_spec in H1. unfold inrange. lia.
Qed.

Lemma pull_cnf a tau N F : signed_map N tau -> lits_in_range N F = true ->
  cnf_sat a (map (map tau) F) = cnf_sat (pull tau a) F.
Proof.
  intros Ht HF. unfold cnf_sat. rewrite forallb_map. apply forallb_ext_in. intros c Hc.
  unfold clause_sat. rewrite existsb_map.
  assert (E : forall l, In l c -> lit_true a (tau l) = lit_true (pull tau a) l).
  { intros l Hl. symmetry. apply (pull_lit a tau N); [assumption|]. now apply (sh_in_range N F c). }
  clear Hc. induction c as [|l c IH]; [reflexivity|]. cbn [existsb]. rewrite E by (now left). f_equal.
  apply IH. intros l' Hl'. apply E. now right.
Qed.

Lemma cnf_sat_permutation a F G : Permutation F G -> cnf_sat a F = cnf_sat a G.
Proof.
  unfold cnf_sat. induction 1 as [|c F G _ IH|c d F|F G H _ IH1 _ IH2]; cbn [forallb].
  - reflexivity.
  - now rewrite IH.
  - destruct (clause_sat a c), (clause_sat a d); reflexivity.
  - now rewrite IH1.
Qed.

Lemma pull_inverse a tau tau' N v :
  signed_map N tau -> signed_map N tau' -> (forall l, inrange N l -> tau (tau' l) = l) ->
  1 <= v <= N -> pull tau' (pull tau a) v = a v.
Proof.
  intros Ht Ht' Hinv Hv. unfold pull at 1.
  assert (Hr : inrange N v) by (unfold inrange; lia).
  destruct (Ht' v Hr) as [Hr' _]. rewrite (pull_lit a tau N) by assumption. rewrite Hinv by assumption.
  apply lit_true_pos. lia.
Qed.

(* ---------- what the validated arguments are ---------- *)

Lemma check_flips_some N fl flips : 0 <= N ->
  check_flips N fl = Some flips -> len flips = N /\ Forall pm1 flips.
Proof.
  intros HN. destruct fl as [|l].
  - cbn [check_flips]. intros H. inversion H. split.
    + unfold len. rewrite repeat_length. lia.
    + apply Forall_forall. intros f Hf. apply repeat_spec in Hf. now left.
  - intros H. apply check_flips_given in H as [-> [H1 H2]]. now split.
Qed.
Lemma check_permutation_some a n p l : 0 <= n ->
  check_permutation a n p = Some l -> Permutation l (zrange a (a + n)).
Proof.
  intros Hn. destruct p as [|l0].
  - cbn [check_permutation]. intros H. inversion H. reflexivity.
  - intros H. apply check_permutation_given in H as [-> H]; assumption.
Qed.

Lemma shuffle_inv N F fl pm cp n out : shuffle N F fl pm cp = ShOk n out ->
  exists flips perm cperm,
    check_flips N fl = Some flips /\ check_permutation 1 N pm = Some perm /\
    check_permutation 0 (len F) cp = Some cperm /\
    out = place cperm (map (map (subst_lit flips perm)) F) /\ n = Z.max N (max_var out).
Proof.
  unfold shuffle. destruct (check_flips N fl) as [flips|]; [|discriminate].
  destruct (check_permutation 1 N pm) as [perm|]; [|discriminate].
  destruct (check_permutation 0 (len F) cp) as [cperm|]; [|discriminate].
  intros H. inversion H. exists flips, perm, cperm. repeat split; reflexivity.
Qed.

Lemma sigma_signed N flips perm : 0 <= N -> len flips = N -> Forall pm1 flips ->
  Permutation perm (zrange 1 (1 + N)) ->
  signed_map N (subst_lit flips perm) /\ signed_map N (inv_lit flips perm) /\
  (forall l, inrange N l -> inv_lit flips perm (subst_lit flips perm l) = l) /\
  (forall l, inrange N l -> subst_lit flips perm (inv_lit flips perm l) = l).
Proof.
  intros HN Hf Hp Hperm. split; [|split; [|split]].
  - intros l Hl. split; [now apply (sigma_range N flips perm)|apply sigma_odd; now destruct Hl].
  - intros l Hl. split; [now apply (sigma'_range N flips perm)|apply sigma'_odd; now destruct Hl].
  - intros l Hl. now apply (sigma_inv_left N flips perm).
  - intros l Hl. now apply (sigma_inv_right N flips perm).
Qed.

Lemma sh_len_map {A B} (f : A -> B) l : len (map f l) = len l.
Proof. unfold len. now rewrite map_length. Qed.

(* ---------- the theorems of C09 ---------- *)

Theorem shuffle_is_signed_renaming N F fl pm cp n out : 0 <= N ->
  shuffle N F fl pm cp = ShOk n out ->
  exists flips perm cperm,
    check_flips N fl = Some flips /\ check_permutation 1 N pm = Some perm /\
    check_permutation 0 (len F) cp = Some cperm /\
    let sigma := subst_lit flips perm in
    let sigma' := inv_lit flips perm in
    (* one signed bijection of the variables ... *)
    signed_map N sigma /\ signed_map N sigma' /\
    (forall l, inrange N l -> sigma' (sigma l) = l) /\ (forall l, inrange N l -> sigma (sigma' l) = l) /\
    (* ... which is the one given: variable v goes to flips[v-1] * perm[v-1] ... *)
    (forall v, 1 <= v <= N -> sigma v = nth (Z.to_nat (v - 1)) flips 0 * nth (Z.to_nat (v - 1)) perm 0) /\
    (* ... and one permutation of the clause positions, the one given: clause i goes to position cperm[i] *)
    Permutation cperm (zrange 0 (len F)) /\
    Permutation out (map (map sigma) F) /\
    (forall i, (i < length F)%nat -> nth (Z.to_nat (nth i cperm 0)) out [] = map sigma (nth i F [])).
Proof.
  intros HN H. destruct (shuffle_inv _ _ _ _ _ _ _ H) as [flips [perm [cperm [H1 [H2 [H3 [Eout En]]]]]]].
  exists flips, perm, cperm.
  destruct (check_flips_some N fl flips HN H1) as [Hlen Hpm].
  pose proof (check_permutation_some 1 N pm perm HN H2) as Hperm.
  pose proof (check_permutation_some 0 (len F) cp cperm (len_nonneg F) H3) as Hcp.
  destruct (sigma_signed N flips perm HN Hlen Hpm Hperm) as [S1 [S2 [S3 S4]]].
  assert (B5 : forall v, 1 <= v <= N ->
             subst_lit flips perm v = nth (Z.to_nat (v - 1)) flips 0 * nth (Z.to_nat (v - 1)) perm 0).
  { intros v Hv. unfold subst_lit. replace (v >? 0) with true by lia. rewrite Z.abs_eq by lia. reflexivity. }
  assert (B7 : Permutation out (map (map (subst_lit flips perm)) F)).
  { rewrite Eout. apply place_perm. apply Permutation_length in Hcp. rewrite sh_length_zrange in Hcp.
    rewrite !map_length. unfold len in Hcp. lia. }
  assert (B8 : forall i, (i < length F)%nat ->
             nth (Z.to_nat (nth i cperm 0)) out [] = map (subst_lit flips perm) (nth i F [])).
  { intros i Hi. rewrite Eout.
    rewrite (place_position cperm (map (map (subst_lit flips perm)) F) [] i).
    - change (@nil Z) with (map (subst_lit flips perm) []) at 1. apply map_nth.
    - now rewrite sh_len_map.
    - now rewrite map_length. }
  cbv zeta. repeat (split; [assumption|]). assumption.
Qed.

Lemma sh_max_var_le M F : 0 <= M -> (forall c l, In c F -> In l c -> Z.abs l <= M) -> max_var F <= M.
Proof.
  intros HM. induction F as [|c F IH]; intros H; [cbn; lia|].
  cbn [max_var fold_right]. fold (max_var F).
  assert (max_var F <= M) by (apply IH; intros c' l Hc' Hl; apply (H c' l); [now right|assumption]).
  assert (max_var_clause c <= M).
  { assert (Hc : forall l, In l c -> Z.abs l <= M) by (intros l Hl; apply (H c l); [now left|assumption]).
    clear H. induction c as [|l c IHc]; [cbn; lia|]. cbn [max_var_clause fold_right]. fold (max_var_clause c).
    assert (Z.abs l <= M) by (apply Hc; now left). assert (max_var_clause c <= M) by (apply IHc; intros; apply Hc; now right). lia. }
  lia.
Qed.

(* same number of variables and clauses, same multiset of widths, literals in range *)
Theorem shuffle_counts N F fl pm cp n out : 0 <= N -> lits_in_range N F = true ->
  shuffle N F fl pm cp = ShOk n out ->
  n = N /\ length out = length F /\ Permutation (map (@length Z) F) (map (@length Z) out) /\
  lits_in_range N out = true.
Proof.
  intros HN HF H.
  destruct (shuffle_is_signed_renaming _ _ _ _ _ _ _ HN H) as [flips [perm [cperm [_ [_ [_ [S1 [_ [_ [_ [_ [_ [Hp _]]]]]]]]]]]]].
  destruct (shuffle_inv _ _ _ _ _ _ _ H) as [flips' [perm' [cperm' [_ [_ [_ [_ En]]]]]]].
  assert (Hr : forall c l, In c out -> In l c -> inrange N l).
  { intros c l Hc Hl. apply (Permutation_in _ Hp) in Hc. apply in_map_iff in Hc as [c0 [<- Hc0]].
    apply in_map_iff in Hl as [l0 [<- Hl0]]. apply S1. now apply (sh_in_range N F c0). }
  repeat split.
  - assert (max_var out <= N); [|lia]. apply sh_max_var_le; [assumption|]. intros c l Hc Hl. now destruct (Hr c l Hc Hl).
  - rewrite (Permutation_length Hp). now rewrite map_length.
  - apply Permutation_sym. rewrite (Permutation_map (@length Z) Hp). rewrite map_map.
    erewrite map_ext; [reflexivity|]. intros c. apply map_length.
  - unfold lits_in_range. apply forallb_forall. intros c Hc. apply forallb_forall. intros l Hl.
    destruct (Hr c l Hc Hl) as [H1 H2]. apply andb_true_iff. split; [now apply nonzero_spec|lia].
Qed.

(* an assignment satisfies the shuffled formula iff the assignment it induces
   (a o sigma) satisfies the input, and a |-> a o sigma is invertible *)
Theorem shuffle_models N F fl pm cp n out : 0 <= N -> lits_in_range N F = true ->
  shuffle N F fl pm cp = ShOk n out ->
  exists sigma sigma',
    (forall a, cnf_sat a out = cnf_sat (pull sigma a) F) /\
    (forall a v, 1 <= v <= N -> pull sigma' (pull sigma a) v = a v) /\
    (forall a v, 1 <= v <= N -> pull sigma (pull sigma' a) v = a v).
Proof.
  intros HN HF H.
  destruct (shuffle_is_signed_renaming _ _ _ _ _ _ _ HN H) as [flips [perm [cperm [_ [_ [_ [S1 [S2 [S3 [S4 [_ [_ [Hp _]]]]]]]]]]]]].
  exists (subst_lit flips perm), (inv_lit flips perm). repeat split.
  - intros a. rewrite (cnf_sat_permutation a _ _ Hp). now apply (pull_cnf a _ N).
  - intros a v Hv. now apply (pull_inverse a _ _ N).
  - intros a v Hv. now apply (pull_inverse a _ _ N).
Qed.

(* switched-off arguments are the identity arguments; all three off = identity *)
Theorem fixed_is_identity_argument N F fl pm cp : 0 <= N ->
  shuffle N F ShFixed pm cp = shuffle N F (ShGiven (repeat 1 (Z.to_nat N))) pm cp /\
  shuffle N F fl ShFixed cp = shuffle N F fl (ShGiven (zrange 1 (1 + N))) cp /\
  shuffle N F fl pm ShFixed = shuffle N F fl pm (ShGiven (zrange 0 (0 + len F))).
Proof.
  intros HN.
  assert (E1 : check_flips N (ShGiven (repeat 1 (Z.to_nat N))) = check_flips N ShFixed).
  { rewrite check_flips_fixed. apply check_flips_given. split; [reflexivity|]. split.
    - unfold len. rewrite repeat_length. lia.
    - apply Forall_forall. intros f Hf. apply repeat_spec in Hf. now left. }
  assert (E2 : forall a n, 0 <= n -> check_permutation a n (ShGiven (zrange a (a + n))) = check_permutation a n ShFixed).
  { intros a n Hn. rewrite check_permutation_fixed. apply check_permutation_given; [assumption|]. split; reflexivity. }
  unfold shuffle. rewrite E1, (E2 1 N HN), (E2 0 (len F) (len_nonneg F)). repeat split.
Qed.

Theorem all_fixed_is_identity N F : 0 <= N -> lits_in_range N F = true ->
  shuffle N F ShFixed ShFixed ShFixed = ShOk N F.
Proof.
  intros HN HF. unfold shuffle. rewrite check_flips_fixed, !check_permutation_fixed.
  assert (E : map (map (subst_lit (repeat 1 (Z.to_nat N)) (zrange 1 (1 + N)))) F = F).
  { rewrite <- (map_id F) at 2. apply map_ext_in. intros c Hc. rewrite <- (map_id c) at 2. apply map_ext_in. intros l Hl.
    destruct (sh_in_range N F c l HF Hc Hl) as [H1 H2]. unfold subst_lit.
    assert (Hi : (Z.to_nat (Z.abs l - 1) < Z.to_nat N)%nat) by lia.
    rewrite (nth_indep _ 0 1) by (rewrite repeat_length; exact Hi). rewrite nth_repeat.
    rewrite sh_nth_zrange by lia. destruct (l >? 0) eqn:E; lia. }
  rewrite E, place_identity. f_equal.
  assert (max_var F <= N); [|lia]. apply sh_max_var_le; [assumption|]. intros c l Hc Hl.
  now destruct (sh_in_range N F c l HF Hc Hl).
Qed.

(* which arguments are rejected, and with which error *)
Definition flips_valid (N : Z) (fl : sharg) : Prop :=
  match fl with ShFixed => True | ShGiven l => len l = N /\ Forall pm1 l end.
Definition perm_valid (a n : Z) (p : sharg) : Prop :=
  match p with ShFixed => True | ShGiven l => Permutation l (zrange a (a + n)) end.

Lemma check_flips_valid N fl : (exists l, check_flips N fl = Some l) <-> flips_valid N fl.
Proof.
  destruct fl as [|l]; cbn [flips_valid].
  - split; [trivial|]. intros _. eexists. reflexivity.
  - split.
    + intros [l' H]. apply check_flips_given in H. tauto.
    + intros H. exists l. apply check_flips_given. tauto.
Qed.
Lemma check_permutation_valid a n p : 0 <= n -> (exists l, check_permutation a n p = Some l) <-> perm_valid a n p.
Proof.
  intros Hn. destruct p as [|l]; cbn [perm_valid].
  - split; [trivial|]. intros _. eexists. reflexivity.
  - split.
    + intros [l' H]. apply check_permutation_given in H; tauto.
    + intros H. exists l. apply check_permutation_given; tauto.
Qed.

Theorem shuffle_validation N F fl pm cp : 0 <= N ->
  ((exists n out, shuffle N F fl pm cp = ShOk n out) <->
     flips_valid N fl /\ perm_valid 1 N pm /\ perm_valid 0 (len F) cp) /\
  (shuffle N F fl pm cp = ShErrFlips <-> ~ flips_valid N fl) /\
  (shuffle N F fl pm cp = ShErrVars <-> flips_valid N fl /\ ~ perm_valid 1 N pm) /\
  (shuffle N F fl pm cp = ShErrClauses <-> flips_valid N fl /\ perm_valid 1 N pm /\ ~ perm_valid 0 (len F) cp).
Proof.
  intros HN. rewrite <- (check_flips_valid N fl), <- (check_permutation_valid 1 N pm HN),
    <- (check_permutation_valid 0 (len F) cp (len_nonneg F)).
  unfold shuffle.
  destruct (check_flips N fl) as [flips|]; [destruct (check_permutation 1 N pm) as [perm|];
    [destruct (check_permutation 0 (len F) cp) as [cperm|]|]|].
  all: repeat split; intros;
    repeat match goal with
           | H : _ /\ _ |- _ => destruct H
           | H : exists _, _ |- _ => destruct H
           end; try discriminate; try (do 2 eexists; reflexivity); try (eexists; reflexivity);
    try (match goal with H : ~ _ |- _ => exfalso; apply H; eexists; reflexivity end);
    try (intros [? ?]; discriminate).
Qed.

(* ---------- the number of satisfying assignments ---------- *)

Lemma in_all_vectors : forall n vec, In vec (all_vectors n) <-> length vec = n.
Proof.
  induction n as [|n IH]; intros vec; cbn [all_vectors].
  - split; [intros [<-|[]]; reflexivity|]. destruct vec; [now left|discriminate].
  - rewrite in_app_iff, !in_map_iff. split.
    + intros [[t [<- Ht]]|[t [<- Ht]]]; cbn [length]; f_equal; now apply IH.
    + destruct vec as [|b t]; [discriminate|]. cbn [length]. intros H. injection H as H. apply IH in H.
      destruct b; [right|left]; exists t; split; auto.
Qed.

Lemma NoDup_map_cons {A} (b : A) l : NoDup l -> NoDup (map (cons b) l).
Proof.
  induction 1 as [|x l Hx _ IH]; cbn [map]; constructor; [|assumption].
  rewrite in_map_iff. intros [y [E Hy]]. injection E as ->. contradiction.
Qed.
Lemma sh_NoDup_app {A} : forall (l l' : list A), NoDup l -> NoDup l' ->
  (forall x, In x l -> In x l' -> False) -> NoDup (l ++ l').
Proof.
  induction l as [|x l IH]; intros l' H1 H2 Hd; [assumption|]. inversion H1 as [|? ? Hx H1']; subst.
  cbn [app]. constructor.
  - rewrite in_app_iff. intros [H|H]; [contradiction|]. apply (Hd x); [now left|assumption].
  - apply IH; [assumption|assumption|]. intros y Hy. apply Hd. now right.
Qed.
Lemma NoDup_all_vectors : forall n, NoDup (all_vectors n).
Proof.
  induction n as [|n IH]; cbn [all_vectors]; [constructor; [intros []|constructor]|].
  apply sh_NoDup_app.
  - now apply NoDup_map_cons.
  - now apply NoDup_map_cons.
  - intros x H1 H2. apply in_map_iff in H1 as [t1 [<- _]]. apply in_map_iff in H2 as [t2 [E _]]. discriminate.
Qed.

Lemma NoDup_map_inj_on {A B} (f : A -> B) : forall l,
  (forall x y, In x l -> In y l -> f x = f y -> x = y) -> NoDup l -> NoDup (map f l).
Proof.
  induction l as [|x l IH]; intros Hinj Hnd; [constructor|]. inversion Hnd as [|? ? Hx Hnd']; subst.
  cbn [map]. constructor.
  - rewrite in_map_iff. intros [y [E Hy]]. apply Hx. rewrite (Hinj x y); [assumption|now left|now right|now symmetry].
  - apply IH; [|assumption]. intros a b Ha Hb. apply Hinj; now right.
Qed.

Lemma filter_length_perm {A} (p : A -> bool) l l' : Permutation l l' -> length (filter p l) = length (filter p l').
Proof.
  induction 1 as [|x l l' _ IH|x y l|l l' l'' _ IH1 _ IH2]; cbn [filter].
  - reflexivity.
  - destruct (p x); cbn [length]; now rewrite IH.
  - destruct (p x), (p y); reflexivity.
  - now rewrite IH1.
Qed.
Lemma filter_map_length {A B} (p : B -> bool) (f : A -> B) l :
  length (filter (fun x => p (f x)) l) = length (filter p (map f l)).
Proof. induction l as [|x l IH]; [reflexivity|]. cbn [filter map]. destruct (p (f x)); cbn [length]; now rewrite IH. Qed.

(* vectors <-> assignments of the variables 1..n *)
Definition vec_of (n : nat) (a : Z -> bool) : list bool := map (fun i => a (Z.of_nat i + 1)) (seq 0 n).

Lemma vec_of_length n a : length (vec_of n a) = n.
Proof. unfold vec_of. now rewrite map_length, seq_length. Qed.
Lemma sh_nth_map_seq_bool (f : nat -> bool) : forall n s i, (i < n)%nat -> nth i (map f (seq s n)) false = f (s + i)%nat.
Proof.
  induction n as [|n IH]; intros s i H; [lia|]. cbn [seq map]. destruct i as [|i].
  - cbn [nth]. f_equal. lia.
  - cbn [nth]. rewrite IH by lia. f_equal. lia.
Qed.
Lemma assign_of_vec_of n a v : 1 <= v <= Z.of_nat n -> assign_of (vec_of n a) v = a v.
Proof.
  intros Hv. unfold assign_of, vec_of. rewrite sh_nth_map_seq_bool by lia. f_equal. lia.
Qed.
Lemma vec_of_ext n a b : (forall v, 1 <= v <= Z.of_nat n -> a v = b v) -> vec_of n a = vec_of n b.
Proof. intros H. unfold vec_of. apply map_ext_in. intros i Hi. apply in_seq in Hi. apply H. lia. Qed.
Lemma vec_of_assign_of n vec : length vec = n -> vec_of n (assign_of vec) = vec.
Proof.
  intros H. apply (nth_ext _ _ false false); [now rewrite vec_of_length|].
  intros i Hi. rewrite vec_of_length in Hi. unfold vec_of. rewrite sh_nth_map_seq_bool by assumption.
  unfold assign_of. f_equal. lia.
Qed.

Lemma cnf_sat_ext_range N F a b : lits_in_range N F = true ->
  (forall v, 1 <= v <= N -> a v = b v) -> cnf_sat a F = cnf_sat b F.
Proof.
  intros HF H. unfold cnf_sat. apply forallb_ext_in. intros c Hc. unfold clause_sat.
  assert (E : forall l, In l c -> lit_true a l = lit_true b l).
  { intros l Hl. destruct (sh_in_range N F c l HF Hc Hl) as [H1 H2]. apply lit_true_ext, H. lia. }
  clear Hc. induction c as [|l c IH]; [reflexivity|]. cbn [existsb]. rewrite E by (now left). f_equal.
  apply IH. intros l' Hl'. apply E. now right.
Qed.

Lemma pull_ext tau N a b v : signed_map N tau -> (forall u, 1 <= u <= N -> a u = b u) -> 1 <= v <= N ->
  pull tau a v = pull tau b v.
Proof.
  intros Ht H Hv. unfold pull. destruct (Ht v) as [[H1 H2] _]; [unfold inrange; lia|].
  apply lit_true_ext, H. lia.
Qed.

Theorem model_count_preserved N F fl pm cp n out : 0 <= N -> lits_in_range N F = true ->
  shuffle N F fl pm cp = ShOk n out -> count_models n out = count_models N F.
Proof.
  intros HN HF H.
  destruct (shuffle_counts _ _ _ _ _ _ _ HN HF H) as [-> _].
  destruct (shuffle_is_signed_renaming _ _ _ _ _ _ _ HN H) as [flips [perm [cperm [_ [_ [_ [S1 [S2 [S3 [S4 [_ [_ [Hp _]]]]]]]]]]]]].
  set (sigma := subst_lit flips perm) in *. set (sigma' := inv_lit flips perm) in *.
  set (m := Z.to_nat N). assert (Em : Z.of_nat m = N) by lia.
  set (phi := fun vec => vec_of m (pull sigma (assign_of vec))).
  set (psi := fun vec => vec_of m (pull sigma' (assign_of vec))).
  assert (Hpsiphi : forall vec, length vec = m -> psi (phi vec) = vec).
  { intros vec Hl. unfold psi, phi. rewrite <- (vec_of_assign_of m vec Hl) at 2. apply vec_of_ext. intros v Hv.
    rewrite (pull_ext sigma' N _ (pull sigma (assign_of vec)) v S2); [|intros u Hu; apply assign_of_vec_of; lia|lia].
    apply (pull_inverse _ sigma sigma' N); [assumption|assumption|assumption|lia]. }
  unfold count_models. fold m.
  rewrite (filter_ext_in (fun vec => cnf_sat (assign_of vec) out) (fun vec => cnf_sat (assign_of (phi vec)) F)).
  2:{ intros vec Hvec. rewrite (cnf_sat_permutation _ _ _ Hp), (pull_cnf _ sigma N) by assumption.
      apply (cnf_sat_ext_range N); [assumption|]. intros v Hv. unfold phi. symmetry. apply assign_of_vec_of. lia. }
  rewrite (filter_map_length (fun vec => cnf_sat (assign_of vec) F) phi).
  apply filter_length_perm. apply NoDup_Permutation_bis.
  - apply NoDup_map_inj_on; [|apply NoDup_all_vectors]. intros x y Hx Hy E.
    apply in_all_vectors in Hx, Hy. rewrite <- (Hpsiphi x Hx), <- (Hpsiphi y Hy). now rewrite E.
  - rewrite map_length. lia.
  - intros x Hx. apply in_map_iff in Hx as [vec [<- _]]. apply in_all_vectors. unfold phi. apply vec_of_length.
Qed.
