(* Vars.v — model of cnfgen/formula/variables.py (the variable group classes
   SingletonVariableGroup, BlockOfVariables, WordOfIndicesVariables,
   BipartiteEdgesVariables, DiGraphEdgesVariables, GraphEdgesVariables,
   UnaryMappingVariables, BinaryMappingVariables; VariablesManager._add_variable_group,
   new_*, all_variable_labels), of the variable counter of
   cnfgen/formula/basecnf.py and baseopb.py (add_clause, _check_and_update,
   update_variable_number) and of the edge enumerations of cnfgen/graphs.py
   (BipartiteEdgeList / GraphEdgeList / DirectedEdgeList order, right_neighbors,
   left_neighbors, parts, CompleteBipartiteGraph).  Definitions only.

   What is abstracted:
   * a graph argument is given by its sorted neighbour lists (bipartite: right
     neighbours of the left vertices 1..L and R; directed: successor lists;
     simple: full neighbour lists); the dictionaries/sets of the graph objects
     are functions of these (property C16).  Well-formedness (strictly increasing
     lists, in range) is a hypothesis of the theorems, not of the model.
   * `bisect_right` is the insertion point computed by a linear scan (equal to
     the binary search of CPython on a sorted list); the `assert` in
     BipartiteEdgesVariables.to_index is not modelled.
   * a label format is the list of its literal pieces between consecutive `{}`
     placeholders (str.format with automatic numbering; `{{`/`}}` escapes are
     resolved by the harness); a format with more placeholders than arguments is
     an IndexError in Python = None here.  BinaryMappingVariables does not check
     its format at creation: formats with more than two placeholders are outside
     the modelled domain for that group.
   * `int(ceil(log(m,2)))` is computed in floating point by the code; the model
     uses the exact ceiling Z.log2_up (measured to agree for every m < 2^29).
   * the index of a variable is a list of integers (Python tuples / lists).
   * `forbid(i,j)` with negative j (Python negative indexing) is not modelled. *)
(* Names: everything the driver glue refers to carries a prefix so that it survives
   extraction into the single shared model.ml without renaming:
     group interface  gsize, vg_indices, pattern_indices, vg_to_id, vg_to_index, vg_labels, vg_create
     shapes           GSingle | GBlock | GWords | BipEdges | DiEdges | GraphEdges | UMap | BinMap
     history machine  vm_step, vm_run, vm_trace, vm_init; ops OpNewGroup | OpAddClause | OpRaiseNumvar;
                      outcomes VmDone | VmAllocated | VmValueError | VmCrash; state st_numvar, st_groups, st_clauses
     names            all_variable_labels, vg_label_of *)
From Coq Require Import ZArith List Bool Ascii String DecimalString.
From Cnfgen Require Import Sem Comb.
Import ListNotations.
Open Scope Z_scope.

Notation idx := (list Z) (only parsing).

(* ---------- small helpers ---------- *)
Definition znth {A} (i : Z) (l : list A) : option A :=
  if i <? 0 then None else nth_error l (Z.to_nat i).

Fixpoint index_of (x : Z) (l : list Z) : option Z :=      (* list.index *)
  match l with
  | [] => None
  | y :: t => if x =? y then Some 0 else option_map Z.succ (index_of x t)
  end.

Fixpoint list_eqb (a b : list Z) : bool :=
  match a, b with
  | [], [] => true
  | x :: a', y :: b' => (x =? y) && list_eqb a' b'
  | _, _ => false
  end.

Fixpoint pos_of (x : list Z) (l : list (list Z)) : option Z :=
  match l with
  | [] => None
  | y :: t => if list_eqb x y then Some 0 else option_map Z.succ (pos_of x t)
  end.

Definition sumZ (l : list Z) : Z := fold_right Z.add 0 l.
Definition in_list (x : Z) (l : list Z) : bool := existsb (Z.eqb x) l.

(* bisect.bisect_right on a sorted list *)
Fixpoint bisect_right (x : Z) (l : list Z) : Z :=
  match l with
  | [] => 0
  | y :: t => if x <? y then 0 else 1 + bisect_right x t
  end.

(* itertools.combinations_with_replacement *)
Fixpoint combs_rep {A} (l : list A) (k : nat) : list (list A) :=
  match k with
  | O => [[]]
  | S k' => (fix go (l : list A) : list (list A) :=
               match l with
               | [] => []
               | x :: t => map (cons x) (combs_rep (x :: t) k') ++ go t
               end) l
  end.

(* ---------- group descriptors ---------- *)
Inductive wkind := WComb | WCombRepl | WPerm | WWord.

Inductive shape :=
| GSingle                                          (* new_variable *)
| GBlock (ranges : list Z)                         (* new_block *)
| GWords (kind : wkind) (n k : Z)                  (* new_combinations / _with_replacement / new_permutations / new_words *)
| BipEdges (adj : list (list Z)) (R : Z)          (* new_bipartite_edges, new_sparse_mapping *)
| DiEdges (succ : list (list Z)) (bysucc : bool)  (* new_digraph_edges, sortby = 'pred' (false) | 'succ' (true) *)
| GraphEdges (adj : list (list Z))                (* new_graph_edges *)
| UMap (n m : Z)                                  (* new_mapping: complete bipartite graph *)
| BinMap (n m : Z).                               (* new_binary_mapping *)

(* label format = literal pieces; for Single the first piece is the name *)
Record group := mkgroup { g_shape : shape; g_fmt : list string }.

(* ---------- bipartite core ---------- *)
Fixpoint bip_edges_from (u : Z) (adj : list (list Z)) : list idx :=
  match adj with
  | [] => []
  | vs :: t => map (fun v => [u; v]) vs ++ bip_edges_from (u + 1) t
  end.
Definition bip_edges (adj : list (list Z)) : list idx := bip_edges_from 1 adj.

(* the table `offset` of BipartiteEdgesVariables without its leading None:
   entry u-1 is the identifier of the first edge of left vertex u *)
Fixpoint bip_offsets (start : Z) (adj : list (list Z)) : list Z :=
  match adj with
  | [] => []
  | vs :: t => start :: bip_offsets (start + len vs) t
  end.

Definition bip_size (adj : list (list Z)) : Z := sumZ (map len adj).

Fixpoint left_nbrs_from (u : Z) (adj : list (list Z)) (v : Z) : list Z :=
  match adj with
  | [] => []
  | vs :: t => (if in_list v vs then [u] else []) ++ left_nbrs_from (u + 1) t v
  end.
Definition left_nbrs (adj : list (list Z)) (v : Z) : list Z := left_nbrs_from 1 adj v.

Definition right_nbrs (adj : list (list Z)) (u : Z) : option (list Z) := znth (u - 1) adj.

Definition bip_to_id (off : Z) (adj : list (list Z)) (u v : Z) : option Z :=
  match znth (u - 1) adj, znth (u - 1) (bip_offsets (off + 1) adj) with
  | Some vs, Some o => match index_of v vs with
                       | Some p => Some (o + p)
                       | None => None
                       end
  | _, _ => None
  end.

Definition bip_to_index (off : Z) (adj : list (list Z)) (var : Z) : option idx :=
  let offs := bip_offsets (off + 1) adj in
  let u := bisect_right var offs in
  match znth (u - 1) offs, znth (u - 1) adj with
  | Some o, Some vs => match znth (var - o) vs with
                       | Some v => Some [u; v]
                       | None => None
                       end
  | _, _ => None
  end.

Definition bip_pattern (adj : list (list Z)) (R : Z) (pu pv : option Z) : option (list idx) :=
  match pu, pv with
  | None, None => Some (bip_edges adj)
  | Some u, None => match right_nbrs adj u with
                    | Some vs => Some (map (fun v => [u; v]) vs)
                    | None => None
                    end
  | None, Some v => if (1 <=? v) && (v <=? R) then Some (map (fun u => [u; v]) (left_nbrs adj v)) else None
  | Some u, Some v => match right_nbrs adj u with
                      | Some vs => if in_list v vs then Some [[u; v]] else None
                      | None => None
                      end
  end.

(* graphs reduced to their bipartite core *)
Definition complete_adj (n m : Z) : list (list Z) := repeat (zrange 1 (m + 1)) (Z.to_nat n).
Definition transpose (adj : list (list Z)) (n : Z) : list (list Z) :=
  map (left_nbrs adj) (zrange 1 (n + 1)).
Fixpoint upper_from (u : Z) (adj : list (list Z)) : list (list Z) :=
  match adj with
  | [] => []
  | vs :: t => filter (fun v => u <? v) vs :: upper_from (u + 1) t
  end.
Definition upper (adj : list (list Z)) : list (list Z) := upper_from 1 adj.

Definition shape_bip (s : shape) : option (list (list Z) * Z) :=
  match s with
  | BipEdges adj R => Some (adj, R)
  | UMap n m => Some (complete_adj n m, m)
  | DiEdges succ false => Some (succ, len succ)
  | DiEdges succ true => Some (transpose succ (len succ), len succ)
  | GraphEdges adj => Some (upper adj, len adj)
  | _ => None
  end.

Definition swap2 (i : idx) : idx := match i with [a; b] => [b; a] | _ => i end.
Definition sort2 (i : idx) : idx := match i with [a; b] => [Z.min a b; Z.max a b] | _ => i end.
(* index of the group -> edge of the core, and back *)
Definition to_core (s : shape) (i : idx) : idx :=
  match s with DiEdges _ true => swap2 i | GraphEdges _ => sort2 i | _ => i end.
Definition of_core (s : shape) (i : idx) : idx :=
  match s with DiEdges _ true => swap2 i | _ => i end.

(* ---------- blocks ---------- *)
(* weights and number of variables as BlockOfVariables.__init__ computes them *)
Fixpoint block_weights (ranges : list Z) : list Z * Z :=
  match ranges with
  | [] => ([], 1)
  | r :: t => let '(ws, n) := block_weights t in (n :: ws, n * r)
  end.

Fixpoint block_relative (i : idx) (ws : list Z) : Z :=        (* sum((i-1)*w for i,w in zip(index,weights)) *)
  match i, ws with
  | x :: i', w :: ws' => (x - 1) * w + block_relative i' ws'
  | _, _ => 0
  end.

Fixpoint block_digits (residue : Z) (ws : list Z) : idx :=
  match ws with
  | [] => []
  | w :: t => (residue / w + 1) :: block_digits (residue mod w) t
  end.

Fixpoint block_pattern (pat : list (option Z)) (ranges : list Z) : option (list (list Z)) :=
  match pat, ranges with
  | [], [] => Some []
  | p :: pat', r :: ranges' =>
      match block_pattern pat' ranges' with
      | None => None
      | Some rest =>
          match p with
          | None => Some (zrange 1 (r + 1) :: rest)
          | Some i => if (1 <=? i) && (i <=? r) then Some ([i] :: rest) else None
          end
      end
  | _, _ => None
  end.

(* ---------- words ---------- *)
Definition words_enum (kind : wkind) (n k : Z) : list idx :=
  let base := zrange 1 (n + 1) in
  let kk := Z.to_nat k in
  match kind with
  | WComb => combs base kk
  | WCombRepl => combs_rep base kk
  | WPerm => perms base kk
  | WWord => prod_rep base kk
  end.

(* ---------- binary mappings ---------- *)
Definition bitlength (m : Z) : Z := Z.log2_up m.
Definition down_range (k : Z) : list Z := map (fun b => k - 1 - b) (zrange 0 k).   (* range(k-1,-1,-1) *)

(* ---------- the group interface ---------- *)
Definition gsize (s : shape) : Z :=
  match s with
  | GSingle => 1
  | GBlock ranges => snd (block_weights ranges)
  | GWords kind n k => len (words_enum kind n k)
  | BinMap n m => n * bitlength m
  | _ => match shape_bip s with Some (adj, _) => bip_size adj | None => 0 end
  end.

(* indices(): all legal indices, in the order the code enumerates them *)
Definition vg_indices (s : shape) : list idx :=
  match s with
  | GSingle => [[]]
  | GBlock ranges => prod (map (fun r => zrange 1 (r + 1)) ranges)
  | GWords kind n k => words_enum kind n k
  | BinMap n m => flat_map (fun i => map (fun b => [i; b]) (down_range (bitlength m))) (zrange 1 (n + 1))
  | _ => match shape_bip s with Some (adj, _) => map (of_core s) (bip_edges adj) | None => [] end
  end.

Definition all_some (pat : list (option Z)) : option (list Z) :=
  fold_right (fun p acc => match p, acc with Some x, Some l => Some (x :: l) | _, _ => None end) (Some []) pat.

(* indices( *pattern ): None = the code raises ValueError *)
Definition pattern_indices (s : shape) (pat : list (option Z)) : option (list idx) :=
  match s with
  | GSingle => match pat with [] => Some [[]] | _ => None end
  | GBlock ranges =>
      match pat with
      | [] => Some (vg_indices s)
      | _ => match block_pattern pat ranges with Some x => Some (prod x) | None => None end
      end
  | GWords kind n k =>
      match pat with
      | [] => Some (words_enum kind n k)
      | _ => match all_some pat with
             | Some i => match pos_of i (words_enum kind n k) with Some _ => Some [i] | None => None end
             | None => None
             end
      end
  | BinMap n m =>
      match pat with
      | [] => Some (vg_indices s)
      | [pi; pb] =>
          let kb := bitlength m in
          match (match pi with None => Some (zrange 1 (n + 1))
                             | Some i => if (1 <=? i) && (i <=? n) then Some [i] else None end),
                (match pb with None => Some (down_range kb)
                             | Some b => if (0 <=? b) && (b <? kb) then Some [b] else None end) with
          | Some li, Some lb => Some (flat_map (fun i => map (fun b => [i; b]) lb) li)
          | _, _ => None
          end
      | _ => None
      end
  | GraphEdges _ =>
      match shape_bip s with
      | Some (adj, R) =>
          match pat with
          | [] | [None; None] => Some (bip_edges adj)
          | [Some u; Some v] => bip_pattern adj R (Some (Z.min u v)) (Some (Z.max u v))
          | [Some w; None] | [None; Some w] =>
              match bip_pattern adj R None (Some w), bip_pattern adj R (Some w) None with
              | Some l1, Some l2 => Some (l1 ++ l2)
              | _, _ => None
              end
          | _ => None
          end
      | None => None
      end
  | _ =>
      match shape_bip s with
      | Some (adj, R) =>
          match pat with
          | [] => Some (map (of_core s) (bip_edges adj))
          | [pu; pv] =>
              let '(qu, qv) := match s with DiEdges _ true => (pv, pu) | _ => (pu, pv) end in
              option_map (map (of_core s)) (bip_pattern adj R qu qv)
          | _ => None
          end
      | None => None
      end
  end.

(* group( *index ) for a full index: None = ValueError *)
Definition vg_to_id (off : Z) (s : shape) (i : idx) : option Z :=
  match s with
  | GSingle => match i with [] => Some (off + 1) | _ => None end
  | GBlock ranges =>
      if (Nat.eqb (List.length i) (List.length ranges)) && negb (Nat.eqb (List.length i) 0)
         && forallb (fun xr => (1 <=? fst xr) && (fst xr <=? snd xr)) (combine i ranges)
      then Some (off + 1 + block_relative i (fst (block_weights ranges))) else None
  | GWords kind n k => option_map (fun p => off + 1 + p) (pos_of i (words_enum kind n k))
  | BinMap n m =>
      match i with
      | [x; b] => if (1 <=? x) && (x <=? n) && (0 <=? b) && (b <? bitlength m)
                  then Some (x * bitlength m - b + off) else None
      | _ => None
      end
  | _ => match shape_bip s, to_core s i with
         | Some (adj, _), [u; v] => bip_to_id off adj u v
         | _, _ => None
         end
  end.

(* group.to_index(lit): None = ValueError *)
Definition vg_to_index (off : Z) (s : shape) (lit : Z) : option idx :=
  let var := Z.abs lit in
  if (off + 1 <=? var) && (var <=? off + gsize s) then
    match s with
    | GSingle => Some []
    | GBlock ranges => Some (block_digits (var - (off + 1)) (fst (block_weights ranges)))
    | GWords kind n k => znth (var - off - 1) (words_enum kind n k)
    | BinMap n m =>
        let kb := bitlength m in
        let v := var - off in
        Some [(v - 1) / kb + 1; kb - 1 - (v - 1) mod kb]
    | _ => match shape_bip s with
           | Some (adj, _) => option_map (of_core s) (bip_to_index off adj var)
           | None => None
           end
    end
  else None.

(* ---------- labels ---------- *)
Definition vg_print_Z (z : Z) : string := NilZero.string_of_int (Z.to_int z).

(* str.format with automatic numbering: pieces p0 {} p1 {} ... pn; extra arguments ignored *)
Fixpoint render (pieces : list string) (args : list string) : option string :=
  match pieces with
  | [] => Some EmptyString
  | [p] => Some p
  | p :: rest => match args with
                 | [] => None
                 | a :: args' => match render rest args' with
                                 | Some s => Some (p ++ a ++ s)%string
                                 | None => None
                                 end
                 end
  end.
Definition render_or_empty (pieces : list string) (args : list string) : string :=
  match render pieces args with Some s => s | None => EmptyString end.

Definition label_of_index (g : group) (i : idx) : string :=
  match g_shape g with
  | GSingle => match g_fmt g with p :: _ => p | [] => EmptyString end
  | GWords _ _ _ => render_or_empty (g_fmt g) [String.concat "," (map vg_print_Z i)]
  | _ => render_or_empty (g_fmt g) (map vg_print_Z i)
  end.

(* group.label() : labels of all the variables of the group, in identifier order *)
Definition vg_labels (g : group) : list string := map (label_of_index g) (vg_indices (g_shape g)).

(* ---------- creation ---------- *)
Inductive creation := Created | CrValueError | CrCrash.

(* the format check done by the constructors *)
Definition fmt_ok (s : shape) (fmt : list string) : bool :=
  match s with
  | GSingle | BinMap _ _ => true
  | GBlock ranges => match render fmt (map vg_print_Z ranges) with Some _ => true | None => false end
  | GWords _ _ _ => match render fmt ["2"%string] with Some _ => true | None => false end
  | _ => match render fmt ["1"%string; "1"%string] with Some _ => true | None => false end
  end.

(* [fix2 = false]: the code as it is — 'combinations_with_replacement' is spelled
   '..._replacements' in WordOfIndicesVariables.__init__, so the enumerator is never
   bound: UnboundLocalError *)
Definition vg_create (fix2 : bool) (g : group) : creation :=
  if negb (fmt_ok (g_shape g) (g_fmt g)) then CrValueError else
  match g_shape g with
  | GSingle => Created
  | GBlock ranges => if Nat.eqb (List.length ranges) 0 then CrValueError
                    else if forallb (fun r => 0 <=? r) ranges then Created else CrValueError
  | GWords kind n k => if (n <? 0) || (k <? 0) then CrValueError
                      else match kind with WCombRepl => if fix2 then Created else CrCrash | _ => Created end
  | UMap n m => if (n <? 0) || (m <? 0) then CrValueError else Created
  | BinMap n m => if (m <? 1) || (n <? 1) then CrValueError else Created
  | _ => Created
  end.

(* ---------- manager + formula state ---------- *)
Record vstate := mkstate {
  st_numvar : Z;                          (* BaseCNF._numvar / BaseOPB._numvar *)
  st_groups : list (Z * group);           (* VariablesManager._groups with the offset of each group *)
  st_clauses : list (list Z)              (* the clauses inserted so far (literals as given) *)
}.
Definition vm_init : vstate := mkstate 0 [] [].

Inductive op :=
| OpNewGroup (g : group)
| OpAddClause (c : list Z) (checked : bool)
| OpRaiseNumvar (k : Z).

Inductive outcome :=
| VmDone
| VmAllocated (off : Z)      (* the new group owns off+1 .. off+gsize *)
| VmValueError
| VmCrash.

(* VariablesManager._add_variable_group *)
Definition add_variable_group (st : vstate) (off : Z) (g : group) : vstate * outcome :=
  let n := gsize (g_shape g) in
  if n =? 0 then (mkstate (st_numvar st) (st_groups st ++ [(off, g)]) (st_clauses st), VmAllocated off)
  else if off + 1 <=? st_numvar st then (st, VmValueError)
  else (mkstate (Z.max (st_numvar st) (off + n)) (st_groups st ++ [(off, g)]) (st_clauses st), VmAllocated off).

(* which of the known defects are repaired in the modelled code: all false = the code as it is.
   fixD2: spelling of 'combinations_with_replacement'; fixD34: add_clause checks before it appends
   (fixD3, the label enumeration, is a parameter of all_variable_labels) *)
Record variant := mkvariant { fixD2 : bool; fixD34 : bool }.
Definition as_is : variant := mkvariant false false.
Definition repaired : variant := mkvariant true true.

Definition vm_step (v : variant) (st : vstate) (o : op) : vstate * outcome :=
  match o with
  | OpNewGroup g =>
      match vg_create (fixD2 v) g with
      | Created => add_variable_group st (st_numvar st) g
      | CrValueError => (st, VmValueError)
      | CrCrash => (st, VmCrash)
      end
  | OpAddClause c checked =>
      let st1 := mkstate (st_numvar st) (st_groups st) (st_clauses st ++ [c]) in
      if checked then
        if lits_ok c then (mkstate (Z.max (st_numvar st) (max_var_clause c)) (st_groups st) (st_clauses st ++ [c]), VmDone)
        else if fixD34 v then (st, VmValueError)
        else (st1, VmValueError)      (* the code as it is: the clause is appended BEFORE it is checked *)
      else (st1, VmDone)
  | OpRaiseNumvar k =>
      if k <? 0 then (st, VmValueError)
      else (mkstate (Z.max (st_numvar st) k) (st_groups st) (st_clauses st), VmDone)
  end.

Definition vm_run (v : variant) (st : vstate) (ops : list op) : vstate :=
  fold_left (fun s o => fst (vm_step v s o)) ops st.

(* per-step trace for the correspondence run *)
Fixpoint vm_trace (v : variant) (st : vstate) (ops : list op) : list (vstate * outcome) :=
  match ops with
  | [] => []
  | o :: t => let r := vm_step v st o in r :: vm_trace v (fst r) t
  end.

(* ---------- all_variable_labels ---------- *)
Definition default_label (dflt : list string) (v : Z) : string := render_or_empty dflt [vg_print_Z v].
Definition is_single (g : group) : bool := match g_shape g with GSingle => true | _ => false end.

(* [fixD3 = false]: the code as it is — a singleton group is emitted without
   filling the gap of anonymous variables before it *)
Fixpoint labels_loop (fixD3 : bool) (dflt : list string) (gs : list (Z * group)) (varid endv : Z) : list string :=
  match gs with
  | [] => map (default_label dflt) (zrange varid (endv + 1))
  | (off, g) :: t =>
      if gsize (g_shape g) =? 0 then labels_loop fixD3 dflt t varid endv
      else if is_single g && negb fixD3 then
        label_of_index g [] :: labels_loop fixD3 dflt t (varid + 1) endv
      else
        let begin := off + 1 in
        map (default_label dflt) (zrange varid begin) ++ vg_labels g
        ++ labels_loop fixD3 dflt t (Z.max varid begin + gsize (g_shape g)) endv
  end.

Definition all_variable_labels (fixD3 : bool) (dflt : list string) (st : vstate) : list string :=
  labels_loop fixD3 dflt (st_groups st) 1 (st_numvar st).

(* the name variable v ought to have: the label of its group for its index, or the default name *)
Fixpoint label_of_groups (dflt : list string) (gs : list (Z * group)) (v : Z) : string :=
  match gs with
  | [] => default_label dflt v
  | (off, g) :: t =>
      if (off + 1 <=? v) && (v <=? off + gsize (g_shape g))
      then match vg_to_index off (g_shape g) v with
           | Some i => label_of_index g i
           | None => EmptyString
           end
      else label_of_groups dflt t v
  end.
Definition vg_label_of (dflt : list string) (st : vstate) (v : Z) : string :=
  label_of_groups dflt (st_groups st) v.
