(* VarsPatterns.v — an index pattern with wildcards (None positions) selects the
   order-preserving sub-enumeration of the legal indices that match it. *)
From Coq Require Import ZArith List Bool Lia ZifyBool.
From Cnfgen Require Import Sem Comb SemFacts Vars VarsLists VarsFacts VarsBip VarsComb VarsHistory.
Import ListNotations.
Open Scope Z_scope.

(* positional matching *)
Definition om (p : option Z) (x : Z) : bool := match p with None => true | Some z => x =? z end.
Fixpoint pm (pat : list (option Z)) (i : list Z) : bool :=
  match pat, i with
  | [], [] => true
  | p :: pat', x :: i' => om p x && pm pat' i'
  | _, _ => false
  end.

(* what a pattern means for a group: positional, except that a simple graph ignores the
   order of the end points and a single given vertex selects the edges incident to it *)
Definition pat_matches (s : shape) (pat : list (option Z)) (i : list Z) : bool :=
  match pat with
  | [] => true
  | _ => match s with
         | GraphEdges _ =>
             match pat with
             | [Some u; Some v] => pm [Some (Z.min u v); Some (Z.max u v)] i
             | [Some w; None] | [None; Some w] => pm [None; Some w] i || pm [Some w; None] i
             | _ => pm pat i
             end
         | _ => pm pat i
         end
  end.

Lemma pm2 pu pv x y : pm [pu; pv] [x; y] = om pu x && om pv y.
Proof. cbn [pm]. now rewrite andb_true_r. Qed.

(* ---------- list lemmas ---------- *)
Lemma filter_true_id {A} (p : A -> bool) l : (forall x, In x l -> p x = true) -> filter p l = l.
Proof. induction l as [|x t IH]; intros H; [reflexivity|]. cbn [filter]. rewrite H by now left. f_equal. apply IH. intros; apply H; now right. Qed.
Lemma filter_false_nil {A} (p : A -> bool) l : (forall x, In x l -> p x = false) -> filter p l = [].
Proof. induction l as [|x t IH]; intros H; [reflexivity|]. cbn [filter]. rewrite H by now left. apply IH. intros; apply H; now right. Qed.
Lemma filter_map_swap {A B} (p : B -> bool) (f : A -> B) l : filter p (map f l) = map f (filter (fun x => p (f x)) l).
Proof. induction l as [|x t IH]; [reflexivity|]. cbn [map filter]. destruct (p (f x)); cbn [map]; now rewrite IH. Qed.
Lemma filter_flat_map {A B} (p : B -> bool) (f : A -> list B) l : filter p (flat_map f l) = flat_map (fun x => filter p (f x)) l.
Proof. induction l as [|x t IH]; [reflexivity|]. cbn [flat_map]. now rewrite filter_app, IH. Qed.
Lemma filter_eq_singleton {A} (p : A -> bool) l x : NoDup l -> In x l -> (forall y, In y l -> (p y = true <-> y = x)) -> filter p l = [x].
Proof.
  induction 1 as [|y t Hy Ht IH]; intros Hx Hp; [destruct Hx|]. cbn [filter]. destruct Hx as [->|Hx].
  - rewrite (proj2 (Hp x (or_introl eq_refl)) eq_refl). f_equal. apply filter_false_nil. intros z Hz.
    destruct (p z) eqn:E; [|reflexivity]. apply Hp in E; [|now right]. subst. contradiction.
  - destruct (p y) eqn:E.
    + apply Hp in E; [|now left]. subst. contradiction.
    + apply IH; [exact Hx|]. intros z Hz. apply Hp. now right.
Qed.
Lemma flat_map_pick {B} (g : Z -> list B) l i : NoDup l -> In i l -> flat_map (fun x => if x =? i then g x else []) l = g i.
Proof.
  induction 1 as [|y t Hy Ht IH]; intros Hi; [destruct Hi|]. cbn [flat_map]. destruct Hi as [->|Hi].
  - rewrite Z.eqb_refl. rewrite (flat_map_ext_in _ (fun _ => [])).
    + clear. induction t; cbn; [now rewrite app_nil_r|]. exact IHt.
    + intros x Hx. destruct (Z.eqb_spec x i); [subst; contradiction|reflexivity].
  - destruct (Z.eqb_spec y i); [subst; contradiction|]. cbn [app]. now apply IH.
Qed.
Lemma flat_map_single {A} (l : list A) : flat_map (fun b => [[b]]) l = map (fun b => [b]) l.
Proof. induction l as [|x t IH]; [reflexivity|]. cbn. now rewrite IH. Qed.

Lemma prod2 (A B : list Z) : prod [A; B] = flat_map (fun i => map (fun b => [i; b]) B) A.
Proof.
  cbn [prod]. apply flat_map_ext. intros x. induction B as [|b t IH]; [reflexivity|].
  cbn [flat_map map app] in *. now rewrite IH.
Qed.

(* ---------- products of columns (blocks, binary mappings) ---------- *)
Fixpoint cols_sel (pat : list (option Z)) (full cols : list (list Z)) : Prop :=
  match pat, full, cols with
  | [], [], [] => True
  | p :: pat', f :: full', c :: cols' =>
      match p with None => c = f | Some i => c = [i] /\ In i f end /\ cols_sel pat' full' cols'
  | _, _, _ => False
  end.

Lemma prod_sel : forall pat full cols, Forall (@NoDup Z) full -> cols_sel pat full cols ->
  prod cols = filter (pm pat) (prod full).
Proof.
  induction pat as [|p pat IH]; intros full cols Hn Hs.
  - destruct full, cols; try destruct Hs. reflexivity.
  - destruct full as [|f full]; [destruct Hs|]. destruct cols as [|c cols]; [destruct Hs|].
    destruct Hs as [Hc Hs]. inversion Hn as [|? ? Nf Nfull]; subst.
    specialize (IH full cols Nfull Hs). cbn [prod]. rewrite filter_flat_map.
    destruct p as [i|].
    + destruct Hc as [-> Hi]. cbn [flat_map]. rewrite app_nil_r.
      rewrite (flat_map_ext_in _ (fun x => if x =? i then map (cons x) (prod cols) else [])).
      * now rewrite flat_map_pick.
      * intros x Hx. rewrite filter_map_swap. cbn [pm om]. destruct (Z.eqb_spec x i); cbn [andb].
        -- now rewrite IH.
        -- rewrite filter_false_nil by reflexivity. reflexivity.
    + subst c. apply flat_map_ext_in. intros x Hx. rewrite filter_map_swap. cbn [pm om andb]. now rewrite IH.
Qed.

Lemma block_pattern_sel : forall ranges pat cols, block_pattern pat ranges = Some cols -> cols_sel pat (map rng ranges) cols.
Proof.
  induction ranges as [|r t IH]; intros pat cols H.
  - destruct pat; [|discriminate]. cbn in H. injection H as <-. exact I.
  - destruct pat as [|p pat]; [discriminate|]. cbn [block_pattern] in H.
    destruct (block_pattern pat t) as [rest|] eqn:E; [|discriminate]. specialize (IH pat rest E).
    destruct p as [i|].
    + destruct (Z.leb_spec 1 i); destruct (Z.leb_spec i r); cbn [andb] in H; try discriminate. injection H as <-.
      cbn [map cols_sel]. split; [split; [reflexivity|apply in_zrange; lia]|exact IH].
    + injection H as <-. cbn [map cols_sel]. split; [reflexivity|exact IH].
Qed.

(* ---------- bipartite core ---------- *)
Lemma bip_row_filter adj : forall u0 u vs, znth (u - u0) adj = Some vs ->
  map (fun v => [u; v]) vs = filter (pm [Some u; None]) (bip_edges_from u0 adj).
Proof.
  induction adj as [|ws t IH]; intros u0 u vs H; [now rewrite znth_nil in H|].
  rewrite znth_cons in H. cbn [bip_edges_from]. rewrite filter_app.
  destruct (Z.eqb_spec (u - u0) 0) as [E|E].
  - injection H as ->. assert (u = u0) by lia. subst u.
    rewrite filter_true_id, filter_false_nil; [now rewrite app_nil_r| |].
    + intros e He. apply bip_edges_from_shape in He as [x [y [-> Hx]]]. rewrite pm2. cbn [om]. destruct (Z.eqb_spec x u0); [lia|reflexivity].
    + intros e He. apply in_map_iff in He as [y [<- _]]. rewrite pm2. cbn [om]. now rewrite Z.eqb_refl.
  - apply znth_Some in H as H2. rewrite filter_false_nil.
    + cbn [app]. apply IH. replace (u - (u0 + 1)) with (u - u0 - 1) by lia. exact H.
    + intros e He. apply in_map_iff in He as [y [<- _]]. rewrite pm2. cbn [om]. destruct (Z.eqb_spec u0 u); [lia|reflexivity].
Qed.

Lemma filter_eqb_nodup (vs : list Z) v : NoDup vs -> filter (fun w => w =? v) vs = if in_list v vs then [v] else [].
Proof.
  intros Hn. destruct (in_list v vs) eqn:E.
  - apply filter_eq_singleton; [exact Hn| |intros y _; apply Z.eqb_eq].
    unfold in_list in E. apply existsb_exists in E as [z [Hz Ez]]. apply Z.eqb_eq in Ez. now subst.
  - apply filter_false_nil. intros x Hx. destruct (Z.eqb_spec x v) as [->|]; [|reflexivity].
    exfalso. assert (in_list v vs = true); [|congruence]. apply existsb_exists. exists v. split; [exact Hx|apply Z.eqb_refl].
Qed.

Lemma bip_col_filter adj : adj_nodup adj -> forall u0 v,
  map (fun u => [u; v]) (left_nbrs_from u0 adj v) = filter (pm [None; Some v]) (bip_edges_from u0 adj).
Proof.
  induction 1 as [|ws t Hw Ht IH]; intros u0 v; [reflexivity|].
  cbn [left_nbrs_from bip_edges_from]. rewrite map_app, filter_app, IH. f_equal.
  rewrite filter_map_swap. rewrite (filter_ext _ (fun w => w =? v)) by (intros w; rewrite pm2; reflexivity).
  rewrite filter_eqb_nodup by exact Hw. now destruct (in_list v ws).
Qed.

Lemma NoDup_bip_edges adj : adj_nodup adj -> NoDup (bip_edges adj).
Proof.
  intros H. pose proof (w_nodup 0 (BipEdges adj 0) ltac:(lia) H) as N.
  cbn [vg_indices shape_bip of_core] in N. now rewrite map_id in N.
Qed.

Lemma bip_pattern_filter adj R pu pv l : adj_nodup adj -> bip_pattern adj R pu pv = Some l ->
  l = filter (pm [pu; pv]) (bip_edges adj).
Proof.
  intros Hn H. unfold bip_pattern in H. destruct pu as [u|], pv as [v|].
  - unfold right_nbrs in H. destruct (znth (u - 1) adj) as [vs|] eqn:E; [|discriminate].
    destruct (in_list v vs) eqn:Ei; [|discriminate]. injection H as <-. symmetry.
    assert (Hv : In v vs) by (unfold in_list in Ei; apply existsb_exists in Ei as [z [Hz Ez]]; apply Z.eqb_eq in Ez; now subst).
    apply filter_eq_singleton; [now apply NoDup_bip_edges|apply in_bip_edges_from; eauto|].
    intros e He. apply bip_edges_pairs in He as [x [y ->]]. rewrite pm2. cbn [om]. split.
    + intros B. apply andb_true_iff in B as [B1 B2]. apply Z.eqb_eq in B1, B2. now subst.
    + intros B. injection B as -> ->. now rewrite !Z.eqb_refl.
  - unfold right_nbrs in H. destruct (znth (u - 1) adj) as [vs|] eqn:E; [|discriminate]. injection H as <-.
    now apply bip_row_filter.
  - destruct ((1 <=? v) && (v <=? R)); [|discriminate]. injection H as <-. now apply bip_col_filter.
  - injection H as <-. symmetry. apply filter_true_id. intros e He. apply bip_edges_pairs in He as [x [y ->]]. reflexivity.
Qed.

(* simple graphs: the edges incident to w are those ending in w followed by those starting at w *)
Lemma upper_incident adj w : forall u0,
  filter (fun e => pm [None; Some w] e || pm [Some w; None] e) (bip_edges_from u0 (upper_from u0 adj)) =
  filter (pm [None; Some w]) (bip_edges_from u0 (upper_from u0 adj)) ++ filter (pm [Some w; None]) (bip_edges_from u0 (upper_from u0 adj)).
Proof.
  induction adj as [|vs t IH]; intros u0; [reflexivity|].
  destruct (Z.ltb_spec u0 w) as [C|C].
  - cbn [upper_from bip_edges_from]. rewrite !filter_app, IH.
    rewrite (filter_false_nil (pm [Some w; None]) (map _ _)).
    + cbn [app]. rewrite <- app_assoc. f_equal. apply filter_ext_in. intros e He. apply in_map_iff in He as [y [<- _]].
      rewrite !pm2. cbn [om]. destruct (Z.eqb_spec u0 w); [lia|]. now rewrite orb_false_r.
    + intros e He. apply in_map_iff in He as [y [<- _]]. rewrite pm2. cbn [om]. destruct (Z.eqb_spec u0 w); [lia|reflexivity].
  - rewrite (filter_false_nil (pm [None; Some w])).
    + cbn [app]. apply filter_ext_in. intros e He. pose proof (bip_edges_from_shape _ _ _ He) as [x [y [-> Hx]]].
      apply upper_edges_increasing in He. rewrite !pm2. cbn [om]. destruct (Z.eqb_spec y w); [lia|reflexivity].
    + intros e He. pose proof (bip_edges_from_shape _ _ _ He) as [x [y [-> Hx]]].
      apply upper_edges_increasing in He. rewrite pm2. cbn [om]. destruct (Z.eqb_spec y w); [lia|reflexivity].
Qed.

Lemma pm_swap pu pv e : (exists x y, e = [x; y]) -> pm [pu; pv] (swap2 e) = pm [pv; pu] e.
Proof. intros [x [y ->]]. cbn [swap2]. rewrite !pm2. apply andb_comm. Qed.

(* ---------- the theorem ---------- *)
Theorem pattern_is_filter s pat l : shape_wf s -> pattern_indices s pat = Some l ->
  l = filter (pat_matches s pat) (vg_indices s).
Proof.
  intros Hw H.
  assert (E0 : forall s', filter (pat_matches s' []) (vg_indices s) = vg_indices s) by (intros; now apply filter_true_id).
  destruct s as [|ranges|kind n k|adj R|succ b|adj|n m|n m].
  - (* single *) destruct pat; [|discriminate]. injection H as <-. reflexivity.
  - (* block *) destruct Hw as [Hne Hr]. cbn [pattern_indices] in H. destruct pat as [|p pat]; [injection H as <-; now rewrite E0|].
    destruct (block_pattern (p :: pat) ranges) as [cols|] eqn:E; [|discriminate]. injection H as <-.
    cbn [pat_matches vg_indices]. fold rng. apply prod_sel; [|now apply block_pattern_sel].
    apply Forall_forall. intros c Hc. apply in_map_iff in Hc as [r [<- _]]. apply NoDup_zrange.
  - (* words *) cbn [pattern_indices] in H. destruct pat as [|p pat]; [injection H as <-; now rewrite E0|].
    destruct (all_some (p :: pat)) as [i0|] eqn:Ea; [|discriminate].
    destruct (pos_of i0 (words_enum kind n k)) eqn:Ep; [|discriminate]. injection H as <-. symmetry.
    cbn [pat_matches vg_indices]. apply pos_of_Some in Ep as [Ep _]. apply znth_In in Ep.
    apply filter_eq_singleton; [apply NoDup_words_enum|exact Ep|]. intros y _.
    change (pat_matches (GWords kind n k) (p :: pat) y) with (pm (p :: pat) y).
    clear -Ea. revert i0 y Ea. generalize (p :: pat). induction l as [|q qs IH]; intros i0 y Ea.
    + cbn in Ea. injection Ea as <-. destruct y; cbn [pm]; split; intros Hq; try reflexivity; try discriminate Hq.
    + cbn [all_some fold_right] in Ea. fold (all_some qs) in Ea. destruct q as [z|]; [|discriminate].
      destruct (all_some qs) as [r|] eqn:Er; [|discriminate]. injection Ea as <-.
      destruct y as [|x y]; [cbn [pm]; split; intros Hq; discriminate Hq|]. cbn [pm om]. rewrite andb_true_iff, (IH r y eq_refl), Z.eqb_eq.
      split; [intros [-> ->]; reflexivity|intros E; injection E; auto].
  - (* bipartite edges *) cbn [pattern_indices shape_bip] in H. destruct pat as [|pu [|pv [|? ?]]]; try discriminate.
    + injection H as <-. rewrite E0. cbn [vg_indices shape_bip of_core]. now rewrite map_id.
    + destruct (bip_pattern adj R pu pv) as [l0|] eqn:E; [|discriminate]. cbn [option_map] in H. injection H as <-.
      cbn [of_core pat_matches vg_indices shape_bip]. rewrite !map_id. eapply bip_pattern_filter; eauto.
  - (* directed edges *) destruct b.
    + cbn [pattern_indices shape_bip] in H. destruct pat as [|pu [|pv [|? ?]]]; try discriminate.
      * injection H as <-. now rewrite E0.
      * destruct (bip_pattern (transpose succ (len succ)) (len succ) pv pu) as [l0|] eqn:E; [|discriminate].
        cbn [option_map] in H. injection H as <-. cbn [of_core pat_matches vg_indices shape_bip].
        apply bip_pattern_filter in E; [|apply adj_nodup_transpose]. rewrite E, filter_map_swap. f_equal.
        apply filter_ext_in. intros e He. symmetry. apply pm_swap. now apply bip_edges_pairs in He.
    + cbn [pattern_indices shape_bip] in H. destruct pat as [|pu [|pv [|? ?]]]; try discriminate.
      * injection H as <-. rewrite E0. cbn [vg_indices shape_bip of_core]. now rewrite map_id.
      * destruct (bip_pattern succ (len succ) pu pv) as [l0|] eqn:E; [|discriminate]. cbn [option_map] in H. injection H as <-.
        cbn [of_core pat_matches vg_indices shape_bip]. rewrite !map_id. eapply bip_pattern_filter; eauto.
  - (* simple graph *) cbn [shape_wf] in Hw. pose proof (adj_nodup_upper_from adj Hw 1) as Hu. fold (upper adj) in Hu.
    assert (Ei : vg_indices (GraphEdges adj) = bip_edges (upper adj)) by (cbn [vg_indices shape_bip of_core]; now rewrite map_id).
    cbn [pattern_indices shape_bip] in H. destruct pat as [|[u|] [|[v|] [|? ?]]]; try discriminate.
    + injection H as <-. now rewrite E0.
    + cbn [pat_matches]. rewrite Ei. eapply bip_pattern_filter; eauto.
    + destruct (bip_pattern (upper adj) (len adj) None (Some u)) as [l1|] eqn:E1; [|discriminate].
      destruct (bip_pattern (upper adj) (len adj) (Some u) None) as [l2|] eqn:E2; [|discriminate]. injection H as <-.
      apply bip_pattern_filter in E1, E2; try exact Hu. rewrite E1, E2. cbn [pat_matches]. rewrite Ei. symmetry. apply upper_incident.
    + destruct (bip_pattern (upper adj) (len adj) None (Some v)) as [l1|] eqn:E1; [|discriminate].
      destruct (bip_pattern (upper adj) (len adj) (Some v) None) as [l2|] eqn:E2; [|discriminate]. injection H as <-.
      apply bip_pattern_filter in E1, E2; try exact Hu. rewrite E1, E2. cbn [pat_matches]. rewrite Ei. symmetry. apply upper_incident.
    + injection H as <-. cbn [pat_matches]. rewrite Ei. symmetry. apply filter_true_id.
      intros e He. apply bip_edges_pairs in He as [x [y ->]]. reflexivity.
  - (* unary mapping *) cbn [pattern_indices shape_bip] in H. destruct pat as [|pu [|pv [|? ?]]]; try discriminate.
    + injection H as <-. rewrite E0. cbn [vg_indices shape_bip of_core]. now rewrite map_id.
    + destruct (bip_pattern (complete_adj n m) m pu pv) as [l0|] eqn:E; [|discriminate]. cbn [option_map] in H. injection H as <-.
      cbn [of_core pat_matches vg_indices shape_bip]. rewrite !map_id. apply bip_pattern_filter in E; [exact E|apply adj_nodup_complete].
  - (* binary mapping *) destruct Hw as [Hn Hm]. cbn [pattern_indices] in H. destruct pat as [|pi [|pb [|? ?]]]; try discriminate.
    + injection H as <-. now rewrite E0.
    + set (kb := bitlength m) in *.
      assert (Ei : vg_indices (BinMap n m) = prod [zrange 1 (n + 1); down_range kb]).
      { cbn [vg_indices]. symmetry. apply prod2. }
      destruct (match pi with None => Some (zrange 1 (n + 1)) | Some i => if (1 <=? i) && (i <=? n) then Some [i] else None end) as [li|] eqn:Eli; [|discriminate].
      destruct (match pb with None => Some (down_range kb) | Some b => if (0 <=? b) && (b <? kb) then Some [b] else None end) as [lb|] eqn:Elb; [|discriminate].
      injection H as <-. cbn [pat_matches]. rewrite Ei.
      assert (Ep : flat_map (fun i => map (fun b => [i; b]) lb) li = prod [li; lb]).
      { symmetry. apply prod2. }
      rewrite Ep. apply prod_sel.
      * repeat constructor; [apply NoDup_zrange|]. unfold down_range. apply FinFun.Injective_map_NoDup; [intros x y; lia|apply NoDup_zrange].
      * cbn [cols_sel]. split; [|split; [|exact I]].
        -- destruct pi as [i|]; [|now injection Eli as <-].
           destruct (Z.leb_spec 1 i); destruct (Z.leb_spec i n); cbn [andb] in Eli; try discriminate. injection Eli as <-.
           split; [reflexivity|apply in_zrange; lia].
        -- destruct pb as [b|]; [|now injection Elb as <-].
           destruct (Z.leb_spec 0 b); destruct (Z.ltb_spec b kb); cbn [andb] in Elb; try discriminate. injection Elb as <-.
           split; [reflexivity|]. unfold down_range. apply in_map_iff. exists (kb - 1 - b). split; [lia|apply in_zrange; lia].
Qed.
