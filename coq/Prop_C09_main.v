(* Property C09 (the `cnfshuffle` tool) and the part of C07 that concerns it.
   ONLY statements; every proof is `exact <lemma>` (lemmas in ShuffleMainFacts.v).

   [cnfshuffle_main_gen rep env argv stdin oracle] is the whole program (coq/ShuffleMain.v):
     rep     false = the tool as it is (cnfshuffle_main_env), true = after the proposed repair of the OverflowError
             (cnfshuffle_main_repaired); the theorems that quantify over rep hold for both
     env     version string of the installation, readable files, names that cannot be written
     argv    sys.argv[1:];  stdin: the text on standard input
     oracle  the values Random.getrandbits returned during the run, in order (ANY list of integers here)
   Results: ShmOut dest text | ShmCliError | ShmCrash | ShmOutside | ShmOracleEnd | ShmOracleBad. *)
From Coq Require Import String.
From Coq Require Import ZArith List Bool Permutation Ascii.
From Cnfgen Require Import Sem Comb Text Dimacs DimacsFacts Shuffle ShuffleFacts ShuffleMain ShuffleMainFacts.
Import ListNotations.
Open Scope Z_scope.

(* ---------------------------------------------------------------------------------------------- *)
(* the new mathematical content: CPython's random.shuffle replayed over ANY stream of primitive
   draws returns a permutation of its argument (x any list, o any stream; js are the results of the
   _randbelow(i+1) calls for i = len(x)-1 .. 1, each obtained from the stream by rejection) *)
Theorem cnfshuffle_shuffle_is_permutation : forall (x o js rest : list Z),
  shm_draws (shm_down (length x - 1)) o = DrOk js rest -> Permutation (shm_shuffle_list js x) x.
Proof. exact shm_shuffle_any_oracle. Qed.
Print Assumptions cnfshuffle_shuffle_is_permutation.

(* _randbelow(n) replayed on any stream returns a value in [0, n) and reads a non-empty prefix of the stream *)
Theorem cnfshuffle_randbelow_contract : forall n o r rest, shm_randbelow n o = DrOk r rest ->
  0 <= r < n /\ exists used, o = used ++ rest /\ used <> [].
Proof. exact shm_randbelow_spec. Qed.
Print Assumptions cnfshuffle_randbelow_contract.

(* ---------------------------------------------------------------------------------------------- *)
(* C09 for the tool.  For ALL environments, argument vectors, input texts and streams: whenever the program
   writes a text t, the input text reads (DIMACS reader, as the tool reads it) as a formula (N, F), t reads back
   (with or without universal newlines) as a formula (N, out) with the same number of variables, the same
   number of clauses, the same multiset of clause widths, and out is F renamed by ONE signed bijection sigma of
   the variables (sigma' its inverse) and rearranged by ONE permutation cperm of the positions (clause i of F
   sits at position cperm[i] of out); a |-> a o sigma is a bijection between the models of out and those of F,
   so both have the same number of models.  The last three lines: -p leaves every polarity, -v every variable
   name and -c every clause position untouched, each whatever the other two switches are. *)
Theorem cnfshuffle_is_renaming : forall rep env argv stdin oracle dest t,
  cnfshuffle_main_gen rep env argv stdin oracle = ShmOut dest t ->
  exists o N F out flips perm cperm,
    shm_parse_args env argv = PaOk o /\ dest = so_output o /\
    parse_dimacs (shm_universal o) (shm_input_text env o stdin) = DOk N F /\
    (forall u, parse_dimacs u t = DOk N out) /\
    0 <= N /\ lits_in_range N F = true /\ lits_in_range N out = true /\
    length out = length F /\ Permutation (map (@length Z) F) (map (@length Z) out) /\
    let sigma := subst_lit flips perm in
    let sigma' := inv_lit flips perm in
    signed_map N sigma /\ signed_map N sigma' /\
    (forall l, inrange N l -> sigma' (sigma l) = l) /\ (forall l, inrange N l -> sigma (sigma' l) = l) /\
    Permutation cperm (zrange 0 (len F)) /\
    Permutation out (map (map sigma) F) /\
    (forall i, (i < length F)%nat -> nth (Z.to_nat (nth i cperm 0)) out [] = map sigma (nth i F [])) /\
    (forall a, cnf_sat a out = cnf_sat (pull sigma a) F) /\
    (forall a v, 1 <= v <= N -> pull sigma' (pull sigma a) v = a v) /\
    (forall a v, 1 <= v <= N -> pull sigma (pull sigma' a) v = a v) /\
    count_models N out = count_models N F /\
    (so_nop o = true -> forall l, inrange N l -> (0 < sigma l <-> 0 < l)) /\
    (so_nov o = true -> forall l, inrange N l -> Z.abs (sigma l) = Z.abs l) /\
    (so_noc o = true -> out = map (map sigma) F).
Proof. exact shm_is_renaming. Qed.
Print Assumptions cnfshuffle_is_renaming.

(* the three switches on their own: -p keeps the sign of every literal, -v the variable of every literal,
   -c the position of every clause, independently of the other two *)
Theorem cnfshuffle_options_independent : forall rep env argv stdin oracle dest t,
  cnfshuffle_main_gen rep env argv stdin oracle = ShmOut dest t ->
  exists o N F out sigma,
    shm_parse_args env argv = PaOk o /\
    parse_dimacs (shm_universal o) (shm_input_text env o stdin) = DOk N F /\
    (forall u, parse_dimacs u t = DOk N out) /\
    signed_map N sigma /\ Permutation out (map (map sigma) F) /\
    (so_nop o = true -> forall l, inrange N l -> (0 < sigma l <-> 0 < l)) /\
    (so_nov o = true -> forall l, inrange N l -> Z.abs (sigma l) = Z.abs l) /\
    (so_noc o = true -> out = map (map sigma) F).
Proof. exact shm_options_independent. Qed.
Print Assumptions cnfshuffle_options_independent.

(* -p -v -c (in any spelling argparse accepts): for every stream the result is that of the empty stream (no
   draw is read), and the text written is the formula that was read, clauses in order *)
Theorem cnfshuffle_fixed_is_identity : forall rep env argv stdin o,
  shm_parse_args env argv = PaOk o -> so_nop o = true -> so_nov o = true -> so_noc o = true ->
  forall oracle,
    cnfshuffle_main_gen rep env argv stdin oracle = cnfshuffle_main_gen rep env argv stdin [] /\
    forall dest t, cnfshuffle_main_gen rep env argv stdin oracle = ShmOut dest t ->
      exists N F, parse_dimacs (shm_universal o) (shm_input_text env o stdin) = DOk N F /\
                  t = print_dimacs (shm_out_header env o) None N F /\
                  forall u, parse_dimacs u t = DOk N F.
Proof. exact shm_fixed_identity. Qed.
Print Assumptions cnfshuffle_fixed_is_identity.

(* ---------------------------------------------------------------------------------------------- *)
(* totality.  The full statement for the tool as it is: *)
Definition cnfshuffle_total_statement : Prop :=
  forall env argv stdin oracle, cnfshuffle_main_env env argv stdin oracle <> ShmCrash.

(* it is false: `cnfshuffle -p` on the one-line input "p cnf 9223372036854775808 0" ends in an OverflowError
   traceback (`[1] * N`), for every stream *)
Theorem cnfshuffle_total_refuted : exists argv stdin, forall oracle,
  cnfshuffle_main argv stdin oracle = ShmCrash.
Proof. exists [lit "-p"], (lit "p cnf 9223372036854775808 0"). intros oracle. vm_compute. reflexivity. Qed.
Print Assumptions cnfshuffle_total_refuted.

(* and this is the only way to a crash: -p together with a declared number of variables >= 2^63 *)
Theorem cnfshuffle_total_partial : forall env argv stdin oracle,
  cnfshuffle_main_env env argv stdin oracle = ShmCrash ->
  exists o N F, shm_parse_args env argv = PaOk o /\
                parse_dimacs (shm_universal o) (shm_input_text env o stdin) = DOk N F /\ so_nop o = true /\ 2 ^ 63 <= N.
Proof. exact shm_crash_only_overflow. Qed.
Print Assumptions cnfshuffle_total_partial.

(* after the repair (OverflowError reported as a command line error): every argv, every input text
   (malformed DIMACS included) and every stream give a written formula, a clean error, "outside the model"
   or a stream that does not describe a run -- never a crash *)
Theorem cnfshuffle_total : forall env argv stdin oracle,
  cnfshuffle_main_repaired env argv stdin oracle <> ShmCrash.
Proof. exact shm_total_repaired. Qed.
Print Assumptions cnfshuffle_total.

(* the repair changes nothing else *)
Theorem cnfshuffle_repair_is_local : forall env argv stdin oracle,
  cnfshuffle_main_env env argv stdin oracle <> ShmCrash ->
  cnfshuffle_main_repaired env argv stdin oracle = cnfshuffle_main_env env argv stdin oracle.
Proof. exact shm_repaired_agrees. Qed.
Print Assumptions cnfshuffle_repair_is_local.

(* C06 for the tool: as found, it reports an error exactly when argparse rejects the command line or the DIMACS
   reader rejects the text (standard input: lines end at "\n" only; a file named by -i: universal newlines).  A text
   the reader accepts is never answered by an error, whatever the stream of draws is *)
Theorem cnfshuffle_clean_error_iff : forall env argv stdin oracle,
  cnfshuffle_main_env env argv stdin oracle = ShmCliError <->
  shm_parse_args env argv = PaError \/
  exists o, shm_parse_args env argv = PaOk o /\ shm_alias o = false /\
            exists e k, parse_dimacs (shm_universal o) (shm_input_text env o stdin) = Err e k.
Proof. exact shm_clean_error_iff. Qed.
Print Assumptions cnfshuffle_clean_error_iff.

(* a run that gets past the command line and the reader writes a formula as soon as the stream holds all
   its draws (Shuffle never rejects what was drawn: the drawn sequences are always +-1 vectors / permutations) *)
Theorem cnfshuffle_outputs_when_drawn : forall rep env argv stdin oracle o N F,
  shm_plan_of rep env argv stdin = PlanRun o N F ->
  match shm_draws (shm_bounds (so_nop o) (so_nov o) (so_noc o) N (len F)) oracle with
  | DrOk _ _ => exists t, cnfshuffle_main_gen rep env argv stdin oracle = ShmOut (so_output o) t
  | DrEnd => cnfshuffle_main_gen rep env argv stdin oracle = ShmOracleEnd
  | DrBad => cnfshuffle_main_gen rep env argv stdin oracle = ShmOracleBad
  end.
Proof. exact shm_run_outputs. Qed.
Print Assumptions cnfshuffle_outputs_when_drawn.

(* ---------------------------------------------------------------------------------------------- *)
(* C07 for the tool: which draws a run makes.  The _randbelow calls of a run and their bounds are a function of
   the three switches, the declared number of variables and the number of clauses ONLY:
     not -p : N calls with bound 2;  not -v : bounds N, N-1, .., 2;  not -c : bounds M, M-1, .., 2  (in this order) *)
Theorem cnfshuffle_draw_protocol : forall rep env argv stdin o N F,
  shm_plan_of rep env argv stdin = PlanRun o N F ->
  shm_plan_bounds (shm_plan_of rep env argv stdin) =
    (if so_nop o then [] else repeat 2 (Z.to_nat N)) ++
    (if so_nov o then [] else shm_down (Z.to_nat N - 1)) ++
    (if so_noc o then [] else shm_down (Z.to_nat (len F) - 1)).
Proof. exact shm_bounds_of_plan. Qed.
Print Assumptions cnfshuffle_draw_protocol.

Theorem cnfshuffle_draw_count : forall nop nov noc N M, 0 <= N -> 0 <= M ->
  len (shm_bounds nop nov noc N M) =
    (if nop then 0 else N) + (if nov then 0 else Z.max 0 (N - 1)) + (if noc then 0 else Z.max 0 (M - 1)) /\
  Forall (fun b => 2 <= b <= Z.max 2 (Z.max N M)) (shm_bounds nop nov noc N M).
Proof. exact shm_bounds_count. Qed.
Print Assumptions cnfshuffle_draw_count.

(* the result depends on the stream only through the results of these calls *)
Theorem cnfshuffle_deterministic : forall rep env argv stdin o1 o2,
  let bs := shm_plan_bounds (shm_plan_of rep env argv stdin) in
  shm_forget_rest (shm_draws bs o1) = shm_forget_rest (shm_draws bs o2) ->
  cnfshuffle_main_gen rep env argv stdin o1 = cnfshuffle_main_gen rep env argv stdin o2.
Proof. exact shm_output_by_draws. Qed.
Print Assumptions cnfshuffle_deterministic.

(* in particular values after the ones that were read do not matter *)
Theorem cnfshuffle_unused_draws : forall rep env argv stdin oracle extra dest t,
  cnfshuffle_main_gen rep env argv stdin oracle = ShmOut dest t ->
  cnfshuffle_main_gen rep env argv stdin (oracle ++ extra) = ShmOut dest t.
Proof. exact shm_unused_draws. Qed.
Print Assumptions cnfshuffle_unused_draws.

(* a run against ANY generator (state type G, getrandbits : k -> state -> value * state with values in
   [0, 2^k)) is the model on the stream of values the generator handed out during that run, read to its
   end: recording the primitive draws of a real run and replaying them in the model loses nothing *)
Theorem cnfshuffle_run_is_replay : forall (G : Type) (bits : Z -> G -> Z * G), shm_bits_ok bits ->
  forall seed_fn fuel env argv stdin g0 r,
  cnfshuffle_run bits seed_fn fuel env argv stdin g0 = Some r ->
  exists oracle, cnfshuffle_main_env env argv stdin oracle = r /\
                 (forall dest t, r = ShmOut dest t -> shm_draws_used env argv stdin oracle = Some (len oracle)).
Proof. exact @shm_run_is_replay. Qed.
Print Assumptions cnfshuffle_run_is_replay.

(* with --seed S, S not the empty string, two runs give the same bytes whatever state the generator was in *)
Theorem cnfshuffle_seeded_runs_agree : forall (G : Type) (bits : Z -> G -> Z * G) seed_fn fuel env argv stdin,
  (forall o, shm_parse_args env argv = PaOk o -> shm_seed_installed o <> None) ->
  forall g1 g2, cnfshuffle_run bits seed_fn fuel env argv stdin g1 = cnfshuffle_run bits seed_fn fuel env argv stdin g2.
Proof. exact @shm_seeded_runs_agree. Qed.
Print Assumptions cnfshuffle_seeded_runs_agree.

(* without --seed, and with `--seed ""` (`if args.seed:` skips the empty string), they do not *)
Theorem cnfshuffle_unseeded_refuted :
  shm_bits_ok shm_toy_bits /\
  let input := lit "p cnf 1 1
1 0
" in
  cnfshuffle_run shm_toy_bits (fun _ => 0) 8 shm_env0 [lit "-vcq"] input 0
    <> cnfshuffle_run shm_toy_bits (fun _ => 0) 8 shm_env0 [lit "-vcq"] input 1 /\
  cnfshuffle_run shm_toy_bits (fun _ => 0) 8 shm_env0 [lit "-vcq"; lit "--seed"; []] input 0
    <> cnfshuffle_run shm_toy_bits (fun _ => 0) 8 shm_env0 [lit "-vcq"; lit "--seed"; []] input 1 /\
  cnfshuffle_run shm_toy_bits (fun _ => 0) 8 shm_env0 [lit "-vcq"; lit "--seed"; lit "0"] input 0
    = cnfshuffle_run shm_toy_bits (fun _ => 0) 8 shm_env0 [lit "-vcq"; lit "--seed"; lit "0"] input 1.
Proof.
  split; [exact shm_toy_bits_ok|]. cbv zeta.
  split; [intros H; vm_compute in H; discriminate H|].
  split; [intros H; vm_compute in H; discriminate H|].
  vm_compute. reflexivity.
Qed.
Print Assumptions cnfshuffle_unseeded_refuted.

(* ---------------------------------------------------------------------------------------------- *)
(* non-vacuity: concrete runs (7 values are read: 1, 0, 3 (rejected), 1 for the three flips; 2, 1 for the
   variables; 0 for the two clauses) *)
Example cnfshuffle_main_nonvacuous :
  let input := lit "c a comment
p cnf 3 2
1 -2 0
3 0
" in
  cnfshuffle_main [lit "-q"] input [1; 0; 3; 1; 2; 1; 0] = ShmOut None (lit "p cnf 3 2
3 0
1 2 0
") /\
  cnfshuffle_main [lit "-q"] input [1; 0; 3; 1; 2; 1] = ShmOracleEnd /\
  cnfshuffle_main [lit "-q"] input [1; 0; 4] = ShmOracleBad /\
  cnfshuffle_main [lit "-pvcq"] input [] = ShmOut None (lit "p cnf 3 2
1 -2 0
3 0
") /\
  cnfshuffle_main [lit "-p"; lit "--no-v"; lit "--no-clauses-permutation"; lit "--quiet"; lit "-S-3"; lit "-o"; lit "f.cnf"] input [7; 7]
    = ShmOut (Some (lit "f.cnf")) (lit "p cnf 3 2
1 -2 0
3 0
") /\
  cnfshuffle_main [lit "--no"] input [] = ShmCliError /\
  cnfshuffle_main [lit "-i"; lit "missing.cnf"] input [] = ShmCliError /\
  cnfshuffle_main [lit "x"] input [] = ShmCliError /\
  cnfshuffle_main [lit "-h"] input [] = ShmOutside /\
  cnfshuffle_main [] (lit "p cnf 3 1
4 0
") [] = ShmCliError /\
  cnfshuffle_main_env (ShmEnv (String.String "v"%char String.EmptyString) [(lit "a.cnf", input)] []) [lit "-pvc"; lit "-i"; lit "a.cnf"] [] [] =
    ShmOut None (lit "c description: Formula from DIMACS file a.cnf (reshuffled)
c generator: CNFgen (v)
c copyright: (C) 2012-2022 Massimo Lauria <massimo.lauria@uniroma1.it>
c url: https://massimolauria.net/cnfgen
c transformation 1: Formula reshuffling
c
p cnf 3 2
1 -2 0
3 0
").
Proof. vm_compute. repeat split. Qed.

(* random.shuffle([10,20,30,40]) with _randbelow results 1, 0, 1 (i = 3, 2, 1); a rejected value (5 >= 4) is skipped *)
Example cnfshuffle_shuffle_nonvacuous :
  shm_draws (shm_down 3) [5; 1; 0; 3; 1] = DrOk [1; 0; 1] [] /\
  shm_shuffle_list [1; 0; 1] [10; 20; 30; 40] = [30; 40; 10; 20] /\
  shm_bounds false false false 3 4 = [2; 2; 2; 3; 2; 4; 3; 2].
Proof. vm_compute. repeat split. Qed.
