(* C03_UtilFacts.v — lemmas about the enumerators of C03_Util.v / Comb.v. *)
From Coq Require Import ZArith List Bool Lia ZifyBool FinFun.
From Cnfgen Require Import Sem Comb Linear IR SemFacts LinearFacts IRFacts C03_Util.
Import ListNotations.
Open Scope Z_scope.
Ltac Zify.zify_post_hook ::= Z.to_euclidean_division_equations.

Lemma In_zrange x a b : In x (zrange a b) <-> a <= x < b.
Proof.
  unfold zrange. rewrite in_map_iff. split.
  - intros [i [E Hi]]. apply in_seq in Hi. lia.
  - intros H. exists (Z.to_nat (x - a)). split; [lia|]. apply in_seq. lia.
Qed.

Lemma In_vrange v n : In v (vrange n) <-> 1 <= v <= n.
Proof. unfold vrange. rewrite In_zrange. lia. Qed.

Lemma zrange_nil a b : b <= a -> zrange a b = [].
Proof. intros H. unfold zrange. replace (Z.to_nat (b - a)) with O by lia. reflexivity. Qed.

Lemma zrange_cons a b : a < b -> zrange a b = a :: zrange (a + 1) b.
Proof.
  intros H. unfold zrange. replace (Z.to_nat (b - a)) with (S (Z.to_nat (b - (a + 1)))) by lia.
  cbn [seq map]. f_equal; [lia|]. rewrite <- seq_shift, map_map. apply map_ext. intros i. lia.
Qed.

Lemma zrange_snoc a b : a <= b -> zrange a (b + 1) = zrange a b ++ [b].
Proof.
  intros H. unfold zrange. replace (Z.to_nat (b + 1 - a)) with (Z.to_nat (b - a) + 1)%nat by lia.
  rewrite seq_app, map_app. cbn [seq map]. do 2 f_equal. lia.
Qed.

Lemma zrange_length a b : length (zrange a b) = Z.to_nat (b - a).
Proof. unfold zrange. now rewrite map_length, seq_length. Qed.

Lemma zrange_nth a b i : (i < Z.to_nat (b - a))%nat -> nth i (zrange a b) 0 = a + Z.of_nat i.
Proof.
  intros H. unfold zrange.
  rewrite nth_indep with (d' := a + Z.of_nat 0) by now rewrite map_length, seq_length.
  change (a + Z.of_nat 0) with ((fun i => a + Z.of_nat i) O). rewrite map_nth, seq_nth by assumption. reflexivity.
Qed.

Lemma NoDup_zrange a b : NoDup (zrange a b).
Proof.
  unfold zrange. apply Injective_map_NoDup; [|apply seq_NoDup]. intros i j H. lia.
Qed.

(* ---------- pairs and triples ---------- *)
Lemma In_pairs_lt u v n : In (u, v) (pairs_lt n) <-> 1 <= u /\ u < v /\ v <= n.
Proof.
  unfold pairs_lt. rewrite in_flat_map. split.
  - intros [u' [Hu H]]. apply in_flat_map in H as [v' [Hv H]].
    apply In_vrange in Hu, Hv. destruct (Z.ltb_spec u' v'); [|contradiction].
    destruct H as [H|[]]. inversion H; subst. lia.
  - intros H. exists u. split; [apply In_vrange; lia|]. apply in_flat_map. exists v.
    split; [apply In_vrange; lia|]. destruct (Z.ltb_spec u v); [now left|lia].
Qed.

Lemma In_triples_lt a b c n : In (a, b, c) (triples_lt n) <-> 1 <= a /\ a < b /\ b < c /\ c <= n.
Proof.
  unfold triples_lt. rewrite in_flat_map. split.
  - intros [a' [Ha H]]. apply in_flat_map in H as [b' [Hb H]]. apply in_flat_map in H as [c' [Hc H]].
    apply In_vrange in Ha, Hb, Hc.
    destruct (Z.ltb_spec a' b'); destruct (Z.ltb_spec b' c'); cbn in H; try contradiction.
    destruct H as [H|[]]. inversion H; subst. lia.
  - intros H. exists a. split; [apply In_vrange; lia|]. apply in_flat_map. exists b.
    split; [apply In_vrange; lia|]. apply in_flat_map. exists c. split; [apply In_vrange; lia|].
    destruct (Z.ltb_spec a b); destruct (Z.ltb_spec b c); cbn; try lia. now left.
Qed.

Lemma In_triples_ne a b c n : In (a, b, c) (triples_ne n) <->
  1 <= a <= n /\ 1 <= b <= n /\ 1 <= c <= n /\ a <> b /\ b <> c /\ a <> c.
Proof.
  unfold triples_ne. rewrite in_flat_map. split.
  - intros [a' [Ha H]]. apply in_flat_map in H as [b' [Hb H]]. apply in_flat_map in H as [c' [Hc H]].
    apply In_vrange in Ha, Hb, Hc.
    destruct (Z.eqb_spec a' b'); destruct (Z.eqb_spec b' c'); destruct (Z.eqb_spec a' c'); cbn in H; try contradiction.
    destruct H as [H|[]]. inversion H; subst. lia.
  - intros H. exists a. split; [apply In_vrange; lia|]. apply in_flat_map. exists b.
    split; [apply In_vrange; lia|]. apply in_flat_map. exists c. split; [apply In_vrange; lia|].
    destruct (Z.eqb_spec a b); destruct (Z.eqb_spec b c); destruct (Z.eqb_spec a c); cbn; try lia. now left.
Qed.

(* ---------- adjacency lists ---------- *)

Lemma nthZ_mem {A} (l : list (list A)) v : 1 <= v <= len l -> In (nthZ l v) l.
Proof. unfold nthZ, len. intros H. apply nth_In. lia. Qed.

Lemma nthZ_out {A} (l : list (list A)) v : len l < v -> nthZ l v = [].
Proof. unfold nthZ, len. intros H. apply nth_overflow. lia. Qed.

Lemma In_nth_vrange {A} (l : list (list A)) x : In x l -> exists v, 1 <= v <= len l /\ nthZ l v = x.
Proof.
  intros H. apply (In_nth _ _ []) in H as [i [Hi E]].
  exists (Z.of_nat i + 1). unfold nthZ, len. split; [lia|]. replace (Z.to_nat (Z.of_nat i + 1 - 1)) with i by lia. exact E.
Qed.

Lemma memZ_spec x l : memZ x l = true <-> In x l.
Proof.
  unfold memZ. rewrite existsb_exists. split.
  - intros [y [Hy E]]. apply Z.eqb_eq in E. now subst.
  - intros H. exists x. split; [assumption|apply Z.eqb_refl].
Qed.

Lemma prefix_len_nonneg {A} (l : list (list A)) k : 0 <= prefix_len l k.
Proof.
  revert l. induction k as [|k IH]; intros l; [destruct l; cbn; lia|].
  destruct l as [|x t]; cbn [prefix_len]; [lia|]. pose proof (IH t). pose proof (len_nonneg x). lia.
Qed.

Lemma indexZ_nonneg x l : 0 <= indexZ x l.
Proof. induction l as [|y t IH]; cbn [indexZ]; [lia|]. destruct (x =? y); lia. Qed.

(* ---------- itertools.product ---------- *)
Lemma In_prod {A} (x : list A) ls : In x (prod ls) <-> Forall2 (fun a l => In a l) x ls.
Proof.
  revert x. induction ls as [|l t IH]; intros x; cbn [prod].
  - split.
    + intros [H|[]]. subst. constructor.
    + intros H. inversion H. now left.
  - rewrite in_flat_map. split.
    + intros [a [Ha H]]. apply in_map_iff in H as [y [E Hy]]. subst. constructor; [assumption|]. now apply IH.
    + intros H. inversion H as [|a l' y t' Ha Hy]; subst. exists a. split; [assumption|].
      apply in_map_iff. exists y. split; [reflexivity|]. now apply IH.
Qed.

(* ---------- clause lists as builder calls ---------- *)
Lemma clauses_ir_cnf F : to_cnf (clauses_ir F) = F.
Proof. apply to_cnf_clauses. Qed.
Lemma clauses_ir_hold a F : irs_hold a (clauses_ir F) = cnf_sat a F.
Proof. apply irs_hold_clauses. Qed.
Lemma clauses_ir_opb a F : opb_sat a (to_opb (clauses_ir F)) = cnf_sat a F.
Proof.
  unfold clauses_ir, to_opb. induction F as [|c t IH]; [reflexivity|].
  cbn [map flat_map ir_opb]. rewrite opb_sat_app, IH. unfold opb_sat at 1. cbn [forallb].
  rewrite opb_clause_sem, andb_true_r. reflexivity.
Qed.

(* negative literal of a positive variable *)
Lemma clause_false_iff a c : clause_sat a c = false <-> forall l, In l c -> lit_true a l = false.
Proof.
  unfold clause_sat. split.
  - intros H l Hl. destruct (lit_true a l) eqn:E; [|reflexivity].
    assert (existsb (lit_true a) c = true) by (apply existsb_exists; eauto). congruence.
  - intros H. destruct (existsb (lit_true a) c) eqn:E; [|reflexivity].
    apply existsb_exists in E as [l [Hl E]]. rewrite H in E by assumption. discriminate.
Qed.
