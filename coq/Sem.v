(* Sem.v — semantics of clauses, CNFs and pseudo-Boolean constraints.
   Definitions only (the model must keep extracting when a proof breaks). *)
From Coq Require Import ZArith List Bool.
Import ListNotations.
Open Scope Z_scope.

Definition lit := Z.
Definition clause := list Z.
Definition cnf := list (list Z).
Definition assignment := Z -> bool.

(* value of a literal: variables are the positive integers *)
Definition lit_true (a : Z -> bool) (l : Z) : bool :=
  if l >? 0 then a l else negb (a (- l)).
Definition clause_sat (a : Z -> bool) (c : list Z) : bool := existsb (lit_true a) c.
Definition cnf_sat (a : Z -> bool) (F : list (list Z)) : bool := forallb (clause_sat a) F.

Definition nonzero (l : Z) : bool := negb (l =? 0).
Definition lits_ok (ls : list Z) : bool := forallb nonzero ls.

Definition b2z (b : bool) : Z := if b then 1 else 0.
Definition len {A} (l : list A) : Z := Z.of_nat (length l).

(* number of true literals, counted by position (repetitions count twice) *)
Fixpoint count_true (a : Z -> bool) (ls : list Z) : Z :=
  match ls with
  | [] => 0
  | l :: t => b2z (lit_true a l) + count_true a t
  end.

Fixpoint parity_of (a : Z -> bool) (ls : list Z) : bool :=
  match ls with
  | [] => false
  | l :: t => xorb (lit_true a l) (parity_of a t)
  end.

(* pseudo-Boolean constraints: sum of coeff * literal  op  degree *)
Inductive pbop := PLe | PGe | PLt | PGt | PEq.
Record pbc := mkpbc { pb_terms : list (Z * Z); pb_op : pbop; pb_deg : Z }.

Fixpoint pb_lhs (a : Z -> bool) (ts : list (Z * Z)) : Z :=
  match ts with
  | [] => 0
  | (c, l) :: t => c * b2z (lit_true a l) + pb_lhs a t
  end.

Definition pbop_holds (o : pbop) (x y : Z) : bool :=
  match o with
  | PLe => x <=? y | PGe => x >=? y | PLt => x <? y | PGt => x >? y | PEq => x =? y
  end.
Definition pb_sat (a : Z -> bool) (c : pbc) : bool :=
  pbop_holds (pb_op c) (pb_lhs a (pb_terms c)) (pb_deg c).
Definition opb_sat (a : Z -> bool) (F : list pbc) : bool := forallb (pb_sat a) F.

(* largest variable mentioned *)
Definition max_var_clause (c : list Z) : Z := fold_right (fun l m => Z.max (Z.abs l) m) 0 c.
Definition max_var (F : list (list Z)) : Z := fold_right (fun c m => Z.max (max_var_clause c) m) 0 F.
Definition lits_in_range (n : Z) (F : list (list Z)) : bool :=
  forallb (forallb (fun l => nonzero l && (Z.abs l <=? n))) F.
