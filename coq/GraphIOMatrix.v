(* GraphIOMatrix.v -- the matrix format: write then read is the identity; reader soundness. *)
From Coq Require Import ZArith List Bool Lia ZifyBool Ascii.
From Cnfgen Require Import GText GraphIO GTextFacts GraphIOFacts.
Import ListNotations.
Open Scope Z_scope.
Ltac Zify.zify_post_hook ::= Z.to_euclidean_division_equations.

(* ---------- consecutive integers ---------- *)
Definition zseq (k : Z) (len : nat) : list Z := map (fun j => k + Z.of_nat j) (seq 0 len).

Lemma zseq_S k len : zseq k (S len) = k :: zseq (k + 1) len.
Proof.
  unfold zseq. cbn [seq map]. f_equal; [lia|]. rewrite <- seq_shift, map_map.
  apply map_ext. intros j. lia.
Qed.
Lemma zseq_In k len x : In x (zseq k len) <-> k <= x < k + Z.of_nat len.
Proof.
  unfold zseq. rewrite in_map_iff. split.
  - intros [j [<- Hj]]. apply in_seq in Hj. lia.
  - intros H. exists (Z.to_nat (x - k)). split; [lia|]. apply in_seq. lia.
Qed.
Lemma zseq_app k a b : zseq k (a + b) = zseq k a ++ zseq (k + Z.of_nat a) b.
Proof.
  revert k. induction a as [|a IH]; intros k.
  - replace (k + Z.of_nat 0) with k by lia. reflexivity.
  - cbn [plus]. rewrite !zseq_S, IH. replace (k + Z.of_nat (S a)) with (k + 1 + Z.of_nat a) by lia. reflexivity.
Qed.
Lemma range1_zseq n : gt_range1 n = zseq 1 (Z.to_nat n).
Proof. unfold gt_range1, zseq. rewrite <- seq_shift, map_map. apply map_ext. intros j. lia. Qed.
Lemma zseq_shift k d len : zseq (k + d) len = map (fun j => j + d) (zseq k len).
Proof. unfold zseq. rewrite map_map. apply map_ext. intros j. lia. Qed.

(* row-major enumeration: the k-th cell of an n x m table is (k/m+1, k mod m+1) *)
Lemma flat_rows {A} (f : Z -> Z -> A) m : 0 <= m -> forall N : nat,
  flat_map (fun u => map (f u) (gt_range1 m)) (gt_range1 (Z.of_nat N)) =
  map (fun k => f (k / m + 1) (k mod m + 1)) (zseq 0 (N * Z.to_nat m)).
Proof.
  intros Hm. induction N as [|N IH]; [reflexivity|].
  rewrite (range1_zseq (Z.of_nat (S N))), Nat2Z.id. replace (S N) with (N + 1)%nat by lia.
  rewrite zseq_app, flat_map_app. rewrite (range1_zseq (Z.of_nat N)), Nat2Z.id in IH. rewrite IH.
  replace ((N + 1) * Z.to_nat m)%nat with (N * Z.to_nat m + Z.to_nat m)%nat by lia.
  rewrite zseq_app, map_app. f_equal.
  cbn [zseq seq map flat_map]. rewrite app_nil_r.
  rewrite (range1_zseq m). replace (0 + Z.of_nat (N * Z.to_nat m)) with (Z.of_nat N * m) by lia.
  replace (Z.of_nat N * m) with (1 + (Z.of_nat N * m - 1)) at 1 by lia.
  rewrite (zseq_shift 1 (Z.of_nat N * m - 1)).
  rewrite map_map. apply map_ext_in. intros j Hj. apply zseq_In in Hj.
  assert (E1 : (j + (Z.of_nat N * m - 1)) / m = Z.of_nat N).
  { symmetry. apply (Z.div_unique _ m (Z.of_nat N) (j - 1)); lia. }
  assert (E2 : (j + (Z.of_nat N * m - 1)) mod m = j - 1).
  { symmetry. apply (Z.mod_unique _ m (Z.of_nat N) (j - 1)); lia. }
  rewrite E1, E2. f_equal; lia.
Qed.

(* ---------- the reader on a well-formed stream ---------- *)
Definition mcell (m k : Z) : Z * Z := (k / m + 1, k mod m + 1).

Lemma entries_unfold s k total m G : gio_matrix_entries s k total m G =
  if k >=? total then GOk (G, s)
  else match s with
       | MGood b :: t =>
         if b =? 1 then gio_bind (gio_add_edge G (k / m + 1) (k mod m + 1))
                                 (fun G' => gio_matrix_entries t (k + 1) total m G')
         else if b =? 0 then gio_matrix_entries t (k + 1) total m G
         else GRaise EValueError
       | _ => GRaise EValueError
       end.
Proof. destruct s; reflexivity. Qed.

Lemma with_edges_self G : gio_with_edges G (io_edges G) = G.
Proof. destruct G; reflexivity. Qed.

Lemma entries_forward (b : Z -> Z) total m rest : forall len k G,
  io_kind G = GioBipartite -> k + Z.of_nat len = total ->
  (forall j, In j (zseq k len) -> b j = 0 \/ (b j = 1 /\ edge_ok G (mcell m j))) ->
  gio_matrix_entries (map (fun j => MGood (b j)) (zseq k len) ++ rest) k total m G =
  GOk (gio_with_edges G (insert_all (map (mcell m) (filter (fun j => b j =? 1) (zseq k len))) (io_edges G)), rest).
Proof.
  induction len as [|len IH]; intros k G HK Hk Hb.
  - cbn [zseq seq map app filter]. rewrite entries_unfold. replace (k >=? total) with true by lia.
    unfold insert_all. cbn [fold_left]. now rewrite with_edges_self.
  - rewrite zseq_S. cbn [map app filter]. rewrite entries_unfold. replace (k >=? total) with false by lia.
    assert (Hk0 : In k (zseq k (S len))) by (apply zseq_In; lia).
    assert (Hrest : forall j, In j (zseq (k + 1) len) -> In j (zseq k (S len))).
    { intros j Hj. apply zseq_In in Hj. apply zseq_In. lia. }
    destruct (Hb k Hk0) as [E|[E Hok]]; rewrite E.
    + cbn [Z.eqb]. apply IH; [exact HK|lia|]. intros j Hj. apply Hb. now apply Hrest.
    + cbn [Z.eqb Pos.eqb]. unfold mcell in Hok. rewrite add_edge_ok by exact Hok. cbn [gio_bind].
      rewrite IH.
      * rewrite with_edges_twice, with_edges_edges, HK. reflexivity.
      * exact HK.
      * lia.
      * intros j Hj. destruct (Hb j (Hrest j Hj)) as [E0|[E1 Hok1]]; [left; exact E0|right].
        split; [exact E1|]. now apply edge_ok_with_edges.
Qed.

(* ---------- the writer, line by line ---------- *)
Definition bitZ (b : bool) : Z := if b then 1 else 0.
Lemma bit_print (b : bool) : (if b then [gt_one] else [gt_zero]) = gt_print_Z (bitZ b).
Proof. destruct b; reflexivity. Qed.

Lemma join_cons sep x t : gt_join sep (x :: t) = x ++ concat (map (fun w => sep ++ w) t).
Proof.
  revert x. induction t as [|y t IH]; intros x.
  - cbn. now rewrite app_nil_r.
  - change (gt_join sep (x :: y :: t)) with (x ++ sep ++ gt_join sep (y :: t)). rewrite IH. cbn [map concat]. now rewrite <- app_assoc.
Qed.

Lemma split_ws_nl : gt_split_ws [gt_nl] = []. Proof. reflexivity. Qed.

Lemma token_nonspace w : Forall plainc w -> Forall (fun c => gt_is_space c = false) w.
Proof. intros H. eapply Forall_impl; [|exact H]. intros c [K _]. exact K. Qed.

(* " ".join(tokens) + "\n" is split back into the tokens *)
Lemma split_ws_join ws : Forall (fun w => w <> [] /\ Forall plainc w) ws ->
  gt_split_ws (gt_join [gt_sp] ws ++ [gt_nl]) = ws.
Proof.
  intros HF. destruct ws as [|w t]; [reflexivity|].
  inversion HF as [|x l [Hne Hw] Hl]; subst. rewrite join_cons, <- app_assoc.
  rewrite split_ws_word; [| exact Hne | now apply token_nonspace |].
  - change (fun w0 => [gt_sp] ++ w0) with (fun w0 : gt_str => gt_sp :: w0).
    rewrite split_ws_tokens; [|exact Hl|exact space_nl]. now rewrite split_ws_nl, app_nil_r.
  - destruct t; cbn; reflexivity.
Qed.

Lemma join_no_nl ws : Forall (fun w => Forall plainc w) ws -> no_nl (gt_join [gt_sp] ws).
Proof.
  intros HF. destruct ws as [|w t]; [constructor|]. rewrite join_cons.
  inversion HF as [|x l Hw Hl]; subst. apply Forall_app. split; [now apply plain_no_nl|]. clear HF.
  induction Hl as [|y l Hy Hl IH]; [constructor|]. cbn [map concat]. apply Forall_app. split; [|exact IH].
  constructor; [reflexivity|]. now apply plain_no_nl.
Qed.

Lemma prints_tokens zs : Forall (fun w => w <> [] /\ Forall plainc w) (map gt_print_Z zs).
Proof.
  apply Forall_forall. intros w Hw. apply in_map_iff in Hw as [z [<- _]].
  destruct (print_Z_plain z) as [H1 H2]. split; assumption.
Qed.

(* a line of non negative integers: what scan_integer delivers *)
Lemma matrix_line_ints zs : Forall (fun z => 0 <= z) zs ->
  gio_matrix_line (gt_join [gt_sp] (map gt_print_Z zs) ++ [gt_nl]) = map MGood zs.
Proof.
  intros Hz. unfold gio_matrix_line. rewrite split_ws_join by apply prints_tokens.
  destruct zs as [|z t]; [reflexivity|]. cbn [map].
  destruct (print_Z_plain z) as [_ Hne]. destruct (gt_print_Z z) as [|c r] eqn:E; [congruence|].
  inversion Hz as [|x l Hz0 _]; subst.
  rewrite (print_Z_first_not c z r gt_hash E Hz0) by (rewrite code_hash; lia).
  rewrite <- E. change (gt_print_Z z :: map gt_print_Z t) with (map gt_print_Z (z :: t)).
  now rewrite ints_print.
Qed.

Lemma matrix_line_no_nl zs : no_nl (gt_join [gt_sp] (map gt_print_Z zs)).
Proof.
  apply join_no_nl. apply Forall_forall. intros w Hw. apply in_map_iff in Hw as [z [<- _]].
  apply print_Z_plain.
Qed.

(* the written file as a list of integer rows *)
Definition matrix_rows (G : iograph) : list (list Z) :=
  [io_n G; io_r G] :: map (fun u => map (fun v => bitZ (gio_has_edge G u v)) (gt_range1 (io_r G))) (gt_range1 (io_n G)).

Lemma write_matrix_rows G : gio_write_matrix G =
  concat (map (fun r => r ++ [gt_nl]) (map (fun zs => gt_join [gt_sp] (map gt_print_Z zs)) (matrix_rows G))).
Proof.
  unfold gio_write_matrix, matrix_rows. cbn [map concat gt_join]. rewrite <- !app_assoc. cbn [app].
  do 4 f_equal. rewrite !map_map. f_equal. apply map_ext. intros u. do 2 f_equal.
  rewrite map_map. apply map_ext. intros v. apply bit_print.
Qed.

Lemma matrix_stream_written G : 0 <= io_n G -> 0 <= io_r G ->
  gio_matrix_stream (gt_lines (gio_write_matrix G)) = map MGood (concat (matrix_rows G)).
Proof.
  intros Hn Hr. rewrite write_matrix_rows. rewrite <- (app_nil_r (concat _)).
  rewrite lines_rows.
  2:{ apply Forall_forall. intros r Hr'. apply in_map_iff in Hr' as [zs [<- _]]. apply matrix_line_no_nl. }
  cbn [gt_lines]. rewrite app_nil_r. unfold gio_matrix_stream. rewrite !map_map.
  assert (Hall : Forall (Forall (fun z => 0 <= z)) (matrix_rows G)).
  { unfold matrix_rows. constructor; [repeat constructor; assumption|].
    apply Forall_forall. intros r Hin. apply in_map_iff in Hin as [u [<- _]].
    apply Forall_forall. intros z Hz. apply in_map_iff in Hz as [v [<- _]]. unfold bitZ. destruct (gio_has_edge G u v); lia. }
  induction Hall as [|zs l Hzs Hl IH]; [reflexivity|].
  cbn [map flat_map concat]. rewrite map_app. f_equal; [|exact IH]. now apply matrix_line_ints.
Qed.

(* ---------- write then read ---------- *)
Theorem matrix_roundtrip G : gio_wf G -> io_kind G = GioBipartite ->
  gio_read_matrix (gio_write_matrix G) = GOk (mkIOG GioBipartite [] (io_n G) (io_r G) (io_edges G)).
Proof.
  intros (Hn & Hr & _ & Hs & Hf) HK. unfold gio_read_matrix.
  rewrite matrix_stream_written by assumption. unfold matrix_rows. cbn [concat map app gio_mpop gio_bind fst snd].
  rewrite new_ok by assumption. cbn [gio_bind].
  set (n := io_n G). set (m := io_r G).
  set (b := fun k => bitZ (gio_has_edge G (k / m + 1) (k mod m + 1))).
  assert (Hstream : map MGood (concat (map (fun u => map (fun v => bitZ (gio_has_edge G u v)) (gt_range1 m)) (gt_range1 n)))
                    = map (fun j => MGood (b j)) (zseq 0 (Z.to_nat n * Z.to_nat m)) ++ []).
  { rewrite app_nil_r, <- flat_map_concat_map.
    pose proof (flat_rows (fun u v => bitZ (gio_has_edge G u v)) m Hr (Z.to_nat n)) as FR.
    rewrite Z2Nat.id in FR by exact Hn. rewrite FR, map_map. reflexivity. }
  rewrite Hstream. set (G0 := mkIOG GioBipartite [] n m []).
  assert (Hedge : forall j, b j = 1 -> In (mcell m j) (io_edges G)).
  { intros j Hj. unfold b, bitZ in Hj. destruct (gio_has_edge G (j / m + 1) (j mod m + 1)) eqn:E; [|discriminate].
    apply has_edge_In in E. rewrite HK in E. exact E. }
  rewrite (entries_forward b (n * m) m []).
  - cbn [gio_bind fst snd]. unfold G0, gio_with_edges. cbn [io_edges io_kind io_name io_n io_r]. do 2 f_equal.
    apply insert_all_rebuild; [exact Hs|]. intros [u v]. split.
    + intros Hin. apply in_map_iff in Hin as [j [Hc Hj]]. apply filter_In in Hj as [_ Hj].
      rewrite <- Hc. apply Hedge. lia.
    + intros Hin. rewrite Forall_forall in Hf. pose proof (Hf _ Hin) as Hok. unfold edge_stored_ok in Hok.
      rewrite HK in Hok. cbn [fst snd] in Hok. fold n m in Hok.
      assert (D : ((u - 1) * m + (v - 1)) / m = u - 1) by (symmetry; apply (Z.div_unique _ m (u - 1) (v - 1)); lia).
      assert (M : ((u - 1) * m + (v - 1)) mod m = v - 1) by (symmetry; apply (Z.mod_unique _ m (u - 1) (v - 1)); lia).
      apply in_map_iff. exists ((u - 1) * m + (v - 1)). split.
      * unfold mcell. rewrite D, M. f_equal; lia.
      * apply filter_In. split.
        -- apply zseq_In. split; [nia|]. rewrite Nat2Z.inj_mul, !Z2Nat.id by lia. nia.
        -- unfold b. rewrite D, M. replace (u - 1 + 1) with u by lia. replace (v - 1 + 1) with v by lia.
           assert (E : gio_has_edge G u v = true) by (apply has_edge_In; rewrite HK; exact Hin).
           rewrite E. reflexivity.
  - reflexivity.
  - rewrite Nat2Z.inj_mul, !Z2Nat.id by lia. lia.
  - intros j Hj. unfold b, bitZ. destruct (gio_has_edge G (j / m + 1) (j mod m + 1)) eqn:E; [right|left; reflexivity].
    split; [reflexivity|]. apply has_edge_In in E. rewrite HK in E. rewrite Forall_forall in Hf.
    pose proof (Hf _ E) as Hok. unfold edge_stored_ok in Hok. rewrite HK in Hok. unfold edge_ok, G0, mcell. cbn [io_kind io_n io_r]. exact Hok.
Qed.
