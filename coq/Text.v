(* Text.v — character-level utilities shared by the text writers and readers
   (DIMACS, OPB, LaTeX).  Definitions only.

   Models (CPython 3.12 semantics, restricted to 8-bit characters = code points
   0..255; a text is a `list ascii`, extracted to OCaml `char list`):
     str(int)                        -> print_Z
     str.isspace / the separator set of str.split() and str.strip()
                                     -> is_space  (9..13, 28..32, 0x85, 0xa0)
     str.split()  (no argument)      -> split_ws
     str.strip()  (no argument)      -> strip
     file.readlines() on a StringIO  -> split_lines        (breaks at "\n" only)
     file.readlines() on a file opened in text mode (universal newlines)
                                     -> split_lines (universal t)
     int(token) for a token that contains no white space (all callers pass
     tokens produced by split())     -> parse_int  =  [+-]? D (_? D)*  with the
                                        interpreter's default limit of 4300 digits
   Abstracted: code points above 255 (the harness never sends them to the model;
   for int() they would add the non-ASCII decimal digits); the terminator that
   readlines() keeps at the end of each line is dropped here (every caller
   strips the line first). *)
From Coq Require Import String ZArith List Bool Ascii.
Import ListNotations.
Open Scope Z_scope.

Notation text := (list ascii) (only parsing).
Definition lit (s : String.string) : text := String.list_ascii_of_string s.

Definition code (c : ascii) : Z := Z.of_N (N_of_ascii c).
Definition chr (z : Z) : ascii := ascii_of_N (Z.to_N z).

Definition LF : ascii := "010"%char.
Definition CR : ascii := "013"%char.
Definition SP : ascii := " "%char.

Definition is_lf (c : ascii) : bool := Ascii.eqb c LF.
Definition is_cr (c : ascii) : bool := Ascii.eqb c CR.

(* Python: str.isspace() for code points below 256 *)
Definition is_space (c : ascii) : bool :=
  let n := code c in
  ((9 <=? n) && (n <=? 13)) || ((28 <=? n) && (n <=? 32)) || (n =? 133) || (n =? 160).

Definition is_digit (c : ascii) : bool := let n := code c in (48 <=? n) && (n <=? 57).
Definition digit_val (c : ascii) : option Z :=
  if is_digit c then Some (code c - 48) else None.
Definition digit_chr (d : Z) : ascii := chr (48 + d).

(* ---- str(int) ---- *)
Fixpoint print_digits (fuel : nat) (z : Z) (acc : text) : text :=
  match fuel with
  | O => acc
  | S f => let acc' := digit_chr (z mod 10) :: acc in
           if z <? 10 then acc' else print_digits f (z / 10) acc'
  end.
(* fuel: one more than the bit length is enough (each step divides by ten) *)
Definition print_nonneg (z : Z) : text := print_digits (S (Z.to_nat (Z.log2 z))) z [].
Definition print_Z (z : Z) : text :=
  if z <? 0 then "-"%char :: print_nonneg (- z) else print_nonneg z.

(* ---- int(token) ---- *)
(* the part after a digit: more digits, each optionally preceded by ONE underscore *)
Fixpoint int_body (acc : Z) (s : text) : option Z :=
  match s with
  | [] => Some acc
  | c :: r =>
    match digit_val c with
    | Some d => int_body (10 * acc + d) r
    | None =>
      if Ascii.eqb c "_"%char then
        match r with
        | c2 :: r2 => match digit_val c2 with
                      | Some d => int_body (10 * acc + d) r2
                      | None => None
                      end
        | [] => None
        end
      else None
    end
  end.
Definition parse_unsigned (s : text) : option Z :=
  match s with
  | c :: _ => if is_digit c then int_body 0 s else None
  | [] => None
  end.
Definition count_digits (s : text) : Z := Z.of_nat (length (filter is_digit s)).
Definition max_str_digits : Z := 4300.
Definition parse_int (s : text) : option Z :=
  let '(neg, body) := match s with
                      | c :: r => if Ascii.eqb c "-"%char then (true, r)
                                  else if Ascii.eqb c "+"%char then (false, r) else (false, s)
                      | [] => (false, s)
                      end in
  if max_str_digits <? count_digits body then None
  else match parse_unsigned body with
       | Some v => Some (if neg then - v else v)
       | None => None
       end.

(* ---- splitting ---- *)
(* pieces between separators; a separator closes the piece on its left; what
   follows the last separator is a piece only when it is not empty
   (this is exactly readlines() for p = is_lf, minus the kept terminators) *)
Fixpoint split_on {A} (p : A -> bool) (s : list A) : list (list A) :=
  match s with
  | [] => []
  | c :: r =>
    if p c then [] :: split_on p r
    else match split_on p r with
         | [] => [[c]]
         | l :: ls => (c :: l) :: ls
         end
  end.
Definition nonempty {A} (l : list A) : bool := match l with [] => false | _ => true end.

Definition split_lines (s : text) : list text := split_on is_lf s.
Definition split_ws (s : text) : list text := filter nonempty (split_on is_space s).

(* universal newlines: "\r\n" and a lone "\r" are read as "\n" *)
Fixpoint universal (s : text) : text :=
  match s with
  | [] => []
  | c :: r =>
    if is_cr c then
      match r with
      | c2 :: r2 => if is_lf c2 then LF :: universal r2 else LF :: universal r
      | [] => [LF]
      end
    else c :: universal r
  end.

Fixpoint lstrip (s : text) : text :=
  match s with
  | [] => []
  | c :: r => if is_space c then lstrip r else s
  end.
Fixpoint rstrip (s : text) : text :=
  match s with
  | [] => []
  | c :: r => match rstrip r with
              | [] => if is_space c then [] else [c]
              | r' => c :: r'
              end
  end.
Definition strip (s : text) : text := rstrip (lstrip s).

(* joining pieces *)
Definition unlines (ls : list text) : text := concat (map (fun l => l ++ [LF]) ls).
