(* Property C12 (with C06 for --varnames and C19 for the header) for the WHOLE PROGRAMS `cnfgen` and `pbgen`:
   coq/PipelineTex.v extends the whole-program models (Pipeline.v, PipelinePb.v, PipelineHeader.v) to the LaTeX document
   (-l / --latex / -of latex / --output-format latex), to --varnames, and to the comment header of the sub-commands with
   a graph argument.  argv is sys.argv[1:]; `version` is info['version'] of the installation.
   Statements only; proofs in PipelineTexFacts.v.  Tied to the real tools byte for byte by harness/c12_pipeline.py.

   Vocabulary (definitions in PipelineTex.v / PipelineTexFacts.v):
     plt_cnf_opts argv = Some o      the output options the main parser of cnfgen reads in front of the formula name
     plt_cnf_run argv name toks g ts n0 n F
                                     argv is read as the sub-command g (formula name `name`, then the tokens `toks`) and
                                     the transformations ts; g builds a formula of n0 variables; the chain, left to right,
                                     gives (n, F), the object Pipeline.pl_run_with hands to the writer; literals within 1..n
     plt_pb_run argv name toks g n l the same for pbgen: l are the builder calls of g on n variables
     plt_labels dflt g n0 ts         the names of the variables: the label formats of the groups g creates
                                     (PipelineTex.plt_groups, through Vars.all_variable_labels), renamed by each
                                     transformation in turn; dflt is the default format ('x{}' or 'x_{}')
     plt_fdesc name toks g           header['description'] (for a graph argument: with the name of the graph)
     plt_latex_says doc title h names f
                                     doc = front part (preamble, title, header listing h, counts line) ++ body ++
                                     "\n\end{document}", body is the align blocks of f split every 35 rows, there are as
                                     many names as variables, and body DECODES (Latex.rows_of_latex, decode_lrow) to one
                                     row per clause / constraint, in order, each with exactly the literals of that clause
                                     as (polarity, variable name) -- coefficient, relation and bound for constraints
   The model writes names only after checking them (as many as variables, no white space inside, none beginning with
   \overline{); where the check fails it returns POutside, so every statement below is unconditional. *)
From Coq Require Import ZArith List Bool Ascii String.
From Cnfgen Require Import Sem Comb Linear IR Text Dimacs DimacsFacts OpbText OpbTextFacts Latex LatexFacts Header
     GraphSpec PipelineGraph Pipeline PipelineFacts PipelineHeader PipelinePb PipelinePbFacts PipelineTex PipelineTexFacts.
Import ListNotations.
Open Scope Z_scope.

(* ------------------------------------------------------------------ *)
(* the LaTeX document (C12 at the level of the tool)                   *)
(* ------------------------------------------------------------------ *)
(* for every argv of the grammar that selects LaTeX: the document has one row per clause of the transformed family
   model, in order, and each row decodes to exactly that clause's literals with the names the family (and the
   transformations) give the variables, and their polarities *)
Theorem pipeline_latex_rows : forall version argv doc o, cnfgen_main_tex version argv = POut doc ->
  plt_cnf_opts argv = Some o -> plt_format o = FmtLatex ->
  exists name toks g ts n0 n F d,
    plt_cnf_run argv name toks g ts n0 n F /\ plt_fdesc name toks g = Some d /\
    plt_latex_says doc (lit d) (if plt_quiet o then None else Some (plt_header version argv d ts))
                   (map lit (plt_labels plt_x_ g n0 ts)) (FCnf n F).
Proof. exact cnfgen_tex_latex. Qed.
Print Assumptions pipeline_latex_rows.

(* pbgen: one row per constraint, with coefficients (shown when above 1), relation and bound *)
Theorem pipeline_latex_rows_pb : forall version argv doc o, pbgen_main_tex version argv = POut doc ->
  plt_pb_opts argv = Some o -> plt_format o = FmtLatex ->
  exists name toks g n l d,
    plt_pb_run argv name toks g n l /\ plt_fdesc name toks g = Some d /\
    plt_latex_says doc (lit d) (if plt_quiet o then None else Some (plt_pb_header version argv d))
                   (map lit (plt_labels plt_x_ g n [])) (FOpb n (to_opb l)).
Proof. exact pbgen_tex_latex. Qed.
Print Assumptions pipeline_latex_rows_pb.

(* what plt_latex_says unfolds to (kept here so that the statement can be read without the proof file) *)
Theorem pipeline_latex_says_meaning : forall doc title h names f, plt_latex_says doc title h names f <->
  exists body rows lrows,
    doc = plt_doc_front title h plt_extra_text f ++ body ++ LF :: lit "\end{document}" /\
    print_latex names 35 false f = Some body /\
    len names = numvar f /\
    rows_of_latex (is_opb f) body = (negb (nonempty rows), rows) /\
    formula_litrows names f = Some lrows /\
    map decode_lrow rows = map Some lrows /\
    List.length lrows = List.length (constraints f).
Proof. exact (fun doc title h names f => conj (fun x => x) (fun x => x)). Qed.
Print Assumptions pipeline_latex_says_meaning.

(* ------------------------------------------------------------------ *)
(* --varnames (C06 / C12 at the level of the tool)                     *)
(* ------------------------------------------------------------------ *)
(* plt_dimacs_names_say t h names n F :=
     t = unlines (header entries of h ++ [c varname 1 name_1; ...; c varname n name_n] ++ [c; p cnf n m] ++ clause lines)
     /\ len names = n /\ (printable n -> printable (len F) -> forall u, parse_dimacs u t = DOk n F)
   i.e. the names lines list exactly the variables 1..n, in order, with the labels of the family, and the text still
   reads back as the formula (both newline conventions of the reader) *)
Theorem pipeline_varnames : forall version argv t o, cnfgen_main_tex version argv = POut t ->
  plt_cnf_opts argv = Some o -> plt_format o = FmtDimacs -> plt_varnames o = true ->
  exists name toks g ts n0 n F hh,
    plt_cnf_run argv name toks g ts n0 n F /\
    plt_header_choice (plt_quiet o) (option_map (fun d => plt_header version argv d ts) (plt_fdesc name toks g)) = Some hh /\
    plt_dimacs_names_say t hh (map lit (plt_labels plt_x g n0 ts)) n F.
Proof. exact cnfgen_tex_varnames. Qed.
Print Assumptions pipeline_varnames.

Theorem pipeline_varnames_meaning : forall t h names n F, plt_dimacs_names_say t h names n F <->
  t = unlines (comment_entries h None ++ plt_varname_lines 1 names ++ [lit "c"] ++ [spec_line n (len F)] ++ map clause_line F) /\
  len names = n /\
  (printable n -> printable (len F) -> forall u, parse_dimacs u t = DOk n F).
Proof. exact (fun t h names n F => conj (fun x => x) (fun x => x)). Qed.
Print Assumptions pipeline_varnames_meaning.

(* the k-th names line (k from 0) is "c varname <k+1> <k-th name>" *)
Theorem pipeline_varname_line : forall names i k nm, nth_error names k = Some nm ->
  nth_error (plt_varname_lines i names) k = Some (lit "c varname " ++ print_Z (i + Z.of_nat k) ++ [SP] ++ nm).
Proof. exact plt_varname_lines_nth. Qed.
Print Assumptions pipeline_varname_line.

(* with -of opb (cnfgen) and for pbgen: the OPB writer with the same names; the text reads back *)
Theorem pipeline_varnames_opb : forall version argv t o, cnfgen_main_tex version argv = POut t ->
  plt_cnf_opts argv = Some o -> plt_format o = FmtOpb -> plt_varnames o = true ->
  exists name toks g ts n0 n F hh,
    plt_cnf_run argv name toks g ts n0 n F /\
    plt_header_choice (plt_quiet o) (option_map (fun d => plt_header version argv d ts) (plt_fdesc name toks g)) = Some hh /\
    let names := map lit (plt_labels plt_x g n0 ts) in
    t = print_opb hh (Some names) (FCnf n F) /\ len names = n /\
    (printable n -> printable (len F) -> parse_opb t = OOk n (map clause_pbc F)).
Proof. exact cnfgen_tex_varnames_opb. Qed.
Print Assumptions pipeline_varnames_opb.

Theorem pipeline_varnames_pb : forall version argv t o, pbgen_main_tex version argv = POut t ->
  plt_pb_opts argv = Some o -> plt_format o = FmtOpb -> plt_varnames o = true ->
  exists name toks g n l hh,
    plt_pb_run argv name toks g n l /\
    plt_header_choice (plt_quiet o) (option_map (fun d => plt_pb_header version argv d) (plt_fdesc name toks g)) = Some hh /\
    let names := map lit (plt_labels plt_x g n []) in
    t = print_opb hh (Some names) (FOpb n (to_opb l)) /\ len names = n /\
    (opb_printable (FOpb n (to_opb l)) -> parse_opb t = OOk n (to_opb l)).
Proof. exact pbgen_tex_varnames. Qed.
Print Assumptions pipeline_varnames_pb.

(* ------------------------------------------------------------------ *)
(* the comment header, graph sub-commands included (C19 provenance)    *)
(* ------------------------------------------------------------------ *)
(* without the new options: header (when -q is absent) followed by the formula, written by the writers of Pipeline.v;
   the text reads back as the formula *)
Theorem pipeline_graph_header_output : forall version argv t o, cnfgen_main_tex version argv = POut t ->
  plt_cnf_opts argv = Some o -> plt_format o <> FmtLatex -> plt_varnames o = false ->
  exists name toks g ts n0 n F hh,
    plt_cnf_run argv name toks g ts n0 n F /\
    plt_header_choice (plt_quiet o) (option_map (fun d => plt_header version argv d ts) (plt_fdesc name toks g)) = Some hh /\
    t = pl_write (plt_is_opb (plt_format o)) hh n F /\
    (printable n -> printable (len F) -> pl_reads_back (plt_is_opb (plt_format o)) t n F).
Proof. exact cnfgen_tex_plain. Qed.
Print Assumptions pipeline_graph_header_output.

(* the header is: description, generator, copyright, url of the generated formula, then `transformation 1..k` for the
   k steps that record an entry, in the order applied, then the command line -- nothing else (as pipeline_header_shape,
   now for every description) *)
Theorem pipeline_graph_header_shape : forall version argv d ts,
  plt_header version argv d ts =
  plh_render (List.app (plh_fresh version d) (List.app (number_from 0 (flat_map pl_tdesc ts))
              [(KO "command line", String.append "cnfgen " (plh_join " " argv))])).
Proof. exact plt_header_shape. Qed.
Print Assumptions pipeline_graph_header_shape.

Theorem pipeline_graph_header_shape_pb : forall version argv d,
  plt_pb_header version argv d =
  plh_render (List.app (plh_fresh version d) [(KO "command line", String.append "pbgen " (plh_join " " argv))]).
Proof. exact plt_pb_header_shape. Qed.
Print Assumptions pipeline_graph_header_shape_pb.

(* the description: the one of PipelineHeader.pl_fdesc for the sub-commands without a graph argument; otherwise the
   text of the family around the name of the graph the graph argument builds *)
Theorem pipeline_graph_description : forall name toks g d, plt_fdesc name toks g = Some d ->
  pl_fdesc g = Some d \/
  (pl_fdesc g = None /\ exists gt vs c G, plt_graph_tokens name toks = Some (gt, vs) /\
     gs_make (0, 0) gt vs = inl (GSVOk [SGen c]) /\ plt_call_name c = Some G /\ plt_gdesc g G = Some d).
Proof. exact plt_fdesc_cases. Qed.
Print Assumptions pipeline_graph_description.

(* ------------------------------------------------------------------ *)
(* totality                                                            *)
(* ------------------------------------------------------------------ *)
(* for EVERY list of strings: a text, a clean command line error, or outside; never the crash value (in particular the
   LaTeX writer never meets a literal without a name) *)
Theorem pipeline_tex_total : forall version argv,
  (exists t, cnfgen_main_tex version argv = POut t) \/ cnfgen_main_tex version argv = PCliError \/
  cnfgen_main_tex version argv = POutside.
Proof. exact cnfgen_main_tex_total. Qed.
Print Assumptions pipeline_tex_total.

Theorem pipeline_tex_total_pb : forall version argv,
  (exists t, pbgen_main_tex version argv = POut t) \/ pbgen_main_tex version argv = PCliError \/
  pbgen_main_tex version argv = POutside.
Proof. exact pbgen_main_tex_total. Qed.
Print Assumptions pipeline_tex_total_pb.

Theorem pipeline_tex_fast_eq : forall version argv, cnfgen_main_tex_fast version argv = cnfgen_main_tex version argv.
Proof. exact cnfgen_main_tex_fast_eq. Qed.
Print Assumptions pipeline_tex_fast_eq.

(* ------------------------------------------------------------------ *)
(* the hypotheses are satisfiable                                      *)
(* ------------------------------------------------------------------ *)
Example pipeline_latex_rows_nonvacuous :
  plt_cnf_opts ["-q"; "-l"; "php"; "2"; "1"; "-T"; "xor"; "2"]%string = Some (mk_plt_opts true FmtLatex false) /\
  plt_labels plt_x_ (FcPhp 2 1 false false) 2 [TcXor 2] = ["{p_{1,1}}^1"; "{p_{1,1}}^2"; "{p_{2,1}}^1"; "{p_{2,1}}^2"]%string /\
  plt_labels plt_x_ (FcPhp 2 1 false false) 2 [TcFlip] = ["x_1"; "x_2"]%string /\
  plt_labels plt_x_ (FcPhp 2 1 false false) 2 [TcFlip; TcLift 1] = ["X_{x1}^1"; "Y_{x1}^1"; "X_{x2}^1"; "Y_{x2}^1"]%string /\
  plt_labels plt_x (FcOr 1 1) 2 [TcIte] = ["{{x_1}}^{i}"; "{{y_1}}^{i}"; "{{x_1}}^{t}"; "{{y_1}}^{t}"; "{{x_1}}^{e}"; "{{y_1}}^{e}"]%string /\
  cnfgen_main_tex "V" ["-q"; "-l"; "php"; "2"; "1"]%string = POut (lit "%
\documentclass[10pt,a4paper]{article}
\usepackage[margin=1in]{geometry}
\usepackage{amsmath}
\usepackage{listings}
\usepackage[utf8]{inputenc}
\begin{document}
\title{Pigeonhole principle formula for 2 pigeons and 1 holes}
\author{CNFgen formula generator}
\maketitle

\noindent\textbf{CNF with 2 variables and and 3 clauses:}
\begin{align}
&                  {p_{1,1}} \\
&                  {p_{2,1}} \\
&       {\overline{p}_{1,1}} \lor {\overline{p}_{2,1}}
\end{align}
\end{document}") /\
  formula_litrows (map lit (plt_labels plt_x_ (FcPhp 2 1 false false) 2 [])) (FCnf 2 [[1]; [2]; [-1; -2]]) =
    Some [LClause [(true, lit "p_{1,1}")]; LClause [(true, lit "p_{2,1}")]; LClause [(false, lit "p_{1,1}"); (false, lit "p_{2,1}")]] /\
  cnfgen_main_tex "V" ["-l"; "-of"; "latex"; "php"; "2"; "1"]%string = PCliError /\
  cnfgen_main_tex "V" ["-l"; "--varname"; "php"; "2"; "1"]%string = POutside /\
  pbgen_main_tex "V" ["-q"; "-of"; "latex"; "count"; "3"; "2"]%string = POut (lit "%
\documentclass[10pt,a4paper]{article}
\usepackage[margin=1in]{geometry}
\usepackage{amsmath}
\usepackage{listings}
\usepackage[utf8]{inputenc}
\begin{document}
\title{Counting Principle: 3 divided in parts of size 2.}
\author{CNFgen formula generator}
\maketitle

\noindent\textbf{Pseudo-boolean formula with 3 variables and and 3 constraints:}
\begin{align}
& {p_{1,2}} + {p_{1,3}} = 1 \\
& {p_{1,2}} + {p_{2,3}} = 1 \\
& {p_{1,3}} + {p_{2,3}} = 1
\end{align}
\end{document}") /\
  pbgen_main_tex "V" ["-of"; "dimacs"; "true"]%string = PCliError.
Proof. repeat split; vm_compute; reflexivity. Qed.

Example pipeline_varnames_nonvacuous :
  cnfgen_main_tex "V" ["-q"; "--varnames"; "kcolor"; "2"; "complete"; "2"]%string = POut (lit "c varname 1 x_{11}
c varname 2 x_{12}
c varname 3 x_{21}
c varname 4 x_{22}
c
p cnf 4 6
1 2 0
3 4 0
-1 -2 0
-3 -4 0
-1 -3 0
-2 -4 0
") /\
  pbgen_main_tex "V" ["--varnames"; "-q"; "php"; "2"; "1"]%string = POut (lit "* #variable= 2 #constraint= 3
* varname x1 p_{1,1}
* varname x2 p_{2,1}
*
+1 x1 >= 1
+1 x2 >= 1
+1 ~x1 +1 ~x2 >= 1
") /\
  plt_cnf_opts ["--varnames"; "-q"; "or"; "1"; "1"]%string = Some (mk_plt_opts true FmtDimacs true).
Proof. repeat split; vm_compute; reflexivity. Qed.

Example pipeline_graph_header_nonvacuous :
  cnfgen_main_tex "0.9.1" ["tseitin"; "first"; "complete"; "3"; "-T"; "flip"]%string = POut (lit "c description: Tseitin formula on the complete graph of order 3, with odd charge
c generator: CNFgen (0.9.1)
c copyright: (C) 2012-2022 Massimo Lauria <massimo.lauria@uniroma1.it>
c url: https://massimolauria.net/cnfgen
c transformation 1: All polarities have been flipped
c command line: cnfgen tseitin first complete 3 -T flip
c
p cnf 3 6
-1 -2 0
1 2 0
-1 3 0
1 -3 0
-2 3 0
2 -3 0
") /\
  cnfgen_main_env "0.9.1" ["tseitin"; "first"; "complete"; "3"; "-T"; "flip"]%string = POutside /\
  plt_fdesc (lit "subsetcard") (map lit ["shift"; "2"; "3"; "1"; "0"]%string) (FcSubsetcard [[1; 2]; [2; 3]] 3 false)
    = Some "Subset cardinality formula for Bipartite with 2,3 vertices and shifting edge pattern [0, 1]"%string /\
  plt_fdesc (lit "stone") (map lit ["2"; "pyramid"; "1"]%string) (FcStone 2 [[]; []; [1; 2]])
    = Some "Stone formula of Pyramid of height 1 with 2 stones"%string /\
  plt_fdesc (lit "php") (map lit ["--onto"; "complete"; "2"; "2"]%string) (FcGphp [[1; 2]; [1; 2]] 2 false true)
    = Some "Graph onto pigeonhole principle formula on Complete bipartite graph with (2,2) vertices"%string.
Proof. repeat split; vm_compute; reflexivity. Qed.
