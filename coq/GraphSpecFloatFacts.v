(* GraphSpecFloatFacts.v -- the two comparisons of GraphSpec.v with a decimal token, against their arithmetic meaning.
   A token read as (-1)^neg * m * 10^e is compared with 1 and with 0 AFTER rounding to the nearest double (ties to
   even).  With u = 2^-53 (half an ulp above 1) and t = 2^-1075 (half of the smallest subnormal):
       float(tok) <= 1   iff   m * 10^e <= 1 + u          (a tie at 1 + u rounds to the even neighbour 1.0)
       0 <= float(tok)   iff   tok is not negative, or m * 10^e <= t   (it is then read as -0.0, and 0 <= -0.0)
   The functions gs_le_one / gs_ge_zero decide this with shortcuts that avoid computing 10^|e| for huge exponents;
   here the shortcuts are shown to agree with the cross-multiplied inequalities, for every m > 0 and every e. *)
From Coq Require Import ZArith Lia.
From Cnfgen Require Import GraphSpec.
Open Scope Z_scope.

Lemma gs_pow2_le_pow10 j : 0 <= j -> 2 ^ j <= 10 ^ j.
Proof. intros H. apply Z.pow_le_mono_l. lia. Qed.

Lemma gs_pow8_le_pow10 k : 0 <= k -> 2 ^ (3 * k) <= 10 ^ k.
Proof.
  intros H. rewrite Z.pow_mul_r by lia. change (2 ^ 3) with 8. apply Z.pow_le_mono_l. lia.
Qed.

Lemma gs_lt_pow2_log2 m : 0 < m -> m < 2 ^ (Z.log2 m + 1).
Proof. intros H. pose proof (Z.log2_spec m H) as [_ L]. now rewrite <- Z.add_1_r in L. Qed.

Lemma gs_pow10_pos k : 0 < 10 ^ k \/ k < 0.
Proof. destruct (Z_lt_le_dec k 0); [now right|left; apply Z.pow_pos_nonneg; lia]. Qed.

(* float(m * 10^e) <= 1.0 *)
Theorem gs_le_one_spec m e : 0 < m ->
  (gs_le_one (GSDec false m e) = true <->
   m * 2 ^ 53 * 10 ^ (Z.max 0 e) <= (2 ^ 53 + 1) * 10 ^ (Z.max 0 (- e))).
Proof.
  intros Hm. unfold gs_le_one.
  destruct (m =? 0) eqn:E0; [lia|].
  destruct (0 <=? e) eqn:Ee.
  - apply Z.leb_le in Ee. rewrite (Z.max_r 0 e) by lia. rewrite (Z.max_l 0 (- e)) by lia.
    change (10 ^ 0) with 1. rewrite Z.mul_1_r.
    assert (P : 1 <= 10 ^ e) by (apply (Z.pow_le_mono_r 10 0 e); lia).
    split.
    + intros H. apply andb_prop in H. destruct H as [H1 H2]. apply Z.eqb_eq in H1, H2. subst. cbn. lia.
    + intros H. destruct (Z.eq_dec e 0) as [->|Ne].
      * change (10 ^ 0) with 1 in H. rewrite Z.mul_1_r in H.
        assert (m = 1) by (change (2 ^ 53) with 9007199254740992 in H; lia). subst. reflexivity.
      * exfalso. assert (Q : 10 <= 10 ^ e) by (apply (Z.pow_le_mono_r 10 1 e); lia).
        change (2 ^ 53) with 9007199254740992 in H. nia.
  - apply Z.leb_gt in Ee. rewrite (Z.max_l 0 e) by lia. rewrite (Z.max_r 0 (- e)) by lia.
    change (10 ^ 0) with 1. rewrite Z.mul_1_r.
    destruct (Z.log2 m + 1 <=? 3 * - e) eqn:EL.
    + apply Z.leb_le in EL. split; [|reflexivity]. intros _.
      pose proof (gs_lt_pow2_log2 m Hm) as L1.
      assert (L2 : 2 ^ (Z.log2 m + 1) <= 2 ^ (3 * - e)) by (apply Z.pow_le_mono_r; lia).
      pose proof (gs_pow8_le_pow10 (- e) ltac:(lia)) as L3.
      change (2 ^ 53) with 9007199254740992. nia.
    + rewrite Z.leb_le. reflexivity.
Qed.

Lemma gs_tiny_bounds : 10 ^ 323 < 2 ^ 1075 /\ 2 ^ 1075 < 10 ^ 324.
Proof. split; vm_compute; reflexivity. Qed.

(* 0 <= float(- m * 10^e) *)
Theorem gs_ge_zero_spec m e : 0 < m ->
  (gs_ge_zero (GSDec true m e) = true <->
   m * 2 ^ 1075 * 10 ^ (Z.max 0 e) <= 10 ^ (Z.max 0 (- e))).
Proof.
  intros Hm. unfold gs_ge_zero.
  destruct (m =? 0) eqn:E0; [lia|].
  destruct gs_tiny_bounds as [B1 B2].
  assert (P2 : 0 < 2 ^ 1075) by (apply Z.pow_pos_nonneg; lia).
  destruct (-323 <=? e) eqn:E1.
  - apply Z.leb_le in E1. split; [discriminate|]. intros H. exfalso.
    assert (Q1 : 10 ^ (Z.max 0 (- e)) <= 10 ^ 323) by (apply Z.pow_le_mono_r; lia).
    assert (Q2 : 1 <= 10 ^ (Z.max 0 e)) by (apply (Z.pow_le_mono_r 10 0); lia).
    nia.
  - apply Z.leb_gt in E1. rewrite (Z.max_l 0 e) by lia. rewrite (Z.max_r 0 (- e)) by lia.
    change (10 ^ 0) with 1. rewrite Z.mul_1_r.
    destruct (325 + Z.log2 m <=? - e) eqn:E2.
    + apply Z.leb_le in E2. split; [|reflexivity]. intros _.
      pose proof (gs_lt_pow2_log2 m Hm) as L1.
      pose proof (Z.log2_nonneg m) as L0.
      pose proof (gs_pow2_le_pow10 (Z.log2 m + 1) ltac:(lia)) as L2.
      assert (L3 : 10 ^ (Z.log2 m + 1) * 10 ^ 324 <= 10 ^ (- e)).
      { rewrite <- Z.pow_add_r by lia. apply Z.pow_le_mono_r; lia. }
      assert (L4 : 0 < 10 ^ (Z.log2 m + 1)) by (apply Z.pow_pos_nonneg; lia).
      nia.
    + rewrite Z.leb_le. reflexivity.
Qed.

(* zero of either sign, infinities and nan *)
Lemma gs_unit_special :
  (forall neg e, gs_in_unit (GSDec neg 0 e) = true) /\
  gs_in_unit GSNan = false /\ (forall neg, gs_in_unit (GSInf neg) = false) /\
  (forall m e, gs_ge_zero (GSDec false m e) = true) /\ (forall m e, gs_le_one (GSDec true m e) = true).
Proof.
  split; [intros [|] e; reflexivity|]. split; [reflexivity|]. split; [intros [|]; reflexivity|].
  split; reflexivity.
Qed.
