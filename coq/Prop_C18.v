(* Property C18 — any command line ends in a usable formula or a clean error.
   What the theorem carries: argument validation + generator preconditions of the
   numeric sub-commands (coq/Cli.v).  argparse, graph specifications, files and
   the process exit paths are run-time behaviour covered by the monitor. *)
From Coq Require Import ZArith List Bool String.
From Cnfgen Require Import Cli CliFacts.
Import ListNotations.
Open Scope Z_scope.

(* for every sub-command name, every token list (integers or not, any number of
   them) and with or without --plant: a formula or a command-line error *)
Theorem C18_validated_never_crashes : forall planted name args,
  run_cli (table planted) name args <> OCrash.
Proof. exact run_cli_no_crash. Qed.
Print Assumptions C18_validated_never_crashes.

(* guard => precondition, spelled out for the most delicate generator *)
Theorem C18_pitfall_guard : forall args,
  run_cli (table false) "pitfall" args = OFormula ->
  exists v d ny nz k, args = [Some v; Some d; Some ny; Some nz; Some k] /\
    1 <= d < v /\ Z.even (v * d) = true /\ 1 <= ny /\ 2 <= nz /\ 1 <= k /\ Z.even k = true.
Proof. exact pitfall_accepted_precondition. Qed.
Print Assumptions C18_pitfall_guard.

(* the pinned tree (before the fix: commits) did crash *)
Theorem C18_as_found_vdw_refuted : run_cli (table_as_found false) "vdw" [Some 5; Some 1; Some 2] = OCrash.
Proof. exact as_found_vdw_crashes. Qed.
Print Assumptions C18_as_found_vdw_refuted.
Theorem C18_as_found_pitfall_refuted :
  run_cli (table_as_found false) "pitfall" [Some 4; Some 3; Some 2; Some 1; Some 2] = OCrash /\
  run_cli (table_as_found false) "pitfall" [Some 4; Some 4; Some 2; Some 2; Some 2] = OCrash.
Proof. exact as_found_pitfall_crashes. Qed.
Print Assumptions C18_as_found_pitfall_refuted.

Example C18_nonvacuous :
  run_cli (table false) "pitfall" [Some 4; Some 2; Some 2; Some 2; Some 2] = OFormula /\
  run_cli (table false) "vdw" [Some 5; Some 1; Some 2; Some 3] = OFormula /\
  run_cli (table false) "randkcnf" [Some 2; Some 3; Some 12] = OFormula /\
  run_cli (table false) "randkcnf" [Some 2; Some 3; Some 13] = OCliError /\
  run_cli (table true) "randkcnf" [Some 2; Some 3; Some 10] = OCliError /\
  run_cli (table false) "cpls" [Some 2; Some 3; Some 4] = OCliError /\
  run_cli (table false) "php" [Some 4; Some 3; None] = OCliError.
Proof. vm_compute. repeat split. Qed.
